import Driver.Solver
import Driver.Pipeline
import Driver.Linker
import Driver.Frame
import Driver.TimeSeries
import Driver.EvalIndex
import Driver.Reindex
import Driver.Fortran
import Driver.Expr
import Driver.Parser
import Driver.Heap
import Driver.Alias
import Driver.Tools
import Driver.Container
import Driver.Lexer
import Driver.Tokens
/-
Correspondence driver.  `.lake/build/bin/fsicdrv < requests > replies`  (or `lake env lean --run Main.lean`)
Each request line is `<kind>\t<json>`; each reply is one line (`!<message>` on a malformed request).
Every model family registers its handlers in its own `Driver/<Family>.lean`; this file only concatenates them.
-/
open Lean

def allHandlers : List (String × (Json → Except String String)) :=
  Drv.Solver.handlers2 ++
  Drv.Pipeline.handlers ++
  Drv.Linker.handlers ++
  Drv.Frame.handlers ++
  Drv.TimeSeries.handlers ++
  Drv.EvalIndex.handlers ++
  Drv.Reindex.handlers ++
  Drv.Fortran.handlers ++
  Drv.Expr.handlers ++
  Drv.Parser.handlers ++
  Drv.Heap.handlers ++
  Drv.Alias.handlers ++
  Drv.Tools.handlers ++
  Drv.Container.handlers ++
  Drv.Lexer.handlers ++
  Drv.Tokens.handlers

def dispatch (kind : String) (j : Json) : Except String String :=
  match allHandlers.lookup kind with
  | some h => h j
  | none => .error s!"unknown kind {kind}"

def handleLine (line : String) : String :=
  match line.splitOn "\t" with
  | [kind, payload] =>
    match Json.parse payload with
    | .ok j => match dispatch kind j with
      | .ok s => s
      | .error e => "!" ++ e
    | .error e => "!json: " ++ e
  | _ => "!malformed line"

partial def loop (hin hout : IO.FS.Stream) : IO Unit := do
  let line ← hin.getLine
  if line.isEmpty then return ()
  hout.putStrLn (handleLine line.trimAsciiEnd.toString)
  loop hin hout

def main : IO Unit := do
  let hin ← IO.getStdin
  let hout ← IO.getStdout
  loop hin hout
  hout.flush
