-- Root of the model library: import-free (core Lean only), total, executable definitions.
import FsicModel.Basic
import FsicModel.Solver
