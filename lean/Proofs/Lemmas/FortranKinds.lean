import FsicModel.Fortran
set_option linter.unusedSimpArgs false
set_option linter.unusedVariables false
/-
Agreement of the two denotations on the `KindSafe` fragment (helper for `Proofs/C07.lean`).
-/
namespace Fsic.Fortran

/-- What the agreement theorem needs from an interpretation of the two real kinds: literals that `exact4` calls
    exact widen to the real(8) literal, and negation commutes with widening.  Nothing is assumed about
    `+ - * / ** exp log abs max min` in either kind. -/
structure Coherent {F4 F8 : Type} (T : Tower F4 F8) (exact4 : Nat → Nat → Bool) : Prop where
  lit : ∀ m e, exact4 m e = true → T.up (T.o4.ofDec m e) = T.o8.ofDec m e
  neg : ∀ x, T.up (T.o4.neg x) = T.o8.neg (T.up x)

variable {α F4 F8 : Type}

theorem to8_eq_toF_lift (T : Tower F4 F8) (v : FVal F4 F8) : v.to8 T = (lift T v).toF T.o8 := by
  cases v <;> rfl

theorem agree_core (T : Tower F4 F8) (exact4 : Nat → Nat → Bool) (hc : Coherent T exact4)
    (cell ρ : α → Int → F8) :
    ∀ e : Expr α, kindSafe exact4 e = true → (∀ p ∈ e.refs, cell p.1 p.2 = ρ p.1 p.2) →
      ∃ v, denF T cell e = some v ∧ v.kind = kindOf e ∧ lift T v = denP T.o8 ρ e ∧
        (∀ n, v = .int n → intVal e = some n) := by
  intro e
  induction e with
  | int n => intro _ _; exact ⟨.int n, rfl, rfl, rfl, fun m h => by cases h; rfl⟩
  | dec m e =>
    intro hs _
    refine ⟨.r4 (T.o4.ofDec m e), rfl, rfl, ?_, fun n h => by cases h⟩
    have : exact4 m e = true := by simpa [kindSafe] using hs
    simp [lift, denP, hc.lit m e this]
  | var a off =>
    intro _ hr
    refine ⟨.r8 (cell a off), rfl, rfl, ?_, fun n h => by cases h⟩
    have := hr (a, off) (by simp [Expr.refs])
    simp [lift, denP, this]
  | neg x ih =>
    intro hs hr
    simp only [kindSafe, Bool.and_eq_true] at hs
    obtain ⟨vx, h1, h2, h3, h4⟩ := ih hs.1 (fun p hp => hr p (by simpa [Expr.refs] using hp))
    refine ⟨fNeg T vx, by simp [denF, h1], ?_, ?_, ?_⟩
    · cases vx <;> simpa [fNeg, FVal.kind, kindOf] using h2
    · cases vx with
      | int a => simp [fNeg, lift, denP, ← h3, pyNeg]
      | r4 a => simp [fNeg, lift, denP, ← h3, pyNeg, hc.neg]
      | r8 a => simp [fNeg, lift, denP, ← h3, pyNeg]
    · intro n hn
      cases vx with
      | int a => simp [fNeg] at hn; simp [intVal, h4 a rfl, hn]
      | r4 a => simp [fNeg] at hn
      | r8 a => simp [fNeg] at hn
  | bin op x y ihx ihy =>
    intro hs hr
    simp only [kindSafe, Bool.and_eq_true] at hs
    obtain ⟨vx, x1, x2, x3, x4⟩ := ihx hs.1.1 (fun p hp => hr p (by simp [Expr.refs, hp]))
    obtain ⟨vy, y1, y2, y3, y4⟩ := ihy hs.1.2 (fun p hp => hr p (by simp [Expr.refs, hp]))
    have hk := hs.2
    refine ⟨fBin T op vx vy, by simp [denF, x1, y1, bind2], ?_⟩
    rw [show denP T.o8 ρ (.bin op x y) = pyBin T.o8 op (lift T vx) (lift T vy) by simp [denP, x3, y3]]
    cases vx with
    | int a =>
      cases vy with
      | int b =>
        simp only [FVal.kind] at x2 y2
        rw [← x2, ← y2] at hk
        have ia := x4 a rfl
        have ib := y4 b rfl
        cases op with
        | add => exact ⟨by simp [fBin, FVal.kind, kindOf, ← x2, ← y2], by simp [fBin, lift, pyBin, fIntBin],
            fun n hn => by simp [fBin] at hn; simp [intVal, ia, ib, bind2, hn]⟩
        | sub => exact ⟨by simp [fBin, FVal.kind, kindOf, ← x2, ← y2], by simp [fBin, lift, pyBin, fIntBin],
            fun n hn => by simp [fBin] at hn; simp [intVal, ia, ib, bind2, hn]⟩
        | mul => exact ⟨by simp [fBin, FVal.kind, kindOf, ← x2, ← y2], by simp [fBin, lift, pyBin, fIntBin],
            fun n hn => by simp [fBin] at hn; simp [intVal, ia, ib, bind2, hn]⟩
        | div => simp at hk
        | pow =>
          have hb : 0 ≤ b := by
            have := hk
            simp [nonNegConst, ib] at this
            exact this.1
          exact ⟨by simp [fBin, FVal.kind, kindOf, ← x2, ← y2],
            by simp [fBin, lift, pyBin, fIntBin, fIntPow, pyIntPow, hb],
            fun n hn => by simp [fBin] at hn; simp [intVal, ia, ib, bind2, hn]⟩
      | r4 b =>
        simp only [FVal.kind] at x2 y2
        rw [← x2, ← y2] at hk
        simp at hk
      | r8 b =>
        simp only [FVal.kind] at x2 y2
        exact ⟨by simp [fBin, FVal.kind, kindOf, ← x2, ← y2],
          by simp [fBin, lift, pyBin, FVal.to8, PVal.toF], fun n hn => by simp [fBin] at hn⟩
    | r4 a =>
      cases vy with
      | int b =>
        simp only [FVal.kind] at x2 y2
        rw [← x2, ← y2] at hk
        simp at hk
      | r4 b =>
        simp only [FVal.kind] at x2 y2
        rw [← x2, ← y2] at hk
        simp at hk
      | r8 b =>
        simp only [FVal.kind] at x2 y2
        exact ⟨by simp [fBin, FVal.kind, kindOf, ← x2, ← y2],
          by simp [fBin, lift, pyBin, FVal.to8, PVal.toF], fun n hn => by simp [fBin] at hn⟩
    | r8 a =>
      cases vy with
      | int b =>
        simp only [FVal.kind] at x2 y2
        rw [← x2, ← y2] at hk
        cases op with
        | pow => simp at hk
        | add => exact ⟨by simp [fBin, FVal.kind, kindOf, ← x2, ← y2],
            by simp [fBin, lift, pyBin, FVal.to8, PVal.toF, RealOps.bin], fun n hn => by simp [fBin] at hn⟩
        | sub => exact ⟨by simp [fBin, FVal.kind, kindOf, ← x2, ← y2],
            by simp [fBin, lift, pyBin, FVal.to8, PVal.toF, RealOps.bin], fun n hn => by simp [fBin] at hn⟩
        | mul => exact ⟨by simp [fBin, FVal.kind, kindOf, ← x2, ← y2],
            by simp [fBin, lift, pyBin, FVal.to8, PVal.toF, RealOps.bin], fun n hn => by simp [fBin] at hn⟩
        | div => exact ⟨by simp [fBin, FVal.kind, kindOf, ← x2, ← y2],
            by simp [fBin, lift, pyBin, FVal.to8, PVal.toF, RealOps.bin], fun n hn => by simp [fBin] at hn⟩
      | r4 b =>
        simp only [FVal.kind] at x2 y2
        exact ⟨by simp [fBin, FVal.kind, kindOf, ← x2, ← y2],
          by simp [fBin, lift, pyBin, FVal.to8, PVal.toF], fun n hn => by simp [fBin] at hn⟩
      | r8 b =>
        simp only [FVal.kind] at x2 y2
        exact ⟨by simp [fBin, FVal.kind, kindOf, ← x2, ← y2],
          by simp [fBin, lift, pyBin, FVal.to8, PVal.toF], fun n hn => by simp [fBin] at hn⟩
  | fn1 f x ih =>
    intro hs hr
    simp only [kindSafe, Bool.and_eq_true] at hs
    obtain ⟨vx, x1, x2, x3, x4⟩ := ih hs.1 (fun p hp => hr p (by simpa [Expr.refs] using hp))
    have hk := hs.2
    rw [show denP T.o8 ρ (.fn1 f x) = pyFn1 T.o8 f (lift T vx) by simp [denP, x3]]
    cases vx with
    | int a =>
      simp only [FVal.kind] at x2
      rw [← x2] at hk
      have ia := x4 a rfl
      cases f with
      | abs =>
        exact ⟨.int (Int.ofNat a.natAbs), by simp [denF, x1, fFn1], by simp [FVal.kind, kindOf, ← x2],
          by simp [lift, pyFn1], fun n hn => by cases hn; simp [intVal, ia]⟩
      | exp => simp at hk
      | log => simp at hk
    | r4 a =>
      simp only [FVal.kind] at x2
      rw [← x2] at hk
      simp at hk
    | r8 a =>
      simp only [FVal.kind] at x2
      exact ⟨.r8 (T.o8.fn1 f a), by simp [denF, x1, fFn1], by simp [FVal.kind, kindOf, ← x2],
        by simp [lift, pyFn1], fun n hn => by cases hn⟩
  | fn2 f x y ihx ihy =>
    intro hs hr
    simp only [kindSafe, Bool.and_eq_true] at hs
    obtain ⟨vx, x1, x2, x3, x4⟩ := ihx hs.1.1 (fun p hp => hr p (by simp [Expr.refs, hp]))
    obtain ⟨vy, y1, y2, y3, y4⟩ := ihy hs.1.2 (fun p hp => hr p (by simp [Expr.refs, hp]))
    have hk := hs.2
    rw [show denP T.o8 ρ (.fn2 f x y) = pyFn2 T.o8 f (lift T vx) (lift T vy) by simp [denP, x3, y3]]
    cases vx with
    | int a =>
      cases vy with
      | int b =>
        simp only [FVal.kind] at x2 y2
        have ia := x4 a rfl
        have ib := y4 b rfl
        cases f with
        | max =>
          exact ⟨.int (if b > a then b else a), by simp [denF, x1, y1, bind2, fFn2],
            by simp [FVal.kind, kindOf, ← x2, ← y2], by simp [lift, pyFn2],
            fun n hn => by cases hn; simp [intVal, ia, ib, bind2]⟩
        | min =>
          exact ⟨.int (if b < a then b else a), by simp [denF, x1, y1, bind2, fFn2],
            by simp [FVal.kind, kindOf, ← x2, ← y2], by simp [lift, pyFn2],
            fun n hn => by cases hn; simp [intVal, ia, ib, bind2]⟩
      | r4 b =>
        simp only [FVal.kind] at x2 y2
        rw [← x2, ← y2] at hk
        simp at hk
      | r8 b =>
        simp only [FVal.kind] at x2 y2
        rw [← x2, ← y2] at hk
        simp at hk
    | r4 a =>
      cases vy with
      | int b =>
        simp only [FVal.kind] at x2 y2
        rw [← x2, ← y2] at hk
        simp at hk
      | r4 b =>
        simp only [FVal.kind] at x2 y2
        rw [← x2, ← y2] at hk
        simp at hk
      | r8 b =>
        simp only [FVal.kind] at x2 y2
        exact ⟨.r8 (T.o8.fn2 f (T.up a) b), by simp [denF, x1, y1, bind2, fFn2, FVal.to8],
          by simp [FVal.kind, kindOf, ← x2, ← y2], by simp [lift, pyFn2, PVal.toF], fun n hn => by cases hn⟩
    | r8 a =>
      cases vy with
      | int b =>
        simp only [FVal.kind] at x2 y2
        rw [← x2, ← y2] at hk
        simp at hk
      | r4 b =>
        simp only [FVal.kind] at x2 y2
        exact ⟨.r8 (T.o8.fn2 f a (T.up b)), by simp [denF, x1, y1, bind2, fFn2, FVal.to8],
          by simp [FVal.kind, kindOf, ← x2, ← y2], by simp [lift, pyFn2, PVal.toF], fun n hn => by cases hn⟩
      | r8 b =>
        simp only [FVal.kind] at x2 y2
        exact ⟨.r8 (T.o8.fn2 f a b), by simp [denF, x1, y1, bind2, fFn2, FVal.to8],
          by simp [FVal.kind, kindOf, ← x2, ← y2], by simp [lift, pyFn2, PVal.toF], fun n hn => by cases hn⟩

end Fsic.Fortran
