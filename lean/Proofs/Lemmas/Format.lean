import Proofs.Lemmas.Normalise
set_option linter.unusedSimpArgs false
set_option linter.unusedVariables false
/-
`str.format` on templates whose only braces are `{}` pairs (the shape `parse_equation` produces when every brace
of the statement lies inside a matched term), and preservation of that shape by the whitespace normalisation.
-/
namespace Fsic.Lx

/-- `Auto n t`: the only braces of `t` are `n` adjacent `{}` pairs. -/
inductive Auto : Nat → List Char → Prop
  | nil : Auto 0 []
  | lit {n : Nat} {t : List Char} (c : Char) : c ≠ '{' → c ≠ '}' → Auto n t → Auto n (c :: t)
  | field {n : Nat} {t : List Char} : Auto n t → Auto (n + 1) ('{' :: '}' :: t)

/-- pieces that are literals and exactly `n` automatic fields -/
inductive AutoP : Nat → List Piece → Prop
  | nil : AutoP 0 []
  | lit {n : Nat} {ps : List Piece} (c : Char) : AutoP n ps → AutoP n (.lit c :: ps)
  | field {n : Nat} {ps : List Piece} : AutoP n ps → AutoP (n + 1) (.field [] :: ps)

/-- the formatted text: literals copied, the k-th field replaced by the k-th argument -/
def renderP : List Piece → List (List Char) → List Char
  | [], _ => []
  | .lit c :: ps, as => c :: renderP ps as
  | .field _ :: ps, a :: as => a ++ renderP ps as
  | _ :: ps, as => renderP ps as

theorem fmtPieces_auto {n : Nat} {t : List Char} (h : Auto n t) : AutoP n (fmtPieces none t) := by
  induction h with
  | nil => rw [fmtPieces.eq_1]; exact .nil
  | lit c h1 h2 _ ih =>
    rw [fmtPieces.eq_6 c _ (fun _ hc _ => h1 hc) h1 (fun _ hc _ => h2 hc) h2]
    exact .lit c ih
  | field _ ih =>
    rw [fmtPieces.eq_3 _ (fun cs h => by simp at h), fmtPieces.eq_8]
    simp only [beq_self_eq_true, if_true, List.reverse_nil]
    exact .field ih

theorem prepend_ok (p s : List Char) : (Fmt.ok s).prepend p = .ok (p ++ s) := rfl
theorem prepend_fail (p : List Char) : Fmt.fail.prepend p = .fail := rfl

theorem fmtRun_auto {n : Nat} {ps : List Piece} (h : AutoP n ps) : ∀ (args : List (List Char)) (k : Nat),
    k + n ≤ args.length → fmtRun args (.auto k) ps = .ok (renderP ps (args.drop k)) := by
  induction h with
  | nil => intro args k _; rfl
  | lit c _ ih =>
    intro args k hk
    simp only [fmtRun, ih args k hk, prepend_ok, renderP]
    rfl
  | @field n ps _ ih =>
    intro args k hk
    have hlt : k < args.length := by omega
    have hd : args.drop k = args[k] :: args.drop (k + 1) := List.drop_eq_getElem_cons hlt
    simp only [fmtRun, List.isEmpty_nil, if_true, List.getElem?_eq_getElem hlt,
      ih args (k + 1) (by omega), prepend_ok, hd, renderP]

theorem fmtRun_unset {n : Nat} {ps : List Piece} (h : AutoP n ps) (args : List (List Char)) :
    fmtRun args .unset ps = fmtRun args (.auto 0) ps := by
  induction h with
  | nil => rfl
  | lit c _ ih => simp only [fmtRun, ih]
  | field _ _ => simp only [fmtRun, List.isEmpty_nil, if_true]

theorem fmtRun_auto_short {n : Nat} {ps : List Piece} (h : AutoP n ps) : ∀ (args : List (List Char)) (k : Nat),
    k ≤ args.length → args.length < k + n → fmtRun args (.auto k) ps = .fail := by
  induction h with
  | nil => intro args k h1 h2; omega
  | lit c _ ih =>
    intro args k h1 h2
    simp only [fmtRun, ih args k h1 h2, prepend_fail]
  | @field n ps _ ih =>
    intro args k h1 h2
    by_cases hlt : k < args.length
    · simp only [fmtRun, List.isEmpty_nil, if_true, List.getElem?_eq_getElem hlt,
        ih args (k + 1) (by omega) (by omega), prepend_fail]
    · have : args[k]? = none := List.getElem?_eq_none (by omega)
      simp only [fmtRun, List.isEmpty_nil, if_true, this]

/-! ## The whitespace normalisation keeps the shape -/

/-- `t` is obtained from `s` by deleting whitespace characters or replacing them by a blank. -/
inductive WsEdit : List Char → List Char → Prop
  | nil : WsEdit [] []
  | keep {s t : List Char} (c : Char) : WsEdit s t → WsEdit (c :: s) (c :: t)
  | drop {s t : List Char} (c : Char) : isSpace c = true → WsEdit s t → WsEdit (c :: s) t
  | blank {s t : List Char} (c : Char) : isSpace c = true → WsEdit s t → WsEdit (c :: s) (' ' :: t)

theorem WsEdit.refl : ∀ s, WsEdit s s
  | [] => .nil
  | c :: cs => .keep c (WsEdit.refl cs)

theorem WsEdit.trans {a b : List Char} (h1 : WsEdit a b) : ∀ {c : List Char}, WsEdit b c → WsEdit a c := by
  induction h1 with
  | nil => intro c h2; exact h2
  | keep x _ ih =>
    intro c h2
    cases h2 with
    | keep _ h => exact .keep x (ih h)
    | drop _ hs h => exact .drop x hs (ih h)
    | blank _ hs h => exact .blank x hs (ih h)
  | drop x hs _ ih => intro c h2; exact .drop x hs (ih h2)
  | blank x hs _ ih =>
    intro c h2
    cases h2 with
    | keep _ h => exact .blank x hs (ih h)
    | drop _ _ h => exact .drop x hs (ih h)
    | blank _ _ h => exact .blank x hs (ih h)

theorem wsEdit_collapse : ∀ s, WsEdit s (collapseWs s)
  | [] => by simp [collapseWs]; exact .nil
  | [c] => by
    by_cases hc : isSpace c = true
    · rw [collapse_ws_nil c hc]; exact .blank c hc .nil
    · have hc' : isSpace c = false := by simpa using hc
      rw [collapse_ns c [] hc']; exact .keep c (by simp [collapseWs]; exact .nil)
  | c :: d :: cs => by
    have ih := wsEdit_collapse (d :: cs)
    by_cases hc : isSpace c = true
    · by_cases hd : isSpace d = true
      · rw [collapse_ws_ws c d cs hc hd]; exact .drop c hc ih
      · have hd' : isSpace d = false := by simpa using hd
        rw [collapse_ws_ns c d cs hc hd']; exact .blank c hc ih
    · have hc' : isSpace c = false := by simpa using hc
      rw [collapse_ns c _ hc']; exact .keep c ih

theorem wsEdit_afterOpen : ∀ (dr : Bool) (s : List Char), WsEdit s (afterOpenGo dr s)
  | _, [] => .nil
  | dr, c :: cs => by
    simp only [afterOpenGo]
    split
    · rename_i h; simp at h; exact .drop c h.2 (wsEdit_afterOpen true cs)
    · exact .keep c (wsEdit_afterOpen _ cs)

theorem wsEdit_beforeClose : ∀ (s : List Char), WsEdit s (beforeCloseGo s).1
  | [] => .nil
  | c :: cs => by
    simp only [beforeCloseGo, bcStep]
    split
    · rename_i h; simp at h; exact .drop c h.1 (wsEdit_beforeClose cs)
    · exact .keep c (wsEdit_beforeClose cs)

theorem wsEdit_normalise (s : List Char) : WsEdit s (normaliseWs s) :=
  (wsEdit_collapse s).trans ((wsEdit_afterOpen false _).trans (wsEdit_beforeClose _))

theorem lbrace_not_space : isSpace '{' = false := by decide
theorem rbrace_not_space : isSpace '}' = false := by decide

theorem Auto.wsEdit {n : Nat} {s : List Char} (ha : Auto n s) : ∀ {t : List Char}, WsEdit s t → Auto n t := by
  induction ha with
  | nil => intro t he; cases he; exact .nil
  | lit c h1 h2 _ ih =>
    intro t he
    cases he with
    | keep _ he' => exact .lit c h1 h2 (ih he')
    | drop _ _ he' => exact ih he'
    | blank _ _ he' => exact .lit ' ' (by decide) (by decide) (ih he')
  | field _ ih =>
    intro t he
    cases he with
    | keep _ he' =>
      cases he' with
      | keep _ he'' => exact .field (ih he'')
      | drop _ hs _ => rw [rbrace_not_space] at hs; cases hs
      | blank _ hs _ => rw [rbrace_not_space] at hs; cases hs
    | drop _ hs _ => rw [lbrace_not_space] at hs; cases hs
    | blank _ hs _ => rw [lbrace_not_space] at hs; cases hs

theorem Auto.normalise {n : Nat} {s : List Char} (ha : Auto n s) : Auto n (normaliseWs s) :=
  ha.wsEdit (wsEdit_normalise s)

/-! ## The template -/

theorem spansFrom_nil_of_le {lo hi : Nat} (h : hi ≤ lo) : ∀ {ms : List RawMatch}, SpansFrom lo hi ms → ms = []
  | [], _ => rfl
  | m :: ms, ⟨h1, h2, h3, _⟩ => by omega

/-- If no brace is left once the match spans are removed (`outside` in `parse_equation`), the template — every
    span replaced by `{}` — has exactly one automatic field per match and no other brace. -/
theorem template_auto : ∀ (s : List Char) (skip pos : Nat) (ms : List RawMatch),
    SpansFrom (pos + skip) (pos + s.length) ms → (outsideGo skip pos ms s).any isBrace = false →
    Auto ms.length (templateGo skip pos ms s)
  | [], skip, pos, ms, hs, _ => by
    have : ms = [] := spansFrom_nil_of_le (by simp) hs
    subst this
    cases skip <;> simp [templateGo] <;> exact .nil
  | c :: cs, skip + 1, pos, ms, hs, hb => by
    simp only [outsideGo] at hb
    simp only [templateGo]
    refine template_auto cs skip (pos + 1) ms ?_ hb
    have e1 : pos + 1 + skip = pos + (skip + 1) := by omega
    have e2 : pos + 1 + cs.length = pos + (c :: cs).length := by simp; omega
    rw [e1, e2]; exact hs
  | c :: cs, 0, pos, [], hs, hb => by
    simp only [outsideGo, List.any_cons, Bool.or_eq_false_iff] at hb
    simp only [templateGo]
    have hc : c ≠ '{' ∧ c ≠ '}' := by
      have := hb.1; simp [isBrace] at this; exact this
    exact .lit c hc.1 hc.2 (template_auto cs 0 (pos + 1) [] trivial hb.2)
  | c :: cs, 0, pos, m :: ms, hs, hb => by
    obtain ⟨h1, h2, h3, h4⟩ := hs
    simp only [List.length_cons] at h3
    simp only [outsideGo] at hb
    simp only [templateGo]
    split at hb
    · rename_i hp
      simp only [hp, if_true, List.length_cons]
      have hp' : pos = m.start := by simpa using hp
      refine .field (template_auto cs _ (pos + 1) ms ?_ hb)
      have e1 : pos + 1 + (m.stop - m.start - 1) = m.stop := by omega
      have e2 : pos + 1 + cs.length = pos + (cs.length + 1) := by omega
      rw [e1, e2]; exact h4
    · rename_i hp
      simp only [hp, if_false]
      have hp' : pos ≠ m.start := by simpa using hp
      simp only [List.any_cons, Bool.or_eq_false_iff] at hb
      have hc : c ≠ '{' ∧ c ≠ '}' := by
        have := hb.1; simp [isBrace] at this; exact this
      refine .lit c hc.1 hc.2 (template_auto cs 0 (pos + 1) (m :: ms) ?_ hb.2)
      have e2 : pos + 1 + cs.length = pos + (cs.length + 1) := by omega
      rw [e2]
      exact ⟨by simp at h1; omega, h2, h3, h4⟩

/-! ## Term counts -/

theorem termsOf_length : ∀ (ms : List RawMatch) (ts : List Term), termsOf ms = some ts → ts.length = ms.length
  | [], ts, h => by simp [termsOf] at h; subst h; rfl
  | m :: ms, ts, h => by
    unfold termsOf at h
    split at h
    · rename_i ix _
      cases ht : termsOf ms with
      | none => rw [ht] at h; simp at h
      | some ts' =>
        rw [ht] at h; simp at h; subst h
        simp [termsOf_length ms ts' ht]
    · cases h

theorem equationTerms_ok (s : List Char) (lt rt : List Term) (h : equationTerms s = .ok (lt, rt)) :
    ∃ l r, splitAtEq s = some (l, r) ∧ lt.length = (scanTerms l).length ∧ rt.length = (scanTerms r).length := by
  unfold equationTerms at h
  split at h
  · cases h
  · rename_i l r hs
    split at h
    · cases h
    · rename_i lt' hl
      split at h
      · cases h
      · rename_i rt' hr
        split at h
        · cases h
        · simp at h
          obtain ⟨rfl, rfl⟩ := h
          exact ⟨l, r, hs, termsOf_length _ _ hl, termsOf_length _ _ hr⟩

theorem equationTerms_err (s : List Char) (e : PErr) (h : equationTerms s = .error e) : e = .parserError := by
  unfold equationTerms at h
  split at h
  · simp at h; exact h.symm
  · split at h
    · simp at h; exact h.symm
    · split at h
      · simp at h; exact h.symm
      · split at h
        · simp at h; exact h.symm
        · cases h

/-! ## The symbol loop raises only ParserError or SymbolError -/

theorem symLoop_errors : ∀ (ts : List (Bool × Term)) (syms : List (List Char × SymT)) (funcs : List (List Char))
    (e : PErr), symLoop syms funcs ts = .error e → e = .parserError ∨ e = .indentationError ∨ e = .symbolError
  | [], _, _, e, h => by simp [symLoop] at h
  | (lhs, t) :: ts, syms, funcs, e, h => by
    unfold symLoop at h
    split at h
    · exact symLoop_errors ts _ _ e h
    · split at h
      · split at h
        · exact symLoop_errors ts _ _ e h
        · split at h
          · simp at h; exact Or.inl h.symm
          · exact symLoop_errors ts _ _ e h
      · split at h
        · simp at h; exact Or.inl h.symm
        · split at h
          · exact symLoop_errors ts _ _ e h
          · split at h
            · exact symLoop_errors ts _ _ e h
            · simp at h; exact Or.inr (Or.inr h.symm)

end Fsic.Lx
