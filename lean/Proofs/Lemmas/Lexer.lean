import FsicModel.Lexer
set_option linter.unusedSimpArgs false
set_option linter.unusedVariables false
/-
Helper lemmas about M2 (`FsicModel/Lexer.lean`): `spanP`, `stripPrefix`, consumption bounds of every alternative
of `term_re` (what the totality of `scanTerms` rests on).  Property theorems live in `Proofs/C13.lean`,
`Proofs/C14.lean`; the single-step scanner lemmas for `scan_render` are in `Proofs/Lemmas/ScanRender.lean`.
-/
namespace Fsic.Lx

/-! ## spanP -/

@[simp] theorem consFst_fst {α β} (x : α) (p : List α × β) : (consFst x p).1 = x :: p.1 := rfl
@[simp] theorem consFst_snd {α β} (x : α) (p : List α × β) : (consFst x p).2 = p.2 := rfl

theorem spanP_cons_true (p : Char → Bool) (c : Char) (cs : List Char) (h : p c = true) :
    spanP p (c :: cs) = (c :: (spanP p cs).1, (spanP p cs).2) := by
  simp [spanP, h, consFst]

theorem spanP_cons_false (p : Char → Bool) (c : Char) (cs : List Char) (h : p c = false) :
    spanP p (c :: cs) = ([], c :: cs) := by
  simp [spanP, h]

/-- `spanP` splits the list. -/
theorem spanP_append_eq (p : Char → Bool) : ∀ s, (spanP p s).1 ++ (spanP p s).2 = s
  | [] => by simp [spanP]
  | c :: cs => by
    by_cases h : p c = true
    · rw [spanP_cons_true p c cs h]; simp [spanP_append_eq p cs]
    · have h' : p c = false := by simpa using h
      rw [spanP_cons_false p c cs h']; simp

theorem spanP_length (p : Char → Bool) (s : List Char) :
    (spanP p s).1.length + (spanP p s).2.length = s.length := by
  have := congrArg List.length (spanP_append_eq p s)
  simpa using this

theorem spanP_snd_le (p : Char → Bool) (s : List Char) : (spanP p s).2.length ≤ s.length := by
  have := spanP_length p s; omega

theorem spanP_fst_all (p : Char → Bool) : ∀ s, ∀ c ∈ (spanP p s).1, p c = true
  | [] => by simp [spanP]
  | d :: ds => by
    by_cases h : p d = true
    · rw [spanP_cons_true p d ds h]
      intro c hc
      rcases List.mem_cons.mp hc with rfl | hc
      · exact h
      · exact spanP_fst_all p ds c hc
    · have h' : p d = false := by simpa using h
      rw [spanP_cons_false p d ds h']; simp

theorem spanP_snd_head (p : Char → Bool) : ∀ s c r, (spanP p s).2 = c :: r → p c = false
  | [], c, r, h => by simp [spanP] at h
  | d :: ds, c, r, h => by
    by_cases hd : p d = true
    · rw [spanP_cons_true p d ds hd] at h
      exact spanP_snd_head p ds c r h
    · have h' : p d = false := by simpa using hd
      rw [spanP_cons_false p d ds h'] at h
      simp at h; rw [← h.1]; exact h'

/-- The span of `xs ++ rest` is exactly `xs` when all of `xs` satisfies `p` and `rest` starts with a character
    that does not. -/
theorem spanP_append (p : Char → Bool) (xs rest : List Char) (h : ∀ c ∈ xs, p c = true)
    (hr : ∀ c, rest.head? = some c → p c = false) : spanP p (xs ++ rest) = (xs, rest) := by
  induction xs with
  | nil =>
    cases rest with
    | nil => simp [spanP]
    | cons r rs => simp [spanP, hr r rfl]
  | cons x xs ih =>
    have hx : p x = true := h x (by simp)
    have := ih (fun c hc => h c (by simp [hc]))
    simp [spanP, hx, this, consFst]

theorem spanP_snd_suffix (p : Char → Bool) (s : List Char) : ∀ c ∈ (spanP p s).2, c ∈ s := by
  intro c hc
  rw [← spanP_append_eq p s]; exact List.mem_append_right _ hc

/-! ## stripPrefix -/

theorem stripPrefix_append (k r : List Char) : stripPrefix k (k ++ r) = some r := by
  induction k with
  | nil => rfl
  | cons x xs ih => simp [stripPrefix, ih]

theorem stripPrefix_some : ∀ (k s r : List Char), stripPrefix k s = some r → s = k ++ r
  | [], s, r, h => by simp [stripPrefix] at h; simp [h]
  | _ :: _, [], r, h => by simp [stripPrefix] at h
  | x :: xs, c :: cs, r, h => by
    unfold stripPrefix at h
    split at h
    · rename_i hxc
      have := stripPrefix_some xs cs r h
      simp at hxc
      simp [hxc, this]
    · cases h

/-! ## Every alternative consumes at least one character and never more than is there -/

theorem verbAt_len (s : List Char) (m : M) (h : verbAt s = some m) : 0 < m.len ∧ m.len ≤ s.length := by
  unfold verbAt at h
  split at h
  · rename_i c1 r
    split at h
    · cases h
    · have hl := spanP_length notTickNl r
      generalize hsp : spanP notTickNl r = q at h hl
      obtain ⟨body, rest⟩ := q
      unfold verbClose at h
      split at h
      · rename_i b tl heq
        simp at heq
        obtain ⟨rfl, rfl⟩ := heq
        simp at h; subst h
        simp at hl ⊢; omega
      · cases h
  · cases h

theorem invalidTail_len (n : Nat) (rest : List Char) (k : Nat) (h : invalidTail n rest = some k) :
    n < k ∧ k ≤ n + rest.length := by
  unfold invalidTail at h
  have hl := spanP_length isSpace rest
  generalize hsp : spanP isSpace rest = q at h hl
  obtain ⟨ws, r1⟩ := q
  unfold invalidOpen at h
  split at h
  · rename_i ws' r2 heq
    simp at heq; obtain ⟨rfl, rfl⟩ := heq
    have hl2 := spanP_length notRBrNl r2
    generalize hsp2 : spanP notRBrNl r2 = q2 at h hl2
    obtain ⟨body, r3⟩ := q2
    unfold invalidClose at h
    split at h
    · rename_i b tl heq2
      simp at heq2; obtain ⟨rfl, rfl⟩ := heq2
      simp at h; subst h
      simp at hl hl2 ⊢; omega
    · cases h
  · cases h

theorem invalidLen_len (kws : List (List Char)) (s : List Char) (k : Nat) (h : invalidLen kws s = some k) :
    0 < k ∧ k ≤ s.length := by
  induction kws with
  | nil => simp [invalidLen] at h
  | cons kw kws ih =>
    unfold invalidLen at h
    split at h
    · rename_i rest hsp
      have hs := stripPrefix_some kw s rest hsp
      split at h
      · rename_i n hn
        simp at h; subst h
        have := invalidTail_len kw.length rest n hn
        subst hs; simp; omega
      · exact ih h
    · exact ih h

theorem invalidAt_len (kws : List (List Char)) (s : List Char) (m : M) (h : invalidAt kws s = some m) :
    0 < m.len ∧ m.len ≤ s.length := by
  unfold invalidAt at h
  split at h
  · rename_i n hn
    simp at h; subst h
    exact invalidLen_len kws s n hn
  · cases h

theorem keywordName_len (kws : List (List Char)) (hk : ∀ kw ∈ kws, kw ≠ []) (s kw : List Char)
    (h : keywordName kws s = some kw) : 0 < kw.length ∧ kw.length ≤ s.length := by
  induction kws with
  | nil => simp [keywordName] at h
  | cons k ks ih =>
    have ih := ih (fun kw hkw => hk kw (by simp [hkw]))
    unfold keywordName at h
    split at h
    · rename_i rest hsp
      split at h
      · simp at h; subst h
        have hs := stripPrefix_some k s rest hsp
        have hne := hk k (by simp)
        subst hs
        constructor
        · exact List.length_pos_iff.mpr hne
        · simp
      · exact ih h
    · exact ih h

theorem keywordAt_len (kws : List (List Char)) (hk : ∀ kw ∈ kws, kw ≠ []) (pw : Bool) (s : List Char) (m : M)
    (h : keywordAt kws pw s = some m) : 0 < m.len ∧ m.len ≤ s.length := by
  unfold keywordAt at h
  split at h
  · cases h
  · split at h
    · rename_i kw hkw
      simp at h; subst h
      exact keywordName_len kws hk s kw hkw
    · cases h

theorem functionAt_len (s : List Char) (m : M) (h : functionAt s = some m) : 0 < m.len ∧ m.len ≤ s.length := by
  unfold functionAt at h
  split at h
  · rename_i c cs
    split at h
    · rename_i hc
      have hf : isFnChar c = true := by simp [isFnChar, isIdChar, hc]
      have hl := spanP_length isFnChar (c :: cs)
      rw [spanP_cons_true isFnChar c cs hf] at h hl
      unfold fnRun at h
      simp only at h hl
      have hl2 := spanP_length isSpace (spanP isFnChar cs).2
      generalize hsp2 : spanP isSpace (spanP isFnChar cs).2 = q2 at h hl2
      obtain ⟨ws, r2⟩ := q2
      unfold fnLook at h
      split at h
      · rename_i ws' tl heq
        simp at heq; obtain ⟨rfl, rfl⟩ := heq
        simp at h; subst h
        simp at hl hl2 ⊢; omega
      · cases h
    · cases h
  · cases h

theorem idxClose_len (n : Nat) (p : List Char × List Char) (ix : List Char) (k : Nat)
    (h : idxClose n p = some (ix, k)) : n + 2 ≤ k ∧ k ≤ n + p.1.length + p.2.length + 1 := by
  obtain ⟨t, r⟩ := p
  unfold idxClose at h
  split at h
  · rename_i t' tl heq
    simp at heq; obtain ⟨rfl, rfl⟩ := heq
    split at h
    · cases h
    · simp at h; obtain ⟨_, rfl⟩ := h
      simp
  · cases h

theorem indexPart_len (s ix : List Char) (k : Nat) (h : indexPart s = some (ix, k)) : 2 ≤ k ∧ k ≤ s.length := by
  unfold indexPart at h
  split at h
  · rename_i r
    unfold idxOpen at h
    have hl := spanP_length isSpace r
    have hl2 := spanP_length notRBr (spanP isSpace r).2
    have := idxClose_len _ _ ix k h
    simp at this ⊢; omega
  · cases h

theorem withIndex_len (kind : Kind) (name : List Char) (base : Nat) (rest : List Char) :
    base ≤ (withIndex kind name base rest).len ∧ (withIndex kind name base rest).len ≤ base + rest.length := by
  unfold withIndex
  cases h : indexPart rest with
  | none => simp [withIndexR]
  | some p =>
    obtain ⟨ix, k⟩ := p
    have := indexPart_len rest ix k h
    simp [withIndexR]; omega

theorem brAt_len (o c : Char) (kind : Kind) (s : List Char) (m : M) (h : brAt o c kind s = some m) :
    0 < m.len ∧ m.len ≤ s.length := by
  unfold brAt at h
  split at h
  · rename_i d r
    split at h
    · have hl1 := spanP_length isSpace r
      generalize hsp1 : spanP isSpace r = q1 at h hl1
      obtain ⟨ws1, r1⟩ := q1
      unfold brName at h
      split at h
      · rename_i ws' x r' heq
        simp at heq; obtain ⟨rfl, rfl⟩ := heq
        split at h
        · unfold brClose at h
          have hl2 := spanP_length isIdChar (x :: r')
          generalize hsp2 : spanP isIdChar (x :: r') = q2 at h hl2
          obtain ⟨nm, r2⟩ := q2
          simp only at h
          have hl3 := spanP_length isSpace r2
          generalize hsp3 : spanP isSpace r2 = q3 at h hl3
          obtain ⟨ws2, r3⟩ := q3
          unfold brFin at h
          split at h
          · rename_i ws'' y r4 heq3
            simp at heq3; obtain ⟨rfl, rfl⟩ := heq3
            split at h
            · simp at h; subst h
              have := withIndex_len kind nm (1 + ws1.length + nm.length + ws2.length + 1) r4
              simp at hl1 hl2 hl3 ⊢; omega
            · cases h
          · cases h
        · cases h
      · cases h
    · cases h
  · cases h

theorem variableAt_len (s : List Char) (m : M) (h : variableAt s = some m) : 0 < m.len ∧ m.len ≤ s.length := by
  unfold variableAt at h
  split at h
  · rename_i c cs
    split at h
    · rename_i hc
      have hi : isIdChar c = true := by simp [isIdChar, hc]
      simp at h; subst h
      unfold varRun
      have hl := spanP_length isIdChar (c :: cs)
      rw [spanP_cons_true isIdChar c cs hi] at hl ⊢
      have := withIndex_len .variable (c :: (spanP isIdChar cs).1) (c :: (spanP isIdChar cs).1).length (spanP isIdChar cs).2
      simp at hl this ⊢; omega
    · cases h
  · cases h

/-- The keyword table contains no empty string (needed for `\b kw \b` to consume). -/
theorem keywordChars_nonempty : ∀ kw ∈ Generated.keywordChars, kw ≠ [] := by decide

theorem matchAtK_len (kws : List (List Char)) (hk : ∀ kw ∈ kws, kw ≠ []) (pw : Bool) (s : List Char) (m : M)
    (h : matchAtK kws pw s = some m) : 0 < m.len ∧ m.len ≤ s.length := by
  unfold matchAtK at h
  simp only [Option.or_eq_some_iff] at h
  rcases h with h | ⟨_, h | ⟨_, h | ⟨_, h | ⟨_, h | ⟨_, h | ⟨_, h⟩⟩⟩⟩⟩⟩
  · exact verbAt_len s m h
  · exact invalidAt_len kws s m h
  · exact keywordAt_len kws hk pw s m h
  · exact functionAt_len s m h
  · exact brAt_len _ _ _ s m h
  · exact brAt_len _ _ _ s m h
  · exact variableAt_len s m h

/-! ## Spans -/

/-- non-empty, ordered, pairwise disjoint spans between `lo` and `hi` -/
def SpansFrom (lo hi : Nat) : List RawMatch → Prop
  | [] => True
  | m :: ms => lo ≤ m.start ∧ m.start < m.stop ∧ m.stop ≤ hi ∧ SpansFrom m.stop hi ms

theorem SpansFrom.weaken {lo lo' hi : Nat} (h : lo' ≤ lo) : ∀ {ms : List RawMatch}, SpansFrom lo hi ms → SpansFrom lo' hi ms
  | [], _ => trivial
  | m :: ms, ⟨h1, h2, h3, h4⟩ => ⟨by omega, h2, h3, h4⟩

theorem scanGo_spansL : ∀ (s : List Char) (skip : Nat) (pw : Bool) (pos : Nat),
    SpansFrom (pos + skip) (pos + s.length) (scanGo skip pw pos s)
  | [], _, _, _ => by simp [scanGo, SpansFrom]
  | c :: cs, skip + 1, pw, pos => by
    simp only [scanGo, List.length_cons]
    have := scanGo_spansL cs skip (isWordU c) (pos + 1)
    have e1 : pos + 1 + skip = pos + (skip + 1) := by omega
    have e2 : pos + 1 + cs.length = pos + (cs.length + 1) := by omega
    rw [e1, e2] at this; exact this
  | c :: cs, 0, pw, pos => by
    simp only [scanGo, List.length_cons]
    cases hm : matchAt pw (c :: cs) with
    | none =>
      have := scanGo_spansL cs 0 (isWordU c) (pos + 1)
      have e2 : pos + 1 + cs.length = pos + (cs.length + 1) := by omega
      rw [e2] at this
      exact this.weaken (by omega)
    | some m =>
      have hl := matchAtK_len _ keywordChars_nonempty pw (c :: cs) m hm
      simp only [List.length_cons] at hl
      have := scanGo_spansL cs (m.len - 1) (isWordU c) (pos + 1)
      have e1 : pos + 1 + (m.len - 1) = pos + m.len := by omega
      have e2 : pos + 1 + cs.length = pos + (cs.length + 1) := by omega
      rw [e1, e2] at this
      exact ⟨by simp [M.at], by simp [M.at]; omega, by simp [M.at]; omega, by simpa [M.at] using this⟩


end Fsic.Lx
