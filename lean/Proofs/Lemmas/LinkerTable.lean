import Proofs.Lemmas.LinkerOutcome
import Proofs.Lemmas.SolverTable
/-
The agreement table of the linker's `solve_t`: which (stamp, result) pairs a call can produce at all.
-/
namespace Fsic
variable {σ V Id : Type} (L : LInterp σ V Id) (o : Opts) (n : Nat) (t : Int)

/-- Every (stamp, result) pair one `BaseLinker.solve_t` call can produce.  The linker has no non-finite policy, so
    'S' and 'E' never appear; exceptions from hooks and submodels propagate without a stamp. -/
def LAgree (o : Opts) : Option (Status × Int) → LResult → Prop
  | some (.solved, k), .ret true => 1 ≤ k ∧ k ≤ o.maxIter ∧ o.minIter ≤ k
  | some (.failed, k), .ret false => k = o.maxIter.toNat ∧ o.failRaise = false
  | some (.failed, k), .nonConvergence => k = o.maxIter.toNat ∧ o.failRaise = true
  | none, .keyError => True
  | none, .indexError => o.offset ≠ 0
  | none, .raised => True
  | _, _ => False

theorem lfinishOutcome_agrees (sel : List Id) (l : LoopOut σ) (h : LoopBoundFinite o o.maxIter.toNat 1 l) :
    LAgree o (lfinishOutcome L o t sel l).2.1 (lfinishOutcome L o t sel l).2.2 := by
  cases l with
  | done u s k =>
    cases s <;> simp only [LoopBoundFinite] at h
    · obtain ⟨a, b, c⟩ := h
      simp only [lfinishOutcome, reduceCtorEq, false_and, if_false, decide_true, LAgree]
      omega
    · simp only [lfinishOutcome, true_and]
      have hk : (k : Int) = ((o.maxIter.toNat : Nat) : Int) := by omega
      by_cases hf : o.failRaise = true
      · simp only [hf, if_true, LAgree]; exact ⟨hk, trivial⟩
      · simp only [hf, if_false, reduceCtorEq, decide_false, LAgree]; exact ⟨hk, trivial⟩
  | evalRaised u k => simp only [lfinishOutcome, LAgree]
  | nonFinite u k => simp only [LoopBoundFinite] at h
  | afterRaised u k => simp only [lfinishOutcome, LAgree]
  | badErrors u k => simp only [LoopBoundFinite] at h

theorem lCoreOutcome_agrees (sel : List Id) (u1 : σ) :
    LAgree o (lCoreOutcome L o t sel u1).2.1 (lCoreOutcome L o t sel u1).2.2 := by
  unfold lCoreOutcome
  split
  · simp only [LAgree]
  · split
    · simp only [LAgree]
    · exact lfinishOutcome_agrees L o t sel _ (loop_bound_finite (asInterp L sel) o t (fun _ => rfl) _ _ _ _)

theorem lOutcome_agrees (sel : List Id) (u : σ) :
    LAgree o (lOutcomeOf L o n t sel u).2.1 (lOutcomeOf L o n t sel u).2.2 := by
  unfold lOutcomeOf
  split
  · rename_i h0
    split
    · simp only [LAgree]
    · split
      · simpa only [LAgree] using h0
      · exact lCoreOutcome_agrees L o t sel _
  · exact lCoreOutcome_agrees L o t sel _

end Fsic
