import FsicModel.Expr
set_option linter.unusedSimpArgs false
/-
Helper lemmas about M4 (`FsicModel/Expr.lean`).  Property theorems live in `Proofs/C01.lean`, `Proofs/C20.lean`.
-/
namespace Fsic.M4
variable {α β F : Type}

/-! ## The parser commutes with `Tok.map` -/

section map
variable (f : α → β) (g : String → String)

@[simp] theorem Tok.isChunk_map (s : String) (t : Tok α) : (t.map f g).isChunk s = t.isChunk s := by
  cases t <;> rfl
@[simp] theorem Tok.isKw_map (s : String) (t : Tok α) : (t.map f g).isKw s = t.isKw s := by
  cases t <;> rfl
@[simp] theorem infixOf_map (t : Tok α) : infixOf (t.map f g) = infixOf t := by
  cases t <;> rfl
theorem mkInfix_map (op : Infix) (l r : Expr α) : (mkInfix op l r).map f g = mkInfix op (l.map f g) (r.map f g) := by
  cases op <;> simp [mkInfix, Expr.map]

/-- Image of a parser result. -/
def mapRes (p : Expr α × List (Tok α)) : Expr β × List (Tok β) := (p.1.map f g, p.2.map (Tok.map f g))
def mapResA (p : Args α × List (Tok α)) : Args β × List (Tok β) := (p.1.map f g, p.2.map (Tok.map f g))

theorem expectChunk_map (s : String) (ts : List (Tok α)) :
    expectChunk s (ts.map (Tok.map f g)) = (expectChunk s ts).map (List.map (Tok.map f g)) := by
  cases ts with
  | nil => rfl
  | cons t rest => simp only [List.map, expectChunk, Tok.isChunk_map]; split <;> rfl
theorem expectKw_map (s : String) (ts : List (Tok α)) :
    expectKw s (ts.map (Tok.map f g)) = (expectKw s ts).map (List.map (Tok.map f g)) := by
  cases ts with
  | nil => rfl
  | cons t rest => simp only [List.map, expectKw, Tok.isKw_map]; split <;> rfl

theorem parse_map_all (n : Nat) :
    (∀ m (ts : List (Tok α)), parseE n m (ts.map (Tok.map f g)) = (parseE n m ts).map (mapRes f g)) ∧
    (∀ m mx (l : Expr α) (ts : List (Tok α)),
        loop n m mx (l.map f g) (ts.map (Tok.map f g)) = (loop n m mx l ts).map (mapRes f g)) ∧
    (∀ (ts : List (Tok α)), parseArgs n (ts.map (Tok.map f g)) = (parseArgs n ts).map (mapResA f g)) := by
  induction n with
  | zero => refine ⟨?_, ?_, ?_⟩ <;> intros <;> simp [parseE, loop, parseArgs]
  | succ n ih =>
    obtain ⟨ihE, ihL, ihA⟩ := ih
    refine ⟨?_, ?_, ?_⟩
    · intro m ts
      cases ts with
      | nil => simp [parseE]
      | cons t rest =>
        cases t with
        | atom a => simpa [parseE, Tok.map, Expr.map] using ihL m 100 (.atom a) rest
        | verb v => simpa [parseE, Tok.map, Expr.map] using ihL m 100 (.verb v) rest
        | func name =>
          simp only [List.map, Tok.map, parseE, expectChunk_map]
          cases h1 : expectChunk "(" rest with
          | none => simp
          | some rest1 =>
            simp only [Option.map_some, Option.map_none, ihA]
            cases h2 : parseArgs n rest1 with
            | none => simp
            | some p =>
              obtain ⟨args, rest2⟩ := p
              simpa [mapResA, Expr.map] using ihL m 100 (.call name args) rest2
        | kw k =>
          simp only [List.map, Tok.map, parseE]
          split
          · rw [ihE]
            cases h2 : parseE n 4 rest with
            | none => simp
            | some p =>
              obtain ⟨e, rest1⟩ := p
              simpa [mapRes, Expr.map] using ihL m 4 (.not e) rest1
          · simp
        | chunk s =>
          simp only [List.map, Tok.map, parseE]
          split
          · rw [ihE]
            cases h2 : parseE n 1 rest with
            | none => simp
            | some p =>
              obtain ⟨e, rest1⟩ := p
              simp only [Option.map_some, Option.map_none, mapRes, expectChunk_map]
              cases h3 : expectChunk ")" rest1 with
              | none => simp
              | some rest2 => simpa [mapRes] using ihL m 100 e rest2
          · split
            · rw [ihE]
              cases h2 : parseE n 8 rest with
              | none => simp
              | some p =>
                obtain ⟨e, rest1⟩ := p
                simpa [mapRes, Expr.map] using ihL m 8 (.neg e) rest1
            · split
              · simpa [Expr.map] using ihL m 100 (.num s) rest
              · simp
    · intro m mx l ts
      cases ts with
      | nil => simp [loop, mapRes]
      | cons t rest =>
        simp only [List.map, loop, Tok.isKw_map, infixOf_map]
        split
        · rw [ihE]
          cases h2 : parseE n 2 rest with
          | none => simp
          | some p =>
            obtain ⟨c, rest1⟩ := p
            simp only [Option.map_some, Option.map_none, mapRes, expectKw_map]
            cases h3 : expectKw "else" rest1 with
            | none => simp
            | some rest2 =>
              simp only [Option.map_some, Option.map_none, ihE]
              cases h4 : parseE n 1 rest2 with
              | none => simp
              | some q =>
                obtain ⟨b, rest3⟩ := q
                simp [mapRes, Expr.map]
        · cases h5 : infixOf t with
          | none => simp [mapRes]
          | some q =>
            obtain ⟨op, lbp, rbp, mx'⟩ := q
            simp only
            split
            · rw [ihE]
              cases h2 : parseE n rbp rest with
              | none => simp
              | some p =>
                obtain ⟨r, rest1⟩ := p
                simpa [mapRes, mkInfix_map] using ihL m mx' (mkInfix op l r) rest1
            · simp [mapRes]
    · intro ts
      simp only [parseArgs, ihE]
      cases h2 : parseE n 1 ts with
      | none => simp
      | some p =>
        obtain ⟨e, rest⟩ := p
        cases rest with
        | nil => simp [mapRes]
        | cons tk rest1 =>
          simp only [Option.map_some, Option.map_none, mapRes, List.map, Tok.isChunk_map]
          split
          · simp [mapResA, Args.map]
          · split
            · rw [ihA]
              cases h3 : parseArgs n rest1 with
              | none => simp
              | some q =>
                obtain ⟨as, rest2⟩ := q
                simp [mapResA, Args.map]
            · simp
end map

/-! ## The atoms of a parsed token list are the terms of the tree, in order -/

theorem atomsOf_of_isChunk {s : String} {t : Tok α} (h : t.isChunk s = true) (rest : List (Tok α)) :
    atomsOf (t :: rest) = atomsOf rest := by
  cases t <;> simp_all [Tok.isChunk, atomsOf]
theorem atomsOf_of_isKw {s : String} {t : Tok α} (h : t.isKw s = true) (rest : List (Tok α)) :
    atomsOf (t :: rest) = atomsOf rest := by
  cases t <;> simp_all [Tok.isKw, atomsOf]
theorem atomsOf_of_infix {t : Tok α} {q} (h : infixOf t = some q) (rest : List (Tok α)) :
    atomsOf (t :: rest) = atomsOf rest := by
  cases t <;> simp_all [infixOf, atomsOf]
theorem expectChunk_atoms {s : String} {ts rest : List (Tok α)} (h : expectChunk s ts = some rest) :
    atomsOf ts = atomsOf rest := by
  cases ts with
  | nil => simp [expectChunk] at h
  | cons t r =>
    simp only [expectChunk] at h
    split at h
    · rename_i hc; cases h; exact atomsOf_of_isChunk hc _
    · cases h
theorem expectKw_atoms {s : String} {ts rest : List (Tok α)} (h : expectKw s ts = some rest) :
    atomsOf ts = atomsOf rest := by
  cases ts with
  | nil => simp [expectKw] at h
  | cons t r =>
    simp only [expectKw] at h
    split at h
    · rename_i hc; cases h; exact atomsOf_of_isKw hc _
    · cases h
theorem mkInfix_terms (op : Infix) (l r : Expr α) : (mkInfix op l r).terms = l.terms ++ r.terms := by
  cases op <;> simp [mkInfix, Expr.terms]

theorem parse_atoms_all (n : Nat) :
    (∀ m (ts : List (Tok α)) e rest, parseE n m ts = some (e, rest) → atomsOf ts = e.terms ++ atomsOf rest) ∧
    (∀ m mx (l : Expr α) (ts : List (Tok α)) e rest, loop n m mx l ts = some (e, rest) →
        l.terms ++ atomsOf ts = e.terms ++ atomsOf rest) ∧
    (∀ (ts : List (Tok α)) as rest, parseArgs n ts = some (as, rest) → atomsOf ts = as.terms ++ atomsOf rest) := by
  induction n with
  | zero => refine ⟨?_, ?_, ?_⟩ <;> intros <;> simp_all [parseE, loop, parseArgs]
  | succ n ih =>
    obtain ⟨ihE, ihL, ihA⟩ := ih
    refine ⟨?_, ?_, ?_⟩
    · intro m ts e rest h
      cases ts with
      | nil => simp [parseE] at h
      | cons t r =>
        cases t with
        | atom a =>
          simp only [parseE] at h
          have := ihL _ _ _ _ _ _ h
          simpa [atomsOf, Expr.terms] using this
        | verb v =>
          simp only [parseE] at h
          have := ihL _ _ _ _ _ _ h
          simpa [atomsOf, Expr.terms] using this
        | func name =>
          simp only [parseE] at h
          split at h
          · cases h
          · rename_i rest1 h1
            split at h
            · cases h
            · rename_i args rest2 h2
              have := ihL _ _ _ _ _ _ h
              simp only [atomsOf, expectChunk_atoms h1, ihA _ _ _ h2, ← this, Expr.terms]
        | kw k =>
          simp only [parseE] at h
          split at h
          · split at h
            · cases h
            · rename_i e1 rest1 h1
              have := ihL _ _ _ _ _ _ h
              simp only [atomsOf, ihE _ _ _ _ h1, ← this, Expr.terms]
          · cases h
        | chunk s =>
          simp only [parseE] at h
          split at h
          · split at h
            · cases h
            · rename_i e1 rest1 h1
              split at h
              · cases h
              · rename_i rest2 h2
                have := ihL _ _ _ _ _ _ h
                simp only [atomsOf, ihE _ _ _ _ h1, expectChunk_atoms h2, ← this]
          · split at h
            · split at h
              · cases h
              · rename_i e1 rest1 h1
                have := ihL _ _ _ _ _ _ h
                simp only [atomsOf, ihE _ _ _ _ h1, ← this, Expr.terms]
            · split at h
              · simpa [atomsOf, Expr.terms] using ihL _ _ _ _ _ _ h
              · cases h
    · intro m mx l ts e rest h
      cases ts with
      | nil => simp [loop] at h; obtain ⟨rfl, rfl⟩ := h; rfl
      | cons t r =>
        simp only [loop] at h
        split at h
        · rename_i hc
          simp only [Bool.and_eq_true] at hc
          split at h
          · cases h
          · rename_i c rest1 h1
            split at h
            · cases h
            · rename_i rest2 h2
              split at h
              · cases h
              · rename_i b rest3 h3
                simp only [Option.some.injEq, Prod.mk.injEq] at h
                obtain ⟨rfl, rfl⟩ := h
                simp only [atomsOf_of_isKw hc.1.1, ihE _ _ _ _ h1, expectKw_atoms h2, ihE _ _ _ _ h3, Expr.terms,
                  List.append_assoc]
        · split at h
          · simp only [Option.some.injEq, Prod.mk.injEq] at h
            obtain ⟨rfl, rfl⟩ := h; rfl
          · rename_i op lbp rbp mx' h5
            split at h
            · split at h
              · cases h
              · rename_i rhs rest1 h1
                have := ihL _ _ _ _ _ _ h
                rw [← this, mkInfix_terms, atomsOf_of_infix h5, ihE _ _ _ _ h1, List.append_assoc]
            · simp only [Option.some.injEq, Prod.mk.injEq] at h
              obtain ⟨rfl, rfl⟩ := h; rfl
    · intro ts as rest h
      simp only [parseArgs] at h
      split at h
      · cases h
      · cases h
      · rename_i e tk rest1 h1
        split at h
        · rename_i hc
          simp only [Option.some.injEq, Prod.mk.injEq] at h
          obtain ⟨rfl, rfl⟩ := h
          simp [ihE _ _ _ _ h1, atomsOf_of_isChunk hc, Args.terms]
        · split at h
          · rename_i hc
            split at h
            · cases h
            · rename_i as' rest2 h2
              simp only [Option.some.injEq, Prod.mk.injEq] at h
              obtain ⟨rfl, rfl⟩ := h
              simp [ihE _ _ _ _ h1, atomsOf_of_isChunk hc, ihA _ _ _ h2, Args.terms]
          · cases h

/-! ## Semantics -/

theorem tidx_eval (t k : Int) : (tidx k).eval t = t + k := by
  unfold tidx
  split
  · simp only [TIdx.eval]; omega
  · split
    · simp only [TIdx.eval]; omega
    · simp only [TIdx.eval]; omega

theorem tidx_injective {k k' : Int} (h : tidx k = tidx k') : k = k' := by
  have := congrArg (TIdx.eval 0) h
  simpa [tidx_eval] using this

theorem readCode_tAtom (s : Store F) (t : Int) (loc : String → Int) (a : SAtom) :
    readCode s t loc (tAtom a) = readSpec s t loc a := by
  obtain ⟨kind, name, idx⟩ := a
  cases idx <;> simp [tAtom, readCode, readSpec, Idx.pos, tidx_eval]

/-- Renaming functions in the tree = renaming them in the interpretation. -/
def Ops.renameCalls (ops : Ops F) (g : String → String) : Ops F := { ops with call := fun n => ops.call (g n) }

mutual
theorem denote_map (ops : Ops F) (ρ : β → F) (f : α → β) (g : String → String) :
    ∀ e : Expr α, denote ops ρ (e.map f g) = denote (ops.renameCalls g) (fun a => ρ (f a)) e
  | .num _ => rfl
  | .atom _ => rfl
  | .verb _ => rfl
  | .neg e => by simp only [Expr.map, denote, denote_map ops ρ f g e]; rfl
  | .not e => by simp only [Expr.map, denote, denote_map ops ρ f g e]; rfl
  | .bin _ l r => by simp only [Expr.map, denote, denote_map ops ρ f g l, denote_map ops ρ f g r]; rfl
  | .and l r => by simp only [Expr.map, denote, denote_map ops ρ f g l, denote_map ops ρ f g r]; rfl
  | .or l r => by simp only [Expr.map, denote, denote_map ops ρ f g l, denote_map ops ρ f g r]; rfl
  | .call _ args => by simp only [Expr.map, denote, denoteArgs_map ops ρ f g args]; rfl
  | .ite a c b => by
    simp only [Expr.map, denote, denote_map ops ρ f g a, denote_map ops ρ f g c, denote_map ops ρ f g b]; rfl
theorem denoteArgs_map (ops : Ops F) (ρ : β → F) (f : α → β) (g : String → String) :
    ∀ a : Args α, denoteArgs ops ρ (a.map f g) = denoteArgs (ops.renameCalls g) (fun a => ρ (f a)) a
  | .nil => rfl
  | .cons e rest => by simp only [Args.map, denoteArgs, denote_map ops ρ f g e, denoteArgs_map ops ρ f g rest]
end

mutual
theorem denote_congr (ops : Ops F) (ρ₁ ρ₂ : α → F) :
    ∀ e : Expr α, (∀ a ∈ e.terms, ρ₁ a = ρ₂ a) → denote ops ρ₁ e = denote ops ρ₂ e
  | .num _, _ => rfl
  | .atom a, h => by simpa [denote] using h a (by simp [Expr.terms])
  | .verb _, _ => rfl
  | .neg e, h => by simp only [denote, denote_congr ops ρ₁ ρ₂ e (by simpa [Expr.terms] using h)]
  | .not e, h => by simp only [denote, denote_congr ops ρ₁ ρ₂ e (by simpa [Expr.terms] using h)]
  | .bin _ l r, h => by
    simp only [Expr.terms, List.mem_append] at h
    simp only [denote, denote_congr ops ρ₁ ρ₂ l (fun a ha => h a (.inl ha)),
      denote_congr ops ρ₁ ρ₂ r (fun a ha => h a (.inr ha))]
  | .and l r, h => by
    simp only [Expr.terms, List.mem_append] at h
    simp only [denote, denote_congr ops ρ₁ ρ₂ l (fun a ha => h a (.inl ha)),
      denote_congr ops ρ₁ ρ₂ r (fun a ha => h a (.inr ha))]
  | .or l r, h => by
    simp only [Expr.terms, List.mem_append] at h
    simp only [denote, denote_congr ops ρ₁ ρ₂ l (fun a ha => h a (.inl ha)),
      denote_congr ops ρ₁ ρ₂ r (fun a ha => h a (.inr ha))]
  | .call _ args, h => by
    simp only [denote, denoteArgs_congr ops ρ₁ ρ₂ args (by simpa [Expr.terms] using h)]
  | .ite a c b, h => by
    simp only [Expr.terms, List.mem_append] at h
    simp only [denote, denote_congr ops ρ₁ ρ₂ a (fun x hx => h x (.inl hx)),
      denote_congr ops ρ₁ ρ₂ c (fun x hx => h x (.inr (.inl hx))),
      denote_congr ops ρ₁ ρ₂ b (fun x hx => h x (.inr (.inr hx)))]
theorem denoteArgs_congr (ops : Ops F) (ρ₁ ρ₂ : α → F) :
    ∀ as : Args α, (∀ a ∈ as.terms, ρ₁ a = ρ₂ a) → denoteArgs ops ρ₁ as = denoteArgs ops ρ₂ as
  | .nil, _ => rfl
  | .cons e rest, h => by
    simp only [Args.terms, List.mem_append] at h
    simp only [denoteArgs, denote_congr ops ρ₁ ρ₂ e (fun a ha => h a (.inl ha)),
      denoteArgs_congr ops ρ₁ ρ₂ rest (fun a ha => h a (.inr ha))]
end

mutual
theorem denoteR_fst (ops : Ops F) (ρ : α → F) : ∀ e : Expr α, (denoteR ops ρ e).1 = denote ops ρ e
  | .num _ => rfl
  | .atom _ => rfl
  | .verb _ => rfl
  | .neg e => by simp only [denoteR, denote, denoteR_fst ops ρ e]
  | .not e => by simp only [denoteR, denote, denoteR_fst ops ρ e]
  | .bin _ l r => by simp only [denoteR, denote, denoteR_fst ops ρ l, denoteR_fst ops ρ r]
  | .and l r => by
    simp only [denoteR, denote, andR, denoteR_fst ops ρ l]
    split <;> simp [denoteR_fst ops ρ l, denoteR_fst ops ρ r]
  | .or l r => by
    simp only [denoteR, denote, orR, denoteR_fst ops ρ l]
    split <;> simp [denoteR_fst ops ρ l, denoteR_fst ops ρ r]
  | .call _ args => by simp only [denoteR, denote, denoteArgsR_fst ops ρ args]
  | .ite a c b => by
    simp only [denoteR, denote, iteR, denoteR_fst ops ρ c]
    split <;> simp [denoteR_fst ops ρ a, denoteR_fst ops ρ b]
theorem denoteArgsR_fst (ops : Ops F) (ρ : α → F) : ∀ as : Args α, (denoteArgsR ops ρ as).1 = denoteArgs ops ρ as
  | .nil => rfl
  | .cons e rest => by simp only [denoteArgsR, denoteArgs, denoteR_fst ops ρ e, denoteArgsR_fst ops ρ rest]
end

mutual
theorem reads_subset_terms (ops : Ops F) (ρ : α → F) : ∀ e : Expr α, ∀ x ∈ (denoteR ops ρ e).2, x ∈ e.terms
  | .num _, x, h => by simp [denoteR] at h
  | .atom _, x, h => by simpa [denoteR, Expr.terms] using h
  | .verb _, x, h => by simp [denoteR] at h
  | .neg e, x, h => by simpa [Expr.terms] using reads_subset_terms ops ρ e x (by simpa [denoteR] using h)
  | .not e, x, h => by simpa [Expr.terms] using reads_subset_terms ops ρ e x (by simpa [denoteR] using h)
  | .bin _ l r, x, h => by
    simp only [denoteR, List.mem_append] at h
    simp only [Expr.terms, List.mem_append]
    exact h.imp (reads_subset_terms ops ρ l x) (reads_subset_terms ops ρ r x)
  | .and l r, x, h => by
    simp only [denoteR, andR] at h
    simp only [Expr.terms, List.mem_append]
    split at h
    · simp only [List.mem_append] at h; exact h.imp (reads_subset_terms ops ρ l x) (reads_subset_terms ops ρ r x)
    · exact .inl (reads_subset_terms ops ρ l x h)
  | .or l r, x, h => by
    simp only [denoteR, orR] at h
    simp only [Expr.terms, List.mem_append]
    split at h
    · exact .inl (reads_subset_terms ops ρ l x h)
    · simp only [List.mem_append] at h; exact h.imp (reads_subset_terms ops ρ l x) (reads_subset_terms ops ρ r x)
  | .call _ args, x, h => by
    simpa [Expr.terms] using readsArgs_subset_terms ops ρ args x (by simpa [denoteR] using h)
  | .ite a c b, x, h => by
    simp only [denoteR, iteR] at h
    simp only [Expr.terms, List.mem_append]
    split at h
    · simp only [List.mem_append] at h
      exact h.elim (fun h => .inr (.inl (reads_subset_terms ops ρ c x h))) (fun h => .inl (reads_subset_terms ops ρ a x h))
    · simp only [List.mem_append] at h
      exact h.elim (fun h => .inr (.inl (reads_subset_terms ops ρ c x h)))
        (fun h => .inr (.inr (reads_subset_terms ops ρ b x h)))
theorem readsArgs_subset_terms (ops : Ops F) (ρ : α → F) :
    ∀ as : Args α, ∀ x ∈ (denoteArgsR ops ρ as).2, x ∈ as.terms
  | .nil, x, h => by simp [denoteArgsR] at h
  | .cons e rest, x, h => by
    simp only [denoteArgsR, List.mem_append] at h
    simp only [Args.terms, List.mem_append]
    exact h.imp (reads_subset_terms ops ρ e x) (readsArgs_subset_terms ops ρ rest x)
end

mutual
theorem strict_reads (ops : Ops F) (ρ : α → F) : ∀ e : Expr α, e.strict = true → (denoteR ops ρ e).2 = e.terms
  | .num _, _ => rfl
  | .atom _, _ => rfl
  | .verb _, _ => rfl
  | .neg e, h => by simpa [denoteR, Expr.terms] using strict_reads ops ρ e (by simpa [Expr.strict] using h)
  | .not e, h => by simpa [denoteR, Expr.terms] using strict_reads ops ρ e (by simpa [Expr.strict] using h)
  | .bin _ l r, h => by
    simp only [Expr.strict, Bool.and_eq_true] at h
    simp only [denoteR, Expr.terms, strict_reads ops ρ l h.1, strict_reads ops ρ r h.2]
  | .and _ _, h => by simp [Expr.strict] at h
  | .or _ _, h => by simp [Expr.strict] at h
  | .call _ args, h => by
    simpa [denoteR, Expr.terms] using strictArgs_reads ops ρ args (by simpa [Expr.strict] using h)
  | .ite _ _ _, h => by simp [Expr.strict] at h
theorem strictArgs_reads (ops : Ops F) (ρ : α → F) :
    ∀ as : Args α, as.strict = true → (denoteArgsR ops ρ as).2 = as.terms
  | .nil, _ => rfl
  | .cons e rest, h => by
    simp only [Args.strict, Bool.and_eq_true] at h
    simp only [denoteArgsR, Args.terms, strict_reads ops ρ e h.1, strictArgs_reads ops ρ rest h.2]
end

mutual
theorem eager_subset_reads (ops : Ops F) (ρ : α → F) : ∀ e : Expr α, ∀ x ∈ e.eagerTerms, x ∈ (denoteR ops ρ e).2
  | .num _, x, h => by simp [Expr.eagerTerms] at h
  | .atom _, x, h => by simpa [denoteR, Expr.eagerTerms] using h
  | .verb _, x, h => by simp [Expr.eagerTerms] at h
  | .neg e, x, h => by simpa [denoteR] using eager_subset_reads ops ρ e x (by simpa [Expr.eagerTerms] using h)
  | .not e, x, h => by simpa [denoteR] using eager_subset_reads ops ρ e x (by simpa [Expr.eagerTerms] using h)
  | .bin _ l r, x, h => by
    simp only [Expr.eagerTerms, List.mem_append] at h
    simp only [denoteR, List.mem_append]
    exact h.imp (eager_subset_reads ops ρ l x) (eager_subset_reads ops ρ r x)
  | .and l r, x, h => by
    simp only [Expr.eagerTerms] at h
    have := eager_subset_reads ops ρ l x h
    simp only [denoteR, andR]; split <;> simp [this]
  | .or l r, x, h => by
    simp only [Expr.eagerTerms] at h
    have := eager_subset_reads ops ρ l x h
    simp only [denoteR, orR]; split <;> simp [this]
  | .call _ args, x, h => by
    simpa [denoteR] using eagerArgs_subset_reads ops ρ args x (by simpa [Expr.eagerTerms] using h)
  | .ite a c b, x, h => by
    simp only [Expr.eagerTerms] at h
    have := eager_subset_reads ops ρ c x h
    simp only [denoteR, iteR]; split <;> simp [this]
theorem eagerArgs_subset_reads (ops : Ops F) (ρ : α → F) :
    ∀ as : Args α, ∀ x ∈ as.eagerTerms, x ∈ (denoteArgsR ops ρ as).2
  | .nil, x, h => by simp [Args.eagerTerms] at h
  | .cons e rest, x, h => by
    simp only [Args.eagerTerms, List.mem_append] at h
    simp only [denoteArgsR, List.mem_append]
    exact h.imp (eager_subset_reads ops ρ e x) (eagerArgs_subset_reads ops ρ rest x)
end

/-! ## Whole expressions and statements -/

theorem finish_map (f : α → β) (g : String → String) (r : Option (Expr α × List (Tok α))) :
    finish (r.map (mapRes f g)) = (finish r).map (Expr.map f g) := by
  cases r with
  | none => rfl
  | some p =>
    obtain ⟨e, rest⟩ := p
    cases rest <;> simp [finish, mapRes]

theorem parseExpr_map' (f : α → β) (g : String → String) (ts : List (Tok α)) :
    parseExpr (ts.map (Tok.map f g)) = (parseExpr ts).map (Expr.map f g) := by
  unfold parseExpr
  rw [List.length_map, (parse_map_all f g _).1, finish_map]

theorem splitStmt_map (f : α → β) (g : String → String) (ts : List (Tok α)) :
    splitStmt (ts.map (Tok.map f g)) = (splitStmt ts).map fun p => (f p.1, p.2.map (Tok.map f g)) := by
  cases ts with
  | nil => rfl
  | cons t r =>
    cases r with
    | nil => cases t <;> rfl
    | cons t' r' =>
      cases t with
      | atom a =>
        have : Tok.map f g (Tok.atom a) = Tok.atom (f a) := rfl
        simp only [List.map, this, splitStmt, Tok.isChunk_map]
        split <;> simp
      | _ => rfl

theorem parseStmt_map' (f : α → β) (g : String → String) (ts : List (Tok α)) :
    parseStmt (ts.map (Tok.map f g)) = (parseStmt ts).map (Equation.map f g) := by
  unfold parseStmt
  rw [splitStmt_map]
  cases splitStmt ts with
  | none => rfl
  | some p =>
    obtain ⟨a, rhs⟩ := p
    simp only [Option.map_some, parseExpr_map']
    cases parseExpr rhs <;> simp [Equation.map]

theorem isChunk_eq {s : String} {t : Tok α} (h : t.isChunk s = true) : t = .chunk s := by
  cases t <;> simp_all [Tok.isChunk]

/-- A statement that parses has the shape `lhs = rhs`. -/
theorem parseStmt_some {ts : List (Tok α)} {eq : Equation α} (h : parseStmt ts = some eq) :
    ∃ rhs, ts = .atom eq.lhs :: .chunk "=" :: rhs ∧ parseExpr rhs = some eq.rhs := by
  unfold parseStmt at h
  split at h
  · cases h
  · rename_i a rhs hs
    split at h
    · cases h
    · rename_i e he
      cases h
      refine ⟨rhs, ?_, he⟩
      cases ts with
      | nil => simp [splitStmt] at hs
      | cons t r =>
        cases r with
        | nil => cases t <;> simp [splitStmt] at hs
        | cons t' r' =>
          cases t <;> simp only [splitStmt] at hs <;> try cases hs
          split at hs
          · rename_i hc
            simp only [Option.some.injEq, Prod.mk.injEq] at hs
            obtain ⟨rfl, rfl⟩ := hs
            rw [isChunk_eq hc]
          · cases hs

theorem parseExpr_atoms {ts : List (Tok α)} {e : Expr α} (h : parseExpr ts = some e) : atomsOf ts = e.terms := by
  unfold parseExpr at h
  cases hp : parseE (ts.length + 1) 1 ts with
  | none => simp [hp, finish] at h
  | some p =>
    obtain ⟨e', rest⟩ := p
    rw [hp] at h
    cases rest with
    | nil =>
      simp only [finish, Option.some.injEq] at h
      subst h
      simpa [atomsOf] using (parse_atoms_all _).1 _ _ _ _ hp
    | cons _ _ => simp [finish] at h

/-! ## Stores -/

theorem update_same (s : Store F) (x : String) (i : Int) (v : F) : update s x i v x i = v := by
  simp [update]

theorem update_other (s : Store F) (x y : String) (i j : Int) (v : F) (h : ¬ (y = x ∧ j = i)) :
    update s x i v y j = s y j := by
  simp [update, h]

theorem evalPass_nil (ops : Ops F) (loc : String → Int) (s : Store F) (t : Int) : evalPass ops loc [] s t = s := rfl

theorem evalPass_cons (ops : Ops F) (loc : String → Int) (e : Equation SAtom) (es) (s : Store F) (t : Int) :
    evalPass ops loc (e :: es) s t = evalPass ops loc es (assign ops loc e s t) t := rfl

theorem evalPass_frame' (ops : Ops F) (loc : String → Int) (t : Int) (x : String) (i : Int) :
    ∀ (es : List (Equation SAtom)) (s : Store F),
      (∀ e ∈ es, ¬ (x = e.lhs.name ∧ i = e.lhs.idx.pos t loc)) → evalPass ops loc es s t x i = s x i
  | [], _, _ => rfl
  | e :: es, s, h => by
    rw [evalPass_cons, evalPass_frame' ops loc t x i es _ (fun e' he' => h e' (List.mem_cons_of_mem _ he'))]
    exact update_other _ _ _ _ _ _ (h e (List.mem_cons_self ..))

theorem evalPassR_fst (ops : Ops F) (loc : String → Int) (t : Int) :
    ∀ (es : List (Equation SAtom)) (s : Store F), (evalPassR ops loc t es s).1 = evalPass ops loc es s t
  | [], _ => rfl
  | e :: es, s => by simp only [evalPassR, evalPass_cons, evalPassR_fst ops loc t es]

theorem evalPassR_writes (ops : Ops F) (loc : String → Int) (t : Int) :
    ∀ (es : List (Equation SAtom)) (s : Store F),
      (evalPassR ops loc t es s).2.2 = es.map fun e => (e.lhs.name, e.lhs.idx.pos t loc)
  | [], _ => rfl
  | e :: es, s => by simp only [evalPassR, List.map, evalPassR_writes ops loc t es]

theorem evalPassR_reads (ops : Ops F) (loc : String → Int) (t : Int) :
    ∀ (es : List (Equation SAtom)) (s : Store F), ∀ c ∈ (evalPassR ops loc t es s).2.1,
      ∃ e ∈ es, ∃ a ∈ e.rhs.terms, c = (a.name, a.idx.pos t loc)
  | [], _, c, h => by simp [evalPassR] at h
  | e :: es, s, c, h => by
    simp only [evalPassR, List.mem_append] at h
    rcases h with h | h
    · simp only [assignReads, reads, List.mem_map] at h
      obtain ⟨a, ha, rfl⟩ := h
      exact ⟨e, List.mem_cons_self .., a, reads_subset_terms _ _ _ _ ha, rfl⟩
    · obtain ⟨e', he', a, ha, hc⟩ := evalPassR_reads ops loc t es _ c h
      exact ⟨e', List.mem_cons_of_mem _ he', a, ha, hc⟩

/-! ## Graph -/

theorem mem_nodesOf_term (a : α) : ∀ ts : List (Tok α), Node.term a ∈ nodesOf ts ↔ a ∈ atomsOf ts
  | [] => by simp [nodesOf, atomsOf]
  | t :: ts => by cases t <;> simp [nodesOf, atomsOf, mem_nodesOf_term a ts]

theorem mem_pairs {γ δ : Type} (xs : List γ) (ys : List δ) (x : γ) (y : δ) :
    (x, y) ∈ pairs xs ys ↔ x ∈ xs ∧ y ∈ ys := by
  simp only [pairs, List.mem_flatten, List.mem_map]
  constructor
  · rintro ⟨l, ⟨y', hy', rfl⟩, h⟩
    simp only [List.mem_map, Prod.mk.injEq] at h
    obtain ⟨x', hx', rfl, rfl⟩ := h
    exact ⟨hx', hy'⟩
  · rintro ⟨hx, hy⟩
    exact ⟨_, ⟨y, hy, rfl⟩, by simpa using hx⟩

theorem splitEq_stmt (y : α) (rhs : List (Tok α)) :
    splitEq (.atom y :: .chunk "=" :: rhs) = ([.atom y], rhs) := by
  simp [splitEq, Tok.isChunk]

theorem edgesOfEq_stmt (y : α) (rhs : List (Tok α)) (x n : Node α) :
    (x, n) ∈ edgesOfEq (.atom y :: .chunk "=" :: rhs) ↔ x ∈ nodesOf rhs ∧ n = .term y := by
  simp [edgesOfEq, splitEq_stmt, mem_pairs, nodesOf]

/-! ## Terms of a rewritten tree -/

mutual
theorem Expr.terms_map (f : α → β) (g : String → String) : ∀ e : Expr α, (e.map f g).terms = e.terms.map f
  | .num _ => rfl
  | .atom _ => rfl
  | .verb _ => rfl
  | .neg e => by simp [Expr.map, Expr.terms, Expr.terms_map f g e]
  | .not e => by simp [Expr.map, Expr.terms, Expr.terms_map f g e]
  | .bin _ l r => by simp [Expr.map, Expr.terms, Expr.terms_map f g l, Expr.terms_map f g r]
  | .and l r => by simp [Expr.map, Expr.terms, Expr.terms_map f g l, Expr.terms_map f g r]
  | .or l r => by simp [Expr.map, Expr.terms, Expr.terms_map f g l, Expr.terms_map f g r]
  | .call _ args => by simp [Expr.map, Expr.terms, Args.terms_map f g args]
  | .ite a c b => by simp [Expr.map, Expr.terms, Expr.terms_map f g a, Expr.terms_map f g c, Expr.terms_map f g b]
theorem Args.terms_map (f : α → β) (g : String → String) : ∀ a : Args α, (a.map f g).terms = a.terms.map f
  | .nil => rfl
  | .cons e rest => by simp [Args.map, Args.terms, Expr.terms_map f g e, Args.terms_map f g rest]
end

/-! ## Symbol-list order -/

theorem mem_dedup (x : String) : ∀ (xs seen : List String), x ∈ dedup seen xs ↔ x ∈ seen ∨ x ∈ xs
  | [], seen => by simp [dedup]
  | y :: ys, seen => by
    simp only [dedup]
    split
    · rename_i h
      rw [mem_dedup x ys seen]
      have hy : y ∈ seen := by simpa using h
      constructor
      · rintro (h | h)
        · exact .inl h
        · exact .inr (List.mem_cons_of_mem _ h)
      · rintro (h | h)
        · exact .inl h
        · rcases List.mem_cons.1 h with rfl | h
          · exact .inl hy
          · exact .inr h
    · rw [mem_dedup x ys (y :: seen)]
      simp only [List.mem_cons]
      constructor
      · rintro ((rfl | h) | h)
        · exact .inr (.inl rfl)
        · exact .inl h
        · exact .inr (.inr h)
      · rintro (h | rfl | h)
        · exact .inl (.inr h)
        · exact .inl (.inl rfl)
        · exact .inr h

theorem lhsName_of_parse {ts : List (Tok SAtom)} {eq : Equation SAtom} (h : parseStmt ts = some eq) :
    lhsName ts = some eq.lhs.name := by
  obtain ⟨rhs, rfl, _⟩ := parseStmt_some h
  simp [lhsName, splitStmt, Tok.isChunk]

theorem lhsName_mem_symbolOrder {stmts : List (List (Tok SAtom))} {ts : List (Tok SAtom)} {eq : Equation SAtom}
    (hts : ts ∈ stmts) (h : parseStmt ts = some eq) : eq.lhs.name ∈ symbolOrder stmts := by
  obtain ⟨rhs, rfl, _⟩ := parseStmt_some h
  unfold symbolOrder
  rw [mem_dedup]
  right
  simp only [List.mem_flatten, List.mem_map]
  exact ⟨_, ⟨_, hts, rfl⟩, by simp [namesOfTok]⟩

/-- The statements of `_evaluate` are the script's statements, each once, … -/
theorem mem_orderStmts (stmts : List (List (Tok SAtom)))
    (hwf : ∀ ts ∈ stmts, ∃ eq, parseStmt ts = some eq)
    (hdistinct : ∀ ts ∈ stmts, ∀ ts' ∈ stmts, lhsName ts = lhsName ts' → ts = ts')
    (ts : List (Tok SAtom)) : ts ∈ orderStmts stmts ↔ ts ∈ stmts := by
  unfold orderStmts
  simp only [List.mem_filterMap]
  constructor
  · rintro ⟨n, _, h⟩
    exact List.mem_of_find?_eq_some h
  · intro hts
    obtain ⟨eq, heq⟩ := hwf ts hts
    refine ⟨eq.lhs.name, lhsName_mem_symbolOrder hts heq, ?_⟩
    have hl := lhsName_of_parse heq
    cases hf : stmts.find? (fun ts => lhsName ts == some eq.lhs.name) with
    | none =>
      have := List.find?_eq_none.1 hf ts hts
      simp [hl] at this
    | some ts' =>
      have h1 := List.find?_some hf
      have h2 := List.mem_of_find?_eq_some hf
      simp only [beq_iff_eq] at h1
      rw [hdistinct ts' h2 ts hts (h1.trans hl.symm)]

/-- … in symbol-list order: their left-hand-side names form a sublist of the names in order of first appearance. -/
theorem orderStmts_sorted (stmts : List (List (Tok SAtom))) :
    List.Sublist ((orderStmts stmts).filterMap lhsName) (symbolOrder stmts) := by
  unfold orderStmts
  generalize symbolOrder stmts = names
  induction names with
  | nil => simp
  | cons n ns ih =>
    simp only [List.filterMap_cons]
    cases hf : stmts.find? (fun ts => lhsName ts == some n) with
    | none => simpa using List.Sublist.cons n ih
    | some ts' =>
      have h1 := List.find?_some hf
      simp only [beq_iff_eq] at h1
      simp only [List.filterMap_cons, h1]
      exact List.Sublist.cons_cons n ih

/-! ## Reads stay inside the span (for C04) -/

/-- For a feasible period every cell the pass reads lies inside the span, at exactly `t + k`: no Python
    negative-index wrap-around (used by C04 `reads_in_span`). -/
theorem evalPassR_reads_in_span (ops : Ops F) (loc : String → Int) (es : List (Equation SAtom)) (s : Store F)
    (lags leads n : Nat) (t : Int)
    (hk : ∀ e ∈ es, ∀ a ∈ e.rhs.terms, ∃ k, a.idx = .rel k ∧ -(lags : Int) ≤ k ∧ k ≤ leads)
    (ht : (lags : Int) ≤ t) (ht' : t + leads < n) :
    ∀ c ∈ (evalPassR ops loc t es s).2.1, 0 ≤ c.2 ∧ c.2 < n := by
  intro c hc
  obtain ⟨e, he, a, ha, rfl⟩ := evalPassR_reads ops loc t es s c hc
  obtain ⟨k, hidx, h1, h2⟩ := hk e he a ha
  simp only [hidx, Idx.pos]
  omega

end Fsic.M4
