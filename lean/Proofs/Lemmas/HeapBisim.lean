import Proofs.Lemmas.HeapCopy
/-
Observational equality (bisimilarity: equal up to the identity of the objects) of a deep copy and its original.
-/
set_option linter.unusedSimpArgs false
set_option linter.unusedVariables false
namespace Fsic.Heap

/-- Two slot contents agree: both absent, equal immutable values, or related references. -/
def ValRel (R : Nat → Nat → Prop) : Option Val → Option Val → Prop
  | none, none => True
  | some (.imm a), some (.imm b) => a = b
  | some (.ref x), some (.ref y) => R x y
  | _, _ => False

/-- `R` relates only objects of the same kind whose entries agree key by key (dict order is not observable). -/
def IsBisim (h : Heap) (R : Nat → Nat → Prop) : Prop :=
  ∀ x y, R x y → ∃ o o', h[x]? = some o ∧ h[y]? = some o' ∧ o.kind = o'.kind ∧
    ∀ k, ValRel R (o.slots.lookup k) (o'.slots.lookup k)

/-- Nothing that can be observed through `a` distinguishes it from `c` (locations abstracted away). -/
def ObsEq (h : Heap) (a c : Nat) : Prop := ∃ R, IsBisim h R ∧ R a c

def ObsEqV (h : Heap) : Val → Val → Prop
  | .imm a, .imm b => a = b
  | .ref x, .ref y => ObsEq h x y
  | _, _ => False

theorem ValRel.mono {R S : Nat → Nat → Prop} (hRS : ∀ x y, R x y → S x y) {a b : Option Val}
    (h : ValRel R a b) : ValRel S a b := by
  cases a with
  | none => cases b with
    | none => trivial
    | some b => cases b <;> exact h
  | some a =>
    cases a with
    | imm i => cases b with
      | none => exact h
      | some b => cases b with
        | imm j => exact h
        | ref y => exact h
    | ref x => cases b with
      | none => exact h
      | some b => cases b with
        | imm j => exact h
        | ref y => exact hRS x y h

theorem obsEq_isBisim (h : Heap) : IsBisim h (ObsEq h) := by
  intro x y ⟨R, hR, hxy⟩
  obtain ⟨o, o', h1, h2, h3, h4⟩ := hR x y hxy
  exact ⟨o, o', h1, h2, h3, fun k => (h4 k).mono (fun a b hab => ⟨R, hR, hab⟩)⟩

theorem ObsEq.ext {h h1 : Heap} (e : Ext h h1) {a c : Nat} (ob : ObsEq h a c) : ObsEq h1 a c := by
  obtain ⟨R, hR, hac⟩ := ob
  refine ⟨R, ?_, hac⟩
  intro x y hxy
  obtain ⟨o, o', h1', h2, h3, h4⟩ := hR x y hxy
  exact ⟨o, o', e.get_some h1', e.get_some h2, h3, h4⟩

theorem ObsEqV.ext {h h1 : Heap} (e : Ext h h1) {v w : Val} (ob : ObsEqV h v w) : ObsEqV h1 v w := by
  cases v with
  | imm i => cases w with
    | imm j => exact ob
    | ref y => exact ob
  | ref x => cases w with
    | imm j => exact ob
    | ref y => exact ObsEq.ext e ob

/-- Entry-by-entry correspondence of two slot lists: same keys in the same order, related values. -/
inductive SlotsRel (Q : Val → Val → Prop) : List (String × Val) → List (String × Val) → Prop
  | nil : SlotsRel Q [] []
  | cons {k v v' ss ss'} : Q v v' → SlotsRel Q ss ss' → SlotsRel Q ((k, v) :: ss) ((k, v') :: ss')

theorem SlotsRel.mono {Q Q' : Val → Val → Prop} (hQ : ∀ v w, Q v w → Q' v w) {ss ss' : List (String × Val)}
    (r : SlotsRel Q ss ss') : SlotsRel Q' ss ss' := by
  induction r with
  | nil => exact .nil
  | cons q _ ih => exact .cons (hQ _ _ q) ih

theorem SlotsRel.keys {Q : Val → Val → Prop} {ss ss' : List (String × Val)} (r : SlotsRel Q ss ss') :
    ss'.map Prod.fst = ss.map Prod.fst := by
  induction r with
  | nil => rfl
  | cons _ _ ih => simp [ih]

def optRel (Q : Val → Val → Prop) : Option Val → Option Val → Prop
  | none, none => True
  | some v, some w => Q v w
  | _, _ => False

theorem SlotsRel.lookup {Q : Val → Val → Prop} {ss ss' : List (String × Val)} (r : SlotsRel Q ss ss') (k : String) :
    optRel Q (ss.lookup k) (ss'.lookup k) := by
  induction r with
  | nil => trivial
  | @cons k0 v v' ss ss' q _ ih =>
    by_cases hk : k = k0
    · subst hk; simpa [List.lookup, optRel] using q
    · have : (k == k0) = false := by simpa using hk
      simpa [List.lookup, this] using ih

theorem valRel_of_obsEqV {h : Heap} {a b : Option Val} (r : optRel (ObsEqV h) a b) : ValRel (ObsEq h) a b := by
  cases a with
  | none => cases b with
    | none => trivial
    | some w => exact False.elim r
  | some v => cases b with
    | none => exact False.elim r
    | some w =>
      cases v with
      | imm i => cases w with
        | imm j => exact r
        | ref y => exact r
      | ref x => cases w with
        | imm j => exact r
        | ref y => exact r

/-- A new object whose entries agree with those of `o` is observationally equal to `o`. -/
theorem obsEq_new {h : Heap} {l : Nat} {o o' : Obj} (ho : h[l]? = some o) (hk : o.kind = o'.kind)
    (hs : ∀ k, ValRel (ObsEq (h ++ [o'])) (o.slots.lookup k) (o'.slots.lookup k)) :
    ObsEq (h ++ [o']) l h.length := by
  refine ⟨fun x y => (x = l ∧ y = h.length) ∨ ObsEq (h ++ [o']) x y, ?_, Or.inl ⟨rfl, rfl⟩⟩
  intro x y hxy
  rcases hxy with ⟨rfl, rfl⟩ | hxy
  · refine ⟨o, o', (Ext.append h [o']).get_some ho, by simp, hk, ?_⟩
    intro k
    exact (hs k).mono (fun a b hab => Or.inr hab)
  · obtain ⟨p, p', h1, h2, h3, h4⟩ := obsEq_isBisim _ x y hxy
    exact ⟨p, p', h1, h2, h3, fun k => (h4 k).mono (fun a b hab => Or.inr hab)⟩

/-! ### lookups in updated dicts -/

theorem lookup_dropKey_ne {ss : List (String × Val)} {k k0 : String} (hne : k ≠ k0) :
    (dropKey k0 ss).lookup k = ss.lookup k := by
  induction ss with
  | nil => rfl
  | cons kv ss ih =>
    obtain ⟨k1, v1⟩ := kv
    unfold dropKey
    by_cases h1 : k1 = k0
    · simp only [h1, if_true]
      have : (k == k0) = false := by simpa using hne
      simp [List.lookup, this, ih]
    · simp only [h1, if_false]
      by_cases h2 : k = k1
      · subst h2; simp [List.lookup]
      · have : (k == k1) = false := by simpa using h2
        simp [List.lookup, this, ih]

theorem lookup_slotSet_ne {ss : List (String × Val)} {k k0 : String} {v : Val} (hne : k ≠ k0) :
    (slotSet ss k0 v).lookup k = ss.lookup k := by
  induction ss with
  | nil =>
    have : (k == k0) = false := by simpa using hne
    simp [slotSet, List.lookup, this]
  | cons kv ss ih =>
    obtain ⟨k1, v1⟩ := kv
    unfold slotSet
    by_cases h1 : k1 = k0
    · simp only [h1, if_true]
      have : (k == k0) = false := by simpa using hne
      simp [List.lookup, this, lookup_dropKey_ne hne]
    · simp only [h1, if_false]
      by_cases h2 : k = k1
      · subst h2; simp [List.lookup]
      · have : (k == k1) = false := by simpa using h2
        simp [List.lookup, this, ih]

theorem lookup_slotSet_eq {ss : List (String × Val)} {k : String} {v : Val} :
    (slotSet ss k v).lookup k = some v := by
  induction ss with
  | nil => simp [slotSet, List.lookup]
  | cons kv ss ih =>
    obtain ⟨k1, v1⟩ := kv
    unfold slotSet
    by_cases h1 : k1 = k
    · simp only [h1, if_true]; simp [List.lookup]
    · simp only [h1, if_false]
      have : (k == k1) = false := by simpa using (Ne.symm h1)
      simp [List.lookup, this, ih]

theorem lookup_none_of_not_mem {ss : List (String × Val)} {k : String} (h : k ∉ ss.map Prod.fst) :
    ss.lookup k = none := by
  induction ss with
  | nil => rfl
  | cons kv ss ih =>
    obtain ⟨k1, v1⟩ := kv
    simp only [List.map_cons, List.mem_cons, not_or] at h
    have : (k == k1) = false := by simpa using h.1
    simp [List.lookup, this, ih h.2]

/-- `d.update(new)` with unique keys in `new`: a key of `new` reads `new`, any other key reads `d`. -/
theorem lookup_slotUpdate : ∀ (ss init : List (String × Val)) (k : String), (ss.map Prod.fst).Nodup →
    (slotUpdate init ss).lookup k = if k ∈ ss.map Prod.fst then ss.lookup k else init.lookup k := by
  intro ss
  induction ss with
  | nil => intro init k _; simp [slotUpdate]
  | cons kv ss ih =>
    intro init k nd
    obtain ⟨k0, v0⟩ := kv
    simp only [List.map_cons, List.nodup_cons] at nd
    simp only [slotUpdate]
    rw [ih _ k nd.2]
    by_cases hk : k = k0
    · subst hk
      simp [nd.1, List.lookup, lookup_slotSet_eq]
    · have hb : (k == k0) = false := by simpa using hk
      by_cases hm : k ∈ ss.map Prod.fst
      · simp [hm, List.lookup, hb]
      · simp [hm, hk, List.lookup, hb, lookup_slotSet_ne hk]

theorem lookup_append (xs ys : List (String × Val)) (k : String) :
    (xs ++ ys).lookup k = match xs.lookup k with
      | some v => some v
      | none => ys.lookup k := by
  induction xs with
  | nil => rfl
  | cons kv xs ih =>
    obtain ⟨k1, v1⟩ := kv
    by_cases h : k = k1
    · subst h; simp [List.lookup]
    · have : (k == k1) = false := by simpa using h
      simp [List.lookup, this, ih]

/-! ### The keys of a freshly constructed `__dict__` -/

theorem thread_snd (f : Heap → Heap × List (String × Val)) (acc : Heap × List (String × Val)) :
    (thread f acc).2 = acc.2 ++ (f acc.1).2 := rfl

theorem allocVars_keys (n : Nat) : ∀ (xs : List String) (h : Heap),
    (allocVars n xs h).2.map Prod.fst = xs.map (fun x => "_" ++ x) := by
  intro xs
  induction xs with
  | nil => intro h; rfl
  | cons x xs ih =>
    intro h
    simp only [allocVars]
    have := ih (h ++ [cellArray n (.int 0)])
    generalize allocVars n xs (h ++ [cellArray n (.int 0)]) = r at this
    obtain ⟨h1, ss⟩ := r
    simpa using this

theorem stageInterface_keys (cd : ClassDesc) (names : List String) (n : Nat) (h : Heap) :
    (stageInterface cd names n h).2.map Prod.fst =
      if cd.base = .container then []
      else ["dtype", "_status", "_iterations", "names"] ++ names.map (fun x => "_" ++ x) ++ ["lags", "leads"] := by
  unfold stageInterface
  by_cases hc : cd.base = .container
  · simp [hc]
  · simp only [hc, if_false]
    have := allocVars_keys n names (h ++ [cellArray n (.str "-"), cellArray n (.int (-1)), strList names])
    generalize allocVars n names (h ++ [cellArray n (.str "-"), cellArray n (.int (-1)), strList names]) = r at this
    obtain ⟨h1, ss⟩ := r
    simp only at this ⊢
    simp [this]

theorem stageTracer_keys (cd : ClassDesc) (n : Nat) (h : Heap) :
    (stageTracer cd n h).2.map Prod.fst = if cd.tracer then ["_trace"] else [] := by
  unfold stageTracer
  by_cases ht : cd.tracer = true
  · simp only [ht, if_true]
    generalize allocTraces n h = r
    obtain ⟨h1, ts⟩ := r
    rfl
  · simp [ht]

theorem stageModel_keys (cd : ClassDesc) (ve vc : Val) (h : Heap) :
    (stageModel cd ve vc h).2.map Prod.fst =
      if cd.base = .container then [] else ["endogenous", "check"] ++ (if cd.base = .model then ["engine"] else []) := by
  unfold stageModel
  by_cases hc : cd.base = .container
  · simp [hc]
  · by_cases hm : cd.base = .model <;> simp [hc, hm]

theorem stageAlias_keys (cd : ClassDesc) (h : Heap) :
    (stageAlias cd h).2.map Prod.fst = if cd.alias then ["aliases", "preferred_names"] else [] := by
  unfold stageAlias
  by_cases ha : cd.alias = true <;> simp [ha]

theorem stageLinker_keys (cd : ClassDesc) (sub : Val) (h : Heap) :
    (stageLinker cd sub h).2.map Prod.fst =
      if cd.base = .linker then ["submodels", "name", "_LAGS", "_LEADS"] else [] := by
  unfold stageLinker
  by_cases hl : cd.base = .linker
  · cases sub <;> simp [hl]
  · simp [hl]

theorem construct_keys (cd : ClassDesc) (h : Heap) (span sub : Val) :
    (construct cd h span sub).2.map Prod.fst = ctorKeys cd (modelNames h cd) := by
  unfold construct ctorKeys
  simp only [thread_snd, List.map_append, stageTracer_keys, stageModel_keys, stageInterface_keys, stageAlias_keys,
    stageLinker_keys, List.nil_append]
  simp [stageContainer]

theorem modelNames_ext {h0 h : Heap} (wf0 : WF h0) (e : Ext h0 h) {cd : ClassDesc} (ok : ClassOK h0 cd) :
    modelNames h cd = modelNames h0 cd := by
  unfold modelNames valItems
  rw [getObj_classAttr_ext wf0 e ok]

/-- In a linker's fresh `__dict__` the `submodels` entry is the constructor argument. -/
theorem construct_lookup_submodels (cd : ClassDesc) (h : Heap) (span : Val) (l : Nat)
    (hl : cd.base = .linker) : (construct cd h span (.ref l)).2.lookup "submodels" = some (.ref l) := by
  unfold construct
  simp only [thread_snd]
  have hA : (stageAlias cd h).2.lookup "submodels" = none := by
    unfold stageAlias
    by_cases ha : cd.alias = true <;> simp [ha, List.lookup]
  have hL : ∀ h', (stageLinker cd (.ref l) h').2.lookup "submodels" = some (.ref l) := by
    intro h'; simp [stageLinker, hl, List.lookup]
  simp only [List.nil_append, lookup_append, hA, hL]

end Fsic.Heap
