import Proofs.Lemmas.Solver
/-
Soundness of the recorded outcome: what must have happened for the loop to end with a given status.  The forward
theorems of `Proofs/C02.lean`/`C06.lean` say "if the passes behave like this, the outcome is that"; these are the
converses, by induction over the loop, for every interpretation.
-/
namespace Fsic
variable {σ V : Type} (I : Interp σ V) (o : Opts) (t : Int)

/-- What a pass that ends the loop with status '.' looked like. -/
structure SolvedAt (k' : Nat) (u'' : σ) : Prop where
  witness : ∃ (u : σ) (prev : V),
    (I.eval o u t k').2 = false ∧
    I.allFinite prev = true ∧
    I.allFinite (I.check (I.eval o u t k').1 t) = true ∧
    ¬ ((k' : Int) < o.minIter) ∧
    I.close (I.check (I.eval o u t k').1 t) prev = true ∧
    I.after o (I.eval o u t k').1 t k' = (u'', false)

theorem loop_solved_sound (fuel k : Nat) (u : σ) (prev : V) (u'' : σ) (k' : Nat)
    (h : loop I o t fuel k u prev = .done u'' .solved k') :
    k ≤ k' ∧ k' < k + fuel ∧ SolvedAt I o t k' u'' := by
  induction fuel generalizing k u prev with
  | zero => simp [loop] at h
  | succ fuel ih =>
    unfold loop at h
    split at h
    · cases h
    · rename_i u' he
      split at h
      · obtain ⟨a, b, c⟩ := ih _ _ _ h; exact ⟨by omega, by omega, c⟩
      · rename_i hp
        split at h
        · split at h
          · cases h
          · cases h
          · split at h
            · cases h
            · obtain ⟨a, b, c⟩ := ih _ _ _ h; exact ⟨by omega, by omega, c⟩
          · split at h
            · cases h
            · obtain ⟨a, b, c⟩ := ih _ _ _ h; exact ⟨by omega, by omega, c⟩
          · cases h
        · rename_i hc
          split at h
          · obtain ⟨a, b, c⟩ := ih _ _ _ h; exact ⟨by omega, by omega, c⟩
          · rename_i hm
            split at h
            · rename_i hcl
              split at h
              · cases h
              · rename_i u3 ha
                cases h
                refine ⟨Nat.le_refl _, by omega, ⟨u, prev, ?_⟩⟩
                simp only [he]
                refine ⟨trivial, ?_, ?_, hm, hcl, ha⟩
                · simpa using hp
                · simpa using hc
            · obtain ⟨a, b, c⟩ := ih _ _ _ h; exact ⟨by omega, by omega, c⟩

end Fsic

namespace Fsic
variable {σ V : Type} (I : Interp σ V) (o : Opts) (t : Int)

/-- Status 'F' is only ever recorded with the full pass count: the loop either ran out of passes, or met a
    non-finite value under `ignore`/`replace` at pass `max_iter`. -/
theorem loop_failed_sound (fuel k : Nat) (u : σ) (prev : V) (u'' : σ) (k' : Nat)
    (h : loop I o t fuel k u prev = .done u'' .failed k') :
    k' = k + fuel - 1 ∨ (k' : Int) = o.maxIter := by
  induction fuel generalizing k u prev with
  | zero => simp [loop] at h; omega
  | succ fuel ih =>
    unfold loop at h
    split at h
    · cases h
    · split at h
      · rcases ih _ _ _ h with a | a
        · left; omega
        · right; exact a
      · split at h
        · split at h
          · cases h
          · cases h
          · split at h
            · rename_i hk; cases h; right; exact hk
            · rcases ih _ _ _ h with a | a
              · left; omega
              · right; exact a
          · split at h
            · rename_i hk; cases h; right; exact hk
            · rcases ih _ _ _ h with a | a
              · left; omega
              · right; exact a
          · cases h
        · split at h
          · rcases ih _ _ _ h with a | a
            · left; omega
            · right; exact a
          · split at h
            · split at h
              · cases h
              · cases h
            · rcases ih _ _ _ h with a | a
              · left; omega
              · right; exact a

/-- Status 'S' is only recorded by `errors='skip'`, at a pass that turned finite held values non-finite. -/
theorem loop_skipped_sound (fuel k : Nat) (u : σ) (prev : V) (u'' : σ) (k' : Nat)
    (h : loop I o t fuel k u prev = .done u'' .skipped k') :
    o.errors = .skip ∧ k ≤ k' ∧ I.allFinite (I.check u'' t) = false := by
  induction fuel generalizing k u prev with
  | zero => simp [loop] at h
  | succ fuel ih =>
    unfold loop at h
    split at h
    · cases h
    · split at h
      · obtain ⟨a, b, c⟩ := ih _ _ _ h; exact ⟨a, by omega, c⟩
      · split at h
        · rename_i hc
          split at h
          · cases h
          · rename_i he; cases h; exact ⟨he, Nat.le_refl _, hc⟩
          · split at h
            · cases h
            · obtain ⟨a, b, c⟩ := ih _ _ _ h; exact ⟨a, by omega, c⟩
          · split at h
            · cases h
            · obtain ⟨a, b, c⟩ := ih _ _ _ h; exact ⟨a, by omega, c⟩
          · cases h
        · split at h
          · obtain ⟨a, b, c⟩ := ih _ _ _ h; exact ⟨a, by omega, c⟩
          · split at h
            · split at h
              · cases h
              · cases h
            · obtain ⟨a, b, c⟩ := ih _ _ _ h; exact ⟨a, by omega, c⟩

end Fsic

namespace Fsic
variable {σ V : Type} (I : Interp σ V) (o : Opts) (t : Int)

/-- The loop records only '.', 'F' or 'S' itself ('E' is recorded by the bookkeeping, '-' never). -/
theorem loop_done_status (fuel k : Nat) (u : σ) (prev : V) (u'' : σ) (s : Status) (k' : Nat)
    (h : loop I o t fuel k u prev = .done u'' s k') : s = .solved ∨ s = .failed ∨ s = .skipped := by
  induction fuel generalizing k u prev with
  | zero => simp [loop] at h; simp [h.2.1.symm]
  | succ fuel ih =>
    unfold loop at h
    split at h
    · cases h
    · split at h
      · exact ih _ _ _ h
      · split at h
        · split at h
          · cases h
          · cases h; simp
          · split at h
            · cases h; simp
            · exact ih _ _ _ h
          · split at h
            · cases h; simp
            · exact ih _ _ _ h
          · cases h
        · split at h
          · exact ih _ _ _ h
          · split at h
            · split at h
              · cases h
              · cases h; simp
            · exact ih _ _ _ h

end Fsic

namespace Fsic
variable {σ V : Type} (I : Interp σ V) (o : Opts) (n : Nat) (t : Int) (w : World σ)

/-- How a `.ret b` can come out of the bookkeeping. -/
theorem finish_ret (l : LoopOut σ) (w' : World σ) (b : Bool) (h : finish o n t w l = (w', .ret b)) :
    ∃ u s k, l = .done u s k ∧ w' = stamp (withUser w u) n t s k ∧ b = decide (s = .solved) ∧
      ¬ (s = .failed ∧ o.failRaise = true) := by
  cases l with
  | done u s k =>
    simp only [finish] at h
    split at h
    · simp at h
    · rename_i hn
      simp only [Prod.mk.injEq, Result.ret.injEq] at h
      exact ⟨u, s, k, rfl, h.1.symm, h.2.symm, hn⟩
  | evalRaised u k => simp [finish] at h
  | nonFinite u k => simp [finish] at h
  | afterRaised u k => simp [finish] at h
  | badErrors u k => simp [finish] at h

/-- A `solve_t` call that returns at all (no exception) went through the loop. -/
theorem solveT_ret (w' : World σ) (b : Bool) (h : solveT I o n t w = (w', .ret b)) :
    ∃ u2, I.before o (seed I o t w.user) t = (u2, false) ∧
      finish o n t w (loop I o t o.maxIter.toNat 1 u2 (I.check (seed I o t w.user) t)) = (w', .ret b) := by
  unfold solveT at h
  split at h
  · simp at h
  · split at h
    · simp at h
    · split at h
      · simp at h
      · split at h
        · simp at h
        · unfold solveCore at h
          split at h
          · simp at h
          · split at h
            · simp at h
            · rename_i u2 hb
              exact ⟨u2, hb, h⟩

end Fsic
