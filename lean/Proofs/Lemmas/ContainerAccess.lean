import Proofs.Lemmas.ContainerOps
/-
Helper lemmas for C10: Python slices, first-occurrence search, reads and writes on well-formed (1-D) series.
-/
set_option linter.unusedSimpArgs false
set_option linter.unusedVariables false
namespace Fsic.Container
open Fsic

variable {cfg : Cfg}

/-! ### Python slices (positive step) -/

theorem clampPos_le (n : Nat) (x : Int) : clampPos n x ≤ n := by
  unfold clampPos
  split
  · split
    · omega
    · omega
  · split
    · omega
    · omega

theorem clampPos_nat {n p : Nat} (h : p ≤ n) : clampPos n (p : Int) = p := by
  unfold clampPos
  have h1 : ¬ ((p : Int) < 0) := by omega
  have h2 : ¬ ((p : Int) > (n : Int)) := by omega
  simp [h1, h2]

theorem sliceHi_le (n : Nat) (b : Option Int) : sliceHi n b ≤ n := by
  unfold sliceHi
  cases b with
  | none => exact Nat.le_refl n
  | some x => exact clampPos_le n x

theorem lt_sliceCount {lo hi s k : Nat} (hs : 0 < s) : k < sliceCount lo hi s ↔ lo + k * s < hi := by
  unfold sliceCount
  rw [Nat.lt_iff_add_one_le, Nat.le_div_iff_mul_le hs, Nat.add_mul, Nat.one_mul]
  generalize k * s = m
  omega

theorem mem_pySlice {n : Nat} {a b : Option Int} {s : Nat} (hs : 0 < s) (i : Nat) :
    i ∈ pySlice n a b s ↔ sliceLo n a ≤ i ∧ i < sliceHi n b ∧ (i - sliceLo n a) % s = 0 := by
  unfold pySlice
  simp only [List.mem_map, List.mem_range]
  constructor
  · rintro ⟨k, hk, rfl⟩
    rw [lt_sliceCount hs] at hk
    refine ⟨Nat.le_add_right _ _, hk, ?_⟩
    rw [Nat.add_sub_cancel_left]
    exact Nat.mul_mod_left k s
  · rintro ⟨h1, h2, h3⟩
    refine ⟨(i - sliceLo n a) / s, ?_, ?_⟩
    · rw [lt_sliceCount hs, Nat.div_mul_cancel (Nat.dvd_of_mod_eq_zero h3)]
      omega
    · rw [Nat.div_mul_cancel (Nat.dvd_of_mod_eq_zero h3)]
      omega

/-! ### First occurrence -/

theorem firstIdx_some {xs : List Nat} {k i : Nat} :
    firstIdx xs k = some i ↔ xs[i]? = some k ∧ ∀ j, j < i → xs[j]? ≠ some k := by
  induction xs generalizing i with
  | nil => simp [firstIdx]
  | cons x xs ih =>
    unfold firstIdx
    by_cases hx : x = k
    · subst hx
      simp only [if_true]
      constructor
      · intro h
        cases h
        exact ⟨by simp, fun j hj => by omega⟩
      · rintro ⟨h1, h2⟩
        cases i with
        | zero => rfl
        | succ i => exact absurd (by simp) (h2 0 (by omega))
    · simp only [hx, if_false]
      cases i with
      | zero =>
        simp only [List.getElem?_cons_zero]
        constructor
        · intro h
          cases hf : firstIdx xs k <;> simp [hf] at h
        · rintro ⟨h1, _⟩
          cases h1
          exact absurd rfl hx
      | succ i =>
        simp only [List.getElem?_cons_succ]
        constructor
        · intro h
          cases hf : firstIdx xs k with
          | none => simp [hf] at h
          | some i' =>
            simp [hf] at h
            subst h
            obtain ⟨h1, h2⟩ := ih.mp hf
            refine ⟨h1, fun j hj => ?_⟩
            cases j with
            | zero => simpa using hx
            | succ j => simpa using h2 j (by omega)
        · rintro ⟨h1, h2⟩
          have : firstIdx xs k = some i := by
            apply ih.mpr
            refine ⟨h1, fun j hj => ?_⟩
            have := h2 (j + 1) (by omega)
            simpa using this
          simp [this]

theorem firstIdx_none {xs : List Nat} {k : Nat} : firstIdx xs k = none ↔ k ∉ xs := by
  induction xs with
  | nil => simp [firstIdx]
  | cons x xs ih =>
    unfold firstIdx
    by_cases hx : x = k
    · subst hx; simp
    · simp only [hx, if_false, Option.map_eq_none_iff, ih, List.mem_cons, not_or]
      constructor
      · intro h; exact ⟨fun h' => hx h'.symm, h⟩
      · intro h; exact h.2

theorem firstIdx_lt {xs : List Nat} {k i : Nat} (h : firstIdx xs k = some i) : i < xs.length := by
  have := (firstIdx_some.mp h).1
  by_cases hi : i < xs.length
  · exact hi
  · rw [List.getElem?_eq_none (by omega)] at this
    cases this

theorem firstIdx_head (x : Nat) (xs : List Nat) : firstIdx (x :: xs) x = some 0 := by simp [firstIdx]

/-- With distinct labels every position is the first occurrence of its label. -/
theorem firstIdx_of_nodup {xs : List Nat} (hn : xs.Nodup) {i k : Nat} (hi : xs[i]? = some k) :
    firstIdx xs k = some i := by
  induction xs generalizing i with
  | nil => simp at hi
  | cons x xs ih =>
    rw [List.nodup_cons] at hn
    cases i with
    | zero =>
      simp only [List.getElem?_cons_zero] at hi
      have hxk : x = k := by cases hi; rfl
      rw [← hxk]
      exact firstIdx_head x xs
    | succ i =>
      simp only [List.getElem?_cons_succ] at hi
      have hk : k ∈ xs := List.mem_of_getElem? hi
      have hx : x ≠ k := fun h => hn.1 (h ▸ hk)
      unfold firstIdx
      simp [hx, ih hn.2 hi]

/-! ### `locate` on list-like and NumPy spans -/

theorem locate_seq {s : Store} (hk : s.spanKind = .seq) (k : Nat) :
    locate s k = match firstIdx s.span k with | some i => .pos i | none => .missing := by
  unfold locate
  rw [hk]
  rfl

theorem locate_put (s : Store) (name : Name) (ser : Series) (k : Nat) :
    locate (s.put name ser) k = locate s k := rfl

theorem resolveSlice_put (s : Store) (name : Name) (ser : Series) (a b : Option Nat) (st : Option Int) :
    resolveSlice (s.put name ser) a b st = resolveSlice s a b st := rfl

/-! ### Reads and writes on a well-formed series -/

theorem firstDim_wf {n : Nat} {ser : Series} (h : ser.wf n) : firstDim ser = n := by
  simp [firstDim, h.1]

theorem rowWidth_wf {n : Nat} {ser : Series} (h : ser.wf n) : rowWidth ser = none := by
  simp [rowWidth, h.1]

theorem viewPos_wf {n : Nat} {ser : Series} (h : ser.wf n) (p : Nat) : viewPos ser p = ([p], []) := by
  simp [viewPos, rowWidth_wf h]

theorem viewSlice_wf {n : Nat} {ser : Series} (h : ser.wf n) (ps : List Nat) :
    viewSlice ser ps = (ps, [ps.length]) := by
  simp [viewSlice, rowWidth_wf h]

theorem viewAll_wf {n : Nat} {ser : Series} (h : ser.wf n) : viewAll ser = (List.range n, [n]) := by
  simp [viewAll, h.1, h.2]

theorem pick_setAt_eq {data : List Val} {p : Nat} (w : Val) (hp : p < data.length) :
    pick (setAt data p w) p = w := by
  simp [pick, List.getD, setAt_getElem?_eq data p w hp]

theorem pick_setAt_ne {data : List Val} {p j : Nat} (w : Val) (h : p ≠ j) :
    pick (setAt data p w) j = pick data j := by
  simp [pick, List.getD, setAt_getElem?_ne data p j w h]

/-- Storing one already converted value at every listed position. -/
theorem pick_writeRaw_fill (idxs : List Nat) (w : Val) (data : List Val) (j : Nat) (hj : j < data.length) :
    pick (writeRaw data (idxs.map fun k => (k, w))) j = if j ∈ idxs then w else pick data j := by
  induction idxs generalizing data with
  | nil => simp [writeRaw]
  | cons p rest ih =>
    simp only [List.map_cons, writeRaw]
    rw [ih (setAt data p w) (by rw [setAt_length]; exact hj)]
    by_cases hjr : j ∈ rest
    · simp [hjr]
    · by_cases hjp : j = p
      · subst hjp
        simp [hjr, pick_setAt_eq w hj]
      · have : p ≠ j := fun h => hjp h.symm
        simp [hjr, hjp, pick_setAt_ne w this]

/-- Scalar assignment into a view of a well-formed series: conversion first, then every addressed position. -/
theorem assignView_fill {ser : Series} {v w : Val} (hc : conv ser.dtype v = .ok w) (idxs vshape : List Nat) :
    assignView ser idxs vshape (.fill v) =
      ({ ser with data := writeRaw ser.data (idxs.map fun k => (k, w)) }, .ok) := by
  simp [assignView, hc]

theorem assignAt_scalar {s : Store} {name : Name} {ser : Series} {v w : Val}
    (hc : conv ser.dtype v = .ok w) (view : List Nat × List Nat) :
    assignAt s name ser view (.scalar v) =
      (s.put name { ser with data := writeRaw ser.data (view.1.map fun k => (k, w)) }, .ok) := by
  rw [assignAt_eq]
  have : srcOfAssign view.2.length ser.dtype.kind (.scalar v) = .fill v := by
    cases view.2.length <;> rfl
  rw [this, assignView_fill hc]

theorem wf_setData {n : Nat} {ser : Series} (h : ser.wf n) {data : List Val} (hd : data.length = ser.data.length) :
    ({ ser with data := data } : Series).wf n := ⟨h.1, hd.trans h.2⟩

end Fsic.Container
