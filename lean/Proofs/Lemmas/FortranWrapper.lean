import Proofs.Lemmas.FortranLoop
set_option linter.unusedSimpArgs false
set_option linter.unusedVariables false
/-
`FortranEngine.solve_t` (wrapper + template) against `BaseModel.solve_t` (M1) — helper for `Proofs/C07.lean`.
-/
namespace Fsic.Fortran
variable {σ V : Type}

theorem indexOf_succ (n : Nat) (t : Int) (ht : -(n : Int) ≤ t) (ht' : t < n) :
    indexOf n (t + 1) = normT n t + 1 := by
  unfold indexOf normT
  by_cases h : t < 0
  · have : t + 1 < 1 := by omega
    simp [h, this]; omega
  · have : ¬ t + 1 < 1 := by omega
    simp [h, this]

theorem normT_bounds (n : Nat) (t : Int) (ht : -(n : Int) ≤ t) (ht' : t < n) :
    0 ≤ normT n t ∧ normT n t < n := by
  unfold normT
  by_cases h : t < 0 <;> simp [h] <;> omega

/-- A period that passes the four index checks: `evaluate` runs the equations and reports 0. -/
theorem evaluate_ok (E : Engine σ V) (u : σ) (index : Nat) (h : indexCode E (index : Int) = 0) (h1 : 1 ≤ index) :
    evaluate E u index = (E.body u index, 0) := by
  have hi : indexOf E.ncols (index : Int) = index := by
    unfold indexOf
    have : ¬ ((index : Int) < 1) := by omega
    simp [this]
  unfold evaluate
  rw [hi]
  simp [h]

theorem indexCode_feasible (E : Engine σ V) (i : Int) (h1 : (E.lags : Int) < i) (h2 : i ≤ (E.ncols : Int) - E.leads) :
    indexCode E i = 0 := by
  unfold indexCode
  have a : ¬ i < 1 := by omega
  have b : ¬ i > E.ncols := by omega
  have c : ¬ i ≤ E.lags := by omega
  have d : ¬ i > (E.ncols : Int) - E.leads := by omega
  simp [a, b, c, d]

theorem wSolveT_eq_solveT (W : Wrapped σ V) (o : Opts) (t : Int) (w : World σ) (Inv : σ → Prop)
    (ht : -(W.ncols : Int) ≤ t) (ht' : t < W.ncols)
    (hfeas : (W.lags : Int) < normT W.ncols t + 1 ∧ normT W.ncols t + 1 ≤ (W.ncols : Int) - W.leads)
    (herr : o.errors ≠ .invalid) (hmax : 1 ≤ o.maxIter)
    (R : FiniteRegime W t (normT W.ncols t + 1).toNat Inv)
    (hcopy : ∀ u d s, W.copyEndo (W.copyEndo u d s) d s = W.copyEndo u d s)
    (hseed : Inv (seed (toInterp W) o t w.user)) :
    wSolveT W o t w
      = ((Fsic.solveT (toInterp W) o W.ncols t w).1, ofResult (Fsic.solveT (toInterp W) o W.ncols t w).2) := by
  obtain ⟨hn0, hn1⟩ := normT_bounds W.ncols t ht ht'
  unfold wSolveT Fsic.solveT
  by_cases h0 : o.minIter > o.maxIter
  · simp [h0, ofResult]
  simp only [h0, if_false]
  have hfe : ¬ (normT W.ncols t - ((toInterp W).lags : Int) < 0 ∨ normT W.ncols t + ((toInterp W).leads : Int) ≥ W.ncols) := by
    have a : (toInterp W).lags = W.lags := rfl
    have b : (toInterp W).leads = W.leads := rfl
    rw [a, b]; omega
  simp only [hfe, if_false]
  obtain ⟨ec, hec⟩ : ∃ ec, errorOption o.errors = some ec := by
    cases he : o.errors <;> simp [errorOption] <;> exact absurd he herr
  simp only [hec]
  by_cases h1 : o.offset ≠ 0 ∧ normT W.ncols t + o.offset < 0
  · simp [h1, ofResult]
  simp only [h1, if_false]
  by_cases h2 : o.offset ≠ 0 ∧ normT W.ncols t + o.offset ≥ W.ncols
  · simp [h2, ofResult]
  simp only [h2, if_false]
  -- the state after the Python-side offset copy is M1's seeded state
  have hu1 : (if o.offset ≠ 0 then
        W.copyEndo w.user (normT W.ncols t + 1).toNat (normT W.ncols t + o.offset + 1).toNat else w.user)
      = seed (toInterp W) o t w.user := by
    unfold seed; split <;> rfl
  rw [hu1]
  generalize hu1' : seed (toInterp W) o t w.user = u1 at hseed ⊢
  have hfin1 : W.allFinite (W.pyCheck u1 (normT W.ncols t + 1).toNat) = true := R.check_finite u1 hseed
  have hchk : (toInterp W).check u1 t = W.pyCheck u1 (normT W.ncols t + 1).toNat := rfl
  unfold solveCore
  have hal : (toInterp W).allFinite = W.allFinite := rfl
  simp only [hfin1, hchk, hal, Bool.true_eq_false, and_false, if_false]
  have hbef : (toInterp W).before o u1 t = (u1, false) := rfl
  rw [hbef]
  -- the compiled solve_t
  have hidx : indexOf W.ncols (t + 1) = normT W.ncols t + 1 := indexOf_succ W.ncols t ht ht'
  have hcode : indexCode W.toEngine (normT W.ncols t + 1) = 0 := indexCode_feasible W.toEngine _ hfeas.1 hfeas.2
  unfold Fortran.solveT
  rw [hidx]
  simp only [hcode, ne_eq, not_true_eq_false, if_false]
  unfold solveTCore
  have hcast : (((normT W.ncols t + 1).toNat : Nat) : Int) = normT W.ncols t + 1 := by omega
  simp only [cfgOf, hcast]
  have c1 : ¬ (o.offset ≠ 0 ∧ normT W.ncols t + 1 + o.offset < 1) := by
    intro h; exact h1 ⟨h.1, by omega⟩
  have c2 : ¬ (o.offset ≠ 0 ∧ normT W.ncols t + 1 + o.offset > W.ncols) := by
    intro h; exact h2 ⟨h.1, by omega⟩
  simp only [c1, c2, if_false]
  -- the second (Fortran-side) copy changes nothing
  have hu2 : (if o.offset ≠ 0 then
        W.copyEndo u1 (normT W.ncols t + 1).toNat (normT W.ncols t + 1 + o.offset).toNat else u1) = u1 := by
    by_cases hz : o.offset ≠ 0
    · rw [if_pos hz]
      have : u1 = W.copyEndo w.user (normT W.ncols t + 1).toNat (normT W.ncols t + o.offset + 1).toNat := by
        rw [← hu1']; unfold seed; simp [hz, toInterp]
      have e : (normT W.ncols t + 1 + o.offset).toNat = (normT W.ncols t + o.offset + 1).toNat := by
        congr 1; omega
      rw [e, this, hcopy]
    · rw [if_neg hz]
  have hu2' : (if ¬ o.offset = 0 then
        W.copyEndo u1 (normT W.ncols t + 1).toNat (normT W.ncols t + 1 + o.offset).toNat else u1) = u1 := hu2
  simp only [ne_eq] at hu2
  simp only [ne_eq, hu2, R.aligned u1, hfin1, Bool.true_eq_false, and_false, if_false]
  -- the loops
  have hfuel : o.maxIter.toNat ≠ 0 := by omega
  have hloop := floop_eq_loop W ⟨o.minIter, o.maxIter, o.offset, ec, failureOption o.failRaise⟩ o t
    (normT W.ncols t + 1).toNat Inv R rfl o.maxIter.toNat 1 u1
    (W.pyCheck u1 (normT W.ncols t + 1).toNat) (-1) (Nat.le_refl 1) hseed hfin1
  simp only [hfuel, if_false] at hloop
  cases hl : loop (toInterp W) o t o.maxIter.toNat 1 u1 (W.pyCheck u1 (normT W.ncols t + 1).toNat) with
  | done u s k =>
    rw [hl] at hloop
    cases s with
    | solved =>
      simp only [asOut, Option.some.injEq] at hloop
      rw [← hloop]
      simp [dispatchT, finish, ofResult]
    | failed =>
      simp only [asOut, Option.some.injEq] at hloop
      rw [← hloop]
      by_cases hf : o.failRaise = true <;> simp [dispatchT, finish, ofResult, hf]
    | unsolved => simp [asOut] at hloop
    | error => simp [asOut] at hloop
    | skipped => simp [asOut] at hloop
  | evalRaised u k => rw [hl] at hloop; simp [asOut] at hloop
  | nonFinite u k => rw [hl] at hloop; simp [asOut] at hloop
  | afterRaised u k => rw [hl] at hloop; simp [asOut] at hloop
  | badErrors u k => rw [hl] at hloop; simp [asOut] at hloop

end Fsic.Fortran
