import FsicModel.Solver
/-
The solver's bookkeeping never feeds back into the solution: `solve_t` is a function of the instance's *user state*
(its series and whatever its hooks keep) and the options alone; `status` and `iterations` are written — at most one
stamp, at the period solved — and never read.  Stated as a factorisation of `solveT` through `outcomeOf`.
-/
namespace Fsic

variable {σ V : Type}

/-- What one `solve_t` call does, seen from the user state alone: the new user state, the stamp it leaves at the
    period (if any) and its result. -/
abbrev Outcome (σ : Type) := σ × Option (Status × Int) × Result

def finishOutcome {σ} (o : Opts) : LoopOut σ → Outcome σ
  | .done u s k =>
    (u, some (s, (k : Int)), if s = .failed ∧ o.failRaise = true then .nonConvergence else .ret (decide (s = .solved)))
  | .evalRaised u k => (u, if o.errors = .raise then some (.error, (k : Int)) else none, .solutionError true)
  | .nonFinite u k => (u, some (.error, (k : Int)), .solutionError false)
  | .afterRaised u _ => (u, none, .solutionError true)
  | .badErrors u _ => (u, none, .badErrorsArg)

def coreOutcome (I : Interp σ V) (o : Opts) (t : Int) (u1 : σ) : Outcome σ :=
  if o.errors = .raise ∧ I.allFinite (I.check u1 t) = false then (u1, none, .solutionError false)
  else
    match I.before o u1 t with
    | (u2, true) => (u2, none, .solutionError true)
    | (u2, false) => finishOutcome o (loop I o t o.maxIter.toNat 1 u2 (I.check u1 t))

def outcomeOf (I : Interp σ V) (o : Opts) (n : Nat) (t : Int) (u : σ) : Outcome σ :=
  if o.minIter > o.maxIter then (u, none, .valueError)
  else if normT n t - I.lags < 0 ∨ normT n t + I.leads ≥ n then (u, none, .indexError)
  else if o.offset ≠ 0 ∧ normT n t + o.offset < 0 then (u, none, .indexError)
  else if o.offset ≠ 0 ∧ normT n t + o.offset ≥ n then (u, none, .indexError)
  else coreOutcome I o t (seed I o t u)

/-- Apply an outcome to a world: replace the user state, stamp the period if the outcome says so. -/
def applyOutcome {σ} (n : Nat) (t : Int) (w : World σ) : Outcome σ → World σ × Result
  | (u, none, r) => (withUser w u, r)
  | (u, some (s, k), r) => (stamp (withUser w u) n t s k, r)

theorem withUser_self {σ} (w : World σ) : withUser w w.user = w := by cases w; rfl

theorem finish_eq_outcome {σ} (o : Opts) (n : Nat) (t : Int) (w : World σ) (l : LoopOut σ) :
    finish o n t w l = applyOutcome n t w (finishOutcome o l) := by
  cases l with
  | done u s k => rfl
  | evalRaised u k =>
    by_cases h : o.errors = .raise <;> simp [finish, finishOutcome, applyOutcome, h]
  | nonFinite u k => rfl
  | afterRaised u k => rfl
  | badErrors u k => rfl

theorem solveCore_eq_outcome (I : Interp σ V) (o : Opts) (n : Nat) (t : Int) (w : World σ) (u1 : σ) :
    solveCore I o n t w u1 = applyOutcome n t w (coreOutcome I o t u1) := by
  unfold solveCore coreOutcome
  by_cases h : o.errors = .raise ∧ I.allFinite (I.check u1 t) = false
  · simp only [h, and_self, if_true, applyOutcome]
  · simp only [h, if_false]
    rcases hb : I.before o u1 t with ⟨u2, b⟩
    cases b
    · simp only [finish_eq_outcome]
    · simp only [applyOutcome]

/-- **Factorisation.** `solve_t` = compute the outcome from the user state, then apply it. -/
theorem solveT_eq_outcome (I : Interp σ V) (o : Opts) (n : Nat) (t : Int) (w : World σ) :
    solveT I o n t w = applyOutcome n t w (outcomeOf I o n t w.user) := by
  unfold solveT outcomeOf
  by_cases h0 : o.minIter > o.maxIter
  · rw [if_pos h0, if_pos h0]; simp only [applyOutcome, withUser_self]
  · rw [if_neg h0, if_neg h0]
    by_cases h1 : normT n t - ↑I.lags < 0 ∨ normT n t + ↑I.leads ≥ ↑n
    · rw [if_pos h1, if_pos h1]; simp only [applyOutcome, withUser_self]
    · rw [if_neg h1, if_neg h1]
      by_cases h2 : o.offset ≠ 0 ∧ normT n t + o.offset < 0
      · rw [if_pos h2, if_pos h2]; simp only [applyOutcome, withUser_self]
      · rw [if_neg h2, if_neg h2]
        by_cases h3 : o.offset ≠ 0 ∧ normT n t + o.offset ≥ ↑n
        · rw [if_pos h3, if_pos h3]; simp only [applyOutcome, withUser_self]
        · rw [if_neg h3, if_neg h3]; exact solveCore_eq_outcome I o n t w _

theorem applyOutcome_user {σ} (n : Nat) (t : Int) (w : World σ) (oc : Outcome σ) :
    (applyOutcome n t w oc).1.user = oc.1 := by
  rcases oc with ⟨u, _ | ⟨s, k⟩, r⟩
  · rfl
  · simp only [applyOutcome, stamp, withUser]
    cases pyIndex n t <;> rfl

theorem applyOutcome_result {σ} (n : Nat) (t : Int) (w : World σ) (oc : Outcome σ) :
    (applyOutcome n t w oc).2 = oc.2.2 := by
  rcases oc with ⟨u, _ | ⟨s, k⟩, r⟩ <;> rfl

end Fsic
