import Proofs.Lemmas.ParserReject
set_option linter.unusedSimpArgs false
set_option linter.unusedVariables false
/-
A summary is determined by the set of occurrences it summarises (used for "identical duplicates are accepted once").
-/
namespace Fsic.Parser

theorem Summ.unique {c c' : Symbol} {occ occ' : List Symbol} (h : Summ c occ) (h' : Summ c' occ')
    (hm : ∀ s, s ∈ occ ↔ s ∈ occ') (hn : c.name = c'.name) : c = c' := by
  obtain ⟨s0, hs0, hs0t⟩ := h.typeAtt
  obtain ⟨s0', hs0', hs0t'⟩ := h'.typeAtt
  have htype : c.type = c'.type := by
    apply TypeLe.antisymm
    · rw [← hs0t]; exact h'.typeLe s0 ((hm s0).1 hs0)
    · rw [← hs0t']; exact h.typeLe s0' ((hm s0').2 hs0')
  have hlags : c.lags = c'.lags := by
    rcases h.lags with ⟨a1, a2⟩ | ⟨m, a1, a2, a3, a4⟩
    · rcases h'.lags with ⟨b1, _⟩ | ⟨m', b1, _, b3, _⟩
      · rw [a1, b1]
      · exact absurd (a2 s0 hs0) (b3 s0 ((hm s0).1 hs0)).1
    · rcases h'.lags with ⟨b1, b2⟩ | ⟨m', b1, b2, b3, b4⟩
      · exact absurd (b2 s0 ((hm s0).1 hs0)) (a3 s0 hs0).1
      · rw [a1, b1]; congr 1
        have l1 : m' ≤ m := by
          rcases a4 with h0 | ⟨s, hs, hsm⟩
          · omega
          · exact (b3 s ((hm s).1 hs)).2 m hsm
        have l2 : m ≤ m' := by
          rcases b4 with h0 | ⟨s, hs, hsm⟩
          · omega
          · exact (a3 s ((hm s).2 hs)).2 m' hsm
        omega
  have hleads : c.leads = c'.leads := by
    rcases h.leads with ⟨a1, a2⟩ | ⟨m, a1, a2, a3, a4⟩
    · rcases h'.leads with ⟨b1, _⟩ | ⟨m', b1, _, b3, _⟩
      · rw [a1, b1]
      · exact absurd (a2 s0 hs0) (b3 s0 ((hm s0).1 hs0)).1
    · rcases h'.leads with ⟨b1, b2⟩ | ⟨m', b1, b2, b3, b4⟩
      · exact absurd (b2 s0 ((hm s0).1 hs0)) (a3 s0 hs0).1
      · rw [a1, b1]; congr 1
        have l1 : m ≤ m' := by
          rcases a4 with h0 | ⟨s, hs, hsm⟩
          · omega
          · exact (b3 s ((hm s).1 hs)).2 m hsm
        have l2 : m' ≤ m := by
          rcases b4 with h0 | ⟨s, hs, hsm⟩
          · omega
          · exact (a3 s ((hm s).2 hs)).2 m' hsm
        omega
  have hopt : ∀ (x y : Option String), (∀ e, x = some e → y = some e) → (∀ e, y = some e → x = some e) → x = y := by
    intro x y h1 h2
    cases x with
    | some e => exact (h1 e rfl).symm
    | none =>
      cases y with
      | none => rfl
      | some e => exact absurd (h2 e rfl) (by simp)
  have heq : c.equation = c'.equation := by
    apply hopt
    · intro e he; obtain ⟨s, hs, hse⟩ := h.eqAtt e he; exact h'.eqAll s ((hm s).1 hs) e hse
    · intro e he; obtain ⟨s, hs, hse⟩ := h'.eqAtt e he; exact h.eqAll s ((hm s).2 hs) e hse
  have hcode : c.code = c'.code := by
    apply hopt
    · intro e he; obtain ⟨s, hs, hse⟩ := h.codeAtt e he; exact h'.codeAll s ((hm s).1 hs) e hse
    · intro e he; obtain ⟨s, hs, hse⟩ := h'.codeAtt e he; exact h.codeAll s ((hm s).2 hs) e hse
  cases c; cases c'; simp_all

theorem list_eq_of_map_eq {α β} (f : α → β) : ∀ (l l' : List α), l.map f = l'.map f →
    (∀ x ∈ l, ∀ y ∈ l', f x = f y → x = y) → l = l' := by
  intro l
  induction l with
  | nil => intro l' h _; cases l' with
    | nil => rfl
    | cons y ys => simp at h
  | cons x xs ih =>
    intro l' h hinj
    cases l' with
    | nil => simp at h
    | cons y ys =>
      simp only [List.map_cons, List.cons.injEq] at h
      have hxy : x = y := hinj x (by simp) y (by simp) h.1
      have := ih ys h.2 (fun a ha b hb => hinj a (List.mem_cons_of_mem _ ha) b (List.mem_cons_of_mem _ hb))
      rw [hxy, this]

theorem foldl_pushNew_of_mem {α} [DecidableEq α] (xs acc : List α) (h : ∀ x ∈ xs, x ∈ acc) :
    xs.foldl pushNew acc = acc := by
  induction xs with
  | nil => rfl
  | cons x xs ih =>
    simp only [List.foldl_cons]
    have : pushNew acc x = acc := by simp [pushNew, h x (by simp)]
    rw [this]; exact ih (fun y hy => h y (List.mem_cons_of_mem _ hy))

end Fsic.Parser
