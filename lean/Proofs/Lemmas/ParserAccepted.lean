import Proofs.Lemmas.ParserUnique
set_option linter.unusedSimpArgs false
set_option linter.unusedVariables false
/-
Accepted scripts in the form the property theorems use, and the count of code-carrying symbols.
-/
namespace Fsic.Parser

/-- What an accepted script looks like (from `parseModel_char`). -/
theorem accepted_char {S : List Stmt} {syms : List Symbol} (h : parseModel S = .ok syms) (w1 : WellIndexed S) :
    ∃ D V, syms = D ++ V ∧ (∀ v ∈ V, v.name = none ∧ v.type = .verbatim) ∧
      keys D = firstApp ((scriptOcc S).map (·.name)) ∧
      (∀ c ∈ D, Summ c ((scriptOcc S).filter (fun s => s.name = c.name))) ∧
      (∀ s ∈ scriptOcc S, ∃ c ∈ D, c.name = s.name) ∧ V = S.flatMap verbSyms := by
  obtain ⟨D, V, h1, h2, h3, h4, h5⟩ := parseModel_char h (stmtOK_of_guards w1)
  refine ⟨D, V, h1, h2, h3, h4, ?_, h5⟩
  intro s hs
  have : s.name ∈ keys D := by rw [h3]; exact (mem_firstApp _ _).2 (List.mem_map_of_mem hs)
  obtain ⟨c, hc, hcn⟩ := List.mem_map.1 this
  exact ⟨c, hc, hcn⟩

/-- Every equation statement of an accepted script assigns exactly one name. -/
theorem accepted_iff_definesOne {S : List Stmt} {syms : List Symbol} (h : parseModel S = .ok syms)
    (w1 : WellIndexed S) : ∀ ts e c, Stmt.eqn ts e c ∈ S → (definedNames (.eqn ts e c)).length = 1 := by
  intro ts q c hst
  unfold parseModel at h
  cases hm : mapE stmtSymbols S with
  | error x => simp [hm] at h
  | ok groups =>
    obtain ⟨G, _, hG⟩ := (mapE_ok_mem hm).2 _ hst
    have hok := stmtOK_of_guards w1 _ hst
    simp only [stmtSymbols] at hG
    obtain ⟨hf, hone⟩ := symbolsOfTerms_ok hok hG
    rw [← defined_count hf]; exact hone

theorem scriptOcc_endogenous {S : List Stmt} {s : Symbol} (hs : s ∈ scriptOcc S) (ht : s.type = .endogenous) :
    ∃ ts e c, Stmt.eqn ts e c ∈ S ∧ s ∈ termSyms e c ts ∧ s.equation = some e ∧ s.code = some c := by
  obtain ⟨stmt, hst, hso⟩ := List.mem_flatMap.1 hs
  cases stmt with
  | verb e c => simp [stmtOcc] at hso
  | eqn ts e c => exact ⟨ts, e, c, hst, hso, termSyms_endogenous_eq hso ht⟩

/-- The names assigned anywhere in the script, each once, in order of first assignment. -/
def scriptDefinedNames (S : List Stmt) : List (Option String) :=
  firstApp (((scriptOcc S).filter (fun s => s.type = .endogenous)).map (·.name))

/-- In an accepted script the symbols that carry code are: one per assigned name, then one per verbatim statement. -/
theorem selected_char {S : List Stmt} {syms : List Symbol} (h : parseModel S = .ok syms) (w1 : WellIndexed S) :
    ∃ D V, syms = D ++ V ∧ selected syms = D.filter isDefined ++ V ∧ V = S.flatMap verbSyms ∧
      (D.filter isDefined).length = (scriptDefinedNames S).length := by
  obtain ⟨D, V, rfl, hV, hk, hS, hE, hVS⟩ := accepted_char h w1
  have hnd : (keys D).Nodup := by rw [hk]; exact nodup_firstApp _
  refine ⟨D, V, rfl, ?_, hVS, ?_⟩
  · unfold selected
    rw [List.filter_append]
    congr 1
    · apply List.filter_congr
      intro g hg
      unfold carriesCode isDefined
      have hnv : g.type ≠ .verbatim := by
        obtain ⟨s, hs, hst⟩ := (hS g hg).typeAtt
        obtain ⟨stmt, _, hso⟩ := List.mem_flatMap.1 (List.mem_filter.1 hs).1
        cases stmt with
        | verb e c => simp [stmtOcc] at hso
        | eqn ts e c =>
          simp only [stmtOcc, termSyms] at hso
          obtain ⟨t, ht, rfl⟩ := List.mem_map.1 hso
          rw [← hst]; simpa [termSymbol_type] using (List.mem_filter.1 ht).2
      by_cases hge : g.type = .endogenous
      · cases hq : g.equation with
        | none => simp [hge, hq]
        | some q =>
          obtain ⟨s, hs, hsq⟩ := (hS g hg).eqAtt q hq
          have hsm := (List.mem_filter.1 hs).1
          have hst : s.type = .endogenous := by
            obtain ⟨stmt, _, hso⟩ := List.mem_flatMap.1 hsm
            cases stmt with
            | verb e c => simp [stmtOcc] at hso
            | eqn ts e c =>
              simp only [stmtOcc, termSyms] at hso
              obtain ⟨t, ht, rfl⟩ := List.mem_map.1 hso
              by_cases hte : t.type = .endogenous
              · exact hte
              · simp [termSymbol, hte] at hsq
          obtain ⟨ts, e, c, _, _, _, hsc⟩ := scriptOcc_endogenous hsm hst
          have := (hS g hg).codeAll s hs c hsc
          simp [hge, hq, this]
      · simp [hge, hnv]
    · apply List.filter_eq_self.2
      intro v hv
      rw [hVS] at hv
      obtain ⟨stmt, _, hvs⟩ := List.mem_flatMap.1 hv
      cases stmt with
      | eqn _ _ _ => simp [verbSyms] at hvs
      | verb e c => simp [verbSyms] at hvs; subst hvs; rfl
  · have h1 : (D.filter isDefined).length = ((D.filter isDefined).map (·.name)).length := by simp
    rw [h1]
    apply List.Perm.length_eq
    apply (List.perm_ext_iff_of_nodup ?_ (nodup_firstApp _)).2
    · intro k
      simp only [scriptDefinedNames, mem_firstApp, List.mem_map, List.mem_filter]
      constructor
      · rintro ⟨g, ⟨hg, hd⟩, rfl⟩
        have hgt : g.type = .endogenous := by
          unfold isDefined at hd; simp only [Bool.and_eq_true, decide_eq_true_eq] at hd; exact hd.1
        obtain ⟨s, hs', hst⟩ := (hS g hg).typeAtt
        obtain ⟨hs1, hs2⟩ := List.mem_filter.1 hs'
        exact ⟨s, ⟨hs1, by simp [hst, hgt]⟩, by simpa using hs2⟩
      · rintro ⟨s, ⟨hs1, hs2⟩, rfl⟩
        have hst : s.type = .endogenous := by simpa using hs2
        obtain ⟨g, hg, hgn⟩ := hE s hs1
        have hmem : s ∈ (scriptOcc S).filter (fun x => x.name = g.name) := List.mem_filter.2 ⟨hs1, by simp [hgn]⟩
        have hle := (hS g hg).typeLe s hmem
        rw [hst] at hle
        have hgt := typeLe_of_endogenous hle
        obtain ⟨ts, e, c, _, _, hse, _⟩ := scriptOcc_endogenous hs1 hst
        have hge := (hS g hg).eqAll s hmem e hse
        refine ⟨g, ⟨hg, ?_⟩, hgn⟩
        unfold isDefined; simp [hgt, hge]
    · exact ((List.filter_sublist).map _).nodup hnd

end Fsic.Parser
