import Proofs.Lemmas.ParserLags
set_option linter.unusedSimpArgs false
set_option linter.unusedVariables false
/-
Which error a rejected script raises: analysis of the failing `combine`.
-/
namespace Fsic.Parser

/-- What the failing step needs to know about a symbol that stands for one or several occurrences in `occ`. -/
structure Rep (a : Symbol) (occ : List Symbol) : Prop where
  typeAtt : ∃ s ∈ occ, s.name = a.name ∧ s.type = a.type
  lagsNone : a.lags = .none ↔ isIndexed a.type = false
  leadsNone : a.leads = .none ↔ isIndexed a.type = false
  eqAtt : ∀ e, a.equation = some e → ∃ s ∈ occ, s.name = a.name ∧ s.equation = some e
  codeAtt : ∀ e, a.code = some e → ∃ s ∈ occ, s.name = a.name ∧ s.code = some e

/-- The guard on indexes, for an arbitrary list of occurrences. -/
def WellIndexedOcc (occ : List Symbol) : Prop :=
  ∀ s ∈ occ, (isIndexed s.type = false → s.lags = .none) ∧ (isIndexed s.type = true → s.lags ≠ .none) ∧
    s.leads = s.lags

theorem rep_of_occ {occ : List Symbol} (w : WellIndexedOcc occ) {s : Symbol} (hs : s ∈ occ) : Rep s occ := by
  obtain ⟨h1, h2, h3⟩ := w s hs
  have key : s.lags = .none ↔ isIndexed s.type = false := by
    constructor
    · intro h; cases hi : isIndexed s.type with
      | false => rfl
      | true => exact absurd h (h2 hi)
    · exact h1
  exact ⟨⟨s, hs, rfl, rfl⟩, key, by rw [h3]; exact key, fun e he => ⟨s, hs, rfl, he⟩, fun e he => ⟨s, hs, rfl, he⟩⟩

theorem rep_of_summ {occ o : List Symbol} (w : WellIndexedOcc occ) {c : Symbol} (hc : Summ c o)
    (hsub : ∀ s ∈ o, s ∈ occ) :
    Rep c occ ∧ (∀ t, c.lags ≠ .str t) ∧ (∀ t, c.leads ≠ .str t) := by
  obtain ⟨s0, hs0, hs0t⟩ := hc.typeAtt
  obtain ⟨w1, w2, w3⟩ := w s0 (hsub s0 hs0)
  refine ⟨⟨⟨s0, hsub s0 hs0, hc.name s0 hs0, hs0t⟩, ?_, ?_, ?_, ?_⟩, ?_, ?_⟩
  · rcases hc.lags with ⟨h1, hall⟩ | ⟨m, h1, _, hall, _⟩
    · constructor
      · intro _; cases hi : isIndexed c.type with
        | false => rfl
        | true => exact absurd (hall s0 hs0) (w2 (by rw [hs0t]; exact hi))
      · intro _; exact h1
    · constructor
      · intro h; rw [h1] at h; cases h
      · intro hi; exact absurd (w1 (by rw [hs0t]; exact hi)) (hall s0 hs0).1
  · rcases hc.leads with ⟨h1, hall⟩ | ⟨m, h1, _, hall, _⟩
    · constructor
      · intro _; cases hi : isIndexed c.type with
        | false => rfl
        | true => have := hall s0 hs0; rw [w3] at this; exact absurd this (w2 (by rw [hs0t]; exact hi))
      · intro _; exact h1
    · constructor
      · intro h; rw [h1] at h; cases h
      · intro hi; have := (hall s0 hs0).1; rw [w3] at this; exact absurd (w1 (by rw [hs0t]; exact hi)) this
  · intro e he; obtain ⟨s, hs, hse⟩ := hc.eqAtt e he; exact ⟨s, hsub s hs, hc.name s hs, hse⟩
  · intro e he; obtain ⟨s, hs, hse⟩ := hc.codeAtt e he; exact ⟨s, hsub s hs, hc.name s hs, hse⟩
  · intro t ht; rcases hc.lags with ⟨h1, _⟩ | ⟨m, h1, _⟩ <;> (rw [h1] at ht; cases ht)
  · intro t ht; rcases hc.leads with ⟨h1, _⟩ | ⟨m, h1, _⟩ <;> (rw [h1] at ht; cases ht)

def KindConflictOcc (occ : List Symbol) : Prop :=
  ∃ s1 ∈ occ, ∃ s2 ∈ occ, s1.name = s2.name ∧ s1.type ≠ s2.type ∧
    ¬ (isVarKind s1.type = true ∧ isVarKind s2.type = true)

def DoubleDefOcc (occ : List Symbol) : Prop :=
  ∃ s1 ∈ occ, ∃ s2 ∈ occ, s1.name = s2.name ∧
    ((∃ e1 e2, s1.equation = some e1 ∧ s2.equation = some e2 ∧ e1 ≠ e2) ∨
     (∃ c1 c2, s1.code = some c1 ∧ s2.code = some c2 ∧ c1 ≠ c2))

theorem isIndexed_of_varKind {t : TermType} (h : isVarKind t = true) : isIndexed t = true := by
  cases t <;> simp_all [isVarKind, isIndexed]

/-- The failing `combine`: it is SymbolError for two unmergeable kinds, ParserError for two different equations, and
    nothing else can happen between two symbols that stand for well-indexed occurrences. -/
theorem combine_error_rep {occ : List Symbol} {a b : Symbol} {e : Err} (ha : Rep a occ) (hb : Rep b occ)
    (hn : a.name = b.name) (hstr : ∀ t, a.lags ≠ .str t) (hstr' : ∀ t, a.leads ≠ .str t)
    (h : combine a b = .error e) :
    (e = .symbolError ∧ KindConflictOcc occ) ∨ (e = .parserError ∧ DoubleDefOcc occ) := by
  unfold combine at h
  simp only [hn, if_true] at h
  cases ht : combineType a.type b.type with
  | error x =>
    simp only [ht] at h
    cases h
    left
    unfold combineType at ht
    by_cases hab : a.type = b.type
    · simp [hab] at ht
    · simp only [hab, if_false] at ht
      by_cases hv : (isVarKind a.type && isVarKind b.type) = true
      · simp [hv] at ht
      · simp only [hv, if_false] at ht
        refine ⟨by cases ht; rfl, ?_⟩
        obtain ⟨s1, h1, n1, t1⟩ := ha.typeAtt
        obtain ⟨s2, h2, n2, t2⟩ := hb.typeAtt
        refine ⟨s1, h1, s2, h2, by rw [n1, n2, hn], by rw [t1, t2]; exact hab, ?_⟩
        rw [t1, t2]; simpa [Bool.and_eq_true] using hv
  | ok t =>
    simp only [ht] at h
    have hidx : isIndexed a.type = isIndexed b.type := by
      unfold combineType at ht
      by_cases hab : a.type = b.type
      · rw [hab]
      · simp only [hab, if_false] at ht
        by_cases hv : (isVarKind a.type && isVarKind b.type) = true
        · simp only [Bool.and_eq_true] at hv
          rw [isIndexed_of_varKind hv.1, isIndexed_of_varKind hv.2]
        · simp [hv] at ht
    have hlag : ∃ l, resolveLag a.lags b.lags = .ok l := by
      have i1 := ha.lagsNone; have i2 := hb.lagsNone; rw [hidx] at i1
      cases ha' : a.lags with
      | none =>
        have : b.lags = .none := i2.2 (i1.1 ha')
        rw [this]; exact ⟨_, rfl⟩
      | int x =>
        cases hb' : b.lags with
        | none =>
          have := i1.2 (i2.1 hb'); rw [ha'] at this; cases this
        | int y => exact ⟨_, rfl⟩
        | str y => exact ⟨_, rfl⟩
      | str x => exact absurd ha' (hstr x)
    have hlead : ∃ l, resolveLead a.leads b.leads = .ok l := by
      have i1 := ha.leadsNone; have i2 := hb.leadsNone; rw [hidx] at i1
      cases ha' : a.leads with
      | none =>
        have : b.leads = .none := i2.2 (i1.1 ha')
        rw [this]; exact ⟨_, rfl⟩
      | int x =>
        cases hb' : b.leads with
        | none =>
          have := i1.2 (i2.1 hb'); rw [ha'] at this; cases this
        | int y => exact ⟨_, rfl⟩
        | str y => exact ⟨_, rfl⟩
      | str x => exact absurd ha' (hstr' x)
    obtain ⟨l, hl⟩ := hlag
    obtain ⟨d, hd⟩ := hlead
    simp only [hl, hd] at h
    have hs : ∀ x y e', resolveStr x y = .error e' → e' = .parserError ∧ ∃ u v, x = some u ∧ y = some v ∧ u ≠ v := by
      intro x y e' h
      cases x with
      | none => cases y <;> simp [resolveStr] at h
      | some u =>
        cases y with
        | none => simp [resolveStr] at h
        | some v =>
          simp only [resolveStr] at h
          by_cases huv : u = v
          · simp [huv] at h
          · simp [huv] at h; exact ⟨h.symm, u, v, rfl, rfl, huv⟩
    right
    cases hq : resolveStr a.equation b.equation with
    | error x =>
      simp only [hq] at h; cases h
      obtain ⟨rfl, u, v, h1, h2, h3⟩ := hs _ _ _ hq
      obtain ⟨s1, m1, n1, q1⟩ := ha.eqAtt u h1
      obtain ⟨s2, m2, n2, q2⟩ := hb.eqAtt v h2
      exact ⟨rfl, s1, m1, s2, m2, by rw [n1, n2, hn], Or.inl ⟨u, v, q1, q2, h3⟩⟩
    | ok q =>
      simp only [hq] at h
      cases hc : resolveStr a.code b.code with
      | error x =>
        simp only [hc] at h; cases h
        obtain ⟨rfl, u, v, h1, h2, h3⟩ := hs _ _ _ hc
        obtain ⟨s1, m1, n1, q1⟩ := ha.codeAtt u h1
        obtain ⟨s2, m2, n2, q2⟩ := hb.codeAtt v h2
        exact ⟨rfl, s1, m1, s2, m2, by rw [n1, n2, hn], Or.inr ⟨u, v, q1, q2, h3⟩⟩
      | ok c => simp [hc] at h

/-- A failing dictionary fold fails at one step, after an accepted prefix. -/
theorem foldE_addSym_error (ss : List Symbol) : ∀ (d0 : List Symbol) (e : Err), foldE addSym d0 ss = .error e →
    ∃ pre s post d old, ss = pre ++ s :: post ∧ foldE addSym d0 pre = .ok d ∧ findSym s.name d = some old ∧
      combine old s = .error e := by
  induction ss with
  | nil => intro d0 e h; simp [foldE] at h
  | cons x xs ih =>
    intro d0 e h
    unfold foldE at h
    cases hx : addSym d0 x with
    | error e' =>
      simp only [hx] at h; cases h
      unfold addSym at hx
      cases hf : findSym x.name d0 with
      | none =>
        rw [hf] at hx; simp only [Option.getD_none] at hx
        obtain ⟨c, hc⟩ := combine_self_ok x
        rw [hc] at hx; cases hx
      | some old =>
        rw [hf] at hx; simp only [Option.getD_some] at hx
        refine ⟨[], x, xs, d0, old, rfl, rfl, hf, ?_⟩
        cases hc : combine old x with
        | ok c => rw [hc] at hx; cases hx
        | error e'' => rw [hc] at hx; cases hx; rfl
    | ok d1 =>
      simp only [hx] at h
      obtain ⟨pre, s, post, d, old, h1, h2, h3, h4⟩ := ih d1 e h
      refine ⟨x :: pre, s, post, d, old, by simp [h1], ?_, h3, h4⟩
      unfold foldE; simp [hx, h2]

theorem mapE_error {α β ε} {f : α → Except ε β} : ∀ {xs : List α} {e : ε}, mapE f xs = .error e →
    ∃ x ∈ xs, f x = .error e := by
  intro xs
  induction xs with
  | nil => intro e h; simp [mapE] at h
  | cons x xs ih =>
    intro e h
    unfold mapE at h
    cases hf : f x with
    | error e' => simp [hf] at h; exact ⟨x, by simp, by rw [hf, h]⟩
    | ok y =>
      simp only [hf] at h
      cases hm : mapE f xs with
      | error e' =>
        simp [hm] at h
        obtain ⟨x', hx', h'⟩ := ih hm
        exact ⟨x', by simp [hx'], by rw [h', h]⟩
      | ok ys => simp [hm] at h

theorem wellIndexedOcc_script {S : List Stmt} (w1 : WellIndexed S) : WellIndexedOcc (scriptOcc S) := by
  intro s hs; exact ⟨(w1 s hs).1, (w1 s hs).2, scriptOcc_leads S s hs⟩

/-! ### The per-statement defects introduced with the `fix:` commits 3f601b8 / d65c5fa -/

/-- Within one statement a name is used as a called function and as something else. -/
def StmtClash (stmt : Stmt) : Prop :=
  ∃ s1 ∈ stmtOcc stmt, ∃ s2 ∈ stmtOcc stmt, s1.type = .function ∧ s2.type ≠ .function ∧ s1.name = s2.name

/-- The names a statement assigns (its left-hand-side variables), each once. -/
def definedNames (stmt : Stmt) : List (Option String) :=
  firstApp (((stmtOcc stmt).filter (fun s => s.type = .endogenous)).map (·.name))

/-- An equation statement assigns exactly one variable. -/
def DefinesOne : Stmt → Prop
  | .eqn ts e c => (definedNames (.eqn ts e c)).length = 1
  | .verb _ _ => True

def BadStmt (S : List Stmt) : Prop := ∃ stmt ∈ S, StmtClash stmt ∨ ¬ DefinesOne stmt

theorem stmtClash_of_clashT {e c : String} {ts : List Term} (h : ClashT ts) : StmtClash (.eqn ts e c) := by
  obtain ⟨t1, h1, t2, h2, hf, hnf, hnv, hn⟩ := h
  refine ⟨termSymbol e c t1, mem_termSyms h1 (by rw [hf]; simp), termSymbol e c t2, mem_termSyms h2 hnv, hf, hnf, ?_⟩
  simp [termSymbol_name, hn]

theorem termSyms_endogenous_eq {e c : String} {ts : List Term} {s : Symbol} (hs : s ∈ termSyms e c ts)
    (ht : s.type = .endogenous) : s.equation = some e ∧ s.code = some c := by
  unfold termSyms at hs
  obtain ⟨t, _, rfl⟩ := List.mem_map.1 hs
  have : t.type = .endogenous := ht
  simp [termSymbol, this]

/-- The symbols the one-variable check counts are exactly the distinct assigned names. -/
theorem defined_count {e c : String} {ts : List Term} {G : List Symbol}
    (h : foldE addSym [] (termSyms e c ts) = .ok G) :
    (G.filter isDefined).length = (definedNames (.eqn ts e c)).length := by
  obtain ⟨hk, hnd, hs, hc⟩ := fold_from_empty h
  have h1 : (G.filter isDefined).length = ((G.filter isDefined).map (·.name)).length := by simp
  rw [h1]
  apply List.Perm.length_eq
  apply (List.perm_ext_iff_of_nodup ?_ (nodup_firstApp _)).2
  · intro k
    simp only [definedNames, mem_firstApp, List.mem_map, List.mem_filter, stmtOcc]
    constructor
    · rintro ⟨g, ⟨hg, hd⟩, rfl⟩
      have hgt : g.type = .endogenous := by
        unfold isDefined at hd; simp only [Bool.and_eq_true, decide_eq_true_eq] at hd; exact hd.1
      obtain ⟨s, hs', hst⟩ := (hs g hg).typeAtt
      obtain ⟨hs1, hs2⟩ := List.mem_filter.1 hs'
      exact ⟨s, ⟨hs1, by simp [hst, hgt]⟩, by simpa using hs2⟩
    · rintro ⟨s, ⟨hs1, hs2⟩, rfl⟩
      have hst : s.type = .endogenous := by simpa using hs2
      obtain ⟨g, hg, hgn⟩ := hc s hs1
      have hmem : s ∈ (termSyms e c ts).filter (fun x => x.name = g.name) := List.mem_filter.2 ⟨hs1, by simp [hgn]⟩
      have hle := (hs g hg).typeLe s hmem
      rw [hst] at hle
      have hgt := typeLe_of_endogenous hle
      have hge := (hs g hg).eqAll s hmem e (termSyms_endogenous_eq hs1 hst).1
      refine ⟨g, ⟨hg, ?_⟩, hgn⟩
      unfold isDefined; simp [hgt, hge]
  · exact ((List.filter_sublist).map _).nodup hnd

/-- `s` belongs to the occurrences summarised by one of the statement-level entries `gs`. -/
def CoveredBy (S : List Stmt) (gs : List Symbol) (s : Symbol) : Prop :=
  ∃ g' ∈ gs, ∃ o, Summ g' o ∧ (∀ x ∈ o, x ∈ scriptOcc S) ∧ s ∈ o

/-- A statement whose own `addSym` fold fails: the failing `combine` is between two occurrences of the script. -/
theorem stmt_fold_error_class {S : List Stmt} {ts : List Term} {q c : String} {x : Err}
    (w1 : WellIndexed S) (hst : Stmt.eqn ts q c ∈ S) (hfold : foldE addSym [] (termSyms q c ts) = .error x) :
    (x = .symbolError ∧ KindConflictOcc (scriptOcc S)) ∨ (x = .parserError ∧ DoubleDefOcc (scriptOcc S)) := by
  have wo := wellIndexedOcc_script w1
  obtain ⟨pre, s, post, d, old, h1, h2, h3, h4⟩ := foldE_addSym_error _ _ _ hfold
  have hsub : ∀ y ∈ termSyms q c ts, y ∈ scriptOcc S := fun y hy => stmtOcc_subset hst y hy
  have hs_mem : s ∈ scriptOcc S := hsub s (by rw [h1]; simp)
  obtain ⟨_, _, hsumm, _⟩ := fold_from_empty h2
  obtain ⟨holdn, holdm⟩ := findSym_some h3
  obtain ⟨r1, r2, r3⟩ := rep_of_summ wo (hsumm old holdm) (by
    intro y hy; apply hsub; rw [h1]
    exact List.mem_append_left _ (List.mem_filter.1 hy).1)
  exact combine_error_rep r1 (rep_of_occ wo hs_mem) holdn r2 r3 h4

open Classical in
/-- **Which error.**  A rejected script raises SymbolError and has a kind conflict, or raises ParserError and has a
    double definition — nothing else (no TypeError, no AssertionError) under the two guards. -/
theorem parseModel_error_class {S : List Stmt} {e : Err} (h : parseModel S = .error e)
    (w1 : WellIndexed S) :
    (e = .symbolError ∧ KindConflictOcc (scriptOcc S)) ∨
    (e = .parserError ∧ (DoubleDefOcc (scriptOcc S) ∨ BadStmt S)) := by
  have hok := stmtOK_of_guards w1
  have wo := wellIndexedOcc_script w1
  unfold parseModel at h
  cases hm : mapE stmtSymbols S with
  | error e' =>
    simp only [hm] at h; cases h
    obtain ⟨stmt, hst, hs⟩ := mapE_error hm
    cases stmt with
    | verb q c => simp [stmtSymbols] at hs
    | eqn ts q c =>
      simp only [stmtSymbols] at hs
      rcases symbolsOfTerms_cases q c ts (stmtOK_terms (hok _ hst)) with hcase | ⟨hcase, hclash⟩
      · rw [hcase] at hs
        cases hfold : foldE addSym [] (termSyms q c ts) with
        | ok G =>
          rw [hfold] at hs
          by_cases hl : (G.filter isDefined).length = 1
          · simp [hl] at hs
          · simp only [hl, if_false] at hs; cases hs
            refine Or.inr ⟨rfl, Or.inr ⟨_, hst, Or.inr ?_⟩⟩
            intro hone; apply hl; rw [defined_count hfold]; exact hone
        | error x =>
          rw [hfold] at hs; cases hs
          rcases stmt_fold_error_class w1 hst hfold with h' | ⟨h', h''⟩
          · exact Or.inl h'
          · exact Or.inr ⟨h', Or.inl h''⟩
      · rw [hcase] at hs; cases hs
        exact Or.inr ⟨rfl, Or.inr ⟨_, hst, Or.inl (stmtClash_of_clashT hclash)⟩⟩
  | ok groups =>
    simp only [hm] at h
    unfold mergeModel at h
    rw [stepMerge_fold] at h
    cases hf : foldE addSym [] (groups.flatten.filter (fun s => s.name.isSome)) with
    | ok D => rw [hf] at h; simp at h
    | error e' =>
      rw [hf] at h; simp at h; subst h
      obtain ⟨mem1, mem2⟩ := mapE_ok_mem hm
      obtain ⟨pre, g, post, d, old, h1, h2, h3, h4⟩ := foldE_addSym_error _ _ _ hf
      -- every statement-level entry summarises occurrences of the script
      have entry : ∀ g' ∈ groups.flatten.filter (fun s => s.name.isSome),
          ∃ o, Summ g' o ∧ ∀ s ∈ o, s ∈ scriptOcc S := by
        intro g' hg'
        obtain ⟨hg1, hg2⟩ := List.mem_filter.1 hg'
        obtain ⟨G, hG, hgG⟩ := List.mem_flatten.1 hg1
        obtain ⟨stmt, hst, hs⟩ := mem1 G hG
        obtain ⟨_, p2, _, _, _, _⟩ := stmt_char hs (hok stmt hst)
        exact ⟨_, p2 g' hgG hg2, fun s hs' => stmtOcc_subset hst s (List.mem_filter.1 hs').1⟩
      obtain ⟨og, hog, hogsub⟩ := entry g (by rw [h1]; simp)
      obtain ⟨rg, _, _⟩ := rep_of_summ wo hog hogsub
      obtain ⟨_, _, hsumm, _⟩ := fold_from_empty h2
      obtain ⟨holdn, holdm⟩ := findSym_some h3
      have hold := hsumm old holdm
      -- `old` summarises statement-level entries, which summarise occurrences: compose
      have hpre : ∀ g' ∈ pre.filter (fun s => s.name = old.name),
          g' ∈ groups.flatten.filter (fun s => s.name.isSome) := by
        intro g' hg'; rw [h1]; exact List.mem_append_left _ (List.mem_filter.1 hg').1
      have holdS : Summ old ((scriptOcc S).filter (fun s =>
          decide (CoveredBy S (pre.filter (fun s => s.name = old.name)) s))) := by
        apply hold.trans
        · intro s hs
          obtain ⟨_, hs2⟩ := List.mem_filter.1 hs
          have hs2' := of_decide_eq_true hs2
          obtain ⟨g', hg', o, ho, _, hso⟩ := hs2'
          exact ⟨g', hg', o, ho, hso⟩
        · intro g' hg'
          obtain ⟨o, ho, hosub⟩ := entry g' (hpre g' hg')
          refine ⟨o, ho, ?_⟩
          intro s hs
          apply List.mem_filter.2
          refine ⟨hosub s hs, ?_⟩
          exact decide_eq_true ⟨g', hg', o, ho, hosub, hs⟩
      obtain ⟨r1, r2, r3⟩ := rep_of_summ wo holdS (fun s hs => (List.mem_filter.1 hs).1)
      rcases combine_error_rep r1 rg holdn r2 r3 h4 with h' | ⟨h', h''⟩
      · exact Or.inl h'
      · exact Or.inr ⟨h', Or.inl h''⟩

end Fsic.Parser
