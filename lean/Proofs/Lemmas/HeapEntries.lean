import Proofs.Lemmas.HeapCheck
/-
Internal sharing structure at the level of `__dict__` entries: a copy made by `copy()` never has an object reachable
from two different entries (every entry is deep-copied by its own `deepcopy` call into its own block of new objects).
-/
set_option linter.unusedSimpArgs false
set_option linter.unusedVariables false
namespace Fsic.Heap

/-- No mutable object is reachable from both values. -/
def SepVals (h : Heap) (v w : Val) : Prop :=
  ∀ x l1 l2, v = .ref l1 → w = .ref l2 → Reach h l1 x → Reach h l2 x → False

theorem SepVals.symm {h : Heap} {v w : Val} (s : SepVals h v w) : SepVals h w v :=
  fun x l1 l2 h1 h2 r1 r2 => s x l2 l1 h2 h1 r2 r1

/-- Entries under different keys reach no common object. -/
def EntriesSeparate (h : Heap) (a : Nat) : Prop :=
  ∀ o, h[a]? = some o → ∀ k1 v1 k2 v2, (k1, v1) ∈ o.slots → (k2, v2) ∈ o.slots → k1 ≠ k2 → SepVals h v1 v2

theorem worldOK_ext {cs : List ClassDesc} {h0 h : Heap} (W : WorldOK cs h0) (e : Ext h0 h) (B : Blk h0.length h) :
    WorldOK cs h :=
  ⟨wf_of_blk W.wf e B, fun ci cd hcd => (W.classes ci cd hcd).ext W.wf e⟩

theorem pairwise_mem {α} {R : α → α → Prop} (hs : ∀ a b, R a b → R b a) :
    ∀ {l : List α}, l.Pairwise R → ∀ a b, a ∈ l → b ∈ l → a ≠ b → R a b := by
  intro l
  induction l with
  | nil => intro _ a b ha; simp at ha
  | cons x xs ih =>
    intro hp a b ha hb hne
    rw [List.pairwise_cons] at hp
    rcases List.mem_cons.mp ha with rfl | ha'
    · rcases List.mem_cons.mp hb with rfl | hb'
      · exact absurd rfl hne
      · exact hp.1 b hb'
    · rcases List.mem_cons.mp hb with rfl | hb'
      · exact hs _ _ (hp.1 a ha')
      · exact ih hp.2 a b ha' hb' hne

/-- The values produced by `{k: copy.deepcopy(v) …}` are pairwise separate: each call allocates its own block. -/
theorem copyEachWith_sep {cs : List ClassDesc} (n : Nat) :
    ∀ (ss : List (String × Val)) (h0 h h1 : Heap) (ss' : List (String × Val)), WorldOK cs h0 →
    Ext h0 h → Blk h0.length h → OldSlots h0.length ss →
    copyEachWith (deepcopy cs n) h ss = some (h1, ss') →
    ss'.Pairwise (fun p q => SepVals h1 p.2 q.2) := by
  intro ss
  induction ss with
  | nil =>
    intro h0 h h1 ss' W e B O hc
    simp [copyEachWith] at hc
    obtain ⟨rfl, rfl⟩ := hc
    exact List.Pairwise.nil
  | cons kv ss ih =>
    intro h0 h h1 ss' W e B O hc
    obtain ⟨k, v⟩ := kv
    simp only [copyEachWith] at hc
    cases hd : deepcopy cs n h [] v with
    | none => simp [hd] at hc
    | some r =>
      obtain ⟨ha, ma, va⟩ := r
      simp only [hd] at hc
      cases hr : copyEachWith (deepcopy cs n) ha ss with
      | none => simp [hr] at hc
      | some r2 =>
        obtain ⟨hb, ssb⟩ := r2
        simp only [hr] at hc
        cases hc
        have Ov : OldV h0.length v := O k v List.mem_cons_self
        -- relative to the original heap
        obtain ⟨ea, Ba, _, _⟩ := deepcopy_spec W n h [] v ha ma va e B (MemoOK.nil _ _) Ov hd
        -- relative to the heap in which this entry's copy starts
        have Wh := worldOK_ext W e B
        have lenh := e.len
        obtain ⟨_, Bh, _, Nva⟩ := deepcopy_spec Wh n h [] v ha ma va (Ext.refl h) (blk_self h) (MemoOK.nil _ _)
          (fun c hc => by have := Ov c hc; omega) hd
        have Wa := worldOK_ext W (e.trans ea) Ba
        have lena := (e.trans ea).len
        have Ota : OldSlots ha.length ss := fun k' v' hm c hc => by
          have := O.tail k' v' hm c hc; omega
        obtain ⟨eb, Bb, Nb, _⟩ := copyEachWith_spec (deepcopy_spec Wa n) ss ha h1 ssb (Ext.refl ha) (blk_self ha) Ota hr
        have P := ih h0 ha h1 ssb W (e.trans ea) Ba O.tail hr
        rw [List.pairwise_cons]
        refine ⟨?_, P⟩
        intro q hq x l1 l2 h1' h2' r1 r2
        obtain ⟨kq, vq⟩ := q
        simp only at h1' h2'
        subst h1'; subst h2'
        have hl1 := (Nva l1 rfl).2
        have x_lt := reach_lt Wa.wf hl1 ((reach_ext_iff Wa.wf eb hl1 x).mp r1)
        have hl2 := (Nb kq _ hq l2 rfl).1
        have := Bb.reach hl2 r2
        omega

/-- The new `__dict__` built by `VectorContainer.copy` (containers and models): entries under different keys are
    separate. -/
theorem copyInstWith_sep {cs : List ClassDesc} {h0 : Heap} (W : WorldOK2 cs h0) (n : Nat) {cd : ClassDesc} {ci : Nat}
    (hcd : cs[ci]? = some cd) {l : Nat} {o : Obj} (ho : h0[l]? = some o) (hk : o.kind = .inst ci)
    (hnl : cd.base ≠ .linker) {h h1 : Heap} {ss : List (String × Val)} (e : Ext h0 h) (B : Blk h0.length h)
    (hc : copyInstWith (deepcopy cs n) cd h o = some (h1, ss)) :
    ∀ k1 v1 k2 v2, (k1, v1) ∈ ss → (k2, v2) ∈ ss → k1 ≠ k2 → SepVals h1 v1 v2 := by
  have ok := W.classes ci cd hcd
  have O := oldSlots_of_wf W.wf ho
  have ctor := W.ctor l o ci cd ho hk hcd
  have S := deepcopy_spec W.toWorldOK n
  unfold copyInstWith at hc
  simp only [hnl, if_false] at hc
  have Osp := lookup_getD_old O "span"
  cases hd : deepcopy cs n h [] ((o.slots.lookup "span").getD (.imm .none)) with
  | none => simp [hd] at hc
  | some r1 =>
    obtain ⟨ha, ma, sp⟩ := r1
    simp only [hd] at hc
    obtain ⟨ea, Ba, _, Nsp⟩ := S h [] _ ha ma sp e B (MemoOK.nil _ _) Osp hd
    have lena := (e.trans ea).len
    have C := construct_ok (b := h0.length) W.wf (e.trans ea) ok Ba (by omega) sp (.imm .none) Nsp (NewV.imm _ _ _)
    have CK := construct_keys cd ha sp (.imm .none)
    generalize construct cd ha sp (.imm .none) = r3 at hc C CK
    obtain ⟨h3, init⟩ := r3
    simp only at hc CK
    cases h4c : copyEachWith (deepcopy cs n) h3 o.slots with
    | none => simp [h4c] at hc
    | some r4 =>
      obtain ⟨h4, ss4⟩ := r4
      simp only [h4c] at hc
      cases hc
      have e3 : Ext h0 h3 := (e.trans ea).trans C.ext
      obtain ⟨_, _, _, K4⟩ := copyEachWith_spec S _ h3 h1 ss4 e3 C.blk O h4c
      have P := copyEachWith_sep n o.slots h0 h3 h1 ss4 W.toWorldOK e3 C.blk O h4c
      have from4 : ∀ k v, (k, v) ∈ slotUpdate init ss4 → (k, v) ∈ ss4 := by
        intro k v hm
        rcases mem_slotUpdate ss4 init k v hm with h1' | ⟨h1', h2'⟩
        · exact h1'
        · exfalso
          apply h2'
          rw [K4]
          apply ctor k
          rw [← modelNames_ext W.wf (e.trans ea) ok, ← CK]
          exact List.mem_map.mpr ⟨(k, v), h1', rfl⟩
      intro k1 v1 k2 v2 m1 m2 hne
      have := pairwise_mem (R := fun p q : String × Val => SepVals h1 p.2 q.2) (fun a b r => r.symm) P
        (k1, v1) (k2, v2) (from4 k1 v1 m1) (from4 k2 v2 m2) (by intro heq; exact hne (congrArg Prod.fst heq))
      exact this

/-- **The copy of a container / model has separate entries.** -/
theorem copyRoot_entries_separate {cs : List ClassDesc} {h0 : Heap} (W : WorldOK2 cs h0) {a c : Nat} {h1 : Heap}
    {o : Obj} {ci : Nat} {cd : ClassDesc} (ho : h0[a]? = some o) (hk : o.kind = .inst ci) (hcd : cs[ci]? = some cd)
    (hnl : cd.base ≠ .linker) (hc : copyRoot cs h0 a = some (h1, c)) : EntriesSeparate h1 c := by
  have ha := getElem?_lt ho
  unfold copyRoot at hc
  cases hd : deepcopy cs (h0.length + 1) h0 [] (.ref a) with
  | none => simp [hd] at hc
  | some r =>
    obtain ⟨hh, mm, v⟩ := r
    cases v with
    | imm i => simp [hd] at hc
    | ref c' =>
      simp [hd] at hc
      obtain ⟨rfl, rfl⟩ := hc
      simp only [deepcopy, List.lookup, ho, hk, hcd] at hd
      cases hci : copyInstWith (deepcopy cs h0.length) cd h0 o with
      | none => simp [hci] at hd
      | some r2 =>
        obtain ⟨hx, ss⟩ := r2
        simp [hci] at hd
        obtain ⟨rfl, _, rfl⟩ := hd
        have sep := copyInstWith_sep W h0.length hcd ho hk hnl (Ext.refl h0) (blk_self h0) hci
        obtain ⟨ex, Bx, Nx⟩ := copyInstWith_spec W.toWorldOK (deepcopy_spec W.toWorldOK h0.length) hcd ho hk
          (Ext.refl h0) (blk_self h0) hci
        have wfx : WF hx := wf_of_blk W.wf ex Bx
        intro o' ho' k1 v1 k2 v2 m1 m2 hne x l1 l2 e1 e2 r1 r2
        rw [getElem?_append_self] at ho'
        cases ho'
        subst e1; subst e2
        have b1 := (Nx k1 _ m1 l1 rfl).2
        have b2 := (Nx k2 _ m2 l2 rfl).2
        exact sep k1 _ k2 _ m1 m2 hne x l1 l2 rfl rfl ((reach_ext_iff wfx (Ext.append _ _) b1 x).mp r1)
          ((reach_ext_iff wfx (Ext.append _ _) b2 x).mp r2)

/-! ### `endogenous` and `check` of a fresh instance are two different new lists -/

theorem us_ne_endogenous (x : String) : "_" ++ x ≠ "endogenous" := by
  intro h; have := congrArg String.toList h; simp at this

theorem us_ne_check (x : String) : "_" ++ x ≠ "check" := by
  intro h; have := congrArg String.toList h; simp at this

theorem lookup_allocVars_none (n : Nat) (k : String) (hk : ∀ x, "_" ++ x ≠ k) : ∀ (xs : List String) (h : Heap),
    (allocVars n xs h).2.lookup k = none := by
  intro xs
  induction xs with
  | nil => intro h; rfl
  | cons x xs ih =>
    intro h
    simp only [allocVars]
    have := ih (h ++ [cellArray n (.int 0)])
    generalize allocVars n xs (h ++ [cellArray n (.int 0)]) = r at this
    obtain ⟨h1, ss⟩ := r
    simp only at this ⊢
    have hb : (k == "_" ++ x) = false := by simpa using (hk x).symm
    simp [List.lookup, hb, this]

theorem stageInterface_lookup_none (cd : ClassDesc) (names : List String) (n : Nat) (h : Heap) (k : String)
    (hk : ∀ x, "_" ++ x ≠ k)
    (h1 : k ≠ "dtype") (h2 : k ≠ "_status") (h3 : k ≠ "_iterations") (h4 : k ≠ "names") (h5 : k ≠ "lags")
    (h6 : k ≠ "leads") : (stageInterface cd names n h).2.lookup k = none := by
  unfold stageInterface
  by_cases hc : cd.base = .container
  · simp [hc, List.lookup]
  · simp only [hc, if_false]
    have := lookup_allocVars_none n k hk names (h ++ [cellArray n (.str "-"), cellArray n (.int (-1)), strList names])
    generalize allocVars n names (h ++ [cellArray n (.str "-"), cellArray n (.int (-1)), strList names]) = r at this
    obtain ⟨hh, ss⟩ := r
    simp only at this ⊢
    have b1 : (k == "dtype") = false := by simpa using h1
    have b2 : (k == "_status") = false := by simpa using h2
    have b3 : (k == "_iterations") = false := by simpa using h3
    have b4 : (k == "names") = false := by simpa using h4
    have b5 : (k == "lags") = false := by simpa using h5
    have b6 : (k == "leads") = false := by simpa using h6
    simp [lookup_append, List.lookup, this, b1, b2, b3, b4, b5, b6]

/-- `add_attribute('endogenous', list(self.ENDOGENOUS))`, `add_attribute('check', list(self.CHECK))`: two DIFFERENT
    new objects (consecutive locations), even when `CHECK is ENDOGENOUS` at class level. -/
theorem construct_check_ne_endogenous (cd : ClassDesc) (h : Heap) (span sub : Val) (hc : cd.base ≠ .container) :
    ∃ L, (construct cd h span sub).2.lookup "endogenous" = some (.ref L) ∧
         (construct cd h span sub).2.lookup "check" = some (.ref (L + 1)) := by
  unfold construct
  simp only [thread_snd]
  have hA : ∀ k, k ≠ "aliases" → k ≠ "preferred_names" → (stageAlias cd h).2.lookup k = none := by
    intro k h1 h2
    have b1 : (k == "aliases") = false := by simpa using h1
    have b2 : (k == "preferred_names") = false := by simpa using h2
    unfold stageAlias
    by_cases ha : cd.alias = true <;> simp [ha, List.lookup, b1, b2]
  have hL : ∀ h' k, k ≠ "submodels" → k ≠ "name" → k ≠ "_LAGS" → k ≠ "_LEADS" →
      (stageLinker cd sub h').2.lookup k = none := by
    intro h' k h1 h2 h3 h4
    have b1 : (k == "submodels") = false := by simpa using h1
    have b2 : (k == "name") = false := by simpa using h2
    have b3 : (k == "_LAGS") = false := by simpa using h3
    have b4 : (k == "_LEADS") = false := by simpa using h4
    unfold stageLinker
    by_cases hl : cd.base = .linker
    · cases sub <;> simp [hl, List.lookup, b1, b2, b3, b4]
    · simp [hl, List.lookup]
  have hI1 := fun names n h' => stageInterface_lookup_none cd names n h' "endogenous" us_ne_endogenous
    (by decide) (by decide) (by decide) (by decide) (by decide) (by decide)
  have hI2 := fun names n h' => stageInterface_lookup_none cd names n h' "check" us_ne_check
    (by decide) (by decide) (by decide) (by decide) (by decide) (by decide)
  refine ⟨(thread (stageInterface cd (modelNames h cd) (spanLen h span))
    (thread (stageContainer cd (modelNames h cd) span)
      (thread (stageLinker cd sub) (thread (stageAlias cd) (h, []))))).1.length, ?_, ?_⟩
  · simp only [List.nil_append, lookup_append, hA "endogenous" (by decide) (by decide),
      hL _ "endogenous" (by decide) (by decide) (by decide) (by decide), hI1]
    simp [stageContainer, stageModel, hc, List.lookup]
  · simp only [List.nil_append, lookup_append, hA "check" (by decide) (by decide),
      hL _ "check" (by decide) (by decide) (by decide) (by decide), hI2]
    simp [stageContainer, stageModel, hc, List.lookup]

end Fsic.Heap
