import Proofs.Lemmas.HeapCheck
/-
Internal sharing structure at the level of `__dict__` entries: a copy made by `copy()` never has an object reachable
from two different entries (every entry is deep-copied by its own `deepcopy` call into its own block of new objects).
-/
set_option linter.unusedSimpArgs false
set_option linter.unusedVariables false
namespace Fsic.Heap

/-- No mutable object is reachable from both values. -/
def SepVals (h : Heap) (v w : Val) : Prop :=
  ∀ x l1 l2, v = .ref l1 → w = .ref l2 → Reach h l1 x → Reach h l2 x → False

theorem SepVals.symm {h : Heap} {v w : Val} (s : SepVals h v w) : SepVals h w v :=
  fun x l1 l2 h1 h2 r1 r2 => s x l2 l1 h2 h1 r2 r1

/-- Entries under different keys reach no common object. -/
def EntriesSeparate (h : Heap) (a : Nat) : Prop :=
  ∀ o, h[a]? = some o → ∀ k1 v1 k2 v2, (k1, v1) ∈ o.slots → (k2, v2) ∈ o.slots → k1 ≠ k2 → SepVals h v1 v2

theorem worldOK_ext {cs : List ClassDesc} {h0 h : Heap} (W : WorldOK cs h0) (e : Ext h0 h) (B : Blk h0.length h) :
    WorldOK cs h :=
  ⟨wf_of_blk W.wf e B, fun ci cd hcd => (W.classes ci cd hcd).ext W.wf e⟩

theorem pairwise_mem {α} {R : α → α → Prop} (hs : ∀ a b, R a b → R b a) :
    ∀ {l : List α}, l.Pairwise R → ∀ a b, a ∈ l → b ∈ l → a ≠ b → R a b := by
  intro l
  induction l with
  | nil => intro _ a b ha; simp at ha
  | cons x xs ih =>
    intro hp a b ha hb hne
    rw [List.pairwise_cons] at hp
    rcases List.mem_cons.mp ha with rfl | ha'
    · rcases List.mem_cons.mp hb with rfl | hb'
      · exact absurd rfl hne
      · exact hp.1 b hb'
    · rcases List.mem_cons.mp hb with rfl | hb'
      · exact hs _ _ (hp.1 a ha')
      · exact ih hp.2 a b ha' hb' hne

/-- The values produced by `{k: copy.deepcopy(v) …}` are pairwise separate: each call allocates its own block. -/
theorem copyEachWith_sep {cs : List ClassDesc} (n : Nat) :
    ∀ (ss : List (String × Val)) (h0 h h1 : Heap) (ss' : List (String × Val)), WorldOK cs h0 →
    Ext h0 h → Blk h0.length h → OldSlots h0.length ss →
    copyEachWith (deepcopy cs n) h ss = some (h1, ss') →
    ss'.Pairwise (fun p q => SepVals h1 p.2 q.2) := by
  intro ss
  induction ss with
  | nil =>
    intro h0 h h1 ss' W e B O hc
    simp [copyEachWith] at hc
    obtain ⟨rfl, rfl⟩ := hc
    exact List.Pairwise.nil
  | cons kv ss ih =>
    intro h0 h h1 ss' W e B O hc
    obtain ⟨k, v⟩ := kv
    simp only [copyEachWith] at hc
    cases hd : deepcopy cs n h [] v with
    | none => simp [hd] at hc
    | some r =>
      obtain ⟨ha, ma, va⟩ := r
      simp only [hd] at hc
      cases hr : copyEachWith (deepcopy cs n) ha ss with
      | none => simp [hr] at hc
      | some r2 =>
        obtain ⟨hb, ssb⟩ := r2
        simp only [hr] at hc
        cases hc
        have Ov : OldV h0.length v := O k v List.mem_cons_self
        -- relative to the original heap
        obtain ⟨ea, Ba, _, _⟩ := deepcopy_spec W n h [] v ha ma va e B (MemoOK.nil _ _) Ov hd
        -- relative to the heap in which this entry's copy starts
        have Wh := worldOK_ext W e B
        have lenh := e.len
        obtain ⟨_, Bh, _, Nva⟩ := deepcopy_spec Wh n h [] v ha ma va (Ext.refl h) (blk_self h) (MemoOK.nil _ _)
          (fun c hc => by have := Ov c hc; omega) hd
        have Wa := worldOK_ext W (e.trans ea) Ba
        have lena := (e.trans ea).len
        have Ota : OldSlots ha.length ss := fun k' v' hm c hc => by
          have := O.tail k' v' hm c hc; omega
        obtain ⟨eb, Bb, Nb, _⟩ := copyEachWith_spec (deepcopy_spec Wa n) ss ha h1 ssb (Ext.refl ha) (blk_self ha) Ota hr
        have P := ih h0 ha h1 ssb W (e.trans ea) Ba O.tail hr
        rw [List.pairwise_cons]
        refine ⟨?_, P⟩
        intro q hq x l1 l2 h1' h2' r1 r2
        obtain ⟨kq, vq⟩ := q
        simp only at h1' h2'
        subst h1'; subst h2'
        have hl1 := (Nva l1 rfl).2
        have x_lt := reach_lt Wa.wf hl1 ((reach_ext_iff Wa.wf eb hl1 x).mp r1)
        have hl2 := (Nb kq _ hq l2 rfl).1
        have := Bb.reach hl2 r2
        omega

/-! ### `endogenous` and `check` of a fresh instance are two different new lists -/

theorem us_ne_endogenous (x : String) : "_" ++ x ≠ "endogenous" := by
  intro h; have := congrArg String.toList h; simp at this

theorem us_ne_check (x : String) : "_" ++ x ≠ "check" := by
  intro h; have := congrArg String.toList h; simp at this

theorem lookup_allocVars_none (n : Nat) (k : String) (hk : ∀ x, "_" ++ x ≠ k) : ∀ (xs : List String) (h : Heap),
    (allocVars n xs h).2.lookup k = none := by
  intro xs
  induction xs with
  | nil => intro h; rfl
  | cons x xs ih =>
    intro h
    simp only [allocVars]
    have := ih (h ++ [cellArray n (.int 0)])
    generalize allocVars n xs (h ++ [cellArray n (.int 0)]) = r at this
    obtain ⟨h1, ss⟩ := r
    simp only at this ⊢
    have hb : (k == "_" ++ x) = false := by simpa using (hk x).symm
    simp [List.lookup, hb, this]

theorem stageInterface_lookup_none (cd : ClassDesc) (names : List String) (n : Nat) (h : Heap) (k : String)
    (hk : ∀ x, "_" ++ x ≠ k)
    (h1 : k ≠ "dtype") (h2 : k ≠ "_status") (h3 : k ≠ "_iterations") (h4 : k ≠ "names") (h5 : k ≠ "lags")
    (h6 : k ≠ "leads") : (stageInterface cd names n h).2.lookup k = none := by
  unfold stageInterface
  by_cases hc : cd.base = .container
  · simp [hc, List.lookup]
  · simp only [hc, if_false]
    have := lookup_allocVars_none n k hk names (h ++ [cellArray n (.str "-"), cellArray n (.int (-1)), strList names])
    generalize allocVars n names (h ++ [cellArray n (.str "-"), cellArray n (.int (-1)), strList names]) = r at this
    obtain ⟨hh, ss⟩ := r
    simp only at this ⊢
    have b1 : (k == "dtype") = false := by simpa using h1
    have b2 : (k == "_status") = false := by simpa using h2
    have b3 : (k == "_iterations") = false := by simpa using h3
    have b4 : (k == "names") = false := by simpa using h4
    have b5 : (k == "lags") = false := by simpa using h5
    have b6 : (k == "leads") = false := by simpa using h6
    simp [lookup_append, List.lookup, this, b1, b2, b3, b4, b5, b6]

/-- `add_attribute('endogenous', list(self.ENDOGENOUS))`, `add_attribute('check', list(self.CHECK))`: two DIFFERENT
    new objects (consecutive locations), even when `CHECK is ENDOGENOUS` at class level. -/
theorem construct_check_ne_endogenous (cd : ClassDesc) (h : Heap) (span sub : Val) (hc : cd.base ≠ .container) :
    ∃ L, (construct cd h span sub).2.lookup "endogenous" = some (.ref L) ∧
         (construct cd h span sub).2.lookup "check" = some (.ref (L + 1)) := by
  unfold construct
  simp only [thread_snd]
  have hA : ∀ k, k ≠ "aliases" → k ≠ "preferred_names" → (stageAlias cd h).2.lookup k = none := by
    intro k h1 h2
    have b1 : (k == "aliases") = false := by simpa using h1
    have b2 : (k == "preferred_names") = false := by simpa using h2
    unfold stageAlias
    by_cases ha : cd.alias = true <;> simp [ha, List.lookup, b1, b2]
  have hL : ∀ h' k, k ≠ "submodels" → k ≠ "name" → k ≠ "_LAGS" → k ≠ "_LEADS" →
      (stageLinker cd sub h').2.lookup k = none := by
    intro h' k h1 h2 h3 h4
    have b1 : (k == "submodels") = false := by simpa using h1
    have b2 : (k == "name") = false := by simpa using h2
    have b3 : (k == "_LAGS") = false := by simpa using h3
    have b4 : (k == "_LEADS") = false := by simpa using h4
    unfold stageLinker
    by_cases hl : cd.base = .linker
    · cases sub <;> simp [hl, List.lookup, b1, b2, b3, b4]
    · simp [hl, List.lookup]
  have hI1 := fun names n h' => stageInterface_lookup_none cd names n h' "endogenous" us_ne_endogenous
    (by decide) (by decide) (by decide) (by decide) (by decide) (by decide)
  have hI2 := fun names n h' => stageInterface_lookup_none cd names n h' "check" us_ne_check
    (by decide) (by decide) (by decide) (by decide) (by decide) (by decide)
  refine ⟨(thread (stageInterface cd (modelNames h cd) (spanLen h span))
    (thread (stageContainer cd (modelNames h cd) span)
      (thread (stageLinker cd sub) (thread (stageAlias cd) (h, []))))).1.length, ?_, ?_⟩
  · simp only [List.nil_append, lookup_append, hA "endogenous" (by decide) (by decide),
      hL _ "endogenous" (by decide) (by decide) (by decide) (by decide), hI1]
    simp [stageContainer, stageModel, hc, List.lookup]
  · simp only [List.nil_append, lookup_append, hA "check" (by decide) (by decide),
      hL _ "check" (by decide) (by decide) (by decide) (by decide), hI2]
    simp [stageContainer, stageModel, hc, List.lookup]

end Fsic.Heap
