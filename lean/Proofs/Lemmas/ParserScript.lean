import Proofs.Lemmas.ParserSumm
set_option linter.unusedSimpArgs false
set_option linter.unusedVariables false
/-
From the two folds of the code (`parse_equation`, `parse_model`) to one statement about a whole script.
-/
namespace Fsic.Parser

/-! ### Occurrences -/

/-- The symbols the terms of one statement stand for (verbatim terms are skipped by the code). -/
def termSyms (e c : String) (ts : List Term) : List Symbol :=
  (ts.filter (fun t => t.type ≠ .verbatim)).map (termSymbol e c)

def stmtOcc : Stmt → List Symbol
  | .eqn ts e c => termSyms e c ts
  | .verb _ _ => []

/-- Every term occurrence of the script, in script order, as the `Symbol` the code builds for it. -/
def scriptOcc (S : List Stmt) : List Symbol := S.flatMap stmtOcc

/-- Guard (what `parse_terms` guarantees): function and keyword terms carry no index (`None`), every other term
    carries one (an `int` or a `str`). -/
def WellIndexed (S : List Stmt) : Prop :=
  ∀ s ∈ scriptOcc S, (isIndexed s.type = false → s.lags = .none) ∧ (isIndexed s.type = true → s.lags ≠ .none)

/-- No name is used both as a called function and as anything else (a *consequence* of acceptance since the
    code rejects such a clash: see `accepted_no_function_clash` in `Proofs/C03.lean`). -/
def NoFunctionClash (S : List Stmt) : Prop :=
  ∀ s1 ∈ scriptOcc S, ∀ s2 ∈ scriptOcc S, s1.name = s2.name → s1.type = .function → s2.type = .function

theorem termSyms_cons (e c : String) (t : Term) (ts : List Term) :
    termSyms e c (t :: ts) = if t.type = .verbatim then termSyms e c ts else termSymbol e c t :: termSyms e c ts := by
  unfold termSyms
  by_cases h : t.type = .verbatim <;> simp [List.filter_cons, h]

theorem termSymbol_name (e c : String) (t : Term) : (termSymbol e c t).name = some t.name := rfl
theorem termSymbol_type (e c : String) (t : Term) : (termSymbol e c t).type = t.type := rfl
theorem termSymbol_lags (e c : String) (t : Term) : (termSymbol e c t).lags = t.index := rfl
theorem termSymbol_leads (e c : String) (t : Term) : (termSymbol e c t).leads = t.index := rfl

theorem termSymbol_function (e c : String) (t : Term) (h : t.type = .function) :
    termSymbol e c t = ⟨some t.name, t.type, t.index, t.index, none, none⟩ := by
  simp [termSymbol, h]

/-! ### The fold inside `parse_equation` is an `addSym` fold (under the two guards) -/

theorem findSym_append (k : Option String) (d : List Symbol) (s : Symbol) :
    findSym k (d ++ [s]) = match findSym k d with
      | some x => some x
      | none => if s.name = k then some s else none := by
  induction d with
  | nil => simp [findSym]
  | cons y ys ih =>
    simp only [List.cons_append, findSym]
    by_cases hy : y.name = k
    · simp [hy]
    · simp [hy, ih]

/-- The bare function symbol. -/
def fnSym (f : String) : Symbol := ⟨some f, .function, .none, .none, none, none⟩

theorem combine_fnSym (f : String) : combine (fnSym f) (fnSym f) = .ok (fnSym f) := by
  simp [combine, fnSym, combineType, resolveLag, resolveLead, resolveStr]

structure InvST (pre : List Term) (st : EqState) : Prop where
  i1 : ∀ k ∈ keys st.symbols, ∃ t ∈ pre, t.type ≠ .verbatim ∧ some t.name = k
  i2 : ∀ t ∈ pre, t.type = .function → findSym (some t.name) st.functions = some (fnSym t.name)
  i3 : ∀ f x, findSym (some f) st.functions = some x → x = fnSym f ∧ findSym (some f) st.symbols = some x
  i4 : ∀ f x, findSym (some f) st.functions = some x → ∃ t ∈ pre, t.type = .function ∧ t.name = f

def projSyms : Except Err EqState → Except Err (List Symbol)
  | .ok st => .ok st.symbols
  | .error e => .error e

/-- A name used as a called function and as something else within one term list. -/
def ClashT (ts : List Term) : Prop :=
  ∃ t1 ∈ ts, ∃ t2 ∈ ts, t1.type = .function ∧ t2.type ≠ .function ∧ t2.type ≠ .verbatim ∧ t1.name = t2.name

/-- The loop of `parse_equation` is a plain `addSym` fold — unless a function/variable clash stops it with
    ParserError. -/
theorem stepTerm_fold_eq (e c : String) : ∀ (rest pre : List Term) (st : EqState),
    (∀ t ∈ pre ++ rest, t.type = .function → t.index = .none) →
    InvST pre st →
    projSyms (foldE (stepTerm e c) st rest) = foldE addSym st.symbols (termSyms e c rest) ∨
    (foldE (stepTerm e c) st rest = .error .parserError ∧ ClashT (pre ++ rest)) := by
  intro rest
  induction rest with
  | nil => intro pre st _ _; left; simp [foldE, projSyms, termSyms]
  | cons t rest ih =>
    intro pre st w1 inv
    have hmem : t ∈ pre ++ t :: rest := by simp
    have w1' : ∀ t' ∈ (pre ++ [t]) ++ rest, t'.type = .function → t'.index = .none := by
      intro t' ht'; apply w1; simpa using ht'
    have happ : (pre ++ [t]) ++ rest = pre ++ t :: rest := by simp
    rw [termSyms_cons]
    by_cases hv : t.type = .verbatim
    · -- verbatim: skipped
      simp only [hv, if_true]
      have hstep : stepTerm e c st t = .ok st := by simp [stepTerm, hv]
      simp only [foldE, hstep]
      rw [← happ]
      apply ih (pre ++ [t]) st w1'
      refine ⟨?_, ?_, inv.i3, ?_⟩
      · intro k hk; obtain ⟨t', ht', h⟩ := inv.i1 k hk; exact ⟨t', by simp [ht'], h⟩
      · intro t' ht' hf
        rcases List.mem_append.mp ht' with h | h
        · exact inv.i2 t' h hf
        · simp at h; subst h; rw [hv] at hf; cases hf
      · intro f x hx; obtain ⟨t', ht', h⟩ := inv.i4 f x hx; exact ⟨t', by simp [ht'], h⟩
    · simp only [hv, if_false]
      by_cases hf : t.type = .function
      · -- function term
        have hidx : t.index = .none := w1 t hmem hf
        have hsym : termSymbol e c t = fnSym t.name := by
          rw [termSymbol_function e c t hf]; simp [fnSym, hf, hidx]
        have hlit : (⟨some t.name, t.type, t.index, t.index, none, none⟩ : Symbol) = fnSym t.name := by
          simp [fnSym, hf, hidx]
        cases hfind : findSym (some t.name) st.functions with
        | some x =>
          obtain ⟨hx, hxs⟩ := inv.i3 t.name x hfind
          have hstep : stepTerm e c st t = .ok st := by
            unfold stepTerm
            simp only [if_neg hv, if_pos hf, hfind, hlit, hx, if_true]
          have hadd : addSym st.symbols (termSymbol e c t) = .ok st.symbols := by
            rw [hsym]
            have hfs : findSym (fnSym t.name).name st.symbols = some (fnSym t.name) := by
              rw [hx] at hxs; exact hxs
            unfold addSym
            rw [hfs]; simp only [Option.getD_some, combine_fnSym]
            rw [setSym_self hfs]
          simp only [foldE, hstep, hadd]
          rw [← happ]
          apply ih (pre ++ [t]) st w1'
          refine ⟨?_, ?_, inv.i3, ?_⟩
          · intro k hk; obtain ⟨t', ht', h⟩ := inv.i1 k hk; exact ⟨t', by simp [ht'], h⟩
          · intro t' ht' hf'
            rcases List.mem_append.mp ht' with h | h
            · exact inv.i2 t' h hf'
            · simp at h; subst h; rw [hfind, hx]
          · intro f x' hx'; obtain ⟨t', ht', h⟩ := inv.i4 f x' hx'; exact ⟨t', by simp [ht'], h⟩
        | none =>
          cases hsymfind : findSym (some t.name) st.symbols with
          | some y =>
            -- a variable of that name is already there: ParserError, and it is a clash
            right
            have hstep : stepTerm e c st t = .error .parserError := by
              unfold stepTerm
              simp only [if_neg hv, if_pos hf, hfind, hsymfind]
            refine ⟨by simp [foldE, hstep], ?_⟩
            have hk : (some t.name) ∈ keys st.symbols := by
              have := (findSym_some hsymfind)
              rw [← this.1]; exact List.mem_map_of_mem this.2
            obtain ⟨t', ht', hnv, hname⟩ := inv.i1 _ hk
            have hname' : t'.name = t.name := by simpa using hname
            have hnf : t'.type ≠ .function := by
              intro hf'
              have := inv.i2 t' ht' hf'
              rw [hname', hfind] at this; cases this
            exact ⟨t, hmem, t', by simp [ht'], hf, hnf, hnv, hname'.symm⟩
          | none =>
            have hstep : stepTerm e c st t
                = .ok ⟨setSym (fnSym t.name) st.symbols, st.functions ++ [fnSym t.name]⟩ := by
              unfold stepTerm
              simp only [if_neg hv, if_pos hf, hfind, hsymfind, hlit]
            have hadd : addSym st.symbols (termSymbol e c t) = .ok (setSym (fnSym t.name) st.symbols) := by
              rw [hsym]; unfold addSym
              have : (fnSym t.name).name = some t.name := rfl
              rw [this, hsymfind]; simp [combine_fnSym]
            simp only [foldE, hstep, hadd]
            rw [← happ]
            apply ih (pre ++ [t]) ⟨setSym (fnSym t.name) st.symbols, st.functions ++ [fnSym t.name]⟩ w1'
            refine ⟨?_, ?_, ?_, ?_⟩
            · intro k hk
              rw [keys_setSym] at hk
              rcases (mem_pushNew _ _ _).1 hk with h | h
              · obtain ⟨t', ht', h'⟩ := inv.i1 k h; exact ⟨t', by simp [ht'], h'⟩
              · exact ⟨t, by simp, hv, by rw [h]; rfl⟩
            · intro t' ht' hf'
              show findSym (some t'.name) (st.functions ++ [fnSym t.name]) = _
              rw [findSym_append]
              rcases List.mem_append.mp ht' with h | h
              · rw [inv.i2 t' h hf']
              · simp at h; subst h; rw [hfind]; simp [fnSym]
            · intro f x hx
              have hx' : findSym (some f) (st.functions ++ [fnSym t.name]) = some x := hx
              rw [findSym_append] at hx'
              show x = fnSym f ∧ findSym (some f) (setSym (fnSym t.name) st.symbols) = some x
              cases hff : findSym (some f) st.functions with
              | some y =>
                rw [hff] at hx'; simp at hx'; subst hx'
                obtain ⟨h1, h2⟩ := inv.i3 f y hff
                refine ⟨h1, ?_⟩
                have hne : f ≠ t.name := by
                  intro e'; subst e'; rw [hfind] at hff; cases hff
                rw [findSym_setSym_other _ _ _ (by simp [fnSym]; exact hne)]
                exact h2
              | none =>
                rw [hff] at hx'
                by_cases hft : (fnSym t.name).name = some f
                · simp [hft] at hx'; subst hx'
                  have : t.name = f := by simpa [fnSym] using hft
                  subst this
                  exact ⟨rfl, findSym_setSym_same (fnSym t.name) st.symbols⟩
                · simp [hft] at hx'
            · intro f x hx
              have hx' : findSym (some f) (st.functions ++ [fnSym t.name]) = some x := hx
              rw [findSym_append] at hx'
              cases hff : findSym (some f) st.functions with
              | some y =>
                obtain ⟨t', ht', h⟩ := inv.i4 f y hff; exact ⟨t', by simp [ht'], h⟩
              | none =>
                rw [hff] at hx'
                by_cases hft : (fnSym t.name).name = some f
                · have : t.name = f := by simpa [fnSym] using hft
                  exact ⟨t, by simp, hf, this⟩
                · simp [hft] at hx'
      · -- ordinary term
        cases hfind : findSym (some t.name) st.functions with
        | some y =>
          -- a function of that name was called earlier in the statement: ParserError, and it is a clash
          right
          have hstep : stepTerm e c st t = .error .parserError := by
            unfold stepTerm
            simp only [if_neg hv, if_neg hf, hfind]
          refine ⟨by simp [foldE, hstep], ?_⟩
          obtain ⟨t', ht', htf, htn⟩ := inv.i4 t.name y hfind
          exact ⟨t', by simp [ht'], t, hmem, htf, hf, hv, htn⟩
        | none =>
          have hstep : stepTerm e c st t = match addSym st.symbols (termSymbol e c t) with
              | .ok d => .ok ⟨d, st.functions⟩
              | .error x => .error x := by
            simp only [stepTerm, if_neg hv, if_neg hf, hfind]
            cases addSym st.symbols (termSymbol e c t) <;> rfl
          cases hadd : addSym st.symbols (termSymbol e c t) with
          | error x => left; simp [foldE, hstep, hadd, projSyms]
          | ok d =>
            simp only [foldE, hstep, hadd]
            rw [← happ]
            apply ih (pre ++ [t]) ⟨d, st.functions⟩ w1'
            obtain ⟨cc, hcc, hd, hcn⟩ := addSym_ok hadd
            have hcn' : cc.name = some t.name := hcn
            refine ⟨?_, ?_, ?_, ?_⟩
            · intro k hk
              show ∃ t' ∈ pre ++ [t], _
              have hk' : k ∈ keys (setSym cc st.symbols) := by rw [← hd]; exact hk
              rw [keys_setSym] at hk'
              rcases (mem_pushNew _ _ _).1 hk' with h | h
              · obtain ⟨t', ht', h'⟩ := inv.i1 k h; exact ⟨t', by simp [ht'], h'⟩
              · exact ⟨t, by simp, hv, by rw [h, hcn']⟩
            · intro t' ht' hf'
              rcases List.mem_append.mp ht' with h | h
              · exact inv.i2 t' h hf'
              · simp at h; subst h; exact absurd hf' hf
            · intro f x hx
              obtain ⟨h1, h2⟩ := inv.i3 f x hx
              refine ⟨h1, ?_⟩
              show findSym (some f) d = some x
              have hne : f ≠ t.name := by
                intro e'; subst e'
                have : findSym (some t.name) st.functions = some x := hx
                rw [hfind] at this; cases this
              rw [hd, findSym_setSym_other _ _ _ (by rw [hcn']; simpa using hne)]
              exact h2
            · intro f x hx; obtain ⟨t', ht', h⟩ := inv.i4 f x hx; exact ⟨t', by simp [ht'], h⟩

/-- `parse_equation`'s symbol list: the `addSym` fold over the statement's term symbols, then the
    one-endogenous-variable check; a function/variable clash is the only other way to fail. -/
theorem symbolsOfTerms_cases (e c : String) (ts : List Term)
    (w1 : ∀ t ∈ ts, t.type = .function → t.index = .none) :
    (symbolsOfTerms e c ts = match foldE addSym [] (termSyms e c ts) with
      | .ok G => if (G.filter isDefined).length = 1 then .ok G else .error .parserError
      | .error x => .error x) ∨
    (symbolsOfTerms e c ts = .error .parserError ∧ ClashT ts) := by
  have := stepTerm_fold_eq e c ts [] ⟨[], []⟩ (by simpa using w1)
    ⟨by simp [keys], by simp, by simp [findSym], by simp [findSym]⟩
  unfold symbolsOfTerms
  rcases this with h | ⟨h, hc⟩
  · left
    simp only at h
    rw [← h]
    cases foldE (stepTerm e c) ⟨[], []⟩ ts <;> rfl
  · right; rw [h]; exact ⟨rfl, by simpa using hc⟩

/-! ### The merge inside `parse_model` -/

theorem stepMerge_fold (xs : List Symbol) : ∀ (d v : List Symbol),
    foldE stepMerge ⟨d, v⟩ xs =
      match foldE addSym d (xs.filter (fun s => s.name.isSome)) with
      | .ok d' => .ok ⟨d', v ++ xs.filter (fun s => s.name.isNone)⟩
      | .error e => .error e := by
  induction xs with
  | nil => intro d v; simp [foldE]
  | cons x xs ih =>
    intro d v
    cases hx : x.name with
    | none =>
      have hstep : stepMerge ⟨d, v⟩ x = .ok ⟨d, v ++ [x]⟩ := by simp [stepMerge, hx]
      simp only [foldE, hstep, ih, List.filter_cons, hx, Option.isSome_none, Option.isNone_none,
        Bool.false_eq_true, if_false, if_true, List.append_assoc, List.singleton_append]
    | some n =>
      have hstep : stepMerge ⟨d, v⟩ x = match addSym d x with
          | .ok d' => .ok ⟨d', v⟩
          | .error e => .error e := by
        simp only [stepMerge, hx]
        cases addSym d x <;> rfl
      simp only [List.filter_cons, hx, Option.isSome_some, Option.isNone_some, if_true, Bool.false_eq_true,
        if_false]
      cases hadd : addSym d x with
      | error e => simp [foldE, hstep, hadd]
      | ok d' => simp [foldE, hstep, hadd, ih]

end Fsic.Parser
