import Proofs.Lemmas.Alias
/-
Helper lemmas for C18: the container with and without the mixin in front.
-/
set_option linter.unusedSectionVars false
set_option linter.unusedSimpArgs false
namespace Fsic.Alias
variable {α : Type} [DecidableEq α] {V P : Type}

theorem lookup_eq_none_iff {β : Type} (l : List (α × β)) (x : α) : lookup l x = none ↔ x ∉ l.map Prod.fst := by
  induction l with
  | nil => simp [lookup]
  | cons p l ih =>
    by_cases h : p.1 = x
    · simp [lookup, h]
    · have h' : ¬ x = p.1 := fun e => h e.symm
      simp [lookup, h, ih, h']

theorem lookup_some_mem {β : Type} {l : List (α × β)} {x : α} {b : β} (h : lookup l x = some b) :
    x ∈ l.map Prod.fst := by
  apply Classical.byContradiction
  intro hn
  rw [(lookup_eq_none_iff l x).mpr hn] at h
  cases h

theorem keys_update {β : Type} (l : List (α × β)) (x : α) (b : β) :
    (update l x b).map Prod.fst = l.map Prod.fst := by
  induction l with
  | nil => rfl
  | cons p l ih =>
    by_cases h : p.1 = x
    · simp [update, h]
    · simp [update, h, ih]

theorem mem_keys_upsert {β : Type} (l : List (α × β)) (x y : α) (b : β) :
    y ∈ (upsert l x b).map Prod.fst ↔ y = x ∨ y ∈ l.map Prod.fst := by
  induction l with
  | nil => simp [upsert]
  | cons p l ih =>
    by_cases h : p.1 = x
    · simp only [upsert, h, if_true, List.map_cons, List.mem_cons]
      constructor
      · rintro (h1 | h1)
        · exact Or.inl h1
        · exact Or.inr (Or.inr h1)
      · rintro (h1 | h1 | h1)
        · exact Or.inl h1
        · exact Or.inl h1
        · exact Or.inr h1
    · simp only [upsert, h, if_false, List.map_cons, List.mem_cons, ih]
      constructor
      · rintro (h1 | h1 | h1)
        · exact Or.inr (Or.inl h1)
        · exact Or.inl h1
        · exact Or.inr (Or.inr h1)
      · rintro (h1 | h1 | h1)
        · exact Or.inr (Or.inl h1)
        · exact Or.inl h1
        · exact Or.inr (Or.inr h1)

/-- Invariant of the container: attribute names and series names are disjoint; no alias is the name of an
    attribute. -/
def Inv (m : AMap α) (s : Store α V P) : Prop :=
  (∀ x ∈ s.attrNames, x ∉ s.index) ∧ (∀ x ∈ s.attrNames, x ∉ keys m)

/-! ### every operation keeps the index; attributes only appear under the name that was asked for -/

theorem containerSetattr_index (E : ValOps α V P) (s : Store α V P) (n : α) (p : P) :
    (containerSetattr E s n p).1.index = s.index := by
  unfold containerSetattr
  split
  · split <;> simp [Store.index, keys_update]
  · split <;> rfl

theorem containerSetattr_attrs (E : ValOps α V P) (s : Store α V P) (n : α) (p : P) (x : α)
    (hx : x ∈ (containerSetattr E s n p).1.attrNames) : x ∈ s.attrNames ∨ (x = n ∧ n ∉ s.index) := by
  unfold containerSetattr at hx
  split at hx
  · split at hx <;> exact Or.inl hx
  · rename_i hl
    split at hx
    · exact Or.inl hx
    · rcases (mem_keys_upsert s.attrs n x p).mp hx with h | h
      · exact Or.inr ⟨h, (lookup_eq_none_iff s.vars n).mp hl⟩
      · exact Or.inl h

theorem containerWriteAt_index (E : ValOps α V P) (s : Store α V P) (n : α) (ix p : P) :
    (containerWriteAt E s n ix p).1.index = s.index ∧ (containerWriteAt E s n ix p).1.attrs = s.attrs := by
  unfold containerWriteAt
  split
  · exact ⟨rfl, rfl⟩
  · split <;> simp [Store.index, keys_update]

theorem rawPass_index (E : ValOps α V P) (s : Store α V P) (id : Nat) :
    (rawPass E s id).index = s.index ∧ (rawPass E s id).attrs = s.attrs := by
  simp [rawPass, Store.index, List.map_map, Function.comp_def]

/-- A store reached from `s`: same index, and every attribute name is old or is one of the `allowed` names
    that are not series names. -/
def Reach (allowed : α → Prop) (s s' : Store α V P) : Prop :=
  s'.index = s.index ∧ ∀ x ∈ s'.attrNames, x ∈ s.attrNames ∨ (allowed x ∧ x ∉ s.index)

theorem Reach.refl (allowed : α → Prop) (s : Store α V P) : Reach allowed s s :=
  ⟨rfl, fun _ hx => Or.inl hx⟩

theorem Reach.trans {allowed : α → Prop} {s s' s'' : Store α V P} (h1 : Reach allowed s s')
    (h2 : Reach allowed s' s'') : Reach allowed s s'' := by
  refine ⟨h2.1.trans h1.1, ?_⟩
  intro x hx
  rcases h2.2 x hx with h | ⟨ha, hi⟩
  · exact h1.2 x h
  · exact Or.inr ⟨ha, by rw [← h1.1]; exact hi⟩

theorem containerSetattr_reach (E : ValOps α V P) {allowed : α → Prop} (s : Store α V P) (n : α) (p : P)
    (hn : allowed n) : Reach allowed s (containerSetattr E s n p).1 := by
  refine ⟨containerSetattr_index E s n p, ?_⟩
  intro x hx
  rcases containerSetattr_attrs E s n p x hx with h | ⟨h1, h2⟩
  · exact Or.inl h
  · exact Or.inr ⟨h1 ▸ hn, h1 ▸ h2⟩

theorem replaceLoop_reach {allowed : α → Prop} (f : Store α V P → α → P → Store α V P × Res V P)
    (hf : ∀ s n p, Reach allowed s (f s n p).1) : ∀ (kvs : List (α × P)) (s : Store α V P),
    Reach allowed s (replaceLoop f s kvs).1 := by
  intro kvs
  induction kvs with
  | nil => intro s; exact Reach.refl _ s
  | cons kv rest ih =>
    intro s
    unfold replaceLoop
    have h1 := hf s kv.1 kv.2
    split
    · rename_i s' e heq; rw [heq] at h1; exact h1
    · rename_i s' r _ heq; rw [heq] at h1; exact h1.trans (ih s')

theorem aliasedSetItem_reach (E : ValOps α V P) (m : AMap α) (hc : chained m = false) (s : Store α V P)
    (n : α) (p : P) : Reach (· ∉ keys m) s (aliasedSetItem E m s n p).1 := by
  unfold aliasedSetItem
  split
  · exact containerSetattr_reach E s _ p (resolve_not_key hc _)
  · exact Reach.refl _ s

/-- One operation through the mixin: the index is unchanged and a new attribute is never called like an alias. -/
theorem aliased_reach (E : ValOps α V P) (m : AMap α) (hc : chained m = false) (s : Store α V P)
    (op : Op α P) : Reach (· ∉ keys m) s (aliased E m s op).1 := by
  cases op with
  | getAttr n => exact Reach.refl _ s
  | setAttr n p => exact containerSetattr_reach E s _ p (resolve_not_key hc _)
  | getItem n => exact Reach.refl _ s
  | setItem n p => exact aliasedSetItem_reach E m hc s n p
  | getAt n ix => exact Reach.refl _ s
  | setAt n ix p =>
    have := containerWriteAt_index E s (resolve m n) ix p
    exact ⟨this.1, fun x hx => Or.inl (by simpa [Store.attrNames, aliased, this.2] using hx)⟩
  | replaceValues kvs => exact replaceLoop_reach _ (aliasedSetItem_reach E m hc) kvs s
  | raw id =>
    have := rawPass_index E s id
    exact ⟨this.1, fun x hx => Or.inl (by simpa [Store.attrNames, aliased, this.2] using hx)⟩

theorem Inv.of_reach {m : AMap α} {s s' : Store α V P} (hinv : Inv m s) (h : Reach (· ∉ keys m) s s') :
    Inv m s' := by
  refine ⟨?_, ?_⟩
  · intro x hx
    rw [h.1]
    rcases h.2 x hx with h1 | ⟨_, h2⟩
    · exact hinv.1 x h1
    · exact h2
  · intro x hx
    rcases h.2 x hx with h1 | ⟨h2, _⟩
    · exact hinv.2 x h1
    · exact h2

theorem run_reach (E : ValOps α V P) (m : AMap α) (hc : chained m = false) :
    ∀ (ops : List (Op α P)) (s : Store α V P), Reach (· ∉ keys m) s (run (aliased E m) s ops).1 := by
  intro ops
  induction ops with
  | nil => intro s; exact Reach.refl _ s
  | cons op ops ih => intro s; exact (aliased_reach E m hc s op).trans (ih _)

/-! ### refinement: through the mixin = on the container with resolved names -/

theorem aliasedSetItem_eq (E : ValOps α V P) {m : AMap α} (hc : chained m = false) (s : Store α V P) (n : α)
    (p : P) : aliasedSetItem E m s n p = baseSetItem E s (resolve m n) p := by
  simp [aliasedSetItem, baseSetItem, mixinSetattr, resolve_idem hc]

theorem aliasedGetItem_eq {m : AMap α} (hc : chained m = false) (s : Store α V P) (n : α) :
    aliasedGetItem m s n = baseGetItem s (resolve m n) := by
  simp [aliasedGetItem, baseGetItem, mixinGetattr, resolve_idem hc]

theorem replaceLoop_congr (f g : Store α V P → α → P → Store α V P × Res V P) (r : α → α)
    (h : ∀ s n p, f s n p = g s (r n) p) : ∀ (kvs : List (α × P)) (s : Store α V P),
    replaceLoop f s kvs = replaceLoop g s (kvs.map fun kv => (r kv.1, kv.2)) := by
  intro kvs
  induction kvs with
  | nil => intro s; rfl
  | cons kv rest ih =>
    intro s
    simp only [replaceLoop, List.map_cons, h]
    split
    · rename_i heq; simp [heq]
    · rename_i heq; simp [heq, ih]

theorem aliasedGetAttr_eq {m : AMap α} {s : Store α V P} (hinv : Inv m s) (n : α) :
    aliasedGetAttr m s n = baseGetAttr s (resolve m n) := by
  unfold aliasedGetAttr baseGetAttr
  cases hl : lookup s.attrs n with
  | some a =>
    have hn : n ∈ s.attrNames := lookup_some_mem hl
    rw [resolve_of_not_key (hinv.2 n hn), hl]
  | none =>
    simp only [mixinGetattr]
    cases hr : lookup s.attrs (resolve m n) with
    | none => rfl
    | some a =>
      have hn : resolve m n ∈ s.attrNames := lookup_some_mem hr
      have hv : lookup s.vars (resolve m n) = none := (lookup_eq_none_iff _ _).mpr (hinv.1 _ hn)
      simp [containerGetattr, hv, hr]

theorem aliased_eq_base (E : ValOps α V P) {m : AMap α} (hc : chained m = false) {s : Store α V P}
    (hinv : Inv m s) (op : Op α P) : aliased E m s op = base E s (op.mapName (resolve m)) := by
  cases op with
  | getAttr n => simp [aliased, base, Op.mapName, aliasedGetAttr_eq hinv]
  | setAttr n p => rfl
  | getItem n => simp [aliased, base, Op.mapName, aliasedGetItem_eq hc]
  | setItem n p => simp [aliased, base, Op.mapName, aliasedSetItem_eq E hc]
  | getAt n ix => simp [aliased, base, Op.mapName, aliasedGetItem_eq hc]
  | setAt n ix p => rfl
  | replaceValues kvs =>
    simp only [aliased, base, Op.mapName]
    exact replaceLoop_congr _ _ _ (aliasedSetItem_eq E hc) kvs s
  | raw id => rfl

theorem run_aliased_eq_base (E : ValOps α V P) {m : AMap α} (hc : chained m = false) :
    ∀ (ops : List (Op α P)) {s : Store α V P}, Inv m s →
      run (aliased E m) s ops = run (base E) s (ops.map (Op.mapName (resolve m))) := by
  intro ops
  induction ops with
  | nil => intro s _; rfl
  | cons op ops ih =>
    intro s hinv
    have hstep := aliased_eq_base E hc hinv op
    have hinv' : Inv m (aliased E m s op).1 := hinv.of_reach (aliased_reach E m hc s op)
    simp only [run, List.map_cons]
    rw [← hstep, ih hinv']

end Fsic.Alias
