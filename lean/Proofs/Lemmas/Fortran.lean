import FsicModel.Fortran
set_option linter.unusedSimpArgs false
set_option linter.unusedVariables false
/-
Helper lemmas about M5 (`FsicModel/Fortran.lean`).  Property theorems live in `Proofs/C07.lean`.
-/
namespace Fsic.Fortran

/-! ### Numbering -/

theorem lookupLast_enumFrom_none (x : String) :
    ∀ (xs : List String) (i : Nat), x ∉ xs → lookupLast x (enumFrom xs i) = none := by
  intro xs
  induction xs with
  | nil => intro i _; rfl
  | cons y ys ih =>
    intro i h
    have h1 : y ≠ x := fun e => h (by simp [e])
    have h2 : x ∉ ys := fun e => h (by simp [e])
    simp [enumFrom, lookupLast, ih (i + 1) h2, h1]

theorem lookupLast_enumFrom (x : String) :
    ∀ (xs : List String) (i : Nat), xs.Nodup → x ∈ xs →
      lookupLast x (enumFrom xs i) = some (xs.idxOf x + i) := by
  intro xs
  induction xs with
  | nil => intro i _ h; simp at h
  | cons y ys ih =>
    intro i hnd hx
    have hnd' := List.nodup_cons.mp hnd
    by_cases hxy : y = x
    · subst hxy
      simp [enumFrom, lookupLast, lookupLast_enumFrom_none y ys (i + 1) hnd'.1, List.idxOf_cons]
    · have hx' : x ∈ ys := by
        rcases List.mem_cons.mp hx with h | h
        · exact absurd h.symm hxy
        · exact h
      have := ih (i + 1) hnd'.2 hx'
      have hb : (y == x) = false := by simpa using hxy
      simp [enumFrom, lookupLast, this, List.idxOf_cons, hb]
      omega

/-! ### The scanner -/

theorem scan_cons (c : Char) (cs : List Char) (st : St) :
    scan (c :: cs) st = (step c st).1 ++ scan cs (step c st).2 := rfl

theorem scan_ident_run (cs : List Char) (h : ∀ d ∈ cs, isIdChar d = true) :
    ∀ (cur rest : List Char), scan (cs ++ rest) (.ident cur) = scan rest (.ident (cs.reverse ++ cur)) := by
  induction cs with
  | nil => intro cur rest; rfl
  | cons c cs ih =>
    intro cur rest
    have hc : isIdChar c = true := h c (by simp)
    have := ih (fun d hd => h d (by simp [hd])) (c :: cur) rest
    simp only [List.cons_append, scan_cons, step, hc, if_true, List.nil_append, this, List.reverse_cons,
      List.append_assoc, List.singleton_append]

theorem scan_index_run (idx : List Char) (h : ∀ d ∈ idx, d ≠ ']' ∧ d ≠ '\n') :
    ∀ (name acc rest : List Char),
      scan (idx ++ rest) (.index name acc) = scan rest (.index name (idx.reverse ++ acc)) := by
  induction idx with
  | nil => intro name acc rest; rfl
  | cons c cs ih =>
    intro name acc rest
    have hc := h c (by simp)
    have := ih (fun d hd => h d (by simp [hd])) name (c :: acc) rest
    simp only [List.cons_append, scan_cons, step, hc.1, hc.2, if_false, List.nil_append, this, List.reverse_cons,
      List.append_assoc, List.singleton_append]

theorem isIdChar_lbracket : isIdChar '[' = false := by decide

/-- A reference `name[idx]` met in the text state is recognised as one match, whatever follows. -/
theorem scan_reference (c : Char) (cs idx rest : List Char) (h0 : isIdStart c = true)
    (h1 : ∀ d ∈ cs, isIdChar d = true) (h2 : ∀ d ∈ idx, d ≠ ']' ∧ d ≠ '\n') :
    scan ((c :: cs) ++ '[' :: (idx ++ ']' :: rest)) .text = .ref (c :: cs) idx :: scan rest .text := by
  simp only [List.cons_append, scan_cons, step, h0, if_true, List.nil_append]
  rw [scan_ident_run cs h1]
  simp only [scan_cons, step, isIdChar_lbracket, if_true, List.nil_append, Bool.false_eq_true, if_false]
  rw [scan_index_run idx h2]
  simp [scan_cons, step]

theorem replaceT_noT (k : List Char) (h : ∀ d ∈ k, d ≠ 't') : replaceT k = k := by
  induction k with
  | nil => rfl
  | cons c cs ih =>
    have hc := h c (by simp)
    simp [replaceT, hc, ih (fun d hd => h d (by simp [hd]))]

theorem replaceT_t (k : List Char) : replaceT ('t' :: k) = ['i', 'n', 'd', 'e', 'x'] ++ replaceT k := by
  simp [replaceT]

/-! ### Storage -/

theorem pyIndex_of_index (n : Nat) (t k : Int) (ht : -(n : Int) ≤ t) (ht' : t < n)
    (hlo : 1 ≤ indexOf n (t + 1) + k) (hhi : indexOf n (t + 1) + k ≤ n) :
    pyIndex n (t + k) = some (indexOf n (t + 1) + k - 1).toNat := by
  unfold indexOf at *
  unfold pyIndex
  by_cases hneg : t + 1 < 1
  · simp only [hneg, if_true] at hlo hhi ⊢
    have h1 : ¬ (0 ≤ t + k) := by omega
    have h2 : 0 ≤ t + k + n := by omega
    simp only [h1, if_false, h2, if_true]
    congr 2; omega
  · simp only [hneg, if_false] at hlo hhi ⊢
    have h1 : 0 ≤ t + k := by omega
    have h2 : t + k < n := by omega
    simp only [h1, if_true, h2]
    congr 2; omega

theorem offsetOf_pos (nrows row0 p : Nat) :
    offsetOf nrows ((row0 : Int) + 1) ((p : Int) + 1) = ((p * nrows + row0 : Nat) : Int) := by
  unfold offsetOf
  have h1 : ((p : Int) + 1 - 1) = p := by omega
  have h2 : ((row0 : Int) + 1 - 1) = row0 := by omega
  rw [h1, h2]
  push_cast
  rfl

end Fsic.Fortran
