import Proofs.Lemmas.HeapEntries
/-
One `copy.deepcopy` call (one memo) is a graph isomorphism between what it visits and what it builds: the memo is
an injective function from old objects to new ones, every new object's entries are the images of the old object's
entries, and hence reachability — and with it the aliasing between `__dict__` entries — is carried over exactly.
-/
set_option linter.unusedSimpArgs false
set_option linter.unusedVariables false
namespace Fsic.Heap

/-- `v'` is the image of `v` under the memo (immutable values are their own image). -/
def ValIn (m : Memo) : Val → Val → Prop
  | .imm i, .imm j => i = j
  | .ref x, .ref x' => (x, x') ∈ m
  | _, _ => False

theorem ValIn.mono {m m' : Memo} (sub : ∀ p, p ∈ m → p ∈ m') {v w : Val} (r : ValIn m v w) : ValIn m' v w := by
  cases v <;> cases w <;> simp_all [ValIn]

/-- Nothing reachable from `v` is an instance (`__deepcopy__` of a nested instance starts a memo of its own). -/
def PlainV (h0 : Heap) (v : Val) : Prop :=
  ∀ l x o ci, v = .ref l → Reach h0 l x → h0[x]? = some o → o.kind ≠ .inst ci

/-- No object reaches itself through one of its entries. -/
def AcyclicH (h0 : Heap) : Prop :=
  ∀ x o k c, h0[x]? = some o → (k, Val.ref c) ∈ o.slots → ¬ Reach h0 c x

structure MemoIso (h0 h : Heap) (m : Memo) : Prop where
  keysNodup : (m.map Prod.fst).Nodup
  valsNodup : (m.map Prod.snd).Nodup
  range : ∀ a c, (a, c) ∈ m → a < h0.length ∧ h0.length ≤ c ∧ c < h.length
  struct : ∀ a c, (a, c) ∈ m → ∃ o ss', h0[a]? = some o ∧ h[c]? = some ⟨o.kind, ss'⟩ ∧ SlotsRel (ValIn m) o.slots ss'

theorem MemoIso.nil (h0 h : Heap) : MemoIso h0 h [] :=
  ⟨by simp, by simp, by intro a c hm; simp at hm, by intro a c hm; simp at hm⟩

theorem MemoIso.memoOK {h0 h : Heap} {m : Memo} (I : MemoIso h0 h m) : MemoOK h0.length h m :=
  fun a c hm => (I.range a c hm).2

theorem nodup_fst_fun {m : Memo} (nd : (m.map Prod.fst).Nodup) {a c c' : Nat} (h1 : (a, c) ∈ m) (h2 : (a, c') ∈ m) :
    c = c' := by
  induction m with
  | nil => simp at h1
  | cons p m ih =>
    obtain ⟨a0, c0⟩ := p
    simp only [List.map_cons, List.nodup_cons] at nd
    rcases List.mem_cons.mp h1 with e1 | e1 <;> rcases List.mem_cons.mp h2 with e2 | e2
    · cases e1; cases e2; rfl
    · cases e1; exact absurd (List.mem_map.mpr ⟨(a, c'), e2, rfl⟩) nd.1
    · cases e2; exact absurd (List.mem_map.mpr ⟨(a, c), e1, rfl⟩) nd.1
    · exact ih nd.2 e1 e2

theorem nodup_snd_inj {m : Memo} (nd : (m.map Prod.snd).Nodup) {a a' c : Nat} (h1 : (a, c) ∈ m) (h2 : (a', c) ∈ m) :
    a = a' := by
  induction m with
  | nil => simp at h1
  | cons p m ih =>
    obtain ⟨a0, c0⟩ := p
    simp only [List.map_cons, List.nodup_cons] at nd
    rcases List.mem_cons.mp h1 with e1 | e1 <;> rcases List.mem_cons.mp h2 with e2 | e2
    · cases e1; cases e2; rfl
    · cases e1; exact absurd (List.mem_map.mpr ⟨(a', c), e2, rfl⟩) nd.1
    · cases e2; exact absurd (List.mem_map.mpr ⟨(a, c), e1, rfl⟩) nd.1
    · exact ih nd.2 e1 e2

theorem lookup_none_not_mem {β} (m : List (Nat × β)) (a : Nat) (hl : m.lookup a = none) : ∀ c, (a, c) ∉ m := by
  induction m with
  | nil => intro c hm; simp at hm
  | cons kv m ih =>
    obtain ⟨a', c'⟩ := kv
    intro c hm
    by_cases hk : a = a'
    · subst hk; simp [List.lookup] at hl
    · have hb : (a == a') = false := by simpa using hk
      have hl' : m.lookup a = none := by simpa [List.lookup, hb] using hl
      rcases List.mem_cons.mp hm with e | e
      · cases e; exact hk rfl
      · exact ih hl' c e

theorem SlotsRel.mem_left {Q : Val → Val → Prop} {ss ss' : List (String × Val)} (r : SlotsRel Q ss ss')
    {k : String} {v : Val} (hm : (k, v) ∈ ss) : ∃ v', (k, v') ∈ ss' ∧ Q v v' := by
  induction r with
  | nil => simp at hm
  | @cons k0 v0 v0' ss ss' q _ ih =>
    rcases List.mem_cons.mp hm with e | e
    · cases e; exact ⟨v0', List.mem_cons_self, q⟩
    · obtain ⟨v', h1, h2⟩ := ih e; exact ⟨v', List.mem_cons_of_mem _ h1, h2⟩

theorem SlotsRel.mem_right {Q : Val → Val → Prop} {ss ss' : List (String × Val)} (r : SlotsRel Q ss ss')
    {k : String} {v' : Val} (hm : (k, v') ∈ ss') : ∃ v, (k, v) ∈ ss ∧ Q v v' := by
  induction r with
  | nil => simp at hm
  | @cons k0 v0 v0' ss ss' q _ ih =>
    rcases List.mem_cons.mp hm with e | e
    · cases e; exact ⟨v0, List.mem_cons_self, q⟩
    · obtain ⟨v, h1, h2⟩ := ih e; exact ⟨v, List.mem_cons_of_mem _ h1, h2⟩

/-- What a deep-copier adds to `Spec`: it extends the memo isomorphism. -/
def ISpec (h0 : Heap) (dc : Copier) : Prop :=
  ∀ h m v h1 m1 v1, Ext h0 h → Blk h0.length h → OldV h0.length v → PlainV h0 v → MemoIso h0 h m →
    dc h m v = some (h1, m1, v1) →
    (∀ p, p ∈ m → p ∈ m1) ∧
    (∀ a c, (a, c) ∈ m1 → (a, c) ∈ m ∨ ∃ l, v = .ref l ∧ Reach h0 l a) ∧
    MemoIso h0 h1 m1 ∧ ValIn m1 v v1

theorem copySlotsWith_ispec {h0 : Heap} {dc : Copier} (S : Spec h0 dc) (T : ISpec h0 dc) :
    ∀ (ss : List (String × Val)) (h : Heap) (m : Memo) (h1 : Heap) (m1 : Memo) (ss' : List (String × Val)),
    Ext h0 h → Blk h0.length h → OldSlots h0.length ss → (∀ k v, (k, v) ∈ ss → PlainV h0 v) → MemoIso h0 h m →
    copySlotsWith dc h m ss = some (h1, m1, ss') →
    (∀ p, p ∈ m → p ∈ m1) ∧
    (∀ a c, (a, c) ∈ m1 → (a, c) ∈ m ∨ ∃ k l, (k, Val.ref l) ∈ ss ∧ Reach h0 l a) ∧
    MemoIso h0 h1 m1 ∧ SlotsRel (ValIn m1) ss ss' := by
  intro ss
  induction ss with
  | nil =>
    intro h m h1 m1 ss' e B O P I hc
    simp [copySlotsWith] at hc
    obtain ⟨rfl, rfl, rfl⟩ := hc
    exact ⟨fun p hp => hp, fun a c hm => Or.inl hm, I, .nil⟩
  | cons kv ss ih =>
    intro h m h1 m1 ss' e B O P I hc
    obtain ⟨k, v⟩ := kv
    simp only [copySlotsWith] at hc
    cases hd : dc h m v with
    | none => simp [hd] at hc
    | some r =>
      obtain ⟨ha, ma, va⟩ := r
      simp only [hd] at hc
      obtain ⟨ea, Ba, _, _⟩ := S h m v ha ma va e B I.memoOK (O k v List.mem_cons_self) hd
      obtain ⟨sub1, new1, Ia, Va⟩ := T h m v ha ma va e B (O k v List.mem_cons_self) (P k v List.mem_cons_self) I hd
      cases hr : copySlotsWith dc ha ma ss with
      | none => simp [hr] at hc
      | some r2 =>
        obtain ⟨hb, mb, ssb⟩ := r2
        simp only [hr] at hc
        cases hc
        obtain ⟨sub2, new2, Ib, Rb⟩ := ih ha ma h1 m1 ssb (e.trans ea) Ba O.tail
          (fun k' v' hm => P k' v' (List.mem_cons_of_mem _ hm)) Ia hr
        refine ⟨fun p hp => sub2 p (sub1 p hp), ?_, Ib, .cons (Va.mono sub2) Rb⟩
        intro a c hm
        rcases new2 a c hm with h2 | ⟨k', l, hk', hr'⟩
        · rcases new1 a c h2 with h3 | ⟨l, hv, hr'⟩
          · exact Or.inl h3
          · subst hv; exact Or.inr ⟨k, l, List.mem_cons_self, hr'⟩
        · exact Or.inr ⟨k', l, List.mem_cons_of_mem _ hk', hr'⟩

theorem deepcopy_ispec {cs : List ClassDesc} {h0 : Heap} (W : WorldOK cs h0) (ac : AcyclicH h0) :
    ∀ n, ISpec h0 (deepcopy cs n) := by
  intro n
  induction n with
  | zero =>
    intro h m v h1 m1 v1 e B O P I hc
    cases v with
    | imm i =>
      simp [deepcopy] at hc
      obtain ⟨rfl, rfl, rfl⟩ := hc
      exact ⟨fun p hp => hp, fun a c hm => Or.inl hm, I, rfl⟩
    | ref l => simp [deepcopy] at hc
  | succ n ih =>
    intro h m v h1 m1 v1 e B O P I hc
    cases v with
    | imm i =>
      simp [deepcopy] at hc
      obtain ⟨rfl, rfl, rfl⟩ := hc
      exact ⟨fun p hp => hp, fun a c hm => Or.inl hm, I, rfl⟩
    | ref l =>
      simp only [deepcopy] at hc
      cases hm : m.lookup l with
      | some l' =>
        simp [hm] at hc
        obtain ⟨rfl, rfl, rfl⟩ := hc
        exact ⟨fun p hp => hp, fun a c hm' => Or.inl hm', I, lookup_mem' _ _ _ hm⟩
      | none =>
        simp only [hm] at hc
        have hl : l < h0.length := O l rfl
        rw [e.get hl] at hc
        cases ho : h0[l]? with
        | none => simp [ho] at hc
        | some o =>
          simp only [ho] at hc
          cases hk : o.kind with
          | inst ci => exact absurd hk (P l l o ci rfl (Reach.refl l) ho)
          | uncopyable => simp [hk] at hc
          | list | array | dict | tuple | trace | cls =>
            simp only [hk] at hc
            cases hcs : copySlotsWith (deepcopy cs n) h m o.slots with
            | none => simp [hcs] at hc
            | some r =>
              obtain ⟨ha, ma, ss⟩ := r
              simp [hcs] at hc
              obtain ⟨rfl, rfl, rfl⟩ := hc
              have Os := oldSlots_of_wf W.wf ho
              have Ps : ∀ k v, (k, v) ∈ o.slots → PlainV h0 v := by
                intro k v hmem l' x o' ci hv hr hx
                subst hv
                exact P l x o' ci rfl (Reach.trans (Reach.single ho hmem) hr) hx
              obtain ⟨ea, _, _, _⟩ := copySlotsWith_spec (deepcopy_spec W n) o.slots h m ha ma ss e B I.memoOK Os hcs
              obtain ⟨sub, new, Ia, Ra⟩ := copySlotsWith_ispec (deepcopy_spec W n) ih o.slots h m ha ma ss e B Os Ps I hcs
              have lena := (e.trans ea).len
              have subM : ∀ p, p ∈ ma → p ∈ (l, ha.length) :: ma := fun p hp => List.mem_cons_of_mem _ hp
              have hnot : l ∉ ma.map Prod.fst := by
                intro hmem
                obtain ⟨⟨a', c'⟩, hp, hfst⟩ := List.mem_map.mp hmem
                simp at hfst; subst hfst
                rcases new a' c' hp with h1' | ⟨k', l', hk', hr'⟩
                · exact lookup_none_not_mem m a' hm c' h1'
                · exact ac a' o k' l' ho hk' hr'
              have hvnot : ha.length ∉ ma.map Prod.snd := by
                intro hmem
                obtain ⟨⟨a', c'⟩, hp, hsnd⟩ := List.mem_map.mp hmem
                simp at hsnd
                have := (Ia.range a' c' hp).2.2
                omega
              refine ⟨fun p hp => subM p (sub p hp), ?_, ?_, List.mem_cons_self⟩
              · intro a c hmem
                rcases List.mem_cons.mp hmem with e1 | e1
                · cases e1; exact Or.inr ⟨l, rfl, Reach.refl l⟩
                · rcases new a c e1 with h2 | ⟨k', l', hk', hr'⟩
                  · exact Or.inl h2
                  · exact Or.inr ⟨l, rfl, Reach.trans (Reach.single ho hk') hr'⟩
              · refine ⟨by simp [hnot, Ia.keysNodup], by simp [hvnot, Ia.valsNodup], ?_, ?_⟩
                · intro a c hmem
                  rcases List.mem_cons.mp hmem with e1 | e1
                  · cases e1; exact ⟨hl, lena, by simp⟩
                  · have := Ia.range a c e1
                    exact ⟨this.1, this.2.1, by simp; omega⟩
                · intro a c hmem
                  rcases List.mem_cons.mp hmem with e1 | e1
                  · cases e1
                    refine ⟨o, ss, ho, ?_, Ra.mono (fun _ _ q => q.mono subM)⟩
                    rw [getElem?_append_self, hk]
                  · obtain ⟨o', ss', h1', h2', h3'⟩ := Ia.struct a c e1
                    exact ⟨o', ss', h1', (Ext.append ha _).get_some h2', h3'.mono (fun _ _ q => q.mono subM)⟩

/-! ### The isomorphism carries reachability over -/

theorem iso_reach_fwd {h0 h : Heap} {m : Memo} (I : MemoIso h0 h m) {a c : Nat} (hac : (a, c) ∈ m) {x : Nat}
    (r : Reach h0 a x) : ∃ y, (x, y) ∈ m ∧ Reach h c y := by
  induction r with
  | refl => exact ⟨c, hac, Reach.refl c⟩
  | @step b x ob k rb hob hm ih =>
    obtain ⟨b', hb, rb'⟩ := ih
    obtain ⟨o, ss', h1, h2, h3⟩ := I.struct b b' hb
    rw [hob] at h1; cases h1
    obtain ⟨w, hw, q⟩ := h3.mem_left hm
    cases w with
    | imm i => exact absurd q (by simp [ValIn])
    | ref y => exact ⟨y, q, Reach.step rb' h2 hw⟩

theorem iso_reach_bwd {h0 h : Heap} {m : Memo} (I : MemoIso h0 h m) {a c : Nat} (hac : (a, c) ∈ m) {y : Nat}
    (r : Reach h c y) : ∃ x, (x, y) ∈ m ∧ Reach h0 a x := by
  induction r with
  | refl => exact ⟨a, hac, Reach.refl a⟩
  | @step b' y ob' k rb hob hm ih =>
    obtain ⟨b, hb, rb0⟩ := ih
    obtain ⟨o, ss', h1, h2, h3⟩ := I.struct b b' hb
    rw [hob] at h2; cases h2
    obtain ⟨v, hv, q⟩ := h3.mem_right hm
    cases v with
    | imm i => exact absurd q (by simp [ValIn])
    | ref x => exact ⟨x, q, Reach.step rb0 h1 hv⟩

/-- Two values reach a common object. -/
def SharedV (h : Heap) (v w : Val) : Prop :=
  ∃ l1 l2 x, v = .ref l1 ∧ w = .ref l2 ∧ Reach h l1 x ∧ Reach h l2 x

/-- **Aliasing is carried over exactly**: the images of two values share an object iff the values do. -/
theorem iso_shared_iff {h0 h : Heap} {m : Memo} (I : MemoIso h0 h m) {v1 v2 w1 w2 : Val}
    (q1 : ValIn m v1 w1) (q2 : ValIn m v2 w2) : SharedV h w1 w2 ↔ SharedV h0 v1 v2 := by
  constructor
  · rintro ⟨c1, c2, y, rfl, rfl, r1, r2⟩
    cases v1 with
    | imm i => exact absurd q1 (by simp [ValIn])
    | ref a1 =>
      cases v2 with
      | imm i => exact absurd q2 (by simp [ValIn])
      | ref a2 =>
        obtain ⟨x1, hx1, s1⟩ := iso_reach_bwd I q1 r1
        obtain ⟨x2, hx2, s2⟩ := iso_reach_bwd I q2 r2
        have := nodup_snd_inj I.valsNodup hx1 hx2
        subst this
        exact ⟨a1, a2, x1, rfl, rfl, s1, s2⟩
  · rintro ⟨a1, a2, x, rfl, rfl, r1, r2⟩
    cases w1 with
    | imm i => exact absurd q1 (by simp [ValIn])
    | ref c1 =>
      cases w2 with
      | imm i => exact absurd q2 (by simp [ValIn])
      | ref c2 =>
        obtain ⟨y1, hy1, s1⟩ := iso_reach_fwd I q1 r1
        obtain ⟨y2, hy2, s2⟩ := iso_reach_fwd I q2 r2
        have := nodup_fst_fun I.keysNodup hy1 hy2
        subst this
        exact ⟨c1, c2, y1, rfl, rfl, s1, s2⟩

theorem MemoIso.ext {h0 h h' : Heap} {m : Memo} (e : Ext h h') (I : MemoIso h0 h m) : MemoIso h0 h' m := by
  refine ⟨I.keysNodup, I.valsNodup, ?_, ?_⟩
  · intro a c hm
    have := I.range a c hm
    have := e.len
    omega
  · intro a c hm
    obtain ⟨o, ss', h1, h2, h3⟩ := I.struct a c hm
    exact ⟨o, ss', h1, e.get_some h2, h3⟩

/-- `VectorContainer.copy` (containers, models): the entries of the new `__dict__` are the images of the original's
    entries under ONE memo isomorphism. -/
theorem copyInstWith_iso {cs : List ClassDesc} {h0 : Heap} (W : WorldOK2 cs h0) (ac : AcyclicH h0) (n : Nat)
    {cd : ClassDesc} {ci : Nat} (hcd : cs[ci]? = some cd) {l : Nat} {o : Obj} (ho : h0[l]? = some o)
    (hk : o.kind = .inst ci) (hnl : cd.base ≠ .linker) (plain : ∀ k v, (k, v) ∈ o.slots → PlainV h0 v)
    {h h1 : Heap} {ss : List (String × Val)} (e : Ext h0 h) (B : Blk h0.length h)
    (hc : copyInstWith (deepcopy cs n) cd h o = some (h1, ss)) :
    ∃ m, MemoIso h0 h1 m ∧ ∀ k v w, o.slots.lookup k = some v → ss.lookup k = some w → ValIn m v w := by
  have ok := W.classes ci cd hcd
  have O := oldSlots_of_wf W.wf ho
  have nd := W.nodup l o ci ho hk
  have S := deepcopy_spec W.toWorldOK n
  unfold copyInstWith at hc
  simp only [hnl, if_false] at hc
  have Osp := lookup_getD_old O "span"
  cases hd : deepcopy cs n h [] ((o.slots.lookup "span").getD (.imm .none)) with
  | none => simp [hd] at hc
  | some r1 =>
    obtain ⟨ha, ma, sp⟩ := r1
    simp only [hd] at hc
    obtain ⟨ea, Ba, _, Nsp⟩ := S h [] _ ha ma sp e B (MemoOK.nil _ _) Osp hd
    have lena := (e.trans ea).len
    have C := construct_ok (b := h0.length) W.wf (e.trans ea) ok Ba (by omega) sp (.imm .none) Nsp (NewV.imm _ _ _)
    generalize construct cd ha sp (.imm .none) = r3 at hc C
    obtain ⟨h3, init⟩ := r3
    simp only at hc
    cases h4c : copySlotsWith (deepcopy cs n) h3 [] o.slots with
    | none => simp [h4c] at hc
    | some r4 =>
      obtain ⟨h4, m4, ss4⟩ := r4
      simp only [h4c] at hc
      cases hc
      have e3 : Ext h0 h3 := (e.trans ea).trans C.ext
      obtain ⟨_, _, I4, R4⟩ := copySlotsWith_ispec S (deepcopy_ispec W.toWorldOK ac n) o.slots h3 [] h1 m4 ss4 e3 C.blk
        O plain (MemoIso.nil _ _) h4c
      refine ⟨m4, I4, ?_⟩
      intro k v w hv hw
      have hkmem : k ∈ ss4.map Prod.fst := by
        rw [R4.keys]
        exact List.mem_map.mpr ⟨(k, v), lookup_mem _ _ _ hv, rfl⟩
      rw [lookup_slotUpdate ss4 init k (by rw [R4.keys]; exact nd)] at hw
      simp only [hkmem, if_true] at hw
      have := R4.lookup k
      rw [hv, hw] at this
      exact this

/-- **The copy has exactly the original's entry aliasing** (containers and models; one memo for the whole
    `__dict__`). -/
theorem copyRoot_aliasing_preserved {cs : List ClassDesc} {h0 : Heap} (W : WorldOK2 cs h0) (ac : AcyclicH h0)
    {a c : Nat} {h1 : Heap} {o : Obj} {ci : Nat} {cd : ClassDesc} (ho : h0[a]? = some o) (hk : o.kind = .inst ci)
    (hcd : cs[ci]? = some cd) (hnl : cd.base ≠ .linker) (plain : ∀ k v, (k, v) ∈ o.slots → PlainV h0 v)
    (hc : copyRoot cs h0 a = some (h1, c)) :
    ∃ o', h1[c]? = some o' ∧ ∀ k1 k2 v1 v2 w1 w2, o.slots.lookup k1 = some v1 → o.slots.lookup k2 = some v2 →
      o'.slots.lookup k1 = some w1 → o'.slots.lookup k2 = some w2 → (SharedV h1 w1 w2 ↔ SharedV h0 v1 v2) := by
  unfold copyRoot at hc
  cases hd : deepcopy cs (h0.length + 1) h0 [] (.ref a) with
  | none => simp [hd] at hc
  | some r =>
    obtain ⟨hh, mm, v⟩ := r
    cases v with
    | imm i => simp [hd] at hc
    | ref c' =>
      simp [hd] at hc
      obtain ⟨rfl, rfl⟩ := hc
      simp only [deepcopy, List.lookup, ho, hk, hcd] at hd
      cases hci : copyInstWith (deepcopy cs h0.length) cd h0 o with
      | none => simp [hci] at hd
      | some r2 =>
        obtain ⟨hx, ss⟩ := r2
        simp [hci] at hd
        obtain ⟨rfl, _, rfl⟩ := hd
        obtain ⟨m, I, V⟩ := copyInstWith_iso W ac h0.length hcd ho hk hnl plain (Ext.refl h0) (blk_self h0) hci
        refine ⟨⟨.inst ci, ss⟩, getElem?_append_self hx _, ?_⟩
        intro k1 k2 v1 v2 w1 w2 hv1 hv2 hw1 hw2
        exact iso_shared_iff (I.ext (Ext.append hx _)) (V k1 v1 w1 hv1 hw1) (V k2 v2 w2 hv2 hw2)

end Fsic.Heap
