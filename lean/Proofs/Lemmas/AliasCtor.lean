import FsicModel.AliasCtor
import Proofs.Lemmas.Alias
/-
Helper lemmas for C18 (constructor routes: keyword look-up, `from_dataframe`, re-encoding of names).
The property theorems are in `Proofs/C18.lean`.
-/
set_option linter.unusedSectionVars false
set_option linter.unusedSimpArgs false
namespace Fsic.Alias
variable {α : Type} [DecidableEq α] {P : Type}

/-! ### `initial_values.get(name, default_value)` -/

theorem lookupLast_none {l : List (α × P)} {n : α} (h : n ∉ l.map Prod.fst) : ctorBase.lookupLast l n = none := by
  induction l with
  | nil => rfl
  | cons p l ih =>
    simp only [List.map_cons, List.mem_cons, not_or] at h
    unfold ctorBase.lookupLast
    rw [ih h.2]
    have hne : ¬ p.1 = n := fun e => h.1 e.symm
    simp [hne]

theorem lookupLast_of_mem {l : List (α × P)} (hnd : (l.map Prod.fst).Nodup) {n : α} {p : P} (h : (n, p) ∈ l) :
    ctorBase.lookupLast l n = some p := by
  induction l with
  | nil => cases h
  | cons q l ih =>
    simp only [List.map_cons, List.nodup_cons] at hnd
    unfold ctorBase.lookupLast
    rcases List.mem_cons.mp h with e | h'
    · subst e
      rw [lookupLast_none hnd.1]
      simp
    · rw [ih hnd.2 h']

theorem lookupLast_some_mem {l : List (α × P)} {n : α} {p : P} (h : ctorBase.lookupLast l n = some p) : (n, p) ∈ l := by
  induction l with
  | nil => cases h
  | cons q l ih =>
    unfold ctorBase.lookupLast at h
    split at h
    · rename_i v hv
      cases h
      exact List.mem_cons_of_mem _ (ih hv)
    · split at h
      · rename_i e
        cases h
        rw [← e]
        exact List.mem_cons_self
      · cases h

/-- What a constructor that does not raise hands to `add_variable`, name by name. -/
theorem ctorBase_ok {strict : Bool} {names : List α} {dflt : P} {kw : List (α × P)} {init : List (α × P)}
    (h : ctorBase strict names dflt kw = .ok init) :
    init = names.map fun n => (n, (ctorBase.lookupLast kw n).getD dflt) := by
  unfold ctorBase at h
  split at h
  · cases h
  · cases h; rfl

theorem clash_nil (cols : List (α × P)) : clash cols ([] : List (α × P)) = false := rfl

theorem clash_false_of_nodup {cols extra : List (α × P)} (h : ((cols ++ extra).map Prod.fst).Nodup) :
    clash cols extra = false := by
  unfold clash
  rw [List.any_eq_false]
  intro kv hkv
  simp only [decide_eq_true_eq]
  intro hmem
  rw [List.map_append] at h
  exact (List.nodup_append.mp h).2.2 _ hmem _ (List.mem_map_of_mem (f := Prod.fst) hkv) rfl

theorem map_fst_relabel (f : α → α) (cols : List (α × P)) : (relabel f cols).map Prod.fst = cols.map fun c => f c.1 := by
  simp [relabel, List.map_map, Function.comp_def]

theorem relabel_append (f : α → α) (a b : List (α × P)) : relabel f (a ++ b) = relabel f a ++ relabel f b := by
  simp [relabel]

/-! ### Re-encoding of names -/

section reencode
variable {β : Type} [DecidableEq β] (f : α → β) (hf : ∀ x y, f x = f y → x = y)
include hf

theorem get_reMap (m : AMap α) (x : α) : get (reMap f m) (f x) = (get m x).map f := by
  induction m with
  | nil => rfl
  | cons p m ih =>
    show (if f p.1 = f x then some (f p.2) else get (reMap f m) (f x)) = (if p.1 = x then some p.2 else get m x).map f
    by_cases e : p.1 = x
    · simp [e]
    · have : f p.1 ≠ f x := fun h => e (hf _ _ h)
      simp [e, this, ih]

theorem resolve_reMap (m : AMap α) (x : α) : resolve (reMap f m) (f x) = f (resolve m x) := by
  unfold resolve
  rw [get_reMap f hf]
  cases get m x <;> rfl

theorem shortenStep_reMap (m : AMap α) : shortenStep (reMap f m) = reMap f (shortenStep m) := by
  unfold shortenStep reMap
  simp only [List.map_map]
  apply List.map_congr_left
  intro p _
  simp only [Function.comp]
  rw [← resolve_reMap f hf]
  rfl

theorem mem_map_reencode (names : List α) (x : α) : f x ∈ names.map f ↔ x ∈ names := by
  constructor
  · intro h
    obtain ⟨y, hy, e⟩ := List.mem_map.mp h
    rw [← hf _ _ e]; exact hy
  · exact List.mem_map_of_mem

theorem chained_reMap (m : AMap α) : chained (reMap f m) = chained m := by
  rw [Bool.eq_iff_iff, chained_iff, chained_iff]
  have hk : keys (reMap f m) = (keys m).map f := by simp [keys, reMap, List.map_map, Function.comp_def]
  have hv : vals (reMap f m) = (vals m).map f := by simp [vals, reMap, List.map_map, Function.comp_def]
  rw [hk, hv]
  constructor
  · rintro ⟨k, h1, h2⟩
    obtain ⟨x, hx, rfl⟩ := List.mem_map.mp h1
    exact ⟨x, hx, (mem_map_reencode f hf _ _).mp h2⟩
  · rintro ⟨k, h1, h2⟩
    exact ⟨f k, List.mem_map_of_mem h1, List.mem_map_of_mem h2⟩

theorem dropSelf_reMap (m : AMap α) : dropSelf (reMap f m) = reMap f (dropSelf m) := by
  unfold dropSelf reMap
  rw [List.filter_map]
  congr 1
  apply List.filter_congr
  intro p _
  simp only [Function.comp, decide_eq_decide]
  exact ⟨fun h e => h (by rw [e]), fun h e => h (hf _ _ e)⟩

theorem shortenLoop_reMap (n r : Nat) (m : AMap α) :
    shortenLoop n r (reMap f m) = match shortenLoop n r m with
      | .exited r' m' => .exited r' (reMap f m')
      | .exhausted => .exhausted := by
  induction n generalizing r m with
  | zero => rfl
  | succ n ih =>
    unfold shortenLoop
    rw [chained_reMap f hf]
    split
    · rw [shortenStep_reMap f hf, ih]
    · rfl

theorem instanceAliases_reMap (m : AMap α) : instanceAliases (reMap f m) = (instanceAliases m).map (reMap f) := by
  unfold instanceAliases shortenAll
  rw [dropSelf_reMap f hf, shortenLoop_reMap f hf]
  have hl : (reMap f (dropSelf m)).length = (dropSelf m).length := by simp [reMap]
  rw [hl]
  cases shortenLoop ((dropSelf m).length + 1) 0 (dropSelf m) with
  | exited r m' => simp only [Outcome.map]; rw [dropSelf_reMap f hf]
  | exhausted => rfl

theorem lookupLast_reencode (kw : List (α × P)) (n : α) :
    ctorBase.lookupLast (kw.map fun kv => (f kv.1, kv.2)) (f n) = ctorBase.lookupLast kw n := by
  induction kw with
  | nil => rfl
  | cons p kw ih =>
    simp only [List.map_cons]
    unfold ctorBase.lookupLast
    rw [ih]
    cases ctorBase.lookupLast kw n with
    | some v => rfl
    | none =>
      by_cases e : p.1 = n
      · simp [e]
      · have : f p.1 ≠ f n := fun h => e (hf _ _ h)
        simp [e, this]

theorem ctorBase_reencode (strict : Bool) (names : List α) (dflt : P) (kw : List (α × P)) :
    ctorBase strict (names.map f) dflt (kw.map fun kv => (f kv.1, kv.2)) =
      (ctorBase strict names dflt kw).map (List.map fun kv => (f kv.1, kv.2)) := by
  unfold ctorBase
  have hany : ((kw.map fun kv => (f kv.1, kv.2)).any fun kv => decide (kv.1 ∉ names.map f)) =
      (kw.any fun kv => decide (kv.1 ∉ names)) := by
    rw [List.any_map]
    congr 1
    funext kv
    simp only [Function.comp, mem_map_reencode f hf]
  rw [hany]
  split
  · rfl
  · simp only [Except.map, List.map_map]
    congr 1
    apply List.map_congr_left
    intro n _
    simp only [Function.comp]
    rw [lookupLast_reencode f hf]

end reencode

end Fsic.Alias
