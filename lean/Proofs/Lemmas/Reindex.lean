import FsicModel.Reindex
set_option linter.unusedSimpArgs false
/-
Helper lemmas about the reindex model (`FsicModel/Reindex.lean`).  Property theorems: `Proofs/C12.lean`.
-/
namespace Fsic.Reindex

/-! ### `mapE` -/

theorem mapE_ok {α β ε : Type} (f : α → Except ε β) :
    ∀ (xs : List α) (ys : List β), mapE f xs = .ok ys →
      ys.length = xs.length ∧ ∀ (j : Nat) (x : α), xs[j]? = some x → ∃ y, ys[j]? = some y ∧ f x = .ok y := by
  intro xs
  induction xs with
  | nil =>
    intro ys h
    simp [mapE] at h
    subst h
    simp
  | cons x xs ih =>
    intro ys h
    unfold mapE at h
    cases hf : f x with
    | error e => simp [hf] at h
    | ok y =>
      cases hm : mapE f xs with
      | error e => simp [hf, hm] at h
      | ok ys' =>
        simp [hf, hm] at h
        subst h
        obtain ⟨hl, hj⟩ := ih ys' hm
        refine ⟨by simp [hl], ?_⟩
        intro j x' hx'
        cases j with
        | zero =>
          simp at hx'
          subst hx'
          exact ⟨y, by simp, hf⟩
        | succ j =>
          simp at hx'
          obtain ⟨y', hy', hfy⟩ := hj j x' hx'
          exact ⟨y', by simpa using hy', hfy⟩

theorem mapE_error_of {α β ε : Type} (f : α → Except ε β) (xs : List α) (e : ε)
    (h : mapE f xs = .error e) : ∃ x ∈ xs, f x = .error e := by
  induction xs with
  | nil => simp [mapE] at h
  | cons x xs ih =>
    unfold mapE at h
    cases hf : f x with
    | error e' =>
      simp [hf] at h
      exact ⟨x, by simp, by rw [hf, h]⟩
    | ok y =>
      cases hm : mapE f xs with
      | error e' =>
        simp [hf, hm] at h
        subst h
        obtain ⟨x', hx', hfx⟩ := ih hm
        exact ⟨x', by simp [hx'], hfx⟩
      | ok ys' => simp [hf, hm] at h

theorem mapE_total {α β ε : Type} (f : α → Except ε β) (g : α → β) (xs : List α)
    (h : ∀ x ∈ xs, f x = .ok (g x)) : mapE f xs = .ok (xs.map g) := by
  induction xs with
  | nil => rfl
  | cons x xs ih =>
    have hx := h x (by simp)
    have ih' := ih (fun y hy => h y (by simp [hy]))
    simp [mapE, hx, ih']

/-! ### `firstIndex` = `list.index` -/

theorem firstIndex_some (l : Nat) : ∀ (xs : List Nat) (k : Nat), firstIndex l xs = some k →
    xs[k]? = some l ∧ ∀ j, j < k → xs[j]? ≠ some l := by
  intro xs
  induction xs with
  | nil => intro k h; simp [firstIndex] at h
  | cons x xs ih =>
    intro k h
    unfold firstIndex at h
    by_cases hx : x = l
    · simp [hx] at h
      subst h
      exact ⟨by simp [hx], by intro j hj; omega⟩
    · simp only [hx, if_false] at h
      cases hf : firstIndex l xs with
      | none => simp [hf] at h
      | some k' =>
        simp [hf] at h
        subst h
        obtain ⟨h1, h2⟩ := ih k' hf
        refine ⟨by simpa using h1, ?_⟩
        intro j hj
        cases j with
        | zero => simp; exact hx
        | succ j => simpa using h2 j (by omega)

theorem firstIndex_none (l : Nat) : ∀ (xs : List Nat), firstIndex l xs = none ↔ l ∉ xs := by
  intro xs
  induction xs with
  | nil => simp [firstIndex]
  | cons x xs ih =>
    unfold firstIndex
    by_cases hx : x = l
    · simp [hx]
    · simp only [hx, if_false]
      cases hf : firstIndex l xs with
      | none =>
        have := ih.mp hf
        simp [this]
        exact fun h => hx h.symm
      | some k =>
        have : ¬ (l ∉ xs) := fun hn => by rw [ih.mpr hn] at hf; exact absurd hf (by simp)
        simp at this
        simp [this]

theorem firstIndex_lt (l : Nat) (xs : List Nat) (k : Nat) (h : firstIndex l xs = some k) : k < xs.length := by
  have := (firstIndex_some l xs k h).1
  by_cases hk : k < xs.length
  · exact hk
  · rw [List.getElem?_eq_none (by omega)] at this
    exact absurd this (by simp)

/-! ### The copy loop -/

/-- What `writeAll` leaves at every position. -/
def written (src : List Val) (ps : List (Option Nat)) (i : Nat) (dst : List Val) (j : Nat) : Option Val :=
  if i ≤ j then
    match ps[j - i]? with
    | some (some k) => src[k]?
    | _ => dst[j]?
  else dst[j]?

theorem writeAll_spec (src : List Val) : ∀ (ps : List (Option Nat)) (i : Nat) (dst out : List Val),
    writeAll src ps i dst = .ok out →
      out.length = dst.length ∧ ∀ j, j < dst.length → out[j]? = written src ps i dst j := by
  intro ps
  induction ps with
  | nil =>
    intro i dst out h
    simp [writeAll] at h
    subst h
    refine ⟨rfl, ?_⟩
    intro j _
    simp [written]
  | cons p ps ih =>
    intro i dst out h
    cases p with
    | none =>
      simp only [writeAll] at h
      obtain ⟨hl, hj⟩ := ih (i + 1) dst out h
      refine ⟨hl, ?_⟩
      intro j hjl
      rw [hj j hjl]
      unfold written
      by_cases h1 : i + 1 ≤ j
      · have h2 : i ≤ j := by omega
        have e : j - i = (j - (i + 1)) + 1 := by omega
        simp only [h1, h2, if_true, e, List.getElem?_cons_succ]
      · by_cases h2 : i ≤ j
        · have e : j - i = 0 := by omega
          simp [h1, h2, e]
        · simp [h1, h2]
    | some k =>
      simp only [writeAll] at h
      cases hs : src[k]? with
      | none => simp [hs] at h
      | some v =>
        simp only [hs] at h
        obtain ⟨hl, hj⟩ := ih (i + 1) (Fsic.setAt dst i v) out h
        rw [Fsic.setAt_length] at hl hj
        refine ⟨hl, ?_⟩
        intro j hjl
        rw [hj j hjl]
        unfold written
        by_cases h1 : i + 1 ≤ j
        · have h2 : i ≤ j := by omega
          have e : j - i = (j - (i + 1)) + 1 := by omega
          have hne : i ≠ j := by omega
          simp only [h1, h2, if_true, e, List.getElem?_cons_succ, Fsic.setAt_getElem?_ne _ _ _ _ hne]
        · by_cases h2 : i ≤ j
          · have e : j = i := by omega
            subst e
            simp [h1, Fsic.setAt_getElem?_eq _ _ _ hjl, hs]
          · have hne : i ≠ j := by omega
            simp [h1, h2, Fsic.setAt_getElem?_ne _ _ _ _ hne]

/-- The loop succeeds when every mapped old position exists in the source. -/
theorem writeAll_total (src : List Val) : ∀ (ps : List (Option Nat)) (i : Nat) (dst : List Val),
    (∀ k, some k ∈ ps → k < src.length) → ∃ out, writeAll src ps i dst = .ok out := by
  intro ps
  induction ps with
  | nil => intro i dst _; exact ⟨dst, rfl⟩
  | cons p ps ih =>
    intro i dst h
    have h' : ∀ k, some k ∈ ps → k < src.length := fun k hk => h k (by simp [hk])
    cases p with
    | none => simp only [writeAll]; exact ih (i + 1) dst h'
    | some k =>
      have hk := h k (by simp)
      simp only [writeAll, List.getElem?_eq_getElem hk]
      exact ih (i + 1) _ h'

/-! ### Position map of list-like spans -/

theorem posmapOf_list (old new : List Nat) :
    posmapOf .list old new = .ok (new.map fun l => firstIndex l old) := by
  unfold posmapOf
  exact mapE_total _ _ _ (fun _ _ => rfl)

/-! ### Lookups of every span kind; the copy loop treats values as opaque tokens -/

/-- Whenever the lookup of a span kind answers, the answer is the first index (`none` = a new period): the kinds
    differ only in WHEN they answer (the NumPy fallback locator refuses duplicate labels). -/
theorem positionOf_ok (kind : SpanKind) (old : List Nat) (l : Nat) (p : Option Nat)
    (h : positionOf kind old l = .ok p) : p = firstIndex l old := by
  cases kind with
  | list => simp [positionOf] at h; exact h.symm
  | numpy =>
    unfold positionOf at h
    simp only at h
    split at h
    · simp at h; exact h.symm
    · simp at h

theorem positionOf_numpy_error (old : List Nat) (l : Nat) (e : Err) (h : positionOf .numpy old l = .error e) :
    e = .keyError ∧ 1 < countEq l old := by
  unfold positionOf at h
  simp only at h
  split at h
  · simp at h
  · rename_i hc
    simp at h
    exact ⟨h.symm, by omega⟩

theorem posmapOf_ok (kind : SpanKind) (old new : List Nat) (pm : List (Option Nat))
    (h : posmapOf kind old new = .ok pm) : pm = new.map fun l => firstIndex l old := by
  unfold posmapOf at h
  obtain ⟨hl, hj⟩ := mapE_ok _ _ _ h
  apply List.ext_getElem?
  intro j
  simp only [List.getElem?_map]
  cases hn : new[j]? with
  | none =>
    have : pm[j]? = none := by
      rw [List.getElem?_eq_none_iff] at hn ⊢
      omega
    simp [this]
  | some l =>
    obtain ⟨y, hy, hfy⟩ := hj j l hn
    rw [hy, positionOf_ok kind old l y hfy]
    rfl

theorem setAt_map {α β : Type} (g : α → β) : ∀ (xs : List α) (i : Nat) (v : α),
    (Fsic.setAt xs i v).map g = Fsic.setAt (xs.map g) i (g v) := by
  intro xs
  induction xs with
  | nil => intro i v; rfl
  | cons x xs ih =>
    intro i v
    cases i with
    | zero => rfl
    | succ i => simp [Fsic.setAt, ih]

/-- **Naturality of the copy loop**: relabelling every value (of the old series and of the fill) by any function
    `g` and then copying is the same as copying and then relabelling — the loop moves values, it never looks at
    them. -/
theorem writeAll_map (g : Val → Val) (src : List Val) : ∀ (ps : List (Option Nat)) (i : Nat) (dst : List Val),
    writeAll (src.map g) ps i (dst.map g) = (writeAll src ps i dst).map (List.map g) := by
  intro ps
  induction ps with
  | nil => intro i dst; rfl
  | cons p ps ih =>
    intro i dst
    cases p with
    | none => simp only [writeAll]; exact ih (i + 1) dst
    | some k =>
      simp only [writeAll, List.getElem?_map]
      cases hs : src[k]? with
      | none => rfl
      | some v =>
        simp only [Option.map_some]
        rw [← setAt_map g dst i v]
        exact ih (i + 1) _

end Fsic.Reindex
