import FsicModel.AliasFail
import Proofs.Lemmas.AliasStore
/-
Helper lemmas for C18, error paths: what a failing operation leaves behind.
-/
set_option linter.unusedSectionVars false
set_option linter.unusedSimpArgs false
namespace Fsic.Alias
variable {α : Type} [DecidableEq α] {V P : Type}

/-! ### the container operations one by one: an error result comes with the store it started from -/

theorem containerSetattr_err (E : ValOps α V P) (s : Store α V P) (n : α) (p : P) {e : Err}
    (h : (containerSetattr E s n p).2 = .err e) : (containerSetattr E s n p).1 = s := by
  unfold containerSetattr at h ⊢
  cases hl : lookup s.vars n with
  | some v =>
    simp only [hl] at h ⊢
    cases ha : E.assign v p with
    | ok v' => simp [ha] at h
    | error e' => simp [ha]
  | none =>
    simp only [hl] at h ⊢
    by_cases hs : s.strict ∧ n ∉ s.attrNames
    · simp [hs]
    · simp [hs] at h

theorem containerWriteAt_err (E : ValOps α V P) (s : Store α V P) (n : α) (ix p : P) {e : Err}
    (h : (containerWriteAt E s n ix p).2 = .err e) : (containerWriteAt E s n ix p).1 = s := by
  unfold containerWriteAt at h ⊢
  cases hl : lookup s.vars n with
  | none => simp [hl]
  | some v =>
    simp only [hl] at h ⊢
    cases ha : E.writeAt v ix p with
    | ok v' => simp [ha] at h
    | error e' => simp [ha]

theorem aliasedSetItem_err (E : ValOps α V P) (m : AMap α) (s : Store α V P) (n : α) (p : P) {e : Err}
    (h : (aliasedSetItem E m s n p).2 = .err e) : (aliasedSetItem E m s n p).1 = s := by
  unfold aliasedSetItem at h ⊢
  split
  · rename_i hin
    simp only [hin, if_true] at h
    exact containerSetattr_err E s _ p h
  · rfl

/-- Every accessor except `replace_values`: error ⇒ the store is the one before. -/
theorem aliased_err_store (E : ValOps α V P) (m : AMap α) (s : Store α V P) (op : Op α P)
    (hb : ∀ kvs, op ≠ .replaceValues kvs) {e : Err} (h : (aliased E m s op).2 = .err e) :
    (aliased E m s op).1 = s := by
  cases op with
  | getAttr n => rfl
  | setAttr n p => exact containerSetattr_err E s _ p h
  | getItem n => rfl
  | setItem n p => exact aliasedSetItem_err E m s n p h
  | getAt n ix => rfl
  | setAt n ix p => exact containerWriteAt_err E s _ ix p h
  | replaceValues kvs => exact absurd rfl (hb kvs)
  | raw id => simp [aliased] at h

/-! ### `replace_values`: exactly the assignments before the failing key -/

theorem replaceLoop_cons_err (f : Store α V P → α → P → Store α V P × Res V P) (s : Store α V P) (kv : α × P)
    (rest : List (α × P)) {s' : Store α V P} {e : Err} (h : f s kv.1 kv.2 = (s', .err e)) :
    replaceLoop f s (kv :: rest) = (s', .err e) := by
  simp [replaceLoop, h]

theorem replaceLoop_cons_ok (f : Store α V P → α → P → Store α V P × Res V P) (s : Store α V P) (kv : α × P)
    (rest : List (α × P)) {s' : Store α V P} {r : Res V P} (h : f s kv.1 kv.2 = (s', r)) (hne : ∀ e, r ≠ .err e) :
    replaceLoop f s (kv :: rest) = replaceLoop f s' rest := by
  cases r with
  | err e => exact absurd rfl (hne e)
  | done => simp [replaceLoop, h]
  | series v => simp [replaceLoop, h]
  | value p => simp [replaceLoop, h]

theorem replaceLoop_append_ok (f : Store α V P → α → P → Store α V P × Res V P) :
    ∀ (pre : List (α × P)) (s : Store α V P) (rest : List (α × P)),
      (∀ e, (replaceLoop f s pre).2 ≠ .err e) →
      replaceLoop f s (pre ++ rest) = replaceLoop f (replaceLoop f s pre).1 rest := by
  intro pre
  induction pre with
  | nil => intro s rest _; rfl
  | cons kv pre ih =>
    intro s rest hok
    simp only [List.cons_append]
    rcases hfs : f s kv.1 kv.2 with ⟨s', r⟩
    by_cases hr : ∃ e, r = .err e
    · obtain ⟨e, rfl⟩ := hr
      rw [replaceLoop_cons_err f s kv pre hfs] at hok
      exact absurd rfl (hok e)
    · have hne : ∀ e, r ≠ .err e := fun e he => hr ⟨e, he⟩
      rw [replaceLoop_cons_ok f s kv pre hfs hne] at hok ⊢
      rw [replaceLoop_cons_ok f s kv (pre ++ rest) hfs hne]
      exact ih s' rest hok

/-- A failing bulk replacement splits at the failing key: everything before it was stored, the failing key left
    whatever its own assignment left, nothing after it was looked at. -/
theorem replaceLoop_err_split (f : Store α V P → α → P → Store α V P × Res V P) :
    ∀ (kvs : List (α × P)) (s : Store α V P) {e : Err}, (replaceLoop f s kvs).2 = .err e →
      ∃ pre kv post, kvs = pre ++ kv :: post ∧ (∀ e', (replaceLoop f s pre).2 ≠ .err e') ∧
        (f (replaceLoop f s pre).1 kv.1 kv.2).2 = .err e ∧
        (replaceLoop f s kvs).1 = (f (replaceLoop f s pre).1 kv.1 kv.2).1 := by
  intro kvs
  induction kvs with
  | nil => intro s e h; simp [replaceLoop] at h
  | cons kv rest ih =>
    intro s e h
    rcases hfs : f s kv.1 kv.2 with ⟨s', r⟩
    by_cases hr : ∃ e', r = .err e'
    · obtain ⟨e', rfl⟩ := hr
      rw [replaceLoop_cons_err f s kv rest hfs] at h ⊢
      refine ⟨[], kv, rest, rfl, ?_, ?_, ?_⟩
      · intro e''; simp [replaceLoop]
      · simp only [replaceLoop, hfs]; exact h
      · simp only [replaceLoop, hfs]
    · have hne : ∀ e', r ≠ .err e' := fun e' he => hr ⟨e', he⟩
      rw [replaceLoop_cons_ok f s kv rest hfs hne] at h ⊢
      obtain ⟨pre, kv', post, hsplit, hok, herr, hst⟩ := ih s' h
      have hpre : replaceLoop f s (kv :: pre) = replaceLoop f s' pre := replaceLoop_cons_ok f s kv pre hfs hne
      refine ⟨kv :: pre, kv', post, by rw [hsplit]; rfl, ?_, ?_, ?_⟩
      · rw [hpre]; exact hok
      · rw [hpre]; exact herr
      · rw [hpre]; exact hst

/-! ### what no accessor ever touches: `_strict`; and the index, without any hypothesis on the map -/

theorem containerSetattr_strict (E : ValOps α V P) (s : Store α V P) (n : α) (p : P) :
    (containerSetattr E s n p).1.strict = s.strict := by
  unfold containerSetattr
  split
  · split <;> rfl
  · split <;> rfl

theorem containerWriteAt_strict (E : ValOps α V P) (s : Store α V P) (n : α) (ix p : P) :
    (containerWriteAt E s n ix p).1.strict = s.strict := by
  unfold containerWriteAt
  split
  · rfl
  · split <;> rfl

theorem aliasedSetItem_strict (E : ValOps α V P) (m : AMap α) (s : Store α V P) (n : α) (p : P) :
    (aliasedSetItem E m s n p).1.strict = s.strict ∧ (aliasedSetItem E m s n p).1.index = s.index := by
  unfold aliasedSetItem
  split
  · exact ⟨containerSetattr_strict E s _ p, containerSetattr_index E s _ p⟩
  · exact ⟨rfl, rfl⟩

theorem replaceLoop_strict (f : Store α V P → α → P → Store α V P × Res V P)
    (hf : ∀ s n p, (f s n p).1.strict = s.strict ∧ (f s n p).1.index = s.index) :
    ∀ (kvs : List (α × P)) (s : Store α V P),
      (replaceLoop f s kvs).1.strict = s.strict ∧ (replaceLoop f s kvs).1.index = s.index := by
  intro kvs
  induction kvs with
  | nil => intro s; exact ⟨rfl, rfl⟩
  | cons kv rest ih =>
    intro s
    unfold replaceLoop
    have h1 := hf s kv.1 kv.2
    split
    · rename_i s' e heq; rw [heq] at h1; exact h1
    · rename_i s' r _ heq
      rw [heq] at h1
      exact ⟨(ih s').1.trans h1.1, (ih s').2.trans h1.2⟩

theorem aliased_strict_index (E : ValOps α V P) (m : AMap α) (s : Store α V P) (op : Op α P) :
    (aliased E m s op).1.strict = s.strict ∧ (aliased E m s op).1.index = s.index := by
  cases op with
  | getAttr n => exact ⟨rfl, rfl⟩
  | setAttr n p => exact ⟨containerSetattr_strict E s _ p, containerSetattr_index E s _ p⟩
  | getItem n => exact ⟨rfl, rfl⟩
  | setItem n p => exact aliasedSetItem_strict E m s n p
  | getAt n ix => exact ⟨rfl, rfl⟩
  | setAt n ix p => exact ⟨containerWriteAt_strict E s _ ix p, (containerWriteAt_index E s _ ix p).1⟩
  | replaceValues kvs => exact replaceLoop_strict _ (aliasedSetItem_strict E m) kvs s
  | raw id => exact ⟨rfl, (rawPass_index E s id).1⟩

/-- On an instance map a bulk replacement never touches the attributes (every key it stores under is a series). -/
theorem aliasedSetItem_attrs (E : ValOps α V P) {m : AMap α} (hc : chained m = false) (s : Store α V P) (n : α)
    (p : P) : (aliasedSetItem E m s n p).1.attrs = s.attrs := by
  unfold aliasedSetItem
  split
  · rename_i hin
    simp only [mixinSetattr, resolve_idem hc]
    unfold containerSetattr
    split
    · split <;> rfl
    · rename_i hl
      have : resolve m n ∉ s.index := (lookup_eq_none_iff s.vars _).mp hl
      exact absurd hin this
  · rfl

theorem replaceLoop_attrs (f : Store α V P → α → P → Store α V P × Res V P)
    (hf : ∀ s n p, (f s n p).1.attrs = s.attrs) :
    ∀ (kvs : List (α × P)) (s : Store α V P), (replaceLoop f s kvs).1.attrs = s.attrs := by
  intro kvs
  induction kvs with
  | nil => intro s; rfl
  | cons kv rest ih =>
    intro s
    unfold replaceLoop
    have h1 := hf s kv.1 kv.2
    split
    · rename_i s' e heq; rw [heq] at h1; exact h1
    · rename_i s' r _ heq
      rw [heq] at h1
      exact (ih s').trans h1

/-! ### the plain container is the aliased one with the empty map -/

theorem resolve_nil (x : α) : resolve ([] : AMap α) x = x := rfl

theorem mapName_resolve_nil (op : Op α P) : op.mapName (resolve ([] : AMap α)) = op := by
  cases op with
  | replaceValues kvs =>
    simp only [Op.mapName, resolve_nil]
    congr 1
    induction kvs with
    | nil => rfl
    | cons kv rest ih => simp [ih]
  | _ => rfl

theorem inv_nil {m : AMap α} {s : Store α V P} (h : Inv m s) : Inv ([] : AMap α) s :=
  ⟨h.1, fun _ _ => by simp [keys]⟩

theorem aliased_nil_eq_base (E : ValOps α V P) {m : AMap α} {s : Store α V P} (hinv : Inv m s) (op : Op α P) :
    aliased E ([] : AMap α) s op = base E s op := by
  have h := aliased_eq_base E (m := ([] : AMap α)) (by rfl) (inv_nil hinv) op
  rw [mapName_resolve_nil] at h
  exact h

/-! ### one step of the instance -/

theorem obj_store_eta (o : Obj α V P) : { o with store := o.store } = o := by cases o; rfl

theorem failed_acc {r : Res V P} (h : (XRes.acc r : XRes α V P).failed = true) : ∃ e, r = .err e := by
  cases r with
  | err e => exact ⟨e, rfl⟩
  | done => simp [XRes.failed] at h
  | series v => simp [XRes.failed] at h
  | value p => simp [XRes.failed] at h

/-- The accessor step: the mixin's fields and the name list are not even mentioned; `_strict` and the index stay;
    an error (outside `replace_values`) comes with the instance it started from. -/
theorem accStep_spec (env : Env α V P) (o : Obj α V P) (op : Op α P) :
    (accStep env o op).1.names = o.names ∧ (accStep env o op).1.aliases = o.aliases ∧
    (accStep env o op).1.pref = o.pref ∧ (accStep env o op).1.prefListed = o.prefListed ∧
    (accStep env o op).1.store.index = o.store.index ∧ (accStep env o op).1.store.strict = o.store.strict ∧
    ((accStep env o op).2.failed = true → (∀ kvs, op ≠ .replaceValues kvs) → (accStep env o op).1 = o) := by
  have h := aliased_strict_index env.E o.aliases o.store op
  refine ⟨rfl, rfl, rfl, rfl, h.2, h.1, ?_⟩
  intro hf hb
  obtain ⟨e, he⟩ := failed_acc hf
  have := aliased_err_store env.E o.aliases o.store op hb he
  simp only [accStep, this]

theorem xstep_acc_of_not_setAttr (env : Env α V P) (o : Obj α V P) (op : Op α P) (h : ∀ n p, op ≠ .setAttr n p) :
    xstep env o (.acc op) = accStep env o op := by
  cases op with
  | setAttr n p => exact absurd rfl (h n p)
  | _ => rfl

theorem xstep_setAttr (env : Env α V P) (o : Obj α V P) (n : α) (p : P) :
    xstep env o (.acc (.setAttr n p)) =
      if strictRejects o.store (resolve o.aliases n) then (o, .fail (strictError env o (resolve o.aliases n)))
      else accStep env o (.setAttr n p) := rfl

/-- Every operation, failed or not: the alias map is what it was. -/
theorem xstep_aliases (env : Env α V P) (o : Obj α V P) (op : XOp α P) : (xstep env o op).1.aliases = o.aliases := by
  cases op with
  | acc op =>
    by_cases h : ∃ n p, op = .setAttr n p
    · obtain ⟨n, p, rfl⟩ := h
      rw [xstep_setAttr]; split <;> rfl
    · rw [xstep_acc_of_not_setAttr env o op (fun n p e => h ⟨n, p, e⟩)]; rfl
  | eval free => rfl
  | addVariable n v =>
    simp only [xstep, addVariableStep]
    cases addVariableCheck env o.store n v <;> rfl
  | setPref l => simp only [xstep]; split <;> rfl
  | «export» ua => rfl
  | closestMatch n => rfl

theorem xrun_aliases (env : Env α V P) : ∀ (ops : List (XOp α P)) (o : Obj α V P),
    (xrun env o ops).1.aliases = o.aliases := by
  intro ops
  induction ops with
  | nil => intro o; rfl
  | cons op ops ih => intro o; exact (ih _).trans (xstep_aliases env o op)

/-! ### the plain twin -/

def XOp.twinnable : XOp α P → Bool
  | .setPref _ => false
  | .export true => false
  | _ => true

/-- `p` is `o` without the mixin: same container state, same name list, no alias. -/
def Twin (a : AMap α) (o p : Obj α V P) : Prop :=
  p.store = o.store ∧ p.names = o.names ∧ p.aliases = [] ∧ o.aliases = a

theorem inv_addVariable {m : AMap α} {s : Store α V P} (hinv : Inv m s) {n : α} (hn : n ∉ s.attrNames) (ser : V) :
    Inv m { s with vars := s.vars ++ [(n, ser)] } := by
  refine ⟨?_, hinv.2⟩
  intro x hx
  have h1 := hinv.1 x hx
  simp only [Store.index, List.map_append, List.map_cons, List.map_nil, List.mem_append, List.mem_singleton] at h1 ⊢
  rintro (h | h)
  · exact h1 h
  · exact hn (h ▸ hx)

theorem twin_step (env : Env α V P) {a : AMap α} (hc : chained a = false) {o p : Obj α V P} (ht : Twin a o p)
    (hinv : Inv a o.store) (op : XOp α P) (htw : op.twinnable = true) :
    (xstep env o op).2 = (xstep env p (op.mapName (resolve a))).2 ∧
    Twin a (xstep env o op).1 (xstep env p (op.mapName (resolve a))).1 ∧ Inv a (xstep env o op).1.store := by
  obtain ⟨hs, hn, hpa, hoa⟩ := ht
  have hacc : ∀ op' : Op α P, aliased env.E p.aliases p.store (op'.mapName (resolve a)) = aliased env.E a o.store op' := by
    intro op'
    rw [hpa, hs, aliased_nil_eq_base env.E hinv, aliased_eq_base env.E hc hinv]
  have haccStep : ∀ op' : Op α P, (accStep env o op').2 = (accStep env p (op'.mapName (resolve a))).2 ∧
      Twin a (accStep env o op').1 (accStep env p (op'.mapName (resolve a))).1 ∧ Inv a (accStep env o op').1.store := by
    intro op'
    have h := hacc op'
    refine ⟨?_, ⟨?_, hn, hpa, hoa⟩, ?_⟩
    · simp only [accStep, h, hoa]
    · simp only [accStep, h, hoa]
    · simp only [accStep, hoa]
      exact hinv.of_reach (aliased_reach env.E a hc o.store op')
  cases op with
  | acc op' =>
    cases op' with
    | setAttr n v =>
      simp only [XOp.mapName, Op.mapName, xstep_setAttr, hpa, resolve_nil, hoa, hs]
      have hsug : strictError env p (resolve a n) = strictError env o (resolve a n) := by
        simp [strictError, suggest, hn]
      by_cases hr : strictRejects o.store (resolve a n) = true
      · simp only [hr, if_true, hsug]
        exact ⟨by first | rfl | trivial, ⟨hs, hn, hpa, hoa⟩, hinv⟩
      · simp only [hr]
        exact haccStep (.setAttr n v)
    | getAttr n => exact haccStep (.getAttr n)
    | getItem n => exact haccStep (.getItem n)
    | setItem n v => exact haccStep (.setItem n v)
    | getAt n ix => exact haccStep (.getAt n ix)
    | setAt n ix v => exact haccStep (.setAt n ix v)
    | replaceValues kvs => exact haccStep (.replaceValues kvs)
    | raw id => exact haccStep (.raw id)
  | eval free =>
    simp only [XOp.mapName, xstep, hs]
    exact ⟨by first | rfl | trivial, ⟨hs, hn, hpa, hoa⟩, hinv⟩
  | addVariable n v =>
    simp only [XOp.mapName, xstep, addVariableStep, hs, hn]
    cases hchk : addVariableCheck env o.store n v with
    | error e => exact ⟨by first | rfl | trivial, ⟨hs, hn, hpa, hoa⟩, hinv⟩
    | ok ser =>
      refine ⟨by first | rfl | trivial, ⟨rfl, rfl, hpa, hoa⟩, ?_⟩
      have hna : n ∉ o.store.attrNames := by
        intro h
        unfold addVariableCheck at hchk
        rw [if_pos (Or.inr (Or.inl h))] at hchk
        cases hchk
      exact inv_addVariable hinv hna _
  | setPref l => simp [XOp.twinnable] at htw
  | «export» ua =>
    cases ua with
    | true => simp [XOp.twinnable] at htw
    | false =>
      simp only [XOp.mapName, xstep, exportRes, frameLabels, hn]
      exact ⟨by simp, ⟨hs, hn, hpa, hoa⟩, hinv⟩
  | closestMatch n =>
    simp only [XOp.mapName, xstep, suggest, hn]
    exact ⟨by first | rfl | trivial, ⟨hs, hn, hpa, hoa⟩, hinv⟩

theorem twin_run (env : Env α V P) {a : AMap α} (hc : chained a = false) :
    ∀ (ops : List (XOp α P)) {o p : Obj α V P}, Twin a o p → Inv a o.store →
      (∀ op ∈ ops, op.twinnable = true) →
      (xrun env o ops).2 = (xrun env p (ops.map (XOp.mapName (resolve a)))).2 ∧
      Twin a (xrun env o ops).1 (xrun env p (ops.map (XOp.mapName (resolve a)))).1 := by
  intro ops
  induction ops with
  | nil => intro o p ht _ _; exact ⟨rfl, ht⟩
  | cons op ops ih =>
    intro o p ht hinv htw
    obtain ⟨h1, h2, h3⟩ := twin_step env hc ht hinv op (htw op List.mem_cons_self)
    obtain ⟨h4, h5⟩ := ih h2 h3 (fun x hx => htw x (List.mem_cons_of_mem _ hx))
    simp only [xrun, List.map_cons]
    exact ⟨by rw [h1, h4], h5⟩

end Fsic.Alias
