import Proofs.Lemmas.Heap
/-
Allocation discipline of the constructors (`construct`): every object `__init__` creates is new and refers only to
new objects; the instance `__dict__` refers to new objects, to the constructor arguments, and — under the keys
`endogenous` / `check` — to the class-level lists.
-/
set_option linter.unusedSimpArgs false
set_option linter.unusedVariables false
namespace Fsic.Heap

/-! ### Heap extension -/

def Ext (h h1 : Heap) : Prop := ∃ ext, h1 = h ++ ext

theorem Ext.refl (h : Heap) : Ext h h := ⟨[], by simp⟩
theorem Ext.trans {a b c : Heap} (h1 : Ext a b) (h2 : Ext b c) : Ext a c := by
  obtain ⟨e1, rfl⟩ := h1
  obtain ⟨e2, rfl⟩ := h2
  exact ⟨e1 ++ e2, by simp⟩
theorem Ext.append (h ext : Heap) : Ext h (h ++ ext) := ⟨ext, rfl⟩
theorem Ext.len {h h1 : Heap} (e : Ext h h1) : h.length ≤ h1.length := by
  obtain ⟨e1, rfl⟩ := e; simp
theorem Ext.get {h h1 : Heap} (e : Ext h h1) {x : Nat} (hx : x < h.length) : h1[x]? = h[x]? := by
  obtain ⟨e1, rfl⟩ := e; exact getElem?_append_lt h e1 hx
theorem Ext.get_some {h h1 : Heap} (e : Ext h h1) {x : Nat} {o : Obj} (ho : h[x]? = some o) : h1[x]? = some o := by
  rw [e.get (getElem?_lt ho)]; exact ho

/-- Objects from position `b` upwards refer only to positions in `[b, length)`. -/
def Blk (b : Nat) (h : Heap) : Prop :=
  ∀ (l : Nat) (o : Obj) (k : String) (c : Nat), b ≤ l → h[l]? = some o → (k, Val.ref c) ∈ o.slots →
    b ≤ c ∧ c < h.length

/-- A value that is immutable or a reference into `[b, length)`. -/
def NewV (b : Nat) (h : Heap) (v : Val) : Prop := ∀ c, v = .ref c → b ≤ c ∧ c < h.length

theorem NewV.imm (b : Nat) (h : Heap) (i : Imm) : NewV b h (.imm i) := by intro c hc; cases hc

theorem NewV.mono {b : Nat} {h h1 : Heap} {v : Val} (e : Ext h h1) (n : NewV b h v) : NewV b h1 v := by
  intro c hc
  have := n c hc
  have := e.len
  omega

theorem NewV.ref {b : Nat} {h : Heap} {c : Nat} (h1 : b ≤ c) (h2 : c < h.length) : NewV b h (.ref c) := by
  intro c' hc; cases hc; exact ⟨h1, h2⟩

/-- Appending objects whose references stay inside `[b, new length)` keeps the block invariant. -/
theorem Blk.append {b : Nat} {h : Heap} (B : Blk b h) (ext : Heap)
    (hext : ∀ e, e ∈ ext → ∀ k c, (k, Val.ref c) ∈ e.slots → b ≤ c ∧ c < h.length + ext.length) :
    Blk b (h ++ ext) := by
  intro l o k c hl ho hm
  simp only [List.length_append]
  by_cases hlt : l < h.length
  · rw [getElem?_append_lt h ext hlt] at ho
    have := B l o k c hl ho hm
    omega
  · rw [List.getElem?_append_right (by omega)] at ho
    exact hext o (List.mem_of_getElem? ho) k c hm

/-- Everything reachable from a location in the block stays in the block. -/
theorem Blk.reach {b : Nat} {h : Heap} (B : Blk b h) {a x : Nat} (ha : b ≤ a) (r : Reach h a x) : b ≤ x := by
  induction r with
  | refl => exact ha
  | step _ ho hm ih => exact (B _ _ _ _ ih ho hm).1

/-- A well-formed old part plus a closed block is well-formed. -/
theorem wf_of_blk {h0 h : Heap} (wf0 : WF h0) (e : Ext h0 h) (B : Blk h0.length h) : WF h := by
  intro l o k c ho hm
  by_cases hl : l < h0.length
  · rw [e.get hl] at ho
    have := wf0 l o k c ho hm
    have := e.len
    omega
  · exact (B l o k c (by omega) ho hm).2

/-! ### Slot helpers -/

theorem seqSlotsFrom_imm (i : Nat) (xs : List Imm) :
    ∀ k c, (k, Val.ref c) ∉ seqSlotsFrom i (xs.map Val.imm) := by
  induction xs generalizing i with
  | nil => intro k c hm; simp [seqSlotsFrom] at hm
  | cons x xs ih =>
    intro k c hm
    simp only [List.map_cons, seqSlotsFrom] at hm
    rcases List.mem_cons.mp hm with h1 | h1
    · cases h1
    · exact ih (i + 1) k c h1

theorem strList_norefs (xs : List String) : ∀ k c, (k, Val.ref c) ∉ (strList xs).slots := by
  intro k c hm
  have : xs.map (fun s => Val.imm (.str s)) = (xs.map Imm.str).map Val.imm := by simp
  simp only [strList, seqSlots, this] at hm
  exact seqSlotsFrom_imm 0 _ k c hm

theorem cellArray_norefs (n : Nat) (v : Imm) : ∀ k c, (k, Val.ref c) ∉ (cellArray n v).slots := by
  intro k c hm
  have : List.replicate n (Val.imm v) = (List.replicate n v).map Val.imm := by simp
  simp only [cellArray, seqSlots, this] at hm
  exact seqSlotsFrom_imm 0 _ k c hm

theorem mem_seqSlotsFrom {i : Nat} {vs : List Val} {k : String} {v : Val} (hm : (k, v) ∈ seqSlotsFrom i vs) :
    v ∈ vs := by
  induction vs generalizing i with
  | nil => simp [seqSlotsFrom] at hm
  | cons x xs ih =>
    simp only [seqSlotsFrom] at hm
    rcases List.mem_cons.mp hm with h1 | h1
    · cases h1; exact List.mem_cons_self
    · exact List.mem_cons_of_mem _ (ih h1)

/-! ### Class-level objects -/

/-- The class-level lists / dicts hold only immutable entries (strings), and the class pseudo-object is valid. -/
structure ClassOK (h : Heap) (cd : ClassDesc) : Prop where
  valid : cd.attrs < h.length
  leaf : ∀ (k : String) (o : Obj), getObj h (classAttr h cd k) = some o → ∀ k' c, (k', Val.ref c) ∉ o.slots

theorem classAttr_ext {h0 h : Heap} (wf0 : WF h0) (e : Ext h0 h) {cd : ClassDesc} (ok : ClassOK h0 cd) (k : String) :
    classAttr h cd k = classAttr h0 cd k := by
  simp only [classAttr, e.get ok.valid]

theorem classAttr_valid {h0 : Heap} (wf0 : WF h0) {cd : ClassDesc} (ok : ClassOK h0 cd) (k : String) (c : Nat)
    (hc : classAttr h0 cd k = .ref c) : c < h0.length := by
  unfold classAttr at hc
  cases ho : h0[cd.attrs]? with
  | none => simp [ho] at hc
  | some o =>
    simp only [ho] at hc
    cases hl : o.slots.lookup k with
    | none => simp [hl] at hc
    | some v =>
      simp [hl] at hc
      subst hc
      exact wf0 _ _ _ _ ho (lookup_mem _ _ _ hl)

theorem getObj_classAttr_ext {h0 h : Heap} (wf0 : WF h0) (e : Ext h0 h) {cd : ClassDesc} (ok : ClassOK h0 cd)
    (k : String) : getObj h (classAttr h cd k) = getObj h0 (classAttr h0 cd k) := by
  rw [classAttr_ext wf0 e ok]
  cases hv : classAttr h0 cd k with
  | imm i => rfl
  | ref c => simp only [getObj]; exact e.get (classAttr_valid wf0 ok k c hv)

theorem freshCopyOf_norefs' {h0 h : Heap} (wf0 : WF h0) (e : Ext h0 h) {cd : ClassDesc} (ok : ClassOK h0 cd)
    (k : String) (dflt : Kind) : ∀ k' c, (k', Val.ref c) ∉ (freshCopyOf h (classAttr h0 cd k) dflt).slots := by
  intro k' c hm
  unfold freshCopyOf at hm
  have : getObj h (classAttr h0 cd k) = getObj h0 (classAttr h0 cd k) := by
    rw [← getObj_classAttr_ext wf0 e ok, classAttr_ext wf0 e ok]
  rw [this] at hm
  cases ho : getObj h0 (classAttr h0 cd k) with
  | none => simp [ho] at hm
  | some o => simp only [ho] at hm; exact ok.leaf k o ho k' c hm

theorem freshCopyOf_norefs {h0 h : Heap} (wf0 : WF h0) (e : Ext h0 h) {cd : ClassDesc} (ok : ClassOK h0 cd)
    (k : String) (dflt : Kind) : ∀ k' c, (k', Val.ref c) ∉ (freshCopyOf h (classAttr h cd k) dflt).slots := by
  intro k' c hm
  unfold freshCopyOf at hm
  rw [getObj_classAttr_ext wf0 e ok] at hm
  cases ho : getObj h0 (classAttr h0 cd k) with
  | none => simp [ho] at hm
  | some o => simp only [ho] at hm; exact ok.leaf k o ho k' c hm

/-! ### The stages of `construct` -/

/-- What a constructor stage guarantees: the heap is extended by a closed block, and every entry it contributes to
    the instance `__dict__` is new (or a constructor argument, itself required to be new). -/
structure StageOK (b : Nat) (h0 : Heap) (cd : ClassDesc) (h : Heap) (r : Heap × List (String × Val)) : Prop where
  ext : Ext h r.1
  blk : Blk b r.1
  slots : ∀ k v, (k, v) ∈ r.2 → NewV b r.1 v

theorem thread_ok {b : Nat} {h0 : Heap} {cd : ClassDesc} {h : Heap} {f : Heap → Heap × List (String × Val)}
    {acc : Heap × List (String × Val)} (A : StageOK b h0 cd h acc) (F : StageOK b h0 cd acc.1 (f acc.1)) :
    StageOK b h0 cd h (thread f acc) := by
  unfold thread
  refine ⟨A.ext.trans F.ext, F.blk, ?_⟩
  intro k v hm
  simp only [List.mem_append] at hm
  rcases hm with h1 | h1
  · exact (A.slots k v h1).mono F.ext
  · exact F.slots k v h1

theorem allocTraces_ok {b : Nat} : ∀ (n : Nat) (h : Heap), Blk b h → b ≤ h.length →
    Ext h (allocTraces n h).1 ∧ Blk b (allocTraces n h).1 ∧
    ∀ v, v ∈ (allocTraces n h).2 → NewV b (allocTraces n h).1 v := by
  intro n
  induction n with
  | zero => intro h B hb; exact ⟨Ext.refl h, B, by intro v hv; simp [allocTraces] at hv⟩
  | succ n ih =>
    intro h B hb
    obtain ⟨e1, B1, V1⟩ := ih h B hb
    simp only [allocTraces]
    generalize allocTraces n h = r at e1 B1 V1
    obtain ⟨h1, vs⟩ := r
    simp only at e1 B1 V1 ⊢
    have hb1 : b ≤ h1.length := by have := e1.len; omega
    refine ⟨e1.trans (Ext.append _ _), ?_, ?_⟩
    · apply B1.append
      intro e he k c hm
      simp at he
      rcases he with rfl | rfl | rfl
      · simp at hm
      · simp at hm
      · simp at hm
        rcases hm with ⟨_, rfl⟩ | ⟨_, rfl⟩ | ⟨_, rfl⟩ <;> exact ⟨by omega, by simp⟩
    · intro v hv
      simp only [List.mem_append, List.mem_singleton] at hv
      rcases hv with h2 | rfl
      · exact (V1 v h2).mono (Ext.append _ _)
      · exact NewV.ref (by omega) (by simp)

theorem allocVars_ok {b : Nat} (n : Nat) : ∀ (xs : List String) (h : Heap), Blk b h → b ≤ h.length →
    Ext h (allocVars n xs h).1 ∧ Blk b (allocVars n xs h).1 ∧
    ∀ k v, (k, v) ∈ (allocVars n xs h).2 → NewV b (allocVars n xs h).1 v := by
  intro xs
  induction xs with
  | nil => intro h B hb; exact ⟨Ext.refl h, B, by intro k v hv; simp [allocVars] at hv⟩
  | cons x xs ih =>
    intro h B hb
    have B' : Blk b (h ++ [cellArray n (.int 0)]) := by
      apply B.append
      intro e he k c hm
      simp at he; subst he
      exact absurd hm (cellArray_norefs _ _ k c)
    obtain ⟨e1, B1, V1⟩ := ih (h ++ [cellArray n (.int 0)]) B' (by simp; omega)
    simp only [allocVars]
    generalize allocVars n xs (h ++ [cellArray n (.int 0)]) = r at e1 B1 V1
    obtain ⟨h1, ss⟩ := r
    simp only at e1 B1 V1 ⊢
    refine ⟨(Ext.append _ _).trans e1, B1, ?_⟩
    intro k v hm
    rcases List.mem_cons.mp hm with h2 | h2
    · cases h2
      have := e1.len
      simp at this
      exact NewV.ref hb (by omega)
    · exact V1 k v h2

section stages
variable {b : Nat} {h0 h : Heap} {cd : ClassDesc} (wf0 : WF h0) (e0 : Ext h0 h) (ok : ClassOK h0 cd)
  (B : Blk b h) (hb : b ≤ h.length)
include wf0 e0 ok B hb

theorem stageAlias_ok : StageOK b h0 cd h (stageAlias cd h) := by
  unfold stageAlias
  by_cases ha : cd.alias = true
  · simp only [ha, if_true]
    refine ⟨Ext.append _ _, ?_, ?_⟩
    · apply B.append
      intro e he k c hm
      simp at he
      rcases he with rfl | rfl
      · exact absurd hm (freshCopyOf_norefs wf0 e0 ok _ _ k c)
      · exact absurd hm (freshCopyOf_norefs wf0 e0 ok _ _ k c)
    · intro k v hm
      simp at hm
      rcases hm with ⟨_, rfl⟩ | ⟨_, rfl⟩
      · exact (NewV.ref hb (by simp))
      · exact (NewV.ref (by omega) (by simp))
  · simp only [ha]
    exact ⟨Ext.refl h, B, by intro k v hm; simp at hm⟩

theorem stageLinker_ok (sub : Val) (hsub : NewV b h sub) : StageOK b h0 cd h (stageLinker cd sub h) := by
  unfold stageLinker
  by_cases hl : cd.base = .linker
  · simp only [hl, if_true]
    cases sub with
    | imm i =>
      refine ⟨Ext.append _ _, ?_, ?_⟩
      · apply B.append
        intro e he k c hm
        simp at he; subst he; simp at hm
      · intro k v hm
        simp at hm
        rcases hm with ⟨_, rfl⟩ | ⟨_, rfl⟩ | ⟨_, rfl⟩ | ⟨_, rfl⟩
        · exact NewV.ref hb (by simp)
        · exact NewV.imm _ _ _
        · exact NewV.imm _ _ _
        · exact NewV.imm _ _ _
    | ref l =>
      refine ⟨Ext.refl h, B, ?_⟩
      intro k v hm
      simp at hm
      rcases hm with ⟨_, rfl⟩ | ⟨_, rfl⟩ | ⟨_, rfl⟩ | ⟨_, rfl⟩
      · exact hsub
      · exact NewV.imm _ _ _
      · exact NewV.imm _ _ _
      · exact NewV.imm _ _ _
  · simp only [hl]
    exact ⟨Ext.refl h, B, by intro k v hm; simp at hm⟩

theorem stageContainer_ok (names : List String) (span : Val) (hspan : NewV b h span) :
    StageOK b h0 cd h (stageContainer cd names span h) := by
  unfold stageContainer
  refine ⟨Ext.append _ _, ?_, ?_⟩
  · apply B.append
    intro e he k c hm
    simp at he
    rcases he with rfl | rfl
    · exact absurd hm (strList_norefs _ k c)
    · exact absurd hm (strList_norefs _ k c)
  · intro k v hm
    simp at hm
    rcases hm with ⟨_, rfl⟩ | ⟨_, rfl⟩ | ⟨_, rfl⟩ | ⟨_, rfl⟩
    · exact (hspan.mono (Ext.append _ _))
    · exact (NewV.ref hb (by simp))
    · exact (NewV.imm _ _ _)
    · exact (NewV.ref (by omega) (by simp))

theorem stageInterface_ok (names : List String) (n : Nat) : StageOK b h0 cd h (stageInterface cd names n h) := by
  unfold stageInterface
  by_cases hc : cd.base = .container
  · simp only [hc, if_true]
    exact ⟨Ext.refl h, B, by intro k v hm; simp at hm⟩
  · simp only [hc, if_false]
    have B' : Blk b (h ++ [cellArray n (.str "-"), cellArray n (.int (-1)), strList names]) := by
      apply B.append
      intro e he k c hm
      simp at he
      rcases he with rfl | rfl | rfl
      · exact absurd hm (cellArray_norefs _ _ k c)
      · exact absurd hm (cellArray_norefs _ _ k c)
      · exact absurd hm (strList_norefs _ k c)
    obtain ⟨e1, B1, V1⟩ := allocVars_ok n names _ B' (by simp; omega)
    generalize allocVars n names (h ++ [cellArray n (.str "-"), cellArray n (.int (-1)), strList names]) = r
      at e1 B1 V1
    obtain ⟨h1, vars⟩ := r
    simp only at e1 B1 V1 ⊢
    have hlen := e1.len
    simp at hlen
    show StageOK b h0 cd h (h1, _)
    refine ⟨(Ext.append _ _).trans e1, B1, ?_⟩
    intro k v hm
    show NewV b h1 v
    simp only [List.mem_append] at hm
    rcases hm with (h2 | h2) | h2
    · simp at h2
      rcases h2 with ⟨_, rfl⟩ | ⟨_, rfl⟩ | ⟨_, rfl⟩ | ⟨_, rfl⟩
      · exact (NewV.imm _ _ _)
      · exact (NewV.ref hb (by omega))
      · exact (NewV.ref (by omega) (by omega))
      · exact (NewV.ref (by omega) (by omega))
    · exact (V1 k v h2)
    · simp at h2
      rcases h2 with ⟨_, rfl⟩ | ⟨_, rfl⟩ <;> exact (NewV.imm _ _ _)

theorem stageModel_ok : StageOK b h0 cd h
    (stageModel cd (classAttr h0 cd "ENDOGENOUS") (classAttr h0 cd "CHECK") h) := by
  unfold stageModel
  by_cases hc : cd.base = .container
  · simp only [hc, if_true]
    exact ⟨Ext.refl h, B, by intro k v hm; simp at hm⟩
  · simp only [hc, if_false]
    refine ⟨Ext.append _ _, ?_, ?_⟩
    · apply B.append
      intro e he k c hm
      simp at he
      rcases he with rfl | rfl
      · exact absurd hm (freshCopyOf_norefs' wf0 e0 ok _ _ k c)
      · exact absurd hm (freshCopyOf_norefs' wf0 e0 ok _ _ k c)
    · intro k v hm
      rcases List.mem_append.mp hm with h2 | h2
      · simp at h2
        rcases h2 with ⟨_, rfl⟩ | ⟨_, rfl⟩
        · exact (NewV.ref hb (by simp))
        · exact (NewV.ref (by omega) (by simp))
      · by_cases hm' : cd.base = .model
        · simp [hm'] at h2; rcases h2 with ⟨_, rfl⟩; exact (NewV.imm _ _ _)
        · simp [hm'] at h2

theorem stageTracer_ok (n : Nat) : StageOK b h0 cd h (stageTracer cd n h) := by
  unfold stageTracer
  by_cases ht : cd.tracer = true
  · simp only [ht, if_true]
    obtain ⟨e1, B1, V1⟩ := allocTraces_ok (b := b) n h B hb
    generalize allocTraces n h = r at e1 B1 V1
    obtain ⟨h1, ts⟩ := r
    simp only at e1 B1 V1 ⊢
    have := e1.len
    refine ⟨e1.trans (Ext.append _ _), ?_, ?_⟩
    · apply B1.append
      intro e he k c hm
      simp at he; subst he
      have hv := V1 _ (mem_seqSlotsFrom hm) c rfl
      simp; omega
    · intro k v hm
      simp at hm
      rcases hm with ⟨_, rfl⟩
      exact (NewV.ref (by omega) (by simp))
  · simp only [ht]
    exact ⟨Ext.refl h, B, by intro k v hm; simp at hm⟩

end stages

/-- `construct`: the heap grows by a closed block; every `__dict__` entry is new, a constructor argument, or one of
    nothing else. -/
theorem construct_ok {b : Nat} {h0 h : Heap} {cd : ClassDesc} (wf0 : WF h0) (e0 : Ext h0 h) (ok : ClassOK h0 cd)
    (B : Blk b h) (hb : b ≤ h.length) (span sub : Val) (hspan : NewV b h span) (hsub : NewV b h sub) :
    StageOK b h0 cd h (construct cd h span sub) := by
  unfold construct
  have S0 : StageOK b h0 cd h (h, []) := ⟨Ext.refl h, B, by intro k v hm; simp at hm⟩
  have S1 := thread_ok S0 (stageAlias_ok wf0 e0 ok B hb)
  have l1 := S1.ext.len
  have S2 := thread_ok S1
    (stageLinker_ok wf0 (e0.trans S1.ext) ok S1.blk (by omega) sub (hsub.mono S1.ext))
  have l2 := S2.ext.len
  have S3 := thread_ok S2
    (stageContainer_ok wf0 (e0.trans S2.ext) ok S2.blk (by omega) (modelNames h cd) span (hspan.mono S2.ext))
  have l3 := S3.ext.len
  have S4 := thread_ok S3
    (stageInterface_ok wf0 (e0.trans S3.ext) ok S3.blk (by omega) (modelNames h cd) (spanLen h span))
  have l4 := S4.ext.len
  have S5 := thread_ok S4 (by
    have := stageModel_ok wf0 (e0.trans S4.ext) ok S4.blk (by omega)
    rwa [← classAttr_ext wf0 e0 ok, ← classAttr_ext wf0 e0 ok] at this)
  have l5 := S5.ext.len
  exact thread_ok S5 (stageTracer_ok wf0 (e0.trans S5.ext) ok S5.blk (by omega) (spanLen h span))

end Fsic.Heap
