import FsicModel.AliasClass
import Proofs.Lemmas.AliasPref
/-
Helper lemmas for C18, export with options and class hierarchies: the export is `renameDf` with a label map that
does not depend on the frame; MRO look-up does not depend on the fuel once it exceeds the class index; event
histories only ever append constructor outcomes and `new` never touches the class-level state.
-/
set_option linter.unusedSectionVars false
set_option linter.unusedSimpArgs false
namespace Fsic.Alias
variable {α : Type} [DecidableEq α]

/-! ### export -/

theorem exportCols_eq_renamer {δ : Type} (le : α → α → Bool) (m : AMap α) (pref : List α) (cols : List (α × δ)) :
    exportCols le m pref cols = (renamer le m pref).map fun f => renameDf f cols := by
  unfold exportCols renamer
  split
  · rfl
  · simp [exportPref, Option.map_map, Function.comp_def]

theorem renameDf_append {δ : Type} (f : α → α) (a b : List (α × δ)) :
    renameDf f (a ++ b) = renameDf f a ++ renameDf f b := by
  simp [renameDf]

theorem renameDf_snd {δ : Type} (f : α → α) (cols : List (α × δ)) :
    (renameDf f cols).map Prod.snd = cols.map Prod.snd := by
  simp [renameDf, List.map_map, Function.comp_def]

theorem renameDf_filter_tagged {δ : Type} (f : α → α) (keep : α → Bool) (cols : List (α × δ)) :
    renameDf f (cols.filter fun c => keep c.1) =
      ((renameDf f (cols.map fun c => (c.1, c))).filter fun c => keep c.2.1).map fun c => (c.1, c.2.2) := by
  induction cols with
  | nil => rfl
  | cons c cols ih =>
    simp only [renameDf, List.map_cons, List.filter_cons] at ih ⊢
    by_cases hk : keep c.1 = true
    · simp [hk, ih]
    · simp [hk, ih]

/-! ### MRO look-up -/

/-- A parent is defined before its child (Python: the base class expression is evaluated first). -/
def TableWF (tbl : List (ClassDecl α)) : Prop :=
  ∀ (c : Nat) (d : ClassDecl α) (p : Nat), tbl[c]? = some d → d.parent = some p → p < c

theorem lookupAttr_succ {β : Type} (sel : ClassDecl α → Option β) (tbl : List (ClassDecl α)) (fuel c : Nat) :
    lookupAttr sel tbl (fuel + 1) c =
      match tbl[c]? with
      | none => none
      | some d =>
        match sel d with
        | some x => some (c, x)
        | none =>
          match d.parent with
          | none => none
          | some p => lookupAttr sel tbl fuel p := rfl

theorem lookupAttr_fuel {β : Type} (sel : ClassDecl α → Option β) {tbl : List (ClassDecl α)} (hwf : TableWF tbl) :
    ∀ fuel c, c < fuel → lookupAttr sel tbl fuel c = lookupAttr sel tbl (c + 1) c := by
  intro fuel
  induction fuel using Nat.strongRecOn with
  | _ fuel ih =>
    intro c hc
    obtain ⟨f, rfl⟩ : ∃ f, fuel = f + 1 := ⟨fuel - 1, by omega⟩
    rw [lookupAttr_succ, lookupAttr_succ]
    cases hd : tbl[c]? with
    | none => rfl
    | some d =>
      simp only []
      cases sel d with
      | some x => rfl
      | none =>
        simp only []
        cases hp : d.parent with
        | none => rfl
        | some p =>
          simp only []
          have hpc := hwf c d p hd hp
          rw [ih f (by omega) p (by omega)]
          by_cases hcp : c = p + 1
          · rw [hcp]
          · rw [ih c (by omega) p (by omega)]

theorem TableWF.append {tbl : List (ClassDecl α)} (h : TableWF tbl) {d : ClassDecl α}
    (hd : ∀ p, d.parent = some p → p < tbl.length) : TableWF (tbl ++ [d]) := by
  intro c d' p hc hp
  by_cases hlt : c < tbl.length
  · rw [List.getElem?_append_left hlt] at hc
    exact h c d' p hc hp
  · have hge : tbl.length ≤ c := by omega
    rw [List.getElem?_append_right hge] at hc
    have : c - tbl.length = 0 := by
      apply Classical.byContradiction
      intro hne
      obtain ⟨k, hk⟩ : ∃ k, c - tbl.length = k + 1 := ⟨c - tbl.length - 1, by omega⟩
      rw [hk] at hc
      simp at hc
    rw [this] at hc
    simp at hc
    subst hc
    have := hd p hp
    omega

theorem getElem?_setAt {β : Type} (l : List β) (i : Nat) (f : β → β) (j : Nat) :
    (setAt l i f)[j]? = if j = i then l[j]?.map f else l[j]? := by
  induction l generalizing i j with
  | nil => cases i <;> simp [setAt]
  | cons x l ih =>
    cases i with
    | zero =>
      cases j with
      | zero => simp [setAt]
      | succ j => simp [setAt]
    | succ i =>
      cases j with
      | zero => simp [setAt]
      | succ j => simp [setAt, ih]

theorem length_setAt {β : Type} (l : List β) (i : Nat) (f : β → β) : (setAt l i f).length = l.length := by
  induction l generalizing i with
  | nil => cases i <;> rfl
  | cons x l ih => cases i <;> simp [setAt, ih]

/-- Changing entries of a class that keep its `parent` keeps the table well-formed. -/
theorem TableWF.setAt {tbl : List (ClassDecl α)} (h : TableWF tbl) (i : Nat) (f : ClassDecl α → ClassDecl α)
    (hf : ∀ d, (f d).parent = d.parent) : TableWF (Fsic.Alias.setAt tbl i f) := by
  intro c d p hc hp
  rw [getElem?_setAt] at hc
  split at hc
  · cases hd : tbl[c]? with
    | none => rw [hd] at hc; cases hc
    | some d0 =>
      rw [hd] at hc
      simp at hc
      subst hc
      rw [hf] at hp
      exact h c d0 p hd hp
  · exact h c d p hc hp

/-! ### histories -/

theorem runEvents_append (w : World α) (es fs : List (Event α)) :
    runEvents w (es ++ fs) = runEvents (runEvents w es) fs := by
  induction es generalizing w with
  | nil => rfl
  | cons e es ih => exact ih (step w e)

theorem stepInsts_prefix (w : World α) (e : Event α) : ∃ l, stepInsts w e = w.insts ++ l := by
  cases e <;> first | exact ⟨_, rfl⟩ | exact ⟨[], by simp [stepInsts]⟩

theorem runEvents_insts_prefix (w : World α) (es : List (Event α)) : ∃ l, (runEvents w es).insts = w.insts ++ l := by
  induction es generalizing w with
  | nil => exact ⟨[], by simp [runEvents]⟩
  | cons e es ih =>
    obtain ⟨l1, h1⟩ := stepInsts_prefix w e
    obtain ⟨l2, h2⟩ := ih (step w e)
    refine ⟨l1 ++ l2, ?_⟩
    show (runEvents (step w e) es).insts = _
    rw [h2]
    show stepInsts w e ++ l2 = _
    rw [h1, List.append_assoc]

theorem runEvents_cls (w : World α) (es : List (Event α)) :
    (runEvents w es).cls = es.foldl stepClasses w.cls := by
  induction es generalizing w with
  | nil => rfl
  | cons e es ih => exact ih (step w e)

theorem foldl_stepClasses_filter (cs : Classes α) (es : List (Event α)) :
    es.foldl stepClasses cs = (es.filter fun e => !e.isNew).foldl stepClasses cs := by
  induction es generalizing cs with
  | nil => rfl
  | cons e es ih =>
    cases e <;> simp [List.filter_cons, Event.isNew, stepClasses, ih]

end Fsic.Alias
