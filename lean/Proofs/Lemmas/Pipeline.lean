import Proofs.C13
import Proofs.Lemmas.ParserReject
import FsicModel.Pipeline
set_option linter.unusedSimpArgs false
set_option linter.unusedVariables false
/-
Interface lemmas between M2 (`FsicModel/Lexer.lean`) and M3 (`FsicModel/Parser.lean`) for the composed
`Pipeline.parseModelText`: what M2 emits always satisfies the guard (`WellIndexed`) under which M3's rejection
theorem was proved, and M2's `parsed` results always carry two successfully formatted strings.
-/
namespace Fsic.Pipeline
open Fsic

/-! ## M2 side -/

/-- Index discipline of `process_term_match`: functions and keywords carry no index, every other term does. -/
def TermOk (t : Lx.Term) : Prop :=
  ((t.kind = .function ∨ t.kind = .keyword) → t.index = .none) ∧
  (¬ (t.kind = .function ∨ t.kind = .keyword) → t.index ≠ .none)

theorem indexOf_ok (k : Lx.Kind) (raw : Option (List Char)) (ix : Lx.Index) (h : Lx.indexOf k raw = some ix) :
    TermOk ⟨k, [], ix⟩ := by
  unfold Lx.indexOf at h
  split at h
  · rename_i hk
    simp at h; subst h
    simp at hk
    exact ⟨fun _ => rfl, fun hn => absurd hk hn⟩
  · rename_i hk
    simp at hk
    have hk' : ¬ (k = .function ∨ k = .keyword) := by
      intro h'; rcases h' with h' | h'
      · exact hk.1 h'
      · exact hk.2 h'
    refine ⟨fun h' => absurd h' hk', fun _ => ?_⟩
    split at h
    · simp at h; subst h; simp
    · split at h
      · simp at h; subst h; simp
      · split at h
        · simp at h; subst h; simp
        · split at h
          · simp at h; subst h; simp
          · cases h

theorem termsOf_ok : ∀ (ms : List Lx.RawMatch) (ts : List Lx.Term), Lx.termsOf ms = some ts → ∀ t ∈ ts, TermOk t
  | [], ts, h => by simp [Lx.termsOf] at h; subst h; simp
  | m :: ms, ts, h => by
    unfold Lx.termsOf at h
    split at h
    · rename_i ix hix
      cases ht : Lx.termsOf ms with
      | none => rw [ht] at h; simp at h
      | some ts' =>
        rw [ht] at h; simp at h; subst h
        intro t hmem
        rcases List.mem_cons.mp hmem with rfl | hmem
        · exact indexOf_ok m.kind m.index ix hix
        · exact termsOf_ok ms ts' ht t hmem
    · cases h

theorem equationTerms_terms_ok (s : List Char) (lt rt : List Lx.Term) (h : Lx.equationTerms s = .ok (lt, rt)) :
    (∀ t ∈ lt, TermOk t) ∧ (∀ t ∈ rt, TermOk t) := by
  unfold Lx.equationTerms at h
  split at h
  · cases h
  · split at h
    · cases h
    · rename_i lt' hl
      split at h
      · cases h
      · rename_i rt' hr
        split at h
        · cases h
        · simp at h
          obtain ⟨rfl, rfl⟩ := h
          exact ⟨termsOf_ok _ _ hl, termsOf_ok _ _ hr⟩

/-- What a `parsed` result of `parse_equation` always looks like: both `str.format` calls succeeded and the terms
    obey the index discipline. -/
def ParsedOk : Lx.EqOut → Prop
  | .parsed lt rt e c => (∃ e', e = .ok e') ∧ (∃ c', c = .ok c') ∧ (∀ t ∈ lt, TermOk t) ∧ (∀ t ∈ rt, TermOk t)
  | .err e => e ≠ .formatFailure
  | _ => True

theorem parseBody_ok (s : List Char) : ParsedOk (Lx.parseBody s) := by
  unfold Lx.parseBody
  split
  · trivial
  · split
    · simp [ParsedOk]
    · split
      · simp [ParsedOk]
      · rename_i hbr
        have hbr' : (Lx.outside s).any Lx.isBrace = false := by simpa using hbr
        split
        · rename_i e he
          have := Lx.equationTerms_err s e he
          subst this; simp [ParsedOk]
        · rename_i lt rt he
          split
          · simp [ParsedOk]
          · rename_i hlen
            have hlen' : (lt ++ rt).length = (Lx.scanTerms s).length := by simpa using hlen
            have h1 := (Fsic.C13.format_safe s ((lt ++ rt).map Lx.termStr) hbr' (by simpa using hlen')).2
            have h2 := (Fsic.C13.format_safe s ((lt ++ rt).map Lx.termCode) hbr' (by simpa using hlen')).2
            have hto := equationTerms_terms_ok s lt rt he
            unfold Lx.finishEq
            rw [h1, h2]
            simp only
            split
            · rename_i e hs
              -- the symbol stage of M2 raises ParserError or SymbolError only
              unfold Lx.symbolStage at hs
              split at hs
              · rename_i e'' hl
                simp at hs; subst hs
                rcases Lx.symLoop_errors _ _ _ _ hl with h | h | h <;> simp [ParsedOk, h]
              · split at hs
                · cases hs
                · simp at hs; subst hs; simp [ParsedOk]
            · exact ⟨⟨_, rfl⟩, ⟨_, rfl⟩, hto.1, hto.2⟩

theorem parseEquationText_ok (s : List Char) : ParsedOk (Lx.parseEquationText s) := by
  unfold Lx.parseEquationText
  split
  · trivial
  · split
    · simp [ParsedOk]
    · simp [ParsedOk]
    · exact parseBody_ok s
    · simp [ParsedOk]

theorem scriptGo_ok : ∀ (ss : List (List Char)) (en : Lx.SplitEnd), ∀ r ∈ Lx.scriptGo ss en, ParsedOk r
  | [], en => by cases en <;> simp [Lx.scriptGo, ParsedOk]
  | s :: ss, en => by
    intro r hr
    unfold Lx.scriptGo at hr
    have hp := parseEquationText_ok s
    split at hr
    · rename_i x hx
      simp at hr; subst hr
      rw [hx] at hp; exact hp
    · rename_i r' hne
      rcases List.mem_cons.mp hr with rfl | h2
      · exact hp
      · exact scriptGo_ok ss en r h2

theorem parseScript_ok (text : List Char) : ∀ r ∈ Lx.parseScript text, ParsedOk r :=
  scriptGo_ok _ _

/-! ## M3 side -/

/-- Index discipline on M3 terms (verbatim terms are skipped by the symbol loop). -/
def PTermOk (t : Parser.Term) : Prop :=
  t.type ≠ .verbatim → (Parser.isIndexed t.type = false → t.index = .none) ∧
    (Parser.isIndexed t.type = true → t.index ≠ .none)

theorem termOf_ok (new : Parser.TermType) (hn : new = .endogenous ∨ new = .exogenous) (t : Lx.Term) (h : TermOk t) :
    PTermOk (Parser.retype new (termOf t)) := by
  obtain ⟨h1, h2⟩ := h
  obtain ⟨kind, name, index⟩ := t
  intro hv
  cases kind <;> rcases hn with rfl | rfl <;>
    simp [Parser.retype, termOf, kindType, Parser.isIndexed] at hv ⊢ <;>
    simp at h1 h2 <;>
    first
      | (simp [idxOf, h1]; done)
      | (cases index <;> simp [idxOf] at h2 ⊢; done)
      | (cases index <;> simp_all [idxOf])

def StmtOk : Parser.Stmt → Prop
  | .eqn ts _ _ => ∀ t ∈ ts, PTermOk t
  | .verb _ _ => True

theorem wellIndexed_of_stmtOk (S : List Parser.Stmt) (h : ∀ st ∈ S, StmtOk st) : Parser.WellIndexed S := by
  intro s hs
  unfold Parser.scriptOcc at hs
  obtain ⟨st, hst, hmem⟩ := List.mem_flatMap.mp hs
  cases st with
  | verb e c => simp [Parser.stmtOcc] at hmem
  | eqn ts e c =>
    simp only [Parser.stmtOcc, Parser.termSyms, List.mem_map, List.mem_filter] at hmem
    obtain ⟨t, ⟨ht, hnv⟩, rfl⟩ := hmem
    have := h _ hst t ht (by simpa using hnv)
    simpa [Parser.termSymbol] using this

theorem parserEquationTerms_cases (l r : List Parser.Term) :
    Parser.equationTerms l r = .error .parserError ∨
    Parser.equationTerms l r = .ok (l.map (Parser.retype .endogenous) ++ r.map (Parser.retype .exogenous)) := by
  unfold Parser.equationTerms
  split
  · exact Or.inl rfl
  · exact Or.inr rfl

theorem stmtOf_ok (r : Lx.EqOut) (hr : ParsedOk r) :
    (∀ st, stmtOf r = .ok (some st) → StmtOk st) ∧ stmtOf r ≠ .error .internal := by
  cases r with
  | empty => simp [stmtOf]
  | verbatim e c => simp [stmtOf, StmtOk]
  | err e =>
    simp only [ParsedOk] at hr
    refine ⟨by simp [stmtOf], ?_⟩
    cases e <;> simp [stmtOf, ofLx] at hr ⊢
  | parsed lt rt e c =>
    obtain ⟨⟨e', rfl⟩, ⟨c', rfl⟩, hl, hrt⟩ := hr
    simp only [stmtOf]
    rcases parserEquationTerms_cases (lt.map termOf) (rt.map termOf) with h | h
    · rw [h]; simp [ofParser]
    · rw [h]
      refine ⟨?_, by simp⟩
      intro st hst
      simp at hst; subst hst
      intro t ht
      rcases List.mem_append.mp ht with ht | ht
      · obtain ⟨t0, ht0, rfl⟩ := List.mem_map.mp ht
        exact termOf_ok _ (Or.inl rfl) t0 (hl t0 ht0)
      · obtain ⟨t0, ht0, rfl⟩ := List.mem_map.mp ht
        exact termOf_ok _ (Or.inr rfl) t0 (hrt t0 ht0)

theorem stmtsOf_ok : ∀ (rs : List Lx.EqOut), (∀ r ∈ rs, ParsedOk r) →
    (∀ S, stmtsOf rs = .ok S → ∀ st ∈ S, StmtOk st) ∧ stmtsOf rs ≠ .error .internal
  | [], _ => by simp [stmtsOf]
  | r :: rs, h => by
    have hr := stmtOf_ok r (h r (by simp))
    have ih := stmtsOf_ok rs (fun x hx => h x (by simp [hx]))
    unfold stmtsOf
    cases hs : stmtOf r with
    | error e =>
      simp only
      refine ⟨by simp, ?_⟩
      intro he; simp at he; subst he; exact hr.2 hs
    | ok o =>
      cases o with
      | none => simpa using ih
      | some st =>
        simp only
        cases hss : stmtsOf rs with
        | error e =>
          refine ⟨by simp, ?_⟩
          intro he; simp at he; subst he; exact ih.2 hss
        | ok ss =>
          refine ⟨?_, by simp⟩
          intro S hS
          simp at hS; subst hS
          intro x hx
          rcases List.mem_cons.mp hx with rfl | hx
          · exact hr.1 _ hs
          · exact ih.1 ss hss x hx

end Fsic.Pipeline
