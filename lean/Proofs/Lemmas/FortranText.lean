import Proofs.Lemmas.Fortran
set_option linter.unusedSimpArgs false
set_option linter.unusedVariables false
/-
The rewrite on whole rendered expressions: text level = tree level (helper for `Proofs/C07.lean`).
-/
namespace Fsic.Fortran

/-- A segment that, scanned from the text state, yields `ps` and leaves the scanner in the text state. -/
def Closed (seg : List Char) (ps : List Piece) : Prop :=
  ∀ rest, scan (seg ++ rest) .text = ps ++ scan rest .text

theorem closed_nil : Closed [] [] := fun _ => rfl

theorem closed_append {a b : List Char} {pa pb : List Piece} (ha : Closed a pa) (hb : Closed b pb) :
    Closed (a ++ b) (pa ++ pb) := by
  intro rest
  rw [List.append_assoc, ha, hb, List.append_assoc]

theorem closed_plain_char (c : Char) (h : isIdStart c = false) : Closed [c] [.lit [c]] := by
  intro rest
  simp [scan_cons, step, h]

theorem closed_plain (cs : List Char) (h : ∀ c ∈ cs, isIdStart c = false) :
    Closed cs (cs.map fun c => .lit [c]) := by
  induction cs with
  | nil => exact closed_nil
  | cons c cs ih =>
    have h1 := closed_plain_char c (h c (by simp))
    have h2 := ih (fun d hd => h d (by simp [hd]))
    exact closed_append h1 h2

/-- An identifier followed by a character that is neither an identifier character nor `[` (e.g. `exp(`). -/
theorem closed_word (c : Char) (cs : List Char) (d : Char) (h0 : isIdStart c = true)
    (h1 : ∀ x ∈ cs, isIdChar x = true) (hd : isIdChar d = false) (hd' : d ≠ '[') :
    Closed ((c :: cs) ++ [d]) [.lit ((c :: cs) ++ [d])] := by
  intro rest
  simp only [List.cons_append, List.append_assoc, scan_cons, step, h0, if_true, List.nil_append]
  rw [scan_ident_run cs h1]
  simp [scan_cons, step, hd, hd']

theorem closed_ref (c : Char) (cs idx : List Char) (h0 : isIdStart c = true)
    (h1 : ∀ d ∈ cs, isIdChar d = true) (h2 : ∀ d ∈ idx, d ≠ ']' ∧ d ≠ '\n') :
    Closed ((c :: cs) ++ '[' :: (idx ++ [']'])) [.ref (c :: cs) idx] := by
  intro rest
  have := scan_reference c cs idx rest h0 h1 h2
  simpa [List.append_assoc] using this

/-! ### Rendering pieces -/

theorem renderPieces_append (num : String → Option Nat) (a b : List Piece) (x y : List Char)
    (ha : renderPieces num a = some x) (hb : renderPieces num b = some y) :
    renderPieces num (a ++ b) = some (x ++ y) := by
  induction a generalizing x with
  | nil => simp [renderPieces] at ha; subst ha; simpa using hb
  | cons p ps ih =>
    cases p with
    | lit cs =>
      simp only [renderPieces] at ha
      cases hr : renderPieces num ps with
      | none => simp [hr] at ha
      | some r =>
        simp only [hr, Option.some.injEq] at ha
        subst ha
        simp [renderPieces, ih r hr, List.append_assoc]
    | ref name idx =>
      simp only [renderPieces] at ha
      cases hn : num (String.ofList name) with
      | none => simp [hn] at ha
      | some n =>
        cases hr : renderPieces num ps with
        | none => simp [hn, hr] at ha
        | some r =>
          simp only [hn, hr, Option.some.injEq] at ha
          subst ha
          simp only [List.cons_append, renderPieces, hn, ih r hr, List.append_assoc]

theorem renderPieces_plain (num : String → Option Nat) (cs : List Char) :
    renderPieces num (cs.map fun c => .lit [c]) = some cs := by
  induction cs with
  | nil => rfl
  | cons c cs ih => simp [renderPieces, ih]

/-! ### Digits and the other glyphs never start an identifier -/

theorem isIdStart_digitChar (d : Nat) : isIdStart (digitChar d) = false := by
  unfold digitChar
  split <;> decide

theorem digitsFuel_plain : ∀ (fuel n : Nat) (acc : List Char), (∀ c ∈ acc, isIdStart c = false) →
    ∀ c ∈ digitsFuel fuel n acc, isIdStart c = false := by
  intro fuel
  induction fuel with
  | zero => intro n acc h; simpa [digitsFuel] using h
  | succ fuel ih =>
    intro n acc h
    unfold digitsFuel
    split
    · intro c hc
      rcases List.mem_cons.mp hc with h1 | h1
      · subst h1; exact isIdStart_digitChar n
      · exact h c h1
    · apply ih
      intro c hc
      rcases List.mem_cons.mp hc with h1 | h1
      · subst h1; exact isIdStart_digitChar _
      · exact h c h1

theorem natChars_plain (n : Nat) : ∀ c ∈ natChars n, isIdStart c = false :=
  digitsFuel_plain (n + 1) n [] (by simp)

theorem padDigits_plain : ∀ (e r : Nat), ∀ c ∈ padDigits e r, isIdStart c = false := by
  intro e
  induction e with
  | zero => intro r c hc; simp [padDigits] at hc
  | succ e ih =>
    intro r c hc
    simp only [padDigits, List.mem_append, List.mem_singleton] at hc
    rcases hc with h | h
    · exact ih _ c h
    · subst h; exact isIdStart_digitChar _

theorem decChars_plain (m e : Nat) : ∀ c ∈ decChars m e, isIdStart c = false := by
  intro c hc
  simp only [decChars, List.mem_append, List.mem_cons] at hc
  rcases hc with h | h | h
  · exact natChars_plain _ c h
  · subst h; decide
  · exact padDigits_plain _ _ c h

/-- digits are not `t`, `]` or newline either -/
theorem digitChar_idx (d : Nat) : digitChar d ≠ 't' ∧ digitChar d ≠ ']' ∧ digitChar d ≠ '\n' := by
  unfold digitChar
  split <;> decide

theorem digitsFuel_idx : ∀ (fuel n : Nat) (acc : List Char),
    (∀ c ∈ acc, c ≠ 't' ∧ c ≠ ']' ∧ c ≠ '\n') →
    ∀ c ∈ digitsFuel fuel n acc, c ≠ 't' ∧ c ≠ ']' ∧ c ≠ '\n' := by
  intro fuel
  induction fuel with
  | zero => intro n acc h; simpa [digitsFuel] using h
  | succ fuel ih =>
    intro n acc h
    unfold digitsFuel
    split
    · intro c hc
      rcases List.mem_cons.mp hc with h1 | h1
      · subst h1; exact digitChar_idx n
      · exact h c h1
    · apply ih
      intro c hc
      rcases List.mem_cons.mp hc with h1 | h1
      · subst h1; exact digitChar_idx _
      · exact h c h1

theorem offChars_idx (off : Int) : ∀ c ∈ offChars off, c ≠ 't' ∧ c ≠ ']' ∧ c ≠ '\n' := by
  intro c hc
  unfold offChars at hc
  split at hc
  · simp at hc
  · split at hc
    · rcases List.mem_cons.mp hc with h | h
      · subst h; decide
      · exact digitsFuel_idx _ _ [] (by simp) c h
    · rcases List.mem_cons.mp hc with h | h
      · subst h; decide
      · exact digitsFuel_idx _ _ [] (by simp) c h

/-! ### The theorem on trees -/

/-- A name the parser can have produced: an identifier. -/
def ValidName (name : List Char) : Prop :=
  ∃ c cs, name = c :: cs ∧ isIdStart c = true ∧ ∀ d ∈ cs, isIdChar d = true

theorem closed_fn1 (f : Fn1) : Closed (fn1Chars f ++ ['(']) [.lit (fn1Chars f ++ ['('])] := by
  cases f
  · exact closed_word 'e' ['x', 'p'] '(' (by decide) (by decide) (by decide) (by decide)
  · exact closed_word 'l' ['o', 'g'] '(' (by decide) (by decide) (by decide) (by decide)
  · exact closed_word 'a' ['b', 's'] '(' (by decide) (by decide) (by decide) (by decide)

theorem closed_fn2 (f : Fn2) : Closed (fn2Chars f ++ ['(']) [.lit (fn2Chars f ++ ['('])] := by
  cases f
  · exact closed_word 'm' ['a', 'x'] '(' (by decide) (by decide) (by decide) (by decide)
  · exact closed_word 'm' ['i', 'n'] '(' (by decide) (by decide) (by decide) (by decide)

theorem opChars_plain (op : BinOp) : ∀ c ∈ opChars op, isIdStart c = false := by
  cases op <;> decide

/-- Segments with their pieces and the text those pieces render to. -/
structure Seg (num : String → Option Nat) (seg out : List Char) : Prop where
  ex : ∃ ps, Closed seg ps ∧ renderPieces num ps = some out

theorem Seg.append {num : String → Option Nat} {a b x y : List Char} (ha : Seg num a x) (hb : Seg num b y) :
    Seg num (a ++ b) (x ++ y) := by
  obtain ⟨pa, ca, ra⟩ := ha.ex
  obtain ⟨pb, cb, rb⟩ := hb.ex
  exact ⟨pa ++ pb, closed_append ca cb, renderPieces_append num pa pb x y ra rb⟩

theorem Seg.plain (num : String → Option Nat) (cs : List Char) (h : ∀ c ∈ cs, isIdStart c = false) :
    Seg num cs cs :=
  ⟨_, closed_plain cs h, renderPieces_plain num cs⟩

theorem Seg.lit1 (num : String → Option Nat) (seg : List Char) (h : Closed seg [.lit seg]) : Seg num seg seg :=
  ⟨[.lit seg], h, by simp [renderPieces]⟩

theorem seg_expr (num : String → Option Nat) (k : List Char → Nat) :
    ∀ e : Expr (List Char),
      (∀ p ∈ e.refs, ValidName p.1 ∧ num (String.ofList p.1) = some (k p.1)) →
      Seg num (renderExpr eqAtom e) (renderExpr (fun name off => fAtom (k name) off) e) := by
  intro e
  induction e with
  | int n => intro _; exact Seg.plain num _ (natChars_plain n)
  | dec m e => intro _; exact Seg.plain num _ (decChars_plain m e)
  | var a off =>
    intro h
    obtain ⟨⟨c, cs, hn, h0, h1⟩, hnum⟩ := h (a, off) (by simp [Expr.refs])
    have hidx : ∀ d ∈ 't' :: offChars off, d ≠ ']' ∧ d ≠ '\n' := by
      intro d hd
      rcases List.mem_cons.mp hd with h | h
      · subst h; decide
      · exact (offChars_idx off d h).2
    have hc := closed_ref c cs ('t' :: offChars off) h0 h1 hidx
    refine ⟨[.ref a ('t' :: offChars off)], ?_, ?_⟩
    · simp only [renderExpr, eqAtom]
      subst hn
      simpa [List.append_assoc] using hc
    · simp only [renderExpr, fAtom, renderPieces]
      simp at hnum
      simp [hnum]
  | neg x ih =>
    intro h
    have hx := ih (fun p hp => h p (by simpa [Expr.refs] using hp))
    have a := Seg.plain num ['(', '-'] (by decide)
    have b := Seg.plain num [')'] (by decide)
    have := (a.append hx).append b
    simpa [renderExpr, List.append_assoc] using this
  | bin op x y ihx ihy =>
    intro h
    have hx := ihx (fun p hp => h p (by simp [Expr.refs, hp]))
    have hy := ihy (fun p hp => h p (by simp [Expr.refs, hp]))
    have a := Seg.plain num ['('] (by decide)
    have s1 := Seg.plain num [' '] (by decide)
    have o := Seg.plain num (opChars op) (opChars_plain op)
    have b := Seg.plain num [')'] (by decide)
    have := (((((a.append hx).append s1).append o).append s1).append hy).append b
    simpa [renderExpr, List.append_assoc] using this
  | fn1 f x ih =>
    intro h
    have hx := ih (fun p hp => h p (by simpa [Expr.refs] using hp))
    have a := Seg.lit1 num _ (closed_fn1 f)
    have b := Seg.plain num [')'] (by decide)
    have := (a.append hx).append b
    simpa [renderExpr, List.append_assoc] using this
  | fn2 f x y ihx ihy =>
    intro h
    have hx := ihx (fun p hp => h p (by simp [Expr.refs, hp]))
    have hy := ihy (fun p hp => h p (by simp [Expr.refs, hp]))
    have a := Seg.lit1 num _ (closed_fn2 f)
    have c := Seg.plain num [',', ' '] (by decide)
    have b := Seg.plain num [')'] (by decide)
    have := ((((a.append hx).append c).append hy).append b)
    simpa [renderExpr, List.append_assoc] using this

theorem rewrite_of_seg (num : String → Option Nat) (seg out : List Char) (h : Seg num seg out) :
    rewriteEquation num seg = some out := by
  obtain ⟨ps, hc, hr⟩ := h.ex
  unfold rewriteEquation
  have := hc []
  simp only [List.append_nil] at this
  rw [this]
  simpa [scan, flush] using hr

end Fsic.Fortran
