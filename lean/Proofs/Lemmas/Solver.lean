import FsicModel.Solver
set_option linter.unusedSimpArgs false
/-
Helper lemmas about M1 (`FsicModel/Solver.lean`).  Property theorems live in `Proofs/Cxx.lean`.
-/
namespace Fsic
section
variable {σ V : Type} (I : Interp σ V) (o : Opts) (t : Int)

/-- State after `k` evaluation passes from `u0` (ignoring the raised flags). -/
def traj (u0 : σ) : Nat → σ
  | 0 => u0
  | k + 1 => (I.eval o (traj u0 k) t (k + 1)).1

/-- The check vector the solver holds after pass `k` (`v0` = the vector read before the pre-hook). -/
def cv (u0 : σ) (v0 : V) : Nat → V
  | 0 => v0
  | k + 1 => I.check (traj I o t u0 (k + 1)) t

/-- Pass `k` is one at which the solver accepts convergence (bounds on `k` are stated separately). -/
def Good (u0 : σ) (v0 : V) (k : Nat) : Prop :=
  ¬ ((k : Int) < o.minIter) ∧ I.close (cv I o t u0 v0 k) (cv I o t u0 v0 (k - 1)) = true

/-- What happens at a converging pass: run the post-hook. -/
def afterOut (u0 : σ) (k : Nat) : LoopOut σ :=
  match I.after o (traj I o t u0 k) t k with
  | (u, true) => .afterRaised u k
  | (u, false) => .done u .solved k

theorem eval_eq_of_not_raised (u0 : σ) (j : Nat) (h : (I.eval o (traj I o t u0 j) t (j + 1)).2 = false) :
    I.eval o (traj I o t u0 j) t (j + 1) = (traj I o t u0 (j + 1), false) :=
  Prod.ext rfl h

/-- Finite, exception-free regime, least good pass `k0`: the loop stops exactly there. -/
theorem loop_converges (u0 : σ) (v0 : V) :
    ∀ (fuel j k0 : Nat), j < k0 → k0 ≤ j + fuel →
      (∀ i, j ≤ i → i < k0 → (I.eval o (traj I o t u0 i) t (i + 1)).2 = false) →
      (∀ i, j ≤ i → i ≤ k0 → I.allFinite (cv I o t u0 v0 i) = true) →
      (∀ i, j < i → i < k0 → ¬ Good I o t u0 v0 i) →
      Good I o t u0 v0 k0 →
      loop I o t fuel (j + 1) (traj I o t u0 j) (cv I o t u0 v0 j) = afterOut I o t u0 k0 := by
  intro fuel
  induction fuel with
  | zero => intro j k0 h1 h2; omega
  | succ fuel ih =>
    intro j k0 hj hk hev hfin hng hg
    have e1 := eval_eq_of_not_raised I o t u0 j (hev j (Nat.le_refl _) hj)
    have f0 : I.allFinite (cv I o t u0 v0 j) = true := hfin j (Nat.le_refl _) (Nat.le_of_lt hj)
    have f1 : I.allFinite (cv I o t u0 v0 (j + 1)) = true := hfin (j + 1) (Nat.le_succ _) hj
    have hc : I.check (traj I o t u0 (j + 1)) t = cv I o t u0 v0 (j + 1) := rfl
    unfold loop
    rw [e1]
    simp only [f0, hc, f1]
    by_cases hk0 : j + 1 = k0
    · subst hk0
      obtain ⟨g1, g2⟩ := hg
      have g2' : I.close (cv I o t u0 v0 (j + 1)) (cv I o t u0 v0 j) = true := by simpa using g2
      simp only [g1, g2']
      rfl
    · have hlt : j + 1 < k0 := by omega
      have hnot := hng (j + 1) (Nat.lt_succ_self _) hlt
      have hrec := ih (j + 1) k0 hlt (by omega)
        (fun i h1 h2 => hev i (by omega) h2) (fun i h1 h2 => hfin i (by omega) h2)
        (fun i h1 h2 => hng i (by omega) h2) hg
      by_cases hm : ((j + 1 : Nat) : Int) < o.minIter
      · simp only [hm]; simpa using hrec
      · have hcl : ¬ I.close (cv I o t u0 v0 (j + 1)) (cv I o t u0 v0 j) = true := by
          intro h; exact hnot ⟨hm, by simpa using h⟩
        simp only [hm, hcl]; simpa using hrec

/-- Finite, exception-free regime, no good pass within the fuel: the loop runs out (`for … else`). -/
theorem loop_exhausts (u0 : σ) (v0 : V) :
    ∀ (fuel j : Nat),
      (∀ i, j ≤ i → i < j + fuel → (I.eval o (traj I o t u0 i) t (i + 1)).2 = false) →
      (∀ i, j ≤ i → i ≤ j + fuel → I.allFinite (cv I o t u0 v0 i) = true) →
      (∀ i, j < i → i ≤ j + fuel → ¬ Good I o t u0 v0 i) →
      loop I o t fuel (j + 1) (traj I o t u0 j) (cv I o t u0 v0 j)
        = .done (traj I o t u0 (j + fuel)) .failed (j + fuel) := by
  intro fuel
  induction fuel with
  | zero => intro j _ _ _; simp [loop]
  | succ fuel ih =>
    intro j hev hfin hng
    have e1 := eval_eq_of_not_raised I o t u0 j (hev j (Nat.le_refl _) (by omega))
    have f0 : I.allFinite (cv I o t u0 v0 j) = true := hfin j (Nat.le_refl _) (by omega)
    have f1 : I.allFinite (cv I o t u0 v0 (j + 1)) = true := hfin (j + 1) (Nat.le_succ _) (by omega)
    have hc : I.check (traj I o t u0 (j + 1)) t = cv I o t u0 v0 (j + 1) := rfl
    have hnot := hng (j + 1) (Nat.lt_succ_self _) (by omega)
    have hrec := ih (j + 1) (fun i h1 h2 => hev i (by omega) (by omega))
      (fun i h1 h2 => hfin i (by omega) (by omega)) (fun i h1 h2 => hng i (by omega) (by omega))
    have hidx : j + 1 + fuel = j + (fuel + 1) := by omega
    rw [hidx] at hrec
    unfold loop
    rw [e1]
    simp only [f0, hc, f1]
    by_cases hm : ((j + 1 : Nat) : Int) < o.minIter
    · simp only [hm]; simpa using hrec
    · have hcl : ¬ I.close (cv I o t u0 v0 (j + 1)) (cv I o t u0 v0 j) = true := by
        intro h; exact hnot ⟨hm, by simpa using h⟩
      simp only [hm, hcl]; simpa using hrec

end
end Fsic

namespace Fsic
section Simulation
variable {σ σ' V : Type}

/-- `I'` (on the richer state σ') behaves like `I` when viewed through `π`. -/
structure Sim (I' : Interp σ' V) (I : Interp σ V) (π : σ' → σ) : Prop where
  lags : I'.lags = I.lags
  leads : I'.leads = I.leads
  check : ∀ u t, I'.check u t = I.check (π u) t
  allFinite : I'.allFinite = I.allFinite
  close : I'.close = I.close
  zeroNF : I'.zeroNF = I.zeroNF
  copyOffset : ∀ u t off, π (I'.copyOffset u t off) = I.copyOffset (π u) t off
  before : ∀ o u t, (π (I'.before o u t).1, (I'.before o u t).2) = I.before o (π u) t
  eval : ∀ o u t k, (π (I'.eval o u t k).1, (I'.eval o u t k).2) = I.eval o (π u) t k
  after : ∀ o u t k, (π (I'.after o u t k).1, (I'.after o u t k).2) = I.after o (π u) t k

theorem loop_sim {I' : Interp σ' V} {I : Interp σ V} {π : σ' → σ} (h : Sim I' I π) (o : Opts) (t : Int) :
    ∀ (fuel k : Nat) (u : σ') (prev : V),
      (loop I' o t fuel k u prev).map π = loop I o t fuel k (π u) prev := by
  intro fuel
  induction fuel with
  | zero => intro k u prev; simp [loop, LoopOut.map]
  | succ fuel ih =>
    intro k u prev
    have he := h.eval o u t k
    unfold loop
    rw [← he]
    rcases hev : I'.eval o u t k with ⟨u', b⟩
    cases b with
    | true => simp [LoopOut.map]
    | false =>
      simp only
      rw [← h.check u' t, ← h.allFinite, ← h.close, ← h.zeroNF]
      have ha := h.after o u' t k
      rw [← ha]
      by_cases c1 : I'.allFinite prev = false
      · simp only [c1, Bool.true_eq_false, Bool.false_eq_true, ↓reduceIte]; exact ih _ _ _
      · simp only [c1, Bool.true_eq_false, Bool.false_eq_true, ↓reduceIte]
        by_cases c2 : I'.allFinite (I'.check u' t) = false
        · simp only [c2, Bool.true_eq_false, Bool.false_eq_true, ↓reduceIte]
          by_cases c3 : (k : Int) = o.maxIter
          · cases o.errors <;> simp only [c3, Bool.true_eq_false, Bool.false_eq_true, ↓reduceIte, LoopOut.map]
          · cases o.errors <;> simp only [c3, Bool.true_eq_false, Bool.false_eq_true, ↓reduceIte, LoopOut.map] <;> exact ih _ _ _
        · simp only [c2, Bool.true_eq_false, Bool.false_eq_true, ↓reduceIte]
          by_cases c4 : (k : Int) < o.minIter
          · simp only [c4, Bool.true_eq_false, Bool.false_eq_true, ↓reduceIte]; exact ih _ _ _
          · simp only [c4, Bool.true_eq_false, Bool.false_eq_true, ↓reduceIte]
            by_cases c5 : I'.close (I'.check u' t) prev = true
            · simp only [c5, Bool.true_eq_false, Bool.false_eq_true, ↓reduceIte]
              rcases hav : I'.after o u' t k with ⟨u'', b'⟩
              cases b' <;> simp only [LoopOut.map]
            · simp only [c5, Bool.true_eq_false, Bool.false_eq_true, ↓reduceIte]; exact ih _ _ _

theorem stamp_map (π : σ' → σ) (w : World σ') (n : Nat) (t : Int) (s : Status) (k : Int) :
    (stamp w n t s k).map π = stamp (w.map π) n t s k := by
  unfold stamp; cases pyIndex n t <;> simp [World.map]

theorem withUser_map (π : σ' → σ) (w : World σ') (u : σ') :
    (withUser w u).map π = withUser (w.map π) (π u) := rfl

theorem finish_sim (π : σ' → σ) (o : Opts) (n : Nat) (t : Int) (w : World σ') (r : LoopOut σ') :
    ((finish o n t w r).1.map π, (finish o n t w r).2) = finish o n t (w.map π) (r.map π) := by
  cases r <;> simp only [finish, LoopOut.map, stamp_map, withUser_map]
  · by_cases hc : o.errors = ErrMode.raise <;> simp only [hc, if_true, if_false, stamp_map, withUser_map]

theorem solveT_sim {I' : Interp σ' V} {I : Interp σ V} {π : σ' → σ} (h : Sim I' I π)
    (o : Opts) (n : Nat) (t : Int) (w : World σ') :
    ((solveT I' o n t w).1.map π, (solveT I' o n t w).2) = solveT I o n t (w.map π) := by
  unfold solveT
  rw [h.lags, h.leads]
  split
  · rfl
  · split
    · rfl
    · split
      · rfl
      · split
        · rfl
        · have hseed : π (seed I' o t w.user) = seed I o t (w.map π).user := by
            unfold seed; split
            · exact h.copyOffset _ _ _
            · rfl
          unfold solveCore
          rw [← hseed, ← h.check, ← h.allFinite]
          split
          · simp only [withUser_map]
          · have hb := h.before o (seed I' o t w.user) t
            rw [← hb]
            rcases hbv : I'.before o (seed I' o t w.user) t with ⟨u2, b⟩
            cases b with
            | true => simp only [withUser_map]
            | false =>
              simp only
              rw [← loop_sim h]
              exact finish_sim π o n t w _

end Simulation
end Fsic

namespace Fsic
section Logged
variable {σ V : Type} (I : Interp σ V) (o : Opts) (t : Int)

theorem logged_sim : Sim (logged I) I Prod.fst where
  lags := rfl
  leads := rfl
  check _ _ := rfl
  allFinite := rfl
  close := rfl
  zeroNF := rfl
  copyOffset _ _ _ := rfl
  before _ _ _ := rfl
  eval _ _ _ _ := rfl
  after _ _ _ _ := rfl

/-- `eval 1, …, eval k`. -/
def evalEvents (k : Nat) : List Event := (List.range k).map (fun i => Event.eval (i + 1))

theorem evalEvents_succ (k : Nat) : evalEvents (k + 1) = evalEvents k ++ [Event.eval (k + 1)] := by
  simp [evalEvents, List.range_succ]

theorem traj_logged (u : σ) (l : List Event) (k : Nat) :
    traj (logged I) o t (u, l) k = (traj I o t u k, l ++ evalEvents k) := by
  induction k with
  | zero => simp [traj, evalEvents]
  | succ k ih =>
    show ((logged I).eval o (traj (logged I) o t (u, l) k) t (k + 1)).1 = _
    rw [ih]
    simp [logged, traj, evalEvents_succ]

theorem cv_logged (u : σ) (l : List Event) (v0 : V) (k : Nat) :
    cv (logged I) o t (u, l) v0 k = cv I o t u v0 k := by
  cases k with
  | zero => rfl
  | succ k => show (logged I).check (traj (logged I) o t (u, l) (k + 1)) t = _; rw [traj_logged]; rfl

theorem good_logged (u : σ) (l : List Event) (v0 : V) (k : Nat) :
    Good (logged I) o t (u, l) v0 k ↔ Good I o t u v0 k := by
  unfold Good; rw [cv_logged, cv_logged]; rfl

end Logged
end Fsic

/-! ### General stepping lemmas (all `errors` modes, non-finite values, raising passes) -/
namespace Fsic
section General
variable {σ V : Type} (I : Interp σ V) (o : Opts) (t : Int)

/-- The vector the solver *holds* after pass `k` (`previous_values` of pass `k+1`): the check vector read after
    the pass, except that under `errors='replace'` a newly non-finite vector is zero-filled first. -/
def hv (u0 : σ) (v0 : V) : Nat → V
  | 0 => v0
  | k + 1 =>
    if I.allFinite (hv u0 v0 k) = true ∧ I.allFinite (I.check (traj I o t u0 (k + 1)) t) = false
        ∧ o.errors = .replace
    then I.zeroNF (I.check (traj I o t u0 (k + 1)) t)
    else I.check (traj I o t u0 (k + 1)) t

/-- Pass `i ≥ 1` neither stops the loop nor raises. -/
def Continues (u0 : σ) (v0 : V) (i : Nat) : Prop :=
  (I.eval o (traj I o t u0 (i - 1)) t i).2 = false ∧
  ( I.allFinite (hv I o t u0 v0 (i - 1)) = false
  ∨ (I.allFinite (hv I o t u0 v0 (i - 1)) = true ∧ I.allFinite (I.check (traj I o t u0 i) t) = false
      ∧ (o.errors = .ignore ∨ o.errors = .replace) ∧ (i : Int) ≠ o.maxIter)
  ∨ (I.allFinite (hv I o t u0 v0 (i - 1)) = true ∧ I.allFinite (I.check (traj I o t u0 i) t) = true
      ∧ ((i : Int) < o.minIter ∨ I.close (I.check (traj I o t u0 i) t) (hv I o t u0 v0 (i - 1)) = false)) )

theorem loop_step_continue (u0 : σ) (v0 : V) (fuel j : Nat) (h : Continues I o t u0 v0 (j + 1)) :
    loop I o t (fuel + 1) (j + 1) (traj I o t u0 j) (hv I o t u0 v0 j)
      = loop I o t fuel (j + 2) (traj I o t u0 (j + 1)) (hv I o t u0 v0 (j + 1)) := by
  obtain ⟨hr, hc⟩ := h
  simp only [Nat.add_sub_cancel] at hr hc
  have e1 := eval_eq_of_not_raised I o t u0 j hr
  rw [loop, e1]
  simp only
  rcases hc with h1 | ⟨h1, h2, h3, h4⟩ | ⟨h1, h2, h3⟩
  · have hh : hv I o t u0 v0 (j + 1) = I.check (traj I o t u0 (j + 1)) t := by
      simp [hv, h1]
    simp only [h1, if_true, hh]
  · rcases h3 with h3 | h3
    · have hh : hv I o t u0 v0 (j + 1) = I.check (traj I o t u0 (j + 1)) t := by
        simp [hv, h3]
      simp only [h1, h2, h3, h4, hh, Bool.true_eq_false, if_false, if_true]
    · have hh : hv I o t u0 v0 (j + 1) = I.zeroNF (I.check (traj I o t u0 (j + 1)) t) := by
        simp [hv, h1, h2, h3]
      simp only [h1, h2, h3, h4, hh, Bool.true_eq_false, if_false, if_true]
  · have hh : hv I o t u0 v0 (j + 1) = I.check (traj I o t u0 (j + 1)) t := by
      simp [hv, h2]
    rcases h3 with h3 | h3
    · simp only [h1, h2, h3, hh, Bool.true_eq_false, if_false, if_true]
    · by_cases hm : ((j + 1 : Nat) : Int) < o.minIter
      · simp only [h1, h2, hm, hh, Bool.true_eq_false, if_false, if_true]
      · simp only [h1, h2, h3, hm, hh, Bool.true_eq_false, Bool.false_eq_true, if_false]

/-- Skip over a run of continuing passes. -/
theorem loop_skip (u0 : σ) (v0 : V) :
    ∀ (d fuel j : Nat), (∀ i, j < i → i ≤ j + d → Continues I o t u0 v0 i) →
      loop I o t (fuel + d) (j + 1) (traj I o t u0 j) (hv I o t u0 v0 j)
        = loop I o t fuel (j + d + 1) (traj I o t u0 (j + d)) (hv I o t u0 v0 (j + d)) := by
  intro d
  induction d with
  | zero => intro fuel j _; rfl
  | succ d ih =>
    intro fuel j h
    have h1 := loop_step_continue I o t u0 v0 (fuel + d) j (h (j + 1) (Nat.lt_succ_self _) (by omega))
    have h2 := ih fuel (j + 1) (fun i hi hi' => h i (by omega) (by omega))
    have e : fuel + (d + 1) = fuel + d + 1 := by omega
    rw [e, h1]
    have e2 : j + 1 + d = j + (d + 1) := by omega
    rw [e2] at h2
    exact h2

/-- Stop: a judged, accepted pass. -/
theorem loop_stop_good (u0 : σ) (v0 : V) (fuel j : Nat)
    (hr : (I.eval o (traj I o t u0 j) t (j + 1)).2 = false)
    (h1 : I.allFinite (hv I o t u0 v0 j) = true)
    (h2 : I.allFinite (I.check (traj I o t u0 (j + 1)) t) = true)
    (h3 : ¬ ((j + 1 : Nat) : Int) < o.minIter)
    (h4 : I.close (I.check (traj I o t u0 (j + 1)) t) (hv I o t u0 v0 j) = true) :
    loop I o t (fuel + 1) (j + 1) (traj I o t u0 j) (hv I o t u0 v0 j) = afterOut I o t u0 (j + 1) := by
  have e1 := eval_eq_of_not_raised I o t u0 j hr
  rw [loop, e1]
  simp only [h1, h2, h3, h4, Bool.true_eq_false, if_false, if_true]
  rfl

/-- Stop: a newly non-finite check value under a stopping policy. -/
theorem loop_stop_fault (u0 : σ) (v0 : V) (fuel j : Nat)
    (hr : (I.eval o (traj I o t u0 j) t (j + 1)).2 = false)
    (h1 : I.allFinite (hv I o t u0 v0 j) = true)
    (h2 : I.allFinite (I.check (traj I o t u0 (j + 1)) t) = false) :
    loop I o t (fuel + 1) (j + 1) (traj I o t u0 j) (hv I o t u0 v0 j) =
      match o.errors with
      | .raise => .nonFinite (traj I o t u0 (j + 1)) (j + 1)
      | .skip => .done (traj I o t u0 (j + 1)) .skipped (j + 1)
      | .ignore =>
        if ((j + 1 : Nat) : Int) = o.maxIter then .done (traj I o t u0 (j + 1)) .failed (j + 1)
        else loop I o t fuel (j + 2) (traj I o t u0 (j + 1)) (I.check (traj I o t u0 (j + 1)) t)
      | .replace =>
        if ((j + 1 : Nat) : Int) = o.maxIter then .done (traj I o t u0 (j + 1)) .failed (j + 1)
        else loop I o t fuel (j + 2) (traj I o t u0 (j + 1)) (I.zeroNF (I.check (traj I o t u0 (j + 1)) t))
      | .invalid => .badErrors (traj I o t u0 (j + 1)) (j + 1) := by
  have e1 := eval_eq_of_not_raised I o t u0 j hr
  rw [loop, e1]
  simp only [h1, h2, Bool.true_eq_false, if_false, if_true]
  rfl

/-- Stop: the pass raises. -/
theorem loop_stop_raise (u0 : σ) (v0 : V) (fuel j : Nat)
    (hr : (I.eval o (traj I o t u0 j) t (j + 1)).2 = true) :
    loop I o t (fuel + 1) (j + 1) (traj I o t u0 j) (hv I o t u0 v0 j)
      = .evalRaised (traj I o t u0 (j + 1)) (j + 1) := by
  have e1 : I.eval o (traj I o t u0 j) t (j + 1) = (traj I o t u0 (j + 1), true) := Prod.ext rfl hr
  rw [loop, e1]

/-- A pass that starts from non-finite held values is never judged: whatever it produces, the loop goes on. -/
theorem loop_unjudged (fuel k : Nat) (u : σ) (prev : V)
    (hr : (I.eval o u t k).2 = false) (hp : I.allFinite prev = false) :
    loop I o t (fuel + 1) k u prev
      = loop I o t fuel (k + 1) (I.eval o u t k).1 (I.check (I.eval o u t k).1 t) := by
  have e1 : I.eval o u t k = ((I.eval o u t k).1, false) := Prod.ext rfl hr
  rw [loop, e1]
  simp only [hp, if_true]

end General
end Fsic

namespace Fsic
section Accepted
variable {σ V : Type} (I : Interp σ V) (o : Opts) (n : Nat) (t : Int) (w : World σ)

/-- The period has room for the model's lags and leads. -/
def Feasible : Prop := 0 ≤ normT n t - I.lags ∧ normT n t + I.leads < n

/-- Accepted call: `min_iter ≤ max_iter`, a feasible period, and the offset test passes (or `offset = 0`). -/
def Accepted : Prop :=
  ¬ o.minIter > o.maxIter ∧ Feasible I n t ∧
    (o.offset = 0 ∨ (0 ≤ normT n t + o.offset ∧ normT n t + o.offset < n))

theorem solveT_accepted (h : Accepted I o n t) :
    solveT I o n t w = solveCore I o n t w (seed I o t w.user) := by
  obtain ⟨h0, ⟨hf1, hf2⟩, h1 | ⟨h2, h3⟩⟩ := h
  · have hf : ¬ (normT n t - ↑I.lags < 0 ∨ normT n t + ↑I.leads ≥ ↑n) := by omega
    simp [solveT, h0, hf, h1]
  · have hf : ¬ (normT n t - ↑I.lags < 0 ∨ normT n t + ↑I.leads ≥ ↑n) := by omega
    have h2' : ¬ normT n t + o.offset < 0 := by omega
    have h3' : ¬ normT n t + o.offset ≥ n := by omega
    simp [solveT, h0, hf, h2', h3']

/-- An accepted call whose starting check values pass the up-front test and whose pre-hook does not raise
    is the iteration loop followed by the bookkeeping. -/
theorem solveT_eq_finish (hacc : Accepted I o n t)
    (hpre : ¬ (o.errors = .raise ∧ I.allFinite (I.check (seed I o t w.user) t) = false))
    (hb : (I.before o (seed I o t w.user) t).2 = false) :
    solveT I o n t w =
      finish o n t w (loop I o t o.maxIter.toNat 1 (I.before o (seed I o t w.user) t).1
        (I.check (seed I o t w.user) t)) := by
  rw [solveT_accepted I o n t w hacc]
  unfold solveCore
  have hbe : I.before o (seed I o t w.user) t = ((I.before o (seed I o t w.user) t).1, false) :=
    Prod.ext rfl hb
  rw [hbe]
  simp only [hpre, if_false]

end Accepted
end Fsic

/-! ### Invariants of the user state, and the tracer as a simulation -/
namespace Fsic
section Invariant
variable {σ V : Type} (I : Interp σ V) (o : Opts) (t : Int) (P : σ → Prop)

/-- `P` is preserved by everything the solver can do to the user state. -/
structure Preserved : Prop where
  /-- only needed when the call really copies (`offset ≠ 0`) -/
  copyOffset : o.offset ≠ 0 → ∀ u, P u → P (I.copyOffset u t o.offset)
  before : ∀ u, P u → P (I.before o u t).1
  eval : ∀ u k, P u → P (I.eval o u t k).1
  after : ∀ u k, P u → P (I.after o u t k).1

def LoopOut.user {σ} : LoopOut σ → σ
  | .done u _ _ => u
  | .evalRaised u _ => u
  | .nonFinite u _ => u
  | .afterRaised u _ => u
  | .badErrors u _ => u

theorem loop_inv (h : Preserved I o t P) :
    ∀ (fuel k : Nat) (u : σ) (prev : V), P u → P (loop I o t fuel k u prev).user := by
  intro fuel
  induction fuel with
  | zero => intro k u prev hu; simpa [loop, LoopOut.user] using hu
  | succ fuel ih =>
    intro k u prev hu
    have he := h.eval u k hu
    unfold loop
    rcases hev : I.eval o u t k with ⟨u', b⟩
    rw [hev] at he
    cases b with
    | true => simpa [LoopOut.user] using he
    | false =>
      simp only
      have ha := h.after u' k he
      rcases hav : I.after o u' t k with ⟨u'', b'⟩
      rw [hav] at ha
      by_cases c1 : I.allFinite prev = false
      · simp only [c1, Bool.true_eq_false, Bool.false_eq_true, ↓reduceIte]; exact ih _ _ _ he
      · simp only [c1, Bool.true_eq_false, Bool.false_eq_true, ↓reduceIte]
        by_cases c2 : I.allFinite (I.check u' t) = false
        · simp only [c2, Bool.true_eq_false, Bool.false_eq_true, ↓reduceIte]
          by_cases c3 : (k : Int) = o.maxIter
          · cases o.errors <;> simp only [c3, ↓reduceIte, LoopOut.user] <;> exact he
          · cases o.errors <;> simp only [c3, ↓reduceIte, LoopOut.user] <;>
              first | exact he | exact ih _ _ _ he
        · simp only [c2, Bool.true_eq_false, Bool.false_eq_true, ↓reduceIte]
          by_cases c4 : (k : Int) < o.minIter
          · simp only [c4, ↓reduceIte]; exact ih _ _ _ he
          · simp only [c4, ↓reduceIte]
            by_cases c5 : I.close (I.check u' t) prev = true
            · simp only [c5, ↓reduceIte]
              cases b' <;> simpa [LoopOut.user] using ha
            · simp only [c5, Bool.true_eq_false, Bool.false_eq_true, ↓reduceIte]; exact ih _ _ _ he

theorem stamp_user {σ} (w : World σ) (n : Nat) (t : Int) (s : Status) (k : Int) :
    (stamp w n t s k).user = w.user := by
  unfold stamp; cases pyIndex n t <;> rfl

theorem finish_user {σ} (o : Opts) (n : Nat) (t : Int) (w : World σ) (r : LoopOut σ) :
    (finish o n t w r).1.user = r.user := by
  cases r <;> simp only [finish, LoopOut.user, stamp_user, withUser]
  · split <;> simp [stamp_user]

/-- Whatever `solve_t` does, an invariant of all model operations still holds afterwards. -/
theorem solveT_inv (h : Preserved I o t P) (n : Nat) (w : World σ) (hw : P w.user) :
    P (solveT I o n t w).1.user := by
  unfold solveT
  split
  · exact hw
  · split
    · exact hw
    · split
      · exact hw
      · split
        · exact hw
        · have hs : P (seed I o t w.user) := by
            unfold seed; split
            · rename_i hoff; exact h.copyOffset hoff _ hw
            · exact hw
          unfold solveCore
          split
          · exact hs
          · have hb := h.before _ hs
            rcases hbv : I.before o (seed I o t w.user) t with ⟨u2, b⟩
            rw [hbv] at hb
            cases b with
            | true => exact hb
            | false =>
              simp only
              rw [finish_user]
              exact loop_inv I o t P h _ _ _ _ hb

end Invariant

section Traced
variable {σ V S : Type} (I : Interp σ V) (snap : σ → Int → S)

theorem traced_sim (on reset : Bool) : Sim (traced I snap on reset) I Prod.fst where
  lags := rfl
  leads := rfl
  check _ _ := rfl
  allFinite := rfl
  close := rfl
  zeroNF := rfl
  copyOffset _ _ _ := rfl
  before o u t := by
    show (Prod.fst ((traced I snap on reset).before o u t).1, ((traced I snap on reset).before o u t).2) = _
    simp only [traced]
    rcases h : I.before o u.1 t with ⟨u', b⟩
    cases b <;> rfl
  eval o u t k := by
    simp only [traced]
    rcases h : I.eval o u.1 t k with ⟨u', b⟩
    cases b <;> rfl
  after o u t k := by
    simp only [traced]
    rcases h : I.after o u.1 t k with ⟨u', b⟩
    cases b <;> rfl

end Traced
end Fsic

/-! ### Status / iterations frame and the period loop of `solve()` -/
namespace Fsic
section Frame
variable {σ V : Type} (I : Interp σ V) (o : Opts) (n : Nat) (t : Int)

/-- Bookkeeping series after `stamp`: either untouched or changed at the one position `t` denotes. -/
theorem stamp_series {σ} (w : World σ) (s : Status) (k : Int) :
    ((stamp w n t s k).status = w.status ∧ (stamp w n t s k).iters = w.iters) ∨
    ∃ i, pyIndex n t = some i ∧ (stamp w n t s k).status = setAt w.status i s
      ∧ (stamp w n t s k).iters = setAt w.iters i k := by
  unfold stamp
  cases h : pyIndex n t with
  | none => left; exact ⟨rfl, rfl⟩
  | some i => right; exact ⟨i, rfl, rfl, rfl⟩

/-- `solve_t(t)` changes `status` / `iterations` at most at position `t`. -/
theorem solveT_series_frame (w : World σ) (j : Nat) (hj : pyIndex n t ≠ some j) :
    (solveT I o n t w).1.status[j]? = w.status[j]? ∧ (solveT I o n t w).1.iters[j]? = w.iters[j]? := by
  have key : ∀ (w' : World σ), w'.status = w.status → w'.iters = w.iters → ∀ (s : Status) (k : Int),
      (stamp w' n t s k).status[j]? = w.status[j]? ∧ (stamp w' n t s k).iters[j]? = w.iters[j]? := by
    intro w' h1 h2 s k
    rcases stamp_series n t w' s k with ⟨a, b⟩ | ⟨i, hi, a, b⟩
    · rw [a, b, h1, h2]; exact ⟨rfl, rfl⟩
    · have hne : i ≠ j := by intro e; apply hj; rw [hi, e]
      rw [a, b, h1, h2]
      exact ⟨setAt_getElem?_ne _ _ _ _ hne, setAt_getElem?_ne _ _ _ _ hne⟩
  unfold solveT
  split
  · exact ⟨rfl, rfl⟩
  · split
    · exact ⟨rfl, rfl⟩
    · split
      · exact ⟨rfl, rfl⟩
      · split
        · exact ⟨rfl, rfl⟩
        · unfold solveCore
          split
          · exact ⟨rfl, rfl⟩
          · rcases hbv : I.before o (seed I o t w.user) t with ⟨u2, b⟩
            cases b with
            | true => exact ⟨rfl, rfl⟩
            | false =>
              simp only
              generalize loop I o t o.maxIter.toNat 1 u2 (I.check (seed I o t w.user) t) = r
              cases r with
              | done u s k => simp only [finish]; exact key (withUser w u) rfl rfl _ _
              | evalRaised u k =>
                simp only [finish]
                split
                · exact key (withUser w u) rfl rfl _ _
                · exact ⟨rfl, rfl⟩
              | nonFinite u k => simp only [finish]; exact key (withUser w u) rfl rfl _ _
              | afterRaised u k => exact ⟨rfl, rfl⟩
              | badErrors u k => exact ⟨rfl, rfl⟩

theorem solveT_lengths (w : World σ) :
    (solveT I o n t w).1.status.length = w.status.length ∧ (solveT I o n t w).1.iters.length = w.iters.length := by
  have key : ∀ (w' : World σ), w'.status = w.status → w'.iters = w.iters → ∀ (s : Status) (k : Int),
      (stamp w' n t s k).status.length = w.status.length ∧ (stamp w' n t s k).iters.length = w.iters.length := by
    intro w' h1 h2 s k
    rcases stamp_series n t w' s k with ⟨a, b⟩ | ⟨i, hi, a, b⟩
    · rw [a, b, h1, h2]; exact ⟨rfl, rfl⟩
    · rw [a, b, h1, h2]; exact ⟨setAt_length _ _ _, setAt_length _ _ _⟩
  unfold solveT
  split
  · exact ⟨rfl, rfl⟩
  · split
    · exact ⟨rfl, rfl⟩
    · split
      · exact ⟨rfl, rfl⟩
      · split
        · exact ⟨rfl, rfl⟩
        · unfold solveCore
          split
          · exact ⟨rfl, rfl⟩
          · rcases hbv : I.before o (seed I o t w.user) t with ⟨u2, b⟩
            cases b with
            | true => exact ⟨rfl, rfl⟩
            | false =>
              simp only
              generalize loop I o t o.maxIter.toNat 1 u2 (I.check (seed I o t w.user) t) = r
              cases r with
              | done u s k => simp only [finish]; exact key (withUser w u) rfl rfl _ _
              | evalRaised u k =>
                simp only [finish]
                split
                · exact key (withUser w u) rfl rfl _ _
                · exact ⟨rfl, rfl⟩
              | nonFinite u k => simp only [finish]; exact key (withUser w u) rfl rfl _ _
              | afterRaised u k => exact ⟨rfl, rfl⟩
              | badErrors u k => exact ⟨rfl, rfl⟩

/-- The period loop over a concatenation: run the first part; go on (from the world and the accumulated
    results it produced) only if it completed without an exception. -/
theorem solveList_append (ps qs : List Nat) (w : World σ) (acc : List Nat) (fs : List Bool) :
    solveList I o n (ps ++ qs) w acc fs =
      match solveList I o n ps w acc fs with
      | (w', .ok rp rf) => solveList I o n qs w' rp.reverse rf.reverse
      | other => other := by
  induction ps generalizing w acc fs with
  | nil => simp [solveList]
  | cons p ps ih =>
    simp only [List.cons_append, solveList]
    rcases h : solveT I o n (↑p) w with ⟨w', r⟩
    cases r with
    | ret b => simp only; rw [ih]
    | _ => simp

end Frame
end Fsic
