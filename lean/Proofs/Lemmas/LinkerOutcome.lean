import FsicModel.Linker
import Proofs.Lemmas.SolverOutcome
/-
The linker's own bookkeeping (`status` / `iterations` of the linker object) never feeds back into its solution:
`BaseLinker.solve_t` factors through the user state (which holds the linker's series and its submodels, with their own
records) exactly as the model's `solve_t` does.
-/
namespace Fsic

variable {σ V Id : Type}

abbrev LOutcome (σ : Type) := σ × Option (Status × Int) × LResult

def lfinishOutcome (L : LInterp σ V Id) (o : Opts) (t : Int) (sel : List Id) : LoopOut σ → LOutcome σ
  | .done u s k =>
    (stampSubs L t s sel u, some (s, (k : Int)),
     if s = .failed ∧ o.failRaise = true then .nonConvergence else .ret (decide (s = .solved)))
  | .evalRaised u _ => (u, none, .raised)
  | .afterRaised u _ => (u, none, .raised)
  | .nonFinite u _ => (u, none, .raised)
  | .badErrors u _ => (u, none, .raised)

def lCoreOutcome (L : LInterp σ V Id) (o : Opts) (t : Int) (sel : List Id) (u1 : σ) : LOutcome σ :=
  match resetAll L t sel u1 with
  | (u2, true) => (u2, none, .keyError)
  | (u2, false) =>
    match L.solveBefore o u2 sel t with
    | (u3, true) => (u3, none, .raised)
    | (u3, false) =>
      lfinishOutcome L o t sel (loop (asInterp L sel) o t o.maxIter.toNat 1 u3 (L.check u1 sel t))

def lOutcomeOf (L : LInterp σ V Id) (o : Opts) (n : Nat) (t : Int) (sel : List Id) (u : σ) : LOutcome σ :=
  if o.offset ≠ 0 then
    if sel.any (fun i => !L.known i) = true then (u, none, .keyError)
    else if normT n t + o.offset < 0 ∨ normT n t + o.offset ≥ n then (u, none, .indexError)
    else lCoreOutcome L o t sel (L.copyOffset u sel t o.offset)
  else lCoreOutcome L o t sel u

def applyLOutcome {σ} (n : Nat) (t : Int) (w : World σ) : LOutcome σ → World σ × LResult
  | (u, none, r) => (withUser w u, r)
  | (u, some (s, k), r) => (stamp (withUser w u) n t s k, r)

theorem lfinish_eq_outcome (L : LInterp σ V Id) (o : Opts) (n : Nat) (t : Int) (sel : List Id) (w : World σ)
    (l : LoopOut σ) : lfinish L o n t sel w l = applyLOutcome n t w (lfinishOutcome L o t sel l) := by
  cases l <;> rfl

theorem lCore_eq_outcome (L : LInterp σ V Id) (o : Opts) (n : Nat) (t : Int) (sel : List Id) (w : World σ) (u1 : σ) :
    lCore L o n t sel w u1 = applyLOutcome n t w (lCoreOutcome L o t sel u1) := by
  unfold lCore lCoreOutcome
  rcases resetAll L t sel u1 with ⟨u2, b⟩
  cases b
  · simp only
    rcases L.solveBefore o u2 sel t with ⟨u3, b'⟩
    cases b'
    · simp only [lfinish_eq_outcome]
    · rfl
  · rfl

/-- **Factorisation** of the linker's `solve_t` through the user state. -/
theorem lSolveT_eq_outcome (L : LInterp σ V Id) (o : Opts) (n : Nat) (t : Int) (sel : List Id) (w : World σ) :
    lSolveT L o n t sel w = applyLOutcome n t w (lOutcomeOf L o n t sel w.user) := by
  unfold lSolveT lOutcomeOf
  by_cases h0 : o.offset ≠ 0
  · rw [if_pos h0, if_pos h0]
    by_cases h1 : sel.any (fun i => !L.known i) = true
    · rw [if_pos h1, if_pos h1]; simp only [applyLOutcome, withUser_self]
    · rw [if_neg h1, if_neg h1]
      by_cases h2 : normT n t + o.offset < 0 ∨ normT n t + o.offset ≥ ↑n
      · rw [if_pos h2, if_pos h2]; simp only [applyLOutcome, withUser_self]
      · rw [if_neg h2, if_neg h2]; exact lCore_eq_outcome L o n t sel w _
  · rw [if_neg h0, if_neg h0]; exact lCore_eq_outcome L o n t sel w _

theorem applyLOutcome_user {σ} (n : Nat) (t : Int) (w : World σ) (oc : LOutcome σ) :
    (applyLOutcome n t w oc).1.user = oc.1 := by
  rcases oc with ⟨u, _ | ⟨s, k⟩, r⟩
  · rfl
  · simp only [applyLOutcome, stamp, withUser]
    cases pyIndex n t <;> rfl

theorem applyLOutcome_result {σ} (n : Nat) (t : Int) (w : World σ) (oc : LOutcome σ) :
    (applyLOutcome n t w oc).2 = oc.2.2 := by
  rcases oc with ⟨u, _ | ⟨s, k⟩, r⟩ <;> rfl

end Fsic
