import Proofs.Lemmas.HeapObs
/-
What a freshly constructed instance can reach: its own new objects and — through `endogenous` / `check` — the
class-level lists.  Hence what two sibling instances, or an instance and its class, share.
-/
set_option linter.unusedSimpArgs false
set_option linter.unusedVariables false
namespace Fsic.Heap

theorem us_ne_endogenous (x : String) : "_" ++ x ≠ "endogenous" := by
  intro h; have := congrArg String.toList h; simp at this

theorem us_ne_check (x : String) : "_" ++ x ≠ "check" := by
  intro h; have := congrArg String.toList h; simp at this

theorem lookup_allocVars_none (n : Nat) (k : String) (hk : ∀ x, "_" ++ x ≠ k) : ∀ (xs : List String) (h : Heap),
    (allocVars n xs h).2.lookup k = none := by
  intro xs
  induction xs with
  | nil => intro h; rfl
  | cons x xs ih =>
    intro h
    simp only [allocVars]
    have := ih (h ++ [cellArray n (.int 0)])
    generalize allocVars n xs (h ++ [cellArray n (.int 0)]) = r at this
    obtain ⟨h1, ss⟩ := r
    simp only at this ⊢
    have hb : (k == "_" ++ x) = false := by simpa using (hk x).symm
    simp [List.lookup, hb, this]

theorem stageInterface_lookup_none (cd : ClassDesc) (names : List String) (n : Nat) (h : Heap) (k : String)
    (hk : ∀ x, "_" ++ x ≠ k)
    (h1 : k ≠ "dtype") (h2 : k ≠ "_status") (h3 : k ≠ "_iterations") (h4 : k ≠ "names") (h5 : k ≠ "lags")
    (h6 : k ≠ "leads") : (stageInterface cd names n h).2.lookup k = none := by
  unfold stageInterface
  by_cases hc : cd.base = .container
  · simp [hc, List.lookup]
  · simp only [hc, if_false]
    have := lookup_allocVars_none n k hk names (h ++ [cellArray n (.str "-"), cellArray n (.int (-1)), strList names])
    generalize allocVars n names (h ++ [cellArray n (.str "-"), cellArray n (.int (-1)), strList names]) = r at this
    obtain ⟨hh, ss⟩ := r
    simp only at this ⊢
    have b1 : (k == "dtype") = false := by simpa using h1
    have b2 : (k == "_status") = false := by simpa using h2
    have b3 : (k == "_iterations") = false := by simpa using h3
    have b4 : (k == "names") = false := by simpa using h4
    have b5 : (k == "lags") = false := by simpa using h5
    have b6 : (k == "leads") = false := by simpa using h6
    simp [lookup_append, List.lookup, this, b1, b2, b3, b4, b5, b6]

/-- `add_attribute('endogenous', self.ENDOGENOUS)`: the entry *is* the class-level list. -/
theorem construct_lookup_endogenous (cd : ClassDesc) (h : Heap) (span sub : Val) (hc : cd.base ≠ .container) :
    (construct false cd h span sub).2.lookup "endogenous" = some (classAttr h cd "ENDOGENOUS") := by
  unfold construct
  simp only [thread_snd]
  have hA : (stageAlias cd h).2.lookup "endogenous" = none := by
    unfold stageAlias
    by_cases ha : cd.alias = true <;> simp [ha, List.lookup]
  have hL : (stageLinker cd sub).lookup "endogenous" = none := by
    unfold stageLinker
    by_cases hl : cd.base = .linker <;> simp [hl, List.lookup]
  have hI := fun names n h' => stageInterface_lookup_none cd names n h' "endogenous" us_ne_endogenous
    (by decide) (by decide) (by decide) (by decide) (by decide) (by decide)
  simp only [List.nil_append, lookup_append, hA, hL, hI]
  simp [stageContainer, stageModel, hc, List.lookup]

theorem construct_lookup_check (cd : ClassDesc) (h : Heap) (span sub : Val) (hc : cd.base ≠ .container) :
    (construct false cd h span sub).2.lookup "check" = some (classAttr h cd "CHECK") := by
  unfold construct
  simp only [thread_snd]
  have hA : (stageAlias cd h).2.lookup "check" = none := by
    unfold stageAlias
    by_cases ha : cd.alias = true <;> simp [ha, List.lookup]
  have hL : (stageLinker cd sub).lookup "check" = none := by
    unfold stageLinker
    by_cases hl : cd.base = .linker <;> simp [hl, List.lookup]
  have hI := fun names n h' => stageInterface_lookup_none cd names n h' "check" us_ne_check
    (by decide) (by decide) (by decide) (by decide) (by decide) (by decide)
  simp only [List.nil_append, lookup_append, hA, hL, hI]
  simp [stageContainer, stageModel, hc, List.lookup]

theorem ClassOK.ext {h0 h : Heap} (wf0 : WF h0) (e : Ext h0 h) {cd : ClassDesc} (ok : ClassOK h0 cd) :
    ClassOK h cd := by
  refine ⟨by have := ok.valid; have := e.len; omega, ?_⟩
  intro k o ho
  rw [getObj_classAttr_ext wf0 e ok] at ho
  exact ok.leaf k o ho

theorem blk_self (h : Heap) : Blk h.length h := by
  intro l o k c hl ho hm
  have := getElem?_lt ho; omega

/-- The class-level list case. -/
def ClassList (fix : Bool) (cd : ClassDesc) (h : Heap) (x : Nat) : Prop :=
  fix = false ∧ cd.base ≠ .container ∧
    (classAttr h cd "ENDOGENOUS" = .ref x ∨ classAttr h cd "CHECK" = .ref x)

theorem ClassList.lt {fix : Bool} {cd : ClassDesc} {h : Heap} (wf : WF h) (ok : ClassOK h cd) {x : Nat}
    (c : ClassList fix cd h x) : x < h.length := by
  rcases c.2.2 with h1 | h1
  · exact classAttr_valid wf ok _ _ h1
  · exact classAttr_valid wf ok _ _ h1

theorem getElem?_append_self (h : Heap) (o : Obj) : (h ++ [o])[h.length]? = some o := by simp

/-- A new instance (immutable constructor arguments) reaches its own new objects, and nothing older than the
    constructor call except the two class-level lists. -/
theorem reach_newInst {fix : Bool} {ci : Nat} {cd : ClassDesc} {h : Heap} {span sub : Val} (wf : WF h)
    (ok : ClassOK h cd) (hspan : ∃ i, span = .imm i) (hsub : ∃ i, sub = .imm i) :
    Ext h (newInst fix ci cd h span sub).1 ∧ WF (newInst fix ci cd h span sub).1 ∧
    h.length ≤ (newInst fix ci cd h span sub).2 ∧
    (newInst fix ci cd h span sub).2 < (newInst fix ci cd h span sub).1.length ∧
    ∀ x, Reach (newInst fix ci cd h span sub).1 (newInst fix ci cd h span sub).2 x →
      h.length ≤ x ∨ ClassList fix cd h x := by
  obtain ⟨i1, rfl⟩ := hspan
  obtain ⟨i2, rfl⟩ := hsub
  have C := construct_ok (b := h.length) wf (Ext.refl h) ok (blk_self h) (Nat.le_refl _) fix (.imm i1) (.imm i2)
    (NewV.imm _ _ _) (NewV.imm _ _ _)
  unfold newInst
  generalize construct fix cd h (.imm i1) (.imm i2) = r at C
  obtain ⟨h1, ss⟩ := r
  simp only at C ⊢
  have Cext : Ext h h1 := C.ext
  have Cblk : Blk h.length h1 := C.blk
  have Cslots : ∀ k v, (k, v) ∈ ss → NewV h.length h1 v ∨ (fix = false ∧ cd.base ≠ .container ∧
    ((k = "endogenous" ∧ v = classAttr h cd "ENDOGENOUS") ∨ (k = "check" ∧ v = classAttr h cd "CHECK"))) := C.slots
  clear C
  have len1 : h.length ≤ h1.length := Cext.len
  have wf1 : WF (h1 ++ [⟨.inst ci, ss⟩]) := by
    intro l o k c ho hm
    simp only [List.length_append, List.length_singleton]
    by_cases hl : l < h1.length
    · rw [getElem?_append_lt h1 _ hl] at ho
      have := wf_of_blk wf Cext Cblk l o k c ho hm
      omega
    · have hl' : l = h1.length := by have := getElem?_lt ho; simp at this; omega
      subst hl'
      rw [getElem?_append_self] at ho
      cases ho
      rcases Cslots k _ hm with h2 | ⟨_, _, h2⟩
      · have := (h2 c rfl).2; omega
      · rcases h2 with ⟨_, h3⟩ | ⟨_, h3⟩
        · have := classAttr_valid wf ok _ _ h3.symm; omega
        · have := classAttr_valid wf ok _ _ h3.symm; omega
  refine ⟨Cext.trans (Ext.append _ _), wf1, len1, by simp, ?_⟩
  intro x r
  induction r with
  | refl => exact Or.inl len1
  | @step b' c ob k rb hob hm ih =>
    rcases ih with hb | hb
    · by_cases hl : b' < h1.length
      · rw [getElem?_append_lt h1 _ hl] at hob
        exact Or.inl (Cblk b' ob k c hb hob hm).1
      · have hl' : b' = h1.length := by have := getElem?_lt hob; simp at this; omega
        subst hl'
        rw [getElem?_append_self] at hob
        cases hob
        rcases Cslots k _ hm with h2 | ⟨hf, hnc, h2⟩
        · exact Or.inl (h2 c rfl).1
        · rcases h2 with ⟨_, h3⟩ | ⟨_, h3⟩
          · exact Or.inr ⟨hf, hnc, Or.inl h3.symm⟩
          · exact Or.inr ⟨hf, hnc, Or.inr h3.symm⟩
    · -- a class-level list holds strings only: nothing is reachable through it
      have hlt := hb.lt wf ok
      have hob' : h[b']? = some ob := by
        rw [← (Cext.trans (Ext.append _ _)).get hlt]; exact hob
      rcases hb.2.2 with h3 | h3
      · exact absurd hm (ok.leaf "ENDOGENOUS" ob (by rw [h3]; exact hob') k c)
      · exact absurd hm (ok.leaf "CHECK" ob (by rw [h3]; exact hob') k c)

/-- Reachability from an old root is not affected by extending the heap. -/
theorem reach_ext_iff {h h1 : Heap} (wf : WF h) (e : Ext h h1) {a : Nat} (ha : a < h.length) (x : Nat) :
    Reach h1 a x ↔ Reach h a x := by
  have same : ∀ y, Reach h a y → h1[y]? = h[y]? := fun y ry => e.get (reach_lt wf ha ry)
  exact ⟨reach_of_same' same, reach_of_same same⟩

/-- Two instances built one after the other share at most the class-level lists. -/
theorem siblings_shared {fix : Bool} {ci : Nat} {cd : ClassDesc} {h : Heap} {spanA subA spanB subB : Val}
    (wf : WF h) (ok : ClassOK h cd) (hA : ∃ i, spanA = .imm i) (hA' : ∃ i, subA = .imm i)
    (hB : ∃ i, spanB = .imm i) (hB' : ∃ i, subB = .imm i) (x : Nat)
    (ra : Reach (newInst fix ci cd (newInst fix ci cd h spanA subA).1 spanB subB).1
      (newInst fix ci cd h spanA subA).2 x)
    (rb : Reach (newInst fix ci cd (newInst fix ci cd h spanA subA).1 spanB subB).1
      (newInst fix ci cd (newInst fix ci cd h spanA subA).1 spanB subB).2 x) :
    ClassList fix cd h x := by
  obtain ⟨eA, wfA, loA, hiA, RA⟩ := reach_newInst (fix := fix) (ci := ci) wf ok hA hA'
  generalize newInst fix ci cd h spanA subA = pa at *
  obtain ⟨h1, a⟩ := pa
  simp only at *
  have okA := ok.ext wf eA
  obtain ⟨eB, wfB, loB, hiB, RB⟩ := reach_newInst (fix := fix) (ci := ci) wfA okA hB hB'
  generalize newInst fix ci cd h1 spanB subB = pb at *
  obtain ⟨h2, b⟩ := pb
  simp only at *
  have ra' := (reach_ext_iff wfA eB hiA x).mp ra
  have xlt := reach_lt wfA hiA ra'
  have cl : ∀ y, ClassList fix cd h1 y → ClassList fix cd h y := by
    intro y ⟨c1, c2, c3⟩
    refine ⟨c1, c2, ?_⟩
    rwa [classAttr_ext wf eA ok, classAttr_ext wf eA ok] at c3
  rcases RB x rb with h3 | h3
  · omega
  · exact cl x h3

/-- An instance and its class share at most the class-level lists `ENDOGENOUS` / `CHECK`. -/
theorem instance_class_shared {fix : Bool} {ci : Nat} {cd : ClassDesc} {h : Heap} {span sub : Val}
    (wf : WF h) (ok : ClassOK h cd) (hA : ∃ i, span = .imm i) (hA' : ∃ i, sub = .imm i) (x : Nat)
    (ra : Reach (newInst fix ci cd h span sub).1 (newInst fix ci cd h span sub).2 x)
    (rc : Reach (newInst fix ci cd h span sub).1 cd.attrs x) : ClassList fix cd h x := by
  obtain ⟨eA, wfA, loA, hiA, RA⟩ := reach_newInst (fix := fix) (ci := ci) wf ok hA hA'
  generalize newInst fix ci cd h span sub = pa at *
  obtain ⟨h1, a⟩ := pa
  simp only at *
  have rc' := (reach_ext_iff wf eA ok.valid x).mp rc
  have xlt := reach_lt wf ok.valid rc'
  rcases RA x ra with h3 | h3
  · omega
  · exact h3

/-- `endogenous` of a new model / linker instance leads to the class-level list. -/
theorem newInst_reaches_endogenous {ci : Nat} {cd : ClassDesc} {h : Heap} {span sub : Val}
    (hc : cd.base ≠ .container) {e : Nat} (he : classAttr h cd "ENDOGENOUS" = .ref e) :
    Reach (newInst false ci cd h span sub).1 (newInst false ci cd h span sub).2 e := by
  have L := construct_lookup_endogenous cd h span sub hc
  unfold newInst
  generalize construct false cd h span sub = r at L
  obtain ⟨h1, ss⟩ := r
  simp only at L ⊢
  rw [he] at L
  exact Reach.single (getElem?_append_self h1 _) (lookup_mem _ _ _ L)

end Fsic.Heap
