import Proofs.Lemmas.HeapObs
/-
What a freshly constructed instance can reach: its own new objects only (`endogenous` / `check` are copies of the
class-level lists).  Hence two sibling instances, and an instance and its class, share nothing.
-/
set_option linter.unusedSimpArgs false
set_option linter.unusedVariables false
namespace Fsic.Heap

theorem ClassOK.ext {h0 h : Heap} (wf0 : WF h0) (e : Ext h0 h) {cd : ClassDesc} (ok : ClassOK h0 cd) :
    ClassOK h cd := by
  refine ⟨by have := ok.valid; have := e.len; omega, ?_⟩
  intro k o ho
  rw [getObj_classAttr_ext wf0 e ok] at ho
  exact ok.leaf k o ho

theorem blk_self (h : Heap) : Blk h.length h := by
  intro l o k c hl ho hm
  have := getElem?_lt ho; omega

theorem getElem?_append_self (h : Heap) (o : Obj) : (h ++ [o])[h.length]? = some o := by simp

/-- A new instance (immutable constructor arguments) reaches its own new objects and nothing older than the
    constructor call. -/
theorem reach_newInst {ci : Nat} {cd : ClassDesc} {h : Heap} {span sub : Val} (wf : WF h)
    (ok : ClassOK h cd) (hspan : ∃ i, span = .imm i) (hsub : ∃ i, sub = .imm i) :
    Ext h (newInst ci cd h span sub).1 ∧ WF (newInst ci cd h span sub).1 ∧
    h.length ≤ (newInst ci cd h span sub).2 ∧
    (newInst ci cd h span sub).2 < (newInst ci cd h span sub).1.length ∧
    ∀ x, Reach (newInst ci cd h span sub).1 (newInst ci cd h span sub).2 x → h.length ≤ x := by
  obtain ⟨i1, rfl⟩ := hspan
  obtain ⟨i2, rfl⟩ := hsub
  have C := construct_ok (b := h.length) wf (Ext.refl h) ok (blk_self h) (Nat.le_refl _) (.imm i1) (.imm i2)
    (NewV.imm _ _ _) (NewV.imm _ _ _)
  unfold newInst
  generalize construct cd h (.imm i1) (.imm i2) = r at C
  obtain ⟨h1, ss⟩ := r
  simp only at C ⊢
  have Cext : Ext h h1 := C.ext
  have Cblk : Blk h.length h1 := C.blk
  have Cslots : ∀ k v, (k, v) ∈ ss → NewV h.length h1 v := C.slots
  clear C
  have len1 : h.length ≤ h1.length := Cext.len
  have B2 : Blk h.length (h1 ++ [⟨.inst ci, ss⟩]) := by
    apply Cblk.append
    intro e he k c hm
    simp at he; subst he
    have := Cslots k _ hm c rfl
    simp; omega
  refine ⟨Cext.trans (Ext.append _ _), wf_of_blk wf (Cext.trans (Ext.append _ _)) B2, len1, by simp, ?_⟩
  intro x r
  exact B2.reach len1 r

/-- Reachability from an old root is not affected by extending the heap. -/
theorem reach_ext_iff {h h1 : Heap} (wf : WF h) (e : Ext h h1) {a : Nat} (ha : a < h.length) (x : Nat) :
    Reach h1 a x ↔ Reach h a x := by
  have same : ∀ y, Reach h a y → h1[y]? = h[y]? := fun y ry => e.get (reach_lt wf ha ry)
  exact ⟨reach_of_same' same, reach_of_same same⟩

/-- Two instances built one after the other share nothing. -/
theorem siblings_shared {ci : Nat} {cd : ClassDesc} {h : Heap} {spanA subA spanB subB : Val}
    (wf : WF h) (ok : ClassOK h cd) (hA : ∃ i, spanA = .imm i) (hA' : ∃ i, subA = .imm i)
    (hB : ∃ i, spanB = .imm i) (hB' : ∃ i, subB = .imm i) (x : Nat)
    (ra : Reach (newInst ci cd (newInst ci cd h spanA subA).1 spanB subB).1 (newInst ci cd h spanA subA).2 x)
    (rb : Reach (newInst ci cd (newInst ci cd h spanA subA).1 spanB subB).1
      (newInst ci cd (newInst ci cd h spanA subA).1 spanB subB).2 x) : False := by
  obtain ⟨eA, wfA, loA, hiA, RA⟩ := reach_newInst (ci := ci) wf ok hA hA'
  generalize newInst ci cd h spanA subA = pa at *
  obtain ⟨h1, a⟩ := pa
  simp only at *
  have okA := ok.ext wf eA
  obtain ⟨eB, wfB, loB, hiB, RB⟩ := reach_newInst (ci := ci) wfA okA hB hB'
  generalize newInst ci cd h1 spanB subB = pb at *
  obtain ⟨h2, b⟩ := pb
  simp only at *
  have ra' := (reach_ext_iff wfA eB hiA x).mp ra
  have xlt := reach_lt wfA hiA ra'
  have := RB x rb
  omega

/-- An instance and its class share nothing. -/
theorem instance_class_shared {ci : Nat} {cd : ClassDesc} {h : Heap} {span sub : Val}
    (wf : WF h) (ok : ClassOK h cd) (hA : ∃ i, span = .imm i) (hA' : ∃ i, sub = .imm i) (x : Nat)
    (ra : Reach (newInst ci cd h span sub).1 (newInst ci cd h span sub).2 x)
    (rc : Reach (newInst ci cd h span sub).1 cd.attrs x) : False := by
  obtain ⟨eA, wfA, loA, hiA, RA⟩ := reach_newInst (ci := ci) wf ok hA hA'
  generalize newInst ci cd h span sub = pa at *
  obtain ⟨h1, a⟩ := pa
  simp only at *
  have rc' := (reach_ext_iff wf eA ok.valid x).mp rc
  have xlt := reach_lt wf ok.valid rc'
  have := RA x ra
  omega

/-! ### Caller-owned (mutable) constructor arguments

`self.__dict__['span'] = span` stores the caller's object by reference.  The caller allocates a span list `s`
(location `h.length`; the caller keeps that handle) and passes it to the constructor. -/

theorem wf_append_leaf {h : Heap} (wf : WF h) {s : Obj} (leaf : ∀ k c, (k, Val.ref c) ∉ s.slots) : WF (h ++ [s]) := by
  intro l o k c ho hm
  by_cases hl : l < h.length
  · rw [getElem?_append_lt h _ hl] at ho
    have := wf l o k c ho hm
    simp; omega
  · have : l = h.length := by have := getElem?_lt ho; simp at this; omega
    subst this
    rw [getElem?_append_self] at ho
    cases ho
    exact absurd hm (leaf k c)

/-- A new instance built on the caller's own span list `s` reaches its own new objects and that list — nothing
    older. -/
theorem reach_newInst_span {ci : Nat} {cd : ClassDesc} {h : Heap} {s : Obj} {sub : Val} (wf : WF h)
    (ok : ClassOK h cd) (leaf : ∀ k c, (k, Val.ref c) ∉ s.slots) (hsub : ∃ i, sub = .imm i) :
    Ext (h ++ [s]) (newInst ci cd (h ++ [s]) (.ref h.length) sub).1 ∧
    WF (newInst ci cd (h ++ [s]) (.ref h.length) sub).1 ∧
    h.length < (newInst ci cd (h ++ [s]) (.ref h.length) sub).2 ∧
    (newInst ci cd (h ++ [s]) (.ref h.length) sub).2 < (newInst ci cd (h ++ [s]) (.ref h.length) sub).1.length ∧
    (∀ x, Reach (newInst ci cd (h ++ [s]) (.ref h.length) sub).1 (newInst ci cd (h ++ [s]) (.ref h.length) sub).2 x →
      h.length ≤ x) := by
  obtain ⟨i2, rfl⟩ := hsub
  have wf' : WF (h ++ [s]) := wf_append_leaf wf leaf
  have ok' : ClassOK (h ++ [s]) cd := ok.ext wf (Ext.append _ _)
  have B' : Blk h.length (h ++ [s]) := by
    apply (blk_self h).append
    intro e he k c hm
    simp at he; subst he
    exact absurd hm (leaf k c)
  have C := construct_ok (b := h.length) wf' (Ext.refl _) ok' B' (by simp) (.ref h.length) (.imm i2)
    (NewV.ref (Nat.le_refl _) (by simp)) (NewV.imm _ _ _)
  unfold newInst
  generalize construct cd (h ++ [s]) (.ref h.length) (.imm i2) = r at C
  obtain ⟨h1, ss⟩ := r
  simp only at C ⊢
  have Cext : Ext (h ++ [s]) h1 := C.ext
  have Cblk : Blk h.length h1 := C.blk
  have Cslots : ∀ k v, (k, v) ∈ ss → NewV h.length h1 v := C.slots
  clear C
  have len1 := Cext.len
  simp at len1
  have B2 : Blk h.length (h1 ++ [⟨.inst ci, ss⟩]) := by
    apply Cblk.append
    intro e he k c hm
    simp at he; subst he
    have := Cslots k _ hm c rfl
    simp; omega
  refine ⟨Cext.trans (Ext.append _ _),
    wf_of_blk wf ((Ext.append h [s]).trans (Cext.trans (Ext.append _ _))) B2, by omega, by simp, ?_⟩
  intro x r
  exact B2.reach (by omega) r

/-- In a fresh instance the `span` entry is the constructor argument itself. -/
theorem construct_lookup_span (cd : ClassDesc) (h : Heap) (span sub : Val) :
    (construct cd h span sub).2.lookup "span" = some span := by
  unfold construct
  simp only [thread_snd]
  have hA : (stageAlias cd h).2.lookup "span" = none := by
    unfold stageAlias
    by_cases ha : cd.alias = true <;> simp [ha, List.lookup]
  have hL : ∀ h', (stageLinker cd sub h').2.lookup "span" = none := by
    intro h'
    unfold stageLinker
    by_cases hl : cd.base = .linker
    · cases sub <;> simp [hl, List.lookup]
    · simp [hl, List.lookup]
  simp only [List.nil_append, lookup_append, hA, hL]
  simp [stageContainer, List.lookup]

end Fsic.Heap
