import Proofs.Lemmas.HeapBisim
/-
`copy.deepcopy` / `copy()` return something observationally equal to the original (`BSpec`, by induction on the fuel).
-/
set_option linter.unusedSimpArgs false
set_option linter.unusedVariables false
namespace Fsic.Heap

def MemoSim (h : Heap) (m : Memo) : Prop := ∀ a c, (a, c) ∈ m → ObsEq h a c

theorem MemoSim.mono {h h1 : Heap} {m : Memo} (e : Ext h h1) (M : MemoSim h m) : MemoSim h1 m :=
  fun a c hm => (M a c hm).ext e

theorem MemoSim.nil (h : Heap) : MemoSim h [] := by intro a c hm; simp at hm

/-- Beyond `WorldOK`: instance `__dict__`s have unique keys and contain every key their constructor creates
    (entries are never deleted), so `copied.__dict__.update(...)` overwrites the whole fresh `__dict__`. -/
structure WorldOK2 (cs : List ClassDesc) (h0 : Heap) : Prop extends WorldOK cs h0 where
  nodup : ∀ (l : Nat) (o : Obj) (ci : Nat), h0[l]? = some o → o.kind = .inst ci → (o.slots.map Prod.fst).Nodup
  ctor : ∀ (l : Nat) (o : Obj) (ci : Nat) (cd : ClassDesc), h0[l]? = some o → o.kind = .inst ci →
    cs[ci]? = some cd → ∀ k, k ∈ ctorKeys cd (modelNames h0 cd) → k ∈ o.slots.map Prod.fst
  /-- `submodels` of a linker is a `dict` (the copy is built by a dict comprehension). -/
  subDict : ∀ (l : Nat) (o d : Obj) (ci : Nat), h0[l]? = some o → o.kind = .inst ci →
    getObj h0 ((o.slots.lookup "submodels").getD (.imm .none)) = some d → d.kind = .dict

def BSpec (h0 : Heap) (dc : Copier) : Prop :=
  ∀ h m v h1 m1 v1, Ext h0 h → Blk h0.length h → MemoOK h0.length h m → OldV h0.length v → MemoSim h m →
    dc h m v = some (h1, m1, v1) → MemoSim h1 m1 ∧ ObsEqV h1 v v1

theorem copySlotsWith_bspec {h0 : Heap} {dc : Copier} (S : Spec h0 dc) (T : BSpec h0 dc) :
    ∀ (ss : List (String × Val)) (h : Heap) (m : Memo) (h1 : Heap) (m1 : Memo) (ss' : List (String × Val)),
    Ext h0 h → Blk h0.length h → MemoOK h0.length h m → OldSlots h0.length ss → MemoSim h m →
    copySlotsWith dc h m ss = some (h1, m1, ss') →
    MemoSim h1 m1 ∧ SlotsRel (ObsEqV h1) ss ss' := by
  intro ss
  induction ss with
  | nil =>
    intro h m h1 m1 ss' e B M O Q hc
    simp [copySlotsWith] at hc
    obtain ⟨rfl, rfl, rfl⟩ := hc
    exact ⟨Q, .nil⟩
  | cons kv ss ih =>
    intro h m h1 m1 ss' e B M O Q hc
    obtain ⟨k, v⟩ := kv
    simp only [copySlotsWith] at hc
    cases hd : dc h m v with
    | none => simp [hd] at hc
    | some r =>
      obtain ⟨ha, ma, va⟩ := r
      simp only [hd] at hc
      obtain ⟨ea, Ba, Ma, _⟩ := S h m v ha ma va e B M (O k v List.mem_cons_self) hd
      obtain ⟨Qa, Va⟩ := T h m v ha ma va e B M (O k v List.mem_cons_self) Q hd
      cases hr : copySlotsWith dc ha ma ss with
      | none => simp [hr] at hc
      | some r2 =>
        obtain ⟨hb, mb, ssb⟩ := r2
        simp only [hr] at hc
        cases hc
        obtain ⟨eb, _, _, _⟩ := copySlotsWith_spec S ss ha ma h1 m1 ssb (e.trans ea) Ba Ma O.tail hr
        obtain ⟨Qb, Rb⟩ := ih ha ma h1 m1 ssb (e.trans ea) Ba Ma O.tail Qa hr
        exact ⟨Qb, .cons (Va.ext eb) Rb⟩

theorem copyEachWith_bspec {h0 : Heap} {dc : Copier} (S : Spec h0 dc) (T : BSpec h0 dc) :
    ∀ (ss : List (String × Val)) (h : Heap) (h1 : Heap) (ss' : List (String × Val)),
    Ext h0 h → Blk h0.length h → OldSlots h0.length ss →
    copyEachWith dc h ss = some (h1, ss') → SlotsRel (ObsEqV h1) ss ss' := by
  intro ss
  induction ss with
  | nil =>
    intro h h1 ss' e B O hc
    simp [copyEachWith] at hc
    obtain ⟨rfl, rfl⟩ := hc
    exact .nil
  | cons kv ss ih =>
    intro h h1 ss' e B O hc
    obtain ⟨k, v⟩ := kv
    simp only [copyEachWith] at hc
    cases hd : dc h [] v with
    | none => simp [hd] at hc
    | some r =>
      obtain ⟨ha, ma, va⟩ := r
      simp only [hd] at hc
      obtain ⟨ea, Ba, _, _⟩ := S h [] v ha ma va e B (MemoOK.nil _ _) (O k v List.mem_cons_self) hd
      obtain ⟨_, Va⟩ := T h [] v ha ma va e B (MemoOK.nil _ _) (O k v List.mem_cons_self) (MemoSim.nil _) hd
      cases hr : copyEachWith dc ha ss with
      | none => simp [hr] at hc
      | some r2 =>
        obtain ⟨hb, ssb⟩ := r2
        simp only [hr] at hc
        cases hc
        obtain ⟨eb, _, _, _⟩ := copyEachWith_spec S ss ha h1 ssb (e.trans ea) Ba O.tail hr
        exact .cons (Va.ext eb) (ih ha h1 ssb (e.trans ea) Ba O.tail hr)

theorem SlotsRel.ext {h h1 : Heap} (e : Ext h h1) {ss ss' : List (String × Val)}
    (r : SlotsRel (ObsEqV h) ss ss') : SlotsRel (ObsEqV h1) ss ss' :=
  r.mono (fun _ _ q => q.ext e)

theorem valRel_ext {h h1 : Heap} (e : Ext h h1) {a b : Option Val} (r : ValRel (ObsEq h) a b) :
    ValRel (ObsEq h1) a b := r.mono (fun _ _ q => q.ext e)

theorem nodup_dropKey (k : String) {ss : List (String × Val)} (nd : (ss.map Prod.fst).Nodup) :
    ((dropKey k ss).map Prod.fst).Nodup := by
  induction ss with
  | nil => simp [dropKey]
  | cons kv ss ih =>
    obtain ⟨k0, v0⟩ := kv
    simp only [List.map_cons, List.nodup_cons] at nd
    unfold dropKey
    by_cases hk : k0 = k
    · simp only [hk, if_true]; exact ih nd.2
    · simp only [hk, if_false, List.map_cons, List.nodup_cons]
      refine ⟨?_, ih nd.2⟩
      intro hmem
      obtain ⟨⟨k', v'⟩, hm1, hm2⟩ := List.mem_map.mp hmem
      simp at hm2; subst hm2
      exact nd.1 (List.mem_map.mpr ⟨(k', v'), (mem_dropKey hm1).1, rfl⟩)

theorem valRel_none : ∀ (R : Nat → Nat → Prop), ValRel R none none := fun _ => trivial

/-- Entries of the new `__dict__` agree key by key with the original's. -/
theorem copyInstWith_bspec {cs : List ClassDesc} {h0 : Heap} (W : WorldOK2 cs h0) {dc : Copier}
    (S : Spec h0 dc) (T : BSpec h0 dc) {cd : ClassDesc} {ci : Nat} (hcd : cs[ci]? = some cd) {l : Nat} {o : Obj}
    (ho : h0[l]? = some o) (hk : o.kind = .inst ci) {h h1 : Heap} {ss : List (String × Val)}
    (e : Ext h0 h) (B : Blk h0.length h) (hc : copyInstWith dc cd h o = some (h1, ss)) :
    ∀ k, ValRel (ObsEq h1) (o.slots.lookup k) (ss.lookup k) := by
  have ok := W.classes ci cd hcd
  have O := oldSlots_of_wf W.wf ho
  have nd := W.nodup l o ci ho hk
  have ctor := W.ctor l o ci cd ho hk hcd
  unfold copyInstWith at hc
  by_cases hl : cd.base = .linker
  · simp only [hl, if_true] at hc
    have Osub := lookup_getD_old O "submodels"
    rw [getObj_old e Osub] at hc
    cases hd : getObj h0 ((o.slots.lookup "submodels").getD (.imm .none)) with
    | none => simp [hd] at hc
    | some d =>
      simp only [hd] at hc
      cases hv : (o.slots.lookup "submodels").getD (.imm .none) with
      | imm i => simp [hv, getObj] at hd
      | ref dl =>
        simp only [hv, getObj] at hd
        have hsub : o.slots.lookup "submodels" = some (.ref dl) := by
          cases hlk : o.slots.lookup "submodels" with
          | none => simp [hlk] at hv
          | some w => simp [hlk] at hv; rw [hv]
        have Od : OldSlots h0.length d.slots := oldSlots_of_wf W.wf hd
        cases h1c : copyEachWith dc h d.slots with
        | none => simp [h1c] at hc
        | some r1 =>
          obtain ⟨ha, subs⟩ := r1
          simp only [h1c] at hc
          obtain ⟨ea, Ba, Na, _⟩ := copyEachWith_spec S d.slots h ha subs e B Od h1c
          have Ra := copyEachWith_bspec S T d.slots h ha subs e B Od h1c
          have lena := (e.trans ea).len
          have Bd : Blk h0.length (ha ++ [⟨.dict, subs⟩]) := by
            apply Ba.append
            intro e' he k c hm
            simp at he; subst he
            have := Na k _ hm c rfl
            simp; omega
          -- the new submodels dict is observationally equal to the old one
          have hdk : d.kind = .dict := W.subDict l o d ci ho hk (by simp [hv, getObj, hd])
          have Dd : ObsEq (ha ++ [⟨.dict, subs⟩]) dl ha.length := by
            have hd' : ha[dl]? = some d := (e.trans ea).get_some hd
            refine obsEq_new (o' := ⟨.dict, subs⟩) hd' hdk ?_
            intro k
            exact valRel_of_obsEqV ((Ra.ext (Ext.append _ _)).lookup k)
          obtain ⟨e2, B2, N2⟩ := linkerSpan_spec Bd (by simp; omega) subs
          generalize linkerSpan (ha ++ [⟨.dict, subs⟩]) subs = r2 at hc e2 B2 N2
          obtain ⟨h2, sp⟩ := r2
          simp only at hc e2 B2 N2
          have ed : Ext ha h2 := (Ext.append _ _).trans e2
          have len2 := ed.len
          have Nsub : NewV h0.length h2 (.ref ha.length) := by
            have := e2.len; simp at this
            exact NewV.ref lena (by omega)
          have C := construct_ok (b := h0.length) W.wf ((e.trans ea).trans ed) ok B2 (by omega) sp
            (.ref ha.length) N2 Nsub
          have CK := construct_keys cd h2 sp (.ref ha.length)
          have CS := construct_lookup_submodels cd h2 sp ha.length hl
          generalize construct cd h2 sp (.ref ha.length) = r3 at hc C CK CS
          obtain ⟨h3, init⟩ := r3
          simp only at hc CK CS
          cases h4c : copyEachWith dc h3 (dropKey "submodels" o.slots) with
          | none => simp [h4c] at hc
          | some r4 =>
            obtain ⟨h4, ss4⟩ := r4
            simp only [h4c] at hc
            cases hc
            have e3 : Ext h0 h3 := ((e.trans ea).trans ed).trans C.ext
            obtain ⟨e4, _, _, _⟩ := copyEachWith_spec S _ h3 h1 ss4 e3 C.blk (oldSlots_dropKey _ O) h4c
            have R4 := copyEachWith_bspec S T _ h3 h1 ss4 e3 C.blk (oldSlots_dropKey _ O) h4c
            have nd4 : (ss4.map Prod.fst).Nodup := by rw [R4.keys]; exact nodup_dropKey _ nd
            intro k
            rw [lookup_slotUpdate ss4 init k nd4]
            by_cases hks : k = "submodels"
            · subst hks
              have hnot : "submodels" ∉ ss4.map Prod.fst := by
                rw [R4.keys]
                intro hmem
                obtain ⟨⟨k', v'⟩, hm1, hm2⟩ := List.mem_map.mp hmem
                simp at hm2; subst hm2
                exact (mem_dropKey hm1).2 rfl
              simp only [hnot, if_false, CS, hsub]
              exact (Dd.ext (e2.trans (C.ext.trans e4)))
            · by_cases hm : k ∈ ss4.map Prod.fst
              · simp only [hm, if_true]
                have := valRel_of_obsEqV (R4.lookup k)
                rwa [lookup_dropKey_ne hks] at this
              · simp only [hm, if_false]
                rw [R4.keys] at hm
                have hm' : k ∉ o.slots.map Prod.fst := fun h' => hm (mem_keys_dropKey hks h')
                rw [lookup_none_of_not_mem hm']
                have : k ∉ init.map Prod.fst := by
                  rw [CK, modelNames_ext W.wf ((e.trans ea).trans ed) ok]
                  exact fun h' => hm' (ctor k h')
                rw [lookup_none_of_not_mem this]
                trivial
  · simp only [hl, if_false] at hc
    have Osp := lookup_getD_old O "span"
    cases hd : dc h [] ((o.slots.lookup "span").getD (.imm .none)) with
    | none => simp [hd] at hc
    | some r1 =>
      obtain ⟨ha, ma, sp⟩ := r1
      simp only [hd] at hc
      obtain ⟨ea, Ba, _, Nsp⟩ := S h [] _ ha ma sp e B (MemoOK.nil _ _) Osp hd
      have lena := (e.trans ea).len
      have C := construct_ok (b := h0.length) W.wf (e.trans ea) ok Ba (by omega) sp (.imm .none) Nsp
        (NewV.imm _ _ _)
      have CK := construct_keys cd ha sp (.imm .none)
      generalize construct cd ha sp (.imm .none) = r3 at hc C CK
      obtain ⟨h3, init⟩ := r3
      simp only at hc CK
      cases h4c : copySlotsWith dc h3 [] o.slots with
      | none => simp [h4c] at hc
      | some r4 =>
        obtain ⟨h4, m4, ss4⟩ := r4
        simp only [h4c] at hc
        cases hc
        obtain ⟨_, R4⟩ := copySlotsWith_bspec S T _ h3 [] h1 m4 ss4 ((e.trans ea).trans C.ext) C.blk
          (MemoOK.nil _ _) O (MemoSim.nil _) h4c
        intro k
        rw [lookup_slotUpdate ss4 init k (by rw [R4.keys]; exact nd)]
        by_cases hm : k ∈ ss4.map Prod.fst
        · simp only [hm, if_true]
          exact valRel_of_obsEqV (R4.lookup k)
        · simp only [hm, if_false]
          rw [R4.keys] at hm
          rw [lookup_none_of_not_mem hm]
          have : k ∉ init.map Prod.fst := by
            rw [CK, modelNames_ext W.wf (e.trans ea) ok]
            exact fun h' => hm (ctor k h')
          rw [lookup_none_of_not_mem this]
          trivial

theorem deepcopy_bspec {cs : List ClassDesc} {h0 : Heap} (W : WorldOK2 cs h0) :
    ∀ n, BSpec h0 (deepcopy cs n) := by
  intro n
  induction n with
  | zero =>
    intro h m v h1 m1 v1 e B M O Q hc
    cases v with
    | imm i =>
      simp [deepcopy] at hc
      obtain ⟨rfl, rfl, rfl⟩ := hc
      exact ⟨Q, rfl⟩
    | ref l => simp [deepcopy] at hc
  | succ n ih =>
    intro h m v h1 m1 v1 e B M O Q hc
    have S := deepcopy_spec W.toWorldOK n
    cases v with
    | imm i =>
      simp [deepcopy] at hc
      obtain ⟨rfl, rfl, rfl⟩ := hc
      exact ⟨Q, rfl⟩
    | ref l =>
      simp only [deepcopy] at hc
      cases hm : m.lookup l with
      | some l' =>
        simp [hm] at hc
        obtain ⟨rfl, rfl, rfl⟩ := hc
        exact ⟨Q, Q l _ (lookup_mem' _ _ _ hm)⟩
      | none =>
        simp only [hm] at hc
        have hl : l < h0.length := O l rfl
        rw [e.get hl] at hc
        cases ho : h0[l]? with
        | none => simp [ho] at hc
        | some o =>
          simp only [ho] at hc
          have hoh : ∀ {hx : Heap}, Ext h0 hx → hx[l]? = some o := fun ex => ex.get_some ho
          cases hk : o.kind with
          | inst ci =>
            simp only [hk] at hc
            cases hcd : cs[ci]? with
            | none => simp [hcd] at hc
            | some cd =>
              simp only [hcd] at hc
              cases hci : copyInstWith (deepcopy cs n) cd h o with
              | none => simp [hci] at hc
              | some r =>
                obtain ⟨ha, ss⟩ := r
                simp [hci] at hc
                obtain ⟨rfl, rfl, rfl⟩ := hc
                obtain ⟨ea, _, _⟩ := copyInstWith_spec W.toWorldOK S hcd ho hk e B hci
                have V := copyInstWith_bspec W S ih hcd ho hk e B hci
                have E : ObsEq (ha ++ [⟨.inst ci, ss⟩]) l ha.length :=
                  obsEq_new (o' := ⟨.inst ci, ss⟩) (hoh (e.trans ea)) hk
                    (fun k => valRel_ext (Ext.append _ _) (V k))
                refine ⟨?_, E⟩
                intro a c hmem
                rcases List.mem_cons.mp hmem with h2 | h2
                · cases h2; exact E
                · exact (Q.mono (ea.trans (Ext.append _ _))) a c h2
          | uncopyable => simp [hk] at hc
          | list | array | dict | tuple | trace | cls =>
            simp only [hk] at hc
            cases hcs : copySlotsWith (deepcopy cs n) h m o.slots with
            | none => simp [hcs] at hc
            | some r =>
              obtain ⟨ha, ma, ss⟩ := r
              simp [hcs] at hc
              obtain ⟨rfl, rfl, rfl⟩ := hc
              obtain ⟨ea, _, _, _⟩ := copySlotsWith_spec S o.slots h m ha ma ss e B M
                (oldSlots_of_wf W.wf ho) hcs
              obtain ⟨Qa, Ra⟩ := copySlotsWith_bspec S ih o.slots h m ha ma ss e B M
                (oldSlots_of_wf W.wf ho) Q hcs
              have E : ObsEq (ha ++ [⟨o.kind, ss⟩]) l ha.length :=
                obsEq_new (o' := ⟨o.kind, ss⟩) (hoh (e.trans ea)) rfl
                  (fun k => valRel_of_obsEqV ((Ra.ext (Ext.append _ _)).lookup k))
              rw [hk] at E
              refine ⟨?_, E⟩
              intro a c hmem
              rcases List.mem_cons.mp hmem with h2 | h2
              · cases h2; exact E
              · exact (Qa.mono (Ext.append _ _)) a c h2

/-- The copy is observationally equal to the original. -/
theorem copyRoot_obsEq {cs : List ClassDesc} {h0 : Heap} (W : WorldOK2 cs h0) {a c : Nat} {h1 : Heap}
    (ha : a < h0.length) (hc : copyRoot cs h0 a = some (h1, c)) : ObsEq h1 a c := by
  unfold copyRoot at hc
  cases hd : deepcopy cs (h0.length + 1) h0 [] (.ref a) with
  | none => simp [hd] at hc
  | some r =>
    obtain ⟨hh, mm, v⟩ := r
    cases v with
    | imm i => simp [hd] at hc
    | ref c' =>
      simp [hd] at hc
      obtain ⟨rfl, rfl⟩ := hc
      have B0 : Blk h0.length h0 := by
        intro l o k c hl ho hm
        have := getElem?_lt ho; omega
      exact (deepcopy_bspec W (h0.length + 1) h0 [] (.ref a) hh mm (.ref c') (Ext.refl _) B0
        (MemoOK.nil _ _) (fun c hc => by cases hc; exact ha) (MemoSim.nil _) hd).2

end Fsic.Heap
