import Proofs.Lemmas.Lexer
set_option linter.unusedSimpArgs false
set_option linter.unusedVariables false
/-
The three whitespace substitutions of `parse_equation`: invariants each pass establishes / preserves, and that a
text satisfying them is a fixed point of every pass.
-/
namespace Fsic.Lx

/-- every whitespace character is a single `' '` (`pw` = the previous character was whitespace) -/
def clean : Bool → List Char → Bool
  | _, [] => true
  | pw, c :: cs => if isSpace c then (c == ' ' && !pw && clean true cs) else clean false cs

/-- no whitespace directly after `(` (`po` = the previous character was `(`) -/
def noOpenWs : Bool → List Char → Bool
  | _, [] => true
  | po, c :: cs => !(po && isSpace c) && noOpenWs (c == '(') cs

def headIs (d : Char) : List Char → Bool
  | [] => false
  | c :: _ => c == d

/-- no whitespace directly before `)` -/
def noWsClose : List Char → Bool
  | [] => true
  | c :: cs => !(isSpace c && headIs ')' cs) && noWsClose cs

theorem clean_weaken : ∀ (s : List Char), clean true s = true → clean false s = true
  | [], _ => rfl
  | c :: cs, h => by
    unfold clean at h ⊢
    split
    · rename_i hc; simp [hc] at h
    · rename_i hc; simpa [hc] using h

theorem open_not_space : isSpace '(' = false := by decide
theorem close_not_space : isSpace ')' = false := by decide
theorem blank_space : isSpace ' ' = true := by decide

/-! ### pass 1 -/

theorem collapse_ws_ws (c d : Char) (cs : List Char) (hc : isSpace c = true) (hd : isSpace d = true) :
    collapseWs (c :: d :: cs) = collapseWs (d :: cs) := by
  conv => lhs; unfold collapseWs
  simp [hc, hd]

theorem collapse_ws_ns (c d : Char) (cs : List Char) (hc : isSpace c = true) (hd : isSpace d = false) :
    collapseWs (c :: d :: cs) = ' ' :: collapseWs (d :: cs) := by
  conv => lhs; unfold collapseWs
  simp [hc, hd]

theorem collapse_ws_nil (c : Char) (hc : isSpace c = true) : collapseWs [c] = [' '] := by
  simp [collapseWs, hc]

theorem collapse_ns (c : Char) (cs : List Char) (hc : isSpace c = false) :
    collapseWs (c :: cs) = c :: collapseWs cs := by
  conv => lhs; unfold collapseWs
  simp [hc]

theorem clean_ns (pw : Bool) (c : Char) (cs : List Char) (hc : isSpace c = false) :
    clean pw (c :: cs) = clean false cs := by simp [clean, hc]

theorem clean_ws (pw : Bool) (c : Char) (cs : List Char) (hc : isSpace c = true) :
    clean pw (c :: cs) = (c == ' ' && !pw && clean true cs) := by simp [clean, hc]

theorem collapse_clean : ∀ (s : List Char), clean false (collapseWs s) = true ∧
    ((∀ c, s.head? = some c → isSpace c = false) → clean true (collapseWs s) = true)
  | [] => by simp [collapseWs, clean]
  | [c] => by
    by_cases hc : isSpace c = true
    · rw [collapse_ws_nil c hc]
      refine ⟨by decide, ?_⟩
      intro h; have := h c rfl; rw [hc] at this; cases this
    · have hc' : isSpace c = false := by simpa using hc
      rw [collapse_ns c [] hc']
      simp [collapseWs, clean, hc']
  | c :: d :: cs => by
    have ih := collapse_clean (d :: cs)
    by_cases hc : isSpace c = true
    · by_cases hd : isSpace d = true
      · rw [collapse_ws_ws c d cs hc hd]
        refine ⟨ih.1, ?_⟩
        intro h; have := h c rfl; rw [hc] at this; cases this
      · have hd' : isSpace d = false := by simpa using hd
        rw [collapse_ws_ns c d cs hc hd']
        have := ih.2 (by intro x hx; simp at hx; subst hx; exact hd')
        refine ⟨by rw [clean_ws _ _ _ blank_space, this]; rfl, ?_⟩
        intro h; have := h c rfl; rw [hc] at this; cases this
    · have hc' : isSpace c = false := by simpa using hc
      rw [collapse_ns c _ hc', clean_ns _ _ _ hc', clean_ns _ _ _ hc']
      exact ⟨ih.1, fun _ => ih.1⟩

theorem collapse_fixed : ∀ (pw : Bool) (s : List Char), clean pw s = true → collapseWs s = s
  | _, [], _ => rfl
  | pw, [c], h => by
    by_cases hc : isSpace c = true
    · rw [clean_ws _ _ _ hc] at h
      simp at h
      rw [collapse_ws_nil c hc, h.1.1]
    · have hc' : isSpace c = false := by simpa using hc
      rw [collapse_ns c [] hc']; rfl
  | pw, c :: d :: cs, h => by
    by_cases hc : isSpace c = true
    · rw [clean_ws _ _ _ hc] at h
      simp only [Bool.and_eq_true] at h
      obtain ⟨⟨h1, h2⟩, h3⟩ := h
      have hd : isSpace d = false := by
        cases hd : isSpace d with
        | false => rfl
        | true => rw [clean_ws _ _ _ hd] at h3; simp at h3
      have ih := collapse_fixed true (d :: cs) h3
      simp at h1
      rw [collapse_ws_ns c d cs hc hd, ih, h1]
    · have hc' : isSpace c = false := by simpa using hc
      rw [clean_ns _ _ _ hc'] at h
      rw [collapse_ns c _ hc', collapse_fixed false (d :: cs) h]

/-! ### pass 2 -/

theorem afterOpen_clean : ∀ (pw dr : Bool) (s : List Char), clean pw s = true → clean pw (afterOpenGo dr s) = true
  | _, _, [], _ => rfl
  | pw, dr, c :: cs, h => by
    by_cases hc : isSpace c = true
    · simp only [clean, hc, if_true, Bool.and_eq_true] at h
      obtain ⟨⟨h1, h2⟩, h3⟩ := h
      have hpw : pw = false := by simpa using h2
      subst hpw
      cases dr with
      | true =>
        simp only [afterOpenGo, hc, Bool.and_self, if_true]
        exact clean_weaken _ (afterOpen_clean true true cs h3)
      | false =>
        have : (c == '(') = false := by
          cases hco : c == '(' with
          | false => rfl
          | true => simp at hco; subst hco; rw [open_not_space] at hc; cases hc
        simp only [afterOpenGo, Bool.false_and, if_false, this]
        simp [clean, hc, h1, afterOpen_clean true false cs h3]
    · have hc' : isSpace c = false := by simpa using hc
      simp only [clean, hc'] at h
      simp only [afterOpenGo, hc', Bool.and_false, if_false]
      simp [clean, hc', afterOpen_clean false _ cs h]

theorem afterOpen_noOpenWs : ∀ (po : Bool) (s : List Char), noOpenWs po (afterOpenGo po s) = true
  | _, [] => rfl
  | po, c :: cs => by
    by_cases h : (po && isSpace c) = true
    · simp at h
      simp only [afterOpenGo, h.1, h.2, Bool.and_self, if_true]
      exact afterOpen_noOpenWs true cs
    · have h' : (po && isSpace c) = false := by simpa using h
      simp only [afterOpenGo, h', if_false]
      simp [noOpenWs, h', afterOpen_noOpenWs (c == '(') cs]

theorem afterOpen_fixed : ∀ (po : Bool) (s : List Char), noOpenWs po s = true → afterOpenGo po s = s
  | _, [], _ => rfl
  | po, c :: cs, h => by
    simp only [noOpenWs, Bool.and_eq_true] at h
    obtain ⟨h1, h2⟩ := h
    have h1' : (po && isSpace c) = false := by
      cases hh : (po && isSpace c) with
      | false => rfl
      | true => rw [hh] at h1; cases h1
    simp only [afterOpenGo, h1']
    simp [afterOpen_fixed (c == '(') cs h2]

/-! ### pass 3 -/

theorem beforeClose_flag : ∀ (s : List Char), (beforeCloseGo s).2 = headIs ')' (beforeCloseGo s).1
  | [] => rfl
  | c :: cs => by
    have ih := beforeClose_flag cs
    simp only [beforeCloseGo, bcStep]
    split
    · exact ih
    · simp [headIs]

theorem beforeClose_clean : ∀ (pw : Bool) (s : List Char), clean pw s = true → clean pw (beforeCloseGo s).1 = true
  | _, [], _ => rfl
  | pw, c :: cs, h => by
    by_cases hc : isSpace c = true
    · simp only [clean, hc, if_true, Bool.and_eq_true] at h
      obtain ⟨⟨h1, h2⟩, h3⟩ := h
      have hpw : pw = false := by simpa using h2
      subst hpw
      have ih := beforeClose_clean true cs h3
      simp only [beforeCloseGo, bcStep, hc, Bool.true_and]
      split
      · exact clean_weaken _ ih
      · simp [clean, hc, h1, ih]
    · have hc' : isSpace c = false := by simpa using hc
      simp only [clean, hc'] at h
      simp only [beforeCloseGo, bcStep, hc', Bool.false_and, if_false]
      simp [clean, hc', beforeClose_clean false cs h]

theorem beforeClose_noOpenWs : ∀ (po : Bool) (s : List Char), noOpenWs po s = true →
    noOpenWs po (beforeCloseGo s).1 = true
  | _, [], _ => rfl
  | po, c :: cs, h => by
    simp only [noOpenWs, Bool.and_eq_true] at h
    obtain ⟨h1, h2⟩ := h
    simp only [beforeCloseGo, bcStep]
    split
    · rename_i hd
      simp at hd
      have hpo : po = false := by
        cases po with
        | false => rfl
        | true => simp [hd.1] at h1
      subst hpo
      have hco : (c == '(') = false := by
        cases hco : c == '(' with
        | false => rfl
        | true => simp at hco; subst hco; rw [open_not_space] at hd; simp at hd
      rw [hco] at h2
      exact beforeClose_noOpenWs false cs h2
    · simp [noOpenWs, h1, beforeClose_noOpenWs (c == '(') cs h2]

theorem beforeClose_noWsClose : ∀ (s : List Char), noWsClose (beforeCloseGo s).1 = true
  | [] => rfl
  | c :: cs => by
    have ih := beforeClose_noWsClose cs
    have hf := beforeClose_flag cs
    simp only [beforeCloseGo, bcStep]
    split
    · exact ih
    · rename_i hd
      have hd' : (isSpace c && (beforeCloseGo cs).2) = false := by simpa using hd
      rw [hf] at hd'
      simp [noWsClose, hd', ih]

theorem beforeClose_fixed : ∀ (s : List Char), noWsClose s = true → beforeCloseGo s = (s, headIs ')' s)
  | [], _ => rfl
  | c :: cs, h => by
    simp only [noWsClose, Bool.and_eq_true] at h
    obtain ⟨h1, h2⟩ := h
    have h1' : (isSpace c && headIs ')' cs) = false := by
      cases hh : (isSpace c && headIs ')' cs) with
      | false => rfl
      | true => rw [hh] at h1; cases h1
    simp only [beforeCloseGo, beforeClose_fixed cs h2, bcStep, h1']
    simp [headIs]

/-- what the three passes establish -/
theorem normaliseWs_invariants (s : List Char) :
    clean false (normaliseWs s) = true ∧ noOpenWs false (normaliseWs s) = true ∧ noWsClose (normaliseWs s) = true := by
  unfold normaliseWs beforeClose afterOpen
  refine ⟨?_, ?_, ?_⟩
  · exact beforeClose_clean false _ (afterOpen_clean false false _ (collapse_clean s).1)
  · exact beforeClose_noOpenWs false _ (afterOpen_noOpenWs false _)
  · exact beforeClose_noWsClose _

theorem normaliseWs_fixed (t : List Char) (h1 : clean false t = true) (h2 : noOpenWs false t = true)
    (h3 : noWsClose t = true) : normaliseWs t = t := by
  unfold normaliseWs beforeClose afterOpen
  rw [collapse_fixed false t h1, afterOpen_fixed false t h2, beforeClose_fixed t h3]

end Fsic.Lx
