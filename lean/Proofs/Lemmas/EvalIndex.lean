import FsicModel.EvalIndex
set_option linter.unusedSimpArgs false
/-
Helper lemmas about the eval-index model (`FsicModel/EvalIndex.lean`).  Property theorems: `Proofs/C16.lean`.
-/
namespace Fsic.EvalIdx

/-- `str.split(':')` of a text without ':' is the text itself. -/
theorem splitOn_no_sep (sep : Char) (a : List Char) (h : ∀ c ∈ a, c ≠ sep) : splitOn sep a = [a] := by
  induction a with
  | nil => rfl
  | cons c cs ih =>
    have hc : (c == sep) = false := by
      have := h c (by simp)
      simpa using this
    have ih' := ih (fun d hd => h d (by simp [hd]))
    simp [splitOn, hc, ih']

/-- `str.split(':')` of `a + ':' + b` when `a` has no ':'. -/
theorem splitOn_append_sep (sep : Char) (a b : List Char) (h : ∀ c ∈ a, c ≠ sep) :
    splitOn sep (a ++ sep :: b) = a :: splitOn sep b := by
  induction a with
  | nil => simp [splitOn]
  | cons c cs ih =>
    have hc : (c == sep) = false := by
      have := h c (by simp)
      simpa using this
    have ih' := ih (fun d hd => h d (by simp [hd]))
    simp [splitOn, hc, ih']

theorem contains_imp_not_isEmpty (a : List Char) (c : Char) (h : a.contains c = true) : a.isEmpty = false := by
  cases a with
  | nil => simp at h
  | cons _ _ => rfl

theorem dropWhile_head_false (p : Char → Bool) (c : Char) (cs : List Char) (h : p c = false) :
    (c :: cs).dropWhile p = c :: cs := by simp [List.dropWhile, h]

theorem dropWhile_head_true (p : Char → Bool) (c : Char) (cs : List Char) (h : p c = true) :
    (c :: cs).dropWhile p = cs.dropWhile p := by simp [List.dropWhile, h]

/-- The period text of `` `a` `` is `a` when `a` itself has no backtick. -/
theorem periodText_backticked (a : List Char) (ha : ∀ c ∈ a, c ≠ '`') :
    periodText ('`' :: a ++ ['`']) = a := by
  have hws : isWs '`' = false := by decide
  have hbt : isBacktick '`' = true := by decide
  have hnb : ∀ c ∈ a, isBacktick c = false := by
    intro c hc
    have := ha c hc
    simpa [isBacktick] using this
  have hstrip : strip ('`' :: a ++ ['`']) = '`' :: a ++ ['`'] := by
    unfold strip stripBy
    have e1 : ('`' :: a ++ ['`']) = '`' :: (a ++ ['`']) := rfl
    rw [e1, dropWhile_head_false _ _ _ hws]
    have : ('`' :: (a ++ ['`'])).reverse = '`' :: (a.reverse ++ ['`']) := by simp
    rw [this, dropWhile_head_false _ _ _ hws]
    simp
  unfold periodText
  rw [hstrip]
  unfold stripBackticks stripBy
  cases a with
  | nil => decide
  | cons c cs =>
    have hc : isBacktick c = false := hnb c (by simp)
    have e1 : ('`' :: (c :: cs) ++ ['`']) = '`' :: (c :: (cs ++ ['`'])) := rfl
    rw [e1, dropWhile_head_true _ _ _ hbt, dropWhile_head_false _ _ _ hc]
    have h2 : (c :: (cs ++ ['`'])).reverse = '`' :: (c :: cs).reverse := by simp
    rw [h2, dropWhile_head_true _ _ _ hbt]
    cases hr : (c :: cs).reverse with
    | nil => simp at hr
    | cons d ds =>
      have hd : d ∈ c :: cs := by
        have : d ∈ (c :: cs).reverse := by rw [hr]; simp
        exact List.mem_reverse.mp this
      rw [dropWhile_head_false _ _ _ (hnb d hd), ← hr, List.reverse_reverse]

/-- `strip` only removes characters. -/
theorem mem_of_mem_stripBy (p : Char → Bool) (c : Char) (a : List Char) (h : c ∈ stripBy p a) : c ∈ a := by
  unfold stripBy at h
  have h1 : c ∈ ((a.dropWhile p).reverse.dropWhile p) := List.mem_reverse.mp h
  have h2 : c ∈ (a.dropWhile p).reverse := (List.dropWhile_sublist p).subset h1
  have h3 : c ∈ a.dropWhile p := List.mem_reverse.mp h2
  exact (List.dropWhile_sublist p).subset h3

theorem contains_of_strip_contains (c : Char) (a : List Char) (h : (strip a).contains c = true) :
    a.contains c = true := by
  have : c ∈ strip a := by simpa using h
  have := mem_of_mem_stripBy isWs c a this
  simpa using this

theorem contains_append_left (c : Char) (a b : List Char) (h : a.contains c = true) : (a ++ b).contains c = true := by
  have : c ∈ a := by simpa using h
  simp [this]

theorem contains_append_right (c : Char) (a b : List Char) (h : b.contains c = true) : (a ++ b).contains c = true := by
  have : c ∈ b := by simpa using h
  simp [this]

/-! ### The segmentation of an expression -/

/-- The segments, read back, are the expression (from the `skip`-th character on): matching loses nothing. -/
theorem segments_text : ∀ (e : List Char) (k : Nat), (segments e k).flatMap Seg.text = e.drop k := by
  intro e
  induction e with
  | nil => intro k; simp [segments]
  | cons c cs ih =>
    intro k
    cases k with
    | succ k => simp [segments, ih]
    | zero =>
      unfold segments
      by_cases hc : (c == '[') = true
      · simp only [hc, if_true]
        cases hm : matchBracket cs with
        | none => simp [Seg.text, ih]
        | some r =>
          obtain ⟨g, len⟩ := r
          simp [Seg.text, ih, List.take_append_drop]
      · simp [hc, Seg.text, ih]

theorem substitute_append (f : Option (List Char) → List Char → Except Err (List Char)) :
    ∀ (xs ys : List Seg),
      substitute f (xs ++ ys) =
        match substitute f xs with
        | .error e => .error e
        | .ok a => (substitute f ys).map (a ++ ·) := by
  intro xs
  induction xs with
  | nil =>
    intro ys
    simp only [List.nil_append, substitute]
    cases substitute f ys <;> simp [Except.map]
  | cons x xs ih =>
    intro ys
    cases x with
    | lit c =>
      simp only [List.cons_append, substitute, ih]
      cases substitute f xs with
      | error e => simp [Except.map]
      | ok a => cases substitute f ys <;> simp [Except.map]
    | grp g t =>
      simp only [List.cons_append, substitute]
      cases f g t with
      | error e => rfl
      | ok r =>
        simp only [ih]
        cases substitute f xs with
        | error e => simp [Except.map]
        | ok a => cases substitute f ys <;> simp [Except.map]

end Fsic.EvalIdx
