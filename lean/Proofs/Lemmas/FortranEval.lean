import Proofs.Lemmas.Fortran
import Proofs.Lemmas.FortranKinds
set_option linter.unusedSimpArgs false
set_option linter.unusedVariables false
/-
One whole `evaluate` pass: the compiled `{equations}` block against the generated Python `_evaluate` over the same
storage (helper for `Proofs/C07.lean`).
-/
namespace Fsic.Fortran
variable {F4 F8 : Type}

/-- What one numbered equation must satisfy at column `index`: kind-safe, a 1-based left-hand row whose column is inside the span, and every
    reference 1-based with its column inside the span. -/
def EqOk (exact4 : Nat → Nat → Bool) (ncols : Nat) (index : Int) (re : (Nat × Int) × Expr Nat) : Prop :=
  kindSafe exact4 re.2 = true ∧ 1 ≤ re.1.1 ∧ 1 ≤ index + re.1.2 ∧ index + re.1.2 ≤ ncols ∧
    ∀ p ∈ re.2.refs, 1 ≤ p.1 ∧ 1 ≤ index + p.2 ∧ index + p.2 ≤ ncols

instance (exact4 : Nat → Nat → Bool) (ncols : Nat) (index : Int) (re : (Nat × Int) × Expr Nat) :
    Decidable (EqOk exact4 ncols index re) := by unfold EqOk; infer_instance

theorem cell_eq {F : Type} (s : Mat F) (g : F) (a : Nat) (t k : Int) (ha : 1 ≤ a)
    (ht : -(s.ncols : Int) ≤ t) (ht' : t < s.ncols)
    (hlo : 1 ≤ indexOf s.ncols (t + 1) + k) (hhi : indexOf s.ncols (t + 1) + k ≤ s.ncols) :
    s.fget g (a : Int) (indexOf s.ncols (t + 1) + k) = (s.pyGet g (a - 1) (t + k)).getD g := by
  unfold Mat.pyGet Mat.fget
  rw [pyIndex_of_index s.ncols t k ht ht' hlo hhi]
  obtain ⟨p, hp⟩ : ∃ p : Nat, indexOf s.ncols (t + 1) + k = (p : Int) + 1 :=
    ⟨(indexOf s.ncols (t + 1) + k - 1).toNat, by omega⟩
  have ha' : (a : Int) = ((a - 1 : Nat) : Int) + 1 := by omega
  rw [hp, ha', offsetOf_pos]
  have h1 : ((p : Int) + 1 - 1).toNat = p := by omega
  have h2 : (0 : Int) ≤ ((p * s.nrows + (a - 1) : Nat) : Int) := Int.natCast_nonneg _
  have h3 : (a - 1 + 1 - 1 : Nat) = a - 1 := by omega
  simp only [h1, h2, if_true, Int.toNat_natCast, Option.getD_some, h3]

theorem refsOk_of {α : Type} (n : Nat) (t : Int) (index : Int) (hidx : index = indexOf n (t + 1))
    (ht : -(n : Int) ≤ t) (ht' : t < n) :
    ∀ e : Expr α, (∀ p ∈ e.refs, 1 ≤ index + p.2 ∧ index + p.2 ≤ n) → refsOk n t e = true := by
  intro e
  induction e with
  | int n => intro _; rfl
  | dec m e => intro _; rfl
  | var a off =>
    intro h
    have := h (a, off) (by simp [Expr.refs])
    subst hidx
    simp [refsOk, pyIndex_of_index n t off ht ht' this.1 this.2]
  | neg x ih => intro h; exact ih (fun p hp => h p (by simpa [Expr.refs] using hp))
  | bin op x y ihx ihy =>
    intro h
    simp [refsOk, ihx (fun p hp => h p (by simp [Expr.refs, hp])), ihy (fun p hp => h p (by simp [Expr.refs, hp]))]
  | fn1 f x ih => intro h; exact ih (fun p hp => h p (by simpa [Expr.refs] using hp))
  | fn2 f x y ihx ihy =>
    intro h
    simp [refsOk, ihx (fun p hp => h p (by simp [Expr.refs, hp])), ihy (fun p hp => h p (by simp [Expr.refs, hp]))]

theorem fset_eq_pySetD {F : Type} (s : Mat F) (r : Nat) (t k : Int) (x : F) (hr : 1 ≤ r)
    (ht : -(s.ncols : Int) ≤ t) (ht' : t < s.ncols)
    (hlo : 1 ≤ indexOf s.ncols (t + 1) + k) (hhi : indexOf s.ncols (t + 1) + k ≤ s.ncols) :
    s.fset (r : Int) (indexOf s.ncols (t + 1) + k) x = s.pySetD (r - 1) (t + k) x := by
  have hpy := pyIndex_of_index s.ncols t k ht ht' hlo hhi
  unfold Mat.pySetD Mat.pySet Mat.fset
  rw [hpy]
  obtain ⟨p, hp⟩ : ∃ p : Nat, indexOf s.ncols (t + 1) + k = (p : Int) + 1 :=
    ⟨(indexOf s.ncols (t + 1) + k - 1).toNat, by omega⟩
  have hr' : (r : Int) = ((r - 1 : Nat) : Int) + 1 := by omega
  rw [hp, hr', offsetOf_pos]
  have h1 : ((p : Int) + 1 - 1).toNat = p := by omega
  have h2 : (0 : Int) ≤ ((p * s.nrows + (r - 1) : Nat) : Int) := Int.natCast_nonneg _
  have h3 : (r - 1 + 1 - 1 : Nat) = r - 1 := by omega
  simp only [h1, h2, if_true, Int.toNat_natCast, h3]

theorem pBody_eq_fBody (T : Tower F4 F8) (exact4 : Nat → Nat → Bool) (hc : Coherent T exact4)
    (nc : Nat) (t : Int) (ht : -(nc : Int) ≤ t) (ht' : t < nc) :
    ∀ (prog : Prog) (s : Mat F8), s.ncols = nc →
      (∀ re ∈ prog, EqOk exact4 nc (indexOf nc (t + 1)) re) →
      pBody T.o8 prog s t = (fBody T prog s (indexOf nc (t + 1)), false) := by
  have hlo : 1 ≤ indexOf nc (t + 1) := by unfold indexOf; split <;> omega
  have hhi : indexOf nc (t + 1) ≤ nc := by unfold indexOf; split <;> omega
  intro prog
  induction prog with
  | nil => intro s _ _; rfl
  | cons re rest ih =>
    intro s hs hok
    obtain ⟨⟨r, k⟩, e⟩ := re
    obtain ⟨hsafe, hr, hklo, hkhi, hrefs⟩ := hok ((r, k), e) (by simp)
    subst hs
    have hro := refsOk_of s.ncols t (indexOf s.ncols (t + 1)) rfl ht ht' e (fun p hp => (hrefs p hp).2)
    have hpy := pyIndex_of_index s.ncols t k ht ht' hklo hkhi
    -- the value stored is the same
    have hcell : ∀ p ∈ e.refs,
        (fun (a : Nat) off => s.fget (T.o8.ofInt 0) (a : Int) (indexOf s.ncols (t + 1) + off)) p.1 p.2
          = (fun (a : Nat) off => (s.pyGet (T.o8.ofInt 0) (a - 1) (t + off)).getD (T.o8.ofInt 0)) p.1 p.2 := by
      intro p hp
      obtain ⟨h1, h2, h3⟩ := hrefs p hp
      exact cell_eq s _ p.1 t p.2 h1 ht ht' h2 h3
    obtain ⟨v, hv1, _, hv3, _⟩ := agree_core T exact4 hc
      (fun (a : Nat) off => s.fget (T.o8.ofInt 0) (a : Int) (indexOf s.ncols (t + 1) + off))
      (fun (a : Nat) off => (s.pyGet (T.o8.ofInt 0) (a - 1) (t + off)).getD (T.o8.ofInt 0)) e hsafe hcell
    have hval : v.to8 T = pRhs T.o8 s t e := by
      rw [to8_eq_toF_lift, hv3]; rfl
    unfold pBody fBody
    simp only [hro, hpy, Option.isSome_some, Bool.and_self, if_true, hv1]
    rw [hval, fset_eq_pySetD s r t k _ hr ht ht' hklo hkhi]
    have hnc : (s.pySetD (r - 1) (t + k) (pRhs T.o8 s t e)).ncols = s.ncols := by
      unfold Mat.pySetD Mat.pySet; rw [hpy]
    have := ih (s.pySetD (r - 1) (t + k) (pRhs T.o8 s t e)) hnc (fun re hre => hok re (by simp [hre]))
    rw [this]

/-! ### Which cells a pass may write -/

theorem fset_mem_ne {F : Type} (s : Mat F) (r c : Int) (v : F) (q : Nat) (h : offsetOf s.nrows r c ≠ (q : Int)) :
    (s.fset r c v).mem[q]? = s.mem[q]? := by
  unfold Mat.fset
  split
  · rename_i h0
    apply setAt_getElem?_ne
    intro e
    apply h
    omega
  · rfl

theorem fset_nrows {F : Type} (s : Mat F) (r c : Int) (v : F) : (s.fset r c v).nrows = s.nrows := by
  unfold Mat.fset; split <;> rfl

theorem fset_ncols {F : Type} (s : Mat F) (r c : Int) (v : F) : (s.fset r c v).ncols = s.ncols := by
  unfold Mat.fset; split <;> rfl

/-- The `{equations}` block at column `index` writes at most the cells `(lhs row, index + lhs offset)` of its
    statements; every other cell of the block, and its shape, are what they were. -/
theorem fBody_frame (T : Tower F4 F8) (index : Int) (q : Nat) :
    ∀ (prog : Prog) (s : Mat F8),
      (∀ re ∈ prog, offsetOf s.nrows (re.1.1 : Nat) (index + re.1.2) ≠ (q : Int)) →
      (fBody T prog s index).mem[q]? = s.mem[q]? ∧ (fBody T prog s index).nrows = s.nrows ∧
        (fBody T prog s index).ncols = s.ncols := by
  intro prog
  induction prog with
  | nil => intro s _; exact ⟨rfl, rfl, rfl⟩
  | cons re rest ih =>
    intro s h
    obtain ⟨⟨r, k⟩, e⟩ := re
    have h1 := h ((r, k), e) (by simp)
    unfold fBody
    split
    · rename_i v _
      have hn := fset_nrows s (r : Nat) (index + k) (v.to8 T)
      have := ih (s.fset (r : Nat) (index + k) (v.to8 T)) (fun re hre => by rw [hn]; exact h re (by simp [hre]))
      exact ⟨this.1.trans (fset_mem_ne s _ _ _ q h1), this.2.1.trans hn, this.2.2.trans (fset_ncols s _ _ _)⟩
    · exact ih s (fun re hre => h re (by simp [hre]))

/-- The offset copy writes at most the cells `(endogenous row, dst)`. -/
theorem copyRows_frame {F : Type} (g : F) (dst src : Nat) (s0 : Mat F) (q : Nat) :
    ∀ (rows : List Nat) (s : Mat F), s.nrows = s0.nrows →
      (∀ r ∈ rows, offsetOf s0.nrows (r : Nat) (dst : Nat) ≠ (q : Int)) →
      (rows.foldl (fun acc (r : Nat) => acc.fset r dst (s0.fget g r src)) s).mem[q]? = s.mem[q]? := by
  intro rows
  induction rows with
  | nil => intro s _ _; rfl
  | cons r rest ih =>
    intro s hn h
    simp only [List.foldl]
    have h1 := h r (by simp)
    rw [ih (s.fset r dst (s0.fget g r src)) (by rw [fset_nrows]; exact hn) (fun r' hr' => h r' (by simp [hr']))]
    exact fset_mem_ne s _ _ _ q (by rw [hn]; exact h1)


end Fsic.Fortran
