import Proofs.Lemmas.Fortran
import Proofs.Lemmas.FortranKinds
set_option linter.unusedSimpArgs false
set_option linter.unusedVariables false
/-
One whole `evaluate` pass: the compiled `{equations}` block against the generated Python `_evaluate` over the same
storage (helper for `Proofs/C07.lean`).
-/
namespace Fsic.Fortran
variable {F4 F8 : Type}

/-- What one numbered equation must satisfy at column `index`: kind-safe, a 1-based left-hand row, and every
    reference 1-based with its column inside the span. -/
def EqOk (exact4 : Nat → Nat → Bool) (ncols : Nat) (index : Int) (re : Nat × Expr Nat) : Prop :=
  kindSafe exact4 re.2 = true ∧ 1 ≤ re.1 ∧
    ∀ p ∈ re.2.refs, 1 ≤ p.1 ∧ 1 ≤ index + p.2 ∧ index + p.2 ≤ ncols

instance (exact4 : Nat → Nat → Bool) (ncols : Nat) (index : Int) (re : Nat × Expr Nat) :
    Decidable (EqOk exact4 ncols index re) := by unfold EqOk; infer_instance

theorem cell_eq {F : Type} (s : Mat F) (g : F) (a : Nat) (t k : Int) (ha : 1 ≤ a)
    (ht : -(s.ncols : Int) ≤ t) (ht' : t < s.ncols)
    (hlo : 1 ≤ indexOf s.ncols (t + 1) + k) (hhi : indexOf s.ncols (t + 1) + k ≤ s.ncols) :
    s.fget g (a : Int) (indexOf s.ncols (t + 1) + k) = (s.pyGet g (a - 1) (t + k)).getD g := by
  unfold Mat.pyGet Mat.fget
  rw [pyIndex_of_index s.ncols t k ht ht' hlo hhi]
  obtain ⟨p, hp⟩ : ∃ p : Nat, indexOf s.ncols (t + 1) + k = (p : Int) + 1 :=
    ⟨(indexOf s.ncols (t + 1) + k - 1).toNat, by omega⟩
  have ha' : (a : Int) = ((a - 1 : Nat) : Int) + 1 := by omega
  rw [hp, ha', offsetOf_pos]
  have h1 : ((p : Int) + 1 - 1).toNat = p := by omega
  have h2 : (0 : Int) ≤ ((p * s.nrows + (a - 1) : Nat) : Int) := Int.natCast_nonneg _
  have h3 : (a - 1 + 1 - 1 : Nat) = a - 1 := by omega
  simp only [h1, h2, if_true, Int.toNat_natCast, Option.getD_some, h3]

theorem refsOk_of {α : Type} (n : Nat) (t : Int) (index : Int) (hidx : index = indexOf n (t + 1))
    (ht : -(n : Int) ≤ t) (ht' : t < n) :
    ∀ e : Expr α, (∀ p ∈ e.refs, 1 ≤ index + p.2 ∧ index + p.2 ≤ n) → refsOk n t e = true := by
  intro e
  induction e with
  | int n => intro _; rfl
  | dec m e => intro _; rfl
  | var a off =>
    intro h
    have := h (a, off) (by simp [Expr.refs])
    subst hidx
    simp [refsOk, pyIndex_of_index n t off ht ht' this.1 this.2]
  | neg x ih => intro h; exact ih (fun p hp => h p (by simpa [Expr.refs] using hp))
  | bin op x y ihx ihy =>
    intro h
    simp [refsOk, ihx (fun p hp => h p (by simp [Expr.refs, hp])), ihy (fun p hp => h p (by simp [Expr.refs, hp]))]
  | fn1 f x ih => intro h; exact ih (fun p hp => h p (by simpa [Expr.refs] using hp))
  | fn2 f x y ihx ihy =>
    intro h
    simp [refsOk, ihx (fun p hp => h p (by simp [Expr.refs, hp])), ihy (fun p hp => h p (by simp [Expr.refs, hp]))]

theorem fset_eq_pySetD {F : Type} (s : Mat F) (r : Nat) (t : Int) (x : F) (hr : 1 ≤ r)
    (ht : -(s.ncols : Int) ≤ t) (ht' : t < s.ncols)
    (hlo : 1 ≤ indexOf s.ncols (t + 1)) (hhi : indexOf s.ncols (t + 1) ≤ s.ncols) :
    s.fset (r : Int) (indexOf s.ncols (t + 1)) x = s.pySetD (r - 1) t x := by
  have hpy := pyIndex_of_index s.ncols t 0 ht ht' (by simpa using hlo) (by simpa using hhi)
  simp only [Int.add_zero] at hpy
  unfold Mat.pySetD Mat.pySet Mat.fset
  rw [hpy]
  obtain ⟨p, hp⟩ : ∃ p : Nat, indexOf s.ncols (t + 1) = (p : Int) + 1 :=
    ⟨(indexOf s.ncols (t + 1) - 1).toNat, by omega⟩
  have hr' : (r : Int) = ((r - 1 : Nat) : Int) + 1 := by omega
  rw [hp, hr', offsetOf_pos]
  have h1 : ((p : Int) + 1 - 1).toNat = p := by omega
  have h2 : (0 : Int) ≤ ((p * s.nrows + (r - 1) : Nat) : Int) := Int.natCast_nonneg _
  have h3 : (r - 1 + 1 - 1 : Nat) = r - 1 := by omega
  simp only [h1, h2, if_true, Int.toNat_natCast, h3]

theorem pBody_eq_fBody (T : Tower F4 F8) (exact4 : Nat → Nat → Bool) (hc : Coherent T exact4)
    (nc : Nat) (t : Int) (ht : -(nc : Int) ≤ t) (ht' : t < nc) :
    ∀ (prog : Prog) (s : Mat F8), s.ncols = nc →
      (∀ re ∈ prog, EqOk exact4 nc (indexOf nc (t + 1)) re) →
      pBody T.o8 prog s t = (fBody T prog s (indexOf nc (t + 1)), false) := by
  have hlo : 1 ≤ indexOf nc (t + 1) := by unfold indexOf; split <;> omega
  have hhi : indexOf nc (t + 1) ≤ nc := by unfold indexOf; split <;> omega
  intro prog
  induction prog with
  | nil => intro s _ _; rfl
  | cons re rest ih =>
    intro s hs hok
    obtain ⟨r, e⟩ := re
    obtain ⟨hsafe, hr, hrefs⟩ := hok (r, e) (by simp)
    subst hs
    have hro := refsOk_of s.ncols t (indexOf s.ncols (t + 1)) rfl ht ht' e (fun p hp => (hrefs p hp).2)
    have hpy := pyIndex_of_index s.ncols t 0 ht ht' (by simpa using hlo) (by simpa using hhi)
    simp only [Int.add_zero] at hpy
    -- the value stored is the same
    have hcell : ∀ p ∈ e.refs,
        (fun (a : Nat) off => s.fget (T.o8.ofInt 0) (a : Int) (indexOf s.ncols (t + 1) + off)) p.1 p.2
          = (fun (a : Nat) off => (s.pyGet (T.o8.ofInt 0) (a - 1) (t + off)).getD (T.o8.ofInt 0)) p.1 p.2 := by
      intro p hp
      obtain ⟨h1, h2, h3⟩ := hrefs p hp
      exact cell_eq s _ p.1 t p.2 h1 ht ht' h2 h3
    obtain ⟨v, hv1, _, hv3, _⟩ := agree_core T exact4 hc
      (fun (a : Nat) off => s.fget (T.o8.ofInt 0) (a : Int) (indexOf s.ncols (t + 1) + off))
      (fun (a : Nat) off => (s.pyGet (T.o8.ofInt 0) (a - 1) (t + off)).getD (T.o8.ofInt 0)) e hsafe hcell
    have hval : v.to8 T = pRhs T.o8 s t e := by
      rw [to8_eq_toF_lift, hv3]; rfl
    unfold pBody fBody
    simp only [hro, hpy, Option.isSome_some, Bool.and_self, if_true, hv1]
    rw [hval, fset_eq_pySetD s r t _ hr ht ht' hlo hhi]
    have hnc : (s.pySetD (r - 1) t (pRhs T.o8 s t e)).ncols = s.ncols := by
      unfold Mat.pySetD Mat.pySet; rw [hpy]
    have := ih (s.pySetD (r - 1) t (pRhs T.o8 s t e)) hnc (fun re hre => hok re (by simp [hre]))
    rw [this]

end Fsic.Fortran
