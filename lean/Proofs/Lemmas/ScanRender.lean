import Proofs.Lemmas.Lexer
set_option linter.unusedSimpArgs false
set_option linter.unusedVariables false
/-
Single-step lemmas of the scanner, one per alternative of `term_re`, for the round trip `scan_render`
(`Proofs/C14.lean`).  Architecture as in DESIGN Appendix C: what the alternative matches on a rendered token
followed by an arbitrary rest that satisfies the token's boundary condition.
-/
namespace Fsic.Lx

/-! ## Character facts -/

theorem idChar_nat (c : Char) (h : isIdChar c = true) :
    c.toNat = 95 ∨ (65 ≤ c.toNat ∧ c.toNat ≤ 90) ∨ (97 ≤ c.toNat ∧ c.toNat ≤ 122) ∨ (48 ≤ c.toNat ∧ c.toNat ≤ 57) := by
  simp [isIdChar, isIdStart, inR] at h
  omega

theorem idStart_idChar {c : Char} (h : isIdStart c = true) : isIdChar c = true := by simp [isIdChar, h]
theorem idChar_fnChar {c : Char} (h : isIdChar c = true) : isFnChar c = true := by simp [isFnChar, h]
theorem idChar_word {c : Char} (h : isIdChar c = true) : isWordU c = true := by simp [isWordU, h]

theorem idChar_not_space {c : Char} (h : isIdChar c = true) : isSpace c = false := by
  have := idChar_nat c h
  simp [isSpace, inR]
  omega

theorem idChar_ne {c : Char} (h : isIdChar c = true) (d : Char)
    (hd : d.toNat ≠ 95 ∧ ¬(65 ≤ d.toNat ∧ d.toNat ≤ 90) ∧ ¬(97 ≤ d.toNat ∧ d.toNat ≤ 122) ∧ ¬(48 ≤ d.toNat ∧ d.toNat ≤ 57)) :
    c ≠ d := by
  have := idChar_nat c h
  intro hc; subst hc; omega

theorem space_not_idChar {c : Char} (h : isSpace c = true) : isIdChar c = false := by
  cases h' : isIdChar c with
  | false => rfl
  | true => rw [idChar_not_space h'] at h; cases h

theorem space_ne {c : Char} (h : isSpace c = true) (d : Char) (hd : isSpace d = false) : c ≠ d := by
  intro hc; subst hc; rw [h] at hd; cases hd

/-! ## scanGo: skipping and stepping -/

/-- "previous character is a word character" after passing over `xs`. -/
def lastW (pw : Bool) : List Char → Bool
  | [] => pw
  | [c] => isWordU c
  | _ :: c :: cs => lastW pw (c :: cs)

theorem lastW_cons (pw : Bool) (x : Char) (xs : List Char) : lastW pw (x :: xs) = lastW (isWordU x) xs := by
  induction xs generalizing x pw with
  | nil => rfl
  | cons y ys ih => simp [lastW]; rw [ih, ih]

theorem lastW_append_cons (pw : Bool) (xs : List Char) (c : Char) (ys : List Char) :
    lastW pw (xs ++ c :: ys) = lastW (isWordU c) ys := by
  induction xs generalizing pw with
  | nil => simp [lastW_cons]
  | cons x xs ih => rw [List.cons_append, lastW_cons]; exact ih _

theorem scanGo_skip (xs rest : List Char) (pw : Bool) (pos : Nat) :
    scanGo xs.length pw pos (xs ++ rest) = scanGo 0 (lastW pw xs) (pos + xs.length) rest := by
  induction xs generalizing pw pos with
  | nil => simp [lastW]
  | cons x xs ih =>
    simp only [List.length_cons, List.cons_append, scanGo]
    rw [ih, lastW_cons]
    congr 1; omega

/-- One match: the alternation succeeds on `x :: xs ++ rest` consuming exactly `x :: xs`. -/
theorem scan_step (x : Char) (xs rest : List Char) (pw : Bool) (pos : Nat) (m : M)
    (h : matchAt pw (x :: (xs ++ rest)) = some m) (hl : m.len = xs.length + 1) :
    scanGo 0 pw pos (x :: (xs ++ rest)) = m.at pos :: scanGo 0 (lastW pw (x :: xs)) (pos + (xs.length + 1)) rest := by
  simp only [scanGo, h]
  rw [hl]
  simp only [Nat.add_sub_cancel]
  rw [scanGo_skip, lastW_cons]
  congr 2; omega

theorem scan_none (c : Char) (rest : List Char) (pw : Bool) (pos : Nat) (h : matchAt pw (c :: rest) = none) :
    scanGo 0 pw pos (c :: rest) = scanGo 0 (isWordU c) (pos + 1) rest := by
  simp only [scanGo, h]

/-! ## An alternative cannot start at a character outside its first set -/

/-- The keyword table: non-empty words made of letters only. -/
def KwTable (kws : List (List Char)) : Prop := ∀ kw ∈ kws, kw ≠ [] ∧ ∀ c ∈ kw, isIdStart c = true

theorem keywordChars_table : KwTable Generated.keywordChars := by
  have h : ∀ kw ∈ Generated.keywordChars, (!kw.isEmpty && kw.all isIdStart) = true := by decide
  intro kw hkw
  have := h kw hkw
  simp at this
  exact ⟨this.1, this.2⟩

theorem verbAt_none (c : Char) (r : List Char) (h : c ≠ '`') : verbAt (c :: r) = none := by
  unfold verbAt
  split
  · rename_i heq; simp at heq; exact absurd heq.1 h
  · rfl

theorem stripPrefix_head_none (kw : List Char) (c : Char) (r : List Char)
    (hk : kw ≠ [] ∧ ∀ d ∈ kw, isIdStart d = true) (hc : isIdStart c = false) : stripPrefix kw (c :: r) = none := by
  cases kw with
  | nil => exact absurd rfl hk.1
  | cons k ks =>
    have hk' := hk.2 k (by simp)
    have : (k == c) = false := by
      cases hkc : k == c with
      | false => rfl
      | true => simp at hkc; subst hkc; rw [hk'] at hc; cases hc
    simp [stripPrefix, this]

theorem invalidLen_head_none (kws : List (List Char)) (ht : KwTable kws) (c : Char) (r : List Char)
    (hc : isIdStart c = false) : invalidLen kws (c :: r) = none := by
  induction kws with
  | nil => rfl
  | cons kw kws ih =>
    have := stripPrefix_head_none kw c r (ht kw (by simp)) hc
    simp [invalidLen, this]
    exact ih (fun k hk => ht k (by simp [hk]))

theorem keywordName_head_none (kws : List (List Char)) (ht : KwTable kws) (c : Char) (r : List Char)
    (hc : isIdStart c = false) : keywordName kws (c :: r) = none := by
  induction kws with
  | nil => rfl
  | cons kw kws ih =>
    have := stripPrefix_head_none kw c r (ht kw (by simp)) hc
    simp [keywordName, this]
    exact ih (fun k hk => ht k (by simp [hk]))

theorem brAt_none (o cl : Char) (k : Kind) (c : Char) (r : List Char) (h : c ≠ o) : brAt o cl k (c :: r) = none := by
  simp [brAt, h]

/-- Inert characters: no alternative of `term_re` can start here, whatever follows. -/
def inert (c : Char) : Bool := !isIdStart c && c != '`' && c != '{' && c != '<'

theorem matchAtK_inert (kws : List (List Char)) (ht : KwTable kws) (pw : Bool) (c : Char) (r : List Char)
    (h : inert c = true) : matchAtK kws pw (c :: r) = none := by
  simp [inert] at h
  obtain ⟨⟨⟨h1, h2⟩, h3⟩, h4⟩ := h
  have h1' : isIdStart c = false := by simpa using h1
  unfold matchAtK
  rw [verbAt_none c r h2]
  simp only [invalidAt, invalidLen_head_none kws ht c r h1', keywordAt, keywordName_head_none kws ht c r h1',
    functionAt, variableAt, h1', brAt_none _ _ _ c r h3, brAt_none _ _ _ c r h4]
  cases pw <;> simp

theorem scan_chunk (cs rest : List Char) (pw : Bool) (pos : Nat) (h : ∀ c ∈ cs, inert c = true) :
    scanGo 0 pw pos (cs ++ rest) = scanGo 0 (lastW pw cs) (pos + cs.length) rest := by
  induction cs generalizing pw pos with
  | nil => simp [lastW]
  | cons c cs ih =>
    have hc := h c (by simp)
    rw [List.cons_append, scan_none c (cs ++ rest) pw pos (matchAtK_inert _ keywordChars_table pw c _ hc)]
    rw [ih _ _ (fun d hd => h d (by simp [hd])), lastW_cons]
    congr 1; simp; omega

/-! ## Identifiers against the keyword table -/

def AllId (n : List Char) : Prop := ∀ c ∈ n, isIdChar c = true
def IsIdent (n : List Char) : Prop := ∃ c cs, n = c :: cs ∧ isIdStart c = true ∧ ∀ d ∈ cs, isIdChar d = true
/-- the first character of `rest`, if any, fails `p` -/
def HeadNot (p : Char → Bool) (rest : List Char) : Prop := ∀ c, rest.head? = some c → p c = false

theorem IsIdent.allId {n : List Char} (h : IsIdent n) : AllId n := by
  obtain ⟨c, cs, rfl, hc, hcs⟩ := h
  intro d hd
  rcases List.mem_cons.mp hd with rfl | hd
  · exact idStart_idChar hc
  · exact hcs d hd

theorem HeadNot.mono {p q : Char → Bool} {rest : List Char} (h : HeadNot q rest) (hpq : ∀ c, p c = true → q c = true) :
    HeadNot p rest := by
  intro c hc
  cases hp : p c with
  | false => rfl
  | true => have := hpq c hp; rw [h c hc] at this; cases this

theorem headNot_cons {p : Char → Bool} {c : Char} {r : List Char} (h : p c = false) : HeadNot p (c :: r) := by
  intro d hd; simp at hd; subst hd; exact h

theorem headNot_nil {p : Char → Bool} : HeadNot p [] := by intro d hd; simp at hd

/-- If a keyword is a prefix of identifier `n` followed by a non-identifier character, it is a prefix of `n`. -/
theorem stripPrefix_ident (kw : List Char) (hkw : ∀ c ∈ kw, isIdStart c = true) :
    ∀ (n rest r : List Char), HeadNot isIdChar rest → stripPrefix kw (n ++ rest) = some r →
      ∃ n2, n = kw ++ n2 ∧ r = n2 ++ rest := by
  induction kw with
  | nil => intro n rest r _ h; simp [stripPrefix] at h; exact ⟨n, by simp, h.symm⟩
  | cons k ks ih =>
    intro n rest r hr h
    have hk := hkw k (by simp)
    cases n with
    | nil =>
      simp only [List.nil_append] at h
      cases rest with
      | nil => simp [stripPrefix] at h
      | cons c rs =>
        unfold stripPrefix at h
        split at h
        · rename_i hkc; simp at hkc; subst hkc
          have := hr k rfl
          rw [idStart_idChar hk] at this; cases this
        · cases h
    | cons x xs =>
      simp only [List.cons_append] at h
      unfold stripPrefix at h
      split at h
      · rename_i hkx; simp at hkx; subst hkx
        obtain ⟨n2, h1, h2⟩ := ih (fun c hc => hkw c (by simp [hc])) xs rest r hr h
        exact ⟨n2, by simp [h1], h2⟩
      · cases h

theorem kwBoundary_idChar (d : Char) (ds : List Char) (h : isIdChar d = true) : kwBoundary (d :: ds) = false := by
  simp [kwBoundary, idChar_word h]

theorem invalidTail_idChar (k : Nat) (d : Char) (ds : List Char) (h : isIdChar d = true) :
    invalidTail k (d :: ds) = none := by
  have hd : d ≠ '[' := idChar_ne h _ (by decide)
  unfold invalidTail
  rw [spanP_cons_false isSpace d ds (idChar_not_space h)]
  unfold invalidOpen
  split
  · rename_i heq; simp at heq; exact absurd heq.2.1 hd
  · rfl

theorem keywordName_ident_none (kws : List (List Char)) (ht : KwTable kws) (n rest : List Char) (hn : AllId n)
    (hnk : n ∉ kws) (hr : HeadNot isIdChar rest) : keywordName kws (n ++ rest) = none := by
  induction kws with
  | nil => rfl
  | cons kw kws ih =>
    have ih := ih (fun k hk => ht k (by simp [hk])) (fun hm => hnk (by simp [hm]))
    unfold keywordName
    split
    · rename_i r hsp
      obtain ⟨n2, h1, h2⟩ := stripPrefix_ident kw (ht kw (by simp)).2 n rest r hr hsp
      cases n2 with
      | nil => simp at h1; exact absurd (by simp [h1]) hnk
      | cons d ds =>
        have hd : isIdChar d = true := hn d (by simp [h1])
        subst h2
        simp only [List.cons_append, kwBoundary_idChar d _ hd]
        exact ih
    · exact ih

theorem invalidLen_ident_none (kws : List (List Char)) (ht : KwTable kws) (n rest : List Char) (hn : AllId n)
    (hnk : n ∉ kws) (hr : HeadNot isIdChar rest) : invalidLen kws (n ++ rest) = none := by
  induction kws with
  | nil => rfl
  | cons kw kws ih =>
    have ih := ih (fun k hk => ht k (by simp [hk])) (fun hm => hnk (by simp [hm]))
    unfold invalidLen
    split
    · rename_i r hsp
      obtain ⟨n2, h1, h2⟩ := stripPrefix_ident kw (ht kw (by simp)).2 n rest r hr hsp
      cases n2 with
      | nil => simp at h1; exact absurd (by simp [h1]) hnk
      | cons d ds =>
        have hd : isIdChar d = true := hn d (by simp [h1])
        subst h2
        simp only [List.cons_append, invalidTail_idChar _ d _ hd]
        exact ih
    · exact ih

theorem kwBoundary_headNot (rest : List Char) (h : HeadNot isWordU rest) : kwBoundary rest = true := by
  cases rest with
  | nil => rfl
  | cons c r => simp [kwBoundary, h c rfl]

/-- `\b kw \b` finds exactly the keyword that is there (one generic lemma over the reflected table). -/
theorem keywordName_kw (kws : List (List Char)) (ht : KwTable kws) (k rest : List Char) (hk : k ∈ kws)
    (hr : HeadNot isWordU rest) : keywordName kws (k ++ rest) = some k := by
  have hri : HeadNot isIdChar rest := hr.mono (fun c h => idChar_word h)
  induction kws with
  | nil => simp at hk
  | cons kw kws ih =>
    have ih := ih (fun k hk => ht k (by simp [hk]))
    unfold keywordName
    split
    · rename_i r hsp
      obtain ⟨n2, h1, h2⟩ := stripPrefix_ident kw (ht kw (by simp)).2 k rest r hri hsp
      cases n2 with
      | nil =>
        simp at h1 h2; subst h1; subst h2
        simp [kwBoundary_headNot r hr]
      | cons d ds =>
        have hkk : ∀ c ∈ k, isIdStart c = true := (ht k hk).2
        have hd : isIdChar d = true := idStart_idChar (hkk d (by simp [h1]))
        subst h2
        simp only [List.cons_append, kwBoundary_idChar d _ hd]
        have hne : k ≠ kw := by
          intro he; rw [he] at h1
          have := congrArg List.length h1; simp at this
        rcases List.mem_cons.mp hk with he | hm
        · exact absurd he hne
        · simpa using ih hm
    · rename_i hsp
      have hne : k ≠ kw := by
        intro he; subst he
        rw [stripPrefix_append] at hsp; cases hsp
      rcases List.mem_cons.mp hk with he | hm
      · exact absurd he hne
      · exact ih hm

/-- the text after leading whitespace does not begin with `c` -/
def NoOpen (c : Char) (rest : List Char) : Prop := ∀ r2, (spanP isSpace rest).2 ≠ c :: r2

theorem invalidTail_noOpen (k : Nat) (rest : List Char) (h : NoOpen '[' rest) : invalidTail k rest = none := by
  unfold invalidTail
  generalize hq : spanP isSpace rest = q
  obtain ⟨ws, r1⟩ := q
  unfold invalidOpen
  split
  · rename_i heq; simp at heq
    have := h (by assumption)
    rw [hq] at this; simp at this
    exact absurd heq.2 (by intro hh; exact this hh)
  · rfl

theorem invalidLen_kw_none (kws : List (List Char)) (ht : KwTable kws) (k rest : List Char)
    (hkk : ∀ c ∈ k, isIdStart c = true) (hr : HeadNot isIdChar rest) (hno : NoOpen '[' rest) :
    invalidLen kws (k ++ rest) = none := by
  induction kws with
  | nil => rfl
  | cons kw kws ih =>
    have ih := ih (fun k hk => ht k (by simp [hk]))
    unfold invalidLen
    split
    · rename_i r hsp
      obtain ⟨n2, h1, h2⟩ := stripPrefix_ident kw (ht kw (by simp)).2 k rest r hr hsp
      cases n2 with
      | nil =>
        simp at h2; subst h2
        simp only [invalidTail_noOpen _ r hno]
        exact ih
      | cons d ds =>
        have hd : isIdChar d = true := idStart_idChar (hkk d (by simp [h1]))
        subst h2
        simp only [List.cons_append, invalidTail_idChar _ d _ hd]
        exact ih
    · exact ih

/-! ## The optional index -/

def AllSpace (w : List Char) : Prop := ∀ c ∈ w, isSpace c = true

/-- Raw index text as the scanner reports it: non-empty, no surrounding whitespace, no `]`, no newline. -/
structure IdxWf (text : List Char) : Prop where
  ne : text ≠ []
  headNs : HeadNot isSpace text
  lastNs : HeadNot isSpace text.reverse
  noClose : ∀ c ∈ text, c ≠ ']'
  noNl : ∀ c ∈ text, c ≠ '\n'

theorem dropWhile_all_append (p : Char → Bool) (a b : List Char) (h : ∀ c ∈ a, p c = true) :
    (a ++ b).dropWhile p = b.dropWhile p := by
  induction a with
  | nil => rfl
  | cons x xs ih =>
    simp [List.dropWhile, h x (by simp)]
    exact ih (fun c hc => h c (by simp [hc]))

theorem dropWhile_headNot (p : Char → Bool) (b : List Char) (h : HeadNot p b) : b.dropWhile p = b := by
  cases b with
  | nil => rfl
  | cons c r => simp [List.dropWhile, h c rfl]

theorem rstrip_append_ws (t w : List Char) (ht : HeadNot isSpace t.reverse) (hw : AllSpace w) :
    rstrip (t ++ w) = t := by
  unfold rstrip
  rw [List.reverse_append, dropWhile_all_append isSpace w.reverse t.reverse (by
    intro c hc; exact hw c (List.mem_reverse.mp hc)), dropWhile_headNot isSpace _ ht]
  simp

theorem space_ne_rbr {c : Char} (h : isSpace c = true) : c ≠ ']' := space_ne h _ (by decide)

/-- `[ w1 text w2 ]` directly after a term is its index. -/
theorem indexPart_render (w1 text w2 rest : List Char) (h1 : AllSpace w1) (h2 : AllSpace w2) (ht : IdxWf text) :
    indexPart ('[' :: (w1 ++ (text ++ (w2 ++ ']' :: rest)))) = some (text, w1.length + text.length + w2.length + 2) := by
  obtain ⟨t0, ts, rfl⟩ : ∃ t0 ts, text = t0 :: ts := by
    cases text with
    | nil => exact absurd rfl ht.ne
    | cons a b => exact ⟨a, b, rfl⟩
  have ht0 : isSpace t0 = false := ht.headNs t0 rfl
  have hs1 : spanP isSpace (w1 ++ ((t0 :: ts) ++ (w2 ++ ']' :: rest))) = (w1, (t0 :: ts) ++ (w2 ++ ']' :: rest)) :=
    spanP_append isSpace w1 _ h1 (by intro c hc; simp at hc; subst hc; exact ht0)
  have hs2 : spanP notRBr (((t0 :: ts) ++ w2) ++ ']' :: rest) = ((t0 :: ts) ++ w2, ']' :: rest) :=
    spanP_append notRBr _ _ (by
      intro c hc
      rcases List.mem_append.mp hc with hc | hc
      · simp [notRBr, ht.noClose c hc]
      · simp [notRBr, space_ne_rbr (h2 c hc)]) (by intro c hc; simp at hc; subst hc; simp [notRBr])
  have hs2' : spanP notRBr ((t0 :: ts) ++ (w2 ++ ']' :: rest)) = ((t0 :: ts) ++ w2, ']' :: rest) := by
    rw [← List.append_assoc]; exact hs2
  have hrs : rstrip ((t0 :: ts) ++ w2) = t0 :: ts := rstrip_append_ws _ _ ht.lastNs h2
  have hnl : (t0 :: ts).elem '\n' = false := by
    cases he : (t0 :: ts).elem '\n' with
    | false => rfl
    | true =>
      have : '\n' ∈ (t0 :: ts) := by simpa using he
      exact absurd rfl (ht.noNl _ this)
  simp only [indexPart, idxOpen, hs1, hs2', idxClose, hrs, hnl]
  simp
  omega

theorem indexPart_none (rest : List Char) (h : HeadNot (· == '[') rest) : indexPart rest = none := by
  cases rest with
  | nil => rfl
  | cons c r =>
    have := h c rfl
    unfold indexPart
    split
    · rename_i heq; simp at heq; simp [heq.1] at this
    · rfl

/-! ## Step lemmas: what `matchAt` returns on a rendered token -/

theorem verbAt_idStart (c : Char) (r : List Char) (h : isIdStart c = true) : verbAt (c :: r) = none :=
  verbAt_none c r (idChar_ne (idStart_idChar h) _ (by decide))

/-- variable without index -/
theorem matchAt_var (pw : Bool) (n rest : List Char) (hn : IsIdent n) (hnk : n ∉ Generated.keywordChars)
    (hr : HeadNot isFnChar rest) (hb : HeadNot (· == '[') rest) (hp : NoOpen '(' rest) :
    matchAt pw (n ++ rest) = some ⟨.variable, n, none, n.length⟩ := by
  have hall := hn.allId
  have hri : HeadNot isIdChar rest := hr.mono (fun c h => idChar_fnChar h)
  obtain ⟨c, cs, rfl, hc, hcs⟩ := hn
  have hsf : spanP isFnChar ((c :: cs) ++ rest) = (c :: cs, rest) :=
    spanP_append isFnChar _ _ (fun d hd => idChar_fnChar (hall d hd)) hr
  have hsi : spanP isIdChar ((c :: cs) ++ rest) = (c :: cs, rest) := spanP_append isIdChar _ _ hall hri
  have hfn : fnLook (c :: cs) (spanP isSpace rest) = none := by
    generalize hq : spanP isSpace rest = q
    obtain ⟨ws, r1⟩ := q
    unfold fnLook
    split
    · rename_i heq; simp at heq
      have := hp (by assumption); rw [hq] at this; simp at this
      exact absurd heq.2 (by intro hh; exact this hh)
    · rfl
  unfold matchAt matchAtK
  rw [invalidAt, invalidLen_ident_none _ keywordChars_table _ _ hall hnk hri]
  rw [keywordAt, keywordName_ident_none _ keywordChars_table _ _ hall hnk hri]
  simp only [List.cons_append] at hsf hsi ⊢
  rw [verbAt_idStart c _ hc]
  simp only [functionAt, variableAt, hc, hsf, hsi, fnRun, hfn, varRun, withIndex, indexPart_none rest hb,
    brAt_none _ _ _ c _ (idChar_ne (idStart_idChar hc) '{' (by decide)),
    brAt_none _ _ _ c _ (idChar_ne (idStart_idChar hc) '<' (by decide)), withIndexR]
  cases pw <;> simp

/-- variable with index (`n[ w1 text w2 ]`) -/
theorem matchAt_var_idx (pw : Bool) (n w1 text w2 rest : List Char) (hn : IsIdent n)
    (hnk : n ∉ Generated.keywordChars) (h1 : AllSpace w1) (h2 : AllSpace w2) (ht : IdxWf text) :
    matchAt pw (n ++ '[' :: (w1 ++ (text ++ (w2 ++ ']' :: rest)))) =
      some ⟨.variable, n, some text, n.length + (w1.length + text.length + w2.length + 2)⟩ := by
  have hall := hn.allId
  generalize hR : '[' :: (w1 ++ (text ++ (w2 ++ ']' :: rest))) = R
  have hri : HeadNot isIdChar R := by rw [← hR]; exact headNot_cons (by decide)
  have hrf : HeadNot isFnChar R := by rw [← hR]; exact headNot_cons (by decide)
  have hix : indexPart R = some (text, w1.length + text.length + w2.length + 2) := by
    rw [← hR]; exact indexPart_render w1 text w2 rest h1 h2 ht
  obtain ⟨c, cs, rfl, hc, hcs⟩ := hn
  have hsf : spanP isFnChar ((c :: cs) ++ R) = (c :: cs, R) :=
    spanP_append isFnChar _ _ (fun d hd => idChar_fnChar (hall d hd)) hrf
  have hsi : spanP isIdChar ((c :: cs) ++ R) = (c :: cs, R) := spanP_append isIdChar _ _ hall hri
  have hfn : fnLook (c :: cs) (spanP isSpace R) = none := by
    rw [← hR, spanP_cons_false isSpace '[' _ (by decide)]
    rfl
  unfold matchAt matchAtK
  rw [invalidAt, invalidLen_ident_none _ keywordChars_table _ _ hall hnk hri]
  rw [keywordAt, keywordName_ident_none _ keywordChars_table _ _ hall hnk hri]
  simp only [List.cons_append] at hsf hsi ⊢
  rw [verbAt_idStart c _ hc]
  simp only [functionAt, variableAt, hc, hsf, hsi, fnRun, hfn, varRun, withIndex, hix,
    brAt_none _ _ _ c _ (idChar_ne (idStart_idChar hc) '{' (by decide)),
    brAt_none _ _ _ c _ (idChar_ne (idStart_idChar hc) '<' (by decide)), withIndexR]
  cases pw <;> simp

/-- `o w1 n w2 c` + whatever index part follows, for `{ }` and `< >` -/
theorem brAt_render (o c : Char) (kind : Kind) (w1 n w2 tail : List Char) (hn : IsIdent n) (h1 : AllSpace w1)
    (h2 : AllSpace w2) (hcs : isSpace c = false) (hci : isIdChar c = false) :
    brAt o c kind (o :: (w1 ++ (n ++ (w2 ++ c :: tail)))) =
      some (withIndex kind n (1 + w1.length + n.length + w2.length + 1) tail) := by
  have hall := hn.allId
  obtain ⟨x, xs, rfl, hx, hxs⟩ := hn
  have hs1 : spanP isSpace (w1 ++ ((x :: xs) ++ (w2 ++ c :: tail))) = (w1, (x :: xs) ++ (w2 ++ c :: tail)) :=
    spanP_append isSpace w1 _ h1 (by
      intro d hd; simp at hd; subst hd; exact idChar_not_space (idStart_idChar hx))
  have hh : HeadNot isIdChar (w2 ++ c :: tail) := by
    cases w2 with
    | nil => exact headNot_cons hci
    | cons y ys => exact headNot_cons (space_not_idChar (h2 y (by simp)))
  have hs2 : spanP isIdChar ((x :: xs) ++ (w2 ++ c :: tail)) = (x :: xs, w2 ++ c :: tail) :=
    spanP_append isIdChar _ _ hall hh
  have hs3 : spanP isSpace (w2 ++ c :: tail) = (w2, c :: tail) :=
    spanP_append isSpace w2 _ h2 (by intro d hd; simp at hd; subst hd; exact hcs)
  simp only [List.cons_append] at hs1 hs2
  simp only [brAt, beq_self_eq_true, if_true, hs1, brName, hx, brClose, hs2, hs3, brFin, List.cons_append]

/-- parameter / error term -/
theorem matchAt_br (pw : Bool) (o c : Char) (kind : Kind) (w1 n w2 tail : List Char) (hn : IsIdent n)
    (h1 : AllSpace w1) (h2 : AllSpace w2)
    (hoc : (o = '{' ∧ c = '}' ∧ kind = .parameter) ∨ (o = '<' ∧ c = '>' ∧ kind = .error)) :
    matchAt pw (o :: (w1 ++ (n ++ (w2 ++ c :: tail)))) =
      some (withIndex kind n (1 + w1.length + n.length + w2.length + 1) tail) := by
  unfold matchAt matchAtK
  rcases hoc with ⟨rfl, rfl, rfl⟩ | ⟨rfl, rfl, rfl⟩
  · have hb := brAt_render '{' '}' .parameter w1 n w2 tail hn h1 h2 (by decide) (by decide)
    rw [verbAt_none _ _ (by decide), invalidAt, invalidLen_head_none _ keywordChars_table _ _ (by decide),
      keywordAt, keywordName_head_none _ keywordChars_table _ _ (by decide), hb]
    have hf : isIdStart '{' = false := by decide
    simp only [functionAt, hf]
    cases pw <;> simp
  · have hb := brAt_render '<' '>' .error w1 n w2 tail hn h1 h2 (by decide) (by decide)
    rw [verbAt_none _ _ (by decide), invalidAt, invalidLen_head_none _ keywordChars_table _ _ (by decide),
      keywordAt, keywordName_head_none _ keywordChars_table _ _ (by decide), brAt_none _ _ _ _ _ (by decide), hb]
    have hf : isIdStart '<' = false := by decide
    simp only [functionAt, hf]
    cases pw <;> simp

theorem withIndex_none (kind : Kind) (n : List Char) (base : Nat) (rest : List Char) (hb : HeadNot (· == '[') rest) :
    withIndex kind n base rest = ⟨kind, n, none, base⟩ := by
  simp [withIndex, indexPart_none rest hb, withIndexR]

theorem withIndex_render (kind : Kind) (n : List Char) (base : Nat) (w1 text w2 rest : List Char) (h1 : AllSpace w1)
    (h2 : AllSpace w2) (ht : IdxWf text) :
    withIndex kind n base ('[' :: (w1 ++ (text ++ (w2 ++ ']' :: rest)))) =
      ⟨kind, n, some text, base + (w1.length + text.length + w2.length + 2)⟩ := by
  simp [withIndex, indexPart_render w1 text w2 rest h1 h2 ht, withIndexR]

/-- A function name: identifier start, then identifier characters and dots. -/
def IsFnName (n : List Char) : Prop := ∃ c cs, n = c :: cs ∧ isIdStart c = true ∧ ∀ d ∈ cs, isFnChar d = true

theorem space_not_fnChar {c : Char} (h : isSpace c = true) : isFnChar c = false := by
  have h1 := space_not_idChar h
  simp [isFnChar, h1]
  simp [isSpace, inR] at h
  omega

/-- function: name, whitespace, and a `(` that is looked at but not consumed -/
theorem matchAt_func (pw : Bool) (n w rest : List Char) (hn : IsFnName n)
    (hnk : (spanP isIdChar n).1 ∉ Generated.keywordChars) (hw : AllSpace w) :
    matchAt pw (n ++ (w ++ '(' :: rest)) = some ⟨.function, n, none, n.length + w.length⟩ := by
  obtain ⟨c, cs, rfl, hc, hcs⟩ := hn
  have hallf : ∀ d ∈ c :: cs, isFnChar d = true := by
    intro d hd
    rcases List.mem_cons.mp hd with rfl | hd
    · exact idChar_fnChar (idStart_idChar hc)
    · exact hcs d hd
  have hh : HeadNot isFnChar (w ++ '(' :: rest) := by
    cases w with
    | nil => exact headNot_cons (by decide)
    | cons y ys => exact headNot_cons (space_not_fnChar (hw y (by simp)))
  have hsf : spanP isFnChar ((c :: cs) ++ (w ++ '(' :: rest)) = (c :: cs, w ++ '(' :: rest) :=
    spanP_append isFnChar _ _ hallf hh
  have hsw : spanP isSpace (w ++ '(' :: rest) = (w, '(' :: rest) :=
    spanP_append isSpace w _ hw (by intro d hd; simp at hd; subst hd; decide)
  -- identifier head of the name against the keyword table
  have hsplit := spanP_append_eq isIdChar (c :: cs)
  generalize hq : spanP isIdChar (c :: cs) = q at hnk hsplit
  obtain ⟨hd, tl⟩ := q
  simp only at hnk hsplit
  have hhd : AllId hd := by
    have := spanP_fst_all isIdChar (c :: cs); rw [hq] at this; exact this
  have htl : HeadNot isIdChar (tl ++ (w ++ '(' :: rest)) := by
    cases tl with
    | nil => exact hh.mono (fun c h => idChar_fnChar h)
    | cons t ts =>
      have := spanP_snd_head isIdChar (c :: cs) t ts (by rw [hq])
      exact headNot_cons this
  have heq : (c :: cs) ++ (w ++ '(' :: rest) = hd ++ (tl ++ (w ++ '(' :: rest)) := by
    rw [← hsplit]; simp
  unfold matchAt matchAtK
  rw [invalidAt, keywordAt, heq, invalidLen_ident_none _ keywordChars_table _ _ hhd hnk htl,
    keywordName_ident_none _ keywordChars_table _ _ hhd hnk htl, ← heq]
  simp only [List.cons_append] at hsf ⊢
  rw [verbAt_idStart c _ hc]
  simp only [functionAt, hc, hsf, fnRun, hsw, fnLook]
  cases pw <;> simp

/-- keyword (needs a `\b` before it: the previous character is not a word character) -/
theorem matchAt_kw (k rest : List Char) (hk : k ∈ Generated.keywordChars) (hr : HeadNot isWordU rest)
    (hno : NoOpen '[' rest) : matchAt false (k ++ rest) = some ⟨.keyword, k, none, k.length⟩ := by
  have htab := keywordChars_table k hk
  have hri : HeadNot isIdChar rest := hr.mono (fun c h => idChar_word h)
  obtain ⟨c, cs, rfl⟩ : ∃ c cs, k = c :: cs := by
    cases k with
    | nil => exact absurd rfl htab.1
    | cons a b => exact ⟨a, b, rfl⟩
  have hc : isIdStart c = true := htab.2 c (by simp)
  unfold matchAt matchAtK
  rw [invalidAt, invalidLen_kw_none _ keywordChars_table _ _ htab.2 hri hno, keywordAt,
    keywordName_kw _ keywordChars_table _ _ hk hr]
  simp only [List.cons_append]
  rw [verbAt_idStart c _ hc]
  simp

/-- verbatim fragment: `` ` c1 body ` `` -/
theorem matchAt_verb (pw : Bool) (c1 : Char) (body rest : List Char) (hc1 : c1 ≠ '\n')
    (hb : ∀ c ∈ body, notTickNl c = true) :
    matchAt pw ('`' :: c1 :: (body ++ '`' :: rest)) =
      some ⟨.verbatim, '`' :: c1 :: (body ++ ['`']), none, body.length + 3⟩ := by
  have hs : spanP notTickNl (body ++ '`' :: rest) = (body, '`' :: rest) :=
    spanP_append notTickNl body _ hb (by intro d hd; simp at hd; subst hd; decide)
  unfold matchAt matchAtK
  have : (c1 == '\n') = false := by simpa using hc1
  simp [verbAt, this, hs, verbClose]

end Fsic.Lx
