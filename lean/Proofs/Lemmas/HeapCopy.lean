import Proofs.Lemmas.HeapAlloc
/-
`copy.deepcopy` and the `copy()` methods allocate only new objects: everything the result refers to lies in the
block allocated by the call.  (`Spec`, proved for `deepcopy fix cs n` by induction on the fuel.)
-/
set_option linter.unusedSimpArgs false
set_option linter.unusedVariables false
namespace Fsic.Heap

/-- A value of the heap `h0` that existed before the copy started. -/
def OldV (b : Nat) (v : Val) : Prop := ∀ c, v = .ref c → c < b

def MemoOK (b : Nat) (h : Heap) (m : Memo) : Prop := ∀ a c, (a, c) ∈ m → b ≤ c ∧ c < h.length

theorem MemoOK.mono {b : Nat} {h h1 : Heap} {m : Memo} (e : Ext h h1) (M : MemoOK b h m) : MemoOK b h1 m := by
  intro a c hm
  have := M a c hm
  have := e.len
  omega

theorem MemoOK.nil (b : Nat) (h : Heap) : MemoOK b h [] := by intro a c hm; simp at hm

theorem lookup_mem' {β} (m : List (Nat × β)) (a : Nat) (c : β) (hl : m.lookup a = some c) : (a, c) ∈ m := by
  induction m with
  | nil => simp [List.lookup] at hl
  | cons kv m ih =>
    obtain ⟨a', c'⟩ := kv
    by_cases hk : a = a'
    · subst hk
      simp [List.lookup] at hl
      subst hl
      exact List.mem_cons_self
    · have : (a == a') = false := by simpa using hk
      simp [List.lookup, this] at hl
      exact List.mem_cons_of_mem _ (ih hl)

/-- The assumptions about the heap in which a copy starts: no dangling references, class-level lists hold only
    strings. -/
structure WorldOK (cs : List ClassDesc) (h0 : Heap) : Prop where
  wf : WF h0
  classes : ∀ (ci : Nat) (cd : ClassDesc), cs[ci]? = some cd → ClassOK h0 cd

/-- What a deep-copier guarantees when started inside an extension of `h0` on a value of `h0`. -/
def Spec (h0 : Heap) (dc : Copier) : Prop :=
  ∀ h m v h1 m1 v1, Ext h0 h → Blk h0.length h → MemoOK h0.length h m → OldV h0.length v →
    dc h m v = some (h1, m1, v1) →
    Ext h h1 ∧ Blk h0.length h1 ∧ MemoOK h0.length h1 m1 ∧ NewV h0.length h1 v1

def OldSlots (b : Nat) (ss : List (String × Val)) : Prop := ∀ k v, (k, v) ∈ ss → OldV b v
def NewSlots (b : Nat) (h : Heap) (ss : List (String × Val)) : Prop := ∀ k v, (k, v) ∈ ss → NewV b h v

theorem OldSlots.tail {b : Nat} {kv : String × Val} {ss : List (String × Val)} (O : OldSlots b (kv :: ss)) :
    OldSlots b ss := fun k v hm => O k v (List.mem_cons_of_mem _ hm)

theorem oldSlots_of_wf {h0 : Heap} (wf : WF h0) {l : Nat} {o : Obj} (ho : h0[l]? = some o) :
    OldSlots h0.length o.slots := by
  intro k v hm c hc
  subst hc
  exact wf l o k c ho hm

theorem copySlotsWith_spec {h0 : Heap} {dc : Copier} (S : Spec h0 dc) :
    ∀ (ss : List (String × Val)) (h : Heap) (m : Memo) (h1 : Heap) (m1 : Memo) (ss' : List (String × Val)),
    Ext h0 h → Blk h0.length h → MemoOK h0.length h m → OldSlots h0.length ss →
    copySlotsWith dc h m ss = some (h1, m1, ss') →
    Ext h h1 ∧ Blk h0.length h1 ∧ MemoOK h0.length h1 m1 ∧ NewSlots h0.length h1 ss' := by
  intro ss
  induction ss with
  | nil =>
    intro h m h1 m1 ss' e B M O hc
    simp [copySlotsWith] at hc
    obtain ⟨rfl, rfl, rfl⟩ := hc
    exact ⟨Ext.refl _, B, M, by intro k v hm; simp at hm⟩
  | cons kv ss ih =>
    intro h m h1 m1 ss' e B M O hc
    obtain ⟨k, v⟩ := kv
    simp only [copySlotsWith] at hc
    cases hd : dc h m v with
    | none => simp [hd] at hc
    | some r =>
      obtain ⟨ha, ma, va⟩ := r
      simp only [hd] at hc
      obtain ⟨ea, Ba, Ma, Va⟩ := S h m v ha ma va e B M (O k v List.mem_cons_self) hd
      cases hr : copySlotsWith dc ha ma ss with
      | none => simp [hr] at hc
      | some r2 =>
        obtain ⟨hb, mb, ssb⟩ := r2
        simp only [hr] at hc
        cases hc
        obtain ⟨eb, Bb, Mb, Vb⟩ := ih ha ma h1 m1 ssb (e.trans ea) Ba Ma O.tail hr
        refine ⟨ea.trans eb, Bb, Mb, ?_⟩
        intro k' v' hm
        rcases List.mem_cons.mp hm with h2 | h2
        · cases h2; exact Va.mono eb
        · exact Vb k' v' h2

theorem copyEachWith_spec {h0 : Heap} {dc : Copier} (S : Spec h0 dc) :
    ∀ (ss : List (String × Val)) (h : Heap) (h1 : Heap) (ss' : List (String × Val)),
    Ext h0 h → Blk h0.length h → OldSlots h0.length ss →
    copyEachWith dc h ss = some (h1, ss') →
    Ext h h1 ∧ Blk h0.length h1 ∧ NewSlots h0.length h1 ss' ∧ ss'.map Prod.fst = ss.map Prod.fst := by
  intro ss
  induction ss with
  | nil =>
    intro h h1 ss' e B O hc
    simp [copyEachWith] at hc
    obtain ⟨rfl, rfl⟩ := hc
    exact ⟨Ext.refl _, B, by intro k v hm; simp at hm, rfl⟩
  | cons kv ss ih =>
    intro h h1 ss' e B O hc
    obtain ⟨k, v⟩ := kv
    simp only [copyEachWith] at hc
    cases hd : dc h [] v with
    | none => simp [hd] at hc
    | some r =>
      obtain ⟨ha, ma, va⟩ := r
      simp only [hd] at hc
      obtain ⟨ea, Ba, _, Va⟩ := S h [] v ha ma va e B (MemoOK.nil _ _) (O k v List.mem_cons_self) hd
      cases hr : copyEachWith dc ha ss with
      | none => simp [hr] at hc
      | some r2 =>
        obtain ⟨hb, ssb⟩ := r2
        simp only [hr] at hc
        cases hc
        obtain ⟨eb, Bb, Vb, Kb⟩ := ih ha h1 ssb (e.trans ea) Ba O.tail hr
        refine ⟨ea.trans eb, Bb, ?_, by simp [Kb]⟩
        intro k' v' hm
        rcases List.mem_cons.mp hm with h2 | h2
        · cases h2; exact Va.mono eb
        · exact Vb k' v' h2

/-- `d.update(new)`: every entry of the result comes from `new`, or from `d` under a key `new` does not have. -/
theorem mem_slotUpdate : ∀ (ss init : List (String × Val)) (k : String) (v : Val),
    (k, v) ∈ slotUpdate init ss → (k, v) ∈ ss ∨ ((k, v) ∈ init ∧ k ∉ ss.map Prod.fst) := by
  intro ss
  induction ss with
  | nil => intro init k v hm; exact Or.inr ⟨hm, by simp⟩
  | cons kv ss ih =>
    intro init k v hm
    obtain ⟨k0, v0⟩ := kv
    simp only [slotUpdate] at hm
    rcases ih _ k v hm with h1 | ⟨h1, h2⟩
    · exact Or.inl (List.mem_cons_of_mem _ h1)
    · rcases mem_slotSet h1 with ⟨h3, h4⟩ | ⟨h3, h4⟩
      · refine Or.inr ⟨h3, ?_⟩
        simp only [List.map_cons, List.mem_cons, not_or]
        exact ⟨h4, h2⟩
      · subst h3; subst h4
        exact Or.inl List.mem_cons_self

theorem mem_keys_dropKey {ss : List (String × Val)} {k k' : String} (hne : k' ≠ k)
    (hm : k' ∈ ss.map Prod.fst) : k' ∈ (dropKey k ss).map Prod.fst := by
  induction ss with
  | nil => simp at hm
  | cons kv ss ih =>
    obtain ⟨k0, v0⟩ := kv
    unfold dropKey
    simp only [List.map_cons, List.mem_cons] at hm
    by_cases hk : k0 = k
    · simp only [hk, if_true]
      rcases hm with h1 | h1
      · exact absurd (h1.trans hk) hne
      · exact ih h1
    · simp only [hk, if_false, List.map_cons, List.mem_cons]
      rcases hm with h1 | h1
      · exact Or.inl h1
      · exact Or.inr (ih h1)

theorem oldSlots_dropKey {b : Nat} {ss : List (String × Val)} (k : String) (O : OldSlots b ss) :
    OldSlots b (dropKey k ss) := fun k' v hm => O k' v (mem_dropKey hm).1

theorem lookup_getD_old {b : Nat} {ss : List (String × Val)} (O : OldSlots b ss) (k : String) :
    OldV b ((ss.lookup k).getD (.imm .none)) := by
  cases hl : ss.lookup k with
  | none => intro c hc; simp at hc
  | some v => simpa using O k v (lookup_mem _ _ _ hl)

/-- After `copied.__dict__.update(...)`: entries of the fresh `__dict__` and copied entries are all new. -/
theorem updated_new {b : Nat} {h0 h hc h4 : Heap} {cd : ClassDesc} {init ss : List (String × Val)}
    (Si : StageOK b h0 cd h (hc, init)) (e4 : Ext hc h4) (N : NewSlots b h4 ss) :
    NewSlots b h4 (slotUpdate init ss) := by
  intro k v hm
  rcases mem_slotUpdate ss init k v hm with h1 | ⟨h1, _⟩
  · exact N k v h1
  · exact (Si.slots k v h1).mono e4

theorem linkerSpan_spec {b : Nat} {h : Heap} (B : Blk b h) (hb : b ≤ h.length) (subs : List (String × Val)) :
    Ext h (linkerSpan h subs).1 ∧ Blk b (linkerSpan h subs).1 ∧ NewV b (linkerSpan h subs).1 (linkerSpan h subs).2 := by
  unfold linkerSpan
  cases subs with
  | nil =>
    refine ⟨Ext.append _ _, ?_, NewV.ref hb (by simp)⟩
    apply B.append
    intro e' he k c hm
    simp at he; subst he; simp at hm
  | cons kv rest =>
    obtain ⟨k, v⟩ := kv
    simp only
    cases ho : getObj h v with
    | none => exact ⟨Ext.refl _, B, NewV.imm _ _ _⟩
    | some o =>
      simp only
      cases hs : getObj h ((o.slots.lookup "span").getD (.imm .none)) with
      | some s =>
        refine ⟨Ext.append _ _, ?_, NewV.ref hb (by simp)⟩
        apply B.append
        intro e' he k c hm
        simp at he; subst he
        exact absurd hm (immSlots_norefs _ k c)
      | none =>
        simp only
        cases hv : (o.slots.lookup "span").getD (.imm .none) with
        | imm i => exact ⟨Ext.refl _, B, NewV.imm _ _ _⟩
        | ref l => exact ⟨Ext.refl _, B, NewV.imm _ _ _⟩

theorem getObj_old {h0 h : Heap} (e : Ext h0 h) {v : Val} (O : OldV h0.length v) : getObj h v = getObj h0 v := by
  cases v with
  | imm i => rfl
  | ref c => simp only [getObj]; exact e.get (O c rfl)

/-- `copy()` of an old instance object: the new `__dict__` refers to new objects only. -/
theorem copyInstWith_spec {cs : List ClassDesc} {h0 : Heap} (W : WorldOK cs h0) {dc : Copier}
    (S : Spec h0 dc) {cd : ClassDesc} {ci : Nat} (hcd : cs[ci]? = some cd) {l : Nat} {o : Obj}
    (ho : h0[l]? = some o) (hk : o.kind = .inst ci) {h h1 : Heap} {ss : List (String × Val)}
    (e : Ext h0 h) (B : Blk h0.length h) (hc : copyInstWith dc cd h o = some (h1, ss)) :
    Ext h h1 ∧ Blk h0.length h1 ∧ NewSlots h0.length h1 ss := by
  have ok := W.classes ci cd hcd
  have O := oldSlots_of_wf W.wf ho
  unfold copyInstWith at hc
  by_cases hl : cd.base = .linker
  · simp only [hl, if_true] at hc
    have Osub := lookup_getD_old O "submodels"
    rw [getObj_old e Osub] at hc
    cases hd : getObj h0 ((o.slots.lookup "submodels").getD (.imm .none)) with
    | none => simp [hd] at hc
    | some d =>
      simp only [hd] at hc
      have Od : OldSlots h0.length d.slots := by
        cases hv : (o.slots.lookup "submodels").getD (.imm .none) with
        | imm i => simp [hv, getObj] at hd
        | ref c => simp only [hv, getObj] at hd; exact oldSlots_of_wf W.wf hd
      cases h1c : copyEachWith dc h d.slots with
      | none => simp [h1c] at hc
      | some r1 =>
        obtain ⟨ha, subs⟩ := r1
        simp only [h1c] at hc
        obtain ⟨ea, Ba, Na, _⟩ := copyEachWith_spec S d.slots h ha subs e B Od h1c
        have lena := (e.trans ea).len
        have Bd : Blk h0.length (ha ++ [⟨.dict, subs⟩]) := by
          apply Ba.append
          intro e' he k c hm
          simp at he; subst he
          have := Na k _ hm c rfl
          simp; omega
        obtain ⟨e2, B2, N2⟩ := linkerSpan_spec Bd (by simp; omega) subs
        generalize linkerSpan (ha ++ [⟨.dict, subs⟩]) subs = r2 at hc e2 B2 N2
        obtain ⟨h2, sp⟩ := r2
        simp only at hc e2 B2 N2
        have ed : Ext ha h2 := (Ext.append _ _).trans e2
        have len2 := ed.len
        have Nsub : NewV h0.length h2 (.ref ha.length) := by
          have := e2.len; simp at this
          exact NewV.ref lena (by omega)
        have C := construct_ok (b := h0.length) W.wf ((e.trans ea).trans ed) ok B2 (by omega) sp
          (.ref ha.length) N2 Nsub
        generalize construct cd h2 sp (.ref ha.length) = r3 at hc C
        obtain ⟨h3, init⟩ := r3
        simp only at hc
        cases h4c : copyEachWith dc h3 (dropKey "submodels" o.slots) with
        | none => simp [h4c] at hc
        | some r4 =>
          obtain ⟨h4, ss4⟩ := r4
          simp only [h4c] at hc
          cases hc
          obtain ⟨e4, B4, N4, K4⟩ := copyEachWith_spec S _ h3 h1 ss4 (((e.trans ea).trans ed).trans C.ext) C.blk
            (oldSlots_dropKey _ O) h4c
          refine ⟨((ea.trans ed).trans C.ext).trans e4, B4, ?_⟩
          exact updated_new C e4 N4
  · simp only [hl, if_false] at hc
    have Osp := lookup_getD_old O "span"
    cases hd : dc h [] ((o.slots.lookup "span").getD (.imm .none)) with
    | none => simp [hd] at hc
    | some r1 =>
      obtain ⟨ha, ma, sp⟩ := r1
      simp only [hd] at hc
      obtain ⟨ea, Ba, _, Nsp⟩ := S h [] _ ha ma sp e B (MemoOK.nil _ _) Osp hd
      have lena := (e.trans ea).len
      have C := construct_ok (b := h0.length) W.wf (e.trans ea) ok Ba (by omega) sp (.imm .none) Nsp
        (NewV.imm _ _ _)
      generalize construct cd ha sp (.imm .none) = r3 at hc C
      obtain ⟨h3, init⟩ := r3
      simp only at hc
      cases h4c : copySlotsWith dc h3 [] o.slots with
      | none => simp [h4c] at hc
      | some r4 =>
        obtain ⟨h4, m4, ss4⟩ := r4
        simp only [h4c] at hc
        cases hc
        obtain ⟨e4, B4, _, N4⟩ := copySlotsWith_spec S _ h3 [] h1 m4 ss4 ((e.trans ea).trans C.ext) C.blk
          (MemoOK.nil _ _) O h4c
        refine ⟨(ea.trans C.ext).trans e4, B4, ?_⟩
        exact updated_new C e4 N4

/-- `copy.deepcopy` meets `Spec` for every amount of fuel. -/
theorem deepcopy_spec {cs : List ClassDesc} {h0 : Heap} (W : WorldOK cs h0) :
    ∀ n, Spec h0 (deepcopy cs n) := by
  intro n
  induction n with
  | zero =>
    intro h m v h1 m1 v1 e B M O hc
    cases v with
    | imm i =>
      simp [deepcopy] at hc
      obtain ⟨rfl, rfl, rfl⟩ := hc
      exact ⟨Ext.refl _, B, M, NewV.imm _ _ _⟩
    | ref l => simp [deepcopy] at hc
  | succ n ih =>
    intro h m v h1 m1 v1 e B M O hc
    cases v with
    | imm i =>
      simp [deepcopy] at hc
      obtain ⟨rfl, rfl, rfl⟩ := hc
      exact ⟨Ext.refl _, B, M, NewV.imm _ _ _⟩
    | ref l =>
      simp only [deepcopy] at hc
      cases hm : m.lookup l with
      | some l' =>
        simp [hm] at hc
        obtain ⟨rfl, rfl, rfl⟩ := hc
        exact ⟨Ext.refl _, B, M, fun c hc => by cases hc; exact M l _ (lookup_mem' _ _ _ hm)⟩
      | none =>
        simp only [hm] at hc
        have hl : l < h0.length := O l rfl
        rw [e.get hl] at hc
        cases ho : h0[l]? with
        | none => simp [ho] at hc
        | some o =>
          simp only [ho] at hc
          cases hk : o.kind with
          | inst ci =>
            simp only [hk] at hc
            cases hcd : cs[ci]? with
            | none => simp [hcd] at hc
            | some cd =>
              simp only [hcd] at hc
              cases hci : copyInstWith (deepcopy cs n) cd h o with
              | none => simp [hci] at hc
              | some r =>
                obtain ⟨ha, ss⟩ := r
                simp [hci] at hc
                obtain ⟨rfl, rfl, rfl⟩ := hc
                obtain ⟨ea, Ba, Na⟩ := copyInstWith_spec W ih hcd ho hk e B hci
                have lena := (e.trans ea).len
                refine ⟨ea.trans (Ext.append _ _), ?_, ?_, NewV.ref lena (by simp)⟩
                · apply Ba.append
                  intro e' he k c hm'
                  simp at he; subst he
                  have := Na k _ hm' c rfl
                  simp; omega
                · intro a c hmem
                  rcases List.mem_cons.mp hmem with h2 | h2
                  · cases h2; exact ⟨lena, by simp⟩
                  · exact (M.mono (ea.trans (Ext.append _ _))) a c h2
          | uncopyable => simp [hk] at hc
          | list | array | dict | tuple | trace | cls =>
            simp only [hk] at hc
            cases hcs : copySlotsWith (deepcopy cs n) h m o.slots with
            | none => simp [hcs] at hc
            | some r =>
              obtain ⟨ha, ma, ss⟩ := r
              simp [hcs] at hc
              obtain ⟨rfl, rfl, rfl⟩ := hc
              obtain ⟨ea, Ba, Ma, Na⟩ := copySlotsWith_spec ih o.slots h m ha ma ss e B M
                (oldSlots_of_wf W.wf ho) hcs
              have lena := (e.trans ea).len
              refine ⟨ea.trans (Ext.append _ _), ?_, ?_, NewV.ref lena (by simp)⟩
              · apply Ba.append
                intro e' he k c hm'
                simp at he; subst he
                have := Na k _ hm' c rfl
                simp; omega
              · intro a c hmem
                rcases List.mem_cons.mp hmem with h2 | h2
                · cases h2; exact ⟨lena, by simp⟩
                · exact (Ma.mono (Ext.append _ _)) a c h2

/-- `a.copy()` / `copy.copy(a)` / `copy.deepcopy(a)`: the heap is extended, the old part is untouched, the result is
    a new location and everything reachable from it is new. -/
theorem copyRoot_new {cs : List ClassDesc} {h0 : Heap} (W : WorldOK cs h0) {a c : Nat} {h1 : Heap}
    (ha : a < h0.length) (hc : copyRoot cs h0 a = some (h1, c)) :
    Ext h0 h1 ∧ WF h1 ∧ c < h1.length ∧ ∀ x, Reach h1 c x → h0.length ≤ x := by
  unfold copyRoot at hc
  cases hd : deepcopy cs (h0.length + 1) h0 [] (.ref a) with
  | none => simp [hd] at hc
  | some r =>
    obtain ⟨hh, mm, v⟩ := r
    cases v with
    | imm i => simp [hd] at hc
    | ref c' =>
      simp [hd] at hc
      obtain ⟨rfl, rfl⟩ := hc
      have B0 : Blk h0.length h0 := by
        intro l o k c hl ho hm
        have := getElem?_lt ho; omega
      obtain ⟨e, B, _, N⟩ := deepcopy_spec W (h0.length + 1) h0 [] (.ref a) hh mm (.ref c') (Ext.refl _) B0
        (MemoOK.nil _ _) (fun c hc => by cases hc; exact ha) hd
      have := N c' rfl
      exact ⟨e, wf_of_blk W.wf e B, this.2, fun x rx => B.reach this.1 rx⟩

end Fsic.Heap
