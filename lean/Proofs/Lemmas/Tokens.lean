import Proofs.Lemmas.ScanRender
set_option linter.unusedSimpArgs false
set_option linter.unusedVariables false
/-
Token lists with their layout (every whitespace choice is a field of the token), rendering, well-formedness with
the boundary condition, the expected scanner output, and the per-token step `tok_step` from which
`scan_render` (`Proofs/C14.lean`) follows by induction.
-/
namespace Fsic.Lx

/-- `[ w1 text w2 ]` -/
structure IdxR where
  w1 : List Char
  text : List Char
  w2 : List Char
  deriving DecidableEq, Repr

inductive Tok where
  | chunk (cs : List Char)                                   -- operators, numbers, brackets, whitespace, newlines
  | lt                                                       -- a `<` operator (one that does not open an error term)
  | var (n : List Char) (ix : Option IdxR)
  | param (w1 n w2 : List Char) (ix : Option IdxR)           -- `{ w1 n w2 }`
  | err (w1 n w2 : List Char) (ix : Option IdxR)             -- `< w1 n w2 >`
  | func (n w : List Char)                                   -- name, whitespace; the `(` belongs to the next chunk
  | kw (k : List Char)
  | verb (c1 : Char) (body : List Char)                      -- `` ` c1 body ` ``
  deriving DecidableEq, Repr

def IdxR.render (i : IdxR) : List Char := '[' :: (i.w1 ++ (i.text ++ (i.w2 ++ [']'])))

def idxRender : Option IdxR → List Char
  | none => []
  | some i => i.render

def idxText : Option IdxR → Option (List Char)
  | none => none
  | some i => some i.text

def Tok.render : Tok → List Char
  | .chunk cs => cs
  | .lt => ['<']
  | .var n ix => n ++ idxRender ix
  | .param w1 n w2 ix => '{' :: (w1 ++ (n ++ (w2 ++ '}' :: idxRender ix)))
  | .err w1 n w2 ix => '<' :: (w1 ++ (n ++ (w2 ++ '>' :: idxRender ix)))
  | .func n w => n ++ w
  | .kw k => k
  | .verb c1 body => '`' :: c1 :: (body ++ ['`'])

def renderAll : List Tok → List Char
  | [] => []
  | t :: ts => t.render ++ renderAll ts

/-- The layout-free content of a token: what `term_re` is expected to report (kind, name, raw index). -/
def Tok.abs : Tok → Option (Kind × List Char × Option (List Char))
  | .chunk _ => none
  | .lt => none
  | .var n ix => some (.variable, n, idxText ix)
  | .param _ n _ ix => some (.parameter, n, idxText ix)
  | .err _ n _ ix => some (.error, n, idxText ix)
  | .func n _ => some (.function, n, none)
  | .kw k => some (.keyword, k, none)
  | .verb c1 body => some (.verbatim, '`' :: c1 :: (body ++ ['`']), none)

def Tok.expect (pos : Nat) (t : Tok) : List RawMatch :=
  match t.abs with
  | none => []
  | some (k, n, ix) => [⟨k, n, ix, pos, pos + t.render.length⟩]

def expectAll : Nat → List Tok → List RawMatch
  | _, [] => []
  | pos, t :: ts => t.expect pos ++ expectAll (pos + t.render.length) ts

def IdxOk : Option IdxR → Prop
  | none => True
  | some i => AllSpace i.w1 ∧ AllSpace i.w2 ∧ IdxWf i.text

def Tok.wf : Tok → Prop
  | .chunk cs => ∀ c ∈ cs, inert c = true
  | .lt => True
  | .var n ix => IsIdent n ∧ n ∉ Generated.keywordChars ∧ IdxOk ix
  | .param w1 n w2 ix => AllSpace w1 ∧ IsIdent n ∧ AllSpace w2 ∧ IdxOk ix
  | .err w1 n w2 ix => AllSpace w1 ∧ IsIdent n ∧ AllSpace w2 ∧ IdxOk ix
  | .func n w => IsFnName n ∧ (spanP isIdChar n).1 ∉ Generated.keywordChars ∧ AllSpace w
  | .kw k => k ∈ Generated.keywordChars
  | .verb c1 body => c1 ≠ '\n' ∧ ∀ c ∈ body, notTickNl c = true

/-- Boundary condition: what may follow the token without changing how it is matched. -/
def Tok.nextOk : Tok → List Char → Prop
  | .chunk _, _ => True
  | .lt, rest => brAt '<' '>' .error ('<' :: rest) = none   -- e.g. when no `>` follows: `brAt_lt_none`
  | .var _ none, rest => HeadNot isFnChar rest ∧ HeadNot (· == '[') rest ∧ NoOpen '(' rest
  | .var _ (some _), _ => True
  | .param _ _ _ none, rest => HeadNot (· == '[') rest
  | .param _ _ _ (some _), _ => True
  | .err _ _ _ none, rest => HeadNot (· == '[') rest
  | .err _ _ _ (some _), _ => True
  | .func _ _, rest => ∃ r, rest = '(' :: r
  | .kw _, rest => HeadNot isWordU rest ∧ NoOpen '[' rest
  | .verb _ _, _ => True

/-- A keyword needs a word boundary before it. -/
def Tok.startOk (pw : Bool) : Tok → Prop
  | .kw _ => pw = false
  | _ => True

def Wf : Bool → List Tok → Prop
  | _, [] => True
  | pw, t :: ts => t.wf ∧ t.startOk pw ∧ t.nextOk (renderAll ts) ∧ Wf (lastW pw t.render) ts

theorem scan_step' (tok rest : List Char) (pw : Bool) (pos : Nat) (m : M) (hne : tok ≠ [])
    (h : matchAt pw (tok ++ rest) = some m) (hl : m.len = tok.length) :
    scanGo 0 pw pos (tok ++ rest) = m.at pos :: scanGo 0 (lastW pw tok) (pos + tok.length) rest := by
  cases tok with
  | nil => exact absurd rfl hne
  | cons x xs => exact scan_step x xs rest pw pos m h (by simpa using hl)

theorem brAt_lt_none (rest : List Char) (h : ∀ c ∈ rest, c ≠ '>') : brAt '<' '>' .error ('<' :: rest) = none := by
  simp only [brAt, beq_self_eq_true, if_true]
  have m1 := spanP_snd_suffix isSpace rest
  generalize spanP isSpace rest = q1 at m1 ⊢
  obtain ⟨ws1, r1⟩ := q1
  unfold brName
  split
  · rename_i ws x r heq
    simp at heq; obtain ⟨rfl, rfl⟩ := heq
    split
    · unfold brClose
      have m2 := spanP_snd_suffix isIdChar (x :: r)
      generalize spanP isIdChar (x :: r) = q2 at m2 ⊢
      obtain ⟨nm, r2⟩ := q2
      simp only
      have m3 := spanP_snd_suffix isSpace r2
      generalize spanP isSpace r2 = q3 at m3 ⊢
      obtain ⟨ws2, r3⟩ := q3
      unfold brFin
      split
      · rename_i _ y r4 heq3
        simp at heq3; obtain ⟨rfl, rfl⟩ := heq3
        split
        · rename_i hy; simp at hy; subst hy
          exact absurd rfl (h '>' (m1 _ (m2 _ (m3 _ (by simp)))))
        · rfl
      · rfl
    · rfl
  · rfl

theorem matchAt_lt (pw : Bool) (rest : List Char) (h : brAt '<' '>' .error ('<' :: rest) = none) :
    matchAt pw ('<' :: rest) = none := by
  unfold matchAt matchAtK
  have hf : isIdStart '<' = false := by decide
  rw [verbAt_none _ _ (by decide), invalidAt, invalidLen_head_none _ keywordChars_table _ _ hf,
    keywordAt, keywordName_head_none _ keywordChars_table _ _ hf, brAt_none _ _ _ _ _ (by decide), h]
  simp only [functionAt, variableAt, hf]
  cases pw <;> simp

theorem idxRender_len (i : IdxR) : (idxRender (some i)).length = i.w1.length + i.text.length + i.w2.length + 2 := by
  simp [idxRender, IdxR.render]; omega

/-- One token: the scanner emits exactly the token's expected match (or nothing) and continues after it. -/
theorem tok_step (t : Tok) (R : List Char) (pw : Bool) (pos : Nat) (hw : t.wf) (hs : t.startOk pw) (hn : t.nextOk R) :
    scanGo 0 pw pos (t.render ++ R) = t.expect pos ++ scanGo 0 (lastW pw t.render) (pos + t.render.length) R := by
  cases t with
  | chunk cs => simpa [Tok.render, Tok.expect, Tok.abs] using scan_chunk cs R pw pos hw
  | lt =>
    simp only [Tok.render, Tok.expect, Tok.abs, List.nil_append, List.cons_append, List.length_cons, List.length_nil]
    rw [scan_none '<' R pw pos (matchAt_lt pw R hn)]
    rfl
  | var n ix =>
    obtain ⟨hid, hnk, hix⟩ := hw
    have hne : n ≠ [] := by obtain ⟨c, cs, rfl, _⟩ := hid; simp
    cases ix with
    | none =>
      obtain ⟨h1, h2, h3⟩ := hn
      simp only [Tok.render, idxRender, List.append_nil, Tok.expect, Tok.abs, idxText]
      rw [scan_step' n R pw pos _ hne (matchAt_var pw n R hid hnk h1 h2 h3) rfl]
      simp [M.at]
    | some i =>
      obtain ⟨hw1, hw2, hti⟩ := hix
      have hm := matchAt_var_idx pw n i.w1 i.text i.w2 R hid hnk hw1 hw2 hti
      have hre : (Tok.var n (some i)).render ++ R = n ++ '[' :: (i.w1 ++ (i.text ++ (i.w2 ++ ']' :: R))) := by
        simp [Tok.render, idxRender, IdxR.render]
      have hlen : (Tok.var n (some i)).render.length = n.length + (i.w1.length + i.text.length + i.w2.length + 2) := by
        simp [Tok.render, idxRender, IdxR.render]; omega
      have hne' : (Tok.var n (some i)).render ≠ [] := by
        intro h; have := congrArg List.length h; rw [hlen] at this; simp at this
      rw [← hre] at hm
      rw [scan_step' _ R pw pos _ hne' hm (by rw [hlen])]
      simp [M.at, Tok.expect, Tok.abs, idxText, hlen]
  | param w1 n w2 ix =>
    obtain ⟨h1, hid, h2, hix⟩ := hw
    have hm := matchAt_br pw '{' '}' .parameter w1 n w2 (idxRender ix ++ R) hid h1 h2 (Or.inl ⟨rfl, rfl, rfl⟩)
    have hre : (Tok.param w1 n w2 ix).render ++ R = '{' :: (w1 ++ (n ++ (w2 ++ '}' :: (idxRender ix ++ R)))) := by
      simp [Tok.render]
    have hne' : (Tok.param w1 n w2 ix).render ≠ [] := by simp [Tok.render]
    rw [← hre] at hm
    cases ix with
    | none =>
      simp only [idxRender, List.nil_append] at hm
      rw [withIndex_none _ _ _ R hn] at hm
      rw [scan_step' _ R pw pos _ hne' hm (by simp [Tok.render, idxRender]; omega)]
      simp [M.at, Tok.expect, Tok.abs, idxText, Tok.render, idxRender]; omega
    | some i =>
      obtain ⟨hw1, hw2, hti⟩ := hix
      have hr2 : idxRender (some i) ++ R = '[' :: (i.w1 ++ (i.text ++ (i.w2 ++ ']' :: R))) := by
        simp [idxRender, IdxR.render]
      rw [hr2, withIndex_render _ _ _ _ _ _ R hw1 hw2 hti] at hm
      have hl := idxRender_len i
      rw [scan_step' _ R pw pos _ hne' hm (by simp [Tok.render] at hl ⊢; omega)]
      simp [M.at, Tok.expect, Tok.abs, idxText, Tok.render] at hl ⊢; omega
  | err w1 n w2 ix =>
    obtain ⟨h1, hid, h2, hix⟩ := hw
    have hm := matchAt_br pw '<' '>' .error w1 n w2 (idxRender ix ++ R) hid h1 h2 (Or.inr ⟨rfl, rfl, rfl⟩)
    have hre : (Tok.err w1 n w2 ix).render ++ R = '<' :: (w1 ++ (n ++ (w2 ++ '>' :: (idxRender ix ++ R)))) := by
      simp [Tok.render]
    have hne' : (Tok.err w1 n w2 ix).render ≠ [] := by simp [Tok.render]
    rw [← hre] at hm
    cases ix with
    | none =>
      simp only [idxRender, List.nil_append] at hm
      rw [withIndex_none _ _ _ R hn] at hm
      rw [scan_step' _ R pw pos _ hne' hm (by simp [Tok.render, idxRender]; omega)]
      simp [M.at, Tok.expect, Tok.abs, idxText, Tok.render, idxRender]; omega
    | some i =>
      obtain ⟨hw1, hw2, hti⟩ := hix
      have hr2 : idxRender (some i) ++ R = '[' :: (i.w1 ++ (i.text ++ (i.w2 ++ ']' :: R))) := by
        simp [idxRender, IdxR.render]
      rw [hr2, withIndex_render _ _ _ _ _ _ R hw1 hw2 hti] at hm
      have hl := idxRender_len i
      rw [scan_step' _ R pw pos _ hne' hm (by simp [Tok.render] at hl ⊢; omega)]
      simp [M.at, Tok.expect, Tok.abs, idxText, Tok.render] at hl ⊢; omega
  | func n w =>
    obtain ⟨hfn, hnk, hws⟩ := hw
    obtain ⟨r, rfl⟩ := hn
    have hm := matchAt_func pw n w r hfn hnk hws
    have hne' : (Tok.func n w).render ≠ [] := by
      obtain ⟨c, cs, rfl, _⟩ := hfn; simp [Tok.render]
    have hre : (Tok.func n w).render ++ '(' :: r = n ++ (w ++ '(' :: r) := by simp [Tok.render]
    rw [← hre] at hm
    rw [scan_step' _ _ pw pos _ hne' hm (by simp [Tok.render])]
    simp [M.at, Tok.expect, Tok.abs, Tok.render]
  | kw k =>
    obtain ⟨h1, h2⟩ := hn
    have hpw : pw = false := hs
    subst hpw
    have hne' : k ≠ [] := (keywordChars_table k hw).1
    simp only [Tok.render]
    rw [scan_step' k R false pos _ hne' (matchAt_kw k R hw h1 h2) rfl]
    simp [M.at, Tok.expect, Tok.abs, Tok.render]
  | verb c1 body =>
    obtain ⟨hc1, hb⟩ := hw
    have hm := matchAt_verb pw c1 body R hc1 hb
    have hre : (Tok.verb c1 body).render ++ R = '`' :: c1 :: (body ++ '`' :: R) := by simp [Tok.render]
    rw [← hre] at hm
    rw [scan_step' _ R pw pos _ (by simp [Tok.render]) hm (by simp [Tok.render])]
    simp [M.at, Tok.expect, Tok.abs, Tok.render]

end Fsic.Lx

namespace Fsic.Lx

/-! ## Executable well-formedness checker (sound for `Wf`): used for the non-vacuity examples and by the
    driver to confirm that generated scripts fall under the hypotheses of `scan_render`. -/

def headNotB (p : Char → Bool) : List Char → Bool
  | [] => true
  | c :: _ => !p c

def noOpenB (c : Char) (rest : List Char) : Bool :=
  match (spanP isSpace rest).2 with
  | d :: _ => d != c
  | [] => true

def isIdentB : List Char → Bool
  | c :: cs => isIdStart c && cs.all isIdChar
  | [] => false

def isFnNameB : List Char → Bool
  | c :: cs => isIdStart c && cs.all isFnChar
  | [] => false

def idxWfB (text : List Char) : Bool :=
  !text.isEmpty && headNotB isSpace text && headNotB isSpace text.reverse && text.all (fun c => c != ']' && c != '\n')

def idxOkB : Option IdxR → Bool
  | none => true
  | some i => i.w1.all isSpace && i.w2.all isSpace && idxWfB i.text

def Tok.wfB : Tok → Bool
  | .chunk cs => cs.all inert
  | .lt => true
  | .var n ix => isIdentB n && !Generated.keywordChars.contains n && idxOkB ix
  | .param w1 n w2 ix => w1.all isSpace && isIdentB n && w2.all isSpace && idxOkB ix
  | .err w1 n w2 ix => w1.all isSpace && isIdentB n && w2.all isSpace && idxOkB ix
  | .func n w => isFnNameB n && !Generated.keywordChars.contains (spanP isIdChar n).1 && w.all isSpace
  | .kw k => Generated.keywordChars.contains k
  | .verb c1 body => c1 != '\n' && body.all notTickNl

def Tok.nextOkB : Tok → List Char → Bool
  | .chunk _, _ => true
  | .lt, rest => (brAt '<' '>' .error ('<' :: rest)).isNone
  | .var _ none, rest => headNotB isFnChar rest && headNotB (· == '[') rest && noOpenB '(' rest
  | .var _ (some _), _ => true
  | .param _ _ _ none, rest => headNotB (· == '[') rest
  | .param _ _ _ (some _), _ => true
  | .err _ _ _ none, rest => headNotB (· == '[') rest
  | .err _ _ _ (some _), _ => true
  | .func _ _, rest => headNotB (· != '(') rest && !rest.isEmpty
  | .kw _, rest => headNotB isWordU rest && noOpenB '[' rest
  | .verb _ _, _ => true

def Tok.startOkB (pw : Bool) : Tok → Bool
  | .kw _ => !pw
  | _ => true

def wfB : Bool → List Tok → Bool
  | _, [] => true
  | pw, t :: ts => t.wfB && t.startOkB pw && t.nextOkB (renderAll ts) && wfB (lastW pw t.render) ts

theorem headNotB_sound {p : Char → Bool} {rest : List Char} (h : headNotB p rest = true) : HeadNot p rest := by
  cases rest with
  | nil => exact headNot_nil
  | cons c r => simp [headNotB] at h; exact headNot_cons h

theorem noOpenB_sound {c : Char} {rest : List Char} (h : noOpenB c rest = true) : NoOpen c rest := by
  intro r2 heq
  simp [noOpenB, heq] at h

theorem isIdentB_sound {n : List Char} (h : isIdentB n = true) : IsIdent n := by
  cases n with
  | nil => simp [isIdentB] at h
  | cons c cs => simp [isIdentB] at h; exact ⟨c, cs, rfl, h.1, h.2⟩

theorem isFnNameB_sound {n : List Char} (h : isFnNameB n = true) : IsFnName n := by
  cases n with
  | nil => simp [isFnNameB] at h
  | cons c cs => simp [isFnNameB] at h; exact ⟨c, cs, rfl, h.1, h.2⟩

theorem allSpace_sound {w : List Char} (h : w.all isSpace = true) : AllSpace w := by
  intro c hc; exact (List.all_eq_true.mp h) c hc

theorem idxOkB_sound {ix : Option IdxR} (h : idxOkB ix = true) : IdxOk ix := by
  cases ix with
  | none => trivial
  | some i =>
    simp only [idxOkB, idxWfB, Bool.and_eq_true] at h
    obtain ⟨⟨h1, h2⟩, ⟨⟨⟨h3, h4⟩, h5⟩, h6⟩⟩ := h
    refine ⟨allSpace_sound h1, allSpace_sound h2, ?_, headNotB_sound h4, headNotB_sound h5, ?_, ?_⟩
    · intro he; simp [he] at h3
    · intro c hc; have := (List.all_eq_true.mp h6) c hc; simp at this; exact this.1
    · intro c hc; have := (List.all_eq_true.mp h6) c hc; simp at this; exact this.2

theorem Tok.wfB_sound {t : Tok} (h : t.wfB = true) : t.wf := by
  cases t with
  | chunk cs => intro c hc; exact (List.all_eq_true.mp h) c hc
  | lt => trivial
  | var n ix =>
    simp only [Tok.wfB, Bool.and_eq_true] at h
    refine ⟨isIdentB_sound h.1.1, ?_, idxOkB_sound h.2⟩
    have := h.1.2; simp at this; exact this
  | param w1 n w2 ix =>
    simp only [Tok.wfB, Bool.and_eq_true] at h
    exact ⟨allSpace_sound h.1.1.1, isIdentB_sound h.1.1.2, allSpace_sound h.1.2, idxOkB_sound h.2⟩
  | err w1 n w2 ix =>
    simp only [Tok.wfB, Bool.and_eq_true] at h
    exact ⟨allSpace_sound h.1.1.1, isIdentB_sound h.1.1.2, allSpace_sound h.1.2, idxOkB_sound h.2⟩
  | func n w =>
    simp only [Tok.wfB, Bool.and_eq_true] at h
    refine ⟨isFnNameB_sound h.1.1, ?_, allSpace_sound h.2⟩
    have := h.1.2; simp at this; exact this
  | kw k => simp [Tok.wfB] at h; exact h
  | verb c1 body =>
    simp only [Tok.wfB, Bool.and_eq_true] at h
    refine ⟨by simpa using h.1, fun c hc => (List.all_eq_true.mp h.2) c hc⟩

theorem Tok.nextOkB_sound {t : Tok} {rest : List Char} (h : t.nextOkB rest = true) : t.nextOk rest := by
  cases t with
  | chunk cs => trivial
  | lt => simpa [Tok.nextOkB, Tok.nextOk] using h
  | var n ix =>
    cases ix with
    | none =>
      simp only [Tok.nextOkB, Bool.and_eq_true] at h
      exact ⟨headNotB_sound h.1.1, headNotB_sound h.1.2, noOpenB_sound h.2⟩
    | some i => trivial
  | param w1 n w2 ix =>
    cases ix with
    | none => exact headNotB_sound h
    | some i => trivial
  | err w1 n w2 ix =>
    cases ix with
    | none => exact headNotB_sound h
    | some i => trivial
  | func n w =>
    cases rest with
    | nil => simp [Tok.nextOkB] at h
    | cons c r => simp [Tok.nextOkB, headNotB] at h; exact ⟨r, by rw [h]⟩
  | kw k =>
    simp only [Tok.nextOkB, Bool.and_eq_true] at h
    exact ⟨headNotB_sound h.1, noOpenB_sound h.2⟩
  | verb c1 body => trivial

theorem Tok.startOkB_sound {t : Tok} {pw : Bool} (h : t.startOkB pw = true) : t.startOk pw := by
  cases t <;> first | trivial | (simp [Tok.startOkB] at h; exact h)

theorem wfB_sound : ∀ (ts : List Tok) (pw : Bool), wfB pw ts = true → Wf pw ts
  | [], _, _ => trivial
  | t :: ts, pw, h => by
    simp only [wfB, Bool.and_eq_true] at h
    exact ⟨Tok.wfB_sound h.1.1.1, Tok.startOkB_sound h.1.1.2, Tok.nextOkB_sound h.1.2, wfB_sound ts _ h.2⟩

end Fsic.Lx
