import Proofs.Lemmas.ContainerOps
/-
Only `add_variable` changes the index: every other operation leaves `index` exactly as it was.  Used by C10 for the
"no attribute shadows a variable" invariant.
-/
set_option linter.unusedSimpArgs false
set_option linter.unusedVariables false
namespace Fsic.Container
open Fsic

variable {cfg : Cfg}

theorem assignAt_index (s : Store) (name : Name) (ser : Series) (view : List Nat × List Nat) (v : Operand) :
    (assignAt s name ser view v).1.index = s.index := by
  rw [assignAt_eq]; exact put_index _ _ _

theorem assignWhole_index (s : Store) (name : Name) (ser : Series) (v : Operand) :
    (assignWhole cfg s name ser v).1.index = s.index := by
  cases hv : v.isSequence
  · rw [assignWhole_nonseq hv]; exact assignAt_index _ _ _ _ _
  · unfold assignWhole
    simp only [hv, if_true]
    cases hl : listShape v with
    | none => rfl
    | some p =>
      obtain ⟨shp, leaves⟩ := p
      dsimp only
      cases hc : convAll ser.dtype leaves with
      | error e => rfl
      | ok ws =>
        dsimp only
        cases hd : shapeRejected cfg s.n shp with
        | true => rfl
        | false => exact put_index _ _ _

theorem setItem_index (s : Store) (name : Name) (v : Operand) : (setItem cfg s name v).1.index = s.index := by
  unfold setItem
  cases hg : s.get name with
  | none => rfl
  | some ser => exact assignWhole_index _ _ _ _

theorem setPos_index (s : Store) (name : Name) (i : Int) (v : Operand) : (setPos s name i v).1.index = s.index := by
  unfold setPos
  cases hg : s.get name with
  | none => rfl
  | some ser =>
    dsimp only
    cases hp : pyIndex (firstDim ser) i with
    | none => rfl
    | some p => exact assignAt_index _ _ _ _ _

theorem setPosSlice_index (s : Store) (name : Name) (a b : Option Int) (st : Option Int) (v : Operand) :
    (setPosSlice s name a b st v).1.index = s.index := by
  unfold setPosSlice
  cases hg : s.get name with
  | none => rfl
  | some ser =>
    dsimp only
    cases hp : pySliceAny (firstDim ser) a b st with
    | none => rfl
    | some ps => exact assignAt_index _ _ _ _ _

theorem assignLoc_index (s : Store) (name : Name) (ser : Series) (l : Loc) (v : Operand) :
    (assignLoc s name ser l v).1.index = s.index := by
  cases l with
  | missing => rfl
  | pos p =>
    simp only [assignLoc]
    by_cases hp : p < firstDim ser
    · rw [if_pos hp]; exact assignAt_index _ _ _ _ _
    · rw [if_neg hp]
  | nonIntPos p =>
    simp only [assignLoc]
    by_cases hp : p < firstDim ser
    · rw [if_pos hp]; exact assignAt_index _ _ _ _ _
    · rw [if_neg hp]
  | slice a b => simp only [assignLoc]; exact assignAt_index _ _ _ _ _

theorem setLabel_index (s : Store) (name : Name) (label : Nat) (v : Operand) :
    (setLabel s name label v).1.index = s.index := by
  unfold setLabel
  cases hg : s.get name with
  | none => rfl
  | some ser =>
    dsimp only
    cases hl : locate s label with
    | missing => rfl
    | pos p => exact assignLoc_index _ _ _ _ _
    | nonIntPos p => exact assignLoc_index _ _ _ _ _
    | slice a b => exact assignLoc_index _ _ _ _ _

theorem setLabelSlice_index (s : Store) (name : Name) (a b : Option Nat) (st : Option Int) (v : Operand) :
    (setLabelSlice s name a b st v).1.index = s.index := by
  unfold setLabelSlice
  cases hg : s.get name with
  | none => rfl
  | some ser =>
    dsimp only
    cases hr : resolveSlice s a b st with
    | error e => rfl
    | ok t =>
      obtain ⟨lo, hi, step⟩ := t
      dsimp only
      cases hp : pySliceAny (firstDim ser) (some ↑lo) (some ↑hi) (some step) with
      | none => rfl
      | some ps => exact assignAt_index _ _ _ _ _

theorem replaceValues_index (s : Store) (kvs : List (Name × Operand)) :
    (replaceValues cfg s kvs).1.index = s.index := by
  induction kvs generalizing s with
  | nil => rfl
  | cons p rest ih =>
    obtain ⟨k, v⟩ := p
    unfold replaceValues
    have h1 := setItem_index (cfg := cfg) s k v
    generalize setItem cfg s k v = r at h1
    obtain ⟨s', o⟩ := r
    cases o with
    | ok => exact (ih s').trans h1
    | raised e => exact h1

theorem setRowArray_index (s : Store) (name : Name) (row : Series) :
    (setRowArray cfg s name row).1.index = s.index := by
  unfold setRowArray
  cases hg : s.get name with
  | none => rfl
  | some ser => exact assignWhole_index _ _ _ _

theorem setValuesRows_index (s : Store) (rowShape : List Nat) (dt : Dtype) (names : List Name)
    (rows : List (List Val)) : (setValuesRows cfg s rowShape dt names rows).1.index = s.index := by
  induction names generalizing s rows with
  | nil => unfold setValuesRows; rfl
  | cons name names ih =>
    cases rows with
    | nil => unfold setValuesRows; rfl
    | cons row rows =>
      unfold setValuesRows
      cases hg : s.get name with
      | none => rfl
      | some ser =>
        dsimp only
        cases hc : convAll ser.dtype row with
        | error e => rfl
        | ok ws =>
          dsimp only
          have h1 := setRowArray_index (cfg := cfg) s name ⟨ser.dtype, rowShape, ws⟩
          generalize setRowArray cfg s name ⟨ser.dtype, rowShape, ws⟩ = r at h1
          obtain ⟨s', o⟩ := r
          cases o with
          | ok => exact (ih s' rows).trans h1
          | raised e => exact h1

theorem setValuesFill_index (s : Store) (v : Operand) (names : List Name) :
    (setValuesFill cfg s v names).1.index = s.index := by
  induction names generalizing s with
  | nil => unfold setValuesFill; rfl
  | cons name names ih =>
    unfold setValuesFill
    cases hg : s.get name with
    | none => rfl
    | some ser =>
      dsimp only
      cases ha : asArray v with
      | error e => rfl
      | ok a =>
        dsimp only
        generalize assignView ⟨ser.dtype, ser.shape, ser.data⟩ (viewAll ser).1 (viewAll ser).2
          (Src.cast (stripTo ser.shape.length a.shape) a.data) = q
        obtain ⟨full, o⟩ := q
        cases o with
        | raised e => rfl
        | ok =>
          dsimp only
          have h1 := setRowArray_index (cfg := cfg) s name full
          generalize setRowArray cfg s name full = r at h1
          obtain ⟨s', o'⟩ := r
          cases o' with
          | ok => exact (ih s').trans h1
          | raised e => exact h1

theorem setValuesCore_index (s : Store) (v : Operand) : (setValuesCore cfg s v).1.index = s.index := by
  unfold setValuesCore
  cases v with
  | ndarray a =>
    dsimp only
    cases hv : valuesShape s with
    | error e => rfl
    | ok vs =>
      dsimp only
      by_cases hs : a.shape ≠ vs
      · rw [if_pos hs]
      · rw [if_neg hs]; exact setValuesRows_index _ _ _ _ _
  | scalar x => exact setValuesFill_index _ _ _
  | list xs => exact setValuesFill_index _ _ _
  | nested rows => exact setValuesFill_index _ _ _

end Fsic.Container
