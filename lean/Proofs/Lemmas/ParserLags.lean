import Proofs.Lemmas.ParserChar
set_option linter.unusedSimpArgs false
set_option linter.unusedVariables false
/-
Arithmetic of `abs(min(lags))` / `abs(max(leads))` and the class lists of `build_model_definition`.
-/
namespace Fsic.Parser

theorem minList_le (xs : List Int) : ∀ m, minList m xs ≤ m ∧ ∀ y ∈ xs, minList m xs ≤ y := by
  induction xs with
  | nil => intro m; simp [minList]
  | cons x xs ih =>
    intro m
    obtain ⟨h1, h2⟩ := ih (min m x)
    simp only [minList]
    refine ⟨by omega, ?_⟩
    intro y hy
    rcases List.mem_cons.1 hy with rfl | hy
    · omega
    · exact h2 y hy

theorem minList_mem (xs : List Int) : ∀ m, minList m xs = m ∨ minList m xs ∈ xs := by
  induction xs with
  | nil => intro m; simp [minList]
  | cons x xs ih =>
    intro m
    simp only [minList]
    rcases ih (min m x) with h | h
    · by_cases hmx : m ≤ x
      · left; rw [h]; omega
      · right; rw [h]; simp; left; omega
    · right; exact List.mem_cons_of_mem _ h

theorem maxList_ge (xs : List Int) : ∀ m, m ≤ maxList m xs ∧ ∀ y ∈ xs, y ≤ maxList m xs := by
  induction xs with
  | nil => intro m; simp [maxList]
  | cons x xs ih =>
    intro m
    obtain ⟨h1, h2⟩ := ih (max m x)
    simp only [maxList]
    refine ⟨by omega, ?_⟩
    intro y hy
    rcases List.mem_cons.1 hy with rfl | hy
    · omega
    · exact h2 y hy

theorem maxList_mem (xs : List Int) : ∀ m, maxList m xs = m ∨ maxList m xs ∈ xs := by
  induction xs with
  | nil => intro m; simp [maxList]
  | cons x xs ih =>
    intro m
    simp only [maxList]
    rcases ih (max m x) with h | h
    · by_cases hmx : x ≤ m
      · left; rw [h]; omega
      · right; rw [h]; simp; left; omega
    · right; exact List.mem_cons_of_mem _ h

/-- `abs(min(ms))` (0 for no symbol) equals `max(0 :: -offsets)` when every `m` is `≤ 0`, is 0 or an offset, and
    every offset is bounded below by some `m`. -/
theorem absmin_eq (ms offs : List Int) (h1 : ∀ m ∈ ms, m ≤ 0 ∧ (m = 0 ∨ m ∈ offs))
    (h2 : ∀ i ∈ offs, ∃ m ∈ ms, m ≤ i) :
    (match ms with | [] => 0 | x :: xs => absInt (minList x xs)) = maxList 0 (offs.map (-·)) := by
  have hR0 := (maxList_ge (offs.map (-·)) 0).1
  have hRall := (maxList_ge (offs.map (-·)) 0).2
  cases ms with
  | nil =>
    rcases maxList_mem (offs.map (-·)) 0 with h | h
    · simp [h]
    · obtain ⟨i, hi, _⟩ := List.mem_map.1 h
      obtain ⟨m, hm, _⟩ := h2 i hi
      simp at hm
  | cons x xs =>
    simp only
    have hμmem : minList x xs ∈ x :: xs := by
      rcases minList_mem xs x with h | h
      · rw [h]; simp
      · exact List.mem_cons_of_mem _ h
    obtain ⟨hμ0, hμatt⟩ := h1 _ hμmem
    have hμle : ∀ m ∈ x :: xs, minList x xs ≤ m := by
      intro m hm
      rcases List.mem_cons.1 hm with rfl | hm
      · exact (minList_le xs m).1
      · exact (minList_le xs x).2 m hm
    have habs : absInt (minList x xs) = -(minList x xs) := by
      unfold absInt; by_cases h : minList x xs < 0
      · simp [h]
      · simp [h]; omega
    rw [habs]
    apply Int.le_antisymm
    · rcases hμatt with h | h
      · omega
      · have := hRall (-(minList x xs)) (List.mem_map.2 ⟨_, h, rfl⟩); omega
    · rcases maxList_mem (offs.map (-·)) 0 with h | h
      · omega
      · obtain ⟨i, hi, hie⟩ := List.mem_map.1 h
        obtain ⟨m, hm, hmi⟩ := h2 i hi
        have := hμle m hm
        omega

theorem absmax_eq (ms offs : List Int) (h1 : ∀ m ∈ ms, 0 ≤ m ∧ (m = 0 ∨ m ∈ offs))
    (h2 : ∀ i ∈ offs, ∃ m ∈ ms, i ≤ m) :
    (match ms with | [] => 0 | x :: xs => absInt (maxList x xs)) = maxList 0 offs := by
  have hR0 := (maxList_ge offs 0).1
  have hRall := (maxList_ge offs 0).2
  cases ms with
  | nil =>
    rcases maxList_mem offs 0 with h | h
    · simp [h]
    · obtain ⟨m, hm, _⟩ := h2 _ h
      simp at hm
  | cons x xs =>
    simp only
    have hμmem : maxList x xs ∈ x :: xs := by
      rcases maxList_mem xs x with h | h
      · rw [h]; simp
      · exact List.mem_cons_of_mem _ h
    obtain ⟨hμ0, hμatt⟩ := h1 _ hμmem
    have hμge : ∀ m ∈ x :: xs, m ≤ maxList x xs := by
      intro m hm
      rcases List.mem_cons.1 hm with rfl | hm
      · exact (maxList_ge xs m).1
      · exact (maxList_ge xs x).2 m hm
    have habs : absInt (maxList x xs) = maxList x xs := by
      unfold absInt; by_cases h : maxList x xs < 0
      · omega
      · simp [h]
    rw [habs]
    apply Int.le_antisymm
    · rcases hμatt with h | h
      · omega
      · exact hRall _ h
    · rcases maxList_mem offs 0 with h | h
      · omega
      · obtain ⟨m, hm, hmi⟩ := h2 _ h
        have := hμge m hm
        omega

theorem allInts_of_forall : ∀ (l : List Idx), (∀ i ∈ l, ∃ m, i = .int m) → ∃ ms, allInts l = some ms ∧ l = ms.map .int := by
  intro l
  induction l with
  | nil => intro _; exact ⟨[], rfl, rfl⟩
  | cons i l ih =>
    intro h
    obtain ⟨m, rfl⟩ := h i (by simp)
    obtain ⟨ms, h1, h2⟩ := ih (fun j hj => h j (List.mem_cons_of_mem _ hj))
    exact ⟨m :: ms, by simp [allInts, h1], by simp [h2]⟩

/-- All integer indexes written anywhere in the script (a named-period `str` index contributes none). -/
def scriptOffsets (S : List Stmt) : List Int :=
  (scriptOcc S).filterMap (fun s => match s.lags with | .int i => some i | _ => none)

theorem mem_scriptOffsets {S : List Stmt} {i : Int} :
    i ∈ scriptOffsets S ↔ ∃ s ∈ scriptOcc S, s.lags = .int i := by
  unfold scriptOffsets
  rw [List.mem_filterMap]
  constructor
  · rintro ⟨s, hs, h⟩
    refine ⟨s, hs, ?_⟩
    cases hl : s.lags with
    | none => simp [hl] at h
    | int j => simp [hl] at h; rw [h]
    | str t => simp [hl] at h
  · rintro ⟨s, hs, h⟩; exact ⟨s, hs, by simp [h]⟩

theorem scriptOcc_leads (S : List Stmt) : ∀ s ∈ scriptOcc S, s.leads = s.lags := by
  intro s hs
  obtain ⟨stmt, _, hso⟩ := List.mem_flatMap.1 hs
  cases stmt with
  | verb e c => simp [stmtOcc] at hso
  | eqn ts e c =>
    simp only [stmtOcc, termSyms] at hso
    obtain ⟨t, _, rfl⟩ := List.mem_map.1 hso
    rfl

theorem namesOfType_append (ty : TermType) (a b : List Symbol) :
    namesOfType ty (a ++ b) = namesOfType ty a ++ namesOfType ty b := by
  simp [namesOfType, List.filter_append]

theorem namesOfType_verbatim_tail {ty : TermType} (hty : ty ≠ .verbatim) {V : List Symbol}
    (hV : ∀ v ∈ V, v.name = none ∧ v.type = .verbatim) : namesOfType ty V = [] := by
  unfold namesOfType
  have : V.filter (fun s => s.type = ty) = [] := by
    apply List.filter_eq_nil_iff.2
    intro v hv; simp; rw [(hV v hv).2]; exact fun e => hty e.symm
  simp [this]

theorem nonIndexed_append_V {D V : List Symbol} (hV : ∀ v ∈ V, v.name = none ∧ v.type = .verbatim) :
    nonIndexed (D ++ V) = nonIndexed D := by
  unfold nonIndexed
  rw [List.filter_append]
  have : V.filter (fun s => isIndexed s.type) = [] := by
    apply List.filter_eq_nil_iff.2
    intro v hv; rw [(hV v hv).2]; decide
  simp [this]

theorem entries_inj {D : List Symbol} (hnd : (keys D).Nodup) {x y : Symbol} (hx : x ∈ D) (hy : y ∈ D)
    (h : x.name = y.name) : x = y := by
  have := findSym_of_mem_nodup hnd hx
  rw [h, findSym_of_mem_nodup hnd hy] at this
  exact (Option.some.inj this).symm

theorem namesOfType_sublist (ty : TermType) (D : List Symbol) : (namesOfType ty D).Sublist (keys D) := by
  unfold namesOfType keys
  exact (List.filter_sublist).map _

theorem namesOfType_disjoint {D : List Symbol} (hnd : (keys D).Nodup) {a b : TermType} (hab : a ≠ b) :
    ∀ k ∈ namesOfType a D, ∀ k' ∈ namesOfType b D, k ≠ k' := by
  intro k hk k' hk' e
  subst e
  unfold namesOfType at hk hk'
  obtain ⟨x, hx, rfl⟩ := List.mem_map.1 hk
  obtain ⟨y, hy, hyn⟩ := List.mem_map.1 hk'
  obtain ⟨hx1, hx2⟩ := List.mem_filter.1 hx
  obtain ⟨hy1, hy2⟩ := List.mem_filter.1 hy
  have := entries_inj hnd hx1 hy1 hyn.symm
  subst this
  simp at hx2 hy2
  exact hab (hx2.symm.trans hy2)

end Fsic.Parser
