import FsicModel.AliasLabel
import Proofs.Lemmas.AliasStore
/-
Helper lemmas for C18: label-indexed access on a span of names (`FsicModel/AliasLabel.lean`).
-/
set_option linter.unusedSectionVars false
set_option linter.unusedSimpArgs false
namespace Fsic.Alias
variable {α : Type} [DecidableEq α] {β : Type}

deriving instance DecidableEq for Res
deriving instance DecidableEq for Store

theorem locate_lt {span : List α} {l : α} {i : Nat} (h : locate span l = some i) : i < span.length := by
  induction span generalizing i with
  | nil => simp [locate] at h
  | cons x xs ih =>
    by_cases e : x = l
    · simp [locate, e] at h; subst h; simp
    · simp only [locate, e, if_false] at h
      cases hx : locate xs l with
      | none => rw [hx] at h; cases h
      | some j =>
        rw [hx] at h
        simp at h; subst h
        have := ih hx
        simp; omega

/-- `locate` finds the label: the label at the position is `l`, and no earlier position carries it. -/
theorem locate_spec {span : List α} {l : α} {i : Nat} (h : locate span l = some i) :
    span[i]? = some l ∧ ∀ k, k < i → span[k]? ≠ some l := by
  induction span generalizing i with
  | nil => simp [locate] at h
  | cons x xs ih =>
    by_cases e : x = l
    · simp [locate, e] at h; subst h
      exact ⟨by simp [e], fun k hk => by omega⟩
    · simp only [locate, e, if_false] at h
      cases hx : locate xs l with
      | none => rw [hx] at h; cases h
      | some j =>
        rw [hx] at h
        simp at h; subst h
        obtain ⟨h1, h2⟩ := ih hx
        refine ⟨by simpa using h1, ?_⟩
        intro k hk
        cases k with
        | zero => simp [e]
        | succ k => simpa using h2 k (by omega)

theorem locate_none_iff {span : List α} {l : α} : locate span l = none ↔ l ∉ span := by
  induction span with
  | nil => simp [locate]
  | cons x xs ih =>
    by_cases e : x = l
    · simp [locate, e]
    · have e' : ¬ l = x := fun h => e h.symm
      simp [locate, e, e', ih]

/-- On a span without repeated labels `locate` is injective. -/
theorem locate_inj {span : List α} {l l' : α} {i : Nat} (h : locate span l = some i) (h' : locate span l' = some i) :
    l = l' := by
  have h1 := (locate_spec h).1
  have h2 := (locate_spec h').1
  rw [h1] at h2
  exact Option.some.inj h2

theorem Op.mapName_mapIx {P : Type} (f : α → α) (g : P → P) (op : Op α P) :
    (op.mapIx g).mapName f = (op.mapName f).mapIx g := by
  cases op <;> rfl

theorem index_of_lookup {V P : Type} {s : Store α V P} {n : α} {v : V} (h : lookup s.vars n = some v) : n ∈ s.index :=
  lookup_some_mem h

/-- `container[n, l]` without the mixin: element `locate span l` of the series stored under `n`. -/
theorem base_getAt_label (span : List α) (s : Store α (List β) (LPay α β)) {n l : α} {v : List β} {i : Nat}
    (hv : lookup s.vars n = some v) (hl : locate span l = some i) (hi : i < v.length) :
    base (labelOps span) s (.getAt n (.ix (.label l))) = (s, .value (.scalar v[i])) := by
  have hmem := index_of_lookup hv
  simp [base, baseGetItem, hmem, containerGetattr, hv, readAtRes, labelOps, labelRead, hl, readCell, hi]

theorem base_getAt_label_missing (span : List α) (s : Store α (List β) (LPay α β)) {n l : α} {v : List β}
    (hv : lookup s.vars n = some v) (hl : locate span l = none) :
    base (labelOps span) s (.getAt n (.ix (.label l))) = (s, .err .keyError) := by
  have hmem := index_of_lookup hv
  simp [base, baseGetItem, hmem, containerGetattr, hv, readAtRes, labelOps, labelRead, hl]

/-- `container[n, l] = c` without the mixin: exactly that cell of exactly that series. -/
theorem base_setAt_label (span : List α) (s : Store α (List β) (LPay α β)) {n l : α} {v : List β} {i : Nat} (c : β)
    (hv : lookup s.vars n = some v) (hl : locate span l = some i) (hi : i < v.length) :
    base (labelOps span) s (.setAt n (.ix (.label l)) (.scalar c)) =
      ({ s with vars := update s.vars n (v.set i c) }, .done) := by
  simp [base, containerWriteAt, hv, labelOps, labelWrite, hl, writeCell, hi]

theorem base_setAt_label_missing (span : List α) (s : Store α (List β) (LPay α β)) {n l : α} {v : List β}
    (p : LPay α β) (hv : lookup s.vars n = some v) (hl : locate span l = none) :
    base (labelOps span) s (.setAt n (.ix (.label l)) p) = (s, .err .keyError) := by
  simp [base, containerWriteAt, hv, labelOps, labelWrite, hl]

/-- `container[n, a:b:st]` without the mixin. -/
theorem base_getAt_slice (span : List α) (s : Store α (List β) (LPay α β)) {n : α} (a b : Option α) {st : Nat}
    {v : List β} {i j : Nat} (hv : lookup s.vars n = some v) (ha : locStart span a = some i)
    (hb : locStop span b = some j) (hst : st ≠ 0) :
    base (labelOps span) s (.getAt n (.ix (.slice a b st))) =
      (s, .value (.list ((slicePositions i j st).filterMap fun k => v[k]?))) := by
  have hmem := index_of_lookup hv
  simp [base, baseGetItem, hmem, containerGetattr, hv, readAtRes, labelOps, labelRead, ha, hb, readSlice, hst]

theorem base_setAt_slice (span : List α) (s : Store α (List β) (LPay α β)) {n : α} (a b : Option α) {st : Nat}
    {v : List β} {i j : Nat} (c : β) (hv : lookup s.vars n = some v) (ha : locStart span a = some i)
    (hb : locStop span b = some j) (hst : st ≠ 0) :
    base (labelOps span) s (.setAt n (.ix (.slice a b st)) (.scalar c)) =
      ({ s with vars := update s.vars n (setAll v (slicePositions i j st) c) }, .done) := by
  simp [base, containerWriteAt, hv, labelOps, labelWrite, ha, hb, writeSlice, hst]

end Fsic.Alias
