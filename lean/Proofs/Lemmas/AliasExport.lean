import Proofs.Lemmas.Alias
/-
Helper lemmas for C18: the export `to_dataframe(use_aliases=True)` and the `PREFERRED_NAMES` check.
-/
set_option linter.unusedSectionVars false
set_option linter.unusedSimpArgs false
namespace Fsic.Alias
variable {α : Type} [DecidableEq α]

/-! ### small list facts -/

theorem inj_of_nodup_map {β : Type} (f : α → β) : ∀ {l : List α}, (l.map f).Nodup → ∀ {x y : α}, x ∈ l → y ∈ l →
    f x = f y → x = y := by
  intro l
  induction l with
  | nil => intro _ x y hx; cases hx
  | cons a l ih =>
    intro hnd x y hx hy e
    have hnd' : f a ∉ l.map f ∧ (l.map f).Nodup := by simpa using hnd
    rcases List.mem_cons.mp hx with hxa | hx <;> rcases List.mem_cons.mp hy with hya | hy
    · rw [hxa, hya]
    · exact absurd (List.mem_map.mpr ⟨y, hy, by rw [← e, hxa]⟩) hnd'.1
    · exact absurd (List.mem_map.mpr ⟨x, hx, by rw [e, hya]⟩) hnd'.1
    · exact ih hnd'.2 hx hy e

theorem length_le_one_of_all_eq {l : List α} (hnd : l.Nodup) (h : ∀ x ∈ l, ∀ y ∈ l, x = y) : l.length ≤ 1 := by
  match l, hnd, h with
  | [], _, _ => simp
  | [_], _, _ => simp
  | a :: b :: _, hnd, h =>
    have : a = b := h a (by simp) b (by simp)
    simp [this] at hnd

theorem mem_dedup (l : List α) (x : α) : x ∈ dedup l ↔ x ∈ l := by
  induction l with
  | nil => simp [dedup]
  | cons a l ih =>
    by_cases h : a ∈ l
    · simp only [dedup, h, if_true, ih, List.mem_cons]
      constructor
      · exact Or.inr
      · rintro (rfl | h') <;> assumption
    · simp [dedup, h, ih]

theorem nodup_dedup (l : List α) : (dedup l).Nodup := by
  induction l with
  | nil => simp [dedup]
  | cons a l ih =>
    by_cases h : a ∈ l
    · simpa [dedup, h] using ih
    · simp [dedup, h, ih, mem_dedup]

/-! ### the inverted dict (no preferred names) -/

theorem invGet_some_mem {m : AMap α} {x k : α} (h : invGet m x = some k) : (k, x) ∈ m := by
  induction m with
  | nil => simp [invGet] at h
  | cons p m ih =>
    unfold invGet at h
    cases hm : invGet m x with
    | some k' =>
      rw [hm] at h
      simp at h
      exact List.mem_cons_of_mem _ (ih (h ▸ hm))
    | none =>
      rw [hm] at h
      by_cases hp : p.2 = x
      · simp [hp] at h
        have : p = (k, x) := by cases p; simp_all
        simp [this]
      · simp [hp] at h

theorem invGet_none_iff (m : AMap α) (x : α) : invGet m x = none ↔ x ∉ vals m := by
  induction m with
  | nil => simp [invGet, vals]
  | cons p m ih =>
    unfold invGet
    cases hm : invGet m x with
    | some k =>
      have : x ∈ vals m := by
        apply Classical.byContradiction; intro h; rw [ih.mpr h] at hm; cases hm
      constructor
      · intro h; cases h
      · intro h; exact absurd (List.mem_cons_of_mem _ this) h
    | none =>
      have hx := ih.mp hm
      by_cases hp : p.2 = x
      · simp [hp, vals]
      · have hp' : ¬ x = p.2 := fun e => hp e.symm
        simp only [hp, if_false, vals, List.map_cons, List.mem_cons, hp', false_or, true_iff]
        exact hx

/-! ### sorting by target -/

structure LinOrd (le : α → α → Bool) : Prop where
  total : ∀ a b, le a b = true ∨ le b a = true
  trans : ∀ a b c, le a b = true → le b c = true → le a c = true
  antisymm : ∀ a b, le a b = true → le b a = true → a = b

def SortedByVal (le : α → α → Bool) (l : AMap α) : Prop := l.Pairwise fun p q => le p.2 q.2 = true

theorem mem_insertByVal (le : α → α → Bool) (p q : α × α) (l : AMap α) :
    q ∈ insertByVal le p l ↔ q = p ∨ q ∈ l := by
  induction l with
  | nil => simp [insertByVal]
  | cons a l ih =>
    by_cases h : le p.2 a.2 = true
    · simp [insertByVal, h]
    · rw [insertByVal, if_neg h]
      simp only [List.mem_cons, ih]
      constructor
      · rintro (h1 | h1 | h1) <;> simp [h1]
      · rintro (h1 | h1 | h1) <;> simp [h1]

theorem mem_sortByVal (le : α → α → Bool) (m : AMap α) (q : α × α) : q ∈ sortByVal le m ↔ q ∈ m := by
  induction m with
  | nil => simp [sortByVal]
  | cons a m ih =>
    have : sortByVal le (a :: m) = insertByVal le a (sortByVal le m) := rfl
    rw [this, mem_insertByVal, ih]; simp

theorem sorted_insertByVal {le : α → α → Bool} (ho : LinOrd le) (p : α × α) {l : AMap α}
    (h : SortedByVal le l) : SortedByVal le (insertByVal le p l) := by
  induction l with
  | nil => simp [insertByVal, SortedByVal]
  | cons a l ih =>
    have ha : (∀ q ∈ l, le a.2 q.2 = true) ∧ SortedByVal le l := List.pairwise_cons.mp h
    by_cases hle : le p.2 a.2 = true
    · rw [insertByVal, if_pos hle]
      refine List.pairwise_cons.mpr ⟨?_, List.pairwise_cons.mpr ⟨?_, ha.2⟩⟩
      · intro q hq
        rcases List.mem_cons.mp hq with rfl | hq
        · exact hle
        · exact ho.trans _ _ _ hle (ha.1 q hq)
      · exact ha.1
    · have hle' : le a.2 p.2 = true := (ho.total p.2 a.2).resolve_left hle
      rw [insertByVal, if_neg hle]
      refine List.pairwise_cons.mpr ⟨?_, ih ha.2⟩
      intro q hq
      rcases (mem_insertByVal le p q l).mp hq with rfl | hq
      · exact hle'
      · exact ha.1 q hq

theorem sorted_sortByVal {le : α → α → Bool} (ho : LinOrd le) (m : AMap α) : SortedByVal le (sortByVal le m) := by
  induction m with
  | nil => simp [sortByVal, SortedByVal]
  | cons a m ih => exact sorted_insertByVal ho a ih

/-! ### grouping -/

theorem groups_cons (p : α × α) (rest : AMap α) :
    groups (p :: rest) =
      match groups rest with
      | [] => [(p.2, [p.1])]
      | g :: gs => if p.2 = g.1 then (g.1, p.1 :: g.2) :: gs else (p.2, [p.1]) :: g :: gs := rfl

theorem groups_ne_nil (p : α × α) (rest : AMap α) : groups (p :: rest) ≠ [] := by
  rw [groups_cons]; split
  · simp
  · split <;> simp

/-- Every member of a group is an item with that target, and no group is empty. -/
theorem groups_sound : ∀ (l : AMap α) (g : α × List α), g ∈ groups l → g.2 ≠ [] ∧ ∀ a ∈ g.2, (a, g.1) ∈ l := by
  intro l
  induction l with
  | nil => intro g hg; simp [groups] at hg
  | cons p rest ih =>
    intro g hg
    rw [groups_cons] at hg
    split at hg
    · simp at hg; subst hg; simp
    · rename_i g0 gs hgr
      have ih0 := ih g0 (by rw [hgr]; simp)
      split at hg
      · rename_i heq
        rcases List.mem_cons.mp hg with rfl | hg
        · refine ⟨by simp, ?_⟩
          intro a ha
          rcases List.mem_cons.mp ha with rfl | ha
          · simp [← heq]
          · exact List.mem_cons_of_mem _ (ih0.2 a ha)
        · have := ih g (by rw [hgr]; exact List.mem_cons_of_mem _ hg)
          exact ⟨this.1, fun a ha => List.mem_cons_of_mem _ (this.2 a ha)⟩
      · rcases List.mem_cons.mp hg with rfl | hg
        · simp
        · have := ih g (by rw [hgr]; exact hg)
          exact ⟨this.1, fun a ha => List.mem_cons_of_mem _ (this.2 a ha)⟩

theorem group_target_mem_vals {l : AMap α} {g : α × List α} (hg : g ∈ groups l) : g.1 ∈ vals l := by
  obtain ⟨hne, hall⟩ := groups_sound l g hg
  cases h : g.2 with
  | nil => exact absurd h hne
  | cons a as => exact mem_vals_of_mem (hall a (by simp [h]))

theorem groups_head (p : α × α) (rest : AMap α) : ∃ as gs, groups (p :: rest) = (p.2, as) :: gs := by
  rw [groups_cons]; split
  · exact ⟨_, _, rfl⟩
  · split
    · rename_i h; exact ⟨_, _, by rw [h]⟩
    · exact ⟨_, _, rfl⟩

/-- In a list sorted by target, an item whose target differs from the target of the next item's group
    has a target that does not occur later. -/
theorem fresh_target {le : α → α → Bool} (ho : LinOrd le) {p : α × α} {rest : AMap α}
    (hs : SortedByVal le (p :: rest)) {g : α × List α} {gs : List (α × List α)} (hgr : groups rest = g :: gs)
    (hne : p.2 ≠ g.1) : p.2 ∉ vals rest := by
  have hp : (∀ q ∈ rest, le p.2 q.2 = true) ∧ SortedByVal le rest := List.pairwise_cons.mp hs
  cases rest with
  | nil => simp [groups] at hgr
  | cons q rest' =>
    obtain ⟨as, gs', hh⟩ := groups_head q rest'
    have hg1 : g.1 = q.2 := by rw [hh] at hgr; cases hgr; rfl
    have hq : ∀ q' ∈ rest', le q.2 q'.2 = true := (List.pairwise_cons.mp hp.2).1
    intro hmem
    obtain ⟨x, hx, hxv⟩ := List.mem_map.mp hmem
    have h1 : le p.2 q.2 = true := hp.1 q (by simp)
    have h2 : le q.2 p.2 = true := by
      rcases List.mem_cons.mp hx with hxq | hx
      · rw [← hxv, hxq]; rw [← hxv, hxq] at h1; exact h1
      · rw [← hxv]; exact hq x hx
    exact hne (by rw [hg1]; exact ho.antisymm _ _ h1 h2)

/-- In a list sorted by target the groups have pairwise different targets and each holds *all* items of
    its target. -/
theorem groups_complete {le : α → α → Bool} (ho : LinOrd le) : ∀ (l : AMap α), SortedByVal le l →
    ((groups l).map Prod.fst).Nodup ∧ ∀ g ∈ groups l, ∀ a, (a, g.1) ∈ l → a ∈ g.2 := by
  intro l
  induction l with
  | nil => intro _; simp [groups]
  | cons p rest ih =>
    intro hs
    have hp : (∀ q ∈ rest, le p.2 q.2 = true) ∧ SortedByVal le rest := List.pairwise_cons.mp hs
    obtain ⟨ihd, ihc⟩ := ih hp.2
    rw [groups_cons]
    split
    · rename_i hnil
      cases rest with
      | nil => simp; intro a h; rw [← h]
      | cons q r => exact absurd hnil (groups_ne_nil q r)
    · rename_i g0 gs hgr
      rw [hgr] at ihd ihc
      have ihd' : g0.1 ∉ gs.map Prod.fst ∧ (gs.map Prod.fst).Nodup := by simpa using ihd
      split
      · rename_i heq
        refine ⟨by simpa using ihd', ?_⟩
        intro g hg a ha
        rcases List.mem_cons.mp hg with hg | hg
        · subst hg
          rcases List.mem_cons.mp ha with ha | ha
          · have : a = p.1 := by rw [← ha]
            simp [this]
          · exact List.mem_cons_of_mem _ (ihc g0 (by simp) a ha)
        · rcases List.mem_cons.mp ha with ha | ha
          · have : g.1 = g0.1 := by rw [← heq, ← ha]
            exact absurd (List.mem_map.mpr ⟨g, hg, this⟩) ihd'.1
          · exact ihc g (List.mem_cons_of_mem _ hg) a ha
      · rename_i hne
        have hfresh := fresh_target ho hs hgr hne
        have htargets : ∀ g ∈ g0 :: gs, g.1 ≠ p.2 := by
          intro g hg e
          exact hfresh (e ▸ group_target_mem_vals (l := rest) (by rw [hgr]; exact hg))
        refine ⟨?_, ?_⟩
        · simp only [List.map_cons, List.nodup_cons]
          refine ⟨?_, by simpa using ihd'⟩
          intro hmem
          obtain ⟨g, hg, e⟩ := List.mem_map.mp (show p.2 ∈ (g0 :: gs).map Prod.fst by simpa using hmem)
          exact htargets g hg e
        · intro g hg a ha
          rcases List.mem_cons.mp hg with hg | hg
          · subst hg
            rcases List.mem_cons.mp ha with ha | ha
            · have : a = p.1 := by rw [← ha]
              simp [this]
            · exact absurd (mem_vals_of_mem ha) hfresh
          · rcases List.mem_cons.mp ha with ha | ha
            · have : g.1 = p.2 := by rw [← ha]
              exact absurd this (htargets g hg)
            · exact ihc g hg a ha

/-- Every item is in some group (any list). -/
theorem groups_cover : ∀ (l : AMap α) (a t : α), (a, t) ∈ l → ∃ g ∈ groups l, g.1 = t ∧ a ∈ g.2 := by
  intro l
  induction l with
  | nil => intro a t h; cases h
  | cons p rest ih =>
    intro a t h
    rw [groups_cons]
    rcases List.mem_cons.mp h with h | h
    · cases h
      split
      · exact ⟨(t, [a]), by simp, rfl, by simp⟩
      · rename_i g0 gs _
        split
        · rename_i heq; exact ⟨(g0.1, a :: g0.2), List.mem_cons_self, heq.symm, by simp⟩
        · exact ⟨(t, [a]), List.mem_cons_self, rfl, by simp⟩
    · obtain ⟨g, hg, hg1, hg2⟩ := ih a t h
      split
      · rename_i hnil; rw [hnil] at hg; cases hg
      · rename_i g0 gs hgr
        rw [hgr] at hg
        split
        · rcases List.mem_cons.mp hg with rfl | hg
          · exact ⟨_, List.mem_cons_self, hg1, List.mem_cons_of_mem _ hg2⟩
          · exact ⟨g, List.mem_cons_of_mem _ hg, hg1, hg2⟩
        · exact ⟨g, List.mem_cons_of_mem _ hg, hg1, hg2⟩

end Fsic.Alias
