import Proofs.Lemmas.Lexer
set_option linter.unusedSimpArgs false
set_option linter.unusedVariables false
/-
The line-buffer automaton of `split_equations_iter`: state reached after a list of lines, and the
decomposition of a run over `l₁ ++ l₂`.
-/
namespace Fsic.Lx

/-- State of the automaton after the lines (`none` = it stopped with an error). -/
def endState : SplitState → List (List Char) → Option SplitState
  | st, [] => some st
  | st, raw :: rest =>
    match lineStep st raw with
    | .next st' => endState st' rest
    | .emit _ => endState .init rest
    | .stop _ => none

theorem consFst_append {α β} (x : α) (p : List α × β) (q : List α × β) :
    (consFst x p).1 ++ q.1 = (consFst x (p.1 ++ q.1, q.2)).1 := by simp [consFst]

/-- Running over `l₁ ++ l₂` = running over `l₁`, then over `l₂` from the state reached. -/
theorem splitGo_append (l₁ l₂ : List (List Char)) : ∀ (st st' : SplitState), endState st l₁ = some st' →
    splitGo st (l₁ ++ l₂) = ((splitGo st l₁).1 ++ (splitGo st' l₂).1, (splitGo st' l₂).2) := by
  induction l₁ with
  | nil => intro st st' h; simp [endState] at h; subst h; simp [splitGo]
  | cons raw rest ih =>
    intro st st' h
    simp only [endState] at h
    simp only [List.cons_append, splitGo]
    cases hl : lineStep st raw with
    | next s1 => rw [hl] at h; simp only; exact ih s1 st' h
    | emit eq => rw [hl] at h; simp only; rw [ih .init st' h]; simp [consFst]
    | stop e => rw [hl] at h; cases h

theorem splitGo_stop (l₁ l₂ : List (List Char)) : ∀ (st : SplitState), endState st l₁ = none →
    splitGo st (l₁ ++ l₂) = splitGo st l₁ := by
  induction l₁ with
  | nil => intro st h; simp [endState] at h
  | cons raw rest ih =>
    intro st h
    simp only [endState] at h
    simp only [List.cons_append, splitGo]
    cases hl : lineStep st raw with
    | next s1 => rw [hl] at h; simp only; exact ih s1 h
    | emit eq => rw [hl] at h; simp only; rw [ih .init h]
    | stop e => rfl

/-- A run that ends in the initial state reports no error. -/
theorem splitGo_end_init (l : List (List Char)) : ∀ (st : SplitState), endState st l = some .init →
    (splitGo st l).2 = .ok := by
  induction l with
  | nil => intro st h; simp [endState] at h; subst h; rfl
  | cons raw rest ih =>
    intro st h
    simp only [endState] at h
    simp only [splitGo]
    cases hl : lineStep st raw with
    | next s1 => rw [hl] at h; exact ih s1 h
    | emit eq => rw [hl] at h; simp [consFst]; exact ih .init h
    | stop e => rw [hl] at h; cases h

/-- A blank line, or a line that holds only a comment, is neutral between statements. -/
theorem blank_line_neutral (l : List (List Char)) : splitGo .init ([] :: l) = splitGo .init l := by
  have : lineStep .init [] = .next .init := by decide
  simp [splitGo, this]

theorem spanP_hash (cs : List Char) : (spanP (· != '#') ('#' :: cs)).1 = [] := by
  simp [spanP]

theorem comment_line_neutral (cs : List Char) (l : List (List Char)) :
    splitGo .init (('#' :: cs) :: l) = splitGo .init l := by
  have h1 : stripComment ('#' :: cs) = [] := by
    simp [stripComment, spanP_hash, rstrip]
  have : lineStep .init ('#' :: cs) = .next .init := by
    unfold lineStep; rw [h1]; decide
  simp [splitGo, this]

/-! ## `splitlines` of a concatenation -/

theorem splitLines_ne_nil (c : Char) (t : List Char) : splitLines (c :: t) ≠ [] := by
  by_cases h : ∃ cs, c = '\r' ∧ t = '\n' :: cs
  · obtain ⟨cs, rfl, rfl⟩ := h; rw [splitLines.eq_2]; simp
  · rw [splitLines.eq_3 c t (fun cs h1 h2 => h ⟨cs, h1, h2⟩)]
    split
    · simp
    · cases splitLines t <;> simp [consHead]

theorem splitLines_single (c : Char) (h : isLineBreak c = false) (s : List Char) :
    splitLines (c :: '\n' :: s) = [c] :: splitLines s := by
  have hc : c ≠ '\r' := by intro he; subst he; simp [isLineBreak, inR] at h
  have h2 : splitLines ('\n' :: s) = [] :: splitLines s := by
    rw [splitLines.eq_3 '\n' s (fun cs h1 _ => by simp at h1)]
    simp [show isLineBreak '\n' = true by decide]
  rw [splitLines.eq_3 c _ (fun cs h1 _ => hc h1), h, h2]
  simp [consHead]

/-- `(s₁ + '\n' + s₂).splitlines() = s₁.splitlines() + s₂.splitlines()` when `s₁` is non-empty and does not end
    in a line-break character. -/
theorem splitLines_append_nl : ∀ (s₁ s₂ : List Char) (c : Char), s₁.getLast? = some c → isLineBreak c = false →
    splitLines (s₁ ++ '\n' :: s₂) = splitLines s₁ ++ splitLines s₂
  | [], _, _, h, _ => by simp at h
  | [x], s₂, c, h, hc => by
    simp at h; subst h
    have hx : x ≠ '\r' := by intro he; subst he; simp [isLineBreak, inR] at hc
    have h1 : splitLines [x] = [[x]] := by
      rw [splitLines.eq_3 x [] (fun cs h1 _ => hx h1), hc]; simp [splitLines, consHead]
    simp [splitLines_single x hc, h1]
  | x :: y :: rest, s₂, c, h, hc => by
    have hlast : (y :: rest).getLast? = some c := by simpa using h
    by_cases hxy : x = '\r' ∧ y = '\n'
    · obtain ⟨rfl, rfl⟩ := hxy
      cases rest with
      | nil => simp at hlast; subst hlast; simp [isLineBreak, inR] at hc
      | cons z zs =>
        have ih := splitLines_append_nl (z :: zs) s₂ c (by simpa using hlast) hc
        simp only [List.cons_append] at ih ⊢
        rw [splitLines.eq_2, splitLines.eq_2, ih]; simp
    · have ih := splitLines_append_nl (y :: rest) s₂ c hlast hc
      have step : ∀ t : List Char, splitLines (x :: y :: t) =
          if isLineBreak x then [] :: splitLines (y :: t) else consHead x (splitLines (y :: t)) := by
        intro t
        exact splitLines.eq_3 x (y :: t) (fun cs h1 h2 => hxy ⟨h1, by simp at h2; exact h2.1⟩)
      simp only [List.cons_append] at ih ⊢
      rw [step, step, ih]
      split
      · simp
      · cases hsl : splitLines (y :: rest) with
        | nil => exact absurd hsl (splitLines_ne_nil y rest)
        | cons l ls => simp [consHead]

/-! ## What an emitted statement satisfies -/

theorem finishLine_emit (eq e : List Char) (h : finishLine eq = .emit e) :
    e = eq ∧ eqSearch eq = true ∧ strip eq ≠ [] := by
  unfold finishLine completeStmt at h
  split at h
  · cases h
  · rename_i e' hc
    split at hc
    · cases hc
    · rename_i hs
      split at hc
      · rename_i hq
        simp at hc; simp at h; subst hc; subst h
        exact ⟨rfl, hq, by simpa using hs⟩
      · split at hc <;> cases hc
  · cases h

theorem lineStep_emit (st : SplitState) (raw e : List Char) (h : lineStep st raw = .emit e) :
    eqSearch e = true ∧ strip e ≠ [] := by
  unfold lineStep lineStepS at h
  split at h
  · cases h
  · unfold countLine at h
    split at h
    · cases h
    · split at h
      · have := finishLine_emit _ e h
        rw [this.1]; exact ⟨this.2.1, this.2.2⟩
      · cases h

end Fsic.Lx
