import FsicModel.Heap
/-
Helper lemmas about M7 (`FsicModel/Heap.lean`): reachability, heap extension, locality of a mutation step, and the
frame property.  Property theorems are in `Proofs/C11.lean`.
-/
set_option linter.unusedSimpArgs false
set_option linter.unusedVariables false
namespace Fsic.Heap

/-! ### Reachability -/

theorem Reach.trans {h : Heap} {a b c : Loc} (h1 : Reach h a b) (h2 : Reach h b c) : Reach h a c := by
  induction h2 with
  | refl => exact h1
  | step _ ho hm ih => exact Reach.step ih ho hm

theorem Reach.single {h : Heap} {a c : Loc} {o : Obj} {k : String} (ho : h[a]? = some o)
    (hm : (k, Val.ref c) ∈ o.slots) : Reach h a c :=
  Reach.step (Reach.refl a) ho hm

/-- In a heap without dangling references everything reachable from a valid location is valid. -/
theorem reach_lt {h : Heap} (wf : WF h) {a x : Loc} (ha : a < h.length) (r : Reach h a x) : x < h.length := by
  induction r with
  | refl => exact ha
  | step _ ho hm _ => exact wf _ _ _ _ ho hm

/-- If every object reachable from `a` is the same in `h'`, reachability from `a` is the same. -/
theorem reach_of_same {h h' : Heap} {a : Loc} (same : ∀ x, Reach h a x → h'[x]? = h[x]?) {x : Loc}
    (r : Reach h a x) : Reach h' a x := by
  induction r with
  | refl => exact Reach.refl a
  | step rb ho hm ih => exact Reach.step ih ((same _ rb).trans ho) hm

theorem reach_of_same' {h h' : Heap} {a : Loc} (same : ∀ x, Reach h a x → h'[x]? = h[x]?) {x : Loc}
    (r : Reach h' a x) : Reach h a x := by
  induction r with
  | refl => exact Reach.refl a
  | step rb ho hm ih => exact Reach.step ih ((same _ ih).symm.trans ho) hm

theorem lookup_mem {α} (ss : List (String × α)) (k : String) (v : α) (hl : ss.lookup k = some v) :
    (k, v) ∈ ss := by
  induction ss with
  | nil => simp [List.lookup] at hl
  | cons kv ss ih =>
    obtain ⟨k', v'⟩ := kv
    by_cases hk : k = k'
    · subst hk
      simp [List.lookup] at hl
      subst hl
      exact List.mem_cons_self
    · have : (k == k') = false := by simpa using hk
      simp [List.lookup, this] at hl
      exact List.mem_cons_of_mem _ (ih hl)

theorem nav_reach {h : Heap} : ∀ (p : List String) (l x : Loc), nav h l p = some x → Reach h l x := by
  intro p
  induction p with
  | nil => intro l x hn; simp [nav] at hn; subst hn; exact Reach.refl l
  | cons k ks ih =>
    intro l x hn
    unfold nav at hn
    cases ho : h[l]? with
    | none => simp [ho] at hn
    | some o =>
      simp only [ho] at hn
      cases hl : o.slots.lookup k with
      | none => simp [hl] at hn
      | some v =>
        cases v with
        | imm _ => simp [hl] at hn
        | ref l' =>
          simp only [hl] at hn
          exact Reach.trans (Reach.single ho (lookup_mem _ _ _ hl)) (ih l' x hn)

/-! ### Slots -/

theorem mem_dropKey {ss : List (String × Val)} {k k' : String} {v' : Val} (hm : (k', v') ∈ dropKey k ss) :
    (k', v') ∈ ss ∧ k' ≠ k := by
  induction ss with
  | nil => simp [dropKey] at hm
  | cons kv ss ih =>
    obtain ⟨k0, v0⟩ := kv
    unfold dropKey at hm
    by_cases hk : k0 = k
    · simp only [hk, if_true] at hm
      exact ⟨List.mem_cons_of_mem _ (ih hm).1, (ih hm).2⟩
    · simp only [hk, if_false] at hm
      rcases List.mem_cons.mp hm with h1 | h1
      · cases h1; exact ⟨List.mem_cons_self, hk⟩
      · exact ⟨List.mem_cons_of_mem _ (ih h1).1, (ih h1).2⟩

theorem mem_slotSet {ss : List (String × Val)} {k k' : String} {v v' : Val}
    (hm : (k', v') ∈ slotSet ss k v) : ((k', v') ∈ ss ∧ k' ≠ k) ∨ (k' = k ∧ v' = v) := by
  induction ss with
  | nil => simp [slotSet] at hm; exact Or.inr hm
  | cons kv ss ih =>
    obtain ⟨k0, v0⟩ := kv
    unfold slotSet at hm
    by_cases hk : k0 = k
    · simp only [hk, if_true] at hm
      rcases List.mem_cons.mp hm with h1 | h1
      · simp at h1; exact Or.inr ⟨h1.1, h1.2⟩
      · have := mem_dropKey h1
        exact Or.inl ⟨List.mem_cons_of_mem _ this.1, this.2⟩
    · simp only [hk, if_false] at hm
      rcases List.mem_cons.mp hm with h1 | h1
      · cases h1; exact Or.inl ⟨List.mem_cons_self, hk⟩
      · rcases ih h1 with h2 | h2
        · exact Or.inl ⟨List.mem_cons_of_mem _ h2.1, h2.2⟩
        · exact Or.inr h2

/-! ### Heap extension -/

theorem getElem?_append_lt (h ext : Heap) {x : Nat} (hx : x < h.length) : (h ++ ext)[x]? = h[x]? := by
  simp [List.getElem?_append_left hx]

/-! ### Locality of one write

The shape shared by every edit: append fresh objects `ext`, then replace the object at `l` (reachable from `root`)
by `o'`, whose references are references of the old object or point into `ext`; objects in `ext` reference only
objects already reachable from `root`. -/

structure WriteOK (h : Heap) (root l : Loc) (o o' : Obj) (ext : Heap) : Prop where
  reach : Reach h root l
  at_l : h[l]? = some o
  refs' : ∀ k c, (k, Val.ref c) ∈ o'.slots → (∃ k', (k', Val.ref c) ∈ o.slots) ∨ (h.length ≤ c ∧ c < h.length + ext.length)
  refsExt : ∀ e, e ∈ ext → ∀ k c, (k, Val.ref c) ∈ e.slots → Reach h root c

theorem write_length {h : Heap} {l : Loc} {o' : Obj} {ext : Heap} :
    ((h ++ ext).set l o').length = h.length + ext.length := by simp

theorem write_other {h : Heap} {l x : Loc} {o' : Obj} {ext : Heap} (hx : x ≠ l) (hlt : x < h.length) :
    ((h ++ ext).set l o')[x]? = h[x]? := by
  rw [List.getElem?_set_ne (Ne.symm hx)]
  exact getElem?_append_lt h ext hlt

theorem write_at {h : Heap} {l : Loc} {o' : Obj} {ext : Heap} (hl : l < h.length) :
    ((h ++ ext).set l o')[l]? = some o' := by
  rw [List.getElem?_set_self (by simp; omega)]

theorem getElem?_lt {h : Heap} {l : Loc} {o : Obj} (ho : h[l]? = some o) : l < h.length := by
  have := List.getElem?_eq_some_iff.mp ho
  exact this.1

/-- Objects of the extension. -/
theorem write_ext {h : Heap} {l x : Loc} {o' e : Obj} {ext : Heap} (hl : l < h.length) (hx : h.length ≤ x)
    (he : ((h ++ ext).set l o')[x]? = some e) : e ∈ ext := by
  have hne : l ≠ x := by omega
  rw [List.getElem?_set_ne hne] at he
  rw [List.getElem?_append_right hx] at he
  exact List.mem_of_getElem? he

/-- (C) Everything reachable from the root after the write was reachable before, or is new. -/
theorem write_reach {h : Heap} {root l : Loc} {o o' : Obj} {ext : Heap} (ok : WriteOK h root l o o' ext)
    {x : Loc} (r : Reach ((h ++ ext).set l o') root x) : Reach h root x ∨ h.length ≤ x := by
  have hl := getElem?_lt ok.at_l
  induction r with
  | refl => exact Or.inl (Reach.refl root)
  | @step b c ob k rb hob hm ih =>
    by_cases hb : b = l
    · subst hb
      rw [write_at hl] at hob
      cases hob
      rcases ok.refs' k c hm with ⟨k', h1⟩ | h1
      · exact Or.inl (Reach.step ok.reach ok.at_l h1)
      · exact Or.inr h1.1
    · by_cases hlt : b < h.length
      · rw [write_other hb hlt] at hob
        rcases ih with ih | ih
        · exact Or.inl (Reach.step ih hob hm)
        · omega
      · have he := write_ext hl (by omega) hob
        exact Or.inl (ok.refsExt _ he k c hm)

/-- (D) No dangling references after the write. -/
theorem write_wf {h : Heap} {root l : Loc} {o o' : Obj} {ext : Heap} (wf : WF h) (hroot : root < h.length)
    (ok : WriteOK h root l o o' ext) : WF ((h ++ ext).set l o') := by
  have hl := getElem?_lt ok.at_l
  intro b ob k c hob hm
  rw [write_length]
  by_cases hb : b = l
  · subst hb
    rw [write_at hl] at hob
    cases hob
    rcases ok.refs' k c hm with ⟨k', h1⟩ | h1
    · have := wf _ _ _ _ ok.at_l h1; omega
    · exact h1.2
  · by_cases hlt : b < h.length
    · rw [write_other hb hlt] at hob
      have := wf _ _ _ _ hob hm; omega
    · have he := write_ext hl (by omega) hob
      have := reach_lt wf hroot (ok.refsExt _ he k c hm)
      omega

/-! ### Every edit is such a write (or leaves the heap alone) -/

theorem resolveSrcs_local {h : Heap} {root : Loc} : ∀ (srcs : List (String × Src)) (ss : List (String × Val)),
    resolveSrcs h root srcs = some ss → ∀ k c, (k, Val.ref c) ∈ ss → Reach h root c := by
  intro srcs
  induction srcs with
  | nil => intro ss hr k c hm; simp [resolveSrcs] at hr; subst hr; simp at hm
  | cons kv srcs ih =>
    intro ss hr k c hm
    obtain ⟨k0, s0⟩ := kv
    cases s0 with
    | imm v =>
      simp only [resolveSrcs] at hr
      cases hrec : resolveSrcs h root srcs with
      | none => simp [hrec] at hr
      | some r =>
        simp only [hrec] at hr
        cases hr
        rcases List.mem_cons.mp hm with h1 | h1
        · cases h1
        · exact ih r hrec k c h1
    | alias p =>
      simp only [resolveSrcs] at hr
      cases hn : nav h root p with
      | none => simp [hn] at hr
      | some l =>
        cases hrec : resolveSrcs h root srcs with
        | none => simp [hn, hrec] at hr
        | some r =>
          simp only [hn, hrec] at hr
          cases hr
          rcases List.mem_cons.mp hm with h1 | h1
          · cases h1
            exact nav_reach p root _ hn
          · exact ih r hrec k c h1

theorem immSlots_norefs : ∀ (ss : List (String × Val)) k c, (k, Val.ref c) ∉ immSlots ss := by
  intro ss
  induction ss with
  | nil => intro k c hm; simp [immSlots] at hm
  | cons kv ss ih =>
    intro k c hm
    obtain ⟨k0, v0⟩ := kv
    cases v0 with
    | imm i =>
      simp only [immSlots] at hm
      rcases List.mem_cons.mp hm with h1 | h1
      · cases h1
      · exact ih k c h1
    | ref l => simp only [immSlots] at hm; exact ih k c hm

/-- What one local step does, in the four respects the frame argument needs. -/
structure StepLocal (h h' : Heap) (root : Loc) : Prop where
  len : h.length ≤ h'.length
  other : ∀ x, x < h.length → ¬ Reach h root x → h'[x]? = h[x]?
  reach : ∀ x, Reach h' root x → Reach h root x ∨ h.length ≤ x
  wf : WF h'

theorem stepLocal_refl {h : Heap} {root : Loc} (wf : WF h) : StepLocal h h root :=
  ⟨Nat.le_refl _, fun _ _ _ => rfl, fun _ r => Or.inl r, wf⟩

theorem stepLocal_of_write {h : Heap} {root l : Loc} {o o' : Obj} {ext : Heap} (wf : WF h)
    (hroot : root < h.length) (ok : WriteOK h root l o o' ext) :
    StepLocal h ((h ++ ext).set l o') root := by
  refine ⟨by rw [write_length]; omega, ?_, fun x r => write_reach ok r, write_wf wf hroot ok⟩
  intro x hx hnr
  have : x ≠ l := by
    intro e; subst e; exact hnr ok.reach
  exact write_other this hx

theorem mem_dropLast {α} {x : α} {xs : List α} (hm : x ∈ xs.dropLast) : x ∈ xs :=
  List.dropLast_subset xs hm

theorem applyEdit_local {h : Heap} {root l : Loc} (wf : WF h) (hroot : root < h.length) (rl : Reach h root l)
    (e : Edit) : StepLocal h (applyEdit h root l e) root := by
  cases e with
  | setImm k v =>
    unfold applyEdit
    cases ho : h[l]? with
    | none => exact stepLocal_refl wf
    | some o =>
      have := stepLocal_of_write (ext := []) (o' := withSlots o (slotSet o.slots k (.imm v))) wf hroot
        ⟨rl, ho, ?_, by simp⟩
      · simpa using this
      · intro k' c hm
        rcases mem_slotSet hm with h1 | h1
        · exact Or.inl ⟨k', h1.1⟩
        · cases h1.2
  | push v =>
    unfold applyEdit
    cases ho : h[l]? with
    | none => exact stepLocal_refl wf
    | some o =>
      have := stepLocal_of_write (ext := [])
        (o' := withSlots o (o.slots ++ [(keyOf o.slots.length, .imm v)])) wf hroot ⟨rl, ho, ?_, by simp⟩
      · simpa using this
      · intro k' c hm
        simp [withSlots] at hm
        exact Or.inl ⟨k', hm⟩
  | pop =>
    unfold applyEdit
    cases ho : h[l]? with
    | none => exact stepLocal_refl wf
    | some o =>
      have := stepLocal_of_write (ext := []) (o' := withSlots o o.slots.dropLast) wf hroot ⟨rl, ho, ?_, by simp⟩
      · simpa using this
      · intro k' c hm
        exact Or.inl ⟨k', mem_dropLast hm⟩
  | delKey k =>
    unfold applyEdit
    cases ho : h[l]? with
    | none => exact stepLocal_refl wf
    | some o =>
      have := stepLocal_of_write (ext := []) (o' := withSlots o (dropKey k o.slots)) wf hroot ⟨rl, ho, ?_, by simp⟩
      · simpa using this
      · intro k' c hm
        exact Or.inl ⟨k', (mem_dropKey hm).1⟩
  | bindNew k kind srcs =>
    cases ho : h[l]? with
    | none => simp only [applyEdit, ho]; exact stepLocal_refl wf
    | some o =>
      cases hr : resolveSrcs h root srcs with
      | none => simp only [applyEdit, ho, hr]; exact stepLocal_refl wf
      | some ss =>
        simp only [applyEdit, ho, hr]
        refine stepLocal_of_write (ext := [Obj.mk kind ss]) wf hroot ⟨rl, ho, ?_, ?_⟩
        · intro k' c hm
          rcases mem_slotSet hm with h1 | h1
          · exact Or.inl ⟨k', h1.1⟩
          · have : c = h.length := by
              have := h1.2; injection this
            subst this
            exact Or.inr ⟨Nat.le_refl _, by simp⟩
        · intro e he k' c hm
          simp at he
          subst he
          exact resolveSrcs_local srcs ss hr k' c hm
  | copyList k src =>
    cases ho : h[l]? with
    | none => simp only [applyEdit, ho]; exact stepLocal_refl wf
    | some o =>
      cases hr : (listSrcLoc h root src).bind (fun sl => h[sl]?) with
      | none => simp only [applyEdit, ho, hr]; exact stepLocal_refl wf
      | some so =>
        simp only [applyEdit, ho, hr]
        refine stepLocal_of_write (ext := [Obj.mk .list (immSlots so.slots)]) wf hroot ⟨rl, ho, ?_, ?_⟩
        · intro k' c hm
          rcases mem_slotSet hm with h1 | h1
          · exact Or.inl ⟨k', h1.1⟩
          · have : c = h.length := by
              have := h1.2; injection this
            subst this
            exact Or.inr ⟨Nat.le_refl _, by simp⟩
        · intro e he k' c hm
          simp at he
          subst he
          exact absurd hm (immSlots_norefs _ k' c)
  | copyArray k src =>
    cases ho : h[l]? with
    | none => simp only [applyEdit, ho]; exact stepLocal_refl wf
    | some o =>
      cases hr : (listSrcLoc h root src).bind (fun sl => h[sl]?) with
      | none => simp only [applyEdit, ho, hr]; exact stepLocal_refl wf
      | some so =>
        simp only [applyEdit, ho, hr]
        refine stepLocal_of_write (ext := [Obj.mk .array (immSlots so.slots)]) wf hroot ⟨rl, ho, ?_, ?_⟩
        · intro k' c hm
          rcases mem_slotSet hm with h1 | h1
          · exact Or.inl ⟨k', h1.1⟩
          · have : c = h.length := by
              have := h1.2; injection this
            subst this
            exact Or.inr ⟨Nat.le_refl _, by simp⟩
        · intro e he k' c hm
          simp at he
          subst he
          exact absurd hm (immSlots_norefs _ k' c)
  | copyCells src =>
    cases ho : h[l]? with
    | none => simp only [applyEdit, ho]; exact stepLocal_refl wf
    | some o =>
      cases hr : (listSrcLoc h root src).bind (fun sl => h[sl]?) with
      | none => simp only [applyEdit, ho, hr]; exact stepLocal_refl wf
      | some so =>
        simp only [applyEdit, ho, hr]
        have := stepLocal_of_write (ext := []) (o' := withSlots o (immSlots so.slots)) wf hroot ⟨rl, ho, ?_, by simp⟩
        · simpa using this
        · intro k' c hm
          exact absurd hm (immSlots_norefs _ k' c)

theorem applyStep_local {h : Heap} {root : Loc} (wf : WF h) (hroot : root < h.length) (s : Step) :
    StepLocal h (applyStep h root s) root := by
  unfold applyStep
  cases hn : nav h root s.path with
  | none => exact stepLocal_refl wf
  | some l =>
    exact applyEdit_local wf hroot (nav_reach _ _ _ hn) s.edit

/-! ### Frame -/

/-- What a history through `r1` guarantees about an unrelated root `r2`. -/
structure Framed (h h' : Heap) (r1 r2 : Loc) : Prop where
  wf : WF h'
  len : h.length ≤ h'.length
  same : ∀ x, Reach h r2 x → h'[x]? = h[x]?
  disj : Disjoint h' r1 r2

theorem framed_step {h : Heap} {r1 r2 : Loc} (wf : WF h) (h1 : r1 < h.length) (h2 : r2 < h.length)
    (dj : Disjoint h r1 r2) (s : Step) : Framed h (applyStep h r1 s) r1 r2 := by
  have L := applyStep_local wf h1 s
  have same : ∀ x, Reach h r2 x → (applyStep h r1 s)[x]? = h[x]? := fun x rx =>
    L.other x (reach_lt wf h2 rx) (fun r1x => dj x r1x rx)
  refine ⟨L.wf, L.len, same, ?_⟩
  intro x rx1 rx2
  have rx2' := reach_of_same' same rx2
  rcases L.reach x rx1 with h3 | h3
  · exact dj x h3 rx2'
  · have := reach_lt wf h2 rx2'; omega

theorem framed_run {r1 r2 : Loc} : ∀ (steps : List Step) (h : Heap), WF h → r1 < h.length → r2 < h.length →
    Disjoint h r1 r2 → Framed h (run h r1 steps) r1 r2 := by
  intro steps
  induction steps with
  | nil => intro h wf _ _ dj; exact ⟨wf, Nat.le_refl _, fun _ _ => rfl, dj⟩
  | cons s ss ih =>
    intro h wf h1 h2 dj
    have F1 := framed_step wf h1 h2 dj s
    have F2 := ih (applyStep h r1 s) F1.wf (by have := F1.len; omega) (by have := F1.len; omega) F1.disj
    refine ⟨F2.wf, by have := F1.len; have := F2.len; simp only [run]; omega, ?_, F2.disj⟩
    intro x rx
    simp only [run]
    rw [F2.same x (reach_of_same F1.same rx), F1.same x rx]

/-- A history through a root reaches only what the root reached before, or new objects. -/
theorem run_local {r : Loc} : ∀ (steps : List Step) (h : Heap), WF h → r < h.length →
    StepLocal h (run h r steps) r := by
  intro steps
  induction steps with
  | nil => intro h wf _; exact stepLocal_refl wf
  | cons s ss ih =>
    intro h wf hr
    have L1 := applyStep_local wf hr s
    have L2 := ih (applyStep h r s) L1.wf (by have := L1.len; omega)
    simp only [run]
    refine ⟨by have := L1.len; have := L2.len; omega, ?_, ?_, L2.wf⟩
    · intro x hx hnr
      have h1 := L1.other x hx hnr
      have hnr' : ¬ Reach (applyStep h r s) r x := by
        intro rx
        rcases L1.reach x rx with h3 | h3
        · exact hnr h3
        · omega
      rw [L2.other x (by have := L1.len; omega) hnr', h1]
    · intro x rx
      rcases L2.reach x rx with h3 | h3
      · exact L1.reach x h3
      · have := L1.len; exact Or.inr (by omega)

/-! ### Observation depends only on what is reachable -/

theorem viewWith_congr {f g : Val → List String} : ∀ (ss : List (String × Val)),
    (∀ k v, (k, v) ∈ ss → f v = g v) → viewWith f ss = viewWith g ss := by
  intro ss
  induction ss with
  | nil => intro _; rfl
  | cons kv ss ih =>
    intro hfg
    obtain ⟨k, v⟩ := kv
    simp only [viewWith]
    rw [hfg k v List.mem_cons_self, ih (fun k' v' hm => hfg k' v' (List.mem_cons_of_mem _ hm))]

theorem view_of_same {h h' : Heap} : ∀ (n : Nat) (a : Loc), (∀ x, Reach h a x → h'[x]? = h[x]?) →
    view h' n (.ref a) = view h n (.ref a) := by
  intro n
  induction n with
  | zero => intro a _; rfl
  | succ n ih =>
    intro a same
    simp only [view]
    rw [same a (Reach.refl a)]
    cases ho : h[a]? with
    | none => rfl
    | some o =>
      simp only []
      congr 2
      apply viewWith_congr
      intro k v hm
      cases v with
      | imm i => cases n <;> rfl
      | ref c =>
        exact ih c (fun x rx => same x (Reach.trans (Reach.single ho hm) rx))

theorem pathsWith_congr {f g : String → Val → List (String × Loc)} (pre : String) :
    ∀ (ss : List (String × Val)), (∀ p k v, (k, v) ∈ ss → f p v = g p v) →
    pathsWith f pre ss = pathsWith g pre ss := by
  intro ss
  induction ss with
  | nil => intro _; rfl
  | cons kv ss ih =>
    intro hfg
    obtain ⟨k, v⟩ := kv
    simp only [pathsWith]
    rw [hfg _ k v List.mem_cons_self, ih (fun p k' v' hm => hfg p k' v' (List.mem_cons_of_mem _ hm))]

theorem paths_of_same {h h' : Heap} : ∀ (n : Nat) (p : String) (a : Loc),
    (∀ x, Reach h a x → h'[x]? = h[x]?) → paths h' n p (.ref a) = paths h n p (.ref a) := by
  intro n
  induction n with
  | zero => intro p a _; rfl
  | succ n ih =>
    intro p a same
    simp only [paths]
    rw [same a (Reach.refl a)]
    cases ho : h[a]? with
    | none => rfl
    | some o =>
      simp only []
      congr 1
      apply pathsWith_congr
      intro p' k v hm
      cases v with
      | imm i => cases n <;> rfl
      | ref c => exact ih p' c (fun x rx => same x (Reach.trans (Reach.single ho hm) rx))

end Fsic.Heap
