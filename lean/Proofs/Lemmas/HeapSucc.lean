import Proofs.Lemmas.HeapIso
/-
`copy()` succeeds: if every reference goes to an object of smaller rank (the heap is acyclic), nothing reachable from
the root is uncopyable, every reachable instance has a class (and a linker a `submodels` dict), then `deepcopy` with
fuel greater than the rank of the root returns a result.
-/
set_option linter.unusedSimpArgs false
set_option linter.unusedVariables false
namespace Fsic.Heap

/-- Every reference goes to an object of strictly smaller rank. -/
def Ranked (h : Heap) (rk : Nat → Nat) : Prop :=
  ∀ x o k c, h[x]? = some o → (k, Val.ref c) ∈ o.slots → rk c < rk x

theorem acyclic_of_ranked {h : Heap} {rk : Nat → Nat} (R : Ranked h rk) : AcyclicH h := by
  intro x o k c ho hm r
  have mono : ∀ {a b}, Reach h a b → rk b ≤ rk a := by
    intro a b rab
    induction rab with
    | refl => exact Nat.le_refl _
    | step _ ho' hm' ih => have := R _ _ _ _ ho' hm'; omega
  have := mono r
  have := R x o k c ho hm
  omega

/-- What `deepcopy` needs of one object. -/
def ObjCopyable (cs : List ClassDesc) (h0 : Heap) (o : Obj) : Prop :=
  o.kind ≠ .uncopyable ∧
  ∀ ci, o.kind = .inst ci → ∃ cd, cs[ci]? = some cd ∧
    (cd.base = .linker → ∃ d, getObj h0 ((o.slots.lookup "submodels").getD (.imm .none)) = some d)

/-- Everything reachable from `l` can be copied. -/
def Copyable (cs : List ClassDesc) (h0 : Heap) (l : Nat) : Prop :=
  ∀ x o, Reach h0 l x → h0[x]? = some o → ObjCopyable cs h0 o

theorem Copyable.child {cs : List ClassDesc} {h0 : Heap} {l c : Nat} {o : Obj} {k : String} (C : Copyable cs h0 l)
    (ho : h0[l]? = some o) (hm : (k, Val.ref c) ∈ o.slots) : Copyable cs h0 c :=
  fun x o' r hx => C x o' (Reach.trans (Reach.single ho hm) r) hx

/-- The values of a slot list are copyable and of rank below `n`. -/
def GoodSlots (cs : List ClassDesc) (h0 : Heap) (rk : Nat → Nat) (n : Nat) (ss : List (String × Val)) : Prop :=
  ∀ k l, (k, Val.ref l) ∈ ss → Copyable cs h0 l ∧ rk l < n

def SuccSpec (cs : List ClassDesc) (h0 : Heap) (rk : Nat → Nat) (n : Nat) (dc : Copier) : Prop :=
  ∀ h m v, Ext h0 h → Blk h0.length h → MemoOK h0.length h m → OldV h0.length v →
    (∀ l, v = .ref l → Copyable cs h0 l ∧ rk l < n) → ∃ r, dc h m v = some r

theorem copySlotsWith_succ {cs : List ClassDesc} {h0 : Heap} {rk : Nat → Nat} {n : Nat} {dc : Copier}
    (S : Spec h0 dc) (U : SuccSpec cs h0 rk n dc) :
    ∀ (ss : List (String × Val)) (h : Heap) (m : Memo), Ext h0 h → Blk h0.length h → MemoOK h0.length h m →
    OldSlots h0.length ss → GoodSlots cs h0 rk n ss → ∃ r, copySlotsWith dc h m ss = some r := by
  intro ss
  induction ss with
  | nil => intro h m _ _ _ _ _; exact ⟨_, rfl⟩
  | cons kv ss ih =>
    intro h m e B M O G
    obtain ⟨k, v⟩ := kv
    obtain ⟨⟨ha, ma, va⟩, hd⟩ := U h m v e B M (O k v List.mem_cons_self)
      (fun l hv => by subst hv; exact G k l List.mem_cons_self)
    obtain ⟨ea, Ba, Ma, _⟩ := S h m v ha ma va e B M (O k v List.mem_cons_self) hd
    obtain ⟨⟨hb, mb, ssb⟩, hr⟩ := ih ha ma (e.trans ea) Ba Ma O.tail
      (fun k' l hm => G k' l (List.mem_cons_of_mem _ hm))
    exact ⟨(hb, mb, (k, va) :: ssb), by simp [copySlotsWith, hd, hr]⟩

theorem copyEachWith_succ {cs : List ClassDesc} {h0 : Heap} {rk : Nat → Nat} {n : Nat} {dc : Copier}
    (S : Spec h0 dc) (U : SuccSpec cs h0 rk n dc) :
    ∀ (ss : List (String × Val)) (h : Heap), Ext h0 h → Blk h0.length h →
    OldSlots h0.length ss → GoodSlots cs h0 rk n ss → ∃ r, copyEachWith dc h ss = some r := by
  intro ss
  induction ss with
  | nil => intro h _ _ _ _; exact ⟨_, rfl⟩
  | cons kv ss ih =>
    intro h e B O G
    obtain ⟨k, v⟩ := kv
    obtain ⟨⟨ha, ma, va⟩, hd⟩ := U h [] v e B (MemoOK.nil _ _) (O k v List.mem_cons_self)
      (fun l hv => by subst hv; exact G k l List.mem_cons_self)
    obtain ⟨ea, Ba, _, _⟩ := S h [] v ha ma va e B (MemoOK.nil _ _) (O k v List.mem_cons_self) hd
    obtain ⟨⟨hb, ssb⟩, hr⟩ := ih ha (e.trans ea) Ba O.tail (fun k' l hm => G k' l (List.mem_cons_of_mem _ hm))
    exact ⟨(hb, (k, va) :: ssb), by simp [copyEachWith, hd, hr]⟩

theorem goodSlots_dropKey {cs : List ClassDesc} {h0 : Heap} {rk : Nat → Nat} {n : Nat} {ss : List (String × Val)}
    (k : String) (G : GoodSlots cs h0 rk n ss) : GoodSlots cs h0 rk n (dropKey k ss) :=
  fun k' l hm => G k' l (mem_dropKey hm).1

/-- `copy()` of an instance object succeeds when the copier succeeds on everything below it. -/
theorem copyInstWith_succ {cs : List ClassDesc} {h0 : Heap} (W : WorldOK cs h0) {rk : Nat → Nat} (R : Ranked h0 rk)
    {n : Nat} {dc : Copier} (S : Spec h0 dc) (U : SuccSpec cs h0 rk n dc) {cd : ClassDesc} {ci : Nat}
    (hcd : cs[ci]? = some cd) {l : Nat} {o : Obj} (ho : h0[l]? = some o) (hk : o.kind = .inst ci)
    (C : Copyable cs h0 l) (hr : rk l ≤ n) {h : Heap} (e : Ext h0 h) (B : Blk h0.length h) :
    ∃ r, copyInstWith dc cd h o = some r := by
  have ok := W.classes ci cd hcd
  have O := oldSlots_of_wf W.wf ho
  have G : GoodSlots cs h0 rk n o.slots := fun k c hm => ⟨C.child ho hm, by have := R l o k c ho hm; omega⟩
  unfold copyInstWith
  by_cases hl : cd.base = .linker
  · simp only [hl, if_true]
    have Osub := lookup_getD_old O "submodels"
    rw [getObj_old e Osub]
    obtain ⟨cd', hcd', hsub⟩ := (C l o (Reach.refl l) ho).2 ci hk
    rw [hcd] at hcd'; cases hcd'
    obtain ⟨d, hd⟩ := hsub hl
    simp only [hd]
    -- the submodels dict is a child of the instance; its values are grandchildren
    have hdl : ∃ dl, (o.slots.lookup "submodels") = some (.ref dl) ∧ h0[dl]? = some d := by
      cases hv : o.slots.lookup "submodels" with
      | none => simp [hv, getObj] at hd
      | some v =>
        cases v with
        | imm i => simp [hv, getObj] at hd
        | ref dl => exact ⟨dl, rfl, by simpa [hv, getObj] using hd⟩
    obtain ⟨dl, hlk, hdo⟩ := hdl
    have hmem := lookup_mem _ _ _ hlk
    have Cd := C.child ho hmem
    have rd := R l o _ dl ho hmem
    have Gd : GoodSlots cs h0 rk n d.slots := fun k c hm =>
      ⟨Cd.child hdo hm, by have := R dl d k c hdo hm; omega⟩
    have Od : OldSlots h0.length d.slots := oldSlots_of_wf W.wf hdo
    obtain ⟨⟨ha, subs⟩, h1c⟩ := copyEachWith_succ S U d.slots h e B Od Gd
    simp only [h1c]
    obtain ⟨ea, Ba, Na, _⟩ := copyEachWith_spec S d.slots h ha subs e B Od h1c
    have lena := (e.trans ea).len
    have Bd : Blk h0.length (ha ++ [⟨.dict, subs⟩]) := by
      apply Ba.append
      intro e' he k c hm
      simp at he; subst he
      have := Na k _ hm c rfl
      simp; omega
    obtain ⟨e2, B2, N2⟩ := linkerSpan_spec Bd (by simp; omega) subs
    generalize linkerSpan (ha ++ [⟨.dict, subs⟩]) subs = r2 at e2 B2 N2
    obtain ⟨h2, sp⟩ := r2
    simp only at e2 B2 N2 ⊢
    have ed : Ext ha h2 := (Ext.append _ _).trans e2
    have len2 := ed.len
    have Nsub : NewV h0.length h2 (.ref ha.length) := by
      have := e2.len; simp at this
      exact NewV.ref lena (by omega)
    have Cc := construct_ok (b := h0.length) W.wf ((e.trans ea).trans ed) ok B2 (by omega) sp (.ref ha.length) N2 Nsub
    generalize construct cd h2 sp (.ref ha.length) = r3 at Cc
    obtain ⟨h3, init⟩ := r3
    simp only
    obtain ⟨⟨h4, ss4⟩, h4c⟩ := copyEachWith_succ S U (dropKey "submodels" o.slots) h3
      (((e.trans ea).trans ed).trans Cc.ext) Cc.blk (oldSlots_dropKey _ O) (goodSlots_dropKey _ G)
    simp only [h4c]
    exact ⟨_, rfl⟩
  · simp only [hl, if_false]
    have Osp := lookup_getD_old O "span"
    have Gsp : ∀ c, (o.slots.lookup "span").getD (.imm .none) = .ref c → Copyable cs h0 c ∧ rk c < n := by
      intro c hc
      cases hv : o.slots.lookup "span" with
      | none => simp [hv] at hc
      | some v => simp [hv] at hc; subst hc; exact G "span" c (lookup_mem _ _ _ hv)
    obtain ⟨⟨ha, ma, sp⟩, hd⟩ := U h [] _ e B (MemoOK.nil _ _) Osp Gsp
    simp only [hd]
    obtain ⟨ea, Ba, _, Nsp⟩ := S h [] _ ha ma sp e B (MemoOK.nil _ _) Osp hd
    have lena := (e.trans ea).len
    have Cc := construct_ok (b := h0.length) W.wf (e.trans ea) ok Ba (by omega) sp (.imm .none) Nsp (NewV.imm _ _ _)
    generalize construct cd ha sp (.imm .none) = r3 at Cc
    obtain ⟨h3, init⟩ := r3
    simp only
    obtain ⟨⟨h4, m4, ss4⟩, h4c⟩ := copySlotsWith_succ S U o.slots h3 [] ((e.trans ea).trans Cc.ext) Cc.blk
      (MemoOK.nil _ _) O G
    simp only [h4c]
    exact ⟨_, rfl⟩

/-- `copy.deepcopy` succeeds with fuel greater than the rank of what it copies. -/
theorem deepcopy_succ {cs : List ClassDesc} {h0 : Heap} (W : WorldOK cs h0) {rk : Nat → Nat} (R : Ranked h0 rk) :
    ∀ n, SuccSpec cs h0 rk n (deepcopy cs n) := by
  intro n
  induction n with
  | zero =>
    intro h m v e B M O G
    cases v with
    | imm i => exact ⟨(h, m, .imm i), by simp [deepcopy]⟩
    | ref l => have := (G l rfl).2; omega
  | succ n ih =>
    intro h m v e B M O G
    cases v with
    | imm i => exact ⟨(h, m, .imm i), by simp [deepcopy]⟩
    | ref l =>
      obtain ⟨C, hr⟩ := G l rfl
      simp only [deepcopy]
      cases hm : m.lookup l with
      | some l' => exact ⟨_, rfl⟩
      | none =>
        simp only
        have hl : l < h0.length := O l rfl
        rw [e.get hl]
        have ho : h0[l]? = some h0[l] := List.getElem?_eq_getElem hl
        generalize h0[l] = o at ho
        simp only [ho]
        have oc := C l o (Reach.refl l) ho
        have Os := oldSlots_of_wf W.wf ho
        have Gs : GoodSlots cs h0 rk n o.slots := fun k c hmem =>
          ⟨C.child ho hmem, by have := R l o k c ho hmem; omega⟩
        cases hk : o.kind with
        | uncopyable => exact absurd hk oc.1
        | inst ci =>
          simp only
          obtain ⟨cd, hcd, _⟩ := oc.2 ci hk
          simp only [hcd]
          obtain ⟨⟨hx, ss⟩, hci⟩ := copyInstWith_succ W R (deepcopy_spec W n) ih hcd ho hk C (by omega) e B
          simp only [hci]
          exact ⟨_, rfl⟩
        | list | array | dict | tuple | trace | cls =>
          simp only
          obtain ⟨⟨ha, ma, ss⟩, hcs⟩ := copySlotsWith_succ (deepcopy_spec W n) ih o.slots h m e B M Os Gs
          simp only [hcs]
          exact ⟨_, rfl⟩

theorem deepcopy_ref_is_ref {cs : List ClassDesc} {n : Nat} {h h1 : Heap} {m m1 : Memo} {l : Nat} {v1 : Val}
    (hc : deepcopy cs n h m (.ref l) = some (h1, m1, v1)) : ∃ c, v1 = .ref c := by
  cases n with
  | zero => simp [deepcopy] at hc
  | succ n =>
    simp only [deepcopy] at hc
    cases hm : m.lookup l with
    | some l' => simp [hm] at hc; exact ⟨l', hc.2.2.symm⟩
    | none =>
      simp only [hm] at hc
      cases ho : h[l]? with
      | none => simp [ho] at hc
      | some o =>
        simp only [ho] at hc
        cases hk : o.kind with
        | uncopyable => simp [hk] at hc
        | inst ci =>
          simp only [hk] at hc
          cases hcd : cs[ci]? with
          | none => simp [hcd] at hc
          | some cd =>
            simp only [hcd] at hc
            cases hci : copyInstWith (deepcopy cs n) cd h o with
            | none => simp [hci] at hc
            | some r => obtain ⟨hx, ss⟩ := r; simp [hci] at hc; exact ⟨_, hc.2.2.symm⟩
        | list | array | dict | tuple | trace | cls =>
          simp only [hk] at hc
          cases hcs : copySlotsWith (deepcopy cs n) h m o.slots with
          | none => simp [hcs] at hc
          | some r => obtain ⟨ha, ma, ss⟩ := r; simp [hcs] at hc; exact ⟨_, hc.2.2.symm⟩

/-- **copyRoot succeeds.**  The driver's fuel is `h.length + 1`: enough whenever the rank of the root is at most the
    number of objects of the heap. -/
theorem copyRoot_succeeds {cs : List ClassDesc} {h : Heap} (W : WorldOK cs h) {rk : Nat → Nat} (R : Ranked h rk)
    {a : Nat} (ha : a < h.length) (hr : rk a ≤ h.length) (C : Copyable cs h a) :
    ∃ h1 c, copyRoot cs h a = some (h1, c) := by
  obtain ⟨⟨h1, m1, v1⟩, hd⟩ := deepcopy_succ W R (h.length + 1) h [] (.ref a) (Ext.refl h) (blk_self h)
    (MemoOK.nil _ _) (fun c hc => by cases hc; exact ha) (fun l hl => by cases hl; exact ⟨C, by omega⟩)
  obtain ⟨c, rfl⟩ := deepcopy_ref_is_ref hd
  exact ⟨h1, c, by simp [copyRoot, hd]⟩

/-! ### Checkers for the examples -/

def rankedB (h : Heap) (rk : Nat → Nat) : Bool :=
  (List.range h.length).all fun x =>
    match h[x]? with
    | none => true
    | some o => o.slots.all fun kv =>
      match kv.2 with
      | .ref c => decide (rk c < rk x)
      | .imm _ => true

theorem ranked_of_check {h : Heap} {rk : Nat → Nat} (hb : rankedB h rk = true) : Ranked h rk := by
  intro x o k c ho hm
  have hx := getElem?_lt ho
  have := List.all_eq_true.mp hb x (List.mem_range.mpr hx)
  simp only [ho] at this
  have := List.all_eq_true.mp this (k, .ref c) hm
  simpa using this

/-- Depth of the structure below `x` (bounded by the fuel). -/
def depth (h : Heap) : Nat → Nat → Nat
  | 0, _ => 0
  | n + 1, x =>
    match h[x]? with
    | none => 0
    | some o => o.slots.foldl (fun acc kv => match kv.2 with
        | .ref c => max acc (depth h n c + 1)
        | .imm _ => acc) 0

def objCopyableB (cs : List ClassDesc) (h : Heap) (o : Obj) : Bool :=
  match o.kind with
  | .uncopyable => false
  | .inst ci =>
    match cs[ci]? with
    | none => false
    | some cd => decide (cd.base ≠ .linker) || (getObj h ((o.slots.lookup "submodels").getD (.imm .none))).isSome
  | _ => true

theorem copyable_of_check {cs : List ClassDesc} {h : Heap} (hb : h.all (objCopyableB cs h) = true) (l : Nat) :
    Copyable cs h l := by
  intro x o _ ho
  have := List.all_eq_true.mp hb o (List.mem_of_getElem? ho)
  unfold objCopyableB at this
  refine ⟨?_, ?_⟩
  · intro hk; simp [hk] at this
  · intro ci hk
    simp only [hk] at this
    cases hcd : cs[ci]? with
    | none => simp [hcd] at this
    | some cd =>
      simp only [hcd, Bool.or_eq_true, decide_eq_true_eq] at this
      refine ⟨cd, rfl, fun hl => ?_⟩
      rcases this with h1 | h1
      · exact absurd hl h1
      · exact Option.isSome_iff_exists.mp h1

/-- A set of locations closed under references and free of instances: whatever starts in it is plain. -/
def plainSetB (h : Heap) (s : List Nat) : Bool :=
  s.all fun x =>
    match h[x]? with
    | none => true
    | some o => (match o.kind with | .inst _ => false | _ => true) &&
      o.slots.all fun kv => match kv.2 with
        | .ref c => s.contains c
        | .imm _ => true

theorem plain_of_check {h : Heap} {s : List Nat} (hb : plainSetB h s = true) {v : Val}
    (hv : ∀ l, v = .ref l → l ∈ s) : PlainV h v := by
  intro l x o ci hl r
  have hin : x ∈ s := by
    induction r with
    | refl => exact hv l hl
    | @step b c ob k rb hob hm ih =>
      have hbm := List.all_eq_true.mp hb b ih
      simp only [hob, Bool.and_eq_true] at hbm
      have := List.all_eq_true.mp hbm.2 (k, .ref c) hm
      simpa using this
  intro ho
  have := List.all_eq_true.mp hb x hin
  simp only [ho, Bool.and_eq_true] at this
  intro hk
  simp [hk] at this

/-- The non-instance locations of a heap. -/
def nonInstLocs (h : Heap) : List Nat :=
  (List.range h.length).filter fun x => match h[x]? with
    | some o => (match o.kind with | .inst _ => false | _ => true)
    | none => false

def plainEntriesB (h : Heap) (o : Obj) : Bool :=
  plainSetB h (nonInstLocs h) && o.slots.all fun kv => match kv.2 with
    | .ref c => (nonInstLocs h).contains c
    | .imm _ => true

theorem plainEntries_of_check {h : Heap} {o : Obj} (hb : plainEntriesB h o = true) :
    ∀ k v, (k, v) ∈ o.slots → PlainV h v := by
  simp only [plainEntriesB, Bool.and_eq_true] at hb
  intro k v hm
  apply plain_of_check hb.1
  intro l hv
  subst hv
  have := List.all_eq_true.mp hb.2 (k, .ref l) hm
  simpa using this

/-! ### Linkers: `BaseLinker.copy` still deep-copies every entry by a call of its own -/

/-- In the copy of a linker no object is reachable from two different `__dict__` entries: the new `submodels`
    dict (with the copied submodels) and every other entry live in blocks of their own. -/
theorem copyInstWith_sep_linker {cs : List ClassDesc} {h0 : Heap} (W : WorldOK2 cs h0) (n : Nat) {cd : ClassDesc}
    {ci : Nat} (hcd : cs[ci]? = some cd) {l : Nat} {o : Obj} (ho : h0[l]? = some o) (hk : o.kind = .inst ci)
    (hl : cd.base = .linker) {h h1 : Heap} {ss : List (String × Val)} (e : Ext h0 h) (B : Blk h0.length h)
    (hc : copyInstWith (deepcopy cs n) cd h o = some (h1, ss)) :
    ∀ k1 v1 k2 v2, (k1, v1) ∈ ss → (k2, v2) ∈ ss → k1 ≠ k2 → SepVals h1 v1 v2 := by
  have ok := W.classes ci cd hcd
  have O := oldSlots_of_wf W.wf ho
  have ctor := W.ctor l o ci cd ho hk hcd
  have S := deepcopy_spec W.toWorldOK n
  unfold copyInstWith at hc
  simp only [hl, if_true] at hc
  have Osub := lookup_getD_old O "submodels"
  rw [getObj_old e Osub] at hc
  cases hd : getObj h0 ((o.slots.lookup "submodels").getD (.imm .none)) with
  | none => simp [hd] at hc
  | some d =>
    simp only [hd] at hc
    have Od : OldSlots h0.length d.slots := by
      cases hv : (o.slots.lookup "submodels").getD (.imm .none) with
      | imm i => simp [hv, getObj] at hd
      | ref c => simp only [hv, getObj] at hd; exact oldSlots_of_wf W.wf hd
    cases h1c : copyEachWith (deepcopy cs n) h d.slots with
    | none => simp [h1c] at hc
    | some r1 =>
      obtain ⟨ha, subs⟩ := r1
      simp only [h1c] at hc
      obtain ⟨ea, Ba, Na, _⟩ := copyEachWith_spec S d.slots h ha subs e B Od h1c
      have lena := (e.trans ea).len
      have Bd : Blk h0.length (ha ++ [⟨.dict, subs⟩]) := by
        apply Ba.append
        intro e' he k c hm
        simp at he; subst he
        have := Na k _ hm c rfl
        simp; omega
      obtain ⟨e2, B2, N2⟩ := linkerSpan_spec Bd (by simp; omega) subs
      generalize linkerSpan (ha ++ [⟨.dict, subs⟩]) subs = r2 at hc e2 B2 N2
      obtain ⟨h2, sp⟩ := r2
      simp only at hc e2 B2 N2
      have ed : Ext ha h2 := (Ext.append _ _).trans e2
      have len2 := ed.len
      have Nsub : NewV h0.length h2 (.ref ha.length) := by
        have := e2.len; simp at this
        exact NewV.ref lena (by omega)
      have C := construct_ok (b := h0.length) W.wf ((e.trans ea).trans ed) ok B2 (by omega) sp (.ref ha.length) N2 Nsub
      have CK := construct_keys cd h2 sp (.ref ha.length)
      generalize construct cd h2 sp (.ref ha.length) = r3 at hc C CK
      obtain ⟨h3, init⟩ := r3
      simp only at hc CK
      cases h4c : copyEachWith (deepcopy cs n) h3 (dropKey "submodels" o.slots) with
      | none => simp [h4c] at hc
      | some r4 =>
        obtain ⟨h4, ss4⟩ := r4
        simp only [h4c] at hc
        cases hc
        have e3 : Ext h0 h3 := ((e.trans ea).trans ed).trans C.ext
        have W3 := worldOK_ext W.toWorldOK e3 C.blk
        have Od3 : OldSlots h3.length (dropKey "submodels" o.slots) := fun k v hm c hc' => by
          have := oldSlots_dropKey "submodels" O k v hm c hc'
          have := e3.len
          omega
        obtain ⟨e4, _, _, K4⟩ := copyEachWith_spec S _ h3 h1 ss4 e3 C.blk (oldSlots_dropKey _ O) h4c
        obtain ⟨_, B4', N4', _⟩ := copyEachWith_spec (deepcopy_spec W3 n) _ h3 h1 ss4 (Ext.refl h3) (blk_self h3) Od3 h4c
        have P := copyEachWith_sep n _ h0 h3 h1 ss4 W.toWorldOK e3 C.blk (oldSlots_dropKey _ O) h4c
        -- where an entry of the result comes from
        have src : ∀ k v, (k, v) ∈ slotUpdate init ss4 → (k, v) ∈ ss4 ∨ ((k, v) ∈ init ∧ k = "submodels") := by
          intro k v hm
          rcases mem_slotUpdate ss4 init k v hm with h1' | ⟨h1', h2'⟩
          · exact Or.inl h1'
          · refine Or.inr ⟨h1', ?_⟩
            apply Classical.byContradiction
            intro hne
            apply h2'
            rw [K4]
            apply mem_keys_dropKey hne
            apply ctor k
            rw [← modelNames_ext W.wf ((e.trans ea).trans ed) ok, ← CK]
            exact List.mem_map.mpr ⟨(k, v), h1', rfl⟩
        have lowInit : ∀ k v, (k, v) ∈ init → ∀ c x, v = .ref c → Reach h1 c x → x < h3.length := by
          intro k v hm c x hv r
          have hc3 := (C.slots k v hm c hv).2
          exact reach_lt W3.wf hc3 ((reach_ext_iff W3.wf e4 hc3 x).mp r)
        have highNew : ∀ k v, (k, v) ∈ ss4 → ∀ c x, v = .ref c → Reach h1 c x → h3.length ≤ x := by
          intro k v hm c x hv r
          exact B4'.reach (N4' k v hm c hv).1 r
        intro k1 v1 k2 v2 m1 m2 hne
        rcases src k1 v1 m1 with s1 | ⟨s1, rfl⟩ <;> rcases src k2 v2 m2 with s2 | ⟨s2, rfl⟩
        · exact pairwise_mem (R := fun p q : String × Val => SepVals h1 p.2 q.2) (fun a b r => r.symm) P
            (k1, v1) (k2, v2) s1 s2 (by intro heq; exact hne (congrArg Prod.fst heq))
        · intro x l1 l2 e1 e2 r1 r2
          have := highNew k1 v1 s1 l1 x e1 r1
          have := lowInit _ v2 s2 l2 x e2 r2
          omega
        · intro x l1 l2 e1 e2 r1 r2
          have := lowInit _ v1 s1 l1 x e1 r1
          have := highNew k2 v2 s2 l2 x e2 r2
          omega
        · exact absurd rfl hne

theorem copyRoot_entries_separate_linker {cs : List ClassDesc} {h0 : Heap} (W : WorldOK2 cs h0) {a c : Nat}
    {h1 : Heap} {o : Obj} {ci : Nat} {cd : ClassDesc} (ho : h0[a]? = some o) (hk : o.kind = .inst ci)
    (hcd : cs[ci]? = some cd) (hl : cd.base = .linker) (hc : copyRoot cs h0 a = some (h1, c)) :
    EntriesSeparate h1 c := by
  unfold copyRoot at hc
  cases hd : deepcopy cs (h0.length + 1) h0 [] (.ref a) with
  | none => simp [hd] at hc
  | some r =>
    obtain ⟨hh, mm, v⟩ := r
    cases v with
    | imm i => simp [hd] at hc
    | ref c' =>
      simp [hd] at hc
      obtain ⟨rfl, rfl⟩ := hc
      simp only [deepcopy, List.lookup, ho, hk, hcd] at hd
      cases hci : copyInstWith (deepcopy cs h0.length) cd h0 o with
      | none => simp [hci] at hd
      | some r2 =>
        obtain ⟨hx, ss⟩ := r2
        simp [hci] at hd
        obtain ⟨rfl, _, rfl⟩ := hd
        have sep := copyInstWith_sep_linker W h0.length hcd ho hk hl (Ext.refl h0) (blk_self h0) hci
        obtain ⟨ex, Bx, Nx⟩ := copyInstWith_spec W.toWorldOK (deepcopy_spec W.toWorldOK h0.length) hcd ho hk
          (Ext.refl h0) (blk_self h0) hci
        have wfx : WF hx := wf_of_blk W.wf ex Bx
        intro o' ho' k1 v1 k2 v2 m1 m2 hne x l1 l2 e1 e2 r1 r2
        rw [getElem?_append_self] at ho'
        cases ho'
        subst e1; subst e2
        have b1 := (Nx k1 _ m1 l1 rfl).2
        have b2 := (Nx k2 _ m2 l2 rfl).2
        exact sep k1 _ k2 _ m1 m2 hne x l1 l2 rfl rfl ((reach_ext_iff wfx (Ext.append _ _) b1 x).mp r1)
          ((reach_ext_iff wfx (Ext.append _ _) b2 x).mp r2)

end Fsic.Heap
