import FsicModel.TimeSeries
set_option linter.unusedSimpArgs false
/-
Helper lemmas about the time-series helpers (`FsicModel/TimeSeries.lean`).  Property theorems: `Proofs/C16.lean`.
-/
namespace Fsic.TS
variable {α : Type}

theorem rollAmount_lt (n : Nat) (p : Int) (hn : 0 < n) : rollAmount n p < n := by
  unfold rollAmount
  have h1 : 0 ≤ p % (n : Int) := Int.emod_nonneg _ (by omega)
  have h2 : p % (n : Int) < n := Int.emod_lt_of_pos _ (by omega)
  omega

/-- `0 ≤ p < n`: the roll amount is `p`. -/
theorem rollAmount_of_nonneg_lt (n : Nat) (p : Int) (h0 : 0 ≤ p) (h1 : p < n) : rollAmount n p = p.toNat := by
  unfold rollAmount
  rw [Int.emod_eq_of_lt h0 h1]

/-- `-n < p < 0`: the roll amount is `n + p`. -/
theorem rollAmount_of_neg (n : Nat) (p : Int) (h0 : p < 0) (h1 : -(n : Int) < p) :
    rollAmount n p = (p + n).toNat := by
  unfold rollAmount
  have : p % (n : Int) = (p + n) % (n : Int) := by simp
  rw [this, Int.emod_eq_of_lt (by omega) (by omega)]

theorem roll_length (xs : List α) (p : Int) : (roll xs p).length = xs.length := by
  unfold roll
  split
  · rfl
  · simp only [List.length_append, List.length_drop, List.length_take]
    omega

/-- Element view of `np.roll`: position `i` holds `x[(i - k) mod n]`, `k` the roll amount. -/
theorem roll_getElem? (xs : List α) (p : Int) (i : Nat) (hi : i < xs.length) :
    (roll xs p)[i]? =
      if i < rollAmount xs.length p then xs[xs.length - rollAmount xs.length p + i]?
      else xs[i - rollAmount xs.length p]? := by
  have hn : 0 < xs.length := by omega
  have hk := rollAmount_lt xs.length p hn
  unfold roll
  have hne : ¬ xs.length = 0 := by omega
  simp only [hne, if_false]
  by_cases h : i < rollAmount xs.length p
  · simp only [h, if_true]
    rw [List.getElem?_append_left (by simp only [List.length_drop]; omega)]
    simp only [List.getElem?_drop]
  · simp only [h, if_false]
    rw [List.getElem?_append_right (by simp only [List.length_drop]; omega)]
    simp only [List.length_drop, List.getElem?_take]
    have h1 : i - (xs.length - (xs.length - rollAmount xs.length p)) = i - rollAmount xs.length p := by omega
    have h2 : i - rollAmount xs.length p < xs.length - rollAmount xs.length p := by omega
    simp only [h1, h2, if_true]

theorem fillSlice_length (xs : List α) (lo hi : Nat) (v : α) : (fillSlice xs lo hi v).length = xs.length := by
  simp [fillSlice]

theorem fillSlice_getElem? (xs : List α) (lo hi : Nat) (v : α) (i : Nat) (hi' : i < xs.length) :
    (fillSlice xs lo hi v)[i]? = if lo ≤ i ∧ i < hi then some v else xs[i]? := by
  simp only [fillSlice, List.getElem?_mapIdx]
  rw [List.getElem?_eq_getElem hi']
  by_cases h : lo ≤ i ∧ i < hi <;> simp [h]

theorem assignPrefix_length (xs : List α) (p : Int) (v : α) : (assignPrefix xs p v).length = xs.length := by
  simp [assignPrefix, fillSlice_length]

theorem assignSuffix_length (xs : List α) (p : Int) (v : α) : (assignSuffix xs p v).length = xs.length := by
  simp [assignSuffix, fillSlice_length]

theorem shift_length (xs : List α) (p : Int) (fill : α) : (shift xs p fill).length = xs.length := by
  unfold shift
  split
  · rfl
  · split <;> simp [assignPrefix_length, assignSuffix_length, roll_length]

/-- `xs[:p] = v` for `p > 0`: positions below `p` are overwritten, the others kept. -/
theorem assignPrefix_getElem? (xs : List α) (p : Int) (v : α) (hp : 0 < p) (i : Nat) (hi : i < xs.length) :
    (assignPrefix xs p v)[i]? = if (i : Int) < p then some v else xs[i]? := by
  unfold assignPrefix
  rw [fillSlice_getElem? _ _ _ _ _ hi]
  have hc : clampBound xs.length p = min p.toNat xs.length := by
    unfold clampBound
    have : ¬ p < 0 := by omega
    simp [this]
  by_cases h : (i : Int) < p
  · have : 0 ≤ i ∧ i < clampBound xs.length p := by rw [hc]; omega
    rw [if_pos this, if_pos h]
  · have : ¬ (0 ≤ i ∧ i < clampBound xs.length p) := by rw [hc]; omega
    rw [if_neg this, if_neg h]

/-- `xs[p:] = v` for `p < 0`: positions from `n + p` (clipped at 0) on are overwritten. -/
theorem assignSuffix_getElem? (xs : List α) (p : Int) (v : α) (hp : p < 0) (i : Nat) (hi : i < xs.length) :
    (assignSuffix xs p v)[i]? = if (i : Int) - p ≥ xs.length then some v else xs[i]? := by
  unfold assignSuffix
  rw [fillSlice_getElem? _ _ _ _ _ hi]
  have hc : clampBound xs.length p = (p + (xs.length : Int)).toNat := by
    unfold clampBound
    simp [hp]
  by_cases h : (i : Int) - p ≥ xs.length
  · have : clampBound xs.length p ≤ i ∧ i < xs.length := by rw [hc]; omega
    rw [if_pos this, if_pos h]
  · have : ¬ (clampBound xs.length p ≤ i ∧ i < xs.length) := by rw [hc]; omega
    rw [if_neg this, if_neg h]

/-- The central fact about `shift`: for **every** integer `p` (zero, negative, `|p| ≥ n`) position `i` holds
    `x[i - p]` when that index lies inside the array and the fill value otherwise. -/
theorem shift_getElem? (xs : List α) (p : Int) (fill : α) (i : Nat) (hi : i < xs.length) :
    (shift xs p fill)[i]? =
      if 0 ≤ (i : Int) - p ∧ (i : Int) - p < xs.length then xs[((i : Int) - p).toNat]? else some fill := by
  unfold shift
  by_cases h0 : p = 0
  · subst h0
    have : 0 ≤ (i : Int) - 0 ∧ (i : Int) - 0 < xs.length := by omega
    rw [if_pos rfl, if_pos this]
    congr 1
  · simp only [h0, if_false]
    by_cases hpos : p > 0
    · simp only [hpos, if_true]
      rw [assignPrefix_getElem? _ _ _ hpos _ (by rw [roll_length]; exact hi)]
      by_cases hlt : (i : Int) < p
      · have : ¬ (0 ≤ (i : Int) - p ∧ (i : Int) - p < xs.length) := by omega
        rw [if_pos hlt, if_neg this]
      · have hin : 0 ≤ (i : Int) - p ∧ (i : Int) - p < xs.length := by omega
        simp only [hlt, if_false, hin, and_self, if_true]
        rw [roll_getElem? _ _ _ hi, rollAmount_of_nonneg_lt _ _ (by omega) (by omega)]
        have : ¬ i < p.toNat := by omega
        simp only [this, if_false]
        congr 1
        omega
    · have hneg : p < 0 := by omega
      simp only [hpos, if_false]
      rw [assignSuffix_getElem? _ _ _ hneg _ (by rw [roll_length]; exact hi), roll_length]
      by_cases hge : (i : Int) - p ≥ xs.length
      · have : ¬ (0 ≤ (i : Int) - p ∧ (i : Int) - p < xs.length) := by omega
        rw [if_pos hge, if_neg this]
      · have hin : 0 ≤ (i : Int) - p ∧ (i : Int) - p < xs.length := by omega
        simp only [hge, if_false, hin, and_self, if_true]
        rw [roll_getElem? _ _ _ hi, rollAmount_of_neg _ _ hneg (by omega)]
        have : i < (p + (xs.length : Int)).toNat := by omega
        simp only [this, if_true]
        congr 1
        omega

/-! ### Memory layer -/

theorem Mem.read_alloc_old (m : Mem α) (xs : List α) (l : Nat) (hl : l < m.cells.length) :
    (m.alloc xs).1.read l = m.read l := by
  simp [Mem.alloc, Mem.read, List.getD, List.getElem?_append_left hl]

theorem Mem.read_alloc_new (m : Mem α) (xs : List α) : (m.alloc xs).1.read (m.alloc xs).2 = xs := by
  simp [Mem.alloc, Mem.read, List.getD]

theorem Mem.alloc_size (m : Mem α) (xs : List α) : (m.alloc xs).1.cells.length = m.cells.length + 1 := by
  simp [Mem.alloc]

theorem Mem.alloc_loc (m : Mem α) (xs : List α) : (m.alloc xs).2 = m.cells.length := rfl

theorem Mem.modify_size (m : Mem α) (l : Nat) (f : List α → List α) :
    (m.modify l f).cells.length = m.cells.length := by
  simp [Mem.modify, Fsic.setAt_length]

theorem Mem.read_modify_ne (m : Mem α) (l l' : Nat) (f : List α → List α) (h : l ≠ l') :
    (m.modify l f).read l' = m.read l' := by
  simp [Mem.modify, Mem.read, List.getD, Fsic.setAt_getElem?_ne _ _ _ _ h]

theorem Mem.read_modify_eq (m : Mem α) (l : Nat) (f : List α → List α) (h : l < m.cells.length) :
    (m.modify l f).read l = f (m.read l) := by
  simp [Mem.modify, Mem.read, List.getD, Fsic.setAt_getElem?_eq _ _ _ h]

end Fsic.TS
