import Proofs.Lemmas.AliasExport
/-
Helper lemmas for C18: the choice made for each group of aliases, the `replacements` dict, the
`PREFERRED_NAMES` check of the constructor.
-/
set_option linter.unusedSectionVars false
set_option linter.unusedSimpArgs false
namespace Fsic.Alias
variable {α : Type} [DecidableEq α]

/-! ### dict built by successive assignments -/

theorem getLast_some_mem {r : AMap α} {x v : α} (h : getLast r x = some v) : (x, v) ∈ r := by
  induction r with
  | nil => simp [getLast] at h
  | cons p r ih =>
    unfold getLast at h
    cases hm : getLast r x with
    | some v' =>
      rw [hm] at h
      simp at h
      exact List.mem_cons_of_mem _ (ih (h ▸ hm))
    | none =>
      rw [hm] at h
      by_cases hp : p.1 = x
      · simp [hp] at h
        have : p = (x, v) := by cases p; simp_all
        simp [this]
      · simp [hp] at h

theorem getLast_none_iff (r : AMap α) (x : α) : getLast r x = none ↔ x ∉ keys r := by
  induction r with
  | nil => simp [getLast, keys]
  | cons p r ih =>
    unfold getLast
    cases hm : getLast r x with
    | some k =>
      have : x ∈ keys r := by
        apply Classical.byContradiction; intro h; rw [ih.mpr h] at hm; cases hm
      constructor
      · intro h; cases h
      · intro h; exact absurd (List.mem_cons_of_mem _ this) h
    | none =>
      have hx := ih.mp hm
      by_cases hp : p.1 = x
      · simp [hp, keys]
      · have hp' : ¬ x = p.1 := fun e => hp e.symm
        simp only [hp, if_false, keys, List.map_cons, List.mem_cons, hp', false_or, true_iff]
        exact hx

theorem getLast_of_nodup {r : AMap α} (hnd : (keys r).Nodup) {x v : α} (h : (x, v) ∈ r) :
    getLast r x = some v := by
  cases hg : getLast r x with
  | none => exact absurd (mem_keys_of_mem h) ((getLast_none_iff r x).mp hg)
  | some v' =>
    have h' := getLast_some_mem hg
    have := inj_of_nodup_map Prod.fst (l := r) hnd h h' rfl
    cases this; rfl

/-! ### the choice for one group -/

theorem mem_prefInter (pref : List α) (t : α) (as : List α) (x : α) :
    x ∈ prefInter pref t as ↔ (x ∈ as ∨ x = t) ∧ x ∈ pref := by
  simp [prefInter, mem_dedup]

theorem nodup_prefInter (pref : List α) (t : α) (as : List α) : (prefInter pref t as).Nodup :=
  (nodup_dedup _).filter _

theorem choose_rename_mem {pref : List α} {t : α} {as : List α} {x : α}
    (h : choose pref t as = .rename x) : x ∈ as ∨ x = t := by
  unfold choose at h
  split at h
  · split at h
    · cases h
    · cases h; simp
  · split at h
    · cases h
    · rename_i y hy
      cases h
      exact ((mem_prefInter pref t as x).mp (by rw [hy]; simp)).1
    · cases h

/-- Preferred names are unique within the group of `t`. -/
def UniquePref (pref : List α) (t : α) (as : List α) : Prop :=
  ∀ x ∈ pref, ∀ y ∈ pref, (x ∈ as ∨ x = t) → (y ∈ as ∨ y = t) → x = y

theorem prefInter_length_le_one {pref : List α} {t : α} {as : List α} (hu : UniquePref pref t as) :
    (prefInter pref t as).length ≤ 1 := by
  apply length_le_one_of_all_eq (nodup_prefInter pref t as)
  intro x hx y hy
  have hx' := (mem_prefInter pref t as x).mp hx
  have hy' := (mem_prefInter pref t as y).mp hy
  exact hu x hx'.2 y hy'.2 hx'.1 hy'.1

theorem choose_not_ambiguous {pref : List α} {t : α} {as : List α} (hu : UniquePref pref t as) :
    choose pref t as ≠ .ambiguous := by
  have hl := prefInter_length_le_one hu
  unfold choose
  split
  · split <;> simp
  · split
    · simp
    · simp
    · rename_i h1 h2
      cases hpi : prefInter pref t as with
      | nil => exact absurd hpi h1
      | cons a l =>
        cases l with
        | nil => exact absurd hpi (h2 a)
        | cons b l => rw [hpi] at hl; simp at hl

theorem choose_prefers {pref : List α} {t : α} {as : List α} (hu : UniquePref pref t as) (ht : t ∉ as)
    {p : α} (hp : p ∈ pref) (hpa : p ∈ as) : choose pref t as = .rename p := by
  have hl := prefInter_length_le_one hu
  have hmem : p ∈ prefInter pref t as := (mem_prefInter pref t as p).mpr ⟨Or.inl hpa, hp⟩
  unfold choose
  split
  · rename_i a
    have hpa' : p = a := by simpa using hpa
    have htp : t ∉ pref := by
      intro htp
      have := hu t htp p hp (Or.inr rfl) (Or.inl hpa)
      exact ht (this ▸ hpa)
    simp [htp, hpa']
  · cases hpi : prefInter pref t as with
    | nil => rw [hpi] at hmem; cases hmem
    | cons a l =>
      cases l with
      | nil =>
        rw [hpi] at hmem
        have : p = a := by simpa using hmem
        simp [this]
      | cons b l => rw [hpi] at hl; simp at hl

/-- If the variable's own name is preferred, a renaming decision can only be "call it by its own name". -/
theorem choose_rename_of_target_pref {pref : List α} {t : α} {as : List α} (hu : UniquePref pref t as)
    (ht : t ∈ pref) {x : α} (h : choose pref t as = .rename x) : x = t := by
  unfold choose at h
  split at h
  · simp [ht] at h
  · split at h
    · cases h
    · rename_i y hy
      cases h
      have hx := (mem_prefInter pref t as x).mp (by rw [hy]; simp)
      exact hu x hx.2 t ht hx.1 (Or.inr rfl)
    · cases h

theorem choose_ambiguous {pref : List α} {t : α} {as : List α} {p q : α} (hne : p ≠ q)
    (hp : p ∈ pref) (hq : q ∈ pref) (hpa : p ∈ as) (hqa : q ∈ as) : choose pref t as = .ambiguous := by
  have hmp : p ∈ prefInter pref t as := (mem_prefInter pref t as p).mpr ⟨Or.inl hpa, hp⟩
  have hmq : q ∈ prefInter pref t as := (mem_prefInter pref t as q).mpr ⟨Or.inl hqa, hq⟩
  unfold choose
  split
  · rename_i a
    have h1 : p = a := by simpa using hpa
    have h2 : q = a := by simpa using hqa
    exact absurd (h1.trans h2.symm) hne
  · cases hpi : prefInter pref t as with
    | nil => rw [hpi] at hmp; cases hmp
    | cons a l =>
      cases l with
      | nil =>
        rw [hpi] at hmp hmq
        have h1 : p = a := by simpa using hmp
        have h2 : q = a := by simpa using hmq
        exact absurd (h1.trans h2.symm) hne
      | cons b l => rfl

/-- A group of several aliases none of which (nor the target) is preferred keeps the variable's name. -/
theorem choose_keep_of_no_pref {pref : List α} {t : α} {as : List α} (hlen : as.length ≠ 1)
    (hno : ∀ x ∈ pref, x ∉ as ∧ x ≠ t) : choose pref t as = .keep := by
  have hpi : prefInter pref t as = [] := by
    apply List.eq_nil_iff_forall_not_mem.mpr
    intro x hx
    have := (mem_prefInter pref t as x).mp hx
    have h2 := hno x this.2
    rcases this.1 with h | h
    · exact h2.1 h
    · exact h2.2 h
  unfold choose
  split
  · simp at hlen
  · simp [hpi]

/-! ### the `replacements` dict -/

theorem replacements_none_of_ambiguous {pref : List α} : ∀ {gs : List (α × List α)} {g : α × List α}, g ∈ gs →
    choose pref g.1 g.2 = .ambiguous → replacements pref gs = none := by
  intro gs
  induction gs with
  | nil => intro g hg; cases hg
  | cons g0 gs ih =>
    intro g hg hamb
    unfold replacements
    rcases List.mem_cons.mp hg with hg | hg
    · subst hg; simp [hamb]
    · have := ih hg hamb
      split <;> simp [this]

theorem replacements_some_of_no_ambiguous {pref : List α} : ∀ {gs : List (α × List α)},
    (∀ g ∈ gs, choose pref g.1 g.2 ≠ .ambiguous) → ∃ r, replacements pref gs = some r := by
  intro gs
  induction gs with
  | nil => intro _; exact ⟨[], rfl⟩
  | cons g0 gs ih =>
    intro h
    obtain ⟨r, hr⟩ := ih fun g hg => h g (List.mem_cons_of_mem _ hg)
    unfold replacements
    have h0 := h g0 List.mem_cons_self
    split
    · rename_i e; exact absurd e h0
    · exact ⟨r, hr⟩
    · exact ⟨_, by rw [hr]; rfl⟩

/-- The dict holds exactly the `rename` decisions. -/
theorem mem_replacements {pref : List α} : ∀ {gs : List (α × List α)} {r : AMap α}, replacements pref gs = some r →
    ∀ t x, (t, x) ∈ r ↔ ∃ g ∈ gs, g.1 = t ∧ choose pref g.1 g.2 = .rename x := by
  intro gs
  induction gs with
  | nil => intro r h t x; simp [replacements] at h; subst h; simp
  | cons g0 gs ih =>
    intro r h t x
    unfold replacements at h
    split at h
    · cases h
    · rename_i hk
      rw [ih h t x]
      constructor
      · rintro ⟨g, hg, h1, h2⟩; exact ⟨g, List.mem_cons_of_mem _ hg, h1, h2⟩
      · rintro ⟨g, hg, h1, h2⟩
        rcases List.mem_cons.mp hg with hg | hg
        · subst hg; rw [hk] at h2; cases h2
        · exact ⟨g, hg, h1, h2⟩
    · rename_i y hk
      cases hr : replacements pref gs with
      | none => rw [hr] at h; cases h
      | some r' =>
        rw [hr] at h
        simp at h
        subst h
        simp only [List.mem_cons, Prod.mk.injEq, ih hr t x]
        constructor
        · rintro (⟨h1, h2⟩ | ⟨g, hg, h1, h2⟩)
          · exact ⟨g0, Or.inl rfl, h1.symm, by rw [hk, h2]⟩
          · exact ⟨g, Or.inr hg, h1, h2⟩
        · rintro ⟨g, hg | hg, h1, h2⟩
          · subst hg; rw [hk] at h2; cases h2; exact Or.inl ⟨h1.symm, rfl⟩
          · exact Or.inr ⟨g, hg, h1, h2⟩

theorem keys_replacements_nodup {pref : List α} : ∀ {gs : List (α × List α)} {r : AMap α},
    replacements pref gs = some r → (gs.map Prod.fst).Nodup →
    (keys r).Nodup ∧ ∀ t ∈ keys r, t ∈ gs.map Prod.fst := by
  intro gs
  induction gs with
  | nil => intro r h _; simp [replacements] at h; subst h; simp [keys]
  | cons g0 gs ih =>
    intro r h hnd
    have hnd' : g0.1 ∉ gs.map Prod.fst ∧ (gs.map Prod.fst).Nodup := by simpa using hnd
    unfold replacements at h
    split at h
    · cases h
    · obtain ⟨h1, h2⟩ := ih h hnd'.2
      exact ⟨h1, fun t ht => List.mem_cons_of_mem _ (h2 t ht)⟩
    · cases hr : replacements pref gs with
      | none => rw [hr] at h; cases h
      | some r' =>
        rw [hr] at h
        simp at h
        subst h
        obtain ⟨h1, h2⟩ := ih hr hnd'.2
        refine ⟨?_, ?_⟩
        · simp only [keys, List.map_cons, List.nodup_cons]
          exact ⟨fun hm => hnd'.1 (h2 _ hm), h1⟩
        · intro t ht
          rcases List.mem_cons.mp ht with ht | ht
          · rw [ht]; simp
          · exact List.mem_cons_of_mem _ (h2 t ht)

/-! ### the `PREFERRED_NAMES` check of the constructor -/

theorem prefCheckLoop_iff (m : AMap α) : ∀ (rest seen : List α), prefCheckLoop m seen rest = true ↔
    (∀ x ∈ rest, resolve m x ∉ seen) ∧ (rest.map (resolve m)).Nodup := by
  intro rest
  induction rest with
  | nil => intro seen; simp [prefCheckLoop]
  | cons n rest ih =>
    intro seen
    unfold prefCheckLoop
    by_cases h : resolve m n ∈ seen
    · simp only [h, if_true]
      constructor
      · intro h'; cases h'
      · intro h'; exact absurd h (h'.1 n List.mem_cons_self)
    · simp only [h, if_false, ih, List.mem_append, List.map_cons, List.nodup_cons,
        List.mem_map, List.mem_cons, List.not_mem_nil, or_false]
      constructor
      · rintro ⟨h1, h2⟩
        refine ⟨?_, ?_, h2⟩
        · rintro x (rfl | hx)
          · exact h
          · exact fun hs => h1 x hx (Or.inl hs)
        · rintro ⟨x, hx, e⟩
          exact h1 x hx (Or.inr e)
      · rintro ⟨h1, h2, h3⟩
        refine ⟨?_, h3⟩
        intro x hx hor
        rcases hor with hs | e
        · exact h1 x (Or.inr hx) hs
        · exact h2 ⟨x, hx, e⟩

theorem prefCheck_iff (m : AMap α) (pref : List α) : prefCheck m pref = true ↔ (pref.map (resolve m)).Nodup := by
  simp [prefCheck, prefCheckLoop_iff]

/-- After the constructor's check, every group of a shortened map has at most one preferred name. -/
theorem uniquePref_of_check {m : AMap α} (hwf : WF m) (hc : chained m = false) {pref : List α}
    (hp : prefCheck m pref = true) {t : α} {as : List α} (ht : t ∈ vals m) (has : ∀ a ∈ as, (a, t) ∈ m) :
    UniquePref pref t as := by
  have hnd := (prefCheck_iff m pref).mp hp
  have hres : ∀ x, (x ∈ as ∨ x = t) → resolve m x = t := by
    intro x hx
    rcases hx with hx | hx
    · exact resolve_of_mem hwf (has x hx)
    · subst hx
      exact resolve_of_not_key fun hk => (not_chained_iff m).mp hc _ hk ht
  intro x hx y hy hxg hyg
  exact inj_of_nodup_map (resolve m) hnd hx hy (by rw [hres x hxg, hres y hyg])

end Fsic.Alias

namespace Fsic.Alias
variable {α : Type} [DecidableEq α]

/-- Whatever the export does to a label, the new label is the old one or an alias of it. -/
theorem exportCols_shape {δ : Type} (le : α → α → Bool) (m : AMap α) (pref : List α) (cols out : List (α × δ))
    (h : exportCols le m pref cols = some out) :
    ∃ f : α → α, out = renameDf f cols ∧ ∀ c, f c = c ∨ (f c, c) ∈ m := by
  unfold exportCols at h
  split at h
  · cases h
    refine ⟨_, rfl, ?_⟩
    intro c
    cases hg : invGet m c with
    | none => simp
    | some k => exact Or.inr (by simpa using invGet_some_mem hg)
  · unfold exportPref at h
    cases hr : replacements pref (groups (sortByVal le m)) with
    | none => rw [hr] at h; cases h
    | some r =>
      rw [hr] at h
      cases h
      refine ⟨_, rfl, ?_⟩
      intro c
      cases hg : getLast r c with
      | none => simp
      | some x =>
        obtain ⟨g, hgm, hg1, hch⟩ := (mem_replacements hr c x).mp (getLast_some_mem hg)
        rcases choose_rename_mem hch with hx | hx
        · right
          have := (groups_sound _ g hgm).2 x hx
          rw [hg1] at this
          simpa using (mem_sortByVal le m _).mp this
        · left; simp [hx, hg1]

end Fsic.Alias
