import FsicModel.Container
/-
Helper lemmas about M6 (Container) shared by C09 and C10: writes preserve length / shape / dtype, `setVar` /
`lookup` algebra, the frame relation `Ext` every operation satisfies, well-formedness (`Inv`).
-/
set_option linter.unusedSimpArgs false
set_option linter.unusedVariables false
namespace Fsic.Container
open Fsic

/-! ### Writes keep the length -/

theorem writeSeq_length (d : Dtype) (ws : List (Nat × Val)) (data : List Val) :
    (writeSeq d data ws).1.length = data.length := by
  induction ws generalizing data with
  | nil => simp [writeSeq]
  | cons p rest ih =>
    obtain ⟨k, v⟩ := p
    unfold writeSeq
    cases h : conv d v with
    | error e => simp
    | ok w => simp [ih, setAt_length]

theorem writeRaw_length (ws : List (Nat × Val)) (data : List Val) :
    (writeRaw data ws).length = data.length := by
  induction ws generalizing data with
  | nil => simp [writeRaw]
  | cons p rest ih =>
    obtain ⟨k, w⟩ := p
    simp [writeRaw, ih, setAt_length]

theorem conv_error {d : Dtype} {v : Val} {e : Exc} (h : conv d v = .error e) : e = .valueConv := by
  unfold conv at h
  cases hk : d.kind <;> simp only [hk] at h
  · cases v <;> simp only [convFloat] at h
    · cases h
    · cases h
    · cases h
    · split at h <;> cases h; rfl
  · cases v <;> simp only [convInt] at h
    · cases h
    · cases h
    · cases h
    · split at h <;> cases h; rfl
  · cases h
  · cases h
  · cases h

theorem convAll_error {d : Dtype} {vs : List Val} {e : Exc} (h : convAll d vs = .error e) :
    e = .valueConv := by
  induction vs with
  | nil => simp [convAll] at h
  | cons v vs ih =>
    unfold convAll at h
    cases hc : conv d v with
    | error e' =>
      simp only [hc] at h
      cases h
      exact conv_error hc
    | ok w =>
      simp only [hc] at h
      cases hr : convAll d vs with
      | error e' => simp only [hr] at h; cases h; exact ih hr
      | ok ws => simp only [hr] at h; cases h

theorem convAll_length {d : Dtype} {vs ws : List Val} (h : convAll d vs = .ok ws) :
    ws.length = vs.length := by
  induction vs generalizing ws with
  | nil => simp [convAll] at h; cases h; rfl
  | cons v vs ih =>
    unfold convAll at h
    cases hc : conv d v with
    | error e' => simp only [hc] at h; cases h
    | ok w =>
      simp only [hc] at h
      cases hr : convAll d vs with
      | error e' => simp only [hr] at h; cases h
      | ok ws' =>
        simp only [hr] at h
        cases h
        simp [ih hr]

theorem writeSeq_raised {d : Dtype} {ws : List (Nat × Val)} {data : List Val} {e : Exc}
    (h : (writeSeq d data ws).2 = .raised e) : e = .valueConv := by
  induction ws generalizing data with
  | nil => simp [writeSeq] at h
  | cons p rest ih =>
    obtain ⟨k, v⟩ := p
    unfold writeSeq at h
    cases hc : conv d v with
    | error e' =>
      simp only [hc] at h
      cases h
      exact conv_error hc
    | ok w =>
      simp only [hc] at h
      exact ih h

/-- A view assignment never changes dtype, shape or the number of stored elements. -/
theorem assignView_frame (ser : Series) (idxs vshape : List Nat) (src : Src) :
    (assignView ser idxs vshape src).1.dtype = ser.dtype ∧
    (assignView ser idxs vshape src).1.shape = ser.shape ∧
    (assignView ser idxs vshape src).1.data.length = ser.data.length := by
  unfold assignView
  split
  · simp
  · simp
  · split
    · simp
    · simp [writeRaw_length]
  · split
    · simp
    · simp [writeSeq_length]
  · split
    · simp [writeSeq_length]
    · split
      · simp
      · split
        · simp
        · simp [writeRaw_length]

/-- A view assignment that raises something other than an element-conversion error stored nothing. -/
theorem assignView_failed {ser : Series} {idxs vshape : List Nat} {src : Src} {e : Exc}
    (h : (assignView ser idxs vshape src).2 = .raised e) (he : e ≠ .valueConv) :
    (assignView ser idxs vshape src).1 = ser := by
  cases src with
  | bad => rfl
  | badType => rfl
  | fill v =>
    simp only [assignView] at h ⊢
    cases hc : conv ser.dtype v with
    | error e' => simp [hc]
    | ok w => simp only [hc] at h; cases h
  | cast T data =>
    simp only [assignView] at h ⊢
    cases hb : bcast T vshape with
    | none => simp [hb]
    | some js => simp only [hb] at h; exact absurd (writeSeq_raised h) he
  | pylist T data =>
    simp only [assignView] at h ⊢
    by_cases hT : T = vshape
    · simp only [hT, if_true] at h
      exact absurd (writeSeq_raised h) he
    · simp only [hT, if_false] at h ⊢
      cases hc : convAll ser.dtype data with
      | error e' => simp [hc]
      | ok ws =>
        simp only [hc] at h ⊢
        cases hb : bcast T vshape with
        | none => simp [hb]
        | some js => simp only [hb] at h; cases h

/-! ### `lookup` / `setVar` -/

theorem lookup_mem {vars : List (Name × Series)} {name : Name} {ser : Series}
    (h : vars.lookup name = some ser) : (name, ser) ∈ vars := by
  induction vars with
  | nil => simp [List.lookup] at h
  | cons p rest ih =>
    obtain ⟨m, x⟩ := p
    simp only [List.lookup] at h
    by_cases hm : name = m
    · subst hm
      simp at h
      subst h
      simp
    · have : (name == m) = false := by simpa using hm
      simp only [this] at h
      exact List.mem_cons_of_mem _ (ih h)

theorem lookup_isSome_of_mem {vars : List (Name × Series)} {name : Name}
    (h : name ∈ vars.map (·.1)) : ∃ ser, vars.lookup name = some ser := by
  induction vars with
  | nil => simp at h
  | cons p rest ih =>
    obtain ⟨m, x⟩ := p
    simp only [List.lookup]
    by_cases hm : name = m
    · subst hm; exact ⟨x, by simp⟩
    · have hb : (name == m) = false := by simpa using hm
      simp only [hb]
      apply ih
      simp only [List.map_cons, List.mem_cons] at h
      rcases h with h | h
      · exact absurd h hm
      · exact h

theorem lookup_none_of_not_mem {vars : List (Name × Series)} {name : Name}
    (h : name ∉ vars.map (·.1)) : vars.lookup name = none := by
  induction vars with
  | nil => rfl
  | cons p rest ih =>
    obtain ⟨m, x⟩ := p
    simp only [List.map_cons, List.mem_cons, not_or] at h
    have hb : (name == m) = false := by simpa using h.1
    simp only [List.lookup, hb]
    exact ih h.2

theorem setVar_index (vars : List (Name × Series)) (name : Name) (ser : Series) :
    (setVar vars name ser).map (·.1) = vars.map (·.1) := by
  induction vars with
  | nil => rfl
  | cons p rest ih =>
    obtain ⟨m, x⟩ := p
    unfold setVar
    by_cases hm : (m == name) = true
    · simp [hm]
    · simp [hm, ih]

theorem setVar_length (vars : List (Name × Series)) (name : Name) (ser : Series) :
    (setVar vars name ser).length = vars.length := by
  have := congrArg List.length (setVar_index vars name ser)
  simpa using this

theorem mem_setVar {vars : List (Name × Series)} {name : Name} {ser : Series} {p : Name × Series}
    (h : p ∈ setVar vars name ser) : p ∈ vars ∨ p.2 = ser := by
  induction vars with
  | nil => simp [setVar] at h
  | cons q rest ih =>
    obtain ⟨m, x⟩ := q
    unfold setVar at h
    by_cases hm : (m == name) = true
    · rw [if_pos hm] at h
      rcases List.mem_cons.mp h with h1 | h1
      · right; rw [h1]
      · left; exact List.mem_cons_of_mem _ h1
    · rw [if_neg hm] at h
      rcases List.mem_cons.mp h with h1 | h1
      · left; rw [h1]; exact List.mem_cons_self
      · rcases ih h1 with h' | h'
        · left; exact List.mem_cons_of_mem _ h'
        · right; exact h'

theorem lookup_setVar_same {vars : List (Name × Series)} {name : Name} {ser0 ser : Series}
    (h : vars.lookup name = some ser0) : (setVar vars name ser).lookup name = some ser := by
  induction vars with
  | nil => simp [List.lookup] at h
  | cons q rest ih =>
    obtain ⟨m, x⟩ := q
    unfold setVar
    by_cases hm : name = m
    · subst hm
      simp [List.lookup]
    · have hb : (name == m) = false := by simpa using hm
      have hb' : (m == name) = false := by simpa using Ne.symm hm
      simp only [List.lookup, hb] at h
      simp only [hb', Bool.false_eq_true, if_false, List.lookup, hb]
      exact ih h

theorem lookup_setVar_other {vars : List (Name × Series)} {name other : Name} {ser : Series}
    (h : other ≠ name) : (setVar vars name ser).lookup other = vars.lookup other := by
  induction vars with
  | nil => rfl
  | cons q rest ih =>
    obtain ⟨m, x⟩ := q
    unfold setVar
    by_cases hm : (m == name) = true
    · have hmn : m = name := by simpa using hm
      have hb : (other == m) = false := by simpa [hmn] using h
      simp [hm, List.lookup, hb]
    · by_cases ho : (other == m) = true
      · simp [hm, List.lookup, ho]
      · simp [hm, List.lookup, ho, ih]

theorem setVar_same {vars : List (Name × Series)} {name : Name} {ser : Series}
    (h : vars.lookup name = some ser) : setVar vars name ser = vars := by
  induction vars with
  | nil => rfl
  | cons q rest ih =>
    obtain ⟨m, x⟩ := q
    unfold setVar
    by_cases hm : name = m
    · subst hm
      simp [List.lookup] at h
      simp [h]
    · have hb : (name == m) = false := by simpa using hm
      have hb' : (m == name) = false := by simpa using Ne.symm hm
      simp only [List.lookup, hb] at h
      simp [hb', ih h]

/-! ### Store-level getters after `put` -/

@[simp] theorem put_span (s : Store) (name : Name) (ser : Series) : (s.put name ser).span = s.span := rfl
@[simp] theorem put_attrs (s : Store) (name : Name) (ser : Series) : (s.put name ser).attrs = s.attrs := rfl
@[simp] theorem put_strict (s : Store) (name : Name) (ser : Series) : (s.put name ser).strict = s.strict := rfl
@[simp] theorem put_nonNames (s : Store) (name : Name) (ser : Series) : (s.put name ser).nonNames = s.nonNames := rfl
@[simp] theorem put_n (s : Store) (name : Name) (ser : Series) : (s.put name ser).n = s.n := rfl
@[simp] theorem put_spanKind (s : Store) (name : Name) (ser : Series) :
    (s.put name ser).spanKind = s.spanKind := rfl
@[simp] theorem put_getLoc (s : Store) (name : Name) (ser : Series) : (s.put name ser).getLoc = s.getLoc := rfl
@[simp] theorem put_extraSize (s : Store) (name : Name) (ser : Series) :
    (s.put name ser).extraSize = s.extraSize := rfl

@[simp] theorem put_index (s : Store) (name : Name) (ser : Series) : (s.put name ser).index = s.index := by
  simp [Store.put, Store.index, setVar_index]

@[simp] theorem put_names (s : Store) (name : Name) (ser : Series) : (s.put name ser).names = s.names := by
  simp [Store.names]

theorem get_put_same {s : Store} {name : Name} {ser0 ser : Series} (h : s.get name = some ser0) :
    (s.put name ser).get name = some ser := lookup_setVar_same h

theorem get_put_other {s : Store} {name other : Name} {ser : Series} (h : other ≠ name) :
    (s.put name ser).get other = s.get other := lookup_setVar_other h

theorem put_same {s : Store} {name : Name} {ser : Series} (h : s.get name = some ser) :
    s.put name ser = s := by
  cases s
  simp only [Store.put, Store.get] at *
  simp [setVar_same h]

theorem get_mem {s : Store} {name : Name} {ser : Series} (h : s.get name = some ser) :
    (name, ser) ∈ s.vars := lookup_mem h

theorem get_of_index {s : Store} {name : Name} (h : name ∈ s.index) : ∃ ser, s.get name = some ser :=
  lookup_isSome_of_mem h

theorem get_none_of_not_index {s : Store} {name : Name} (h : name ∉ s.index) : s.get name = none :=
  lookup_none_of_not_mem h

theorem index_of_get {s : Store} {name : Name} {ser : Series} (h : s.get name = some ser) :
    name ∈ s.index := by
  have := get_mem h
  exact List.mem_map.mpr ⟨(name, ser), this, rfl⟩

/-! ### Well-formedness -/

/-- One-dimensional with exactly one element per period. -/
def Series.wf (n : Nat) (ser : Series) : Prop := ser.shape = [n] ∧ ser.data.length = n

/-- Every variable is a one-dimensional array with exactly one element per period. -/
def Inv (s : Store) : Prop := ∀ p ∈ s.vars, p.2.wf s.n

theorem Inv.get {s : Store} (h : Inv s) {name : Name} {ser : Series} (hg : s.get name = some ser) :
    ser.wf s.n := h _ (get_mem hg)

theorem Inv.put {s : Store} (h : Inv s) {name : Name} {ser : Series} (hw : ser.wf s.n) :
    Inv (s.put name ser) := by
  intro p hp
  rcases mem_setVar hp with hp' | hp'
  · exact h p hp'
  · rw [hp']; exact hw

theorem wf_assignView {n : Nat} {ser : Series} (hw : ser.wf n) (idxs vshape : List Nat) (src : Src) :
    (assignView ser idxs vshape src).1.wf n := by
  obtain ⟨_, h2, h3⟩ := assignView_frame ser idxs vshape src
  exact ⟨h2.trans hw.1, h3.trans hw.2⟩

/-! ### The frame every operation respects -/

/-- `s'` extends `s`: same span, the index only grows at the end, every existing series keeps its dtype. -/
structure Ext (s s' : Store) : Prop where
  span : s'.span = s.span
  spanKind : s'.spanKind = s.spanKind
  getLoc : s'.getLoc = s.getLoc
  nonNames : s'.nonNames = s.nonNames
  defaultKind : s'.defaultKind = s.defaultKind
  extraSize : s'.extraSize = s.extraSize
  extraKeys : s'.extraKeys = s.extraKeys
  index : ∃ extra, s'.index = s.index ++ extra
  dtypes : ∀ name ser, s.get name = some ser → ∃ ser', s'.get name = some ser' ∧ ser'.dtype = ser.dtype

theorem Ext.refl (s : Store) : Ext s s :=
  ⟨rfl, rfl, rfl, rfl, rfl, rfl, rfl, ⟨[], by simp⟩, fun _ ser h => ⟨ser, h, rfl⟩⟩

theorem Ext.trans {a b c : Store} (h1 : Ext a b) (h2 : Ext b c) : Ext a c := by
  refine ⟨h2.span.trans h1.span, h2.spanKind.trans h1.spanKind, h2.getLoc.trans h1.getLoc,
    h2.nonNames.trans h1.nonNames, h2.defaultKind.trans h1.defaultKind, h2.extraSize.trans h1.extraSize,
    h2.extraKeys.trans h1.extraKeys, ?_, ?_⟩
  · obtain ⟨e1, he1⟩ := h1.index
    obtain ⟨e2, he2⟩ := h2.index
    exact ⟨e1 ++ e2, by rw [he2, he1, List.append_assoc]⟩
  · intro name ser hg
    obtain ⟨ser1, hg1, hd1⟩ := h1.dtypes name ser hg
    obtain ⟨ser2, hg2, hd2⟩ := h2.dtypes name ser1 hg1
    exact ⟨ser2, hg2, hd2.trans hd1⟩

theorem Ext.n {s s' : Store} (h : Ext s s') : s'.n = s.n := by simp [Store.n, h.span]

/-- Replacing the series of an existing variable by one of the same dtype. -/
theorem Ext.put {s : Store} {name : Name} {ser0 ser : Series} (hg : s.get name = some ser0)
    (hd : ser.dtype = ser0.dtype) : Ext s (s.put name ser) := by
  refine ⟨rfl, rfl, rfl, rfl, rfl, rfl, rfl, ⟨[], by simp⟩, ?_⟩
  intro other ser1 h1
  by_cases ho : other = name
  · subst ho
    rw [hg] at h1
    cases h1
    exact ⟨ser, get_put_same hg, hd⟩
  · exact ⟨ser1, by rw [get_put_other ho]; exact h1, rfl⟩

theorem Ext.attrs (s : Store) (attrs : List Name) (strict : Bool) :
    Ext s { s with attrs := attrs, strict := strict } :=
  ⟨rfl, rfl, rfl, rfl, rfl, rfl, rfl, ⟨[], by simp [Store.index]⟩, fun _ ser h => ⟨ser, h, rfl⟩⟩

theorem lookup_append_of_some {vars extra : List (Name × Series)} {name : Name} {ser : Series}
    (h : vars.lookup name = some ser) : (vars ++ extra).lookup name = some ser := by
  induction vars with
  | nil => simp [List.lookup] at h
  | cons q rest ih =>
    obtain ⟨m, x⟩ := q
    simp only [List.cons_append, List.lookup] at h ⊢
    cases hb : name == m <;> simp only [hb] at h ⊢
    · exact ih h
    · exact h

theorem Ext.addVar (s : Store) (name : Name) (ser : Series) :
    Ext s { s with vars := s.vars ++ [(name, ser)] } := by
  refine ⟨rfl, rfl, rfl, rfl, rfl, rfl, rfl, ⟨[name], by simp [Store.index]⟩, ?_⟩
  intro other ser1 h1
  exact ⟨ser1, lookup_append_of_some h1, rfl⟩

end Fsic.Container
