import FsicModel.Tools
/-
Helper lemmas for C19 (insertion-ordered dicts, the explicit form of the exported tables, row-wise decoding).
-/
set_option linter.unusedSimpArgs false
set_option linter.unusedVariables false
set_option linter.unusedSectionVars false
namespace Fsic.Tools

variable {K V : Type} [DecidableEq K]

/-- The keys of a dict, in insertion order. -/
def keys (d : List (K × V)) : List K := d.map Prod.fst

@[simp] theorem keys_nil : keys ([] : List (K × V)) = [] := rfl
@[simp] theorem keys_cons (p : K × V) (d : List (K × V)) : keys (p :: d) = p.1 :: keys d := rfl
@[simp] theorem keys_append (d e : List (K × V)) : keys (d ++ e) = keys d ++ keys e := by simp [keys]

theorem dictSet_fresh (d : List (K × V)) (k : K) (v : V) (h : k ∉ keys d) : dictSet d k v = d ++ [(k, v)] := by
  induction d with
  | nil => rfl
  | cons p d ih =>
    obtain ⟨k', v'⟩ := p
    simp only [keys_cons, List.mem_cons, not_or] at h
    have hne : ¬ k' = k := fun e => h.1 e.symm
    simp [dictSet, hne, ih h.2]

theorem keys_dictSet_mem (d : List (K × V)) (k : K) (v : V) (h : k ∈ keys d) : keys (dictSet d k v) = keys d := by
  induction d with
  | nil => simp at h
  | cons p d ih =>
    obtain ⟨k', v'⟩ := p
    by_cases e : k' = k
    · simp [dictSet, e]
    · have : k ∈ keys d := by
        simp only [keys_cons, List.mem_cons] at h
        rcases h with h | h
        · exact absurd h.symm e
        · exact h
      simp [dictSet, e, ih this]

theorem dictSet_length_mem (d : List (K × V)) (k : K) (v : V) (h : k ∈ keys d) : (dictSet d k v).length = d.length := by
  have := congrArg List.length (keys_dictSet_mem d k v h)
  simpa [keys] using this

theorem dictGet_dictSet (d : List (K × V)) (k k' : K) (v : V) :
    dictGet (dictSet d k v) k' = if k = k' then some v else dictGet d k' := by
  induction d with
  | nil => simp [dictSet, dictGet]
  | cons p d ih =>
    obtain ⟨k0, v0⟩ := p
    by_cases e : k0 = k
    · subst e
      by_cases e' : k0 = k' <;> simp [dictSet, dictGet, e']
    · by_cases e' : k0 = k'
      · subst e'
        have : ¬ k = k0 := fun x => e x.symm
        simp [dictSet, dictGet, e, this]
      · simp [dictSet, dictGet, e, e', ih]

theorem dictGet_not_mem (d : List (K × V)) (k : K) (h : k ∉ keys d) : dictGet d k = none := by
  induction d with
  | nil => rfl
  | cons p d ih =>
    obtain ⟨k0, v0⟩ := p
    simp only [keys_cons, List.mem_cons, not_or] at h
    have : ¬ k0 = k := fun e => h.1 e.symm
    simp [dictGet, this, ih h.2]

theorem dictGet_append (d e : List (K × V)) (k : K) :
    dictGet (d ++ e) k = match dictGet d k with | some v => some v | none => dictGet e k := by
  induction d with
  | nil => simp [dictGet]
  | cons p d ih =>
    obtain ⟨k0, v0⟩ := p
    by_cases h : k0 = k <;> simp [dictGet, h, ih]

theorem dictGet_map_mem (f : K → V) (ks : List K) (k : K) (h : k ∈ ks) :
    dictGet (ks.map fun k => (k, f k)) k = some (f k) := by
  induction ks with
  | nil => simp at h
  | cons k0 ks ih =>
    by_cases e : k0 = k
    · simp [dictGet, e]
    · have : k ∈ ks := by
        simp only [List.mem_cons] at h
        rcases h with h | h
        · exact absurd h.symm e
        · exact h
      simp [dictGet, e, ih this]

theorem keys_map_pair (f : K → V) (ks : List K) : keys (ks.map fun k => (k, f k)) = ks := by
  induction ks with
  | nil => rfl
  | cons k ks ih => simp [keys] at ih ⊢; exact ih

/-- A comprehension over distinct fresh keys just appends them in order. -/
theorem dictOf_fresh (f : K → V) (ks : List K) (d : List (K × V)) (hnd : ks.Nodup) (hf : ∀ k ∈ ks, k ∉ keys d) :
    dictOf f ks d = d ++ ks.map (fun k => (k, f k)) := by
  induction ks generalizing d with
  | nil => simp [dictOf]
  | cons k ks ih =>
    have hk : k ∉ keys d := hf k (by simp)
    rw [List.nodup_cons] at hnd
    simp only [dictOf, dictSet_fresh d k (f k) hk]
    rw [ih _ hnd.2]
    · simp
    · intro k' hk' hmem
      simp only [keys_append, keys_cons, keys_nil, List.mem_append, List.mem_singleton] at hmem
      rcases hmem with hmem | hmem
      · exact hf k' (by simp [hk']) hmem
      · subst hmem; exact hnd.1 hk'

theorem dictFromPairs_fresh (ps d : List (K × V)) (hnd : (keys ps).Nodup) (hf : ∀ k ∈ keys ps, k ∉ keys d) :
    dictFromPairs ps d = d ++ ps := by
  induction ps generalizing d with
  | nil => simp [dictFromPairs]
  | cons p ps ih =>
    obtain ⟨k, v⟩ := p
    simp only [keys_cons, List.nodup_cons] at hnd
    have hk : k ∉ keys d := hf k (by simp)
    simp only [dictFromPairs, dictSet_fresh d k v hk]
    rw [ih _ hnd.2]
    · simp
    · intro k' hk' hmem
      simp only [keys_append, keys_cons, keys_nil, List.mem_append, List.mem_singleton] at hmem
      rcases hmem with hmem | hmem
      · exact hf k' (by simp [hk']) hmem
      · subst hmem; exact hnd.1 hk'

theorem dictGet_dictFromPairs (ps d : List (K × V)) (k : K) (hnd : (keys ps).Nodup) :
    dictGet (dictFromPairs ps d) k = match dictGet ps k with | some v => some v | none => dictGet d k := by
  induction ps generalizing d with
  | nil => simp [dictFromPairs, dictGet]
  | cons p ps ih =>
    obtain ⟨k0, v0⟩ := p
    simp only [keys_cons, List.nodup_cons] at hnd
    simp only [dictFromPairs]
    rw [ih _ hnd.2, dictGet_dictSet]
    by_cases e : k0 = k
    · subst e
      simp [dictGet, dictGet_not_mem ps k0 hnd.1]
    · simp [dictGet, e]

/-- Length of a dict built from distinct pairs on top of `d`: the pairs whose key is new are appended. -/
theorem length_dictFromPairs (ps d : List (K × V)) (hnd : (keys ps).Nodup) :
    (dictFromPairs ps d).length = d.length + ((keys ps).filter (fun k => decide (k ∉ keys d))).length := by
  induction ps generalizing d with
  | nil => simp [dictFromPairs]
  | cons p ps ih =>
    obtain ⟨k, v⟩ := p
    simp only [keys_cons, List.nodup_cons] at hnd
    simp only [dictFromPairs]
    rw [ih _ hnd.2]
    by_cases hk : k ∈ keys d
    · rw [dictSet_length_mem d k v hk, keys_dictSet_mem d k v hk]
      simp [hk]
    · rw [dictSet_fresh d k v hk]
      have : (keys ps).filter (fun k' => decide (k' ∉ keys (d ++ [(k, v)]))) =
             (keys ps).filter (fun k' => decide (k' ∉ keys d)) := by
        apply List.filter_congr
        intro k' hk'
        have : k' ≠ k := fun e => hnd.1 (e ▸ hk')
        simp [this]
      rw [this]
      simp [hk]
      omega

theorem head_dictSet (d : List (K × V)) (p : K × V) (k : K) (v : V) :
    (dictSet (p :: d) k v).head?.map Prod.fst = some p.1 := by
  obtain ⟨k0, v0⟩ := p
  by_cases e : k0 = k <;> simp [dictSet, e]

theorem head_dictFromPairs (ps : List (K × V)) (d : List (K × V)) (p : K × V) :
    (dictFromPairs ps (p :: d)).head?.map Prod.fst = some p.1 := by
  induction ps generalizing d p with
  | nil => simp [dictFromPairs]
  | cons q ps ih =>
    obtain ⟨k, v⟩ := q
    obtain ⟨k0, v0⟩ := p
    simp only [dictFromPairs]
    by_cases e : k0 = k
    · simp only [dictSet, e, if_true]; exact ih _ _
    · simp only [dictSet, e, if_false]; exact ih _ _

theorem map_eq_self {α : Type} (f : α → α) (xs : List α) (h : ∀ x ∈ xs, f x = x) : xs.map f = xs := by
  induction xs with
  | nil => rfl
  | cons x xs ih =>
    simp only [List.map_cons]
    rw [h x (by simp), ih (fun y hy => h y (by simp [hy]))]

/-! ### Exported names -/

theorem exportNames_sub (names : List String) (b : Bool) : ∀ k ∈ exportNames names b, k ∈ names := by
  intro k hk
  unfold exportNames at hk
  cases b
  · simp at hk; exact hk.1
  · simpa using hk

theorem exportNames_nodup (names : List String) (b : Bool) (h : names.Nodup) : (exportNames names b).Nodup := by
  unfold exportNames
  cases b
  · simp only [Bool.false_eq_true, if_false]
    exact List.Nodup.sublist List.filter_sublist h
  · simpa using h

theorem mem_exportNames (names : List String) (b : Bool) (k : String) :
    k ∈ exportNames names b ↔ k ∈ names ∧ (b = true ∨ isInternal k = false) := by
  unfold exportNames
  cases b <;> simp

/-! ### Symbol rows -/

theorem tableToSymbols_map (dec : Decoder) (g : Symbol → PySymbol) (h : Symbol → PySymbol) (ss : List Symbol) :
    tableToSymbols dec (ss.map g) = some (ss.map h) ↔ ∀ s ∈ ss, decodeRow dec (g s) = some (h s) := by
  induction ss with
  | nil => simp [tableToSymbols]
  | cons s ss ih =>
    simp only [List.map_cons, tableToSymbols, List.mem_cons, forall_eq_or_imp]
    constructor
    · intro hh
      cases h1 : decodeRow dec (g s) with
      | none => simp [h1] at hh
      | some a =>
        cases h2 : tableToSymbols dec (ss.map g) with
        | none => simp [h1, h2] at hh
        | some b =>
          simp [h1, h2] at hh
          refine ⟨by rw [hh.1], ih.mp (by rw [h2, hh.2])⟩
    · intro ⟨h1, h2⟩
      rw [h1, ih.mpr h2]

end Fsic.Tools
