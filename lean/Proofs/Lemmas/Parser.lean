import FsicModel.Parser
set_option linter.unusedSimpArgs false
set_option linter.unusedVariables false
/-
Helper lemmas about M3 (`FsicModel/Parser.lean`).  Property theorems live in `Proofs/C03.lean`, `Proofs/C15.lean`.
-/
namespace Fsic.Parser

/-! ### Python-dict lemmas: `findSym`, `setSym`, keys in insertion order -/

/-- The keys of the dictionary, in insertion order. -/
def keys (d : List Symbol) : List (Option String) := d.map (·.name)

/-- Append `x` unless it is already there. -/
def pushNew {α} [DecidableEq α] (acc : List α) (x : α) : List α := if x ∈ acc then acc else acc ++ [x]

/-- Order of first appearance: each element once, at the position where it first occurs. -/
def firstApp {α} [DecidableEq α] (xs : List α) : List α := xs.foldl pushNew []

theorem keys_setSym (s : Symbol) (d : List Symbol) : keys (setSym s d) = pushNew (keys d) s.name := by
  induction d with
  | nil => simp [setSym, keys, pushNew]
  | cons x xs ih =>
    unfold setSym
    by_cases h : x.name = s.name
    · simp [h, keys, pushNew]
    · simp only [h, if_false]
      simp only [keys, List.map_cons] at ih ⊢
      rw [ih]
      unfold pushNew
      have hne : ¬ s.name = x.name := fun e => h e.symm
      by_cases hm : s.name ∈ xs.map (·.name)
      · simp [hm]
      · simp [hm, hne]

theorem findSym_setSym_same (s : Symbol) (d : List Symbol) : findSym s.name (setSym s d) = some s := by
  induction d with
  | nil => simp [setSym, findSym]
  | cons x xs ih =>
    unfold setSym
    by_cases h : x.name = s.name
    · simp [h, findSym]
    · simp [h, findSym, ih]

theorem findSym_setSym_other (s : Symbol) (d : List Symbol) (k : Option String) (hk : k ≠ s.name) :
    findSym k (setSym s d) = findSym k d := by
  induction d with
  | nil => simp [setSym, findSym]; intro h; exact absurd h.symm hk
  | cons x xs ih =>
    unfold setSym
    by_cases h : x.name = s.name
    · have : ¬ s.name = k := fun e => hk e.symm
      have h' : ¬ x.name = k := fun e => hk (e.symm.trans h)
      simp [h, findSym, this, h']
    · simp only [h, if_false, findSym, ih]

theorem findSym_some {k : Option String} {d : List Symbol} {x : Symbol} (h : findSym k d = some x) :
    x.name = k ∧ x ∈ d := by
  induction d with
  | nil => simp [findSym] at h
  | cons y ys ih =>
    unfold findSym at h
    by_cases hy : y.name = k
    · simp [hy] at h; subst h; exact ⟨hy, List.mem_cons_self⟩
    · simp [hy] at h; exact ⟨(ih h).1, List.mem_cons_of_mem _ (ih h).2⟩

theorem findSym_none_iff (k : Option String) (d : List Symbol) : findSym k d = none ↔ k ∉ keys d := by
  induction d with
  | nil => simp [findSym, keys]
  | cons y ys ih =>
    unfold findSym
    by_cases hy : y.name = k
    · simp [hy, keys]
    · have : ¬ k = y.name := fun e => hy e.symm
      simp only [hy, if_false, ih, keys, List.map_cons, List.mem_cons, this, false_or]

theorem findSym_of_mem_nodup {d : List Symbol} (hd : (keys d).Nodup) {x : Symbol} (hx : x ∈ d) :
    findSym x.name d = some x := by
  induction d with
  | nil => simp at hx
  | cons y ys ih =>
    simp only [keys, List.map_cons, List.nodup_cons] at hd
    unfold findSym
    rcases List.mem_cons.mp hx with rfl | hx'
    · simp
    · have : ¬ y.name = x.name := by
        intro e; apply hd.1; rw [e]; exact List.mem_map_of_mem hx'
      simp only [this, if_false]; exact ih hd.2 hx'

theorem setSym_self {d : List Symbol} {s : Symbol} (h : findSym s.name d = some s) : setSym s d = d := by
  induction d with
  | nil => simp [findSym] at h
  | cons y ys ih =>
    unfold findSym at h
    unfold setSym
    by_cases hy : y.name = s.name
    · simp [hy] at h; simp [hy, h]
    · simp [hy] at h; simp [hy, ih h]

theorem mem_setSym {s y : Symbol} {d : List Symbol} (h : y ∈ setSym s d) : y = s ∨ (y ∈ d ∧ y.name ≠ s.name) ∨ (y ∈ d ∧ ¬ (keys d).Nodup) := by
  induction d with
  | nil => simp [setSym] at h; exact Or.inl h
  | cons x xs ih =>
    unfold setSym at h
    by_cases hx : x.name = s.name
    · simp only [hx, if_true, List.mem_cons] at h
      rcases h with h | h
      · exact Or.inl h
      · by_cases hn : (keys (x :: xs)).Nodup
        · right; left
          refine ⟨List.mem_cons_of_mem _ h, ?_⟩
          simp only [keys, List.map_cons, List.nodup_cons] at hn
          intro e; apply hn.1; rw [hx, ← e]; exact List.mem_map_of_mem h
        · exact Or.inr (Or.inr ⟨List.mem_cons_of_mem _ h, hn⟩)
    · simp only [hx, if_false, List.mem_cons] at h
      rcases h with h | h
      · right; left; subst h; exact ⟨List.mem_cons_self, hx⟩
      · rcases ih h with h1 | ⟨h1, h2⟩ | ⟨h1, h2⟩
        · exact Or.inl h1
        · exact Or.inr (Or.inl ⟨List.mem_cons_of_mem _ h1, h2⟩)
        · right; right; refine ⟨List.mem_cons_of_mem _ h1, ?_⟩
          intro hn; apply h2
          simp only [keys, List.map_cons, List.nodup_cons] at hn; exact hn.2

/-! ### `pushNew` / `firstApp` -/

section FirstApp
variable {α : Type} [DecidableEq α]

theorem mem_pushNew (acc : List α) (x y : α) : y ∈ pushNew acc x ↔ y ∈ acc ∨ y = x := by
  unfold pushNew; by_cases h : x ∈ acc
  · simp [h]; intro e; subst e; exact h
  · simp [h]

theorem nodup_pushNew (acc : List α) (x : α) (h : acc.Nodup) : (pushNew acc x).Nodup := by
  unfold pushNew; by_cases hx : x ∈ acc
  · simp [hx, h]
  · simp only [hx, if_false]
    rw [List.nodup_append]
    refine ⟨h, by simp, ?_⟩
    intro a ha b hb; simp at hb; subst hb; intro e; subst e; exact hx ha

theorem mem_foldl_pushNew (xs acc : List α) (y : α) : y ∈ xs.foldl pushNew acc ↔ y ∈ acc ∨ y ∈ xs := by
  induction xs generalizing acc with
  | nil => simp
  | cons x xs ih => simp only [List.foldl_cons, ih, mem_pushNew, List.mem_cons, or_assoc]

theorem nodup_foldl_pushNew (xs acc : List α) (h : acc.Nodup) : (xs.foldl pushNew acc).Nodup := by
  induction xs generalizing acc with
  | nil => simpa
  | cons x xs ih => exact ih _ (nodup_pushNew acc x h)

theorem mem_firstApp (xs : List α) (y : α) : y ∈ firstApp xs ↔ y ∈ xs := by
  simp [firstApp, mem_foldl_pushNew]

theorem nodup_firstApp (xs : List α) : (firstApp xs).Nodup := nodup_foldl_pushNew xs [] List.nodup_nil

theorem foldl_pushNew_append (xs ys acc : List α) :
    (xs ++ ys).foldl pushNew acc = ys.foldl pushNew (xs.foldl pushNew acc) := List.foldl_append

theorem foldl_pushNew_foldl (xs a0 acc : List α) :
    (xs.foldl pushNew a0).foldl pushNew acc = xs.foldl pushNew (a0.foldl pushNew acc) := by
  induction xs generalizing a0 with
  | nil => rfl
  | cons x xs ih =>
    simp only [List.foldl_cons]
    rw [ih]
    congr 1
    by_cases hx : x ∈ a0
    · have h2 : x ∈ a0.foldl pushNew acc := (mem_foldl_pushNew a0 acc x).2 (Or.inr hx)
      simp [pushNew, hx, h2]
    · simp [pushNew, hx, List.foldl_append]

/-- Folding in a list that is already in first-appearance form is the same as folding in the raw list. -/
theorem foldl_pushNew_firstApp (xs acc : List α) :
    (firstApp xs).foldl pushNew acc = xs.foldl pushNew acc := by
  simpa [firstApp] using foldl_pushNew_foldl xs [] acc

end FirstApp

end Fsic.Parser
