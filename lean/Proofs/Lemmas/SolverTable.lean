import Proofs.Lemmas.SolverOutcome
/-
The converse of the forward theorems: an induction principle for the iteration loop (one case per way a pass can
end) and, from it, the *agreement table* — which (status, count, result) triples a `solve_t` call can produce at
all, for every interpretation, option set, span and period.
-/
namespace Fsic
variable {σ V : Type} (I : Interp σ V) (o : Opts) (t : Int)

/-- Induction principle for `loop`: to show `P fuel k (loop … fuel k u prev)` for all arguments it is enough to
    show it for the empty loop, for each way a pass can end the loop, and that it is inherited from the rest of
    the loop when a pass continues. -/
theorem loop_cases (P : Nat → Nat → LoopOut σ → Prop)
    (hzero : ∀ k u, P 0 k (.done u .failed (k - 1)))
    (hcont : ∀ fuel k r, P fuel (k + 1) r → P (fuel + 1) k r)
    (hraise : ∀ (fuel k : Nat) (u : σ), P (fuel + 1) k (.evalRaised u k))
    (hnf : ∀ (fuel k : Nat) (u : σ), o.errors = .raise → I.allFinite (I.check u t) = false →
      P (fuel + 1) k (.nonFinite u k))
    (hskip : ∀ (fuel k : Nat) (u : σ), o.errors = .skip → I.allFinite (I.check u t) = false →
      P (fuel + 1) k (.done u .skipped k))
    (hmax : ∀ (fuel k : Nat) (u : σ), (o.errors = .ignore ∨ o.errors = .replace) → (k : Int) = o.maxIter →
      I.allFinite (I.check u t) = false → P (fuel + 1) k (.done u .failed k))
    (hbad : ∀ (fuel k : Nat) (u : σ), o.errors = .invalid → I.allFinite (I.check u t) = false →
      P (fuel + 1) k (.badErrors u k))
    (hafter : ∀ (fuel k : Nat) (u : σ), ¬ (k : Int) < o.minIter → P (fuel + 1) k (.afterRaised u k))
    (hsolved : ∀ (fuel k : Nat) (u : σ), ¬ (k : Int) < o.minIter → P (fuel + 1) k (.done u .solved k)) :
    ∀ fuel k u prev, P fuel k (loop I o t fuel k u prev) := by
  intro fuel
  induction fuel with
  | zero => intro k u prev; simp only [loop]; exact hzero k u
  | succ fuel ih =>
    intro k u prev
    unfold loop
    split
    · exact hraise _ _ _
    · split
      · exact hcont _ _ _ (ih _ _ _)
      · split
        · rename_i hc
          split
          · rename_i he; exact hnf _ _ _ he hc
          · rename_i he; exact hskip _ _ _ he hc
          · rename_i he
            split
            · rename_i hk; exact hmax _ _ _ (Or.inl he) hk hc
            · exact hcont _ _ _ (ih _ _ _)
          · rename_i he
            split
            · rename_i hk; exact hmax _ _ _ (Or.inr he) hk hc
            · exact hcont _ _ _ (ih _ _ _)
          · rename_i he; exact hbad _ _ _ he hc
        · split
          · exact hcont _ _ _ (ih _ _ _)
          · rename_i hm
            split
            · split
              · exact hafter _ _ _ hm
              · exact hsolved _ _ _ hm
            · exact hcont _ _ _ (ih _ _ _)

/-- Where a loop that starts at pass `k` with `fuel` passes left can end, and under which options. -/
def LoopBound (o : Opts) (fuel k : Nat) : LoopOut σ → Prop
  | .done _ .solved k' => k ≤ k' ∧ k' < k + fuel ∧ ¬ (k' : Int) < o.minIter
  | .done _ .failed k' =>
      k' = k + fuel - 1 ∨
      (k ≤ k' ∧ k' < k + fuel ∧ (k' : Int) = o.maxIter ∧ (o.errors = .ignore ∨ o.errors = .replace))
  | .done _ .skipped k' => k ≤ k' ∧ k' < k + fuel ∧ o.errors = .skip
  | .done _ _ _ => False
  | .evalRaised _ k' => k ≤ k' ∧ k' < k + fuel
  | .nonFinite _ k' => k ≤ k' ∧ k' < k + fuel ∧ o.errors = .raise
  | .afterRaised _ k' => k ≤ k' ∧ k' < k + fuel ∧ ¬ (k' : Int) < o.minIter
  | .badErrors _ k' => k ≤ k' ∧ k' < k + fuel ∧ o.errors = .invalid

theorem loop_bound (fuel k : Nat) (u : σ) (prev : V) : LoopBound o fuel k (loop I o t fuel k u prev) := by
  refine loop_cases I o t (fun fuel k r => LoopBound o fuel k r) ?_ ?_ ?_ ?_ ?_ ?_ ?_ ?_ ?_ fuel k u prev
  · intro k u; simp [LoopBound]
  · intro fuel k r h
    cases r with
    | done u s k' =>
      cases s <;> simp only [LoopBound] at h ⊢
      · obtain ⟨a, b, c⟩ := h; exact ⟨by omega, by omega, c⟩
      · rcases h with a | ⟨a, b, c, d⟩
        · left; omega
        · right; exact ⟨by omega, by omega, c, d⟩
      · obtain ⟨a, b, c⟩ := h; exact ⟨by omega, by omega, c⟩
    | evalRaised u k' => simp only [LoopBound] at h ⊢; omega
    | nonFinite u k' => simp only [LoopBound] at h ⊢; obtain ⟨a, b, c⟩ := h; exact ⟨by omega, by omega, c⟩
    | afterRaised u k' => simp only [LoopBound] at h ⊢; obtain ⟨a, b, c⟩ := h; exact ⟨by omega, by omega, c⟩
    | badErrors u k' => simp only [LoopBound] at h ⊢; obtain ⟨a, b, c⟩ := h; exact ⟨by omega, by omega, c⟩
  · intro fuel k u; simp only [LoopBound]; omega
  · intro fuel k u he _; exact ⟨Nat.le_refl _, by omega, he⟩
  · intro fuel k u he _; exact ⟨Nat.le_refl _, by omega, he⟩
  · intro fuel k u he hk _; exact Or.inr ⟨Nat.le_refl _, by omega, hk, he⟩
  · intro fuel k u he _; exact ⟨Nat.le_refl _, by omega, he⟩
  · intro fuel k u hm; exact ⟨Nat.le_refl _, by omega, hm⟩
  · intro fuel k u hm; exact ⟨Nat.le_refl _, by omega, hm⟩

/-- **The agreement table.**  Every (stamp, result) pair one `solve_t` call can produce: which status goes with which
    return value or exception, what the recorded count can be, and which options it needs. -/
def Agree (o : Opts) : Option (Status × Int) → Result → Prop
  | some (.solved, k), .ret true => 1 ≤ k ∧ k ≤ o.maxIter ∧ o.minIter ≤ k
  | some (.failed, k), .ret false => k = o.maxIter.toNat ∧ o.failRaise = false
  | some (.failed, k), .nonConvergence => k = o.maxIter.toNat ∧ o.failRaise = true
  | some (.skipped, k), .ret false => 1 ≤ k ∧ k ≤ o.maxIter ∧ o.errors = .skip
  | some (.error, k), .solutionError _ => 1 ≤ k ∧ k ≤ o.maxIter ∧ o.errors = .raise
  | none, .valueError => o.minIter > o.maxIter
  | none, .indexError => ¬ o.minIter > o.maxIter
  | none, .solutionError _ => ¬ o.minIter > o.maxIter
  | none, .badErrorsArg => o.errors = .invalid
  | _, _ => False

theorem finishOutcome_agrees (l : LoopOut σ) (h : LoopBound o o.maxIter.toNat 1 l) (hm : ¬ o.minIter > o.maxIter) :
    Agree o (finishOutcome o l).2.1 (finishOutcome o l).2.2 := by
  cases l with
  | done u s k =>
    cases s <;> simp only [LoopBound] at h
    · obtain ⟨a, b, c⟩ := h
      simp only [finishOutcome, reduceCtorEq, false_and, if_false, decide_true, Agree]
      omega
    · simp only [finishOutcome, true_and]
      have hk : (k : Int) = ((o.maxIter.toNat : Nat) : Int) := by
        rcases h with a | ⟨a, b, c, d⟩ <;> omega
      by_cases hf : o.failRaise = true
      · simp only [hf, if_true, Agree]; exact ⟨hk, trivial⟩
      · simp only [hf, if_false, reduceCtorEq, decide_false, Agree]; exact ⟨hk, trivial⟩
    · obtain ⟨a, b, c⟩ := h
      simp only [finishOutcome, reduceCtorEq, false_and, if_false, decide_false, Agree]
      exact ⟨by omega, by omega, c⟩
  | evalRaised u k =>
    simp only [LoopBound] at h
    by_cases he : o.errors = .raise
    · simp only [finishOutcome, he, if_true, Agree]; exact ⟨by omega, by omega, trivial⟩
    · simp only [finishOutcome, he, if_false, Agree]; exact hm
  | nonFinite u k =>
    simp only [LoopBound] at h
    obtain ⟨a, b, c⟩ := h
    simp only [finishOutcome, Agree]; exact ⟨by omega, by omega, c⟩
  | afterRaised u k => simp only [finishOutcome, Agree]; exact hm
  | badErrors u k =>
    simp only [LoopBound] at h
    simp only [finishOutcome, Agree]; exact h.2.2

theorem outcome_agrees (n : Nat) (u : σ) :
    Agree o (outcomeOf I o n t u).2.1 (outcomeOf I o n t u).2.2 := by
  unfold outcomeOf
  split
  · rename_i h; simpa [Agree] using h
  · rename_i hm
    split
    · simpa [Agree] using hm
    · split
      · simpa [Agree] using hm
      · split
        · simpa [Agree] using hm
        · unfold coreOutcome
          split
          · simpa [Agree] using hm
          · split
            · simpa [Agree] using hm
            · exact finishOutcome_agrees o _ (loop_bound I o t _ _ _ _) hm

/-- A model that never reports a non-finite check value (the linker's composite interpretation is one) can end its loop
    only by converging, by running out of passes, or by an exception from a pass or the post-hook. -/
def LoopBoundFinite (o : Opts) (fuel k : Nat) : LoopOut σ → Prop
  | .done _ .solved k' => k ≤ k' ∧ k' < k + fuel ∧ ¬ (k' : Int) < o.minIter
  | .done _ .failed k' => k' = k + fuel - 1
  | .done _ _ _ => False
  | .evalRaised _ k' => k ≤ k' ∧ k' < k + fuel
  | .afterRaised _ k' => k ≤ k' ∧ k' < k + fuel
  | .nonFinite _ _ => False
  | .badErrors _ _ => False

theorem loop_bound_finite (hfin : ∀ v, I.allFinite v = true) (fuel k : Nat) (u : σ) (prev : V) :
    LoopBoundFinite o fuel k (loop I o t fuel k u prev) := by
  refine loop_cases I o t (fun fuel k r => LoopBoundFinite o fuel k r) ?_ ?_ ?_ ?_ ?_ ?_ ?_ ?_ ?_ fuel k u prev
  · intro k u; simp [LoopBoundFinite]
  · intro fuel k r h
    cases r with
    | done u s k' =>
      cases s <;> simp only [LoopBoundFinite] at h ⊢
      · obtain ⟨a, b, c⟩ := h; exact ⟨by omega, by omega, c⟩
      · omega
    | evalRaised u k' => simp only [LoopBoundFinite] at h ⊢; omega
    | nonFinite u k' => simp only [LoopBoundFinite] at h
    | afterRaised u k' => simp only [LoopBoundFinite] at h ⊢; omega
    | badErrors u k' => simp only [LoopBoundFinite] at h
  · intro fuel k u; simp only [LoopBoundFinite]; omega
  · intro fuel k u _ hc; rw [hfin] at hc; cases hc
  · intro fuel k u _ hc; rw [hfin] at hc; cases hc
  · intro fuel k u _ _ hc; rw [hfin] at hc; cases hc
  · intro fuel k u _ hc; rw [hfin] at hc; cases hc
  · intro fuel k u hm; simp only [LoopBoundFinite]; omega
  · intro fuel k u hm; exact ⟨Nat.le_refl _, by omega, hm⟩

end Fsic
