import Proofs.Lemmas.FortranWrapper
set_option linter.unusedSimpArgs false
set_option linter.unusedVariables false
/-
`FortranEngine.solve` (template `solve` + the wrapper's zip loop) against M1's period loop `Fsic.solveList` —
helper for `Proofs/C07.lean`.
-/
namespace Fsic.Fortran
variable {σ V : Type}

/-- "Values stay finite", for a whole `solve`: a set of states closed under evaluation passes and offset copies at
    every period, on which all check and endogenous values are finite. -/
structure GlobalRegime (E : Engine σ V) (Inv : σ → Prop) : Prop where
  closed : ∀ u i, Inv u → Inv (E.body u i)
  copy_closed : ∀ u d s, Inv u → Inv (E.copyEndo u d s)
  check_finite : ∀ u i, Inv u → E.allFinite (E.check u i) = true
  endo_finite : ∀ u i, Inv u → E.endoFinite u i = true

theorem GlobalRegime.at {E : Engine σ V} {Inv : σ → Prop} (G : GlobalRegime E Inv) (i : Nat) :
    FiniteRegime E i Inv :=
  ⟨fun u h => G.closed u i h, fun u h => G.check_finite u i h, fun u h => G.endo_finite u i h⟩

theorem floop_inv (E : Engine σ V) (c : Cfg) (index : Nat) (Inv : σ → Prop) (G : GlobalRegime E Inv)
    (hev : ∀ u, evaluate E u index = (E.body u index, 0)) :
    ∀ (fuel k : Nat) (u : σ) (cur : V) (code : Int), Inv u → Inv (floop E c index fuel k u cur code).state := by
  intro fuel
  induction fuel with
  | zero => intro k u cur code h; simpa [floop] using h
  | succ fuel ih =>
    intro k u cur code h
    have hu' := G.closed u index h
    have hendo := G.endo_finite _ index hu'
    unfold floop
    simp only [hev u, ne_eq, not_true_eq_false, if_false, hendo, Bool.true_eq_false, false_and]
    split
    · exact ih _ _ _ _ hu'
    · split
      · exact hu'
      · exact ih _ _ _ _ hu'

/-- What one period of the compiled `solve` does, next to M1's `solve_t` on the same world (finite regime). -/
inductive PeriodCase (E : Engine σ V) (o : Opts) (p : Nat) (w : World σ) (r : Out σ) : Prop where
  | rejected (hc : r.code = 13 ∨ r.code = 14 ∨ r.code = 41 ∨ r.code = 42) (hs : r.state = w.user)
      (hv : r.converged = false) (hm : Fsic.solveT (toInterp E) o E.ncols p w = (w, .indexError))
  | solved (hc : r.code = 0) (hv : r.converged = true)
      (hm : Fsic.solveT (toInterp E) o E.ncols p w
              = (stamp (withUser w r.state) E.ncols p .solved r.iteration, .ret true))
  | failed (hc : r.code = 0) (hv : r.converged = false)
      (hm : Fsic.solveT (toInterp E) o E.ncols p w
              = (stamp (withUser w r.state) E.ncols p .failed r.iteration,
                 if o.failRaise = true then .nonConvergence else .ret false))

theorem engine_period (E : Engine σ V) (o : Opts) (ec : Int) (p : Nat) (hp : p < E.ncols) (w : World σ)
    (Inv : σ → Prop) (G : GlobalRegime E Inv) (hu : Inv w.user) (h0 : ¬ o.minIter > o.maxIter) :
    PeriodCase E o p w (Fortran.solveT E (cfgOf o ec) w.user ((p : Int) + 1)) ∧
      Inv (Fortran.solveT E (cfgOf o ec) w.user ((p : Int) + 1)).state := by
  have hnt : normT E.ncols (p : Int) = p := by unfold normT; simp; omega
  have hio : indexOf E.ncols ((p : Int) + 1) = (p : Int) + 1 := by
    unfold indexOf; have : ¬ ((p : Int) + 1 < 1) := by omega
    simp [this]
  have hla : (toInterp E).lags = E.lags := rfl
  have hle : (toInterp E).leads = E.leads := rfl
  unfold Fortran.solveT
  rw [hio]
  by_cases hinf : (p : Int) - (E.lags : Int) < 0 ∨ (p : Int) + (E.leads : Int) ≥ E.ncols
  · -- not enough lags / leads: code 13 or 14, nothing happens; Python raises IndexError
    have hcode := indexCode_infeasible E ((p : Int) + 1) (by omega) (by omega) (by omega)
    have hne : indexCode E ((p : Int) + 1) ≠ 0 := by rcases hcode with h | h <;> rw [h] <;> decide
    simp only [hne, ne_eq, not_false_eq_true, if_true]
    refine ⟨PeriodCase.rejected ?_ rfl rfl ?_, hu⟩
    · rcases hcode with h | h
      · exact Or.inl h
      · exact Or.inr (Or.inl h)
    · unfold Fsic.solveT; simp [h0, hnt, hla, hle, hinf]
  have hfeas : (E.lags : Int) < (p : Int) + 1 ∧ (p : Int) + 1 ≤ (E.ncols : Int) - E.leads := by omega
  have hcode : indexCode E ((p : Int) + 1) = 0 := indexCode_feasible E _ hfeas.1 hfeas.2
  simp only [hcode, ne_eq, not_true_eq_false, if_false]
  have htn : ((p : Int) + 1).toNat = p + 1 := by omega
  rw [htn]
  unfold solveTCore
  have hcast : ((p + 1 : Nat) : Int) = (p : Int) + 1 := by omega
  simp only [cfgOf, hcast]
  have hMsolve : ∀ (c1 : ¬ (o.offset ≠ 0 ∧ (p : Int) + o.offset < 0)) (c2 : ¬ (o.offset ≠ 0 ∧ (p : Int) + o.offset ≥ E.ncols)),
      Fsic.solveT (toInterp E) o E.ncols (p : Int) w
        = solveCore (toInterp E) o E.ncols (p : Int) w (seed (toInterp E) o (p : Int) w.user) := by
    intro c1 c2
    unfold Fsic.solveT
    simp only [h0, if_false, hnt, hla, hle, hinf, c1, c2]
  by_cases h1 : o.offset ≠ 0 ∧ (p : Int) + 1 + o.offset < 1
  · rw [if_pos h1]
    refine ⟨PeriodCase.rejected (Or.inr (Or.inr (Or.inl rfl))) rfl rfl ?_, hu⟩
    have : o.offset ≠ 0 ∧ (p : Int) + o.offset < 0 := ⟨h1.1, by omega⟩
    unfold Fsic.solveT; simp [h0, hnt, hla, hle, hinf, this]
  rw [if_neg h1]
  by_cases h2 : o.offset ≠ 0 ∧ (p : Int) + 1 + o.offset > E.ncols
  · rw [if_pos h2]
    refine ⟨PeriodCase.rejected (Or.inr (Or.inr (Or.inr rfl))) rfl rfl ?_, hu⟩
    have a : ¬ (o.offset ≠ 0 ∧ (p : Int) + o.offset < 0) := fun h => h1 ⟨h.1, by omega⟩
    have b : o.offset ≠ 0 ∧ (p : Int) + o.offset ≥ E.ncols := ⟨h2.1, by omega⟩
    unfold Fsic.solveT; simp [h0, hnt, hla, hle, hinf, a, b]
  rw [if_neg h2]
  -- accepted: the seeded state is the same on both sides
  have m1 : ¬ (o.offset ≠ 0 ∧ (p : Int) + o.offset < 0) := fun h => h1 ⟨h.1, by omega⟩
  have m2 : ¬ (o.offset ≠ 0 ∧ (p : Int) + o.offset ≥ E.ncols) := fun h => h2 ⟨h.1, by omega⟩
  have hM := hMsolve m1 m2
  have hseedeq : (if o.offset ≠ 0 then E.copyEndo w.user (p + 1) ((p : Int) + 1 + o.offset).toNat else w.user)
      = seed (toInterp E) o (p : Int) w.user := by
    unfold seed
    by_cases hz : o.offset ≠ 0
    · rw [if_pos hz, if_pos hz]
      show _ = E.copyEndo w.user (normT E.ncols (p : Int) + 1).toNat (normT E.ncols (p : Int) + o.offset + 1).toNat
      rw [hnt]
      have e1 : ((p : Int) + 1).toNat = p + 1 := by omega
      have e2 : ((p : Int) + o.offset + 1).toNat = ((p : Int) + 1 + o.offset).toNat := by congr 1; omega
      rw [e1, e2]
    · rw [if_neg hz, if_neg hz]
  rw [hseedeq]
  have hu1 : Inv (seed (toInterp E) o (p : Int) w.user) := by
    unfold seed; split
    · exact G.copy_closed _ _ _ hu
    · exact hu
  generalize seed (toInterp E) o (p : Int) w.user = u1 at hu1 hM ⊢
  have hfin1 : E.allFinite (E.check u1 (p + 1)) = true := G.check_finite u1 _ hu1
  simp only [hfin1, Bool.true_eq_false, and_false, if_false]
  have hidx : p + 1 = (normT E.ncols (p : Int) + 1).toNat := by rw [hnt]; omega
  have hev : ∀ u, evaluate E u ((p + 1 : Nat) : Int) = (E.body u (p + 1), 0) :=
    fun u => evaluate_ok E u (p + 1) (by rw [hcast]; exact hcode) (by omega)
  have hloop := floop_eq_loop E ⟨o.minIter, o.maxIter, o.offset, ec, failureOption o.failRaise⟩ o (p : Int)
    (p + 1) Inv (G.at (p + 1)) rfl hidx hev o.maxIter.toNat 1 u1 (E.check u1 (p + 1)) 0 (Nat.le_refl 1) hu1 hfin1
  have hz : (if o.maxIter.toNat = 0 then (0 : Int) else 0) = 0 := by split <;> rfl
  rw [hz] at hloop
  have hinv := floop_inv E ⟨o.minIter, o.maxIter, o.offset, ec, failureOption o.failRaise⟩ (p + 1) Inv G hev
    o.maxIter.toNat 1 u1 (E.check u1 (p + 1)) 0 hu1
  refine ⟨?_, hinv⟩
  -- M1 on the same period
  have hchk : (toInterp E).check u1 (p : Int) = E.check u1 (p + 1) := by
    show E.check u1 (normT E.ncols (p : Int) + 1).toNat = _
    rw [← hidx]
  have hM2 : Fsic.solveT (toInterp E) o E.ncols (p : Int) w
      = finish o E.ncols (p : Int) w (loop (toInterp E) o (p : Int) o.maxIter.toNat 1 u1 (E.check u1 (p + 1))) := by
    rw [hM]
    unfold solveCore
    have hal : (toInterp E).allFinite = E.allFinite := rfl
    have hbef : (toInterp E).before o u1 (p : Int) = (u1, false) := rfl
    simp only [hchk, hal, hfin1, Bool.true_eq_false, and_false, if_false, hbef]
  cases hl : loop (toInterp E) o (p : Int) o.maxIter.toNat 1 u1 (E.check u1 (p + 1)) with
  | done u s k =>
    rw [hl] at hloop hM2
    cases s with
    | solved =>
      simp only [asOut, Option.some.injEq] at hloop
      rw [← hloop]
      exact PeriodCase.solved rfl rfl (by rw [hM2]; simp [finish])
    | failed =>
      simp only [asOut, Option.some.injEq] at hloop
      rw [← hloop]
      exact PeriodCase.failed rfl rfl (by rw [hM2]; by_cases hf : o.failRaise = true <;> simp [finish, hf])
    | unsolved => simp [asOut] at hloop
    | error => simp [asOut] at hloop
    | skipped => simp [asOut] at hloop
  | evalRaised u k => rw [hl] at hloop; simp [asOut] at hloop
  | nonFinite u k => rw [hl] at hloop; simp [asOut] at hloop
  | afterRaised u k => rw [hl] at hloop; simp [asOut] at hloop
  | badErrors u k => rw [hl] at hloop; simp [asOut] at hloop

/-! ### The period loop -/

/-- M1's `solve` results read as the wrapper's. -/
def ofSolveResult : SolveResult → WSolveResult
  | .ok ps fs => .ok ps fs
  | .err r _ _ => .err (ofResult r)
  | .keyError => .err .keyError
  | .emptySpan => .err .solutionError
  | .spanIndexError => .err .indexError

/-- How `FortranEngine.solve` turns the outcome of its zip loop into its result, given what was accumulated. -/
def finishW (accP : List Nat) (accF : List Bool) (ps : List Nat) (x : World σ × Option WResult × List Bool) :
    World σ × WSolveResult :=
  match x with
  | (w', none, fs) => (w', .ok (accP.reverse ++ ps) (accF.reverse ++ fs))
  | (w', some e, _) => (w', .err e)

theorem stamp_user (w : World σ) (n : Nat) (t : Int) (s : Status) (k : Int) : (stamp w n t s k).user = w.user := by
  unfold stamp; cases pyIndex n t <;> rfl

theorem withUser_stamp (w : World σ) (n : Nat) (t : Int) (s : Status) (k : Int) (u : σ) :
    withUser (stamp w n t s k) u = stamp (withUser w u) n t s k := by
  unfold stamp; cases pyIndex n t <;> rfl

theorem withUser_withUser (w : World σ) (a b : σ) : withUser (withUser w a) b = withUser w b := rfl

theorem withUser_self (w : World σ) : withUser w w.user = w := by cases w; rfl

theorem finishW_consFlag (accP : List Nat) (accF : List Bool) (p : Nat) (b : Bool) (rest : List Nat)
    (x : World σ × Option WResult × List Bool) :
    finishW accP accF (p :: rest) (consFlag b x) = finishW (p :: accP) (b :: accF) rest x := by
  obtain ⟨w', e, fs⟩ := x
  cases e <;> simp [finishW, consFlag, List.append_assoc]

theorem solveList_core (E : Engine σ V) (o : Opts) (ec : Int) (h0 : ¬ o.minIter > o.maxIter)
    (Inv : σ → Prop) (G : GlobalRegime E Inv) :
    ∀ (ps : List Nat) (w : World σ) (accP : List Nat) (accF : List Bool),
      (∀ p ∈ ps, p < E.ncols) → Inv w.user →
      ((solveList (toInterp E) o E.ncols ps w accP accF).1,
        ofSolveResult (solveList (toInterp E) o E.ncols ps w accP accF).2)
        = finishW accP accF ps
            (dispatchList o E.ncols
              (ps.zip (Fortran.solve E (cfgOf o ec) (ps.map fun (p : Nat) => (p : Int) + 1) w.user).2)
              (withUser w (Fortran.solve E (cfgOf o ec) (ps.map fun (p : Nat) => (p : Int) + 1) w.user).1)) := by
  intro ps
  induction ps with
  | nil =>
    intro w accP accF _ _
    simp [solveList, Fortran.solve, dispatchList, finishW, ofSolveResult, withUser_self]
  | cons p rest ih =>
    intro w accP accF hps hu
    have hp : p < E.ncols := hps p (by simp)
    have hrest : ∀ q ∈ rest, q < E.ncols := fun q hq => hps q (by simp [hq])
    obtain ⟨hcase, hinv⟩ := engine_period E o ec p hp w Inv G hu h0
    simp only [List.map_cons]
    generalize hr : Fortran.solveT E (cfgOf o ec) w.user ((p : Int) + 1) = r at hcase hinv
    unfold Fortran.solve
    rw [hr]
    unfold solveList
    cases hcase with
    | rejected hc hs hv hm =>
      rw [hm]
      have hne : r.code ≠ 0 := by rcases hc with h | h | h | h <;> rw [h] <;> decide
      have h22 : r.code ≠ cNumSkip := by rcases hc with h | h | h | h <;> rw [h] <;> decide
      have hst : stops (cfgOf o ec) r = true := by simp [stops, hne, h22]
      simp only [hst, if_true, List.zip_cons_cons, periodOut, hs, withUser_self]
      unfold dispatchList
      have hcv : (decide (r.code = 0) && r.converged) = false := by simp [hne]
      rcases hc with h | h | h | h <;>
        simp [hcv, h, finishW, ofSolveResult, ofResult]
    | solved hc hv hm =>
      rw [hm]
      have hst : stops (cfgOf o ec) r = false := by simp [stops, hc, hv]
      simp only [hst, Bool.false_eq_true, if_false, List.zip_cons_cons, periodOut]
      unfold dispatchList
      have hcv : (decide (r.code = 0) && r.converged) = true := by simp [hc, hv]
      simp only [hcv, if_true]
      rw [finishW_consFlag]
      have e : (stamp (withUser w r.state) E.ncols p .solved r.iteration).user = r.state := by
        rw [stamp_user]; rfl
      have := ih (stamp (withUser w r.state) E.ncols p .solved r.iteration) (p :: accP) (true :: accF) hrest
        (by rw [e]; exact hinv)
      rw [e, withUser_stamp, withUser_withUser] at this
      exact this
    | failed hc hv hm =>
      rw [hm]
      by_cases hf : o.failRaise = true
      · have hst : stops (cfgOf o ec) r = true := by simp [stops, hc, hv, cfgOf, failureOption, hf, fcRaise]
        simp only [hst, if_true, List.zip_cons_cons, periodOut, hf]
        unfold dispatchList
        have hcv : (decide (r.code = 0) && r.converged) = false := by simp [hv]
        simp only [hcv, Bool.false_eq_true, if_false, hc, if_true, hf]
        simp [finishW, ofSolveResult, ofResult, withUser_stamp, withUser_withUser, hv]
      · have hf' : o.failRaise = false := by simpa using hf
        have hst : stops (cfgOf o ec) r = false := by simp [stops, hc, hv, cfgOf, failureOption, hf', fcRaise]
        simp only [hst, Bool.false_eq_true, if_false, List.zip_cons_cons, periodOut, hf']
        unfold dispatchList
        have hcv : (decide (r.code = 0) && r.converged) = false := by simp [hv]
        simp only [hcv, Bool.false_eq_true, if_false, hc, if_true, hf', hv, Bool.and_false, decide_true]
        rw [finishW_consFlag]
        have e : (stamp (withUser w r.state) E.ncols p .failed r.iteration).user = r.state := by
          rw [stamp_user]; rfl
        have := ih (stamp (withUser w r.state) E.ncols p .failed r.iteration) (p :: accP) (false :: accF) hrest
          (by rw [e]; exact hinv)
        rw [e, withUser_stamp, withUser_withUser] at this
        exact this


/-! ### Periods not reached keep their record -/

theorem stamp_frame (w : World σ) (n : Nat) (t : Int) (s : Status) (k : Int) (j : Nat)
    (h : pyIndex n t ≠ some j) :
    (stamp w n t s k).status[j]? = w.status[j]? ∧ (stamp w n t s k).iters[j]? = w.iters[j]? := by
  unfold stamp
  cases hp : pyIndex n t with
  | none => exact ⟨rfl, rfl⟩
  | some i =>
    have hij : i ≠ j := fun e => h (by rw [hp, e])
    exact ⟨setAt_getElem?_ne _ i j _ hij, setAt_getElem?_ne _ i j _ hij⟩

theorem pyIndex_nat_ne (n p j : Nat) (hp : p < n) (hne : p ≠ j) : pyIndex n (p : Int) ≠ some j := by
  unfold pyIndex
  have h0 : (0 : Int) ≤ (p : Int) := Int.natCast_nonneg p
  have h1 : ((p : Nat) : Int) < (n : Int) := by exact_mod_cast hp
  simp only [h0, h1, if_true]
  intro e
  apply hne
  have := Option.some.inj e
  simpa using this

/-- The wrapper's zip loop writes `status` / `iterations` only at the positions it is handed. -/
theorem dispatchList_frame (o : Opts) (n : Nat) (j : Nat) :
    ∀ (l : List (Nat × PeriodOut)) (w : World σ), (∀ e ∈ l, e.1 ≠ j) → (∀ e ∈ l, e.1 < n) →
      (dispatchList o n l w).1.status[j]? = w.status[j]? ∧ (dispatchList o n l w).1.iters[j]? = w.iters[j]? := by
  intro l
  induction l with
  | nil => intro w _ _; exact ⟨rfl, rfl⟩
  | cons e rest ih =>
    intro w hj hn
    obtain ⟨p, r⟩ := e
    have hp := pyIndex_nat_ne n p j (hn (p, r) (by simp)) (hj (p, r) (by simp))
    have hrest := fun w' => ih w' (fun e he => hj e (by simp [he])) (fun e he => hn e (by simp [he]))
    have hs := fun s k => stamp_frame w n (p : Int) s k j hp
    unfold dispatchList
    split
    · have := hrest (stamp w n p .solved r.iteration)
      simp only [consFlag]
      exact ⟨this.1.trans (hs _ _).1, this.2.trans (hs _ _).2⟩
    · split
      · split
        · exact hs _ _
        · have := hrest (stamp w n p .failed r.iteration)
          simp only [consFlag]
          exact ⟨this.1.trans (hs _ _).1, this.2.trans (hs _ _).2⟩
      · split
        · exact hs _ _
        · split
          · exact ⟨rfl, rfl⟩
          · split
            · exact ⟨rfl, rfl⟩
            · split
              · exact ⟨rfl, rfl⟩
              · split
                · have := hrest (stamp w n p .skipped r.iteration)
                  simp only [consFlag]
                  exact ⟨this.1.trans (hs _ _).1, this.2.trans (hs _ _).2⟩
                · split <;> exact ⟨rfl, rfl⟩

/-- Once an entry raises, the entries after it are never looked at. -/
theorem dispatchList_stops (o : Opts) (n : Nat) (l2 : List (Nat × PeriodOut)) :
    ∀ (l1 : List (Nat × PeriodOut)) (w : World σ) (e : WResult),
      (dispatchList o n l1 w).2.1 = some e → dispatchList o n (l1 ++ l2) w = dispatchList o n l1 w := by
  intro l1
  induction l1 with
  | nil => intro w e h; simp [dispatchList] at h
  | cons x rest ih =>
    intro w e h
    obtain ⟨p, r⟩ := x
    simp only [List.cons_append]
    unfold dispatchList at h ⊢
    split
    · rename_i hc
      simp only [hc, if_true, consFlag] at h
      rw [ih _ e h]
    · rename_i hc
      simp only [hc, if_false] at h
      split
      · rename_i h0
        simp only [h0, if_true] at h
        split
        · rfl
        · rename_i hf
          simp only [hf, if_false, consFlag] at h
          rw [ih _ e h]
      · rename_i h0
        simp only [h0, if_false] at h
        split
        · rfl
        · split
          · rfl
          · split
            · rfl
            · split
              · rfl
              · split
                · rename_i h1 h2 h3 h4 h5
                  simp only [h1, h2, h3, h4, h5, if_false, if_true, consFlag] at h
                  rw [ih _ e h]
                · split <;> rfl


end Fsic.Fortran
