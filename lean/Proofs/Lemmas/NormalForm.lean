import Proofs.Lemmas.Tokens
import Proofs.Lemmas.Format
set_option linter.unusedSimpArgs false
set_option linter.unusedVariables false
/-
From token lists to what `parse_equation` does with their rendered text: the template (every term replaced by
`{}`), the text outside the terms, and `str.format` over that template.
-/
namespace Fsic.Lx

/-- The template text of one token: `{}` for a term, the token itself otherwise. -/
def Tok.hole (t : Tok) : List Char := if t.abs.isSome then ['{', '}'] else t.render

def holesAll : List Tok → List Char
  | [] => []
  | t :: ts => t.hole ++ holesAll ts

/-- What is left of a token once the matched terms are removed. -/
def Tok.out (t : Tok) : List Char := if t.abs.isSome then [] else t.render

def outsideAll : List Tok → List Char
  | [] => []
  | t :: ts => t.out ++ outsideAll ts

theorem Wf.all_wf : ∀ {ts : List Tok} {pw : Bool}, Wf pw ts → ∀ t ∈ ts, t.wf
  | [], _, _ => by simp
  | t :: ts, pw, ⟨hw, _, _, hr⟩ => by
    intro x hx
    rcases List.mem_cons.mp hx with rfl | hx
    · exact hw
    · exact Wf.all_wf hr x hx

theorem render_ne_nil (t : Tok) (hw : t.wf) (ht : t.abs.isSome = true) : t.render ≠ [] := by
  cases t with
  | chunk cs => simp [Tok.abs] at ht
  | lt => simp [Tok.abs] at ht
  | var n ix => obtain ⟨⟨c, cs, rfl, _⟩, _⟩ := hw; simp [Tok.render]
  | param w1 n w2 ix => simp [Tok.render]
  | err w1 n w2 ix => simp [Tok.render]
  | func n w => obtain ⟨⟨c, cs, rfl, _⟩, _⟩ := hw; simp [Tok.render]
  | kw k => exact (keywordChars_table k hw).1
  | verb c1 body => simp [Tok.render]

theorem expectAll_start_ge : ∀ (ts : List Tok) (pos : Nat), ∀ m ∈ expectAll pos ts, pos ≤ m.start
  | [], _ => by simp [expectAll]
  | t :: ts, pos => by
    intro m hm
    simp only [expectAll, List.mem_append] at hm
    rcases hm with hm | hm
    · unfold Tok.expect at hm
      split at hm
      · simp at hm
      · simp at hm; subst hm; simp
    · have := expectAll_start_ge ts _ m hm; omega

/-! ### templateGo -/

theorem templateGo_skip (xs R : List Char) (pos : Nat) (ms : List RawMatch) :
    templateGo xs.length pos ms (xs ++ R) = templateGo 0 (pos + xs.length) ms R := by
  induction xs generalizing pos with
  | nil => simp
  | cons x xs ih =>
    simp only [List.length_cons, List.cons_append, templateGo]
    rw [ih]; congr 1; omega

theorem templateGo_copy (cs R : List Char) (pos : Nat) (ms : List RawMatch)
    (h : ∀ m ∈ ms, pos + cs.length ≤ m.start) :
    templateGo 0 pos ms (cs ++ R) = cs ++ templateGo 0 (pos + cs.length) ms R := by
  induction cs generalizing pos with
  | nil => simp
  | cons c cs ih =>
    have ih' := ih (pos + 1) (by intro m hm; have := h m hm; simp at this; omega)
    cases ms with
    | nil =>
      simp only [List.cons_append, templateGo, List.length_cons]
      rw [ih']; simp; congr 1; omega
    | cons m ms =>
      have hm := h m (by simp)
      simp only [List.length_cons] at hm
      have hne : (pos == m.start) = false := by simp; omega
      simp only [List.cons_append, templateGo, hne, List.length_cons]
      rw [ih']; simp; congr 1; omega

theorem templateGo_toks : ∀ (ts : List Tok) (pos : Nat) (ms' : List RawMatch) (R : List Char),
    (∀ t ∈ ts, t.wf) → (∀ m ∈ ms', pos + (renderAll ts).length ≤ m.start) →
    templateGo 0 pos (expectAll pos ts ++ ms') (renderAll ts ++ R) =
      holesAll ts ++ templateGo 0 (pos + (renderAll ts).length) ms' R
  | [], pos, ms', R, _, _ => by simp [expectAll, renderAll, holesAll]
  | t :: ts, pos, ms', R, hw, hm => by
    have hwt := hw t (by simp)
    have hws : ∀ x ∈ ts, x.wf := fun x hx => hw x (by simp [hx])
    have hlen : (renderAll (t :: ts)).length = t.render.length + (renderAll ts).length := by simp [renderAll]
    have hm' : ∀ m ∈ ms', pos + t.render.length + (renderAll ts).length ≤ m.start := by
      intro m h; have := hm m h; rw [hlen] at this; omega
    have ih := templateGo_toks ts (pos + t.render.length) ms' R hws hm'
    simp only [renderAll, expectAll, holesAll, List.append_assoc]
    cases hab : t.abs with
    | none =>
      have hrest : ∀ m ∈ expectAll (pos + t.render.length) ts ++ ms', pos + t.render.length ≤ m.start := by
        intro m h
        rcases List.mem_append.mp h with h | h
        · exact expectAll_start_ge ts _ m h
        · have := hm' m h; omega
      simp only [Tok.expect, hab, List.nil_append, Tok.hole, Option.isSome_none, Bool.false_eq_true, if_false]
      rw [templateGo_copy _ _ _ _ hrest, ih]
      simp [Nat.add_assoc]
    | some a =>
      obtain ⟨k, n, ix⟩ := a
      have hne := render_ne_nil t hwt (by simp [hab])
      obtain ⟨x, xs, hx⟩ : ∃ x xs, t.render = x :: xs := by
        cases h : t.render with
        | nil => exact absurd h hne
        | cons a b => exact ⟨a, b, rfl⟩
      simp only [Tok.expect, hab, Tok.hole, Option.isSome_some, if_true, List.cons_append, List.nil_append, hx,
        templateGo, beq_self_eq_true, List.length_cons]
      have e1 : pos + (xs.length + 1) - pos - 1 = xs.length := by omega
      rw [e1, templateGo_skip]
      rw [hx] at ih
      simp only [List.length_cons] at ih
      have e2 : pos + 1 + xs.length = pos + (xs.length + 1) := by omega
      rw [e2, ih]
      simp [Nat.add_assoc]
      congr 1; omega

/-! ### outsideGo (same walk) -/

theorem outsideGo_skip (xs R : List Char) (pos : Nat) (ms : List RawMatch) :
    outsideGo xs.length pos ms (xs ++ R) = outsideGo 0 (pos + xs.length) ms R := by
  induction xs generalizing pos with
  | nil => simp
  | cons x xs ih =>
    simp only [List.length_cons, List.cons_append, outsideGo]
    rw [ih]; congr 1; omega

theorem outsideGo_copy (cs R : List Char) (pos : Nat) (ms : List RawMatch)
    (h : ∀ m ∈ ms, pos + cs.length ≤ m.start) :
    outsideGo 0 pos ms (cs ++ R) = cs ++ outsideGo 0 (pos + cs.length) ms R := by
  induction cs generalizing pos with
  | nil => simp
  | cons c cs ih =>
    have ih' := ih (pos + 1) (by intro m hm; have := h m hm; simp at this; omega)
    cases ms with
    | nil =>
      simp only [List.cons_append, outsideGo, List.length_cons]
      rw [ih']; simp; congr 1; omega
    | cons m ms =>
      have hm := h m (by simp)
      simp only [List.length_cons] at hm
      have hne : (pos == m.start) = false := by simp; omega
      simp only [List.cons_append, outsideGo, hne, List.length_cons]
      rw [ih']; simp; congr 1; omega

theorem outsideGo_toks : ∀ (ts : List Tok) (pos : Nat) (ms' : List RawMatch) (R : List Char),
    (∀ t ∈ ts, t.wf) → (∀ m ∈ ms', pos + (renderAll ts).length ≤ m.start) →
    outsideGo 0 pos (expectAll pos ts ++ ms') (renderAll ts ++ R) =
      outsideAll ts ++ outsideGo 0 (pos + (renderAll ts).length) ms' R
  | [], pos, ms', R, _, _ => by simp [expectAll, renderAll, outsideAll]
  | t :: ts, pos, ms', R, hw, hm => by
    have hwt := hw t (by simp)
    have hws : ∀ x ∈ ts, x.wf := fun x hx => hw x (by simp [hx])
    have hlen : (renderAll (t :: ts)).length = t.render.length + (renderAll ts).length := by simp [renderAll]
    have hm' : ∀ m ∈ ms', pos + t.render.length + (renderAll ts).length ≤ m.start := by
      intro m h; have := hm m h; rw [hlen] at this; omega
    have ih := outsideGo_toks ts (pos + t.render.length) ms' R hws hm'
    simp only [renderAll, expectAll, outsideAll, List.append_assoc]
    cases hab : t.abs with
    | none =>
      have hrest : ∀ m ∈ expectAll (pos + t.render.length) ts ++ ms', pos + t.render.length ≤ m.start := by
        intro m h
        rcases List.mem_append.mp h with h | h
        · exact expectAll_start_ge ts _ m h
        · have := hm' m h; omega
      simp only [Tok.expect, hab, List.nil_append, Tok.out, Option.isSome_none, Bool.false_eq_true, if_false]
      rw [outsideGo_copy _ _ _ _ hrest, ih]
      simp [Nat.add_assoc]
    | some a =>
      obtain ⟨k, n, ix⟩ := a
      have hne := render_ne_nil t hwt (by simp [hab])
      obtain ⟨x, xs, hx⟩ : ∃ x xs, t.render = x :: xs := by
        cases h : t.render with
        | nil => exact absurd h hne
        | cons a b => exact ⟨a, b, rfl⟩
      simp only [Tok.expect, hab, Tok.out, Option.isSome_some, if_true, List.cons_append, List.nil_append, hx,
        outsideGo, beq_self_eq_true, List.length_cons]
      have e1 : pos + (xs.length + 1) - pos - 1 = xs.length := by omega
      rw [e1, outsideGo_skip]
      rw [hx] at ih
      simp only [List.length_cons] at ih
      have e2 : pos + 1 + xs.length = pos + (xs.length + 1) := by omega
      rw [e2, ih]
      simp [Nat.add_assoc]
      congr 1; omega

/-! ### `str.format` over the template of a token list -/

/-- The template with its fields filled in order: every term token replaced by the next argument. -/
def fillAll : List Tok → List (List Char) → List Char
  | [], _ => []
  | t :: ts, args =>
    if t.abs.isSome then
      match args with
      | a :: as => a ++ fillAll ts as
      | [] => fillAll ts []
    else t.render ++ fillAll ts args

theorem fmtPieces_lits (l r : List Char) (h : ∀ c ∈ l, isBrace c = false) :
    fmtPieces none (l ++ r) = l.map Piece.lit ++ fmtPieces none r := by
  induction l with
  | nil => rfl
  | cons c cs ih =>
    have hc := h c (by simp)
    simp [isBrace] at hc
    rw [List.cons_append, fmtPieces.eq_6 c _ (fun _ h1 _ => hc.1 h1) hc.1 (fun _ h1 _ => hc.2 h1) hc.2,
      ih (fun d hd => h d (by simp [hd]))]
    rfl

theorem renderP_lits (l : List Char) (ps : List Piece) (args : List (List Char)) :
    renderP (l.map Piece.lit ++ ps) args = l ++ renderP ps args := by
  induction l with
  | nil => rfl
  | cons c cs ih => simp [renderP, ih]

theorem fmtPieces_field (r : List Char) : fmtPieces none ('{' :: '}' :: r) = Piece.field [] :: fmtPieces none r := by
  rw [fmtPieces.eq_3 _ (fun cs h => by simp at h), fmtPieces.eq_8]
  simp

theorem renderP_holes : ∀ (ts : List Tok) (args : List (List Char)),
    (∀ c ∈ outsideAll ts, isBrace c = false) → renderP (fmtPieces none (holesAll ts)) args = fillAll ts args
  | [], _, _ => by simp [holesAll, fillAll, renderP, fmtPieces]
  | t :: ts, args, h => by
    have hts : ∀ c ∈ outsideAll ts, isBrace c = false := fun c hc => h c (by simp [outsideAll, hc])
    simp only [holesAll, fillAll, Tok.hole]
    cases hab : t.abs.isSome with
    | true =>
      simp only [if_true, List.cons_append, List.nil_append, fmtPieces_field]
      cases args with
      | nil => simp [renderP]; exact renderP_holes ts [] hts
      | cons a as => simp [renderP]; exact renderP_holes ts as hts
    | false =>
      have hr : ∀ c ∈ t.render, isBrace c = false := by
        intro c hc; exact h c (by simp [outsideAll, Tok.out, hab, hc])
      simp only [Bool.false_eq_true, if_false]
      rw [fmtPieces_lits _ _ hr, renderP_lits, renderP_holes ts args hts]

/-- `str.format` on the (normalised) template of a statement whose braces all lie inside matched terms. -/
theorem pyFormat_template (s : List Char) (args : List (List Char)) (hb : (outside s).any isBrace = false)
    (ha : args.length = (scanTerms s).length) :
    pyFormat (normaliseWs (template s)) args = .ok (renderP (fmtPieces none (normaliseWs (template s))) args) := by
  have hsp : SpansFrom (0 + 0) (0 + s.length) (scanTerms s) := by
    have := scanGo_spansL s 0 false 0; simpa [scanTerms] using this
  have hauto : Auto (scanTerms s).length (normaliseWs (template s)) :=
    (template_auto s 0 0 (scanTerms s) hsp hb).normalise
  have hp := fmtPieces_auto hauto
  unfold pyFormat
  rw [fmtRun_unset hp, fmtRun_auto hp args 0 (by omega)]
  simp

theorem splitAtEq_append : ∀ (x y : List Char), (∀ c ∈ x, c ≠ '=') → splitAtEq (x ++ '=' :: y) = some (x, y)
  | [], y, _ => by simp [splitAtEq]
  | c :: cs, y, h => by
    have hc : (c == '=') = false := by simpa using h c (by simp)
    simp [splitAtEq, hc, splitAtEq_append cs y (fun d hd => h d (by simp [hd]))]

/-! ### The two spellings of an index -/

def tSpell (k : Int) : List Char :=
  if k > 0 then ['t', '+'] ++ natDigits k.toNat else if k == 0 then ['t'] else ['t', '-'] ++ natDigits (-k).toNat

/-- The feed-back spelling of the documented substitution `[t] -> [0]`, `[t+k] -> [+k]`, `[t-k] -> [-k]`. -/
def fbSpell (k : Int) : List Char :=
  if k > 0 then '+' :: natDigits k.toNat else if k == 0 then ['0'] else '-' :: natDigits (-k).toNat

def respell (sp : Int → List Char) (kind : Kind) (n : List Char) (ix : Option IdxR) : Tok :=
  match indexOf kind (idxText ix) with
  | some (.int k) => .var n (some ⟨[], sp k, []⟩)
  | some (.str q) => .var n (some ⟨[], q, []⟩)
  | _ => .var n ix

/-- A token as it appears in the normalised equation (`sp = tSpell`) or in its feed-back form (`sp = fbSpell`):
    every variable / parameter / error term becomes `name[index]` without inner whitespace, a function loses the
    whitespace before its parenthesis, everything else is unchanged. -/
def spellTok (sp : Int → List Char) : Tok → Tok
  | .var n ix => respell sp .variable n ix
  | .param _ n _ ix => respell sp .parameter n ix
  | .err _ n _ ix => respell sp .error n ix
  | .func n _ => .func n []
  | t => t

theorem termStr_int (kind : Kind) (hk : kind = .variable ∨ kind = .parameter ∨ kind = .error) (n : List Char) (k : Int) :
    termStr ⟨kind, n, .int k⟩ = n ++ '[' :: (tSpell k ++ [']']) := by
  have h1 : (kind == Kind.function || kind == Kind.keyword || kind == Kind.verbatim) = false := by
    rcases hk with rfl | rfl | rfl <;> decide
  unfold termStr tSpell
  simp only [h1]
  by_cases hp : k > 0
  · simp [hp]
  · by_cases hz : k = 0
    · subst hz; simp
    · simp [hp, hz]

theorem termStr_str (kind : Kind) (hk : kind = .variable ∨ kind = .parameter ∨ kind = .error) (n q : List Char) :
    termStr ⟨kind, n, .str q⟩ = n ++ '[' :: (q ++ [']']) := by
  have h1 : (kind == Kind.function || kind == Kind.keyword || kind == Kind.verbatim) = false := by
    rcases hk with rfl | rfl | rfl <;> decide
  unfold termStr
  simp [h1]

theorem indexOf_indexed_ne_none (kind : Kind) (hk : kind = .variable ∨ kind = .parameter ∨ kind = .error)
    (raw : Option (List Char)) : indexOf kind raw ≠ some .none := by
  have h1 : (kind == Kind.function || kind == Kind.keyword) = false := by
    rcases hk with rfl | rfl | rfl <;> decide
  unfold indexOf
  rw [h1]
  simp only [Bool.false_eq_true, if_false]
  intro h
  cases raw with
  | none => simp at h
  | some ix =>
    simp only at h
    split at h
    · simp at h
    · split at h
      · simp at h
      · cases hp : pyInt ix with
        | none => rw [hp] at h; simp at h
        | some v => rw [hp] at h; simp at h

theorem termStr_respell (kind : Kind) (hk : kind = .variable ∨ kind = .parameter ∨ kind = .error) (n : List Char)
    (ix : Option IdxR) (i : Index) (h : indexOf kind (idxText ix) = some i) :
    termStr ⟨kind, n, i⟩ = (respell tSpell kind n ix).render := by
  unfold respell
  rw [h]
  cases i with
  | int k => simp [termStr_int kind hk, Tok.render, idxRender, IdxR.render]
  | str q => simp [termStr_str kind hk, Tok.render, idxRender, IdxR.render]
  | none => exact absurd h (indexOf_indexed_ne_none kind hk _)

/-- The term `parse_terms` builds for a term token, and that its standardised text is the re-spelled token. -/
theorem tok_term (t : Tok) (k : Kind) (n : List Char) (ix : Option (List Char)) (hab : t.abs = some (k, n, ix))
    (i : Index) (hi : indexOf k ix = some i) : termStr ⟨k, n, i⟩ = (spellTok tSpell t).render := by
  cases t with
  | chunk cs => simp [Tok.abs] at hab
  | lt => simp [Tok.abs] at hab
  | var m jx =>
    simp [Tok.abs] at hab; obtain ⟨rfl, rfl, rfl⟩ := hab
    exact termStr_respell .variable (Or.inl rfl) _ _ _ hi
  | param w1 m w2 jx =>
    simp [Tok.abs] at hab; obtain ⟨rfl, rfl, rfl⟩ := hab
    exact termStr_respell .parameter (Or.inr (Or.inl rfl)) _ _ _ hi
  | err w1 m w2 jx =>
    simp [Tok.abs] at hab; obtain ⟨rfl, rfl, rfl⟩ := hab
    exact termStr_respell .error (Or.inr (Or.inr rfl)) _ _ _ hi
  | func m w =>
    simp [Tok.abs] at hab; obtain ⟨rfl, rfl, rfl⟩ := hab
    simp [indexOf] at hi; subst hi
    simp [termStr, spellTok, Tok.render]
  | kw m =>
    simp [Tok.abs] at hab; obtain ⟨rfl, rfl, rfl⟩ := hab
    simp [indexOf] at hi; subst hi
    simp [termStr, spellTok, Tok.render]
  | verb c1 body =>
    simp [Tok.abs] at hab; obtain ⟨rfl, rfl, rfl⟩ := hab
    simp [indexOf] at hi; subst hi
    simp [termStr, spellTok, Tok.render]

theorem spellTok_nonterm (sp : Int → List Char) (t : Tok) (h : t.abs = none) : spellTok sp t = t := by
  cases t <;> simp [Tok.abs] at h <;> rfl

/-- **fill_eq**: filling the template of a token list with the standardised texts of its terms gives the same
    token list with every term re-spelled `name[t±k]` (no inner whitespace). -/
theorem fill_eq : ∀ (ts : List Tok) (pos : Nat) (terms : List Term), termsOf (expectAll pos ts) = some terms →
    fillAll ts (terms.map termStr) = renderAll (ts.map (spellTok tSpell))
  | [], _, terms, h => by simp [expectAll, termsOf] at h; subst h; simp [fillAll, renderAll]
  | t :: ts, pos, terms, h => by
    simp only [expectAll, Tok.expect] at h
    cases hab : t.abs with
    | none =>
      rw [hab] at h
      simp only [List.nil_append] at h
      simp only [fillAll, hab, Option.isSome_none, Bool.false_eq_true, if_false, List.map_cons, renderAll,
        spellTok_nonterm _ t hab]
      rw [fill_eq ts _ terms h]
    | some a =>
      obtain ⟨k, n, ix⟩ := a
      rw [hab] at h
      simp only [List.cons_append, List.nil_append, termsOf] at h
      cases hi : indexOf k ix with
      | none => rw [hi] at h; simp at h
      | some i =>
        rw [hi] at h
        cases hr : termsOf (expectAll (pos + t.render.length) ts) with
        | none => rw [hr] at h; simp at h
        | some rest =>
          rw [hr] at h; simp at h; subst h
          simp only [fillAll, hab, Option.isSome_some, if_true, List.map_cons, renderAll]
          rw [tok_term t k n ix hab i hi, fill_eq ts _ rest hr]

/-! ### Token lists split at the `=` -/

theorem renderAll_append (a b : List Tok) : renderAll (a ++ b) = renderAll a ++ renderAll b := by
  induction a with
  | nil => rfl
  | cons t ts ih => simp [renderAll, ih]

theorem holesAll_append (a b : List Tok) : holesAll (a ++ b) = holesAll a ++ holesAll b := by
  induction a with
  | nil => rfl
  | cons t ts ih => simp [holesAll, ih]

theorem termsOf_append : ∀ (x y : List RawMatch) (lt rt : List Term), termsOf x = some lt → termsOf y = some rt →
    termsOf (x ++ y) = some (lt ++ rt)
  | [], y, lt, rt, h1, h2 => by simp [termsOf] at h1; subst h1; simpa using h2
  | m :: ms, y, lt, rt, h1, h2 => by
    simp only [List.cons_append, termsOf] at h1 ⊢
    generalize indexOf m.kind m.index = oi at h1 ⊢
    cases oi with
    | none => simp at h1
    | some i =>
      simp only at h1 ⊢
      cases hr : termsOf ms with
      | none => rw [hr] at h1; simp at h1
      | some rest =>
        rw [hr] at h1; simp at h1; subst h1
        simp [termsOf_append ms y rest rt hr h2]

/-- `termsOf` only reads (kind, name, raw index) of the matches. -/
theorem termsOf_congr' : ∀ (ms₁ ms₂ : List RawMatch),
    ms₁.map (fun m => (m.kind, m.name, m.index)) = ms₂.map (fun m => (m.kind, m.name, m.index)) →
    termsOf ms₁ = termsOf ms₂
  | [], [], _ => rfl
  | [], _ :: _, h => by simp at h
  | _ :: _, [], h => by simp at h
  | a :: as, b :: bs, h => by
    simp only [List.map_cons, List.cons.injEq, Prod.mk.injEq] at h
    obtain ⟨⟨hk, hn, hi⟩, ht⟩ := h
    simp only [termsOf, hk, hn, hi, termsOf_congr' as bs ht]

theorem expectAll_abs : ∀ (ts : List Tok) (pos : Nat),
    (expectAll pos ts).map (fun m => (m.kind, m.name, m.index)) = ts.filterMap Tok.abs
  | [], _ => rfl
  | t :: ts, pos => by
    simp only [expectAll, List.map_append, expectAll_abs ts, List.filterMap_cons]
    cases h : t.abs with
    | none => simp [Tok.expect, h]
    | some a => obtain ⟨k, n, ix⟩ := a; simp [Tok.expect, h]

/-- The documented feed-back substitution on text: `[t]` → `[0]`, `[t+k]` → `[+k]`, `[t-k]` → `[-k]`. -/
def feedbackText : List Char → List Char
  | [] => []
  | '[' :: 't' :: ']' :: r => '[' :: '0' :: ']' :: feedbackText r
  | '[' :: 't' :: '+' :: r => '[' :: '+' :: feedbackText r
  | '[' :: 't' :: '-' :: r => '[' :: '-' :: feedbackText r
  | c :: r => c :: feedbackText r

/-- equation and code of a `parsed` result -/
def eqCode : EqOut → Option (List Char × List Char)
  | .parsed _ _ (.ok e) (.ok c) => some (e, c)
  | _ => none

/-- "Parsing the statement gives (e, c), and parsing the feed-back form of e gives (e, c) again." -/
def roundTrips (s : List Char) : Bool :=
  match eqCode (parseEquationText s) with
  | some (e, c) => eqCode (parseEquationText (feedbackText e)) == some (e, c)
  | none => false

/-! ### `int()` reads back the decimal digits of a natural number (towards `Stable` for integer indexes) -/

theorem digitsGo_digit (pd : Bool) (acc : Nat) (c : Char) (cs : List Char) (hd : isDigit c = true) :
    digitsGo pd acc (c :: cs) = digitsGo true (acc * 10 + digitVal c) cs := by
  rw [digitsGo.eq_def]; simp [hd]

theorem isDigit_of_char {c : Char} (hc : c.isDigit = true) : isDigit c = true := by
  simp [Char.isDigit] at hc
  simp [isDigit, inR]
  exact ⟨hc.1, hc.2⟩

theorem digitsGo_all (l : List Char) : ∀ (pd : Bool) (acc : Nat), (∀ c ∈ l, c.isDigit = true) → l ≠ [] →
    digitsGo pd acc l = some (Nat.ofDigitChars 10 l acc) := by
  induction l with
  | nil => intro pd acc _ h; exact absurd rfl h
  | cons c cs ih =>
    intro pd acc h _
    have hd := isDigit_of_char (h c (by simp))
    rw [digitsGo_digit pd acc c cs hd]
    cases cs with
    | nil => simp [digitsGo, Nat.ofDigitChars, digitVal, Nat.mul_comm]
    | cons d ds =>
      rw [ih true _ (fun x hx => h x (by simp [hx])) (by simp)]
      simp [Nat.ofDigitChars, digitVal, Nat.mul_comm]

theorem digitsGo_natDigits (pd : Bool) (n : Nat) : digitsGo pd 0 (natDigits n) = some n := by
  unfold natDigits
  rw [digitsGo_all _ pd 0 (fun c hc => Nat.isDigit_of_mem_toDigits (by decide) (by decide) hc) Nat.toDigits_ne_nil,
    Nat.ofDigitChars_ten_toDigits]


end Fsic.Lx
