import Proofs.Lemmas.ParserFold
set_option linter.unusedSimpArgs false
set_option linter.unusedVariables false
/-
The *summary* relation: what the entry of one key says about the occurrences it was folded from.
It is stated through membership only, so it composes over the two levels (statement fold, model merge).
-/
namespace Fsic.Parser

/-- `s` is absorbed by `c`: same type, or both variable kinds with `c` at least as high in the enum. -/
def TypeLe (s c : TermType) : Prop :=
  s = c ∨ (isVarKind s = true ∧ isVarKind c = true ∧ s.value ≤ c.value)

structure Summ (c : Symbol) (occ : List Symbol) : Prop where
  name : ∀ s ∈ occ, s.name = c.name
  typeLe : ∀ s ∈ occ, TypeLe s.type c.type
  typeAtt : ∃ s ∈ occ, s.type = c.type
  lags : (c.lags = .none ∧ ∀ s ∈ occ, s.lags = .none) ∨
    (∃ m, c.lags = .int m ∧ m ≤ 0 ∧ (∀ s ∈ occ, s.lags ≠ .none ∧ ∀ i, s.lags = .int i → m ≤ i) ∧
      (m = 0 ∨ ∃ s ∈ occ, s.lags = .int m))
  leads : (c.leads = .none ∧ ∀ s ∈ occ, s.leads = .none) ∨
    (∃ m, c.leads = .int m ∧ 0 ≤ m ∧ (∀ s ∈ occ, s.leads ≠ .none ∧ ∀ i, s.leads = .int i → i ≤ m) ∧
      (m = 0 ∨ ∃ s ∈ occ, s.leads = .int m))
  eqAll : ∀ s ∈ occ, ∀ e, s.equation = some e → c.equation = some e
  eqAtt : ∀ e, c.equation = some e → ∃ s ∈ occ, s.equation = some e
  codeAll : ∀ s ∈ occ, ∀ e, s.code = some e → c.code = some e
  codeAtt : ∀ e, c.code = some e → ∃ s ∈ occ, s.code = some e

theorem TypeLe.refl (t : TermType) : TypeLe t t := Or.inl rfl

instance (a b : TermType) : Decidable (TypeLe a b) := by unfold TypeLe; infer_instance

/-! Facts about the enum order, re-checked against the reflected `Generated.typeValues` by `decide`. -/
theorem typeLe_of_endogenous {c : TermType} : TypeLe .endogenous c → c = .endogenous := by
  cases c <;> decide
theorem typeLe_of_parameter {c : TermType} : TypeLe .parameter c → c = .parameter := by
  cases c <;> decide
theorem typeLe_of_error {c : TermType} : TypeLe .error c → c = .error := by
  cases c <;> decide
theorem typeLe_of_exogenous {c : TermType} : TypeLe .exogenous c → c = .exogenous ∨ c = .endogenous := by
  cases c <;> decide
theorem typeLe_to_exogenous {s : TermType} : TypeLe s .exogenous → s ≠ .endogenous := by
  cases s <;> decide
theorem typeLe_indexed {s c : TermType} : TypeLe s c → isIndexed s = true → isIndexed c = true := by
  cases s <;> cases c <;> decide
theorem typeLe_conflict {a b c : TermType} : TypeLe a c → TypeLe b c → a ≠ b →
    isVarKind a = true ∧ isVarKind b = true := by
  cases a <;> cases b <;> cases c <;> decide
theorem TypeLe.antisymm {a b : TermType} : TypeLe a b → TypeLe b a → a = b := by
  cases a <;> cases b <;> decide

theorem TypeLe.trans {a b c : TermType} (h1 : TypeLe a b) (h2 : TypeLe b c) : TypeLe a c := by
  rcases h1 with rfl | ⟨ha, hb, hab⟩
  · exact h2
  · rcases h2 with rfl | ⟨_, hc, hbc⟩
    · exact Or.inr ⟨ha, hb, hab⟩
    · exact Or.inr ⟨ha, hc, Nat.le_trans hab hbc⟩

/-! ### One step -/

theorem resolveStr_ok {o n c : Option String} (h : resolveStr o n = .ok c) :
    (∀ e, n = some e → c = some e) ∧ (∀ e, o = some e → c = some e) ∧
    (∀ e, c = some e → o = some e ∨ n = some e) := by
  cases o with
  | none =>
    cases n with
    | none => simp [resolveStr] at h; subst h; simp
    | some y => simp [resolveStr] at h; subst h; simp
  | some x =>
    cases n with
    | none => simp [resolveStr] at h; subst h; simp
    | some y =>
      simp only [resolveStr] at h
      by_cases hxy : x = y
      · simp [hxy] at h; subst h; simp [hxy]
      · simp [hxy] at h

theorem combineType_ok {a s c : TermType} (h : combineType a s = .ok c) :
    TypeLe a c ∧ TypeLe s c ∧ (c = a ∨ c = s) := by
  unfold combineType at h
  by_cases hab : a = s
  · simp [hab] at h; subst h; subst hab; exact ⟨Or.inl rfl, Or.inl rfl, Or.inl rfl⟩
  · simp only [hab, if_false] at h
    by_cases hv : (isVarKind a && isVarKind s) = true
    · simp only [hv, if_true] at h
      have hc : c = promote a s := by cases h; rfl
      simp only [Bool.and_eq_true] at hv
      unfold promote at hc
      by_cases hlt : a.value < s.value
      · simp only [hlt, if_true] at hc; subst hc
        exact ⟨Or.inr ⟨hv.1, hv.2, Nat.le_of_lt hlt⟩, Or.inl rfl, Or.inr rfl⟩
      · simp only [hlt, if_false] at hc; subst hc
        exact ⟨Or.inl rfl, Or.inr ⟨hv.2, hv.1, Nat.le_of_not_lt hlt⟩, Or.inl rfl⟩
    · simp [hv] at h

/-- First occurrence: `combine s s`. -/
theorem summ_self {s a : Symbol} (h : combine s s = .ok a) : Summ a [s] := by
  obtain ⟨_, hn, ht, hl, hd, hq, hc⟩ := combine_ok h
  have ht' : a.type = s.type := by simp [combineType] at ht; exact ht.symm
  obtain ⟨q1, _, q3⟩ := resolveStr_ok hq
  obtain ⟨c1, _, c3⟩ := resolveStr_ok hc
  refine ⟨?_, ?_, ?_, ?_, ?_, ?_, ?_, ?_, ?_⟩
  · intro x hx; simp at hx; subst hx; exact hn.symm
  · intro x hx; simp at hx; subst hx; rw [ht']; exact Or.inl rfl
  · exact ⟨s, by simp, ht'.symm⟩
  · cases hs : s.lags with
    | none => rw [hs] at hl; simp [resolveLag] at hl; left; exact ⟨hl.symm, by intro x hx; simp at hx; subst hx; exact hs⟩
    | int i =>
      rw [hs] at hl; simp [resolveLag] at hl; right
      refine ⟨min i 0, ?_, by omega, ?_, ?_⟩
      · rw [← hl] <;> (try (congr 1; omega))
      · intro x hx; simp at hx; subst hx; rw [hs]; refine ⟨by simp, ?_⟩; intro j hj; cases hj; omega
      · by_cases hi : i ≤ 0
        · right; exact ⟨s, by simp, by rw [hs]; congr 1; omega⟩
        · left; omega
    | str t =>
      rw [hs] at hl; simp [resolveLag] at hl; right
      refine ⟨0, hl.symm, by omega, ?_, Or.inl rfl⟩
      intro x hx; simp at hx; subst hx; rw [hs]; exact ⟨by simp, by intro j hj; cases hj⟩
  · cases hs : s.leads with
    | none => rw [hs] at hd; simp [resolveLead] at hd; left; exact ⟨hd.symm, by intro x hx; simp at hx; subst hx; exact hs⟩
    | int i =>
      rw [hs] at hd; simp [resolveLead] at hd; right
      refine ⟨max i 0, ?_, by omega, ?_, ?_⟩
      · rw [← hd] <;> (try (congr 1; omega))
      · intro x hx; simp at hx; subst hx; rw [hs]; refine ⟨by simp, ?_⟩; intro j hj; cases hj; omega
      · by_cases hi : 0 ≤ i
        · right; exact ⟨s, by simp, by rw [hs]; congr 1; omega⟩
        · left; omega
    | str t =>
      rw [hs] at hd; simp [resolveLead] at hd; right
      refine ⟨0, hd.symm, by omega, ?_, Or.inl rfl⟩
      intro x hx; simp at hx; subst hx; rw [hs]; exact ⟨by simp, by intro j hj; cases hj⟩
  · intro x hx e he; simp at hx; subst hx; exact q1 e he
  · intro e he; rcases q3 e he with h1 | h1 <;> exact ⟨s, by simp, h1⟩
  · intro x hx e he; simp at hx; subst hx; exact c1 e he
  · intro e he; rcases c3 e he with h1 | h1 <;> exact ⟨s, by simp, h1⟩

/-- A later occurrence: `combine a s` where `a` summarises `pre`. -/
theorem summ_step {a s c : Symbol} {pre : List Symbol} (ha : Summ a pre) (h : combine a s = .ok c) :
    Summ c (pre ++ [s]) := by
  obtain ⟨hn0, hn, ht, hl, hd, hq, hc⟩ := combine_ok h
  obtain ⟨t1, t2, t3⟩ := combineType_ok ht
  obtain ⟨q1, q2, q3⟩ := resolveStr_ok hq
  obtain ⟨c1, c2, c3⟩ := resolveStr_ok hc
  refine ⟨?_, ?_, ?_, ?_, ?_, ?_, ?_, ?_, ?_⟩
  · intro x hx; rcases List.mem_append.mp hx with hx | hx
    · rw [ha.name x hx, hn]
    · simp at hx; subst hx; rw [hn, hn0]
  · intro x hx; rcases List.mem_append.mp hx with hx | hx
    · exact (ha.typeLe x hx).trans t1
    · simp at hx; subst hx; exact t2
  · rcases t3 with e | e
    · obtain ⟨x, hx, hxt⟩ := ha.typeAtt
      exact ⟨x, List.mem_append_left _ hx, by rw [hxt, e]⟩
    · exact ⟨s, by simp, e.symm⟩
  · rcases ha.lags with ⟨hal, hall⟩ | ⟨m, hal, hm, hall, hatt⟩
    · rw [hal] at hl
      cases hs : s.lags with
      | none =>
        rw [hs] at hl; simp [resolveLag] at hl; left
        refine ⟨hl.symm, ?_⟩
        intro x hx; rcases List.mem_append.mp hx with hx | hx
        · exact hall x hx
        · simp at hx; subst hx; exact hs
      | int i => rw [hs] at hl; simp [resolveLag] at hl
      | str t => rw [hs] at hl; simp [resolveLag] at hl
    · rw [hal] at hl
      cases hs : s.lags with
      | none => rw [hs] at hl; simp [resolveLag] at hl
      | int i =>
        rw [hs] at hl; simp [resolveLag] at hl; right
        refine ⟨min m i, ?_, by omega, ?_, ?_⟩
        · rw [← hl]; congr 1; omega
        · intro x hx; rcases List.mem_append.mp hx with hx | hx
          · refine ⟨(hall x hx).1, ?_⟩; intro j hj; have := (hall x hx).2 j hj; omega
          · simp at hx; subst hx; rw [hs]; refine ⟨by simp, ?_⟩; intro j hj; cases hj; omega
        · by_cases hmi : m ≤ i
          · rcases hatt with h0 | ⟨x, hx, hxm⟩
            · left; omega
            · right; exact ⟨x, List.mem_append_left _ hx, by rw [hxm]; congr 1; omega⟩
          · right; exact ⟨s, by simp, by rw [hs]; congr 1; omega⟩
      | str t =>
        rw [hs] at hl; simp [resolveLag] at hl; right
        refine ⟨m, hl.symm, hm, ?_, ?_⟩
        · intro x hx; rcases List.mem_append.mp hx with hx | hx
          · exact hall x hx
          · simp at hx; subst hx; rw [hs]; exact ⟨by simp, by intro j hj; cases hj⟩
        · rcases hatt with h0 | ⟨x, hx, hxm⟩
          · exact Or.inl h0
          · exact Or.inr ⟨x, List.mem_append_left _ hx, hxm⟩
  · rcases ha.leads with ⟨hal, hall⟩ | ⟨m, hal, hm, hall, hatt⟩
    · rw [hal] at hd
      cases hs : s.leads with
      | none =>
        rw [hs] at hd; simp [resolveLead] at hd; left
        refine ⟨hd.symm, ?_⟩
        intro x hx; rcases List.mem_append.mp hx with hx | hx
        · exact hall x hx
        · simp at hx; subst hx; exact hs
      | int i => rw [hs] at hd; simp [resolveLead] at hd
      | str t => rw [hs] at hd; simp [resolveLead] at hd
    · rw [hal] at hd
      cases hs : s.leads with
      | none => rw [hs] at hd; simp [resolveLead] at hd
      | int i =>
        rw [hs] at hd; simp [resolveLead] at hd; right
        refine ⟨max m i, ?_, by omega, ?_, ?_⟩
        · rw [← hd]; congr 1; omega
        · intro x hx; rcases List.mem_append.mp hx with hx | hx
          · refine ⟨(hall x hx).1, ?_⟩; intro j hj; have := (hall x hx).2 j hj; omega
          · simp at hx; subst hx; rw [hs]; refine ⟨by simp, ?_⟩; intro j hj; cases hj; omega
        · by_cases hmi : i ≤ m
          · rcases hatt with h0 | ⟨x, hx, hxm⟩
            · left; omega
            · right; exact ⟨x, List.mem_append_left _ hx, by rw [hxm]; congr 1; omega⟩
          · right; exact ⟨s, by simp, by rw [hs]; congr 1; omega⟩
      | str t =>
        rw [hs] at hd; simp [resolveLead] at hd; right
        refine ⟨m, hd.symm, hm, ?_, ?_⟩
        · intro x hx; rcases List.mem_append.mp hx with hx | hx
          · exact hall x hx
          · simp at hx; subst hx; rw [hs]; exact ⟨by simp, by intro j hj; cases hj⟩
        · rcases hatt with h0 | ⟨x, hx, hxm⟩
          · exact Or.inl h0
          · exact Or.inr ⟨x, List.mem_append_left _ hx, hxm⟩
  · intro x hx e he; rcases List.mem_append.mp hx with hx | hx
    · exact q2 e (ha.eqAll x hx e he)
    · simp at hx; subst hx; exact q1 e he
  · intro e he; rcases q3 e he with h1 | h1
    · obtain ⟨x, hx, hxe⟩ := ha.eqAtt e h1; exact ⟨x, List.mem_append_left _ hx, hxe⟩
    · exact ⟨s, by simp, h1⟩
  · intro x hx e he; rcases List.mem_append.mp hx with hx | hx
    · exact c2 e (ha.codeAll x hx e he)
    · simp at hx; subst hx; exact c1 e he
  · intro e he; rcases c3 e he with h1 | h1
    · obtain ⟨x, hx, hxe⟩ := ha.codeAtt e h1; exact ⟨x, List.mem_append_left _ hx, hxe⟩
    · exact ⟨s, by simp, h1⟩

/-! ### The whole fold of one key -/

theorem combineOcc_some_summ (occ : List Symbol) : ∀ (a : Symbol) (pre : List Symbol) (r : Option Symbol),
    Summ a pre → combineOcc (some a) occ = .ok r → ∃ c, r = some c ∧ Summ c (pre ++ occ) := by
  induction occ with
  | nil => intro a pre r ha h; simp [combineOcc] at h; exact ⟨a, h.symm, by simpa using ha⟩
  | cons s rest ih =>
    intro a pre r ha h
    simp only [combineOcc, Option.getD_some] at h
    cases hc : combine a s with
    | error e => simp [hc] at h
    | ok c =>
      simp only [hc] at h
      obtain ⟨c', hr, hs⟩ := ih c (pre ++ [s]) r (summ_step ha hc) h
      exact ⟨c', hr, by simpa using hs⟩

/-- **Summary of a key**: an accepted fold over a non-empty list of occurrences yields an entry that summarises them. -/
theorem combineOcc_none_summ {s : Symbol} {rest : List Symbol} {r : Option Symbol}
    (h : combineOcc none (s :: rest) = .ok r) : ∃ c, r = some c ∧ Summ c (s :: rest) := by
  simp only [combineOcc, Option.getD_none] at h
  cases hc : combine s s with
  | error e => simp [hc] at h
  | ok a =>
    simp only [hc] at h
    obtain ⟨c, hr, hs⟩ := combineOcc_some_summ rest a [s] r (summ_self hc) h
    exact ⟨c, hr, by simpa using hs⟩

theorem combineOcc_none_nil {r : Option Symbol} (h : combineOcc none [] = .ok r) : r = none := by
  simp [combineOcc] at h; exact h.symm

/-! ### Composition over two levels -/

theorem Summ.trans {c : Symbol} {gs occ : List Symbol} (hc : Summ c gs)
    (cover : ∀ s ∈ occ, ∃ g ∈ gs, ∃ o, Summ g o ∧ s ∈ o)
    (sub : ∀ g ∈ gs, ∃ o, Summ g o ∧ ∀ s ∈ o, s ∈ occ) : Summ c occ := by
  refine ⟨?_, ?_, ?_, ?_, ?_, ?_, ?_, ?_, ?_⟩
  · intro s hs; obtain ⟨g, hg1, o, ho, hso⟩ := cover s hs
    rw [ho.name s hso, hc.name g hg1]
  · intro s hs; obtain ⟨g, hg1, o, ho, hso⟩ := cover s hs
    exact (ho.typeLe s hso).trans (hc.typeLe g hg1)
  · obtain ⟨g, hg1, hgt⟩ := hc.typeAtt
    obtain ⟨o, ho, hsub⟩ := sub g hg1
    obtain ⟨s, hs, hst⟩ := ho.typeAtt
    exact ⟨s, hsub s hs, by rw [hst, hgt]⟩
  · rcases hc.lags with ⟨hcl, hall⟩ | ⟨m, hcl, hm, hall, hatt⟩
    · left; refine ⟨hcl, ?_⟩
      intro s hs; obtain ⟨g, hg1, o, ho, hso⟩ := cover s hs
      rcases ho.lags with ⟨_, h2⟩ | ⟨m', h1, _⟩
      · exact h2 s hso
      · rw [hall g hg1] at h1; cases h1
    · right; refine ⟨m, hcl, hm, ?_, ?_⟩
      · intro s hs; obtain ⟨g, hg1, o, ho, hso⟩ := cover s hs
        rcases ho.lags with ⟨h1, _⟩ | ⟨m', h1, _, h3, _⟩
        · exact absurd h1 (hall g hg1).1
        · refine ⟨(h3 s hso).1, ?_⟩
          intro i hi; have := (h3 s hso).2 i hi; have := (hall g hg1).2 m' h1; omega
      · rcases hatt with h0 | ⟨g, hg1, hgm⟩
        · exact Or.inl h0
        · obtain ⟨o, ho, hsub⟩ := sub g hg1
          rcases ho.lags with ⟨h1, _⟩ | ⟨m', h1, _, _, h4⟩
          · rw [hgm] at h1; cases h1
          · rw [hgm] at h1; cases h1
            rcases h4 with h0 | ⟨s, hs, hsm⟩
            · exact Or.inl h0
            · exact Or.inr ⟨s, hsub s hs, hsm⟩
  · rcases hc.leads with ⟨hcl, hall⟩ | ⟨m, hcl, hm, hall, hatt⟩
    · left; refine ⟨hcl, ?_⟩
      intro s hs; obtain ⟨g, hg1, o, ho, hso⟩ := cover s hs
      rcases ho.leads with ⟨_, h2⟩ | ⟨m', h1, _⟩
      · exact h2 s hso
      · rw [hall g hg1] at h1; cases h1
    · right; refine ⟨m, hcl, hm, ?_, ?_⟩
      · intro s hs; obtain ⟨g, hg1, o, ho, hso⟩ := cover s hs
        rcases ho.leads with ⟨h1, _⟩ | ⟨m', h1, _, h3, _⟩
        · exact absurd h1 (hall g hg1).1
        · refine ⟨(h3 s hso).1, ?_⟩
          intro i hi; have := (h3 s hso).2 i hi; have := (hall g hg1).2 m' h1; omega
      · rcases hatt with h0 | ⟨g, hg1, hgm⟩
        · exact Or.inl h0
        · obtain ⟨o, ho, hsub⟩ := sub g hg1
          rcases ho.leads with ⟨h1, _⟩ | ⟨m', h1, _, _, h4⟩
          · rw [hgm] at h1; cases h1
          · rw [hgm] at h1; cases h1
            rcases h4 with h0 | ⟨s, hs, hsm⟩
            · exact Or.inl h0
            · exact Or.inr ⟨s, hsub s hs, hsm⟩
  · intro s hs e he; obtain ⟨g, hg1, o, ho, hso⟩ := cover s hs
    exact hc.eqAll g hg1 e (ho.eqAll s hso e he)
  · intro e he; obtain ⟨g, hg1, hge⟩ := hc.eqAtt e he
    obtain ⟨o, ho, hsub⟩ := sub g hg1
    obtain ⟨s, hs, hse⟩ := ho.eqAtt e hge
    exact ⟨s, hsub s hs, hse⟩
  · intro s hs e he; obtain ⟨g, hg1, o, ho, hso⟩ := cover s hs
    exact hc.codeAll g hg1 e (ho.codeAll s hso e he)
  · intro e he; obtain ⟨g, hg1, hge⟩ := hc.codeAtt e he
    obtain ⟨o, ho, hsub⟩ := sub g hg1
    obtain ⟨s, hs, hse⟩ := ho.codeAtt e hge
    exact ⟨s, hsub s hs, hse⟩

end Fsic.Parser
