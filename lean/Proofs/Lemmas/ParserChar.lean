import Proofs.Lemmas.ParserScript
set_option linter.unusedSimpArgs false
set_option linter.unusedVariables false
/-
The characterisation of an accepted script: keys in first-appearance order, every entry a summary of all the
occurrences of its name anywhere in the script.
-/
namespace Fsic.Parser

/-- The index guard, per statement: a function term carries no index. -/
def StmtOK (stmt : Stmt) : Prop :=
  ∀ s ∈ stmtOcc stmt, s.type = .function → s.lags = .none

/-- The nameless VERBATIM symbol of a verbatim statement. -/
def verbSyms : Stmt → List Symbol
  | .verb e c => [⟨none, .verbatim, .none, .none, some e, some c⟩]
  | .eqn _ _ _ => []

theorem stmtOcc_subset {S : List Stmt} {stmt : Stmt} (h : stmt ∈ S) : ∀ s ∈ stmtOcc stmt, s ∈ scriptOcc S := by
  intro s hs; exact List.mem_flatMap.2 ⟨stmt, h, hs⟩

theorem stmtOK_of_guards {S : List Stmt} (w1 : WellIndexed S) : ∀ stmt ∈ S, StmtOK stmt := by
  intro stmt hst s hs hf
  exact (w1 s (stmtOcc_subset hst s hs)).1 (by rw [hf]; rfl)

theorem mem_termSyms {e c : String} {ts : List Term} {t : Term} (ht : t ∈ ts) (hv : t.type ≠ .verbatim) :
    termSymbol e c t ∈ termSyms e c ts := by
  unfold termSyms
  exact List.mem_map_of_mem (List.mem_filter.2 ⟨ht, by simpa using hv⟩)

theorem termSyms_name_some {e c : String} {ts : List Term} : ∀ s ∈ termSyms e c ts, s.name.isSome = true := by
  intro s hs; unfold termSyms at hs
  obtain ⟨t, _, rfl⟩ := List.mem_map.1 hs; rfl

theorem stmtOK_terms {e c : String} {ts : List Term} (hok : StmtOK (.eqn ts e c)) :
    ∀ t ∈ ts, t.type = .function → t.index = .none := by
  intro t ht hf
  have hv : t.type ≠ .verbatim := by rw [hf]; simp
  exact hok _ (mem_termSyms ht hv) hf

/-- An accepted statement: its symbols are the `addSym` fold of its term symbols, and exactly one of them is an
    endogenous variable carrying the equation. -/
theorem symbolsOfTerms_ok {e c : String} {ts : List Term} {G : List Symbol} (hok : StmtOK (.eqn ts e c))
    (h : symbolsOfTerms e c ts = .ok G) :
    foldE addSym [] (termSyms e c ts) = .ok G ∧ (G.filter isDefined).length = 1 := by
  rcases symbolsOfTerms_cases e c ts (stmtOK_terms hok) with h1 | ⟨h1, _⟩
  · rw [h1] at h
    cases hf : foldE addSym [] (termSyms e c ts) with
    | error x => rw [hf] at h; cases h
    | ok G' =>
      rw [hf] at h
      by_cases hl : (G'.filter isDefined).length = 1
      · simp only [hl, if_true] at h; cases h; exact ⟨rfl, hl⟩
      · simp [hl] at h
  · rw [h1] at h; cases h

/-- An accepted dictionary fold from the empty dictionary. -/
theorem fold_from_empty {ss d : List Symbol} (h : foldE addSym [] ss = .ok d) :
    keys d = firstApp (ss.map (·.name)) ∧ (keys d).Nodup ∧
    (∀ g ∈ d, Summ g (ss.filter (fun s => s.name = g.name))) ∧
    (∀ s ∈ ss, ∃ g ∈ d, g.name = s.name) := by
  obtain ⟨hk, hf⟩ := foldE_addSym_decomp ss [] d h
  have hnd : (keys d).Nodup := foldE_addSym_nodup h (by simp [keys])
  have hk' : keys d = firstApp (ss.map (·.name)) := by simpa [keys, firstApp] using hk
  refine ⟨hk', hnd, ?_, ?_⟩
  · intro g hg
    have h1 := hf g.name
    rw [findSym_of_mem_nodup hnd hg] at h1
    simp only [findSym] at h1
    cases hl : ss.filter (fun s => s.name = g.name) with
    | nil => rw [hl] at h1; simp [combineOcc] at h1
    | cons s rest =>
      rw [hl] at h1
      obtain ⟨c, hc, hs⟩ := combineOcc_none_summ h1
      cases hc; exact hs
  · intro s hs
    have : s.name ∈ keys d := by rw [hk']; exact (mem_firstApp _ _).2 (List.mem_map_of_mem hs)
    obtain ⟨g, hg, hgn⟩ := List.mem_map.1 this
    exact ⟨g, hg, hgn⟩

/-- What one statement contributes. -/
theorem stmt_char {stmt : Stmt} {G : List Symbol} (h : stmtSymbols stmt = .ok G) (hok : StmtOK stmt) :
    (∀ acc, (((G.filter (fun s => s.name.isSome)).map (·.name)).foldl pushNew acc)
        = ((stmtOcc stmt).map (·.name)).foldl pushNew acc) ∧
    (∀ g ∈ G, g.name.isSome = true → Summ g ((stmtOcc stmt).filter (fun s => s.name = g.name))) ∧
    (∀ s ∈ stmtOcc stmt, ∃ g ∈ G, g.name = s.name ∧ g.name.isSome = true) ∧
    (∀ g ∈ G, g.name.isSome = false → g.type = .verbatim) ∧
    (G.filter (fun s => s.name.isNone) = verbSyms stmt) ∧
    (∀ ts e c, stmt = .eqn ts e c → (G.filter isDefined).length = 1) := by
  cases stmt with
  | verb e c =>
    simp [stmtSymbols] at h; subst h
    simp [stmtOcc, verbSyms]
  | eqn ts e c =>
    simp only [stmtSymbols] at h
    obtain ⟨h, hone⟩ := symbolsOfTerms_ok hok h
    obtain ⟨hk, hnd, hs, hc⟩ := fold_from_empty h
    have hsome : ∀ g ∈ G, g.name.isSome = true := by
      intro g hg
      have : g.name ∈ keys G := List.mem_map_of_mem hg
      rw [hk, mem_firstApp] at this
      obtain ⟨s, hs', hsn⟩ := List.mem_map.1 this
      rw [← hsn]; exact termSyms_name_some s hs'
    have hfilter : G.filter (fun s => s.name.isSome) = G := by
      apply List.filter_eq_self.2; intro g hg; exact hsome g hg
    refine ⟨?_, ?_, ?_, ?_, ?_, ?_⟩
    · intro acc
      rw [hfilter]
      show (keys G).foldl pushNew acc = _
      rw [hk]; exact foldl_pushNew_firstApp _ _
    · intro g hg _; exact hs g hg
    · intro s hs'
      obtain ⟨g, hg, hgn⟩ := hc s hs'
      exact ⟨g, hg, hgn, hsome g hg⟩
    · intro g hg hn; rw [hsome g hg] at hn; cases hn
    · simp only [verbSyms]
      apply List.filter_eq_nil_iff.2
      intro g hg; have := hsome g hg
      cases hn : g.name with
      | none => rw [hn] at this; cases this
      | some x => simp
    · intro _ _ _ _; exact hone

theorem mapE_cons_ok {α β ε} {f : α → Except ε β} {x : α} {xs : List α} {ys : List β}
    (h : mapE f (x :: xs) = .ok ys) : ∃ y ys', f x = .ok y ∧ mapE f xs = .ok ys' ∧ ys = y :: ys' := by
  unfold mapE at h
  cases hf : f x with
  | error e => simp [hf] at h
  | ok y =>
    cases hm : mapE f xs with
    | error e => simp [hf, hm] at h
    | ok ys' => simp [hf, hm] at h; exact ⟨y, ys', rfl, rfl, h.symm⟩

theorem mapE_ok_mem {α β ε} {f : α → Except ε β} : ∀ {xs : List α} {ys : List β}, mapE f xs = .ok ys →
    (∀ y ∈ ys, ∃ x ∈ xs, f x = .ok y) ∧ (∀ x ∈ xs, ∃ y ∈ ys, f x = .ok y) := by
  intro xs
  induction xs with
  | nil => intro ys h; simp [mapE] at h; subst h; simp
  | cons x xs ih =>
    intro ys h
    obtain ⟨y, ys', h1, h2, rfl⟩ := mapE_cons_ok h
    obtain ⟨i1, i2⟩ := ih h2
    constructor
    · intro y' hy'
      rcases List.mem_cons.1 hy' with rfl | hy'
      · exact ⟨x, by simp, h1⟩
      · obtain ⟨x', hx', h'⟩ := i1 y' hy'; exact ⟨x', by simp [hx'], h'⟩
    · intro x' hx'
      rcases List.mem_cons.1 hx' with rfl | hx'
      · exact ⟨y, by simp, h1⟩
      · obtain ⟨y', hy', h'⟩ := i2 x' hx'; exact ⟨y', by simp [hy'], h'⟩

theorem keys_of_groups : ∀ (S : List Stmt) (groups : List (List Symbol)) (acc : List (Option String)),
    mapE stmtSymbols S = .ok groups → (∀ stmt ∈ S, StmtOK stmt) →
    (((groups.flatten.filter (fun s => s.name.isSome)).map (·.name)).foldl pushNew acc)
      = ((scriptOcc S).map (·.name)).foldl pushNew acc := by
  intro S
  induction S with
  | nil => intro groups acc h _; simp [mapE] at h; subst h; simp [scriptOcc]
  | cons stmt S ih =>
    intro groups acc h hok
    obtain ⟨G, groups', h1, h2, rfl⟩ := mapE_cons_ok h
    have hG := (stmt_char h1 (hok stmt (by simp))).1
    simp only [List.flatten_cons, List.filter_append, List.map_append, List.foldl_append, scriptOcc,
      List.flatMap_cons]
    rw [hG acc]
    exact ih groups' _ h2 (fun s hs => hok s (by simp [hs]))

theorem verb_of_groups : ∀ (S : List Stmt) (groups : List (List Symbol)),
    mapE stmtSymbols S = .ok groups → (∀ stmt ∈ S, StmtOK stmt) →
    groups.flatten.filter (fun s => s.name.isNone) = S.flatMap verbSyms := by
  intro S
  induction S with
  | nil => intro groups h _; simp [mapE] at h; subst h; simp
  | cons stmt S ih =>
    intro groups h hok
    obtain ⟨G, groups', h1, h2, rfl⟩ := mapE_cons_ok h
    have hG := (stmt_char h1 (hok stmt (by simp))).2.2.2.2.1
    simp only [List.flatten_cons, List.filter_append, List.flatMap_cons]
    rw [hG, ih groups' h2 (fun s hs => hok s (by simp [hs]))]

/-- **Characterisation of an accepted script.** -/
theorem parseModel_char {S : List Stmt} {syms : List Symbol} (h : parseModel S = .ok syms)
    (hok : ∀ stmt ∈ S, StmtOK stmt) :
    ∃ D V, syms = D ++ V ∧ (∀ v ∈ V, v.name = none ∧ v.type = .verbatim) ∧
      keys D = firstApp ((scriptOcc S).map (·.name)) ∧
      (∀ c ∈ D, Summ c ((scriptOcc S).filter (fun s => s.name = c.name))) ∧
      V = S.flatMap verbSyms := by
  unfold parseModel at h
  cases hm : mapE stmtSymbols S with
  | error e => simp [hm] at h
  | ok groups =>
    simp only [hm] at h
    unfold mergeModel at h
    rw [stepMerge_fold] at h
    cases hf : foldE addSym [] (groups.flatten.filter (fun s => s.name.isSome)) with
    | error e => rw [hf] at h; simp at h
    | ok D =>
      rw [hf] at h
      simp only [List.nil_append] at h
      obtain ⟨mem1, mem2⟩ := mapE_ok_mem hm
      refine ⟨D, groups.flatten.filter (fun s => s.name.isNone), by cases h; rfl, ?_, ?_, ?_,
        verb_of_groups S groups hm hok⟩
      · intro v hv
        obtain ⟨hv1, hv2⟩ := List.mem_filter.1 hv
        obtain ⟨G, hG, hvG⟩ := List.mem_flatten.1 hv1
        obtain ⟨stmt, hst, hs⟩ := mem1 G hG
        have hnone : v.name = none := by simpa using hv2
        refine ⟨hnone, (stmt_char hs (hok stmt hst)).2.2.2.1 v hvG (by simp [hnone])⟩
      · obtain ⟨hk, _⟩ := fold_from_empty hf
        rw [hk]
        have := keys_of_groups S groups [] hm hok
        simpa [firstApp] using this
      · intro c hc
        obtain ⟨_, _, hs, _⟩ := fold_from_empty hf
        have hcs := hs c hc
        apply hcs.trans
        · -- cover
          intro s hs'
          obtain ⟨hs1, hs2⟩ := List.mem_filter.1 hs'
          have hsn : s.name = c.name := by simpa using hs2
          obtain ⟨stmt, hst, hso⟩ := List.mem_flatMap.1 hs1
          obtain ⟨G, hG, hGs⟩ := mem2 stmt hst
          obtain ⟨_, p2, p3, _, _, _⟩ := stmt_char hGs (hok stmt hst)
          obtain ⟨g, hg, hgn, hgs⟩ := p3 s hso
          refine ⟨g, ?_, (stmtOcc stmt).filter (fun s => s.name = g.name), p2 g hg hgs, ?_⟩
          · apply List.mem_filter.2
            refine ⟨List.mem_filter.2 ⟨List.mem_flatten.2 ⟨G, hG, hg⟩, hgs⟩, ?_⟩
            simp [hgn, hsn]
          · exact List.mem_filter.2 ⟨hso, by simp [hgn]⟩
        · -- sub
          intro g hg
          obtain ⟨hg1, hg2⟩ := List.mem_filter.1 hg
          have hgn : g.name = c.name := by simpa using hg2
          obtain ⟨hg3, hgs⟩ := List.mem_filter.1 hg1
          obtain ⟨G, hG, hgG⟩ := List.mem_flatten.1 hg3
          obtain ⟨stmt, hst, hs''⟩ := mem1 G hG
          obtain ⟨_, p2, _, _, _, _⟩ := stmt_char hs'' (hok stmt hst)
          refine ⟨(stmtOcc stmt).filter (fun s => s.name = g.name), p2 g hgG hgs, ?_⟩
          intro s hs'
          obtain ⟨hs1, hs2⟩ := List.mem_filter.1 hs'
          apply List.mem_filter.2
          refine ⟨stmtOcc_subset hst s hs1, ?_⟩
          have : s.name = g.name := by simpa using hs2
          simp [this, hgn]

end Fsic.Parser
