import Proofs.Lemmas.Container
/-
Per-operation lemmas about M6: every operation extends the store (`Ext`), preserves well-formedness (`Inv`)
outside the one operand class that breaks it, and — for single-variable assignments — leaves the store
untouched when it raises anything but an element-conversion error.
-/
set_option linter.unusedSimpArgs false
set_option linter.unusedVariables false
namespace Fsic.Container
open Fsic

variable {cfg : Cfg}

/-- Operands that a whole-series assignment (`obj.X = v`, `obj['X'] = v`, `replace_values(X=v)`) stores as a
    one-dimensional array or rejects: everything except a rectangular nested list whose outer length is the
    span length (which `np.array(v, dtype=…)` turns into a 2-D array whose `shape[0]` passes the length test). -/
def Operand.flatFor (n : Nat) : Operand → Prop
  | .nested rows => ¬ (rect rows = true ∧ rows.length = n)
  | _ => True

instance (n : Nat) (v : Operand) : Decidable (v.flatFor n) := by
  cases v <;> unfold Operand.flatFor <;> infer_instance

/-- The exact guard on an operation (in the store it is applied to): nothing to exclude once `__setattr__`
    compares the whole shape (`cfg.fullShape`). -/
def Op.flatFor (cfg : Cfg) (s : Store) : Op → Prop
  | .setAttr name v _ => cfg.fullShape = true ∨ s.get name = none ∨ v.flatFor s.n
  | .setItem name v => cfg.fullShape = true ∨ s.get name = none ∨ v.flatFor s.n
  | .replaceValues kvs => cfg.fullShape = true ∨ ∀ p ∈ kvs, p.2.flatFor s.n
  | .setValues v _ => cfg.fullShape = true ∨ s.get "values" = none ∨ v.flatFor s.n
  | _ => True

instance (cfg : Cfg) (s : Store) (op : Op) : Decidable (op.flatFor cfg s) := by
  cases op <;> unfold Op.flatFor <;> infer_instance

theorem strictBlocks_true {s : Store} {name : Name} (hs : s.strict = true)
    (h1 : cfg.strictExempt.contains name = false)
    (h2 : s.index.contains name = false) (h3 : s.attrs.contains name = false) : strictBlocks cfg s name = true := by
  unfold strictBlocks
  rw [hs, h1, h2, h3]
  rfl

/-! ### assignAt / assignWhole -/

theorem assignAt_eq (s : Store) (name : Name) (ser : Series) (view : List Nat × List Nat) (v : Operand) :
    assignAt s name ser view v =
      (s.put name (assignView ser view.1 view.2 (srcOfAssign view.2.length ser.dtype.kind v)).1,
       (assignView ser view.1 view.2 (srcOfAssign view.2.length ser.dtype.kind v)).2) := rfl

theorem assignAt_ext {s : Store} {name : Name} {ser : Series} (hg : s.get name = some ser)
    (view : List Nat × List Nat) (v : Operand) : Ext s (assignAt s name ser view v).1 := by
  rw [assignAt_eq]
  exact Ext.put hg (assignView_frame _ _ _ _).1

theorem assignAt_inv {s : Store} (h : Inv s) {name : Name} {ser : Series} (hg : s.get name = some ser)
    (view : List Nat × List Nat) (v : Operand) : Inv (assignAt s name ser view v).1 := by
  rw [assignAt_eq]
  exact h.put (wf_assignView (h.get hg) _ _ _)

theorem assignAt_failed {s : Store} {name : Name} {ser : Series} (hg : s.get name = some ser)
    {view : List Nat × List Nat} {v : Operand} {e : Exc}
    (h : (assignAt s name ser view v).2 = .raised e) (he : e ≠ .valueConv) :
    (assignAt s name ser view v).1 = s := by
  rw [assignAt_eq] at h ⊢
  simp only at h ⊢
  rw [assignView_failed h he]
  exact put_same hg

theorem assignAt_attrs (s : Store) (name : Name) (ser : Series) (view : List Nat × List Nat) (v : Operand) :
    (assignAt s name ser view v).1.attrs = s.attrs ∧ (assignAt s name ser view v).1.strict = s.strict := by
  rw [assignAt_eq]; exact ⟨rfl, rfl⟩

theorem assignWhole_nonseq {s : Store} {name : Name} {ser : Series} {v : Operand}
    (hv : v.isSequence = false) :
    assignWhole cfg s name ser v = assignAt s name ser (viewAll ser) v := by
  unfold assignWhole
  simp only [hv]
  rfl

theorem assignWhole_ext {s : Store} {name : Name} {ser : Series} (hg : s.get name = some ser)
    (v : Operand) : Ext s (assignWhole cfg s name ser v).1 := by
  cases hv : v.isSequence
  · rw [assignWhole_nonseq hv]; exact assignAt_ext hg _ _
  · unfold assignWhole
    simp only [hv, if_true]
    cases hl : listShape v with
    | none => exact Ext.refl s
    | some p =>
      obtain ⟨shp, leaves⟩ := p
      dsimp only
      cases hc : convAll ser.dtype leaves with
      | error e => exact Ext.refl s
      | ok ws =>
        dsimp only
        cases hd : shapeRejected cfg s.n shp with
        | true => simp only [if_true]; exact Ext.refl s
        | false => simp only [Bool.false_eq_true, if_false]; exact Ext.put hg rfl

theorem assignWhole_attrs (s : Store) (name : Name) (ser : Series) (v : Operand) :
    (assignWhole cfg s name ser v).1.attrs = s.attrs ∧ (assignWhole cfg s name ser v).1.strict = s.strict := by
  cases hv : v.isSequence
  · rw [assignWhole_nonseq hv]; exact assignAt_attrs _ _ _ _ _
  · unfold assignWhole
    simp only [hv, if_true]
    cases hl : listShape v with
    | none => exact ⟨rfl, rfl⟩
    | some p =>
      obtain ⟨shp, leaves⟩ := p
      dsimp only
      cases hc : convAll ser.dtype leaves with
      | error e => exact ⟨rfl, rfl⟩
      | ok ws =>
        dsimp only
        cases hd : shapeRejected cfg s.n shp with
        | true => exact ⟨rfl, rfl⟩
        | false => exact ⟨rfl, rfl⟩

theorem assignWhole_inv {s : Store} (h : Inv s) {name : Name} {ser : Series} (hg : s.get name = some ser)
    {v : Operand} (hflat : cfg.fullShape = true ∨ v.flatFor s.n) : Inv (assignWhole cfg s name ser v).1 := by
  cases hv : v.isSequence
  · rw [assignWhole_nonseq hv]; exact assignAt_inv h hg _ _
  · unfold assignWhole
    simp only [hv, if_true]
    cases hl : listShape v with
    | none => exact h
    | some p =>
      obtain ⟨shp, leaves⟩ := p
      dsimp only
      cases hc : convAll ser.dtype leaves with
      | error e => exact h
      | ok ws =>
        dsimp only
        cases hd : shapeRejected cfg s.n shp with
        | true => simp only [if_true]; exact h
        | false =>
          simp only [Bool.false_eq_true, if_false]
          apply h.put
          have hlen := convAll_length hc
          unfold shapeRejected at hd
          by_cases hfs : cfg.fullShape = true
          · -- the whole shape was compared with (n,)
            simp only [hfs, if_true, bne_eq_false_iff_eq] at hd
            cases v with
            | scalar x => simp [Operand.isSequence] at hv
            | ndarray a => simp [Operand.isSequence] at hv
            | list xs =>
              simp only [listShape] at hl
              cases hl
              simp at hd
              exact ⟨by simp [hd], by rw [hlen]; exact hd⟩
            | nested rows =>
              simp only [listShape] at hl
              by_cases hr : rect rows = true
              · simp only [hr, if_true] at hl
                cases hl
                simp at hd
              · simp [hr] at hl
          · simp only [hfs, Bool.false_eq_true, if_false, bne_eq_false_iff_eq] at hd
            have hflat' : v.flatFor s.n := by
              rcases hflat with hf | hf
              · exact absurd hf hfs
              · exact hf
            cases v with
            | scalar x => simp [Operand.isSequence] at hv
            | ndarray a => simp [Operand.isSequence] at hv
            | list xs =>
              simp only [listShape] at hl
              cases hl
              simp at hd
              exact ⟨by simp [hd], by rw [hlen]; exact hd⟩
            | nested rows =>
              simp only [listShape] at hl
              by_cases hr : rect rows = true
              · simp only [hr, if_true] at hl
                cases hl
                simp at hd
                exact absurd ⟨hr, hd⟩ hflat'
              · simp [hr] at hl

theorem assignWhole_failed {s : Store} {name : Name} {ser : Series} (hg : s.get name = some ser)
    {v : Operand} {e : Exc} (h : (assignWhole cfg s name ser v).2 = .raised e) (he : e ≠ .valueConv) :
    (assignWhole cfg s name ser v).1 = s := by
  cases hv : v.isSequence
  · rw [assignWhole_nonseq hv] at h ⊢; exact assignAt_failed hg h he
  · unfold assignWhole at h ⊢
    simp only [hv, if_true] at h ⊢
    cases hl : listShape v with
    | none => rfl
    | some p =>
      obtain ⟨shp, leaves⟩ := p
      rw [hl] at h
      dsimp only at h ⊢
      cases hc : convAll ser.dtype leaves with
      | error e' => rfl
      | ok ws =>
        rw [hc] at h
        dsimp only at h ⊢
        cases hd : shapeRejected cfg s.n shp with
        | true => simp only [if_true]
        | false => rw [hd] at h; simp only [Bool.false_eq_true, if_false] at h; cases h

/-! ### add_variable -/

/-- Arrays `add_variable` builds are one-dimensional. -/
def Series.rank1 (a : Series) : Prop := a.shape = [a.data.length]

theorem fullOf_rank1 {n : Nat} {v : Operand} {a : Series} (h : fullOf n v = .ok a) :
    a.shape = [n] ∧ a.data.length = n := by
  unfold fullOf at h
  cases ha : asArray v with
  | error e => simp only [ha] at h; cases h
  | ok a0 =>
    simp only [ha] at h
    have hf := assignView_frame ⟨a0.dtype, [n], List.replicate n (.i 0)⟩ (List.range n) [n]
      (srcOfAssign 1 a0.dtype.kind (.ndarray a0))
    generalize assignView ⟨a0.dtype, [n], List.replicate n (.i 0)⟩ (List.range n) [n]
      (srcOfAssign 1 a0.dtype.kind (.ndarray a0)) = r at h hf
    obtain ⟨ser, o⟩ := r
    cases o with
    | ok =>
      simp only at h
      cases h
      exact ⟨hf.2.1, by simpa using hf.2.2⟩
    | raised e => simp only at h; cases h

theorem newArray_rank1 {n : Nat} {v : Operand} {a : Series} (h : newArray n v = .ok a) : a.rank1 := by
  unfold newArray at h
  cases hv : v.isSequence
  · simp only [hv] at h
    obtain ⟨h1, h2⟩ := fullOf_rank1 h
    simp [Series.rank1, h1, h2]
  · simp only [hv, if_true] at h
    cases ha : asArray v with
    | error e => simp only [ha] at h; cases h
    | ok a0 => simp only [ha] at h; cases h; rfl

theorem astype_rank1 {k : Option Kind} {a a' : Series} (ha : a.rank1) (h : astype k a = .ok a') :
    a'.rank1 := by
  unfold astype at h
  cases k with
  | none => simp only at h; cases h; exact ha
  | some k =>
    simp only at h
    cases hc : convAll (astypeDtype k a.dtype) a.data with
    | error e => simp only [hc] at h; cases h
    | ok ws =>
      simp only [hc] at h
      cases h
      simp only [Series.rank1] at ha ⊢
      rw [ha, convAll_length hc]

theorem addVariable_cases (cfg : Cfg) (s : Store) (name : Name) (v : Operand) (dtype : Option Kind) :
    (∃ e, addVariable cfg s name v dtype = (s, .raised e)) ∨
    (∃ a, a.rank1 ∧ firstDim a = s.n ∧ ¬ s.index.contains name = true ∧
      ¬ (cfg.addVarChecksAttrs && s.attrs.contains name) = true ∧
      ¬ (cfg.addVarChecksKeys && s.dictKeys.contains ("_" ++ name)) = true ∧
      addVariable cfg s name v dtype = ({ s with vars := s.vars ++ [(name, a)] }, .ok)) := by
  unfold addVariable
  by_cases hc : s.index.contains name = true
  · left; exact ⟨_, by rw [if_pos hc]⟩
  · rw [if_neg hc]
    by_cases hat : (cfg.addVarChecksAttrs && s.attrs.contains name) = true
    · left; exact ⟨_, by rw [if_pos hat]⟩
    · rw [if_neg hat]
      by_cases hk : (cfg.addVarChecksKeys && s.dictKeys.contains ("_" ++ name)) = true
      · left; exact ⟨_, by rw [if_pos hk]⟩
      · rw [if_neg hk]
        cases hn : newArray s.n v with
        | error e => left; exact ⟨e, rfl⟩
        | ok a =>
          dsimp only
          cases ht : astype (effKind s dtype) a with
          | error e => left; exact ⟨e, rfl⟩
          | ok a' =>
            dsimp only
            by_cases hd : firstDim a' ≠ s.n
            · left; exact ⟨.dimension, by rw [if_pos hd]⟩
            · right
              refine ⟨a', astype_rank1 (newArray_rank1 hn) ht, by simpa using hd, hc, hat, hk, ?_⟩
              rw [if_neg hd]

theorem addVariable_ext (s : Store) (name : Name) (v : Operand) (dtype : Option Kind) :
    Ext s (addVariable cfg s name v dtype).1 := by
  rcases addVariable_cases cfg s name v dtype with ⟨e, h⟩ | ⟨a, _, _, _, _, _, h⟩
  · rw [h]; exact Ext.refl s
  · rw [h]; exact Ext.addVar s name a

theorem addVariable_inv {s : Store} (hi : Inv s) (name : Name) (v : Operand) (dtype : Option Kind) :
    Inv (addVariable cfg s name v dtype).1 := by
  rcases addVariable_cases cfg s name v dtype with ⟨e, h⟩ | ⟨a, hr, hd, _, _, _, h⟩
  · rw [h]; exact hi
  · rw [h]
    intro p hp
    simp only [List.mem_append, List.mem_singleton] at hp
    rcases hp with hp | hp
    · exact hi p hp
    · subst hp
      simp only [Series.rank1] at hr
      have : a.data.length = s.n := by
        simp only [firstDim, hr, List.headD_cons] at hd
        exact hd
      exact ⟨by rw [hr, this]; rfl, this⟩

theorem addVariable_failed {s : Store} {name : Name} {v : Operand} {dtype : Option Kind} {e : Exc}
    (h : (addVariable cfg s name v dtype).2 = .raised e) : (addVariable cfg s name v dtype).1 = s := by
  rcases addVariable_cases cfg s name v dtype with ⟨e', h'⟩ | ⟨a, _, _, _, _, _, h'⟩
  · rw [h']
  · rw [h'] at h; cases h

/-- What `add_variable` computes from the store — it reads the index, the span length and the default dtype only. -/
def addVarResult (cfg : Cfg) (s : Store) (name : Name) (v : Operand) (dtype : Option Kind) : Except Exc Series :=
  if s.index.contains name then .error .duplicateName
  else if cfg.addVarChecksAttrs && s.attrs.contains name then .error .duplicateName
  else if cfg.addVarChecksKeys && s.dictKeys.contains ("_" ++ name) then .error .duplicateName
  else match newArray s.n v with
    | .error e => .error e
    | .ok a => match astype (effKind s dtype) a with
      | .error e => .error e
      | .ok a' => if firstDim a' ≠ s.n then .error .dimension else .ok a'

theorem addVariable_eq (s : Store) (name : Name) (v : Operand) (dtype : Option Kind) :
    addVariable cfg s name v dtype = match addVarResult cfg s name v dtype with
      | .error e => (s, .raised e)
      | .ok a => ({ s with vars := s.vars ++ [(name, a)] }, .ok) := by
  unfold addVariable addVarResult
  by_cases hc : name ∈ s.index
  · simp [hc]
  · by_cases hat : cfg.addVarChecksAttrs = true ∧ name ∈ s.attrs
    · simp [hc, hat]
    · by_cases hk : cfg.addVarChecksKeys = true ∧ ("_" ++ name) ∈ s.dictKeys
      · simp [hc, hat, hk]
      · cases hn : newArray s.n v with
        | error e => simp [hc, hat, hk, hn]
        | ok a =>
          cases ht : astype (effKind s dtype) a with
          | error e => simp [hc, hat, hk, hn, ht]
          | ok a' => by_cases hd : firstDim a' = s.n <;> simp [hc, hat, hk, hn, ht, hd]

/-! ### setAttr / setItem / positional and label sets -/

theorem setItem_ext (s : Store) (name : Name) (v : Operand) : Ext s (setItem cfg s name v).1 := by
  unfold setItem
  cases hg : s.get name with
  | none => exact Ext.refl s
  | some ser => exact assignWhole_ext hg v

theorem setItem_inv {s : Store} (h : Inv s) {name : Name} {v : Operand}
    (hflat : cfg.fullShape = true ∨ s.get name = none ∨ v.flatFor s.n) : Inv (setItem cfg s name v).1 := by
  unfold setItem
  cases hg : s.get name with
  | none => exact h
  | some ser =>
    rcases hflat with hf | hf | hf
    · exact assignWhole_inv h hg (Or.inl hf)
    · rw [hg] at hf; cases hf
    · exact assignWhole_inv h hg (Or.inr hf)

theorem setItem_failed {s : Store} {name : Name} {v : Operand} {e : Exc}
    (h : (setItem cfg s name v).2 = .raised e) (he : e ≠ .valueConv) : (setItem cfg s name v).1 = s := by
  unfold setItem at h ⊢
  cases hg : s.get name with
  | none => rfl
  | some ser => simp only [hg] at h ⊢; exact assignWhole_failed hg h he

theorem setItem_attrs (s : Store) (name : Name) (v : Operand) :
    (setItem cfg s name v).1.attrs = s.attrs ∧ (setItem cfg s name v).1.strict = s.strict := by
  unfold setItem
  cases hg : s.get name with
  | none => exact ⟨rfl, rfl⟩
  | some ser => exact assignWhole_attrs _ _ _ _

/-- `add_attribute`: either nothing happens (DuplicateNameError) or the name is appended to the attribute list —
    and then it was neither a variable, nor an attribute, nor (with the key check) the storage key of a variable. -/
theorem addAttribute_cases (cfg : Cfg) (s : Store) (name : Name) :
    addAttribute cfg s name = (s, .raised .duplicateName) ∨
    (addAttribute cfg s name = ({ s with attrs := s.attrs ++ [name] }, .ok) ∧ ¬ s.index.contains name = true ∧
      ¬ s.attrs.contains name = true ∧ ¬ (cfg.addAttrChecksKeys && s.varKeys.contains name) = true) := by
  unfold addAttribute
  by_cases h1 : s.index.contains name = true
  · left; rw [if_pos h1]
  · rw [if_neg h1]
    by_cases h2 : s.attrs.contains name = true
    · left; rw [if_pos h2]
    · rw [if_neg h2]
      by_cases h3 : (cfg.addAttrChecksKeys && s.varKeys.contains name) = true
      · left; rw [if_pos h3]
      · right; rw [if_neg h3]; exact ⟨rfl, h1, h2, h3⟩

theorem addAttribute_all (s : Store) (name : Name) :
    Ext s (addAttribute cfg s name).1 ∧ (Inv s → Inv (addAttribute cfg s name).1) ∧
    (∀ e, (addAttribute cfg s name).2 = .raised e → (addAttribute cfg s name).1 = s) ∧
    (addAttribute cfg s name).1.strict = s.strict ∧ (addAttribute cfg s name).1.index = s.index := by
  rcases addAttribute_cases cfg s name with h | ⟨h, _⟩
  · rw [h]; exact ⟨Ext.refl s, id, fun _ _ => rfl, rfl, rfl⟩
  · rw [h]; exact ⟨Ext.attrs s _ _, id, fun e he => by simp at he, rfl, rfl⟩

theorem setAttr_ext (s : Store) (name : Name) (v : Operand) (alts : List Name) :
    Ext s (setAttr cfg s name v alts).1 := by
  unfold setAttr
  by_cases hb : strictBlocks cfg s name = true
  · simp only [hb, if_true]; exact Ext.refl s
  · simp only [hb]
    cases hg : s.get name with
    | none =>
      dsimp only
      by_cases h1 : (name == "strict") = true
      · simp only [h1, if_true]; exact Ext.attrs s _ _
      · simp only [h1]
        by_cases h2 : s.attrs.contains name = true
        · simp only [h2, if_true]; exact Ext.refl s
        · simp only [h2]; exact (addAttribute_all s name).1
    | some ser => exact assignWhole_ext hg v

theorem setAttr_inv {s : Store} (h : Inv s) {name : Name} {v : Operand} (alts : List Name)
    (hflat : cfg.fullShape = true ∨ s.get name = none ∨ v.flatFor s.n) : Inv (setAttr cfg s name v alts).1 := by
  unfold setAttr
  by_cases hb : strictBlocks cfg s name = true
  · simp only [hb, if_true]; exact h
  · simp only [hb]
    cases hg : s.get name with
    | none =>
      dsimp only
      by_cases h1 : (name == "strict") = true
      · simp only [h1, if_true]; exact h
      · simp only [h1]
        by_cases h2 : s.attrs.contains name = true
        · simp only [h2, if_true]; exact h
        · simp only [h2]; exact (addAttribute_all s name).2.1 h
    | some ser =>
      rcases hflat with hf | hf | hf
      · exact assignWhole_inv h hg (Or.inl hf)
      · rw [hg] at hf; cases hf
      · exact assignWhole_inv h hg (Or.inr hf)

theorem setAttr_failed {s : Store} {name : Name} {v : Operand} {alts : List Name} {e : Exc}
    (h : (setAttr cfg s name v alts).2 = .raised e) (he : e ≠ .valueConv) :
    (setAttr cfg s name v alts).1 = s := by
  unfold setAttr at h ⊢
  by_cases hb : strictBlocks cfg s name = true
  · simp only [hb, if_true]
  · simp only [hb] at h ⊢
    cases hg : s.get name with
    | none =>
      simp only [hg] at h
      by_cases h1 : (name == "strict") = true
      · simp only [h1, if_true] at h; cases h
      · simp only [h1] at h ⊢
        by_cases h2 : s.attrs.contains name = true
        · simp only [h2, if_true] at h; cases h
        · simp only [h2] at h ⊢; exact (addAttribute_all s name).2.2.1 e h
    | some ser => simp only [hg] at h ⊢; exact assignWhole_failed hg h he

theorem setPos_ext (s : Store) (name : Name) (i : Int) (v : Operand) : Ext s (setPos s name i v).1 := by
  unfold setPos
  cases hg : s.get name with
  | none => exact Ext.refl s
  | some ser =>
    dsimp only
    cases hp : pyIndex (firstDim ser) i with
    | none => exact Ext.refl s
    | some p => exact assignAt_ext hg _ _

theorem setPos_inv {s : Store} (h : Inv s) (name : Name) (i : Int) (v : Operand) :
    Inv (setPos s name i v).1 := by
  unfold setPos
  cases hg : s.get name with
  | none => exact h
  | some ser =>
    dsimp only
    cases hp : pyIndex (firstDim ser) i with
    | none => exact h
    | some p => exact assignAt_inv h hg _ _

theorem setPos_failed {s : Store} {name : Name} {i : Int} {v : Operand} {e : Exc}
    (h : (setPos s name i v).2 = .raised e) (he : e ≠ .valueConv) : (setPos s name i v).1 = s := by
  unfold setPos at h ⊢
  cases hg : s.get name with
  | none => rfl
  | some ser =>
    simp only [hg] at h ⊢
    cases hp : pyIndex (firstDim ser) i with
    | none => rfl
    | some p => simp only [hp] at h ⊢; exact assignAt_failed hg h he

theorem setPos_attrs (s : Store) (name : Name) (i : Int) (v : Operand) :
    (setPos s name i v).1.attrs = s.attrs ∧ (setPos s name i v).1.strict = s.strict := by
  unfold setPos
  cases hg : s.get name with
  | none => exact ⟨rfl, rfl⟩
  | some ser =>
    dsimp only
    cases hp : pyIndex (firstDim ser) i with
    | none => exact ⟨rfl, rfl⟩
    | some p => exact assignAt_attrs _ _ _ _ _

theorem setPosSlice_ext (s : Store) (name : Name) (a b : Option Int) (st : Option Int) (v : Operand) :
    Ext s (setPosSlice s name a b st v).1 := by
  unfold setPosSlice
  cases hg : s.get name with
  | none => exact Ext.refl s
  | some ser =>
    dsimp only
    cases hp : pySliceAny (firstDim ser) a b st with
    | none => exact Ext.refl s
    | some ps => exact assignAt_ext hg _ _

theorem setPosSlice_inv {s : Store} (h : Inv s) (name : Name) (a b : Option Int) (st : Option Int)
    (v : Operand) : Inv (setPosSlice s name a b st v).1 := by
  unfold setPosSlice
  cases hg : s.get name with
  | none => exact h
  | some ser =>
    dsimp only
    cases hp : pySliceAny (firstDim ser) a b st with
    | none => exact h
    | some ps => exact assignAt_inv h hg _ _

theorem setPosSlice_failed {s : Store} {name : Name} {a b : Option Int} {st : Option Int} {v : Operand}
    {e : Exc} (h : (setPosSlice s name a b st v).2 = .raised e) (he : e ≠ .valueConv) :
    (setPosSlice s name a b st v).1 = s := by
  unfold setPosSlice at h ⊢
  cases hg : s.get name with
  | none => rfl
  | some ser =>
    simp only [hg] at h ⊢
    cases hp : pySliceAny (firstDim ser) a b st with
    | none => rfl
    | some ps => simp only [hp] at h ⊢; exact assignAt_failed hg h he

theorem setPosSlice_attrs (s : Store) (name : Name) (a b : Option Int) (st : Option Int) (v : Operand) :
    (setPosSlice s name a b st v).1.attrs = s.attrs ∧ (setPosSlice s name a b st v).1.strict = s.strict := by
  unfold setPosSlice
  cases hg : s.get name with
  | none => exact ⟨rfl, rfl⟩
  | some ser =>
    dsimp only
    cases hp : pySliceAny (firstDim ser) a b st with
    | none => exact ⟨rfl, rfl⟩
    | some ps => exact assignAt_attrs _ _ _ _ _

/-- Facts about `assignLoc` bundled (frame, invariant, failure, attributes). -/
theorem assignLoc_all {s : Store} {name : Name} {ser : Series} (hg : s.get name = some ser) (l : Loc)
    (v : Operand) :
    Ext s (assignLoc s name ser l v).1 ∧ (Inv s → Inv (assignLoc s name ser l v).1) ∧
    (∀ e, (assignLoc s name ser l v).2 = .raised e → e ≠ .valueConv → (assignLoc s name ser l v).1 = s) ∧
    (assignLoc s name ser l v).1.attrs = s.attrs ∧ (assignLoc s name ser l v).1.strict = s.strict := by
  cases l with
  | missing => exact ⟨Ext.refl s, id, fun _ _ _ => rfl, rfl, rfl⟩
  | pos p =>
    simp only [assignLoc]
    by_cases hp : p < firstDim ser
    · rw [if_pos hp]
      exact ⟨assignAt_ext hg _ _, fun h => assignAt_inv h hg _ _, fun e h he => assignAt_failed hg h he,
        (assignAt_attrs _ _ _ _ _).1, (assignAt_attrs _ _ _ _ _).2⟩
    · rw [if_neg hp]; exact ⟨Ext.refl s, id, fun _ _ _ => rfl, rfl, rfl⟩
  | nonIntPos p =>
    simp only [assignLoc]
    by_cases hp : p < firstDim ser
    · rw [if_pos hp]
      exact ⟨assignAt_ext hg _ _, fun h => assignAt_inv h hg _ _, fun e h he => assignAt_failed hg h he,
        (assignAt_attrs _ _ _ _ _).1, (assignAt_attrs _ _ _ _ _).2⟩
    · rw [if_neg hp]; exact ⟨Ext.refl s, id, fun _ _ _ => rfl, rfl, rfl⟩
  | slice a b =>
    simp only [assignLoc]
    exact ⟨assignAt_ext hg _ _, fun h => assignAt_inv h hg _ _, fun e h he => assignAt_failed hg h he,
      (assignAt_attrs _ _ _ _ _).1, (assignAt_attrs _ _ _ _ _).2⟩

theorem setLabel_all (s : Store) (name : Name) (label : Nat) (v : Operand) :
    Ext s (setLabel s name label v).1 ∧ (Inv s → Inv (setLabel s name label v).1) ∧
    (∀ e, (setLabel s name label v).2 = .raised e → e ≠ .valueConv → (setLabel s name label v).1 = s) ∧
    (setLabel s name label v).1.attrs = s.attrs ∧ (setLabel s name label v).1.strict = s.strict := by
  unfold setLabel
  cases hg : s.get name with
  | none => exact ⟨Ext.refl s, id, fun _ _ _ => rfl, rfl, rfl⟩
  | some ser =>
    dsimp only
    cases hl : locate s label with
    | missing => exact ⟨Ext.refl s, id, fun _ _ _ => rfl, rfl, rfl⟩
    | pos p => exact assignLoc_all hg _ v
    | nonIntPos p => exact assignLoc_all hg _ v
    | slice a b => exact assignLoc_all hg _ v

theorem setLabelSlice_all (s : Store) (name : Name) (a b : Option Nat) (st : Option Int) (v : Operand) :
    Ext s (setLabelSlice s name a b st v).1 ∧ (Inv s → Inv (setLabelSlice s name a b st v).1) ∧
    (∀ e, (setLabelSlice s name a b st v).2 = .raised e → e ≠ .valueConv →
      (setLabelSlice s name a b st v).1 = s) ∧
    (setLabelSlice s name a b st v).1.attrs = s.attrs ∧ (setLabelSlice s name a b st v).1.strict = s.strict := by
  unfold setLabelSlice
  cases hg : s.get name with
  | none => exact ⟨Ext.refl s, id, fun _ _ _ => rfl, rfl, rfl⟩
  | some ser =>
    dsimp only
    cases hr : resolveSlice s a b st with
    | error e => exact ⟨Ext.refl s, id, fun _ _ _ => rfl, rfl, rfl⟩
    | ok t =>
      obtain ⟨lo, hi, step⟩ := t
      dsimp only
      cases hp : pySliceAny (firstDim ser) (some ↑lo) (some ↑hi) (some step) with
      | none => exact ⟨Ext.refl s, id, fun _ _ _ => rfl, rfl, rfl⟩
      | some ps =>
        exact ⟨assignAt_ext hg _ _, fun h => assignAt_inv h hg _ _, fun e h he => assignAt_failed hg h he,
          (assignAt_attrs _ _ _ _ _).1, (assignAt_attrs _ _ _ _ _).2⟩

/-! ### Bulk operations -/

theorem replaceValues_ext (s : Store) (kvs : List (Name × Operand)) : Ext s (replaceValues cfg s kvs).1 := by
  induction kvs generalizing s with
  | nil => exact Ext.refl s
  | cons p rest ih =>
    obtain ⟨k, v⟩ := p
    unfold replaceValues
    have h1 := setItem_ext (cfg := cfg) s k v
    generalize setItem cfg s k v = r at h1
    obtain ⟨s', o⟩ := r
    cases o with
    | ok => exact h1.trans (ih s')
    | raised e => exact h1

theorem replaceValues_inv {s : Store} (h : Inv s) {kvs : List (Name × Operand)}
    (hflat : cfg.fullShape = true ∨ ∀ p ∈ kvs, p.2.flatFor s.n) : Inv (replaceValues cfg s kvs).1 := by
  induction kvs generalizing s with
  | nil => exact h
  | cons p rest ih =>
    obtain ⟨k, v⟩ := p
    unfold replaceValues
    have h1 := setItem_inv (cfg := cfg) h (name := k) (v := v)
      (hflat.elim Or.inl (fun hf => Or.inr (Or.inr (hf (k, v) (by simp)))))
    have h2 := (setItem_ext (cfg := cfg) s k v).n
    generalize setItem cfg s k v = r at h1 h2
    obtain ⟨s', o⟩ := r
    cases o with
    | ok =>
      apply ih h1
      rcases hflat with hf | hf
      · exact Or.inl hf
      · right
        intro q hq
        simp only at h2
        rw [h2]
        exact hf q (List.mem_cons_of_mem _ hq)
    | raised e => exact h1

theorem replaceValues_attrs (s : Store) (kvs : List (Name × Operand)) :
    (replaceValues cfg s kvs).1.attrs = s.attrs ∧ (replaceValues cfg s kvs).1.strict = s.strict := by
  induction kvs generalizing s with
  | nil => exact ⟨rfl, rfl⟩
  | cons p rest ih =>
    obtain ⟨k, v⟩ := p
    unfold replaceValues
    have h1 := setItem_attrs (cfg := cfg) s k v
    generalize setItem cfg s k v = r at h1
    obtain ⟨s', o⟩ := r
    cases o with
    | ok => exact ⟨(ih s').1.trans h1.1, (ih s').2.trans h1.2⟩
    | raised e => exact h1

theorem setRowArray_all (s : Store) (name : Name) (row : Series) :
    Ext s (setRowArray cfg s name row).1 ∧ (Inv s → Inv (setRowArray cfg s name row).1) ∧
    (setRowArray cfg s name row).1.attrs = s.attrs ∧ (setRowArray cfg s name row).1.strict = s.strict := by
  unfold setRowArray
  cases hg : s.get name with
  | none => exact ⟨Ext.refl s, id, rfl, rfl⟩
  | some ser =>
    exact ⟨assignWhole_ext hg _, fun h => assignWhole_inv h hg (Or.inr (by simp [Operand.flatFor])),
      (assignWhole_attrs _ _ _ _).1, (assignWhole_attrs _ _ _ _).2⟩

theorem setValuesRows_all (s : Store) (rowShape : List Nat) (dt : Dtype) (names : List Name)
    (rows : List (List Val)) :
    Ext s (setValuesRows cfg s rowShape dt names rows).1 ∧
    (Inv s → Inv (setValuesRows cfg s rowShape dt names rows).1) ∧
    (setValuesRows cfg s rowShape dt names rows).1.attrs = s.attrs ∧
    (setValuesRows cfg s rowShape dt names rows).1.strict = s.strict := by
  induction names generalizing s rows with
  | nil => unfold setValuesRows; exact ⟨Ext.refl s, id, rfl, rfl⟩
  | cons name names ih =>
    cases rows with
    | nil => unfold setValuesRows; exact ⟨Ext.refl s, id, rfl, rfl⟩
    | cons row rows =>
      unfold setValuesRows
      cases hg : s.get name with
      | none => exact ⟨Ext.refl s, id, rfl, rfl⟩
      | some ser =>
        dsimp only
        cases hc : convAll ser.dtype row with
        | error e => exact ⟨Ext.refl s, id, rfl, rfl⟩
        | ok ws =>
          dsimp only
          have h1 := setRowArray_all (cfg := cfg) s name ⟨ser.dtype, rowShape, ws⟩
          generalize setRowArray cfg s name ⟨ser.dtype, rowShape, ws⟩ = r at h1
          obtain ⟨s', o⟩ := r
          cases o with
          | ok =>
            have h2 := ih s' rows
            exact ⟨h1.1.trans h2.1, fun h => h2.2.1 (h1.2.1 h), h2.2.2.1.trans h1.2.2.1,
              h2.2.2.2.trans h1.2.2.2⟩
          | raised e => exact h1

theorem setValuesFill_all (s : Store) (v : Operand) (names : List Name) :
    Ext s (setValuesFill cfg s v names).1 ∧ (Inv s → Inv (setValuesFill cfg s v names).1) ∧
    (setValuesFill cfg s v names).1.attrs = s.attrs ∧ (setValuesFill cfg s v names).1.strict = s.strict := by
  induction names generalizing s with
  | nil => unfold setValuesFill; exact ⟨Ext.refl s, id, rfl, rfl⟩
  | cons name names ih =>
    unfold setValuesFill
    cases hg : s.get name with
    | none => exact ⟨Ext.refl s, id, rfl, rfl⟩
    | some ser =>
      dsimp only
      cases ha : asArray v with
      | error e => exact ⟨Ext.refl s, id, rfl, rfl⟩
      | ok a =>
        dsimp only
        generalize assignView ⟨ser.dtype, ser.shape, ser.data⟩ (viewAll ser).1 (viewAll ser).2
          (Src.cast (stripTo ser.shape.length a.shape) a.data) = q
        obtain ⟨full, o⟩ := q
        cases o with
        | raised e => exact ⟨Ext.refl s, id, rfl, rfl⟩
        | ok =>
          dsimp only
          have h1 := setRowArray_all (cfg := cfg) s name full
          generalize setRowArray cfg s name full = r at h1
          obtain ⟨s', o'⟩ := r
          cases o' with
          | ok =>
            have h2 := ih s'
            exact ⟨h1.1.trans h2.1, fun h => h2.2.1 (h1.2.1 h), h2.2.2.1.trans h1.2.2.1,
              h2.2.2.2.trans h1.2.2.2⟩
          | raised e => exact h1

theorem setValuesCore_all (s : Store) (v : Operand) :
    Ext s (setValuesCore cfg s v).1 ∧ (Inv s → Inv (setValuesCore cfg s v).1) ∧
    (setValuesCore cfg s v).1.attrs = s.attrs ∧ (setValuesCore cfg s v).1.strict = s.strict := by
  unfold setValuesCore
  cases v with
  | ndarray a =>
    dsimp only
    cases hv : valuesShape s with
    | error e => exact ⟨Ext.refl s, id, rfl, rfl⟩
    | ok vs =>
      dsimp only
      by_cases hs : a.shape ≠ vs
      · rw [if_pos hs]; exact ⟨Ext.refl s, id, rfl, rfl⟩
      · rw [if_neg hs]; exact setValuesRows_all _ _ _ _ _
  | scalar x => exact setValuesFill_all _ _ _
  | list xs => exact setValuesFill_all _ _ _
  | nested rows => exact setValuesFill_all _ _ _

end Fsic.Container
