import Proofs.Lemmas.HeapSiblings
/-
Executable checkers for the hypotheses of the C11 theorems (`WF`, `ClassOK`, `WorldOK2`) with their soundness
lemmas — used for the non-vacuity examples (`decide`) and by the driver, which evaluates them on the heaps of the
correspondence programs.
-/
set_option linter.unusedSimpArgs false
set_option linter.unusedVariables false
namespace Fsic.Heap

def refsBelow (n : Nat) : List (String × Val) → Bool
  | [] => true
  | (_, .ref c) :: ss => decide (c < n) && refsBelow n ss
  | (_, .imm _) :: ss => refsBelow n ss

theorem refsBelow_sound {n : Nat} : ∀ {ss : List (String × Val)}, refsBelow n ss = true →
    ∀ k c, (k, Val.ref c) ∈ ss → c < n := by
  intro ss
  induction ss with
  | nil => intro _ k c hm; simp at hm
  | cons kv ss ih =>
    intro hb k c hm
    obtain ⟨k0, v0⟩ := kv
    cases v0 with
    | imm i =>
      simp only [refsBelow] at hb
      rcases List.mem_cons.mp hm with h1 | h1
      · cases h1
      · exact ih hb k c h1
    | ref c0 =>
      simp only [refsBelow, Bool.and_eq_true, decide_eq_true_eq] at hb
      rcases List.mem_cons.mp hm with h1 | h1
      · cases h1; exact hb.1
      · exact ih hb.2 k c h1

def wfB (h : Heap) : Bool := h.all fun o => refsBelow h.length o.slots

theorem wf_of_check {h : Heap} (hb : wfB h = true) : WF h := by
  intro l o k c ho hm
  have := List.all_eq_true.mp hb o (List.mem_of_getElem? ho)
  exact refsBelow_sound this k c hm

def noRefs (ss : List (String × Val)) : Bool := refsBelow 0 ss

theorem noRefs_sound {ss : List (String × Val)} (hb : noRefs ss = true) : ∀ k c, (k, Val.ref c) ∉ ss := by
  intro k c hm
  have := refsBelow_sound hb k c hm
  omega

/-- Every class-level attribute that is an object holds immutable entries only. -/
def classOKB (h : Heap) (cd : ClassDesc) : Bool :=
  decide (cd.attrs < h.length) &&
  match h[cd.attrs]? with
  | none => true
  | some a => a.slots.all fun kv =>
    match getObj h kv.2 with
    | none => true
    | some o => noRefs o.slots

theorem classOK_of_check {h : Heap} {cd : ClassDesc} (hb : classOKB h cd = true) : ClassOK h cd := by
  simp only [classOKB, Bool.and_eq_true, decide_eq_true_eq] at hb
  refine ⟨hb.1, ?_⟩
  intro k o ho
  unfold classAttr at ho
  cases ha : h[cd.attrs]? with
  | none => simp [ha, getObj] at ho
  | some a =>
    simp only [ha] at ho hb
    cases hl : a.slots.lookup k with
    | none => simp [hl, getObj] at ho
    | some v =>
      simp only [hl, Option.getD_some] at ho
      have := List.all_eq_true.mp hb.2 (k, v) (lookup_mem _ _ _ hl)
      simp only [ho] at this
      exact noRefs_sound this

def keysOf (o : Obj) : List String := o.slots.map Prod.fst

/-- The per-instance conditions of `WorldOK2`. -/
def instOKB (cs : List ClassDesc) (h : Heap) (o : Obj) : Bool :=
  match o.kind with
  | .inst ci =>
    decide (keysOf o).Nodup &&
    (match getObj h ((o.slots.lookup "submodels").getD (.imm .none)) with
      | none => true
      | some d => decide (d.kind = .dict)) &&
    (match cs[ci]? with
      | none => true
      | some cd =>
        (decide (cd.base = .container) ||
          (decide ("endogenous" ∈ keysOf o) && decide ("check" ∈ keysOf o))) &&
        (ctorKeys cd (modelNames h cd)).all fun k => decide (k ∈ keysOf o))
  | _ => true

def worldOK2B (cs : List ClassDesc) (h : Heap) : Bool :=
  wfB h && cs.all (classOKB h) && h.all (instOKB cs h)

theorem worldOK2_of_check {cs : List ClassDesc} {h : Heap} (hb : worldOK2B cs h = true) : WorldOK2 cs h := by
  simp only [worldOK2B, Bool.and_eq_true] at hb
  obtain ⟨⟨h1, h2⟩, h3⟩ := hb
  have inst : ∀ (l : Nat) (o : Obj), h[l]? = some o → instOKB cs h o = true :=
    fun l o ho => List.all_eq_true.mp h3 o (List.mem_of_getElem? ho)
  refine { wf := wf_of_check h1, classes := ?_, insts := ?_, nodup := ?_, ctor := ?_, subDict := ?_ }
  · intro ci cd hcd
    exact classOK_of_check (List.all_eq_true.mp h2 cd (List.mem_of_getElem? hcd))
  · intro l o ci cd ho hk hcd hnc
    have := inst l o ho
    simp only [instOKB, hk, hcd, Bool.and_eq_true, Bool.or_eq_true, decide_eq_true_eq] at this
    rcases this.2.1 with h4 | h4
    · exact absurd h4 hnc
    · exact h4
  · intro l o ci ho hk
    have := inst l o ho
    simp only [instOKB, hk, Bool.and_eq_true, decide_eq_true_eq] at this
    exact this.1.1
  · intro l o ci cd ho hk hcd k hmem
    have := inst l o ho
    simp only [instOKB, hk, hcd, Bool.and_eq_true] at this
    have := List.all_eq_true.mp this.2.2 k hmem
    simp only [decide_eq_true_eq] at this
    exact this
  · intro l o d ci ho hk hd
    have := inst l o ho
    simp only [instOKB, hk, hd, Bool.and_eq_true, decide_eq_true_eq] at this
    exact this.1.2

/-- All steps of a history are local (create no reference to an object outside the root's own reach). -/
def stepsLocal (steps : List Step) : Bool := steps.all Step.isLocal

theorem stepsLocal_sound {steps : List Step} (hb : stepsLocal steps = true) : ∀ s, s ∈ steps → s.isLocal = true :=
  fun s hs => List.all_eq_true.mp hb s hs

end Fsic.Heap
