import Proofs.Lemmas.HeapSiblings
/-
Executable checkers for the hypotheses of the C11 theorems (`WF`, `ClassOK`, `WorldOK2`) with their soundness
lemmas — used for the non-vacuity examples (`decide`) and by the driver, which evaluates them on the heaps of the
correspondence programs.
-/
set_option linter.unusedSimpArgs false
set_option linter.unusedVariables false
namespace Fsic.Heap

theorem refsBelow_sound {n : Nat} : ∀ {ss : List (String × Val)}, refsBelow n ss = true →
    ∀ k c, (k, Val.ref c) ∈ ss → c < n := by
  intro ss
  induction ss with
  | nil => intro _ k c hm; simp at hm
  | cons kv ss ih =>
    intro hb k c hm
    obtain ⟨k0, v0⟩ := kv
    cases v0 with
    | imm i =>
      simp only [refsBelow] at hb
      rcases List.mem_cons.mp hm with h1 | h1
      · cases h1
      · exact ih hb k c h1
    | ref c0 =>
      simp only [refsBelow, Bool.and_eq_true, decide_eq_true_eq] at hb
      rcases List.mem_cons.mp hm with h1 | h1
      · cases h1; exact hb.1
      · exact ih hb.2 k c h1

theorem wf_of_check {h : Heap} (hb : wfB h = true) : WF h := by
  intro l o k c ho hm
  have := List.all_eq_true.mp hb o (List.mem_of_getElem? ho)
  exact refsBelow_sound this k c hm

theorem noRefs_sound {ss : List (String × Val)} (hb : noRefs ss = true) : ∀ k c, (k, Val.ref c) ∉ ss := by
  intro k c hm
  have := refsBelow_sound hb k c hm
  omega

theorem classOK_of_check {h : Heap} {cd : ClassDesc} (hb : classOKB h cd = true) : ClassOK h cd := by
  simp only [classOKB, Bool.and_eq_true, decide_eq_true_eq] at hb
  refine ⟨hb.1, ?_⟩
  intro k o ho
  unfold classAttr at ho
  cases ha : h[cd.attrs]? with
  | none => simp [ha, getObj] at ho
  | some a =>
    simp only [ha] at ho hb
    cases hl : a.slots.lookup k with
    | none => simp [hl, getObj] at ho
    | some v =>
      simp only [hl, Option.getD_some] at ho
      have := List.all_eq_true.mp hb.2 (k, v) (lookup_mem _ _ _ hl)
      simp only [ho] at this
      exact noRefs_sound this

theorem worldOK2_of_check {cs : List ClassDesc} {h : Heap} (hb : worldOK2B cs h = true) : WorldOK2 cs h := by
  simp only [worldOK2B, Bool.and_eq_true] at hb
  obtain ⟨⟨h1, h2⟩, h3⟩ := hb
  have inst : ∀ (l : Nat) (o : Obj), h[l]? = some o → instOKB cs h o = true :=
    fun l o ho => List.all_eq_true.mp h3 o (List.mem_of_getElem? ho)
  refine { wf := wf_of_check h1, classes := ?_, nodup := ?_, ctor := ?_, subDict := ?_ }
  · intro ci cd hcd
    exact classOK_of_check (List.all_eq_true.mp h2 cd (List.mem_of_getElem? hcd))
  · intro l o ci ho hk
    have := inst l o ho
    simp only [instOKB, hk, Bool.and_eq_true, decide_eq_true_eq] at this
    exact this.1.1
  · intro l o ci cd ho hk hcd k hmem
    have := inst l o ho
    simp only [instOKB, hk, hcd, Bool.and_eq_true] at this
    have := List.all_eq_true.mp this.2 k hmem
    simp only [decide_eq_true_eq] at this
    exact this
  · intro l o d ci ho hk hd
    have := inst l o ho
    simp only [instOKB, hk, hd, Bool.and_eq_true, decide_eq_true_eq] at this
    exact this.1.2

end Fsic.Heap
