import FsicModel.Alias
/-
Helper lemmas for C18 (alias maps: look-up, chains, the shortening loop).  The property theorems are in
`Proofs/C18.lean`; lemmas about the export are in `Proofs/Lemmas/AliasExport.lean`, about the container in
`Proofs/Lemmas/AliasStore.lean`.
-/
set_option linter.unusedSectionVars false
set_option linter.unusedSimpArgs false
namespace Fsic.Alias
variable {α : Type} [DecidableEq α]

/-! ### look-up -/

theorem get_eq_none_iff (m : AMap α) (x : α) : get m x = none ↔ x ∉ keys m := by
  induction m with
  | nil => simp [get, keys]
  | cons p m ih =>
    by_cases h : p.1 = x
    · simp [get, keys, h]
    · simp only [get, h, if_false, ih, keys, List.map_cons, List.mem_cons]
      constructor
      · intro h1 h2; rcases h2 with h2 | h2
        · exact h h2.symm
        · exact h1 h2
      · intro h1 h2; exact h1 (Or.inr h2)

theorem get_some_mem {m : AMap α} {x v : α} (h : get m x = some v) : (x, v) ∈ m := by
  induction m with
  | nil => simp [get] at h
  | cons p m ih =>
    by_cases hp : p.1 = x
    · simp [get, hp] at h
      have : p = (x, v) := by cases p; simp_all
      simp [this]
    · simp [get, hp] at h
      exact List.mem_cons_of_mem _ (ih h)

theorem get_of_mem {m : AMap α} (hwf : WF m) {k v : α} (h : (k, v) ∈ m) : get m k = some v := by
  induction m with
  | nil => cases h
  | cons p m ih =>
    have hnd : p.1 ∉ keys m ∧ (keys m).Nodup := by simpa [WF, keys] using hwf
    rcases List.mem_cons.mp h with h | h
    · subst h; simp [get]
    · have hk : k ∈ keys m := List.mem_map.mpr ⟨(k, v), h, rfl⟩
      have hne : p.1 ≠ k := fun e => hnd.1 (e ▸ hk)
      simp [get, hne, ih hnd.2 h]

theorem mem_keys_of_mem {m : AMap α} {k v : α} (h : (k, v) ∈ m) : k ∈ keys m :=
  List.mem_map.mpr ⟨(k, v), h, rfl⟩

theorem mem_vals_of_mem {m : AMap α} {k v : α} (h : (k, v) ∈ m) : v ∈ vals m :=
  List.mem_map.mpr ⟨(k, v), h, rfl⟩

theorem resolve_of_not_key {m : AMap α} {x : α} (h : x ∉ keys m) : resolve m x = x := by
  simp [resolve, (get_eq_none_iff m x).mpr h]

theorem resolve_of_mem {m : AMap α} (hwf : WF m) {k v : α} (h : (k, v) ∈ m) : resolve m k = v := by
  simp [resolve, get_of_mem hwf h]

/-- `resolve` either leaves a name alone or returns the value of an item. -/
theorem resolve_cases (m : AMap α) (x : α) : (x ∉ keys m ∧ resolve m x = x) ∨ (x, resolve m x) ∈ m := by
  cases h : get m x with
  | none => exact Or.inl ⟨(get_eq_none_iff m x).mp h, by simp [resolve, h]⟩
  | some v => exact Or.inr (by simpa [resolve, h] using get_some_mem h)

/-! ### the exit test -/

theorem chained_iff (m : AMap α) : chained m = true ↔ ∃ k, k ∈ keys m ∧ k ∈ vals m := by
  simp [chained]

theorem not_chained_iff (m : AMap α) : chained m = false ↔ ∀ k, k ∈ keys m → k ∉ vals m := by
  rw [← Bool.not_eq_true, chained_iff]
  constructor
  · intro h k hk hv; exact h ⟨k, hk, hv⟩
  · intro h ⟨k, hk, hv⟩; exact h k hk hv

/-- On a map that passed the exit test `_resolve_alias` is idempotent. -/
theorem resolve_idem {m : AMap α} (h : chained m = false) (x : α) : resolve m (resolve m x) = resolve m x := by
  rcases resolve_cases m x with ⟨_, h2⟩ | h1
  · rw [h2, h2]
  · exact resolve_of_not_key fun hk => (not_chained_iff m).mp h _ hk (mem_vals_of_mem h1)

theorem resolve_not_key {m : AMap α} (h : chained m = false) (x : α) : resolve m x ∉ keys m := by
  rcases resolve_cases m x with ⟨h1, h2⟩ | h1
  · rwa [h2]
  · exact fun hk => (not_chained_iff m).mp h _ hk (mem_vals_of_mem h1)

/-- The `k != v` filter removes nothing from a map that passed the exit test: it is dead code. -/
theorem dropSelf_of_not_chained {m : AMap α} (h : chained m = false) : dropSelf m = m := by
  apply List.filter_eq_self.mpr
  intro p hp
  have : p.1 ∉ vals m := (not_chained_iff m).mp h _ (mem_keys_of_mem (v := p.2) hp)
  have h2 : p.2 ∈ vals m := mem_vals_of_mem (k := p.1) hp
  simp only [decide_eq_true_eq]
  intro e; exact this (e ▸ h2)

/-! ### chains -/

theorem follow_succ' (m : AMap α) (n : Nat) (x : α) : follow m (n + 1) x = resolve m (follow m n x) := by
  induction n generalizing x with
  | zero => rfl
  | succ n ih => rw [follow, ih, follow]

theorem follow_add (m : AMap α) (a b : Nat) (x : α) : follow m (a + b) x = follow m b (follow m a x) := by
  induction a generalizing x with
  | zero => simp [follow]
  | succ a ih => rw [Nat.succ_add, follow, ih, follow]

theorem follow_fixed {m : AMap α} {x : α} (h : x ∉ keys m) (n : Nat) : follow m n x = x := by
  induction n with
  | zero => rfl
  | succ n ih => rw [follow, resolve_of_not_key h, ih]

/-- Once a chain has left the key set it stays where it is. -/
theorem follow_stable {m : AMap α} {x : α} {n : Nat} (h : follow m n x ∉ keys m) (d : Nat) :
    follow m (n + d) x = follow m n x := by
  rw [follow_add, follow_fixed h]

theorem follow_mem_of_le {m : AMap α} {x : α} {n n' : Nat} (hle : n ≤ n') (h : follow m n' x ∈ keys m) :
    follow m n x ∈ keys m := by
  apply Classical.byContradiction
  intro hn
  have := follow_stable hn (n' - n)
  rw [show n + (n' - n) = n' by omega] at this
  exact hn (this ▸ h)

/-- The declared map with every alias sent `n` steps along its chain. -/
def mapTo (m : AMap α) (n : Nat) : AMap α := m.map fun p => (p.1, follow m n p.1)

theorem keys_mapTo (m : AMap α) (n : Nat) : keys (mapTo m n) = keys m := by
  simp [keys, mapTo, List.map_map, Function.comp_def]

theorem get_map_key (f : α → α) (l : AMap α) (x : α) :
    get (l.map fun p => (p.1, f p.1)) x = if x ∈ keys l then some (f x) else none := by
  induction l with
  | nil => simp [get, keys]
  | cons p l ih =>
    by_cases h : p.1 = x
    · simp [get, keys, h]
    · have h' : ¬ x = p.1 := fun e => h e.symm
      simp only [List.map_cons, get, h, if_false, ih, keys, List.mem_cons, h', false_or]
      congr

theorem resolve_mapTo (m : AMap α) (n : Nat) (x : α) : resolve (mapTo m n) x = follow m n x := by
  unfold resolve mapTo
  rw [get_map_key]
  by_cases h : x ∈ keys m
  · simp [h]
  · simp [h, follow_fixed h]

theorem shortenStep_mapTo (m : AMap α) (n : Nat) : shortenStep (mapTo m n) = mapTo m (n + n) := by
  unfold shortenStep
  conv => lhs; arg 1; ext p; rw [resolve_mapTo]
  simp [mapTo, List.map_map, Function.comp_def, follow_add]

theorem mapTo_one {m : AMap α} (hwf : WF m) : mapTo m 1 = m := by
  unfold mapTo
  conv => rhs; rw [← List.map_id m]
  apply List.map_congr_left
  intro p hp
  have : resolve m p.1 = p.2 := resolve_of_mem hwf (k := p.1) (v := p.2) hp
  simp [follow, this]

/-- Some alias is still pointing at an alias after `n` steps. -/
def Stays (m : AMap α) (n : Nat) : Prop := ∃ k, k ∈ keys m ∧ follow m n k ∈ keys m

theorem chained_mapTo (m : AMap α) (n : Nat) : chained (mapTo m n) = true ↔ Stays m n := by
  rw [chained_iff, keys_mapTo]
  simp only [vals, mapTo, List.map_map, Function.comp_def, List.mem_map, Stays]
  constructor
  · rintro ⟨k, hk, p, hp, rfl⟩
    exact ⟨p.1, mem_keys_of_mem (v := p.2) hp, hk⟩
  · rintro ⟨k, hk, hf⟩
    obtain ⟨p, hp, rfl⟩ := List.mem_map.mp hk
    exact ⟨_, hf, p, hp, rfl⟩

theorem stays_of_le {m : AMap α} {n n' : Nat} (hle : n ≤ n') (h : Stays m n') : Stays m n := by
  obtain ⟨k, hk, hf⟩ := h
  exact ⟨k, hk, follow_mem_of_le hle hf⟩

/-- Two step counts after both of which no alias points at an alias give the same map. -/
theorem mapTo_eq_of_not_stays {m : AMap α} {a b : Nat} (ha : ¬ Stays m a) (hb : ¬ Stays m b) :
    mapTo m a = mapTo m b := by
  unfold mapTo
  apply List.map_congr_left
  intro p hp
  have hk := mem_keys_of_mem (v := p.2) hp
  have h1 : follow m a p.1 ∉ keys m := fun h => ha ⟨_, hk, h⟩
  have h2 : follow m b p.1 ∉ keys m := fun h => hb ⟨_, hk, h⟩
  have e1 := follow_stable h1 b
  have e2 := follow_stable h2 a
  rw [Nat.add_comm] at e2
  rw [← e1, e2]

/-! ### the loop -/

/-- If no alias points at an alias after `N` steps, a loop that has at least `N + 1 - n` passes left (distances
    double with every pass) `break`s, with every alias sent `N` steps along. -/
theorem shortenLoop_exits {m : AMap α} {N : Nat} (hN : ¬ Stays m N) :
    ∀ (f r n : Nat), 1 ≤ n → N ≤ f + n →
      ∃ r', shortenLoop (f + 1) r (mapTo m n) = .exited r' (mapTo m N) ∧ (r' = r ∨ r' + n ≤ r + N) := by
  intro f
  induction f with
  | zero =>
    intro r n hn hf
    have hns : ¬ Stays m n := fun h => hN (stays_of_le (by omega) h)
    have hc : chained (mapTo m n) = false := by
      rw [← Bool.not_eq_true, chained_mapTo]; exact hns
    refine ⟨r, ?_, Or.inl rfl⟩
    rw [← mapTo_eq_of_not_stays hns hN]
    simp [shortenLoop, hc]
  | succ f ih =>
    intro r n hn hf
    by_cases hs : Stays m n
    · have hc : chained (mapTo m n) = true := (chained_mapTo m n).mpr hs
      have hlt : n < N := by
        apply Classical.byContradiction; intro h
        exact hN (stays_of_le (by omega) hs)
      obtain ⟨r', h1, h2⟩ := ih (r + 1) (n + n) (by omega) (by omega)
      refine ⟨r', ?_, Or.inr ?_⟩
      · rw [shortenLoop]; simp only [hc, if_true, shortenStep_mapTo]; exact h1
      · omega
    · have hc : chained (mapTo m n) = false := by
        rw [← Bool.not_eq_true, chained_mapTo]; exact hs
      refine ⟨r, ?_, Or.inl rfl⟩
      rw [← mapTo_eq_of_not_stays hs hN]
      simp [shortenLoop, hc]

/-- If some alias points at an alias after every number of steps, no pass `break`s: the range runs out. -/
theorem shortenLoop_exhausts {m : AMap α} (h : ∀ n, Stays m n) :
    ∀ (fuel r n : Nat), shortenLoop fuel r (mapTo m n) = .exhausted := by
  intro fuel
  induction fuel with
  | zero => intro r n; simp [shortenLoop]
  | succ f ih => intro r n; simp [shortenLoop, (chained_mapTo m n).mpr (h n), shortenStep_mapTo, ih]

/-! ### pigeonhole: a chain that ever leaves the key set does so within `|m|` steps -/

theorem inj_bound : ∀ (n : Nat) (s : List α) (g : Nat → α), (∀ i, i ≤ n → g i ∈ s) →
    (∀ i j, i < j → j ≤ n → g i ≠ g j) → n + 1 ≤ s.length := by
  intro n
  induction n with
  | zero =>
    intro s g hmem _
    have := hmem 0 (Nat.le_refl 0)
    cases s with
    | nil => cases this
    | cons a s => simp
  | succ n ih =>
    intro s g hmem hinj
    have h0 : g 0 ∈ s := hmem 0 (by omega)
    have := ih (s.erase (g 0)) (fun i => g (i + 1))
      (fun i hi => (List.mem_erase_of_ne (fun e => hinj 0 (i + 1) (by omega) (by omega) e.symm)).mpr
        (hmem (i + 1) (by omega)))
      (fun i j hij hj => hinj (i + 1) (j + 1) (by omega) (by omega))
    rw [List.length_erase_of_mem h0] at this
    have hpos : 0 < s.length := List.length_pos_of_mem h0
    omega

theorem follow_periodic {m : AMap α} {x : α} {i d : Nat} (h : follow m (i + d) x = follow m i x) (t : Nat) :
    follow m (i + t * d) x = follow m i x := by
  induction t with
  | zero => simp
  | succ t ih =>
    rw [show i + (t + 1) * d = (i + d) + t * d by rw [Nat.succ_mul]; omega, follow_add, h, ← follow_add, ih]

theorem leaves_within_length {m : AMap α} {k : α} (hex : ∃ n, follow m n k ∉ keys m) :
    follow m m.length k ∉ keys m := by
  intro hL
  have hall : ∀ i, i ≤ m.length → follow m i k ∈ keys m := fun i hi => follow_mem_of_le hi hL
  have hrep : ∃ i j, i < j ∧ j ≤ m.length ∧ follow m i k = follow m j k := by
    apply Classical.byContradiction
    intro hno
    have := inj_bound m.length (keys m) (fun i => follow m i k) hall
      (fun i j hij hj e => hno ⟨i, j, hij, hj, e⟩)
    simp [keys] at this
    omega
  obtain ⟨i, j, hij, hj, e⟩ := hrep
  obtain ⟨n, hn⟩ := hex
  have hper := follow_periodic (m := m) (x := k) (i := i) (d := j - i)
    (by rw [show i + (j - i) = j by omega]; exact e.symm) (n + 1)
  have hd : 1 ≤ j - i := by omega
  have hge : n ≤ i + (n + 1) * (j - i) := by
    have : (n + 1) * 1 ≤ (n + 1) * (j - i) := Nat.mul_le_mul_left _ hd
    omega
  have hin : follow m (i + (n + 1) * (j - i)) k ∈ keys m := by rw [hper]; exact hall i (by omega)
  exact hn (follow_mem_of_le hge hin)

end Fsic.Alias

namespace Fsic.Alias
variable {α : Type} [DecidableEq α]

/-! ### what an exit tells -/

/-- The loop started at round `r` on "every alias `n` steps along" exits, if it does, after `j` more rounds
    with every alias `n·2^j` steps along, `j` being the first round count at which no alias points at an
    alias any more: distances double in every round. -/
theorem shortenLoop_rounds {m : AMap α} : ∀ (fuel r n : Nat) {r' : Nat} {m' : AMap α},
    shortenLoop fuel r (mapTo m n) = .exited r' m' →
    ∃ j, r' = r + j ∧ j < fuel ∧ m' = mapTo m (n * 2 ^ j) ∧ ¬ Stays m (n * 2 ^ j) ∧ ∀ i, i < j → Stays m (n * 2 ^ i) := by
  intro fuel
  induction fuel with
  | zero => intro r n r' m' h; simp [shortenLoop] at h
  | succ f ih =>
    intro r n r' m' h
    by_cases hc : chained (mapTo m n) = true
    · simp only [shortenLoop, hc, if_true, shortenStep_mapTo] at h
      obtain ⟨j, h1, h2, h3, h4, h5⟩ := ih (r + 1) (n + n) h
      have e : ∀ i, (n + n) * 2 ^ i = n * 2 ^ (i + 1) := by
        intro i; rw [Nat.pow_succ, Nat.mul_comm (2 ^ i) 2, ← Nat.mul_assoc, Nat.mul_two]
      refine ⟨j + 1, by omega, by omega, by rw [h3, e], by rw [← e]; exact h4, ?_⟩
      intro i hi
      cases i with
      | zero => simpa using (chained_mapTo m n).mp hc
      | succ i => rw [← e]; exact h5 i (by omega)
    · simp [shortenLoop, hc] at h
      refine ⟨0, by omega, by omega, by simp [h.2], ?_, by omega⟩
      simpa [← chained_mapTo] using hc

theorem shortenLoop_exit_not_chained : ∀ (fuel r : Nat) (m : AMap α) {r' : Nat} {m' : AMap α},
    shortenLoop fuel r m = .exited r' m' → chained m' = false ∧ keys m' = keys m := by
  intro fuel
  induction fuel with
  | zero => intro r m r' m' h; simp [shortenLoop] at h
  | succ f ih =>
    intro r m r' m' h
    by_cases hc : chained m = true
    · simp only [shortenLoop, hc, if_true] at h
      have := ih _ _ h
      refine ⟨this.1, this.2.trans ?_⟩
      simp [keys, shortenStep, List.map_map, Function.comp_def]
    · simp [shortenLoop, hc] at h
      rw [← h.2]; exact ⟨by simpa using hc, rfl⟩

theorem follow_self {m : AMap α} (hwf : WF m) {k : α} (h : (k, k) ∈ m) (n : Nat) : follow m n k = k := by
  induction n with
  | zero => rfl
  | succ n ih => rw [follow, resolve_of_mem hwf h, ih]

/-! ### the `k != v` filter -/

theorem mem_dropSelf {m : AMap α} {p : α × α} : p ∈ dropSelf m ↔ p ∈ m ∧ p.1 ≠ p.2 := by
  simp [dropSelf, List.mem_filter]

theorem keys_dropSelf_sub {m : AMap α} {k : α} (h : k ∈ keys (dropSelf m)) : k ∈ keys m := by
  obtain ⟨p, hp, rfl⟩ := List.mem_map.mp h
  exact mem_keys_of_mem (v := p.2) (mem_dropSelf.mp hp).1

theorem wf_dropSelf {m : AMap α} (hwf : WF m) : WF (dropSelf m) := by
  unfold WF keys dropSelf
  exact (List.filter_sublist.map Prod.fst).nodup hwf

/-- A map without self-maps is left alone. -/
theorem dropSelf_eq_self {m : AMap α} (h : ∀ p, p ∈ m → p.1 ≠ p.2) : dropSelf m = m := by
  apply List.filter_eq_self.mpr
  intro p hp
  simpa using h p hp

theorem dropSelf_idem (m : AMap α) : dropSelf (dropSelf m) = dropSelf m :=
  dropSelf_eq_self fun _ hp => (mem_dropSelf.mp hp).2

/-- Dropping self-maps does not change what a name resolves to (a self-map resolves a name to itself anyway);
    only the set of keys shrinks. -/
theorem resolve_dropSelf {m : AMap α} (hwf : WF m) (x : α) : resolve (dropSelf m) x = resolve m x := by
  rcases resolve_cases m x with ⟨h1, h2⟩ | h1
  · rw [h2]; exact resolve_of_not_key fun hk => h1 (keys_dropSelf_sub hk)
  · by_cases e : x = resolve m x
    · rw [← e]
      apply resolve_of_not_key
      intro hk
      obtain ⟨p, hp, hpx⟩ := List.mem_map.mp hk
      have hp' := mem_dropSelf.mp hp
      have h2 : get m p.1 = some p.2 := get_of_mem hwf (k := p.1) (v := p.2) hp'.1
      have h3 : get m x = some x := by
        have := get_of_mem hwf h1
        rw [← e] at this; exact this
      rw [hpx, h3] at h2
      exact hp'.2 (by rw [hpx]; exact Option.some.inj h2)
    · exact resolve_of_mem (wf_dropSelf hwf) (mem_dropSelf.mpr ⟨h1, e⟩)

theorem follow_dropSelf {m : AMap α} (hwf : WF m) (n : Nat) (x : α) : follow (dropSelf m) n x = follow m n x := by
  induction n generalizing x with
  | zero => rfl
  | succ n ih => rw [follow, follow, resolve_dropSelf hwf, ih]

/-! ### cycles -/

/-- A chain that never leaves the aliases runs into a cycle: some alias comes back to itself. -/
theorem cycle_of_never_leaves {m : AMap α} {k : α} (h : ∀ n, follow m n k ∈ keys m) :
    ∃ c d, c ∈ keys m ∧ 1 ≤ d ∧ follow m d c = c := by
  have hrep : ∃ i j, i < j ∧ j ≤ m.length ∧ follow m i k = follow m j k := by
    apply Classical.byContradiction
    intro hno
    have := inj_bound m.length (keys m) (fun i => follow m i k) (fun i _ => h i)
      (fun i j hij hj e => hno ⟨i, j, hij, hj, e⟩)
    simp [keys] at this
    omega
  obtain ⟨i, j, hij, _, e⟩ := hrep
  refine ⟨follow m i k, j - i, h i, by omega, ?_⟩
  rw [← follow_add, show i + (j - i) = j by omega, e]

/-- An alias on a cycle never leaves the aliases. -/
theorem never_leaves_of_cycle {m : AMap α} {c : α} {d : Nat} (hc : c ∈ keys m) (hd : 1 ≤ d)
    (h : follow m d c = c) (n : Nat) : follow m n c ∈ keys m := by
  have hper := follow_periodic (m := m) (x := c) (i := 0) (d := d) (by simpa [follow] using h) n
  have hge : n ≤ 0 + n * d := by
    have : n * 1 ≤ n * d := Nat.mul_le_mul_left _ hd
    omega
  apply follow_mem_of_le hge
  rw [hper]; exact hc

end Fsic.Alias
