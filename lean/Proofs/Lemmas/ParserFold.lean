import Proofs.Lemmas.Parser
set_option linter.unusedSimpArgs false
set_option linter.unusedVariables false
/-
`Symbol.combine`, `addSym` and the per-key decomposition of a dictionary fold.
-/
namespace Fsic.Parser

/-! ### `combine` -/

theorem combine_ok {a b c : Symbol} (h : combine a b = .ok c) :
    a.name = b.name ∧ c.name = a.name ∧ combineType a.type b.type = .ok c.type ∧
    resolveLag a.lags b.lags = .ok c.lags ∧ resolveLead a.leads b.leads = .ok c.leads ∧
    resolveStr a.equation b.equation = .ok c.equation ∧ resolveStr a.code b.code = .ok c.code := by
  unfold combine at h
  by_cases hn : a.name = b.name
  · simp only [hn, if_true] at h
    cases ht : combineType a.type b.type with
    | error e => simp [ht] at h
    | ok t =>
      cases hl : resolveLag a.lags b.lags with
      | error e => simp [ht, hl] at h
      | ok l =>
        cases hd : resolveLead a.leads b.leads with
        | error e => simp [ht, hl, hd] at h
        | ok d =>
          cases hq : resolveStr a.equation b.equation with
          | error e => simp [ht, hl, hd, hq] at h
          | ok q =>
            cases hc : resolveStr a.code b.code with
            | error e => simp [ht, hl, hd, hq, hc] at h
            | ok c' =>
              simp [ht, hl, hd, hq, hc] at h
              subst h
              exact ⟨hn, hn.symm, rfl, rfl, rfl, rfl, rfl⟩
  · simp [hn] at h

/-- A symbol always combines with itself (the first-occurrence step of both folds). -/
theorem combine_self_ok (s : Symbol) : ∃ c, combine s s = .ok c := by
  unfold combine
  simp only [if_true]
  have ht : combineType s.type s.type = .ok s.type := by simp [combineType]
  have hl : ∃ l, resolveLag s.lags s.lags = .ok l := by cases s.lags <;> simp [resolveLag]
  have hd : ∃ l, resolveLead s.leads s.leads = .ok l := by cases s.leads <;> simp [resolveLead]
  have hq : resolveStr s.equation s.equation = .ok s.equation := by cases s.equation <;> simp [resolveStr]
  have hc : resolveStr s.code s.code = .ok s.code := by cases s.code <;> simp [resolveStr]
  obtain ⟨l, hl⟩ := hl
  obtain ⟨d, hd⟩ := hd
  simp [ht, hl, hd, hq, hc]

/-! ### `addSym` and folds of it -/

theorem addSym_ok {d d' : List Symbol} {s : Symbol} (h : addSym d s = .ok d') :
    ∃ c, combine ((findSym s.name d).getD s) s = .ok c ∧ d' = setSym c d ∧ c.name = s.name := by
  unfold addSym at h
  cases hc : combine ((findSym s.name d).getD s) s with
  | error e => simp [hc] at h
  | ok c =>
    simp [hc] at h
    refine ⟨c, rfl, h.symm, ?_⟩
    have := (combine_ok hc).2.1
    rw [this]
    cases hf : findSym s.name d with
    | none => simp
    | some x => simp; exact (findSym_some hf).1

theorem foldE_cons_ok {σ α ε} {f : σ → α → Except ε σ} {s s' : σ} {x : α} {xs : List α}
    (h : foldE f s (x :: xs) = .ok s') : ∃ s1, f s x = .ok s1 ∧ foldE f s1 xs = .ok s' := by
  unfold foldE at h
  cases hf : f s x with
  | error e => simp [hf] at h
  | ok s1 => simp [hf] at h; exact ⟨s1, rfl, h⟩

theorem foldE_append_ok {σ α ε} {f : σ → α → Except ε σ} {s s' : σ} {xs ys : List α}
    (h : foldE f s (xs ++ ys) = .ok s') : ∃ s1, foldE f s xs = .ok s1 ∧ foldE f s1 ys = .ok s' := by
  induction xs generalizing s with
  | nil => exact ⟨s, rfl, h⟩
  | cons x xs ih =>
    obtain ⟨s1, h1, h2⟩ := foldE_cons_ok (by simpa using h)
    obtain ⟨s2, h3, h4⟩ := ih h2
    refine ⟨s2, ?_, h4⟩
    unfold foldE; simp [h1, h3]

theorem foldE_append {σ α ε} (f : σ → α → Except ε σ) (s : σ) (xs ys : List α) :
    foldE f s (xs ++ ys) = match foldE f s xs with
      | .ok s1 => foldE f s1 ys
      | .error e => .error e := by
  induction xs generalizing s with
  | nil => rfl
  | cons x xs ih =>
    simp only [List.cons_append, foldE]
    cases hf : f s x with
    | error e => simp
    | ok s1 => simp [ih]

/-- The left fold of `combine` over the occurrences of one key (the first occurrence is combined with itself). -/
def combineOcc : Option Symbol → List Symbol → Except Err (Option Symbol)
  | o, [] => .ok o
  | o, s :: rest =>
    match combine (o.getD s) s with
    | .ok c => combineOcc (some c) rest
    | .error e => .error e

/-- **A dictionary fold decomposes by key**: the entry under `k` is the fold of `combine` over the incoming
    symbols named `k`, and the keys are in order of first appearance. -/
theorem foldE_addSym_decomp (ss : List Symbol) : ∀ (d d' : List Symbol), foldE addSym d ss = .ok d' →
    keys d' = (ss.map (·.name)).foldl pushNew (keys d) ∧
    ∀ k, combineOcc (findSym k d) (ss.filter (fun s => s.name = k)) = .ok (findSym k d') := by
  induction ss with
  | nil => intro d d' h; simp [foldE] at h; subst h; simp [combineOcc]
  | cons s ss ih =>
    intro d d' h
    obtain ⟨d1, h1, h2⟩ := foldE_cons_ok h
    obtain ⟨c, hc, hd1, hcn⟩ := addSym_ok h1
    obtain ⟨ihk, ihf⟩ := ih d1 d' h2
    constructor
    · rw [ihk, hd1, keys_setSym, hcn]; rfl
    · intro k
      by_cases hk : s.name = k
      · subst hk
        simp only [List.filter_cons, decide_true, if_true, combineOcc, hc]
        have := ihf s.name
        rw [hd1, ← hcn, findSym_setSym_same, hcn] at this
        exact this
      · simp only [List.filter_cons, hk, decide_false, if_false, Bool.false_eq_true]
        have := ihf k
        rw [hd1, findSym_setSym_other c d k (by rw [hcn]; exact fun e => hk e.symm)] at this
        exact this

theorem foldE_addSym_nodup {ss : List Symbol} {d d' : List Symbol} (h : foldE addSym d ss = .ok d')
    (hd : (keys d).Nodup) : (keys d').Nodup := by
  rw [(foldE_addSym_decomp ss d d' h).1]; exact nodup_foldl_pushNew _ _ hd

end Fsic.Parser
