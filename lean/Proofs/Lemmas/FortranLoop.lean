import FsicModel.Fortran
set_option linter.unusedSimpArgs false
set_option linter.unusedVariables false
/-
The template's `solve_t` loop against M1's Python loop, and `solve` as a fold (helpers for `Proofs/C07.lean`).
-/
namespace Fsic.Fortran
variable {σ V : Type}

/-- M1's loop result read as the template's outputs: `.done` with status '.'/'F' only (the finite regime). -/
def asOut : LoopOut σ → Int → Option (Out σ)
  | .done u .solved k, _ => some ⟨u, true, k, 0⟩
  | .done u .failed k, c => some ⟨u, false, k, c⟩
  | _, _ => none

/-- The hypotheses under which the two loops are compared at one period. -/
structure FiniteRegime (W : Wrapped σ V) (t : Int) (index : Nat) (Inv : σ → Prop) : Prop where
  /-- the period has passed the range and lag/lead checks, so `evaluate` runs the equations and returns 0 -/
  eval_ok : ∀ u, evaluate W.toEngine u index = (W.body u index, 0)
  /-- `index` is the 1-based column of Python's `t` -/
  index_eq : index = (normT W.ncols t + 1).toNat
  /-- the rows the compiled loop reads are the variables Python checks -/
  aligned : ∀ u, W.check u index = W.pyCheck u index
  /-- a set of states closed under one pass on which every value involved is finite -/
  closed : ∀ u, Inv u → Inv (W.body u index)
  check_finite : ∀ u, Inv u → W.allFinite (W.pyCheck u index) = true
  endo_finite : ∀ u, Inv u → W.endoFinite u index = true

theorem floop_eq_loop (W : Wrapped σ V) (c : Cfg) (o : Opts) (t : Int) (index : Nat) (Inv : σ → Prop)
    (R : FiniteRegime W t index Inv) (hmin : c.minIter = o.minIter) :
    ∀ (fuel k : Nat) (u : σ) (cur : V) (code : Int), 1 ≤ k → Inv u → W.allFinite cur = true →
      asOut (loop (toInterp W) o t fuel k u cur) (if fuel = 0 then code else 0)
        = some (floop W.toEngine c index fuel k u cur code) := by
  intro fuel
  induction fuel with
  | zero =>
    intro k u cur code hk _ _
    have : ((k - 1 : Nat) : Int) = (k : Int) - 1 := by omega
    simp [loop, floop, asOut, this]
  | succ fuel ih =>
    intro k u cur code hk hu hcur
    have hu' := R.closed u hu
    have hfin := R.check_finite _ hu'
    have hendo := R.endo_finite _ hu'
    have hev := R.eval_ok u
    have hchk : (toInterp W).check (W.body u index) t = W.pyCheck (W.body u index) index := by
      simp [toInterp, R.index_eq]
    have hrec := fun cur' hc' => ih (k + 1) (W.body u index) cur' 0 (by omega) hu' hc'
    have hcode : (if fuel = 0 then (0 : Int) else 0) = 0 := by split <;> rfl
    simp only [hcode] at hrec
    unfold loop floop
    have he : (toInterp W).eval o u t k = (W.body u index, false) := by simp [toInterp, R.index_eq]
    rw [he]
    simp only [hev, ne_eq, not_true_eq_false, if_false, hendo, Bool.true_eq_false, false_and]
    have hal : (toInterp W).allFinite = W.allFinite := rfl
    have hcl : (toInterp W).close = W.close := rfl
    simp only [hal, hcl, hcur, Bool.true_eq_false, if_false, hchk, hfin, R.aligned, hmin]
    by_cases hm : (k : Int) < o.minIter
    · simp only [hm, if_true]
      have := hrec (W.pyCheck (W.body u index) index) hfin
      simpa [Nat.succ_ne_zero] using this
    · simp only [hm, if_false]
      by_cases hc : W.close (W.pyCheck (W.body u index) index) cur = true
      · simp [hc, toInterp, asOut]
      · simp only [hc, if_false]
        have := hrec (W.pyCheck (W.body u index) index) hfin
        simpa [Nat.succ_ne_zero] using this

/-! ### `solve` as a fold -/

/-- One step of the period loop as a fold: state, results so far (in order), and whether a `return` has happened. -/
def foldStep (E : Engine σ V) (c : Cfg) (acc : σ × List PeriodOut × Bool) (t : Int) : σ × List PeriodOut × Bool :=
  if acc.2.2 = true then (acc.1, acc.2.1 ++ [unresolved], true)
  else ((solveT E c acc.1 t).state, acc.2.1 ++ [periodOut (solveT E c acc.1 t)], stops c (solveT E c acc.1 t))

theorem fold_stopped (E : Engine σ V) (c : Cfg) :
    ∀ (ts : List Int) (u : σ) (outs : List PeriodOut),
      ts.foldl (foldStep E c) (u, outs, true) = (u, outs ++ ts.map (fun _ => unresolved), true) := by
  intro ts
  induction ts with
  | nil => intro u outs; simp
  | cons t ts ih => intro u outs; simp [List.foldl, foldStep, ih, List.append_assoc]

theorem fold_running (E : Engine σ V) (c : Cfg) :
    ∀ (ts : List Int) (u : σ) (outs : List PeriodOut),
      ((ts.foldl (foldStep E c) (u, outs, false)).1, (ts.foldl (foldStep E c) (u, outs, false)).2.1)
        = ((solve E c ts u).1, outs ++ (solve E c ts u).2) := by
  intro ts
  induction ts with
  | nil => intro u outs; simp [solve]
  | cons t ts ih =>
    intro u outs
    by_cases hs : stops c (solveT E c u t) = true
    · simp [List.foldl, foldStep, solve, hs, fold_stopped, List.append_assoc]
    · have hs' : stops c (solveT E c u t) = false := by simpa using hs
      simp only [List.foldl, foldStep, Bool.false_eq_true, if_false, hs', solve]
      rw [ih]
      simp [List.append_assoc]

end Fsic.Fortran
