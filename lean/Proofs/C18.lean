import Proofs.Lemmas.AliasStore
import Proofs.Lemmas.AliasPref
import Proofs.Lemmas.AliasClass
import Proofs.Lemmas.AliasFail
import Proofs.Lemmas.AliasCtor
import Proofs.Lemmas.AliasLabel
/-
C18 — An alias is indistinguishable from the variable it names.

Property theorems only (helper lemmas are in `Proofs/Lemmas/Alias*.lean`).  Every statement is for an
arbitrary type of names `α`, every alias map, every store, every value semantics `E : ValOps α V P`
(= every dtype, span and index type), every history of operations.

The alias stage of the constructor (as repaired by ca9bf22): self-maps are dropped, the loop is bounded by the
code's own `range(len(aliases) + 1)` and ends in `ValueError` when the range runs out.  `constructor_terminates`
says, for EVERY alias map, what comes out: the roots when no cycle remains after dropping the self-maps,
`ValueError` otherwise (`constructor_raises_iff_cycle`); `len + 1` passes are always enough for an acyclic map
(`shorten_bound_suffices`: pigeonhole, and distances double with every pass).

Before ca9bf22 the loop was `while True:` on the unfiltered map: its exit test ("no name is both a key and a
value") can never become true on a map with a self-map or a cycle, so the constructor never returned for
`{'Y': 'Y'}` or `{'A': 'B', 'B': 'A'}` (findings `self-alias-hang`, `alias-cycle-hang`, now fixed).
The `k != v` filter *after* the loop can still never remove anything (`selfmap_filter_dead`); the one in front
of the loop can (`prefilter_not_dead`).
-/
set_option linter.unusedSectionVars false
set_option linter.unusedSimpArgs false
namespace Fsic.C18
open Fsic.Alias

variable {α : Type} [DecidableEq α]

/-- No cycle: the chain of every alias leaves the set of aliases.  (Asked of a map without self-maps — a
    self-map would be a cycle of length one.) -/
def Acyclic (m : AMap α) : Prop := ∀ k, k ∈ keys m → ∃ n, follow m n k ∉ keys m

/-- Some alias comes back to itself after `d ≥ 1` steps. -/
def HasCycle (m : AMap α) : Prop := ∃ c d, c ∈ keys m ∧ 1 ≤ d ∧ follow m d c = c

/-- Every alias sent to the end of its chain. -/
def roots (m : AMap α) : AMap α := mapTo m m.length

theorem not_acyclic_iff_hasCycle (m : AMap α) : ¬ Acyclic m ↔ HasCycle m := by
  constructor
  · intro h
    have : ∃ k, k ∈ keys m ∧ ∀ n, follow m n k ∈ keys m := by
      apply Classical.byContradiction
      intro hno
      apply h
      intro k hk
      apply Classical.byContradiction
      intro hn
      exact hno ⟨k, hk, fun n => Classical.byContradiction fun hnk => hn ⟨n, hnk⟩⟩
    obtain ⟨k, _, hall⟩ := this
    exact cycle_of_never_leaves hall
  · rintro ⟨c, d, hc, hd, e⟩ hac
    obtain ⟨n, hn⟩ := hac c hc
    exact hn (never_leaves_of_cycle hc hd e n)

/-- What `roots` holds: every alias, each pointing at the first name on its chain that is not an alias. -/
theorem roots_spec {m : AMap α} (hac : Acyclic m) :
    keys (roots m) = keys m ∧
    ∀ k v, (k, v) ∈ roots m → v ∉ keys m ∧ ∀ n, follow m n k ∉ keys m → follow m n k = v := by
  have hN : ∀ k, k ∈ keys m → follow m m.length k ∉ keys m := fun k hk => leaves_within_length (hac k hk)
  refine ⟨keys_mapTo m _, ?_⟩
  intro k v hkv
  obtain ⟨p, hp, e⟩ := List.mem_map.mp hkv
  cases e
  have hk := mem_keys_of_mem (v := p.2) hp
  refine ⟨hN _ hk, ?_⟩
  intro n hn
  have e1 := follow_stable hn m.length
  have e2 := follow_stable (hN _ hk) n
  rw [Nat.add_comm] at e2
  rw [← e1, e2]

example : roots [("a", "b"), ("b", "Y"), ("GDP", "Y")] = [("a", "Y"), ("b", "Y"), ("GDP", "Y")] := by decide
example : Acyclic [("a", "b"), ("b", "Y"), ("GDP", "Y")] := by
  intro k hk
  refine ⟨2, ?_⟩
  simp [keys] at hk
  rcases hk with rfl | rfl | rfl <;> decide

/-! ## 1. The shortening loop -/

/-- If every chain has left the aliases after `N` steps, a loop with at least `N` passes `break`s after at
    most `N` substitutions with every alias sent `N` steps along. -/
theorem shorten_exits {m : AMap α} (hwf : WF m) {N passes : Nat} (hN : ∀ k, k ∈ keys m → follow m N k ∉ keys m)
    (hf : N ≤ passes) (hpos : 1 ≤ passes) :
    ∃ r, r ≤ N ∧ shortenLoop passes 0 m = .exited r (mapTo m N) := by
  have hN' : ¬ Stays m N := fun ⟨k, hk, hs⟩ => hN k hk hs
  obtain ⟨f, rfl⟩ : ∃ f, passes = f + 1 := ⟨passes - 1, by omega⟩
  obtain ⟨r, h1, h2⟩ := shortenLoop_exits hN' f 0 1 (Nat.le_refl 1) (by omega)
  rw [mapTo_one hwf] at h1
  exact ⟨r, by omega, h1⟩

/-- **`len(aliases) + 1` passes always suffice for an acyclic map**: the loop `break`s, after at most `|m|`
    substitutions, with every alias at the end of its chain. -/
theorem shorten_bound_suffices {m : AMap α} (hwf : WF m) (hac : Acyclic m) :
    ∃ r, r ≤ m.length ∧ shortenLoop (m.length + 1) 0 m = .exited r (roots m) :=
  shorten_exits hwf (fun k hk => leaves_within_length (hac k hk)) (by omega) (by omega)

example : Acyclic [("expenditure", "output"), ("output", "income"), ("income", "Y"), ("GDP", "Y")] := by
  intro k hk
  refine ⟨3, ?_⟩
  simp [keys] at hk
  rcases hk with rfl | rfl | rfl | rfl <;> decide

example : shortenLoop 5 0 [("expenditure", "output"), ("output", "income"), ("income", "Y"), ("GDP", "Y")]
    = .exited 2 [("expenditure", "Y"), ("output", "Y"), ("income", "Y"), ("GDP", "Y")] := by decide

/-- The number of substitutions is exactly the first `j` with `2^j` ≥ the longest chain: distances double. -/
theorem shorten_rounds {m : AMap α} (hwf : WF m) {passes r : Nat} {m' : AMap α}
    (h : shortenLoop passes 0 m = .exited r m') :
    m' = mapTo m (2 ^ r) ∧ ¬ Stays m (2 ^ r) ∧ ∀ i, i < r → Stays m (2 ^ i) := by
  rw [← mapTo_one hwf] at h
  obtain ⟨j, h1, _, h3, h4, h5⟩ := shortenLoop_rounds passes 0 1 h
  have : r = j := by omega
  subst this
  simp only [Nat.one_mul] at h3 h4 h5
  exact ⟨h3, h4, h5⟩

example : shortenLoop 4 0 [("a", "b"), ("b", "c"), ("c", "Y")] = .exited 2 [("a", "Y"), ("b", "Y"), ("c", "Y")] := by
  decide

/-- **Cycles.**  If the chain of some alias never leaves the aliases, the exit test fails in every pass,
    whatever the bound: the range runs out and the `else` clause raises. -/
theorem shorten_exhausts_on_cycle {m : AMap α} (hwf : WF m) (hcyc : HasCycle m) (passes : Nat) :
    shortenLoop passes 0 m = .exhausted := by
  obtain ⟨c, d, hc, hd, e⟩ := hcyc
  have h := shortenLoop_exhausts (m := m) (fun n => ⟨c, hc, never_leaves_of_cycle hc hd e n⟩) passes 0 1
  rw [mapTo_one hwf] at h
  exact h

example : HasCycle [("A", "B"), ("B", "A")] := ⟨"A", 2, by decide, by decide, by decide⟩
example : shortenLoop 3 0 [("A", "B"), ("B", "A")] = .exhausted := by decide

/-- The loop `break`s within its bound iff the map is acyclic. -/
theorem shorten_breaks_iff_acyclic {m : AMap α} (hwf : WF m) :
    (∃ r m', shortenLoop (m.length + 1) 0 m = .exited r m') ↔ Acyclic m := by
  constructor
  · rintro ⟨r, m', h⟩ k hk
    exact ⟨2 ^ r, fun hs => (shorten_rounds hwf h).2.1 ⟨k, hk, hs⟩⟩
  · intro hac
    obtain ⟨r, _, h⟩ := shorten_bound_suffices hwf hac
    exact ⟨_, _, h⟩

/-- The `k != v` filter after the loop is dead code: whenever the loop `break`s, no item has `k == v`. -/
theorem selfmap_filter_dead {m m' : AMap α} {passes r : Nat} (h : shortenLoop passes 0 m = .exited r m') :
    dropSelf m' = m' :=
  dropSelf_of_not_chained (shortenLoop_exit_not_chained _ _ _ h).1

example : shortenLoop 3 0 [("p", "q"), ("q", "Y")] = .exited 1 [("p", "Y"), ("q", "Y")] ∧
    dropSelf [("p", "Y"), ("q", "Y")] = [("p", "Y"), ("q", "Y")] := by decide

/-- The filter in front of the loop is not: it is what makes `{'Y': 'Y'}` acceptable. -/
theorem prefilter_not_dead : dropSelf [("Y", "Y"), ("GDP", "Y")] ≠ [("Y", "Y"), ("GDP", "Y")] ∧
    shortenAll [("Y", "Y"), ("GDP", "Y")] = .valueError ∧
    instanceAliases [("Y", "Y"), ("GDP", "Y")] = .returned [("GDP", "Y")] := by decide

/-- The loop stage on a map without cycle: the roots; with a cycle: `ValueError`. -/
theorem shortenAll_acyclic {m : AMap α} (hwf : WF m) (hac : Acyclic m) : shortenAll m = .returned (roots m) := by
  obtain ⟨r, _, hex⟩ := shorten_bound_suffices hwf hac
  have hnc := (shortenLoop_exit_not_chained _ _ _ hex).1
  simp [shortenAll, hex, dropSelf_of_not_chained hnc]

theorem shortenAll_cycle {m : AMap α} (hwf : WF m) (hcyc : HasCycle m) : shortenAll m = .valueError := by
  simp [shortenAll, shorten_exhausts_on_cycle hwf hcyc]

/-- **FULL STRENGTH — the alias stage of the constructor, for EVERY alias map** (`WF` is only "it is a dict").
    The stage always ends (the model is total, the bound is the code's own) and its outcome is determined:
    * no cycle left after dropping the self-maps ⇒ it returns, and `self.aliases` is `roots (dropSelf m)`: the
      aliases that are not self-maps, each pointing at the end of its chain (`roots_spec`);
    * otherwise ⇒ `ValueError`.
    Chains may be followed in the declared map or in the filtered one: `follow (dropSelf m) = follow m`. -/
theorem constructor_terminates {m : AMap α} (hwf : WF m) :
    (Acyclic (dropSelf m) → instanceAliases m = .returned (roots (dropSelf m))) ∧
    (¬ Acyclic (dropSelf m) → instanceAliases m = .valueError) ∧
    (∀ n x, follow (dropSelf m) n x = follow m n x) :=
  ⟨fun hac => shortenAll_acyclic (wf_dropSelf hwf) hac,
   fun hn => shortenAll_cycle (wf_dropSelf hwf) ((not_acyclic_iff_hasCycle _).mp hn),
   fun n x => follow_dropSelf hwf n x⟩

/-- **`ValueError` iff a cycle remains after dropping the self-maps** (both directions). -/
theorem constructor_raises_iff_cycle {m : AMap α} (hwf : WF m) :
    instanceAliases m = .valueError ↔ HasCycle (dropSelf m) := by
  constructor
  · intro h
    apply (not_acyclic_iff_hasCycle _).mp
    intro hac
    rw [(constructor_terminates hwf).1 hac] at h
    cases h
  · intro h
    exact shortenAll_cycle (wf_dropSelf hwf) h

/-- … and it returns iff none remains; what it returns is then fixed. -/
theorem constructor_returns_iff_acyclic {m : AMap α} (hwf : WF m) :
    (∃ a, instanceAliases m = .returned a) ↔ Acyclic (dropSelf m) := by
  constructor
  · rintro ⟨a, h⟩
    apply Classical.byContradiction
    intro hn
    rw [(constructor_terminates hwf).2.1 hn] at h
    cases h
  · intro hac
    exact ⟨_, (constructor_terminates hwf).1 hac⟩

/-- A map of self-maps only is accepted and yields no alias at all. -/
theorem only_self_maps_accepted {m : AMap α} (h : ∀ p, p ∈ m → p.1 = p.2) : instanceAliases m = .returned [] := by
  have : dropSelf m = [] := by
    apply List.filter_eq_nil_iff.mpr
    intro p hp
    simp [h p hp]
  unfold instanceAliases
  rw [this]
  rfl

-- a self-map is accepted and is no alias; a cycle raises; a chain is shortened to its root
example : instanceAliases [("Y", "Y")] = .returned [] := by decide
example : instanceAliases [("A", "B"), ("B", "A")] = (.valueError : Outcome String) := by decide
example : instanceAliases [("expenditure", "output"), ("output", "income"), ("income", "Y"), ("GDP", "Y")]
    = .returned [("expenditure", "Y"), ("output", "Y"), ("income", "Y"), ("GDP", "Y")] := by decide
-- a self-map at the end of a chain is the root of that chain; a cycle with a tail raises
example : instanceAliases [("p", "q"), ("q", "q")] = .returned [("p", "q")] := by decide
example : instanceAliases [("p", "q"), ("q", "r"), ("r", "q"), ("s", "s")] = (.valueError : Outcome String) := by decide
example : HasCycle (dropSelf [("p", "q"), ("q", "r"), ("r", "q"), ("s", "s")]) := ⟨"q", 2, by decide, by decide, by decide⟩
example : ¬ HasCycle (dropSelf [("Y", "Y")]) := by rintro ⟨c, d, hc, _⟩; simp [dropSelf, keys] at hc

/-- Every map an instance can hold: unique keys (the declared aliases that are not self-maps), no alias is a
    target (so `_resolve_alias` is idempotent and its result is never an alias). -/
theorem instance_aliases_shortened {m a : AMap α} (hwf : WF m) (h : instanceAliases m = .returned a) :
    WF a ∧ chained a = false ∧ keys a = keys (dropSelf m) ∧ (∀ x, resolve a (resolve a x) = resolve a x) ∧
    a = roots (dropSelf m) := by
  have hac := (constructor_returns_iff_acyclic hwf).mp ⟨a, h⟩
  have h0 := h
  unfold instanceAliases shortenAll at h
  split at h
  · rename_i r m' hex
    have h' := shortenLoop_exit_not_chained _ _ _ hex
    rw [dropSelf_of_not_chained h'.1] at h
    cases h
    refine ⟨by unfold WF; rw [h'.2]; exact wf_dropSelf hwf, h'.1, h'.2, resolve_idem h'.1, ?_⟩
    rw [(constructor_terminates hwf).1 hac] at h0
    cases h0; rfl
  · cases h

/-! ## 2. Transparency -/

variable {V P : Type}

/-- **One operation.**  On an instance map (`chained a = false`) and a store in which no alias is the name
    of an ad-hoc attribute (`Inv`; the guard: alias names are not otherwise used as attribute names — the
    mixin itself preserves it, `alias_no_storage`), every read / write / label access / bulk replacement /
    raw-storage pass through the mixin is the same operation of the plain container on `resolve name`:
    same new store, same result. -/
theorem alias_transparent_step (E : ValOps α V P) {a : AMap α} (hc : chained a = false) {s : Store α V P}
    (hinv : Inv a s) (op : Op α P) : aliased E a s op = base E s (op.mapName (resolve a)) :=
  aliased_eq_base E hc hinv op

/-- **All histories** (refinement): the aliased container driven through arbitrary names equals the plain
    container driven through the resolved names — final store and every intermediate result. -/
theorem alias_transparent (E : ValOps α V P) {a : AMap α} (hc : chained a = false) {s : Store α V P}
    (hinv : Inv a s) (ops : List (Op α P)) :
    run (aliased E a) s ops = run (base E) s (ops.map (Op.mapName (resolve a))) :=
  run_aliased_eq_base E hc ops hinv

/-- Two spellings that resolve alike cannot be told apart by any history. -/
theorem alias_indistinguishable (E : ValOps α V P) {a : AMap α} (hc : chained a = false) {s : Store α V P}
    (hinv : Inv a s) (f g : α → α) (hfg : ∀ n, resolve a (f n) = resolve a (g n)) (ops : List (Op α P)) :
    run (aliased E a) s (ops.map (Op.mapName f)) = run (aliased E a) s (ops.map (Op.mapName g)) := by
  rw [alias_transparent E hc hinv, alias_transparent E hc hinv, List.map_map, List.map_map]
  congr 1
  apply List.map_congr_left
  intro op _
  cases op <;> simp [Op.mapName, hfg]

/-- Chains: if the class declares `x → y` (where `y` may itself be an alias, or `x` itself), the instance
    resolves `x` and `y` to the same variable — the end of the chain, which resolves to itself. -/
theorem declared_alias_resolves_alike {m a : AMap α} (hwf : WF m)
    (h : instanceAliases m = .returned a) {x y : α} (hxy : (x, y) ∈ m) :
    resolve a x = resolve a y ∧ resolve a (resolve a x) = resolve a x ∧ resolve a x ∉ keys (dropSelf m) := by
  obtain ⟨_, hc, hk, hid, _⟩ := instance_aliases_shortened hwf h
  refine ⟨?_, hid x, by rw [← hk]; exact resolve_not_key hc x⟩
  by_cases exy : x = y
  · rw [exy]
  · have hxy0 : (x, y) ∈ dropSelf m := mem_dropSelf.mpr ⟨hxy, exy⟩
    have hwf0 := wf_dropSelf hwf
    unfold instanceAliases shortenAll at h
    split at h
    · rename_i r m' hex
      have h' := shortenLoop_exit_not_chained _ _ _ hex
      rw [dropSelf_of_not_chained h'.1] at h
      cases h
      obtain ⟨e, hns, _⟩ := shorten_rounds hwf0 hex
      have hx : follow (dropSelf m) (2 ^ r) x ∉ keys (dropSelf m) := fun hs => hns ⟨x, mem_keys_of_mem hxy0, hs⟩
      rw [e, resolve_mapTo, resolve_mapTo]
      have e1 := follow_stable hx 1
      rw [follow, resolve_of_mem hwf0 hxy0] at e1
      exact e1.symm
    · cases h

example : instanceAliases [("expenditure", "output"), ("output", "income"), ("income", "Y"), ("GDP", "Y"), ("C", "C")]
    = .returned [("expenditure", "Y"), ("output", "Y"), ("income", "Y"), ("GDP", "Y")] := by decide

/-- Constructor keywords: `Model(span, alias=v)` is `Model(span, variable=v)`. -/
theorem ctor_transparent (a : AMap α) (strict : Bool) (names : List α) (dflt : P) (kwargs : List (α × P)) :
    ctorAliased a strict names dflt kwargs = ctorBase strict names dflt (kwargs.map fun kv => (resolve a kv.1, kv.2)) :=
  rfl

theorem ctor_indistinguishable (a : AMap α) (strict : Bool) (names : List α) (dflt : P) (kwargs : List (α × P))
    (f g : α → α) (hfg : ∀ n, resolve a (f n) = resolve a (g n)) :
    ctorAliased a strict names dflt (kwargs.map fun kv => (f kv.1, kv.2)) =
    ctorAliased a strict names dflt (kwargs.map fun kv => (g kv.1, kv.2)) := by
  simp [ctorAliased, List.map_map, Function.comp_def, hfg]

/-! ## 3. No additional storage -/

/-- After any history through any names the index (the set and order of stored series) is what it was, and
    every attribute that was added has a name that is not an alias and not a series.  The invariant `Inv`
    is preserved.  (The aliased container has the same state type as the plain one: `aliases` is not a
    series, and code on the raw storage — `Op.raw` — sees exactly the arrays the accessors see.) -/
theorem alias_no_storage (E : ValOps α V P) {a : AMap α} (hc : chained a = false) (s : Store α V P)
    (ops : List (Op α P)) :
    (run (aliased E a) s ops).1.index = s.index ∧
    (∀ x, x ∈ (run (aliased E a) s ops).1.attrNames → x ∈ s.attrNames ∨ (x ∉ keys a ∧ x ∉ s.index)) ∧
    (Inv a s → Inv a (run (aliased E a) s ops).1) := by
  have h := run_reach E a hc ops s
  exact ⟨h.1, h.2, fun hinv => hinv.of_reach h⟩

/-! ## 4. Export with `use_aliases=True` -/

/-- **Names only.**  Data, number and order of the columns are untouched; a label that changes becomes one
    of the aliases of the old label. -/
theorem rename_only {δ : Type} (le : α → α → Bool) (a : AMap α) (pref : List α) (cols out : List (α × δ))
    (h : exportCols le a pref cols = some out) :
    out.map Prod.snd = cols.map Prod.snd ∧ out.length = cols.length ∧
    ∀ i (hi : i < out.length) (hi' : i < cols.length), out[i].1 = cols[i].1 ∨ (out[i].1, cols[i].1) ∈ a := by
  obtain ⟨f, rfl, hf⟩ := exportCols_shape le a pref cols out h
  refine ⟨by simp [renameDf, List.map_map, Function.comp_def], by simp [renameDf], ?_⟩
  intro i hi hi'
  simpa [renameDf] using hf cols[i].1

/-- **Nothing is duplicated.**  Guard: no alias is itself a column label (alias names are not variable
    names).  Then distinct labels stay distinct. -/
theorem rename_injective {δ : Type} (le : α → α → Bool) {a : AMap α} (hwf : WF a) (pref : List α)
    (cols out : List (α × δ)) (h : exportCols le a pref cols = some out)
    (hguard : ∀ c, c ∈ cols.map Prod.fst → c ∉ keys a) (hnd : (cols.map Prod.fst).Nodup) :
    (out.map Prod.fst).Nodup := by
  obtain ⟨f, rfl, hf⟩ := exportCols_shape le a pref cols out h
  have hmap : (renameDf f cols).map Prod.fst = (cols.map Prod.fst).map f := by
    simp [renameDf, List.map_map, Function.comp_def]
  rw [hmap]
  generalize cols.map Prod.fst = ls at hguard hnd
  induction ls with
  | nil => simp
  | cons c ls ih =>
    have hnd' : c ∉ ls ∧ ls.Nodup := by simpa using hnd
    simp only [List.map_cons, List.nodup_cons]
    refine ⟨?_, ih (fun x hx => hguard x (List.mem_cons_of_mem _ hx)) hnd'.2⟩
    intro hmem
    obtain ⟨d, hd, e⟩ := List.mem_map.mp hmem
    have hcd : c ≠ d := fun e' => hnd'.1 (e' ▸ hd)
    rcases hf c with h1 | h1 <;> rcases hf d with h2 | h2
    · exact hcd (by rw [← h1, ← h2, e])
    · rw [h1] at e; rw [e] at h2
      exact hguard c List.mem_cons_self (mem_keys_of_mem h2)
    · rw [h2] at e; rw [← e] at h1
      exact hguard d (List.mem_cons_of_mem _ hd) (mem_keys_of_mem h1)
    · rw [e] at h2
      have e1 := get_of_mem hwf h1
      have e2 := get_of_mem hwf h2
      rw [e1] at e2
      exact hcd (Option.some.inj e2)

/-- **No preferred names:** a variable takes the name of its *last* alias; a label without alias is kept. -/
theorem rename_no_pref {δ : Type} (le : α → α → Bool) (a : AMap α) (cols : List (α × δ)) :
    exportCols le a [] cols = some (renameDf (fun c => (invGet a c).getD c) cols) ∧
    (∀ c, c ∉ vals a → (invGet a c).getD c = c) ∧
    (∀ c, c ∈ vals a → ((invGet a c).getD c, c) ∈ a) := by
  refine ⟨rfl, ?_, ?_⟩
  · intro c hc; simp [(invGet_none_iff a c).mpr hc]
  · intro c hc
    cases hg : invGet a c with
    | none => exact absurd hc ((invGet_none_iff a c).mp hg)
    | some k => simpa using invGet_some_mem hg

/-- **The preferred name is chosen.**  For an instance map (`WF`, no alias is a target), a string order
    that is linear, and preferred names that passed the constructor's check: the export succeeds, the
    column of a variable `t` that has a preferred alias `p` is called `p`, and a variable whose own name is
    preferred keeps it. -/
theorem rename_prefers {δ : Type} {le : α → α → Bool} (ho : LinOrd le) {a : AMap α} (hwf : WF a)
    (hc : chained a = false) {pref : List α} (hne : pref ≠ []) (hchk : prefCheck a pref = true)
    (cols : List (α × δ)) :
    ∃ f, exportCols le a pref cols = some (renameDf f cols) ∧ (∀ p t, p ∈ pref → (p, t) ∈ a → f t = p) ∧
      (∀ t, t ∈ pref → f t = t) := by
  have hsorted := sorted_sortByVal ho a
  obtain ⟨hdist, hcomplete⟩ := groups_complete ho _ hsorted
  have huniq : ∀ g ∈ groups (sortByVal le a), UniquePref pref g.1 g.2 := by
    intro g hg
    have hs := groups_sound _ g hg
    have hin : ∀ x ∈ g.2, (x, g.1) ∈ a := fun x hx => (mem_sortByVal le a _).mp (hs.2 x hx)
    have ht : g.1 ∈ vals a := by
      have := group_target_mem_vals hg
      obtain ⟨q, hq, e⟩ := List.mem_map.mp this
      exact List.mem_map.mpr ⟨q, (mem_sortByVal le a _).mp hq, e⟩
    exact uniquePref_of_check hwf hc hchk ht hin
  obtain ⟨r, hr⟩ := replacements_some_of_no_ambiguous (pref := pref)
    (fun g hg => choose_not_ambiguous (huniq g hg))
  refine ⟨fun c => (getLast r c).getD c, ?_, ?_, ?_⟩
  · have : pref.isEmpty = false := by cases pref <;> simp_all
    simp [exportCols, this, exportPref, hr]
  rotate_left
  · intro t ht
    show (getLast r t).getD t = t
    cases hg : getLast r t with
    | none => rfl
    | some x =>
      obtain ⟨g, hgm, hg1, hch⟩ := (mem_replacements hr t x).mp (getLast_some_mem hg)
      have := choose_rename_of_target_pref (huniq g hgm) (by rw [hg1]; exact ht) hch
      simp [this, hg1]
  · intro p t hp hpt
    obtain ⟨g, hg, hg1, hpg⟩ := groups_cover _ p t ((mem_sortByVal le a _).mpr hpt)
    have hs := groups_sound _ g hg
    have htn : g.1 ∉ g.2 := by
      intro hmem
      have h1 : (g.1, g.1) ∈ a := (mem_sortByVal le a _).mp (hs.2 _ hmem)
      exact (not_chained_iff a).mp hc _ (mem_keys_of_mem h1) (mem_vals_of_mem h1)
    have hch := choose_prefers (huniq g hg) htn hp hpg
    have hmem : (t, p) ∈ r := (mem_replacements hr t p).mpr ⟨g, hg, hg1, hch⟩
    have hnd := (keys_replacements_nodup hr hdist).1
    simp [getLast_of_nodup hnd hmem]

example : exportCols (fun x y => decide (x ≤ y)) [("GDP", "Y"), ("income", "Y"), ("cons", "C")] ["income"]
    [("Y", 1), ("C", 2), ("G", 3)] = some [("income", 1), ("cons", 2), ("G", 3)] := by decide

/-- **Ambiguous preferences are rejected — at construction:** two entries of `PREFERRED_NAMES` that resolve
    to the same variable make the constructor raise; the check passes iff all entries resolve differently. -/
theorem prefCheck_rejects_ambiguous (a : AMap α) (pref : List α) :
    prefCheck a pref = true ↔ (pref.map (resolve a)).Nodup :=
  prefCheck_iff a pref

example : prefCheck [("GDP", "Y"), ("income", "Y")] ["GDP", "income"] = false := by decide
example : prefCheck [("GDP", "Y"), ("income", "Y")] ["GDP", "Y"] = false := by decide
example : prefCheck [("GDP", "Y"), ("income", "Y")] ["GDP", "C"] = true := by decide

/-- **… and at export:** if `preferred_names` (an instance attribute that can be changed after construction)
    holds two different aliases of the same variable, `to_dataframe(use_aliases=True)` raises. -/
theorem rename_rejects_ambiguous {δ : Type} {le : α → α → Bool} (ho : LinOrd le) (a : AMap α) {pref : List α}
    {p q t : α} (hpq : p ≠ q) (hp : p ∈ pref) (hq : q ∈ pref) (hpt : (p, t) ∈ a) (hqt : (q, t) ∈ a)
    (cols : List (α × δ)) : exportCols le a pref cols = none := by
  obtain ⟨_, hcomplete⟩ := groups_complete ho _ (sorted_sortByVal ho a)
  obtain ⟨g, hg, hg1, hpg⟩ := groups_cover _ p t ((mem_sortByVal le a _).mpr hpt)
  have hqg : q ∈ g.2 := hcomplete g hg q (by rw [hg1]; exact (mem_sortByVal le a _).mpr hqt)
  have hamb := choose_ambiguous (t := g.1) hpq hp hq hpg hqg
  have : pref.isEmpty = false := by cases pref <;> simp_all
  simp [exportCols, this, exportPref, replacements_none_of_ambiguous hg hamb]

example : exportCols (fun x y => decide (x ≤ y)) [("GDP", "Y"), ("income", "Y"), ("cons", "C")] ["income", "GDP"]
    [("Y", 1), ("C", 2), ("G", 3)] = none := by decide

/-- Once the constructor's check has passed the export never raises. -/
theorem rename_total_after_check {δ : Type} {le : α → α → Bool} (ho : LinOrd le) {a : AMap α} (hwf : WF a)
    (hc : chained a = false) {pref : List α} (hchk : prefCheck a pref = true) (cols : List (α × δ)) :
    exportCols le a pref cols ≠ none := by
  by_cases hne : pref = []
  · subst hne; simp [exportCols]
  · obtain ⟨f, hf, _, _⟩ := rename_prefers ho hwf hc hne hchk cols
    simp [hf]


/-! ## 5. Export with options (`status=`, `iterations=`, `include_internal=`) -/

/-- The export is `rename` with a label map fixed by the instance: the frame (hence the options that shaped
    it) has no say in *how* labels change or in *whether* the export raises. -/
theorem export_is_rename {δ : Type} (le : α → α → Bool) (a : AMap α) (pref : List α) (cols : List (α × δ)) :
    exportCols le a pref cols = (renamer le a pref).map fun f => renameDf f cols :=
  exportCols_eq_renamer le a pref cols

/-- **Names only, whatever the options.**  For every combination of `status` / `iterations` /
    `include_internal`: the aliased export has exactly the data columns of the plain export *with the same
    options* — the selected variables in order, then the status column iff requested, then the iterations column
    iff requested; nothing changed, dropped or duplicated — and a label that changes becomes an alias of the old
    label. -/
theorem rename_only_opts {δ : Type} (le : α → α → Bool) (a : AMap α) (pref : List α) (internal : α → Bool)
    (o : ExportOpts) (vars : List (α × δ)) (st it : α × δ) (out : List (α × δ))
    (h : exportOpts le a pref internal o vars st it = some out) :
    out.map Prod.snd = (baseFrame internal o vars st it).map Prod.snd ∧
    out.map Prod.snd = (selectVars internal o vars).map Prod.snd ++ (if o.status then [st.2] else []) ++
      (if o.iterations then [it.2] else []) ∧
    out.length = (selectVars internal o vars).length + o.status.toNat + o.iterations.toNat ∧
    ∀ i (hi : i < out.length) (hi' : i < (baseFrame internal o vars st it).length),
      out[i].1 = (baseFrame internal o vars st it)[i].1 ∨ (out[i].1, (baseFrame internal o vars st it)[i].1) ∈ a := by
  obtain ⟨h1, h2, h3⟩ := rename_only le a pref _ out h
  refine ⟨h1, ?_, ?_, h3⟩
  · rw [h1]
    obtain ⟨s, i, n⟩ := o
    cases s <;> cases i <;> simp [baseFrame, optCol]
  · rw [h2]
    obtain ⟨s, i, n⟩ := o
    cases s <;> cases i <;> simp [baseFrame, optCol, Bool.toNat]

/-- **Renaming commutes with the option-driven column selection**: exporting the selected columns is the same
    as exporting everything (each column tagged with its plain label) and then selecting by the plain label —
    so no option can make the aliased export differ from the plain one by more than the labels. -/
theorem rename_commutes_with_selection {δ : Type} (le : α → α → Bool) (a : AMap α) (pref : List α)
    (keep : α → Bool) (cols : List (α × δ)) :
    exportCols le a pref (cols.filter fun c => keep c.1) =
      (exportCols le a pref (cols.map fun c => (c.1, c))).map fun out =>
        (out.filter fun c => keep c.2.1).map fun c => (c.1, c.2.2) := by
  rw [export_is_rename, export_is_rename, Option.map_map]
  cases renamer le a pref with
  | none => rfl
  | some f => simp [renameDf_filter_tagged f keep cols]

/-- … and with appending the solution columns: the export of `vars ++ extra` is the export of `vars` followed
    by the export of `extra` (same label map). -/
theorem rename_commutes_with_append {δ : Type} (le : α → α → Bool) (a : AMap α) (pref : List α)
    (cols extra : List (α × δ)) :
    exportCols le a pref (cols ++ extra) =
      (renamer le a pref).map fun f => renameDf f cols ++ renameDf f extra := by
  rw [export_is_rename]
  cases renamer le a pref with
  | none => rfl
  | some f => simp [renameDf_append]

/-- Whether the export raises does not depend on the options (nor on the frame at all). -/
theorem export_opts_raise_alike {δ : Type} (le : α → α → Bool) (a : AMap α) (pref : List α) (internal : α → Bool)
    (o o' : ExportOpts) (vars : List (α × δ)) (st it : α × δ) :
    (exportOpts le a pref internal o vars st it).isSome = (exportOpts le a pref internal o' vars st it).isSome := by
  unfold exportOpts
  rw [export_is_rename, export_is_rename]
  cases renamer le a pref <;> rfl

/-- A label that is no alias target of the instance map (e.g. `status`, `iterations`, an internal variable
    nobody aliased) keeps its name under every option. -/
theorem unaliased_label_kept {δ : Type} (le : α → α → Bool) (a : AMap α) (pref : List α) (cols out : List (α × δ))
    (h : exportCols le a pref cols = some out) (i : Nat) (hi : i < out.length) (hi' : i < cols.length)
    (hv : cols[i].1 ∉ vals a) : out[i].1 = cols[i].1 := by
  rcases (rename_only le a pref cols out h).2.2 i hi hi' with h1 | h1
  · exact h1
  · exact absurd (mem_vals_of_mem h1) hv

/-! ## 6. Class hierarchies: an instance uses its own class's `ALIASES` as they are when it is created -/

/-- **MRO look-up = nearest declaration.**  (`TableWF`: a base class exists before its subclass.)  An own
    `ALIASES` wins; a class without one sees exactly what its parent sees; directly below the mixin that is
    `AliasMixin.ALIASES`.  Same for `PREFERRED_NAMES`, independently. -/
theorem class_aliases_nearest_declaration {cs : Classes α} (hwf : TableWF cs.tbl) {c : Nat} {d : ClassDecl α}
    (hd : cs.tbl[c]? = some d) :
    (∀ m, d.aliases = some m → classAliases cs c = m) ∧
    (∀ p, d.aliases = none → d.parent = some p → classAliases cs c = classAliases cs p) ∧
    (d.aliases = none → d.parent = none → classAliases cs c = cs.mixinAliases) ∧
    (∀ l, d.pref = some l → classPref cs c = l) ∧
    (∀ p, d.pref = none → d.parent = some p → classPref cs c = classPref cs p) ∧
    (d.pref = none → d.parent = none → classPref cs c = cs.mixinPref) := by
  refine ⟨?_, ?_, ?_, ?_, ?_, ?_⟩
  · intro m hm; simp [classAliases, lookupAttr_succ, hd, hm]
  · intro p hn hp
    have hpc := hwf c d p hd hp
    unfold classAliases
    rw [lookupAttr_succ]
    simp only [hd, hn, hp]
    rw [lookupAttr_fuel _ hwf c p hpc]
  · intro hn hp; simp [classAliases, lookupAttr_succ, hd, hn, hp]
  · intro m hm; simp [classPref, lookupAttr_succ, hd, hm]
  · intro p hn hp
    have hpc := hwf c d p hd hp
    unfold classPref
    rw [lookupAttr_succ]
    simp only [hd, hn, hp]
    rw [lookupAttr_fuel _ hwf c p hpc]
  · intro hn hp; simp [classPref, lookupAttr_succ, hd, hn, hp]

/-- **An instance uses its own class's aliases, as of its creation — for every history before and after.**
    Whatever happened before (`es`: class statements, other instances of parents / children / siblings in any
    order, re-assignments, in-place changes) and whatever happens afterwards (`fs`), the outcome of `Cls(...)`
    is the constructor run on `Cls.ALIASES` / `Cls.PREFERRED_NAMES` as the look-up finds them at that moment, and
    it stays that way; the constructor leaves the class-level state alone. -/
theorem instance_uses_own_class_aliases (w : World α) (es fs : List (Event α)) (c : Nat) :
    (runEvents w (es ++ .new c :: fs)).insts[(runEvents w es).insts.length]? =
      some (construct c (classAliases (runEvents w es).cls c) (classPref (runEvents w es).cls c)) ∧
    (runEvents w (es ++ [.new c])).cls = (runEvents w es).cls := by
  constructor
  · rw [runEvents_append]
    show (runEvents (step (runEvents w es) (.new c)) fs).insts[_]? = _
    obtain ⟨l, hl⟩ := runEvents_insts_prefix (step (runEvents w es) (.new c)) fs
    rw [hl]
    show ((runEvents w es).insts ++ [_] ++ l)[_]? = _
    simp
  · rw [runEvents_append]
    rfl

/-- Existing instances keep their own map: a history only ever appends to the list of outcomes. -/
theorem existing_instances_keep_their_map (w : World α) (es : List (Event α)) (i : Nat) (x : Inst α)
    (h : w.insts[i]? = some x) : (runEvents w es).insts[i]? = some x := by
  obtain ⟨l, hl⟩ := runEvents_insts_prefix w es
  rw [hl]
  have hi : i < w.insts.length := by
    apply Classical.byContradiction
    intro hn
    rw [List.getElem?_eq_none (by omega)] at h
    cases h
  rw [List.getElem?_append_left hi]
  exact h

/-- **Instantiation order is irrelevant**: the class-level state after a history is that after the history
    with every constructor call removed — parent first, child first or interleaved, the next instance of a class
    gets the same map. -/
theorem instantiation_order_irrelevant (w : World α) (es : List (Event α)) (c : Nat) :
    (runEvents w es).cls = (runEvents w (es.filter fun e => !e.isNew)).cls ∧
    construct c (classAliases (runEvents w es).cls c) (classPref (runEvents w es).cls c) =
      construct c (classAliases (runEvents w (es.filter fun e => !e.isNew)).cls c)
        (classPref (runEvents w (es.filter fun e => !e.isNew)).cls c) := by
  have h : (runEvents w es).cls = (runEvents w (es.filter fun e => !e.isNew)).cls := by
    rw [runEvents_cls, runEvents_cls, foldl_stepClasses_filter]
  exact ⟨h, by rw [h]⟩

/-- `Cls.ALIASES = m` takes effect for `Cls` itself … -/
theorem reassigned_aliases_used (cs : Classes α) (c : Nat) (m : AMap α) (hc : c < cs.tbl.length) :
    classAliases (stepClasses cs (.setAliases c m)) c = m := by
  have : ∃ d, cs.tbl[c]? = some d := ⟨cs.tbl[c], by simp [hc]⟩
  obtain ⟨d, hd⟩ := this
  simp [classAliases, stepClasses, lookupAttr_succ, getElem?_setAt, hd]

/-- … and leaves every other class that has its own declaration alone (siblings, parents, re-declaring
    children). -/
theorem reassignment_leaves_other_declarations (cs : Classes α) (c c' : Nat) (m m' : AMap α) (hne : c' ≠ c)
    {d : ClassDecl α} (hd : cs.tbl[c']? = some d) (hm : d.aliases = some m') :
    classAliases (stepClasses cs (.setAliases c m)) c' = m' := by
  simp [classAliases, stepClasses, lookupAttr_succ, getElem?_setAt, hne, hd, hm]

/-! ## 7. Error paths: what a failed operation leaves behind

The instance is `Obj`: the container state, `self.names`, `self.aliases`, `self.preferred_names` — the mixin's
fields are part of the state here, so "they are not touched" is a theorem and not a typing artefact.  Operations:
the accessors of §2, `eval`, `add_variable`, `obj.preferred_names = …`, the export, `get_closest_match`.  The error
paths that compute a suggestion (`strict=True` rejection, undefined name in `eval`) READ `self.names` through
`get_closest_match` and nothing else (`suggest`). -/

/-- **A failed operation leaves the instance exactly as it was** — every modelled operation except
    `replace_values`, whatever failed: unknown name under `strict=True` (`AttributeError` / `NotImplementedError`),
    unknown key (`KeyError`), ill-shaped value, bad label, undefined name in `eval`, `add_variable` of a taken name
    / storage key / with an ill-shaped value, `preferred_names` under `strict=True`, ambiguous export.  For
    `replace_values` (the one loop of stores): everything but the contents of the series — the name list, the alias
    map, the preferred names, the index, `_strict` — is as it was (`failed_replace_is_prefix` says what the series
    hold). -/
theorem failed_op_preserves_state (env : Env α V P) (o : Obj α V P) (op : XOp α P)
    (hf : (xstep env o op).2.failed = true) :
    (op.isBulk = false → (xstep env o op).1 = o) ∧
    (xstep env o op).1.names = o.names ∧ (xstep env o op).1.aliases = o.aliases ∧
    (xstep env o op).1.pref = o.pref ∧ (xstep env o op).1.prefListed = o.prefListed ∧
    (xstep env o op).1.store.index = o.store.index ∧ (xstep env o op).1.store.strict = o.store.strict := by
  cases op with
  | acc op' =>
    by_cases h : ∃ n p, op' = .setAttr n p
    · obtain ⟨n, p, rfl⟩ := h
      rw [xstep_setAttr] at hf ⊢
      by_cases hr : strictRejects o.store (resolve o.aliases n) = true
      · rw [if_pos hr]
        exact ⟨fun _ => rfl, rfl, rfl, rfl, rfl, rfl, rfl⟩
      · rw [if_neg hr] at hf ⊢
        obtain ⟨h1, h2, h3, h4, h5, h6, h7⟩ := accStep_spec env o (.setAttr n p)
        exact ⟨fun _ => h7 hf (fun kvs e => by cases e), h1, h2, h3, h4, h5, h6⟩
    · have hns : ∀ n p, op' ≠ .setAttr n p := fun n p e => h ⟨n, p, e⟩
      rw [xstep_acc_of_not_setAttr env o op' hns] at hf ⊢
      obtain ⟨h1, h2, h3, h4, h5, h6, h7⟩ := accStep_spec env o op'
      refine ⟨fun hb => h7 hf ?_, h1, h2, h3, h4, h5, h6⟩
      intro kvs e
      subst e
      simp [XOp.isBulk] at hb
  | eval free => exact ⟨fun _ => rfl, rfl, rfl, rfl, rfl, rfl, rfl⟩
  | addVariable n v =>
    simp only [xstep, addVariableStep] at hf ⊢
    cases hchk : addVariableCheck env o.store n v with
    | error e => exact ⟨fun _ => rfl, rfl, rfl, rfl, rfl, rfl, rfl⟩
    | ok ser => rw [hchk] at hf; simp [XRes.failed] at hf
  | setPref l =>
    simp only [xstep] at hf ⊢
    by_cases hs : (o.store.strict && !o.prefListed) = true
    · rw [if_pos hs]
      exact ⟨fun _ => rfl, rfl, rfl, rfl, rfl, rfl, rfl⟩
    · rw [if_neg hs] at hf
      simp [XRes.failed] at hf
  | «export» ua => exact ⟨fun _ => rfl, rfl, rfl, rfl, rfl, rfl, rfl⟩
  | closestMatch n => exact ⟨fun _ => rfl, rfl, rfl, rfl, rfl, rfl, rfl⟩

/-- **`replace_values` that fails** (HEAD applies it key by key): the instance is the one after the
    replacement of the keys *before* the failing one — which succeeded — and the failing key's own assignment
    failed on that instance (leaving it alone, `failed_op_preserves_state`); nothing after it was looked at.  On
    an instance map no attribute is created or changed either. -/
theorem failed_replace_is_prefix (env : Env α V P) (o : Obj α V P) (hc : chained o.aliases = false)
    (kvs : List (α × P)) (hf : (xstep env o (.acc (.replaceValues kvs))).2.failed = true) :
    ∃ pre kv post, kvs = pre ++ kv :: post ∧
      (xstep env o (.acc (.replaceValues pre))).2.failed = false ∧
      (xstep env o (.acc (.replaceValues kvs))).1 = (xstep env o (.acc (.replaceValues pre))).1 ∧
      (xstep env (xstep env o (.acc (.replaceValues pre))).1 (.acc (.setItem kv.1 kv.2))).2.failed = true ∧
      (xstep env o (.acc (.replaceValues kvs))).1.store.attrs = o.store.attrs := by
  have hx : ∀ (o' : Obj α V P) l, xstep env o' (.acc (.replaceValues l)) = accStep env o' (.replaceValues l) :=
    fun _ _ => rfl
  have hxs : ∀ (o' : Obj α V P) n p, xstep env o' (.acc (.setItem n p)) = accStep env o' (.setItem n p) :=
    fun _ _ _ => rfl
  rw [hx] at hf
  obtain ⟨e, he⟩ := failed_acc hf
  simp only [aliased] at he
  obtain ⟨pre, kv, post, hsplit, hok, herr, hst⟩ := replaceLoop_err_split _ kvs o.store he
  have hkeep := aliasedSetItem_err env.E o.aliases _ kv.1 kv.2 herr
  refine ⟨pre, kv, post, hsplit, ?_, ?_, ?_, ?_⟩
  · rw [hx]
    simp only [accStep, aliased]
    cases hr : (replaceLoop (aliasedSetItem env.E o.aliases) o.store pre).2 with
    | err e' => exact absurd hr (hok e')
    | done => rfl
    | series v => rfl
    | value p => rfl
  · rw [hx, hx]
    simp only [accStep, aliased, hst, hkeep]
  · rw [hx, hxs]
    simp only [accStep, aliased, herr, XRes.failed]
  · rw [hx]
    simp only [accStep, aliased]
    exact replaceLoop_attrs _ (aliasedSetItem_attrs env.E hc) kvs o.store

/-- Operations that only look — attribute / item / label reads, `eval`, the export, `get_closest_match` — leave
    the instance exactly as it was, whether they return or raise. -/
theorem read_op_preserves_state (env : Env α V P) (o : Obj α V P) (op : XOp α P) (hr : op.isRead = true) :
    (xstep env o op).1 = o := by
  cases op with
  | acc op' =>
    cases op' with
    | getAttr n => simp [xstep, accStep, aliased]
    | getItem n => simp [xstep, accStep, aliased]
    | getAt n ix => simp [xstep, accStep, aliased]
    | setAttr n p => simp [XOp.isRead] at hr
    | setItem n p => simp [XOp.isRead] at hr
    | setAt n ix p => simp [XOp.isRead] at hr
    | replaceValues kvs => simp [XOp.isRead] at hr
    | raw id => simp [XOp.isRead] at hr
  | eval free => rfl
  | addVariable n v => simp [XOp.isRead] at hr
  | setPref l => simp [XOp.isRead] at hr
  | «export» ua => rfl
  | closestMatch n => rfl

/-- **Resolution depends on the alias map and the name only.**  No operation — failed or not — changes the alias
    map, so after ANY history name resolution is the function `resolve aliases` it was at construction; and two
    instances that hold the same alias map resolve every name alike after any two histories, whatever their stores,
    name lists, preferences and `strict` flags, and whatever was rejected on the way: there is no hidden per-object
    state behind `_resolve_alias`. -/
theorem resolution_depends_only_on_aliases (env : Env α V P) (o o' : Obj α V P) (h : o.aliases = o'.aliases)
    (ops ops' : List (XOp α P)) (n : α) :
    (xrun env o ops).1.aliases = o.aliases ∧
    (xrun env o ops).1.resolve n = resolve o.aliases n ∧
    (xrun env o ops).1.resolve n = (xrun env o' ops').1.resolve n := by
  have h1 := xrun_aliases env ops o
  have h2 := xrun_aliases env ops' o'
  refine ⟨h1, ?_, ?_⟩
  · simp [Obj.resolve, h1]
  · simp [Obj.resolve, h1, h2, h]

/-- **The plain twin, one operation.**  `p` = the same object without the mixin (same container state and name
    list, no alias).  On an instance map, under the guard of §2, every operation that exists on both — the
    accessors, `eval`, `add_variable`, the plain export, `get_closest_match` — gives the same result through the
    mixin as the plain object gives for the resolved names (in particular it **fails iff the canonical operation
    fails, with the same class**), and afterwards the two are twins again: same series, same index, same
    attributes, same `names`. -/
theorem plain_twin_agrees (env : Env α V P) {a : AMap α} (hc : chained a = false) {o p : Obj α V P}
    (ht : Twin a o p) (hinv : Inv a o.store) (op : XOp α P) (htw : op.twinnable = true) :
    (xstep env o op).2 = (xstep env p (op.mapName (resolve a))).2 ∧
    ((xstep env o op).2.failed = (xstep env p (op.mapName (resolve a))).2.failed) ∧
    (xstep env p (op.mapName (resolve a))).1.store = (xstep env o op).1.store ∧
    (xstep env p (op.mapName (resolve a))).1.names = (xstep env o op).1.names ∧
    Twin a (xstep env o op).1 (xstep env p (op.mapName (resolve a))).1 := by
  obtain ⟨h1, h2, _⟩ := twin_step env hc ht hinv op htw
  exact ⟨h1, by rw [h1], h2.1, h2.2.1, h2⟩

/-- **The plain twin, all histories** — successful and failed operations interleaved in any order. -/
theorem plain_twin_history (env : Env α V P) {a : AMap α} (hc : chained a = false) {o p : Obj α V P}
    (ht : Twin a o p) (hinv : Inv a o.store) (ops : List (XOp α P)) (htw : ∀ op ∈ ops, op.twinnable = true) :
    (xrun env o ops).2 = (xrun env p (ops.map (XOp.mapName (resolve a)))).2 ∧
    (xrun env p (ops.map (XOp.mapName (resolve a)))).1.store = (xrun env o ops).1.store ∧
    (xrun env p (ops.map (XOp.mapName (resolve a)))).1.names = (xrun env o ops).1.names := by
  obtain ⟨h1, h2⟩ := twin_run env hc ops ht hinv htw
  exact ⟨h1, h2.1, h2.2.1⟩

/-- `o.plain` is a twin of `o`. -/
theorem plain_is_twin (o : Obj α V P) : Twin o.aliases o o.plain := ⟨rfl, rfl, rfl, rfl⟩


/-! ## 8. Constructor routes: every route that builds an instance is `construct ∘ resolve-keys`

`FsicModel/AliasCtor.lean`: `Model(span, **kw)`, `Model.from_dataframe(df, **kw)` (the column labels become
keywords, spelled as they are), `Linker(submodels, **kw)`, and the round trip through
`to_dataframe(use_aliases=True)`.  A column (or keyword) named by ANY name that resolves to the variable `v` -
`v` itself, an alias, an alias of an alias, the far end of a declared chain - initialises `v` with exactly
that column's data; nothing is dropped on the way to `AliasMixin.__init__`. -/

/-- The routes, keyword by keyword: the class behind the mixin sees the resolved names and nothing else. -/
theorem ctor_routes_resolve_keys (a : AMap α) (strict : Bool) (names : List α) (dflt : P)
    (cols extra kwargs : List (α × P)) :
    fromDataframeAliased a strict names dflt cols extra =
      (if clash cols extra then .error typeError
       else ctorBase strict names dflt (relabel (resolve a) (cols ++ extra))) ∧
    linkerCtorAliased a names dflt kwargs = ctorBase false names dflt (relabel (resolve a) kwargs) :=
  ⟨rfl, rfl⟩

/-- **`from_dataframe` with alias-named columns.**  Each variable is given at most once (`hnd`: no two of the
    column labels / extra keywords resolve to the same name).  Then (1) the result - instance or exception - is
    that of the class WITHOUT the mixin on the canonically labelled table and keywords, and (2) if an instance
    comes back it has exactly the model's variables, every column / keyword whose name resolves to a variable
    `v` is `v`'s initial value - whatever spelling was used -, and every variable that no label resolves to
    holds the default. -/
theorem from_dataframe_alias_columns (a : AMap α) (strict : Bool) (names : List α) (dflt : P)
    (cols extra : List (α × P)) (hnd : ((cols ++ extra).map fun kv => resolve a kv.1).Nodup) :
    fromDataframeAliased a strict names dflt cols extra =
      fromDataframeBase strict names dflt (relabel (resolve a) cols) (relabel (resolve a) extra) ∧
    ∀ init, fromDataframeAliased a strict names dflt cols extra = .ok init →
      init.map Prod.fst = names ∧
      (∀ x p, (x, p) ∈ cols ++ extra → resolve a x ∈ names → (resolve a x, p) ∈ init) ∧
      (∀ n, n ∈ names → (∀ kv, kv ∈ cols ++ extra → resolve a kv.1 ≠ n) → (n, dflt) ∈ init) := by
  have hnd' : ((relabel (resolve a) (cols ++ extra)).map Prod.fst).Nodup := by
    rw [map_fst_relabel]; exact hnd
  have hraw : ((cols ++ extra).map Prod.fst).Nodup := by
    have e : ((cols ++ extra).map fun kv => resolve a kv.1) = ((cols ++ extra).map Prod.fst).map (resolve a) := by
      simp [List.map_map, Function.comp_def]
    rw [e] at hnd
    exact List.Pairwise.of_map (resolve a) (fun x y hne e => hne (by rw [e])) hnd
  have hc1 := clash_false_of_nodup hraw
  have hc2 : clash (relabel (resolve a) cols) (relabel (resolve a) extra) = false :=
    clash_false_of_nodup (by rw [← relabel_append]; exact hnd')
  have hroute : fromDataframeAliased a strict names dflt cols extra =
      ctorBase strict names dflt (relabel (resolve a) (cols ++ extra)) := by
    simp [fromDataframeAliased, hc1, ctorAliased, relabel]
  refine ⟨?_, ?_⟩
  · rw [hroute]
    simp [fromDataframeBase, hc2, relabel_append]
  · intro init h
    rw [hroute] at h
    have e := ctorBase_ok h
    subst e
    refine ⟨by simp [List.map_map, Function.comp_def], ?_, ?_⟩
    · intro x p hxp hx
      have hm : (resolve a x, p) ∈ relabel (resolve a) (cols ++ extra) :=
        List.mem_map.mpr ⟨(x, p), hxp, rfl⟩
      exact List.mem_map.mpr ⟨resolve a x, hx, by rw [lookupLast_of_mem hnd' hm]; rfl⟩
    · intro n hn hno
      have hnot : n ∉ (relabel (resolve a) (cols ++ extra)).map Prod.fst := by
        rw [map_fst_relabel]
        intro hmem
        obtain ⟨kv, hkv, e⟩ := List.mem_map.mp hmem
        exact hno kv hkv e
      exact List.mem_map.mpr ⟨n, hn, by rw [lookupLast_none hnot]; rfl⟩

/-- Chains: any name further along the declared chain of `x` (1, 2, 3 … links) resolves on the instance as `x`
    does - the instance map is the shortened one. -/
theorem chain_label_resolves {m a : AMap α} (hwf : WF m) (h : instanceAliases m = .returned a) (x : α) (i : Nat) :
    resolve a (follow m i x) = resolve a x := by
  induction i generalizing x with
  | zero => rfl
  | succ i ih =>
    show resolve a (follow m i (resolve m x)) = resolve a x
    rw [ih]
    rcases resolve_cases m x with ⟨_, e⟩ | hmem
    · rw [e]
    · exact ((declared_alias_resolves_alike hwf h hmem).1).symm

/-- A table (or keyword set) labelled through one spelling and the same table labelled through names that lie
    anywhere along the declared chains of those spellings (direct alias, alias of an alias, chain of 3, the
    variable itself; a mixture) build the same instance or raise alike. -/
theorem from_dataframe_chain_labels {m a : AMap α} (hwf : WF m) (h : instanceAliases m = .returned a)
    (f g : α → α) (hfg : ∀ n, ∃ i, g n = follow m i (f n)) (strict : Bool) (names : List α) (dflt : P)
    (cols : List (α × P)) :
    fromDataframeAliased a strict names dflt (relabel f cols) [] =
      fromDataframeAliased a strict names dflt (relabel g cols) [] ∧
    ctorAliased a strict names dflt (relabel f cols) = ctorAliased a strict names dflt (relabel g cols) := by
  have hr : ∀ n, resolve a (f n) = resolve a (g n) := by
    intro n
    obtain ⟨i, e⟩ := hfg n
    rw [e, chain_label_resolves hwf h]
  have e := ctor_indistinguishable a strict names dflt cols f g hr
  exact ⟨by simpa [fromDataframeAliased, clash_nil, relabel] using e, e⟩

/-- **Export, then import.**  Guard as for the export: no column label is itself an alias.  Building an
    instance from the aliased export is building it from the plain one: every renamed column finds its way
    back to the variable it came from. -/
theorem export_import_round_trip (le : α → α → Bool) {a : AMap α} (hwf : WF a) (pref : List α) (strict : Bool)
    (names : List α) (dflt : P) (cols out : List (α × P)) (hx : exportCols le a pref cols = some out)
    (hg : ∀ c, c ∈ cols.map Prod.fst → c ∉ keys a) :
    fromDataframeAliased a strict names dflt out [] = fromDataframeBase strict names dflt cols [] := by
  obtain ⟨f, rfl, hf⟩ := exportCols_shape le a pref cols out hx
  have hback : relabel (resolve a) (renameDf f cols) = cols := by
    unfold relabel renameDf
    rw [List.map_map]
    conv => rhs; rw [← List.map_id cols]
    apply List.map_congr_left
    intro c hc
    have hk : c.1 ∉ keys a := hg _ (List.mem_map_of_mem hc)
    have : resolve a (f c.1) = c.1 := by
      rcases hf c.1 with e | hmem
      · rw [e]; exact resolve_of_not_key hk
      · exact resolve_of_mem hwf hmem
    simp [Function.comp, this]
  have h1 : fromDataframeAliased a strict names dflt (renameDf f cols) [] =
      ctorBase strict names dflt (relabel (resolve a) (renameDf f cols)) := by
    simp [fromDataframeAliased, clash_nil, ctorAliased, relabel]
  rw [h1, hback]
  simp [fromDataframeBase, clash_nil]

/-- … and the instance that comes back holds the same values: `from_dataframe(m.to_dataframe(use_aliases=True,
    status=False, iterations=False))` has every variable of `m` with the series it has in `m`. -/
theorem round_trip_same_values (le : α → α → Bool) {a : AMap α} (hwf : WF a) (pref : List α) (strict : Bool)
    {names : List α} (hnd : names.Nodup) (dflt : P) (val : α → P) (hg : ∀ n, n ∈ names → n ∉ keys a)
    (hx : (exportCols le a pref (names.map fun n => (n, val n))).isSome) :
    roundTrip le a pref strict names dflt (names.map fun n => (n, val n)) =
      some (.ok (names.map fun n => (n, val n))) := by
  obtain ⟨out, hout⟩ := Option.isSome_iff_exists.mp hx
  have hlab : (names.map fun n => (n, val n)).map Prod.fst = names := by
    simp [List.map_map, Function.comp_def]
  unfold roundTrip
  rw [hout, Option.map_some]
  rw [export_import_round_trip le hwf pref strict names dflt _ out hout (by rw [hlab]; exact hg)]
  simp only [fromDataframeBase, clash_nil, List.append_nil]
  unfold ctorBase
  have hno : ((names.map fun n => (n, val n)).any fun kv => decide (kv.1 ∉ names)) = false := by
    rw [List.any_eq_false]
    intro kv hkv
    obtain ⟨n, hn, rfl⟩ := List.mem_map.mp hkv
    simpa using hn
  simp only [hno, Bool.and_false, Bool.false_eq_true, and_false, ite_false]
  congr 2
  apply List.map_congr_left
  intro n hn
  have hl : ctorBase.lookupLast (names.map fun n => (n, val n)) n = some (val n) :=
    lookupLast_of_mem (by rw [hlab]; exact hnd) (List.mem_map.mpr ⟨n, hn, rfl⟩)
  rw [hl]
  rfl

/-! ## 9. The form of a name

Names are an abstract type: what the model computes depends on which names are EQUAL and on nothing else.
Stated as invariance under any injective re-encoding `f` of the names (into strings of another class, numbers,
…): resolution, the constructor's alias stage (returned map or `ValueError`) and the constructor keywords all
commute with `f`.  That Python's str forms of one name (`str`, `numpy.str_`, a `str`+`Enum` member, a user
subclass of `str`, interned or not) ARE equal names - `==` and `hash` agree, so `dict.get` and `in` cannot
tell them apart - is an assumption about the code path, not a theorem: `_resolve_alias` could inspect the type.
The harness checks it (part K). -/

theorem resolve_reencode {β : Type} [DecidableEq β] (f : α → β) (hf : ∀ x y, f x = f y → x = y) (m : AMap α)
    (x : α) : resolve (reMap f m) (f x) = f (resolve m x) :=
  resolve_reMap f hf m x

theorem constructor_reencode {β : Type} [DecidableEq β] (f : α → β) (hf : ∀ x y, f x = f y → x = y) (m : AMap α) :
    instanceAliases (reMap f m) = (instanceAliases m).map (reMap f) :=
  instanceAliases_reMap f hf m

theorem ctor_reencode {β : Type} [DecidableEq β] (f : α → β) (hf : ∀ x y, f x = f y → x = y) (a : AMap α)
    (strict : Bool) (names : List α) (dflt : P) (kwargs : List (α × P)) :
    ctorAliased (reMap f a) strict (names.map f) dflt (kwargs.map fun kv => (f kv.1, kv.2)) =
      (ctorAliased a strict names dflt kwargs).map (List.map fun kv => (f kv.1, kv.2)) := by
  unfold ctorAliased
  rw [← ctorBase_reencode f hf]
  congr 1
  simp only [List.map_map]
  apply List.map_congr_left
  intro kv _
  simp only [Function.comp]
  rw [resolve_reMap f hf]

/-! ## 10. Labels that are spelt like names

`model[name, label]`, `model[name, a:b:c]`: the mixin resolves the FIRST component of the key and nothing else.  In
§2 the rest of the key is a value of the opaque type `P`, so `alias_transparent_step` already says that the mixin
cannot look at it — but there a label cannot *be* a name.  Here the span is a list of names (`labelOps span`,
`FsicModel/AliasLabel.lean`): a label may be an alias, a variable, the target of an alias, anything.  The statements
below hold for EVERY label and every slice bound — no hypothesis keeps them apart from `keys a`. -/

/-- **The label is not resolved** — whatever it is spelt like (`ix` may mention aliases, variables, targets): a
    label-indexed read or write through any name is the plain container's operation on `resolve name` with the
    SAME index. -/
theorem label_not_resolved {β : Type} (span : List α) {a : AMap α} (hc : chained a = false)
    {s : Store α (List β) (LPay α β)} (hinv : Inv a s) (n : α) (ix : LIx α) :
    aliased (labelOps span) a s (.getAt n (.ix ix)) = base (labelOps span) s (.getAt (resolve a n) (.ix ix)) ∧
    ∀ p, aliased (labelOps span) a s (.setAt n (.ix ix) p) = base (labelOps span) s (.setAt (resolve a n) (.ix ix) p) :=
  ⟨alias_transparent_step (labelOps span) hc hinv (.getAt n (.ix ix)),
   fun p => alias_transparent_step (labelOps span) hc hinv (.setAt n (.ix ix) p)⟩

/-- … in particular for a label that IS an alias (`l ∈ keys a`, pointing somewhere else): the access goes to the
    period labelled `l`, and differs from nothing the plain container does with `l`. -/
theorem alias_named_label_not_resolved {β : Type} (span : List α) {a : AMap α} (hc : chained a = false)
    {s : Store α (List β) (LPay α β)} (hinv : Inv a s) (n l : α) (_hl : l ∈ keys a) (_hne : resolve a l ≠ l) :
    aliased (labelOps span) a s (.getAt n (.ix (.label l))) =
      base (labelOps span) s (.getAt (resolve a n) (.ix (.label l))) :=
  (label_not_resolved span hc hinv n (.label l)).1

/-- **Absolutely**: `m[name, l]` is element `span.index(l)` of the series stored under `resolve name`, and
    `m[name, l] = c` changes exactly that cell of exactly that series; a label that is not in the span is `KeyError`
    and changes nothing — even when `resolve l` is in the span. -/
theorem label_access_absolute {β : Type} (span : List α) {a : AMap α} (hc : chained a = false)
    {s : Store α (List β) (LPay α β)} (hinv : Inv a s) (n l : α) {v : List β}
    (hv : lookup s.vars (resolve a n) = some v) :
    (∀ i, locate span l = some i → ∀ (hi : i < v.length),
      span[i]? = some l ∧
      aliased (labelOps span) a s (.getAt n (.ix (.label l))) = (s, .value (.scalar v[i])) ∧
      ∀ c, aliased (labelOps span) a s (.setAt n (.ix (.label l)) (.scalar c)) =
        ({ s with vars := update s.vars (resolve a n) (v.set i c) }, .done)) ∧
    (l ∉ span →
      aliased (labelOps span) a s (.getAt n (.ix (.label l))) = (s, .err .keyError) ∧
      ∀ p, aliased (labelOps span) a s (.setAt n (.ix (.label l)) p) = (s, .err .keyError)) := by
  obtain ⟨hg, hs⟩ := label_not_resolved span hc hinv n (.label l)
  constructor
  · intro i hl hi
    refine ⟨(locate_spec hl).1, ?_, ?_⟩
    · rw [hg]; exact base_getAt_label span s hv hl hi
    · intro c; rw [hs]; exact base_setAt_label span s c hv hl hi
  · intro hl
    have hn := locate_none_iff.mpr hl
    refine ⟨?_, ?_⟩
    · rw [hg]; exact base_getAt_label_missing span s hv hn
    · intro p; rw [hs]; exact base_setAt_label_missing span s p hv hn

/-- Slices: both bounds are located as they are spelt (a missing bound is the first / last label), the interval is
    closed, a scalar goes into exactly the selected cells of exactly the series stored under `resolve name`. -/
theorem label_slice_absolute {β : Type} (span : List α) {a : AMap α} (hc : chained a = false)
    {s : Store α (List β) (LPay α β)} (hinv : Inv a s) (n : α) (lo hi : Option α) {st : Nat} (hst : st ≠ 0)
    {v : List β} (hv : lookup s.vars (resolve a n) = some v) {i j : Nat}
    (hlo : locStart span lo = some i) (hhi : locStop span hi = some j) :
    aliased (labelOps span) a s (.getAt n (.ix (.slice lo hi st))) =
      (s, .value (.list ((slicePositions i j st).filterMap fun k => v[k]?))) ∧
    ∀ c, aliased (labelOps span) a s (.setAt n (.ix (.slice lo hi st)) (.scalar c)) =
      ({ s with vars := update s.vars (resolve a n) (setAll v (slicePositions i j st) c) }, .done) := by
  obtain ⟨hg, hs⟩ := label_not_resolved span hc hinv n (.slice lo hi st)
  refine ⟨?_, ?_⟩
  · rw [hg]; exact base_getAt_slice span s lo hi hv hlo hhi hst
  · intro c; rw [hs]; exact base_setAt_slice span s lo hi c hv hlo hhi hst

/-- What a mixin that resolves every `str` of the key would do instead: the access lands on the label's TARGET. -/
theorem resolving_labels_reads_target {β : Type} (span : List α) (a : AMap α) (s : Store α (List β) (LPay α β))
    (n : α) (ix : LIx α) :
    aliasedAll span a s (.getAt n (.ix ix)) = aliased (labelOps span) a s (.getAt n (.ix (ix.map (resolve a)))) ∧
    ∀ p, aliasedAll span a s (.setAt n (.ix ix) p) =
      aliased (labelOps span) a s (.setAt n (.ix (ix.map (resolve a))) p) :=
  ⟨rfl, fun _ => rfl⟩

/-- **… and that is a different container** whenever the span has a label `l` whose target `resolve a l` is another
    period holding another value (read: another result; write: another cell), or is no period at all (`KeyError`
    where the code succeeds). -/
theorem resolving_labels_differs {β : Type} (span : List α) {a : AMap α} (hc : chained a = false)
    {s : Store α (List β) (LPay α β)} (hinv : Inv a s) (n l : α) {v : List β}
    (hv : lookup s.vars (resolve a n) = some v) {i : Nat} (hl : locate span l = some i) (hi : i < v.length) :
    (∀ j (hj : j < v.length), locate span (resolve a l) = some j → v[i] ≠ v[j] →
      aliasedAll span a s (.getAt n (.ix (.label l))) ≠ aliased (labelOps span) a s (.getAt n (.ix (.label l)))) ∧
    (resolve a l ∉ span →
      aliasedAll span a s (.getAt n (.ix (.label l))) ≠ aliased (labelOps span) a s (.getAt n (.ix (.label l))) ∧
      ∀ c, aliasedAll span a s (.setAt n (.ix (.label l)) (.scalar c)) ≠
        aliased (labelOps span) a s (.setAt n (.ix (.label l)) (.scalar c))) := by
  have habs := (label_access_absolute span hc hinv n l hv).1 i hl hi
  constructor
  · intro j hj hlj hne h
    rw [(resolving_labels_reads_target span a s n (.label l)).1] at h
    have h2 := ((label_access_absolute span hc hinv n (resolve a l) hv).1 j hlj hj).2.1
    simp only [LIx.map] at h
    rw [h2, habs.2.1] at h
    injection h with _ h
    injection h with h
    injection h with h
    exact hne h.symm
  · intro hns
    have hk := (label_access_absolute span hc hinv n (resolve a l) hv).2 hns
    refine ⟨?_, ?_⟩
    · intro h
      rw [(resolving_labels_reads_target span a s n (.label l)).1] at h
      simp only [LIx.map] at h
      rw [hk.1, habs.2.1] at h
      injection h with _ h
      cases h
    · intro c h
      rw [(resolving_labels_reads_target span a s n (.label l)).2] at h
      simp only [LIx.map] at h
      rw [hk.2, habs.2.2 c] at h
      injection h with _ h
      cases h

end Fsic.C18

/-! ## Concrete instances that meet the hypotheses used above -/
namespace Fsic.C18
open Fsic.Alias

/-- Python compares `str` by code point, lexicographically — as Lean's `String` order does. -/
def strLe (x y : String) : Bool := decide (x ≤ y)

theorem linOrd_strLe : LinOrd strLe :=
  ⟨fun a b => by simpa [strLe] using String.le_total a b,
   fun a b c h1 h2 => by simp [strLe] at *; exact String.le_trans h1 h2,
   fun a b h1 h2 => by simp [strLe] at *; exact String.le_antisymm h1 h2⟩

def exE : ValOps String (List Nat) Nat where
  assign := fun v p => .ok (v.map fun _ => p)
  readAt := fun v ix => match v[ix]? with | some x => .ok x | none => .error (.value 0)
  writeAt := fun v ix p => .ok (v.set ix p)
  raw := fun _ _ _ v => v

def exS : Store String (List Nat) Nat := ⟨false, [("Y", [1, 2]), ("C", [3, 4])], [("note", 7)]⟩

example : chained [("GDP", "Y"), ("income", "Y")] = false := by decide
example : Inv [("GDP", "Y"), ("income", "Y")] exS := by unfold Alias.Inv; decide
example : (run (aliased exE [("GDP", "Y"), ("income", "Y")]) exS
    [.setAt "GDP" 0 9, .setAttr "income" 5, .setAt "income" 1 8, .replaceValues [("GDP", 6)], .setAttr "memo" 1]).1.vars
    = [("Y", [6, 6]), ("C", [3, 4])] := by decide
example : (run (aliased exE [("GDP", "Y"), ("income", "Y")]) exS [.setAttr "memo" 1, .setAttr "GDP" 2]).1.attrNames
    = ["note", "memo"] := by decide
example : WF [("GDP", "Y"), ("income", "Y")] ∧ prefCheck [("GDP", "Y"), ("income", "Y")] ["income"] = true := by
  unfold WF keys; decide


-- error paths (§7): a model with Y, C, aliases GDP / income → Y; `closest` = the spellings that agree up to case
def exFold (s : String) : String := if s = "y" then "Y" else if s = "c" then "C" else s
def exEnv : Env String (List Nat) Nat where
  E := exE
  closest := fun names n => names.filter fun x => exFold x = exFold n
  us := fun n => "_" ++ n
  newSeries := fun p => if p = 0 then .error .dimensionError else .ok [p, p]
  le := strLe
  internal := fun s => s.toList.head? = some '_'
  tail := ["status", "iterations"]
  prefName := "preferred_names"

def exObj (strict : Bool) (names : List String := ["Y", "C"]) : Obj String (List Nat) Nat :=
  ⟨⟨strict, names.map fun n => (n, [1, 2]), [("span", 0), ("names", 0)]⟩, names, [("GDP", "Y"), ("income", "Y")], [], false⟩

-- the hypotheses of `plain_twin_agrees` / `plain_twin_history` are met by an instance and its `.plain`
example : chained (exObj true).aliases = false ∧ Inv (exObj true).aliases (exObj true).store := by
  unfold Alias.Inv; decide
-- strict=True, a typo of an alias: AttributeError, nothing moved (the error path read `names`: no suggestion here)
example : (xstep exEnv (exObj true) (.acc (.setAttr "GDPP" 5))).2.failed = true ∧
    (xstep exEnv (exObj true) (.acc (.setAttr "GDPP" 5))).1.names = ["Y", "C"] ∧
    (xstep exEnv (exObj true) (.acc (.setAttr "GDPP" 5))).1.aliases = [("GDP", "Y"), ("income", "Y")] ∧
    (xstep exEnv (exObj true) (.acc (.setAttr "GDPP" 5))).1.store.vars = [("Y", [1, 2]), ("C", [1, 2])] ∧
    (xstep exEnv (exObj true) (.acc (.setAttr "GDPP" 5))).1.store.attrNames = ["span", "names"] := by decide
-- two variables that differ by case only: the near miss ties, NotImplementedError; one match: AttributeError
example : strictError exEnv (exObj true ["Y", "y", "C"]) "Y" = .notImplementedError ∧
    strictError exEnv (exObj true ["Y", "y", "C"]) "c" = .attributeError := by decide
-- the same assignment without strict succeeds (an ad-hoc attribute): the failure above is not vacuous
example : (xstep exEnv (exObj false) (.acc (.setAttr "GDPP" 5))).2.failed = false ∧
    (xstep exEnv (exObj false) (.acc (.setAttr "GDPP" 5))).1.store.attrNames = ["span", "names", "GDPP"] := by decide
-- eval: an alias is an undefined name (AttributeError), variables evaluate; nothing moves either way
example : (xstep exEnv (exObj false) (.eval ["Y", "GDP"])).2.failed = true ∧
    (xstep exEnv (exObj false) (.eval ["Y", "C"])).2.failed = false ∧
    (xstep exEnv (exObj false) (.eval ["Y", "GDP"])).1.names = ["Y", "C"] := by decide
-- add_variable: existing variable / attribute / taken storage key / ill-shaped value fail; a new name extends names
example : (xstep exEnv (exObj false) (.addVariable "Y" 7)).2.failed = true ∧
    (xstep exEnv (exObj false) (.addVariable "span" 7)).2.failed = true ∧
    (xstep exEnv (exObj false ["Y", "_W"]) (.addVariable "_W" 7)).2.failed = true ∧
    (xstep exEnv (xstep exEnv (exObj false) (.acc (.setAttr "_W" 5))).1 (.addVariable "W" 7)).2.failed = true ∧
    (xstep exEnv (exObj false) (.addVariable "W" 0)).2.failed = true ∧
    (xstep exEnv (exObj false) (.addVariable "W" 0)).1.names = ["Y", "C"] ∧
    (xstep exEnv (exObj false) (.addVariable "W" 7)).1.names = ["Y", "C", "W"] ∧
    (xstep exEnv (exObj false) (.addVariable "GDP" 7)).1.names = ["Y", "C", "GDP"] := by decide
-- replace_values with a bad key in the middle: the key before it is stored, the one after it is not
example : (xstep exEnv (exObj false) (.acc (.replaceValues [("GDP", 6), ("nope", 1), ("C", 9)]))).2.failed = true ∧
    (xstep exEnv (exObj false) (.acc (.replaceValues [("GDP", 6), ("nope", 1), ("C", 9)]))).1.store.vars
      = [("Y", [6, 6]), ("C", [1, 2])] ∧
    (xstep exEnv (exObj false) (.acc (.replaceValues [("GDP", 6), ("nope", 1), ("C", 9)]))).1.names = ["Y", "C"] := by
  decide
-- preferred_names at run time: rejected under strict; otherwise stored, and two aliases of Y make the export raise
example : (xstep exEnv (exObj true) (.setPref ["GDP", "income"])).2.failed = true ∧
    (xstep exEnv (exObj true) (.setPref ["GDP", "income"])).1.pref = [] ∧
    (xstep exEnv (xstep exEnv (exObj false) (.setPref ["GDP", "income"])).1 (.export true)).2.failed = true ∧
    (xstep exEnv (xstep exEnv (exObj false) (.setPref ["GDP"])).1 (.export true)).2.failed = false := by decide
-- a history with failures in it: the plain twin through the resolved names ends with the same series and names
example : (xrun exEnv (exObj true) [.acc (.setItem "GDP" 4), .acc (.setAttr "GDPP" 5), .eval ["income"],
      .acc (.getItem "nope"), .addVariable "Y" 1, .acc (.setAt "income" 1 8)]).1.store.vars
    = (xrun exEnv (exObj true).plain [.acc (.setItem "Y" 4), .acc (.setAttr "GDPP" 5), .eval ["income"],
      .acc (.getItem "nope"), .addVariable "Y" 1, .acc (.setAt "Y" 1 8)]).1.store.vars ∧
    (xrun exEnv (exObj true) [.acc (.setItem "GDP" 4), .acc (.setAttr "GDPP" 5), .eval ["income"],
      .acc (.getItem "nope"), .addVariable "Y" 1, .acc (.setAt "income" 1 8)]).1.store.vars
    = [("Y", [4, 8]), ("C", [1, 2])] ∧
    ((xrun exEnv (exObj true) [.acc (.setItem "GDP" 4), .acc (.setAttr "GDPP" 5), .eval ["income"],
      .acc (.getItem "nope"), .addVariable "Y" 1, .acc (.setAt "income" 1 8)]).2.map XRes.failed)
    = [false, true, true, true, true, false] := by decide

-- export with options: `_H` is internal, `wealth` its alias; status / iterations on and off
def exVars : List (String × Nat) := [("Y", 1), ("_H", 2), ("G", 3)]
def exInternal (s : String) : Bool := s.toList.head? = some '_'
example : exportOpts strLe [("GDP", "Y"), ("wealth", "_H")] [] exInternal {} exVars ("status", 8) ("iterations", 9)
    = some [("GDP", 1), ("G", 3), ("status", 8), ("iterations", 9)] := by decide
example : exportOpts strLe [("GDP", "Y"), ("wealth", "_H")] [] exInternal ⟨false, true, true⟩ exVars ("status", 8)
    ("iterations", 9) = some [("GDP", 1), ("wealth", 2), ("G", 3), ("iterations", 9)] := by decide
example : exportOpts strLe [("GDP", "Y"), ("wealth", "_H")] ["Y"] exInternal ⟨true, false, true⟩ exVars ("status", 8)
    ("iterations", 9) = some [("Y", 1), ("wealth", 2), ("G", 3), ("status", 8)] := by decide
example : exportOpts strLe [("GDP", "Y"), ("wealth", "_H")] [] exInternal ⟨false, false, false⟩ exVars ("status", 8)
    ("iterations", 9) = some [("GDP", 1), ("G", 3)] := by decide

-- classes: P(AliasMixin, Base) {GDP: Y}; C(P) re-declares {income: Y}; G(C) inherits; S(P) {out: Y, o2: out}
def exClasses : List (Event String) :=
  [.defClass none (some [("GDP", "Y")]) none, .defClass (some 0) (some [("income", "Y")]) (some ["income"]),
   .defClass (some 1) none none, .defClass (some 0) (some [("out", "Y"), ("o2", "out")]) none]
example : TableWF (runEvents World.init exClasses).cls.tbl := by
  intro c d p hc hp
  have : (runEvents World.init exClasses).cls.tbl =
      [⟨none, some [("GDP", "Y")], none⟩, ⟨some 0, some [("income", "Y")], some ["income"]⟩, ⟨some 1, none, none⟩,
       ⟨some 0, some [("out", "Y"), ("o2", "out")], none⟩] := by decide
  rw [this] at hc
  match c with
  | 0 => simp at hc; subst hc; simp at hp
  | 1 => simp at hc; subst hc; simp at hp; omega
  | 2 => simp at hc; subst hc; simp at hp; omega
  | 3 => simp at hc; subst hc; simp at hp; omega
  | n + 4 => simp at hc
-- parent first, then child, grandchild, sibling: each its own (nearest) declaration
example : (runEvents World.init (exClasses ++ [.new 0, .new 1, .new 2, .new 3])).insts =
    [.ok 0 [("GDP", "Y")] [], .ok 1 [("income", "Y")] ["income"], .ok 2 [("income", "Y")] ["income"],
     .ok 3 [("out", "Y"), ("o2", "Y")] []] := by decide
-- child first, parent in between: the same maps
example : (runEvents World.init (exClasses ++ [.new 2, .new 0, .new 1])).insts =
    [.ok 2 [("income", "Y")] ["income"], .ok 0 [("GDP", "Y")] [], .ok 1 [("income", "Y")] ["income"]] := by decide
-- re-assignment / in-place change after the first instance: old instances keep their map, new ones see the change;
-- the grandchild follows its nearest declaration (C), a change through G lands in C's dict
example : (runEvents World.init (exClasses ++ [.new 0, .setAliases 0 [("output", "Y")], .new 0, .new 1,
      .putAlias 2 "k" "income", .new 1, .new 2, .delAliases 1, .new 2])).insts =
    [.ok 0 [("GDP", "Y")] [], .ok 0 [("output", "Y")] [], .ok 1 [("income", "Y")] ["income"],
     .ok 1 [("income", "Y"), ("k", "Y")] ["income"], .ok 2 [("income", "Y"), ("k", "Y")] ["income"],
     .ok 2 [("output", "Y")] ["income"]] := by decide

-- constructor routes: a declared chain of 3 (`o3 -> out -> GDP -> Y`) and a second alias of `C`
def exChain : AMap String := [("o3", "out"), ("out", "GDP"), ("GDP", "Y"), ("cons", "C")]
def exInst : AMap String := [("o3", "Y"), ("out", "Y"), ("GDP", "Y"), ("cons", "C")]
def okInit : Except Err (List (String × Nat)) → Option (List (String × Nat))
  | .ok l => some l
  | .error _ => none
def errOf : Except Err (List (String × Nat)) → Option Err
  | .ok _ => none
  | .error e => some e
example : WF exChain ∧ instanceAliases exChain = .returned exInst := by unfold WF keys; decide
-- hypotheses of `from_dataframe_alias_columns`: each variable given once, through a chain of 3 / an alias / a keyword
example : (([("o3", 5), ("cons", 6)] ++ [("G", 7)] : List (String × Nat)).map fun kv => resolve exInst kv.1).Nodup := by decide
example : okInit (fromDataframeAliased exInst false ["Y", "C", "G", "H"] 0 [("o3", 5), ("cons", 6)] [("G", 7)]) =
    some [("Y", 5), ("C", 6), ("G", 7), ("H", 0)] := by decide
example : okInit (fromDataframeAliased exInst true ["Y", "C", "G", "H"] 0 [("o3", 5), ("cons", 6)] [("G", 7)]) =
    okInit (fromDataframeBase true ["Y", "C", "G", "H"] 0 [("Y", 5), ("C", 6)] [("G", 7)]) := by decide
-- strict: a label that resolves to no variable is rejected (as its canonical spelling is)
example : errOf (fromDataframeAliased exInst true ["Y", "C"] 0 [("o3", 5), ("zzz", 6)] []) = some .initialisationError := by decide
-- the same keyword spelled twice is Python's TypeError; two spellings of one variable are not (the later wins)
example : errOf (fromDataframeAliased exInst false ["Y", "C"] 0 [("GDP", 5)] [("GDP", 6)]) = some typeError ∧
    okInit (fromDataframeAliased exInst false ["Y", "C"] 0 [("GDP", 5)] [("o3", 6)]) = some [("Y", 6), ("C", 0)] := by decide
-- `from_dataframe_chain_labels`: `Y` is 3 links along the chain of `o3`, `GDP` two
example : follow exChain 3 "o3" = "Y" ∧ follow exChain 2 "o3" = "GDP" ∧ follow exChain 1 "cons" = "C" := by decide
-- round trip: export under aliases (preferred `out` for `Y`), import again: the same values
example : (exportCols strLe exInst ["out"] [("Y", 1), ("C", 2), ("G", 3)]).map (List.map Prod.fst) = some ["out", "cons", "G"] := by
  decide
example : (roundTrip strLe exInst ["out"] true ["Y", "C", "G"] 0 [("Y", 1), ("C", 2), ("G", 3)]).bind okInit =
    some [("Y", 1), ("C", 2), ("G", 3)] := by decide
example : WF exInst ∧ ∀ n, n ∈ ["Y", "C", "G"] → n ∉ keys exInst := by unfold WF keys; decide
-- re-encoding: names as numbers (0 = the variable, 1 -> 0, 2 -> 1), re-encoded by an injective code
def exCode (n : Nat) : Nat := 2 * n + 100
example : ∀ x y, exCode x = exCode y → x = y := by intro x y h; unfold exCode at h; omega
example : instanceAliases (reMap exCode [(1, 0), (2, 1)]) = .returned [(102, 100), (104, 100)] ∧
    (instanceAliases [(1, 0), (2, 1)]).map (reMap exCode) = .returned [(102, 100), (104, 100)] ∧
    resolve (reMap exCode [(1, 0), (2, 0)]) (exCode 2) = exCode 0 := by decide

/-! ### §10: a span whose labels are spelt like names -/

/-- `ALIASES = {'GDP': 'Y', 'cons': 'C', 'k1': 'zzz'}`; the span is `['GDP', 'Y', 'C', 'p3', 'k1']`: an alias, its
    target (a variable), another variable, a plain label, an alias of an undefined name. -/
def exLabMap : AMap String := [("GDP", "Y"), ("cons", "C"), ("k1", "zzz")]
def exLabSpan : List String := ["GDP", "Y", "C", "p3", "k1"]
def exLabStore : Store String (List Int) (LPay String Int) :=
  ⟨false, [("Y", [10, 11, 12, 13, 14]), ("C", [20, 21, 22, 23, 24])], []⟩

-- hypotheses of `label_not_resolved` / `label_access_absolute` / `resolving_labels_differs`
example : chained exLabMap = false ∧ Inv exLabMap exLabStore ∧ "GDP" ∈ keys exLabMap ∧ resolve exLabMap "GDP" ≠ "GDP" ∧
    lookup exLabStore.vars (resolve exLabMap "GDP") = some [10, 11, 12, 13, 14] ∧ locate exLabSpan "GDP" = some 0 ∧
    locate exLabSpan (resolve exLabMap "GDP") = some 1 ∧ resolve exLabMap "k1" ∉ exLabSpan := by
  refine ⟨by decide, ⟨?_, ?_⟩, by decide, by decide, by decide, by decide, by decide, by decide⟩ <;>
    (intro x hx; simp [Store.attrNames, exLabStore] at hx)

-- the code: `m['GDP', 'GDP']` is element 0 of Y, `m['cons', 'GDP']` element 0 of C, `m['Y', 'k1']` element 4 of Y
example : (aliased (labelOps exLabSpan) exLabMap exLabStore (.getAt "GDP" (.ix (.label "GDP")))).2 = .value (.scalar 10) ∧
    (aliased (labelOps exLabSpan) exLabMap exLabStore (.getAt "cons" (.ix (.label "GDP")))).2 = .value (.scalar 20) ∧
    (aliased (labelOps exLabSpan) exLabMap exLabStore (.getAt "Y" (.ix (.label "k1")))).2 = .value (.scalar 14) ∧
    (aliased (labelOps exLabSpan) exLabMap exLabStore (.getAt "GDP" (.ix (.slice (some "GDP") (some "C") 1)))).2 =
      .value (.list [10, 11, 12]) ∧
    (aliased (labelOps exLabSpan) exLabMap exLabStore (.getAt "GDP" (.ix (.slice none (some "k1") 2)))).2 =
      .value (.list [10, 12, 14]) ∧
    (aliased (labelOps exLabSpan) exLabMap exLabStore (.setAt "GDP" (.ix (.label "GDP")) (.scalar 99))).1.vars =
      [("Y", [99, 11, 12, 13, 14]), ("C", [20, 21, 22, 23, 24])] := by decide

/-- **Negation-style witness**: the mixin that also resolves labels reads element 1 (the period labelled `Y`) where
    the code reads element 0, raises `KeyError` for the label `k1` (its target `zzz` is no period), selects another
    slice and writes another cell. -/
theorem resolving_labels_differs_at_witness :
    (aliasedAll exLabSpan exLabMap exLabStore (.getAt "GDP" (.ix (.label "GDP")))).2 = .value (.scalar 11) ∧
    (aliased (labelOps exLabSpan) exLabMap exLabStore (.getAt "GDP" (.ix (.label "GDP")))).2 = .value (.scalar 10) ∧
    (aliasedAll exLabSpan exLabMap exLabStore (.getAt "Y" (.ix (.label "k1")))).2 = .err .keyError ∧
    (aliased (labelOps exLabSpan) exLabMap exLabStore (.getAt "Y" (.ix (.label "k1")))).2 = .value (.scalar 14) ∧
    (aliasedAll exLabSpan exLabMap exLabStore (.getAt "C" (.ix (.slice (some "GDP") (some "C") 1)))).2 =
      .value (.list [21, 22]) ∧
    (aliased (labelOps exLabSpan) exLabMap exLabStore (.getAt "C" (.ix (.slice (some "GDP") (some "C") 1)))).2 =
      .value (.list [20, 21, 22]) ∧
    (aliasedAll exLabSpan exLabMap exLabStore (.setAt "cons" (.ix (.label "GDP")) (.scalar 99))).1.vars =
      [("Y", [10, 11, 12, 13, 14]), ("C", [20, 99, 22, 23, 24])] ∧
    (aliased (labelOps exLabSpan) exLabMap exLabStore (.setAt "cons" (.ix (.label "GDP")) (.scalar 99))).1.vars =
      [("Y", [10, 11, 12, 13, 14]), ("C", [99, 21, 22, 23, 24])] ∧
    aliasedAll exLabSpan exLabMap exLabStore ≠ aliased (labelOps exLabSpan) exLabMap exLabStore := by
  refine ⟨by decide, by decide, by decide, by decide, by decide, by decide, by decide, by decide, ?_⟩
  intro h
  have := congrArg (fun f => (f (.getAt "GDP" (.ix (.label "GDP")))).2) h
  revert this
  decide

-- labels that name nothing behave as before, and a label outside the span is KeyError on both
example : (aliasedAll exLabSpan exLabMap exLabStore (.getAt "GDP" (.ix (.label "p3")))).2 =
      (aliased (labelOps exLabSpan) exLabMap exLabStore (.getAt "GDP" (.ix (.label "p3")))).2 ∧
    (aliased (labelOps exLabSpan) exLabMap exLabStore (.getAt "GDP" (.ix (.label "cons")))).2 = .err .keyError := by decide


/-! ## Non-vacuity (review): the theorems with the most hypotheses, invoked at the concrete instances above -/

-- §1  shorten_exits (hwf, hN, hf, hpos) / shorten_rounds (hwf, h) at a chain of three
def exM3 : AMap String := [("a", "b"), ("b", "c"), ("c", "Y")]
theorem exM3_wf : WF exM3 := by unfold WF keys; decide
example : ∃ r, r ≤ 3 ∧ shortenLoop 4 0 exM3 = .exited r (mapTo exM3 3) :=
  shorten_exits exM3_wf (N := 3) (passes := 4) (by decide) (by decide) (by decide)
example : [("a", "Y"), ("b", "Y"), ("c", "Y")] = mapTo exM3 (2 ^ 2) ∧ ¬ Stays exM3 (2 ^ 2) ∧ ∀ i, i < 2 → Stays exM3 (2 ^ i) :=
  shorten_rounds exM3_wf (passes := 4) (r := 2) (by decide)
-- instance_aliases_shortened / declared_alias_resolves_alike / chain_label_resolves at the declared chain `exChain`
theorem exChain_wf : WF exChain := by unfold WF keys; decide
theorem exChain_inst : instanceAliases exChain = .returned exInst := by decide
example : WF exInst ∧ chained exInst = false ∧ keys exInst = keys (dropSelf exChain) :=
  ⟨(instance_aliases_shortened exChain_wf exChain_inst).1, (instance_aliases_shortened exChain_wf exChain_inst).2.1,
   (instance_aliases_shortened exChain_wf exChain_inst).2.2.1⟩
example : resolve exInst "out" = resolve exInst "GDP" ∧ resolve exInst "out" = "Y" :=
  ⟨(declared_alias_resolves_alike exChain_wf exChain_inst (x := "out") (y := "GDP") (by decide)).1, by decide⟩
example : resolve exInst (follow exChain 2 "o3") = resolve exInst "o3" ∧ follow exChain 2 "o3" ≠ "o3" :=
  ⟨chain_label_resolves exChain_wf exChain_inst "o3" 2, by decide⟩

-- §2/§3  alias_transparent / alias_indistinguishable / alias_no_storage: hc, hinv (and hfg) with a real history
def exA : AMap String := [("GDP", "Y"), ("income", "Y")]
theorem exA_inv : Inv exA exS := by unfold Alias.Inv; decide
def exSwap (n : String) : String := if n = "GDP" then "income" else n
theorem exSwap_ok : ∀ n, resolve exA (id n) = resolve exA (exSwap n) := by
  intro n
  by_cases h : n = "GDP"
  · subst h; decide
  · simp [exSwap, h]
def exOps : List (Op String Nat) := [.setAt "GDP" 0 9, .setAttr "GDP" 5, .getItem "GDP", .replaceValues [("GDP", 6), ("C", 1)]]
example : run (aliased exE exA) exS exOps = run (base exE) exS (exOps.map (Op.mapName (resolve exA))) :=
  alias_transparent exE (by decide) exA_inv exOps
example : run (aliased exE exA) exS (exOps.map (Op.mapName id)) = run (aliased exE exA) exS (exOps.map (Op.mapName exSwap)) ∧
    exSwap "GDP" ≠ id "GDP" :=
  ⟨alias_indistinguishable exE (by decide) exA_inv id exSwap exSwap_ok exOps, by decide⟩
example : (run (aliased exE exA) exS exOps).1.index = ["Y", "C"] :=
  (alias_no_storage exE (a := exA) (by decide) exS exOps).1

-- §4  export: rename_only / rename_injective / rename_prefers / rename_total_after_check / unaliased_label_kept
theorem exInst_wf : WF exInst := by unfold WF keys; decide
theorem exExport : exportCols strLe exInst ["out"] [("Y", 1), ("C", 2), ("G", 3)] = some [("out", 1), ("cons", 2), ("G", 3)] := by
  decide
example : ([("out", 1), ("cons", 2), ("G", 3)] : List (String × Nat)).map Prod.snd = [1, 2, 3] :=
  (rename_only strLe exInst ["out"] _ _ exExport).1
example : (([("out", 1), ("cons", 2), ("G", 3)] : List (String × Nat)).map Prod.fst).Nodup :=
  rename_injective strLe exInst_wf ["out"] _ _ exExport (by decide) (by decide)
example : ∃ f, exportCols strLe exInst ["out"] [("Y", 1), ("C", 2), ("G", 3)] = some (renameDf f [("Y", 1), ("C", 2), ("G", 3)]) ∧
    (∀ p t, p ∈ ["out"] → (p, t) ∈ exInst → f t = p) ∧ (∀ t, t ∈ ["out"] → f t = t) :=
  rename_prefers linOrd_strLe exInst_wf (by decide) (by decide) (by decide) _
example : exportCols strLe exInst ["out"] [("Y", 1), ("C", 2), ("G", 3)] ≠ none :=
  rename_total_after_check linOrd_strLe exInst_wf (by decide) (by decide) _
example : ([("out", 1), ("cons", 2), ("G", 3)] : List (String × Nat))[2].1 = "G" :=
  unaliased_label_kept strLe exInst ["out"] _ _ exExport 2 (by decide) (by decide) (by decide)
-- rename_rejects_ambiguous: ho, hpq, hp, hq, hpt, hqt (two preferred aliases of `Y`)
example : exportCols strLe [("GDP", "Y"), ("income", "Y"), ("cons", "C")] ["income", "GDP"] [("Y", 1), ("C", 2)] = none :=
  rename_rejects_ambiguous linOrd_strLe _ (p := "income") (q := "GDP") (t := "Y") (by decide) (by decide) (by decide)
    (by decide) (by decide) _
-- §5  rename_only_opts: `h`
example : ∃ out, exportOpts strLe [("GDP", "Y"), ("wealth", "_H")] [] exInternal {} exVars ("status", 8) ("iterations", 9) =
    some out ∧ out.map Prod.snd = (baseFrame exInternal {} exVars ("status", 8) ("iterations", 9)).map Prod.snd ∧
    out.length = 4 := by
  cases h : exportOpts strLe [("GDP", "Y"), ("wealth", "_H")] [] exInternal {} exVars ("status", 8) ("iterations", 9) with
  | none => exact absurd h (by decide)
  | some out =>
    have := rename_only_opts strLe _ [] exInternal {} exVars ("status", 8) ("iterations", 9) out h
    exact ⟨out, rfl, this.1, by rw [this.2.2.1]; decide⟩

-- §6  classes: class_aliases_nearest_declaration (hwf, hd) / reassignment_leaves_other_declarations (hne, hd, hm) /
-- reassigned_aliases_used (hc) / existing_instances_keep_their_map (h)
def exCls : Classes String := (runEvents World.init exClasses).cls
theorem exCls_tbl : exCls.tbl =
    [⟨none, some [("GDP", "Y")], none⟩, ⟨some 0, some [("income", "Y")], some ["income"]⟩, ⟨some 1, none, none⟩,
     ⟨some 0, some [("out", "Y"), ("o2", "out")], none⟩] := by decide
theorem exCls_wf : TableWF exCls.tbl := by
  intro c d p hc hp
  rw [exCls_tbl] at hc
  match c with
  | 0 => simp at hc; subst hc; simp at hp
  | 1 => simp at hc; subst hc; simp at hp; omega
  | 2 => simp at hc; subst hc; simp at hp; omega
  | 3 => simp at hc; subst hc; simp at hp; omega
  | n + 4 => simp at hc
-- the grandchild (class 2) declares nothing: it uses its parent's (class 1) map
example : classAliases exCls 2 = classAliases exCls 1 ∧ classAliases exCls 1 = [("income", "Y")] :=
  ⟨(class_aliases_nearest_declaration exCls_wf (c := 2) (d := ⟨some 1, none, none⟩) (by rw [exCls_tbl]; rfl)).2.1 1 rfl rfl,
   (class_aliases_nearest_declaration exCls_wf (c := 1) (d := ⟨some 0, some [("income", "Y")], some ["income"]⟩)
     (by rw [exCls_tbl]; rfl)).1 _ rfl⟩
example : classAliases (stepClasses exCls (.setAliases 0 [("output", "Y")])) 1 = [("income", "Y")] ∧
    classAliases (stepClasses exCls (.setAliases 0 [("output", "Y")])) 0 = [("output", "Y")] :=
  ⟨reassignment_leaves_other_declarations exCls 0 1 _ _ (by decide)
     (d := ⟨some 0, some [("income", "Y")], some ["income"]⟩) (by rw [exCls_tbl]; rfl) rfl,
   reassigned_aliases_used exCls 0 _ (by rw [exCls_tbl]; decide)⟩
example : (runEvents (runEvents World.init (exClasses ++ [.new 0])) [.setAliases 0 [("output", "Y")], .new 0]).insts[0]? =
    some (.ok 0 [("GDP", "Y")] []) :=
  existing_instances_keep_their_map _ _ 0 _ (by decide)

-- §7  failed_op_preserves_state (hf) / failed_replace_is_prefix (hc, hf) / plain_twin_agrees / plain_twin_history
example : (xstep exEnv (exObj true) (.acc (.setAttr "GDPP" 5))).1 = exObj true :=
  (failed_op_preserves_state exEnv (exObj true) (.acc (.setAttr "GDPP" 5)) (by decide)).1 rfl
example : ∃ pre kv post, [("GDP", 6), ("nope", 1), ("C", 9)] = pre ++ kv :: post ∧
    (xstep exEnv (exObj false) (.acc (.replaceValues pre))).2.failed = false ∧
    (xstep exEnv (exObj false) (.acc (.replaceValues [("GDP", 6), ("nope", 1), ("C", 9)]))).1 =
      (xstep exEnv (exObj false) (.acc (.replaceValues pre))).1 :=
  let ⟨pre, kv, post, h1, h2, h3, _⟩ := failed_replace_is_prefix exEnv (exObj false) (by decide)
    [("GDP", 6), ("nope", 1), ("C", 9)] (by decide)
  ⟨pre, kv, post, h1, h2, h3⟩
theorem exObj_inv : Inv (exObj true).aliases (exObj true).store := by unfold Alias.Inv; decide
def exXOps : List (XOp String Nat) :=
  [.acc (.setItem "GDP" 4), .acc (.setAttr "GDPP" 5), .eval ["income"], .acc (.getItem "nope"), .addVariable "Y" 1,
   .acc (.setAt "income" 1 8)]
example : (xrun exEnv (exObj true).plain (exXOps.map (XOp.mapName (resolve (exObj true).aliases)))).1.store =
    (xrun exEnv (exObj true) exXOps).1.store :=
  (plain_twin_history exEnv (a := (exObj true).aliases) (by decide) (plain_is_twin _) exObj_inv exXOps (by decide)).2.1
example : (xstep exEnv (exObj true) (.acc (.setItem "GDP" 4))).2 =
    (xstep exEnv (exObj true).plain ((XOp.acc (.setItem "GDP" 4)).mapName (resolve (exObj true).aliases))).2 :=
  (plain_twin_agrees exEnv (a := (exObj true).aliases) (by decide) (plain_is_twin _) exObj_inv _ (by decide)).1

-- §8  from_dataframe_alias_columns (hnd) / from_dataframe_chain_labels (hwf, h, hfg) / export_import_round_trip
-- (hwf, hx, hg) / round_trip_same_values (hwf, hnd, hg, hx)
example : fromDataframeAliased exInst false ["Y", "C", "G", "H"] (0 : Nat) [("o3", 5), ("cons", 6)] [("G", 7)] =
    fromDataframeBase false ["Y", "C", "G", "H"] 0 (relabel (resolve exInst) [("o3", 5), ("cons", 6)])
      (relabel (resolve exInst) [("G", 7)]) :=
  (from_dataframe_alias_columns exInst false _ 0 _ _ (by decide)).1
example : fromDataframeAliased exInst false ["Y", "C"] (0 : Nat) (relabel id [("o3", 5), ("cons", 6)]) [] =
    fromDataframeAliased exInst false ["Y", "C"] 0 (relabel (follow exChain 2) [("o3", 5), ("cons", 6)]) [] ∧
    relabel (follow exChain 2) [("o3", (5 : Nat)), ("cons", 6)] = [("GDP", 5), ("C", 6)] :=
  ⟨(from_dataframe_chain_labels exChain_wf exChain_inst id (follow exChain 2) (fun n => ⟨2, rfl⟩) false _ 0 _).1, by decide⟩
example : fromDataframeAliased exInst true ["Y", "C", "G"] (0 : Nat) [("out", 1), ("cons", 2), ("G", 3)] [] =
    fromDataframeBase true ["Y", "C", "G"] 0 [("Y", 1), ("C", 2), ("G", 3)] [] :=
  export_import_round_trip strLe exInst_wf ["out"] true _ 0 _ _ exExport (by decide)
example : roundTrip strLe exInst ["out"] true ["Y", "C", "G"] (0 : Nat) (["Y", "C", "G"].map fun n => (n, n.length)) =
    some (.ok (["Y", "C", "G"].map fun n => (n, n.length))) :=
  round_trip_same_values strLe exInst_wf ["out"] true (by decide) 0 (fun n => n.length) (by decide) (by decide)

-- §9  re-encoding: `hf` (an injective code) with a chain
theorem exCode_inj : ∀ x y, exCode x = exCode y → x = y := by intro x y h; unfold exCode at h; omega
example : resolve (reMap exCode [(1, 0), (2, 1)]) (exCode 2) = exCode 1 := by
  rw [resolve_reencode exCode exCode_inj]; decide
example : instanceAliases (reMap exCode [(1, 0), (2, 1)]) = (instanceAliases [(1, 0), (2, 1)]).map (reMap exCode) :=
  constructor_reencode exCode exCode_inj _

-- §10  label_access_absolute / label_slice_absolute / resolving_labels_differs / alias_named_label_not_resolved
theorem exLab_inv : Inv exLabMap exLabStore := by
  constructor <;> (intro x hx; simp [Store.attrNames, exLabStore] at hx)
example : aliased (labelOps exLabSpan) exLabMap exLabStore (.getAt "GDP" (.ix (.label "C"))) =
    (exLabStore, .value (.scalar 12)) :=
  ((label_access_absolute exLabSpan (a := exLabMap) (by decide) exLab_inv "GDP" "C" (v := [10, 11, 12, 13, 14]) (by decide)).1
    2 (by decide) (by decide)).2.1
example : aliased (labelOps exLabSpan) exLabMap exLabStore (.getAt "cons" (.ix (.slice (some "Y") none 2))) =
    (exLabStore, .value (.list ((slicePositions 1 4 2).filterMap fun k => ([20, 21, 22, 23, 24] : List Int)[k]?))) ∧
    ((slicePositions 1 4 2).filterMap fun k => ([20, 21, 22, 23, 24] : List Int)[k]?) = [21, 23] :=
  ⟨(label_slice_absolute exLabSpan (a := exLabMap) (by decide) exLab_inv "cons" (some "Y") none (st := 2) (by decide)
    (v := [20, 21, 22, 23, 24]) (by decide) (i := 1) (j := 4) (by decide) (by decide)).1, by decide⟩
example : aliasedAll exLabSpan exLabMap exLabStore (.getAt "GDP" (.ix (.label "GDP"))) ≠
    aliased (labelOps exLabSpan) exLabMap exLabStore (.getAt "GDP" (.ix (.label "GDP"))) :=
  (resolving_labels_differs exLabSpan (a := exLabMap) (by decide) exLab_inv "GDP" "GDP" (v := [10, 11, 12, 13, 14])
    (by decide) (i := 0) (by decide) (by decide)).1 1 (by decide) (by decide) (by decide)
example : aliased (labelOps exLabSpan) exLabMap exLabStore (.getAt "cons" (.ix (.label "GDP"))) =
    base (labelOps exLabSpan) exLabStore (.getAt (resolve exLabMap "cons") (.ix (.label "GDP"))) :=
  alias_named_label_not_resolved exLabSpan (by decide) exLab_inv "cons" "GDP" (by decide) (by decide)

end Fsic.C18
