import Proofs.Lemmas.ContainerOps
import Proofs.Lemmas.ContainerIndex
/-
C09 — Container series keep their length and dtype under every assignment history.

Property theorems only (helper lemmas: `Proofs/Lemmas/Container.lean`, `Proofs/Lemmas/ContainerOps.lean`).
All statements are about the model M6 (`FsicModel/Container.lean`) and hold for every store, every operation of
the alphabet and every operand — no bound on the span, the number of variables or the history length.

THE FULL STATEMENT IS FALSE ON THE CODE AS IT STANDS.  Full statement (kept for the record):

    theorem inv_step (h : Inv s) (op : Op) : Inv (step cfg s op).1          -- FALSE

`obj.A = [[1, 2], [3, 4], [5, 6]]` on a 3-period span: `np.array(value, dtype=…)` is 3×2, its `shape[0]` passes
the length test, and `A` becomes two-dimensional (`inv_step_false_at_witness`; reproduced on the real code by
the oracle of `harness/props/c09.py`, key `nested-list-outer-len-eq-span`).  What is proved instead is
`inv_step_partial` under the exact guard `Op.flatFor` (no rectangular nested list whose outer length equals
the span length as the operand of a whole-series assignment).  The dtype half of the invariant holds without
any guard (`dtype_step`, `dtype_history`).
-/
set_option linter.unusedSimpArgs false
set_option linter.unusedVariables false
namespace Fsic.C09
open Fsic Fsic.Container

variable {cfg : Cfg}

instance (n : Nat) (ser : Series) : Decidable (ser.wf n) := by unfold Series.wf; infer_instance
instance (s : Store) : Decidable (Container.Inv s) := by unfold Container.Inv; infer_instance

/-! ## Frame: what no operation ever touches -/

/-- Every operation extends the store: same span, index grown only at the end, dtypes of existing series kept. -/
theorem step_ext (s : Store) (op : Op) : Ext s (step cfg s op).1 := by
  cases op with
  | addVariable name v dtype => exact addVariable_ext s name v dtype
  | addAttribute name => exact (addAttribute_all s name).1
  | setAttr name v alts => exact setAttr_ext s name v alts
  | setItem name v => exact setItem_ext s name v
  | setPos name i v => exact setPos_ext s name i v
  | setPosSlice name a b st v => exact setPosSlice_ext s name a b st v
  | setLabel name l v => exact (setLabel_all s name l v).1
  | setLabelSlice name a b st v => exact (setLabelSlice_all s name a b st v).1
  | replaceValues kvs => exact replaceValues_ext s kvs
  | setValues v alts =>
    simp only [step, setValues]
    split
    · exact Ext.refl s
    · cases hg : s.get "values" with
      | some ser => exact assignWhole_ext hg v
      | none =>
        dsimp only
        have h := (setValuesCore_all (cfg := cfg) s v).1
        generalize setValuesCore cfg s v = r at h
        obtain ⟨s', o⟩ := r
        cases o with
        | ok => exact h.trans (Ext.attrs s' _ _)
        | raised e => exact h
  | setStrict b alts =>
    simp only [step, setStrict]
    split
    · exact Ext.refl s
    · cases hg : s.get "strict" with
      | some ser => exact assignWhole_ext hg _
      | none => exact Ext.attrs s _ _
  | badKey t => exact Ext.refl s

/-- The span never changes. -/
theorem step_span (s : Store) (op : Op) : (step cfg s op).1.n = s.n := (step_ext (cfg := cfg) s op).n

/-! ## The invariant -/

/-- A fresh container satisfies the invariant (it has no variables). -/
theorem inv_init (span : List Nat) (kind : SpanKind) (strict : Bool) : Container.Inv (init span kind strict) := by
  intro p hp
  simp [init] at hp

/-- A 3-period container with one int variable `A = [1, 1, 1]` … -/
def witnessStore : Store := (step Cfg.shipped (init [0, 1, 2] .seq false) (.addVariable "A" (.scalar (.i 1)) none)).1
/-- … and `obj.A = [[1, 2], [3, 4], [5, 6]]`. -/
def witnessOp : Op := .setAttr "A" (.nested [[.i 1, .i 2], [.i 3, .i 4], [.i 5, .i 6]]) []

/-- **Negation of the full statement at a concrete witness, for the code as shipped** (`Cfg.shipped`: only
    `shape[0]` is compared): the invariant holds before, the operation succeeds, `A` ends up with shape (3, 2) —
    and is still `int64` (the dtype half is not affected). -/
theorem inv_step_false_at_witness :
    Container.Inv witnessStore ∧ (step Cfg.shipped witnessStore witnessOp).2 = .ok ∧
    ¬ Container.Inv (step Cfg.shipped witnessStore witnessOp).1 ∧
    (step Cfg.shipped witnessStore witnessOp).1.get "A" = some ⟨i8, [3, 2], [.i 1, .i 2, .i 3, .i 4, .i 5, .i 6]⟩ := by
  decide

/-- The witness is exactly what the guard excludes. -/
example : ¬ witnessOp.flatFor Cfg.shipped witnessStore := by decide

/-- With the whole shape compared (`Cfg.fixed`, the candidate fix) the same assignment raises DimensionError and
    changes nothing. -/
example : (step Cfg.fixed witnessStore witnessOp).2 = .raised .dimension ∧
    (step Cfg.fixed witnessStore witnessOp).1.vars = witnessStore.vars := by decide

/-- **Invariant step (partial)**: every operation whose whole-series operands are not rectangular nested lists
    of outer length `len(span)` keeps every series one-dimensional with one element per period — whatever the
    operand is otherwise (scalar, list, tuple, range, ragged or other nested list, ndarray of any rank / length /
    dtype), whether the operation succeeds or raises.  (For a configuration with `fullShape` the guard is empty.) -/
theorem inv_step_partial {s : Store} (h : Container.Inv s) {op : Op} (hf : op.flatFor cfg s) :
    Container.Inv (step cfg s op).1 := by
  cases op with
  | addVariable name v dtype => exact addVariable_inv h name v dtype
  | addAttribute name => exact (addAttribute_all s name).2.1 h
  | setAttr name v alts => exact setAttr_inv h alts hf
  | setItem name v => exact setItem_inv h hf
  | setPos name i v => exact setPos_inv h name i v
  | setPosSlice name a b st v => exact setPosSlice_inv h name a b st v
  | setLabel name l v => exact (setLabel_all s name l v).2.1 h
  | setLabelSlice name a b st v => exact (setLabelSlice_all s name a b st v).2.1 h
  | replaceValues kvs => exact replaceValues_inv h hf
  | setValues v alts =>
    simp only [step, setValues]
    split
    · exact h
    · cases hg : s.get "values" with
      | some ser =>
        rcases hf with hf | hf | hf
        · exact assignWhole_inv h hg (Or.inl hf)
        · rw [hg] at hf; cases hf
        · exact assignWhole_inv h hg (Or.inr hf)
      | none =>
        dsimp only
        have h1 := (setValuesCore_all (cfg := cfg) s v).2.1 h
        generalize setValuesCore cfg s v = r at h1
        obtain ⟨s', o⟩ := r
        cases o with
        | ok => exact h1
        | raised e => exact h1
  | setStrict b alts =>
    simp only [step, setStrict]
    split
    · exact h
    · cases hg : s.get "strict" with
      | some ser => exact assignWhole_inv h hg (Or.inr (by simp [Operand.flatFor]))
      | none => exact h
  | badKey t => exact h

theorem flatFor_of_fullShape (hc : cfg.fullShape = true) (s : Store) (op : Op) : op.flatFor cfg s := by
  cases op <;> simp [Op.flatFor, hc]

/-- **Invariant step, full strength** — for any configuration in which `__setattr__` compares the whole shape
    with `(len(span),)` (the candidate fix; `Cfg.current.fullShape` is read off the code on every run): every
    operation with every operand keeps every series one-dimensional with one element per period. -/
theorem inv_step (hc : cfg.fullShape = true) {s : Store} (h : Container.Inv s) (op : Op) :
    Container.Inv (step cfg s op).1 :=
  inv_step_partial h (flatFor_of_fullShape hc s op)

/-- Non-vacuity: a wrong-length list, a 2-D ndarray, a ragged list and a label-slice assignment all satisfy the
    guard on the witness store, and the invariant indeed holds after each of them. -/
example : (Op.setAttr "A" (.list [.i 1, .i 2]) []).flatFor Cfg.shipped witnessStore ∧
    (Op.setItem "A" (.ndarray ⟨i8, [3, 2], [.i 1, .i 2, .i 3, .i 4, .i 5, .i 6]⟩)).flatFor Cfg.shipped witnessStore ∧
    (Op.setAttr "A" (.nested [[.i 1, .i 2], [.i 3]]) []).flatFor Cfg.shipped witnessStore ∧
    Container.Inv (step Cfg.shipped witnessStore (.setLabelSlice "A" (some 0) (some 1) none (.list [.i 7, .i 8]))).1 ∧
    (step Cfg.shipped witnessStore (.setLabelSlice "A" (some 0) (some 1) none (.list [.i 7, .i 8]))).1.get "A"
      = some ⟨i8, [3], [.i 7, .i 8, .i 1]⟩ := by
  decide

/-- The guard along a history (it is evaluated in the store each operation is applied to). -/
def FlatHistory (cfg : Cfg) : Store → List Op → Prop
  | _, [] => True
  | s, op :: ops => op.flatFor cfg s ∧ FlatHistory cfg (step cfg s op).1 ops

def flatHistoryDec (cfg : Cfg) : (s : Store) → (ops : List Op) → Decidable (FlatHistory cfg s ops)
  | _, [] => isTrue trivial
  | s, op :: ops =>
    match (inferInstance : Decidable (op.flatFor cfg s)), flatHistoryDec cfg (step cfg s op).1 ops with
    | isTrue h1, isTrue h2 => isTrue ⟨h1, h2⟩
    | isFalse h1, _ => isFalse (fun h => h1 h.1)
    | _, isFalse h2 => isFalse (fun h => h2 h.2)

instance (cfg : Cfg) (s : Store) (ops : List Op) : Decidable (FlatHistory cfg s ops) := flatHistoryDec cfg s ops

/-- **Every history** (induction over the operation list; no bound on its length): starting from a store that
    satisfies the invariant, after any sequence of guarded operations — successful or not — every series is
    one-dimensional with exactly one element per period. -/
theorem inv_history_partial {s : Store} (h : Container.Inv s) (ops : List Op) (hf : FlatHistory cfg s ops) :
    Container.Inv (run cfg s ops) := by
  induction ops generalizing s with
  | nil => exact h
  | cons op ops ih => exact ih (inv_step_partial h hf.1) hf.2

/-- **Every history, full strength** (same configuration hypothesis as `inv_step`): no guard at all. -/
theorem inv_history (hc : cfg.fullShape = true) {s : Store} (h : Container.Inv s) (ops : List Op) :
    Container.Inv (run cfg s ops) := by
  induction ops generalizing s with
  | nil => exact h
  | cons op ops ih => exact ih (inv_step hc h op)

/-- Non-vacuity: a five-operation history on a fresh container (create, overwrite, wrong length, label set,
    bulk replace) meets the guard and ends in the expected state; with the fix the former witness history is
    harmless. -/
example :
    FlatHistory Cfg.shipped (init [0, 1, 2] .seq false)
      [.addVariable "A" (.scalar (.i 1)) none, .setAttr "A" (.list [.i 4, .i 5, .i 6]) [],
       .setItem "A" (.list [.i 1]), .setLabel "A" 2 (.scalar (.i 9)),
       .replaceValues [("A", .scalar (.i 0)), ("B", .scalar (.i 1))]] ∧
    (run Cfg.shipped (init [0, 1, 2] .seq false)
      [.addVariable "A" (.scalar (.i 1)) none, .setAttr "A" (.list [.i 4, .i 5, .i 6]) [],
       .setItem "A" (.list [.i 1]), .setLabel "A" 2 (.scalar (.i 9))]).get "A"
      = some ⟨i8, [3], [.i 4, .i 5, .i 9]⟩ ∧
    (run Cfg.fixed (init [0, 1, 2] .seq false) [.addVariable "A" (.scalar (.i 1)) none, witnessOp]).get "A"
      = some ⟨i8, [3], [.i 1, .i 1, .i 1]⟩ := by
  decide

/-! ## dtype: no guard needed -/

/-- **dtype is never lost**: after any operation with any operand, every variable that existed still exists and
    has the dtype it had (so, by `dtype_history`, the dtype it was created with). -/
theorem dtype_step (s : Store) (op : Op) {name : Name} {ser : Series} (h : s.get name = some ser) :
    ∃ ser', (step cfg s op).1.get name = some ser' ∧ ser'.dtype = ser.dtype :=
  (step_ext s op).dtypes name ser h

theorem run_ext (s : Store) (ops : List Op) : Ext s (run cfg s ops) := by
  induction ops generalizing s with
  | nil => exact Ext.refl s
  | cons op ops ih => exact (step_ext s op).trans (ih _)

/-- … and after any history. -/
theorem dtype_history (s : Store) (ops : List Op) {name : Name} {ser : Series} (h : s.get name = some ser) :
    ∃ ser', (run cfg s ops).get name = some ser' ∧ ser'.dtype = ser.dtype :=
  (run_ext s ops).dtypes name ser h

/-- The dtype at creation is what `add_variable` was asked for: an explicit `dtype=` wins, otherwise the
    container's default (ModelInterface) — and otherwise the operand's own dtype. -/
example : ((step Cfg.shipped (init [0, 1] .seq false) (.addVariable "X" (.list [.i 1, .i 2]) (some .float))).1.get "X").map
    (·.dtype) = some f8 := by decide

/-- Declaration order is stable: the index only ever grows at its end. -/
theorem index_step_prefix (s : Store) (op : Op) : ∃ extra, (step cfg s op).1.index = s.index ++ extra :=
  (step_ext s op).index

/-! ## Failed assignments -/

/-- Operations that assign to a single variable. -/
def Op.single : Op → Prop
  | .addVariable .. => True
  | .setAttr .. => True
  | .setItem .. => True
  | .setPos .. => True
  | .setPosSlice .. => True
  | .setLabel .. => True
  | .setLabelSlice .. => True
  | _ => False

/-- **A single-variable assignment that cannot fit raises and leaves the store unchanged**: whenever such an
    operation raises anything other than an element-conversion error (wrong length → DimensionError, operand
    that cannot be broadcast / ragged → ValueError, unknown name or label → KeyError, duplicate name →
    DuplicateNameError, position out of range → IndexError, strict → AttributeError, …) the store afterwards
    *is* the store before — every series, the index, the attribute list. -/
theorem failed_assign_unchanged {s : Store} {op : Op} (hop : Op.single op) {e : Exc}
    (h : (step cfg s op).2 = .raised e) (he : e ≠ .valueConv) : (step cfg s op).1 = s := by
  cases op with
  | addVariable name v dtype => exact addVariable_failed h
  | setAttr name v alts => exact setAttr_failed h he
  | setItem name v => exact setItem_failed h he
  | setPos name i v => exact setPos_failed h he
  | setPosSlice name a b st v => exact setPosSlice_failed h he
  | setLabel name l v => exact (setLabel_all s name l v).2.2.1 e h he
  | setLabelSlice name a b st v => exact (setLabelSlice_all s name a b st v).2.2.1 e h he
  | addAttribute name => exact absurd hop (by simp [Op.single])
  | replaceValues kvs => exact absurd hop (by simp [Op.single])
  | setValues v alts => exact absurd hop (by simp [Op.single])
  | setStrict b => exact absurd hop (by simp [Op.single])
  | badKey t => exact absurd hop (by simp [Op.single])

/-- `add_variable` never changes anything when it raises, conversion errors included (it builds a fresh array). -/
theorem failed_add_variable_unchanged {s : Store} {name : Name} {v : Operand} {dtype : Option Kind} {e : Exc}
    (h : (step cfg s (.addVariable name v dtype)).2 = .raised e) : (step cfg s (.addVariable name v dtype)).1 = s :=
  addVariable_failed h

/-- **A name whose storage key is taken is refused** (configuration switch `addVarChecksKeys`, read off the code on
    every run): a variable `X` lives in `__dict__['_X']`, so `add_variable(name, …)` raises DuplicateNameError —
    changing nothing — whenever `'_' + name` is already a key: another variable's storage, an attribute spelled
    `_name`, or one of the container's own entries (`_attributes`, `_strict`: the names `attributes` and `strict`). -/
theorem add_variable_refuses_taken_key (hc : cfg.addVarChecksKeys = true) {s : Store} {name : Name}
    (hk : s.dictKeys.contains ("_" ++ name) = true) (v : Operand) (dtype : Option Kind) :
    step cfg s (.addVariable name v dtype) = (s, .raised .duplicateName) := by
  simp only [step, addVariable]
  by_cases h1 : s.index.contains name = true
  · rw [if_pos h1]
  · rw [if_neg h1]
    by_cases h2 : (cfg.addVarChecksAttrs && s.attrs.contains name) = true
    · rw [if_pos h2]
    · rw [if_neg h2, if_pos (by rw [hc, hk]; rfl)]

/-- Non-vacuity: on a fresh container `attributes` and `strict` are refused (their keys `_attributes`, `_strict` are
    the container's own), `Y` is refused once an ad-hoc attribute `_Y` exists, and an ordinary name is accepted and
    then occupies its key. -/
example :
    (step Cfg.fixed (init [0, 1] .seq false) (.addVariable "attributes" (.scalar (.i 1)) none)).2 = .raised .duplicateName ∧
    (step Cfg.fixed (init [0, 1] .seq false) (.addVariable "strict" (.scalar (.i 1)) none)).2 = .raised .duplicateName ∧
    (run Cfg.fixed (init [0, 1] .seq false)
      [.setAttr "_Y" (.scalar (.i 5)) [], .addVariable "Y" (.scalar (.i 1)) none]).index = [] ∧
    (run Cfg.fixed (init [0, 1] .seq false) [.addVariable "Y" (.scalar (.i 1)) none]).dictKeys
      = ["_Y", "_attributes", "span", "index", "_strict"] := by
  decide

/-! ### No key of the instance dict is claimed twice -/

/-- A variable `X` lives in `__dict__['_X']`; attributes live under their own names.  `NoClash`: no attribute (and no
    other entry of the object) sits on the storage key of a variable — so every variable's storage holds its array,
    which is what makes the model's separation of `vars` and `attrs` a faithful picture of the object. -/
def NoClash (s : Store) : Prop := ∀ k ∈ s.varKeys, k ∉ s.attrKeys

theorem NoClash.mono {s s' : Store} (h : NoClash s) (hi : s'.index = s.index) (he : s'.extraKeys = s.extraKeys)
    (ha : ∀ a ∈ s'.attrs, a ∈ s.attrs ∨ a = "strict" ∨ a = "values" ∨ a ∉ s.varKeys) : NoClash s' := by
  intro k hk hkA
  have hk' : k ∈ s.varKeys := by simpa [Store.varKeys, hi] using hk
  simp only [Store.attrKeys, List.mem_append, List.mem_filter] at hkA
  rcases hkA with ⟨hm, hf⟩ | hx
  · rcases ha k hm with h1 | h1 | h1 | h1
    · exact h k hk' (by simp only [Store.attrKeys, List.mem_append, List.mem_filter]; exact Or.inl ⟨h1, hf⟩)
    · rw [h1] at hf; simp at hf
    · rw [h1] at hf; simp at hf
    · exact h1 hk'
  · rw [he] at hx
    exact h k hk' (by simp only [Store.attrKeys, List.mem_append]; exact Or.inr hx)

/-- A fresh container has no clash (it has no variable). -/
theorem no_clash_init (span : List Nat) (kind : SpanKind) (strict : Bool) : NoClash (init span kind strict) := by
  intro k hk
  simp [init, Store.varKeys, Store.index] at hk

theorem mem_appendNew' {xs : List Name} {x a : Name} (h : a ∈ appendNew xs x) : a ∈ xs ∨ a = x := by
  unfold appendNew at h
  split at h
  · exact Or.inl h
  · rcases List.mem_append.mp h with h' | h'
    · exact Or.inl h'
    · right; simpa using h'

theorem no_clash_addAttribute (h2 : cfg.addAttrChecksKeys = true) {s : Store} (h : NoClash s) (name : Name) :
    NoClash (addAttribute cfg s name).1 := by
  rcases addAttribute_cases cfg s name with hc | ⟨hc, _, _, hk⟩
  · rw [hc]; exact h
  · rw [hc]
    have hnk : name ∉ s.varKeys := by rw [h2] at hk; simpa using hk
    refine h.mono rfl rfl (fun a ha => ?_)
    rcases List.mem_append.mp ha with h1 | h1
    · exact Or.inl h1
    · right; right; right
      simp at h1; rw [h1]
      exact hnk

/-- **An attribute can never take a variable's storage key** (`add_attribute` refuses `'_' + X` for a variable `X`),
    **nor a variable the key of an attribute or of anything else the object stores** (`add_variable` refuses a name
    whose key `'_' + name` is taken) (configuration: both key checks in force — `Cfg.current` is read off the code on every run): every operation with every operand
    preserves `NoClash`. -/
theorem no_clash_step (h1 : cfg.addVarChecksKeys = true) (h2 : cfg.addAttrChecksKeys = true) {s : Store}
    (h : NoClash s) (op : Op) : NoClash (step cfg s op).1 := by
  have hek := (step_ext (cfg := cfg) s op).extraKeys
  cases op with
  | addVariable name v dtype =>
    rcases addVariable_cases cfg s name v dtype with ⟨e, he⟩ | ⟨a, _, _, _, _, hk, he⟩
    · rw [show step cfg s (.addVariable name v dtype) = addVariable cfg s name v dtype from rfl, he]; exact h
    · rw [show step cfg s (.addVariable name v dtype) = addVariable cfg s name v dtype from rfl, he]
      have hnk : ("_" ++ name) ∉ s.dictKeys := by rw [h1] at hk; simpa using hk
      intro k hk' hkA
      simp only [Store.varKeys, Store.index, List.map_append, List.map_cons, List.map_nil, List.mem_append,
        List.mem_singleton, List.mem_map] at hk'
      rcases hk' with ⟨x, hx, rfl⟩ | rfl
      · exact h _ (by simp only [Store.varKeys, Store.index, List.mem_map]; exact ⟨x, hx, rfl⟩) hkA
      · exact hnk (by simp only [Store.dictKeys, List.mem_append]; exact Or.inr hkA)
  | addAttribute name => exact no_clash_addAttribute h2 h name
  | setAttr name v alts =>
    simp only [step, setAttr]
    split
    · exact h
    · cases hg : s.get name with
      | some ser =>
        exact h.mono (assignWhole_index _ _ _ _) (by simpa [step, setAttr, hg] using (assignWhole_ext (cfg := cfg) hg v).extraKeys)
          (fun a ha => Or.inl ((assignWhole_attrs _ _ _ _).1 ▸ ha))
      | none =>
        dsimp only
        split
        · refine h.mono rfl rfl (fun a ha => ?_)
          rename_i hstrict
          rcases mem_appendNew' ha with h' | h'
          · exact Or.inl h'
          · right; left; rw [h']; simpa using hstrict
        · split
          · exact h
          · exact no_clash_addAttribute h2 h name
  | setItem name v =>
    exact h.mono (setItem_index _ _ _) hek (fun a ha => Or.inl ((setItem_attrs _ _ _).1 ▸ ha))
  | setPos name i v =>
    exact h.mono (setPos_index _ _ _ _) hek (fun a ha => Or.inl ((setPos_attrs _ _ _ _).1 ▸ ha))
  | setPosSlice name a b st v =>
    exact h.mono (setPosSlice_index _ _ _ _ _ _) hek (fun x ha => Or.inl ((setPosSlice_attrs _ _ _ _ _ _).1 ▸ ha))
  | setLabel name l v =>
    exact h.mono (setLabel_index _ _ _ _) hek (fun a ha => Or.inl ((setLabel_all _ _ _ _).2.2.2.1 ▸ ha))
  | setLabelSlice name a b st v =>
    exact h.mono (setLabelSlice_index _ _ _ _ _ _) hek
      (fun x ha => Or.inl ((setLabelSlice_all _ _ _ _ _ _).2.2.2.1 ▸ ha))
  | replaceValues kvs =>
    exact h.mono (replaceValues_index _ _) hek (fun a ha => Or.inl ((replaceValues_attrs _ _).1 ▸ ha))
  | setValues v alts =>
    simp only [step, setValues] at hek ⊢
    split
    · exact h
    · cases hg : s.get "values" with
      | some ser =>
        exact h.mono (assignWhole_index _ _ _ _) (assignWhole_ext (cfg := cfg) hg v).extraKeys
          (fun a ha => Or.inl ((assignWhole_attrs _ _ _ _).1 ▸ ha))
      | none =>
        dsimp only
        have hi := setValuesCore_index (cfg := cfg) s v
        have hx := (setValuesCore_all (cfg := cfg) s v).1.extraKeys
        have hat := (setValuesCore_all (cfg := cfg) s v).2.2.1
        generalize setValuesCore cfg s v = r at hi hat hx
        obtain ⟨s', o⟩ := r
        cases o with
        | raised e => exact h.mono hi hx (fun a ha => Or.inl (hat ▸ ha))
        | ok =>
          refine h.mono hi hx (fun a ha => ?_)
          dsimp only at ha hat
          rcases mem_appendNew' ha with h' | h'
          · exact Or.inl (hat ▸ h')
          · right; right; left; exact h'
  | setStrict b alts =>
    simp only [step, setStrict]
    split
    · exact h
    · cases hg : s.get "strict" with
      | some ser =>
        exact h.mono (assignWhole_index _ _ _ _) (assignWhole_ext (cfg := cfg) hg _).extraKeys
          (fun a ha => Or.inl ((assignWhole_attrs _ _ _ _).1 ▸ ha))
      | none =>
        refine h.mono rfl rfl (fun a ha => ?_)
        rcases mem_appendNew' ha with h' | h'
        · exact Or.inl h'
        · right; left; exact h'
  | badKey t => exact h

/-- … hence after every history: with both key checks in force the object reached by any sequence of operations
    from a fresh container still stores every variable's array under its own key. -/
theorem no_clash_history (h1 : cfg.addVarChecksKeys = true) (h2 : cfg.addAttrChecksKeys = true) {s : Store}
    (h : NoClash s) (ops : List Op) : NoClash (run cfg s ops) := by
  induction ops generalizing s with
  | nil => exact h
  | cons op ops ih => exact ih (no_clash_step h1 h2 h op)

/-- Under the fixed configuration `obj._A = 5` and `add_attribute('_A')` are refused when `A` is a variable; as
    shipped they were accepted (`_A` joined the attribute list — on the real object it replaced A's array). -/
example :
    (step Cfg.fixed witnessStore (.setAttr "_A" (.scalar (.i 5)) [])).2 = .raised .duplicateName ∧
    (step Cfg.fixed witnessStore (.addAttribute "_A")).2 = .raised .duplicateName ∧
    (step Cfg.shipped witnessStore (.setAttr "_A" (.scalar (.i 5)) [])).1.attrs
      = ["_attributes", "span", "index", "_strict", "_A"] ∧
    (step Cfg.fixed witnessStore (.setAttr "Q" (.scalar (.i 5)) [])).2 = .ok := by
  decide

/-- Non-vacuity, four ways to not fit: wrong length, unknown name, duplicate name, position out of range. -/
example : (step Cfg.shipped witnessStore (.setAttr "A" (.list [.i 1, .i 2]) [])).2 = .raised .dimension ∧
    (step Cfg.shipped witnessStore (.setItem "Z" (.scalar (.i 1)))).2 = .raised .key ∧
    (step Cfg.shipped witnessStore (.addVariable "A" (.scalar (.i 1)) none)).2 = .raised .duplicateName ∧
    (step Cfg.shipped witnessStore (.setPos "A" 3 (.scalar (.i 1)))).2 = .raised .index ∧
    (step Cfg.shipped witnessStore (.setPosSlice "A" none none none (.list [.i 1, .i 2]))).2 = .raised .valueShape := by
  decide

/-- The exclusion of conversion errors is necessary: `obj['A'][:] = [7, 'x', 9]` on an int series raises
    ValueError *after* NumPy has stored the 7 (the model reproduces this; the real code is compared on it). -/
theorem conversion_failure_may_write :
    (step Cfg.shipped witnessStore (.setPosSlice "A" none none none (.list [.i 7, .s "x", .i 9]))).2 = .raised .valueConv ∧
    (step Cfg.shipped witnessStore (.setPosSlice "A" none none none (.list [.i 7, .s "x", .i 9]))).1.get "A"
      = some ⟨i8, [3], [.i 7, .i 1, .i 1]⟩ := by
  decide

/-! ## `values` and `size` -/

theorem filterMap_get_length {s : Store} {names : List Name} (h : ∀ nm ∈ names, nm ∈ s.index) :
    (names.filterMap s.get).length = names.length := by
  induction names with
  | nil => rfl
  | cons nm rest ih =>
    obtain ⟨ser, hg⟩ := get_of_index (h nm (by simp))
    simp only [List.filterMap_cons, hg, List.length_cons]
    rw [ih (fun x hx => h x (List.mem_cons_of_mem _ hx))]

theorem names_sub_index (s : Store) : ∀ nm ∈ s.names, nm ∈ s.index :=
  fun _ h => (List.mem_filter.mp h).1

theorem filterMap_get_map {s : Store} {names : List Name} (h : ∀ nm ∈ names, nm ∈ s.index) :
    (names.filterMap s.get).map some = names.map s.get := by
  induction names with
  | nil => rfl
  | cons nm rest ih =>
    obtain ⟨ser, hg⟩ := get_of_index (h nm (by simp))
    simp only [List.filterMap_cons, hg, List.map_cons]
    rw [ih (fun x hx => h x (List.mem_cons_of_mem _ hx))]

/-- **`values` is the variables-by-periods stack in declaration order**: row `k` is the series of the `k`-th
    declared name (all of them, none skipped, none repeated, in `names` order), every row has one element per
    period, and the shape NumPy reports is `(len(names), len(span))` — `(0,)` for a container without variables. -/
theorem values_is_stack {s : Store} (h : Container.Inv s) :
    (valuesRows s).map some = s.names.map (fun nm => (s.get nm).map (·.data)) ∧
    (valuesRows s).length = s.names.length ∧
    (∀ row ∈ valuesRows s, row.length = s.n) ∧
    valuesShape s = .ok (if s.names = [] then [0] else [s.names.length, s.n]) := by
  have hsub := names_sub_index s
  have hmap := filterMap_get_map hsub
  have hlen := filterMap_get_length hsub
  have hwf : ∀ ser ∈ s.names.filterMap s.get, ser.wf s.n := by
    intro ser hser
    obtain ⟨nm, _, hg⟩ := List.mem_filterMap.mp hser
    exact h.get hg
  refine ⟨?_, ?_, ?_, ?_⟩
  · unfold valuesRows
    have := congrArg (List.map (Option.map (·.data))) hmap
    simpa [List.map_map, Function.comp_def] using this
  · simp [valuesRows, hlen]
  · intro row hrow
    simp only [valuesRows, List.mem_map] at hrow
    obtain ⟨ser, hser, rfl⟩ := hrow
    exact (hwf ser hser).2
  · unfold valuesShape
    cases hl : s.names.filterMap s.get with
    | nil =>
      have : s.names = [] := by
        have := hlen; rw [hl] at this; exact List.eq_nil_of_length_eq_zero this.symm
      simp [this]
    | cons ser rest =>
      have hne : s.names ≠ [] := by
        intro hnil; rw [hnil] at hl; simp at hl
      have hall : rest.all (fun x => x.shape == ser.shape) = true := by
        rw [List.all_eq_true]
        intro x hx
        have h1 := (hwf x (by rw [hl]; exact List.mem_cons_of_mem _ hx)).1
        have h2 := (hwf ser (by rw [hl]; exact List.mem_cons_self)).1
        simp [h1, h2]
      have h2 := (hwf ser (by rw [hl]; exact List.mem_cons_self)).1
      have hlen' : rest.length + 1 = s.names.length := by rw [← hlen, hl]; rfl
      have hrest : ∀ x ∈ rest, x.shape = [s.n] :=
        fun x hx => (hwf x (by rw [hl]; exact List.mem_cons_of_mem _ hx)).1
      simpa [hne, h2, hlen'] using hrest

/-- `size` is `len(names) * len(span)` (plus the submodels' sizes for a linker)… -/
theorem size_eq (s : Store) : size s = s.names.length * s.n + s.extraSize := rfl

theorem sum_const_length {rows : List (List Val)} {n : Nat} (h : ∀ row ∈ rows, row.length = n) :
    (rows.map List.length).sum = rows.length * n := by
  induction rows with
  | nil => simp
  | cons r rest ih =>
    simp only [List.map_cons, List.sum_cons, List.length_cons]
    rw [ih (fun x hx => h x (List.mem_cons_of_mem _ hx)), h r (by simp)]
    rw [Nat.add_mul, Nat.one_mul, Nat.add_comm]

/-- … which is the element count of `values` (for a container / model, where nothing else is counted). -/
theorem size_counts_values {s : Store} (h : Container.Inv s) (hx : s.extraSize = 0) :
    size s = ((valuesRows s).map List.length).sum := by
  obtain ⟨_, hl, hrows, _⟩ := values_is_stack h
  rw [sum_const_length hrows, hl, size_eq, hx, Nat.add_zero]

/-- Non-vacuity: two variables of different dtype over three periods. -/
example : valuesRows (run Cfg.shipped (init [0, 1, 2] .seq false)
      [.addVariable "A" (.scalar (.i 1)) none, .addVariable "B" (.list [.b true, .b false, .b true]) none])
      = [[.i 1, .i 1, .i 1], [.b true, .b false, .b true]] ∧
    size (run Cfg.shipped (init [0, 1, 2] .seq false)
      [.addVariable "A" (.scalar (.i 1)) none, .addVariable "B" (.list [.b true, .b false, .b true]) none]) = 6 := by
  decide

/-! ## strict -/

theorem mem_appendNew {xs : List Name} {x a : Name} (h : a ∈ appendNew xs x) : a ∈ xs ∨ a = x := by
  unfold appendNew at h
  split at h
  · exact Or.inl h
  · rcases List.mem_append.mp h with h' | h'
    · exact Or.inl h'
    · right; simpa using h'

theorem not_index_of_get_none {s : Store} {name : Name} (hg : s.get name = none) :
    s.index.contains name = false := by
  by_cases hc : name ∈ s.index
  · obtain ⟨ser, hser⟩ := get_of_index hc; rw [hg] at hser; cases hser
  · simpa using hc

/-- A name that is neither a variable nor an attribute passes the strict guard only if it is exempt. -/
theorem exempt_of_not_blocked {s : Store} {name : Name} (hs : s.strict = true)
    (hb : ¬ strictBlocks cfg s name = true) (hi : s.index.contains name = false)
    (ha : s.attrs.contains name = false) : name ∈ cfg.strictExempt := by
  cases he : cfg.strictExempt.contains name with
  | true => simpa using he
  | false => exact absurd (strictBlocks_true hs he hi ha) hb

/-- **Under `strict=True` no assignment creates a new attribute.**  After any operation other than
    `add_variable` / `add_attribute` (the two sanctioned ways), every entry of the attribute list was there before —
    except the bookkeeping entries for the class properties the guard exempts by name (`cfg.strictExempt`: as
    shipped only `'strict'`, whose first use through `obj.strict = …` records the name). -/
theorem strict_no_new_attribute {s : Store} (hs : s.strict = true) {op : Op}
    (hop : match op with | .addVariable .. => False | .addAttribute .. => False | _ => True) :
    ∀ a ∈ (step cfg s op).1.attrs, a ∈ s.attrs ∨ a ∈ cfg.strictExempt := by
  intro a ha
  cases op with
  | addVariable name v dtype => exact absurd hop (by simp)
  | addAttribute name => exact absurd hop (by simp)
  | setAttr name v alts =>
    simp only [step, setAttr] at ha
    split at ha
    · exact Or.inl ha
    · rename_i hb
      cases hg : s.get name with
      | some ser => rw [hg] at ha; rw [(assignWhole_attrs _ _ _ _).1] at ha; exact Or.inl ha
      | none =>
        rw [hg] at ha
        dsimp only at ha
        have hidx := not_index_of_get_none hg
        cases hat : s.attrs.contains name with
        | true =>
          -- an existing attribute: nothing is added
          split at ha
          · rcases mem_appendNew ha with h' | h'
            · exact Or.inl h'
            · left; rw [h']; simpa using hat
          · simp only [hat, if_true] at ha; exact Or.inl ha
        | false =>
          have hex := exempt_of_not_blocked hs hb hidx hat
          split at ha
          · rcases mem_appendNew ha with h' | h'
            · exact Or.inl h'
            · right; rw [h']; exact hex
          · simp only [hat, Bool.false_eq_true, if_false] at ha
            rcases addAttribute_cases cfg s name with hc | ⟨hc, _⟩
            · rw [hc] at ha; exact Or.inl ha
            · rw [hc] at ha
              rcases List.mem_append.mp ha with h' | h'
              · exact Or.inl h'
              · right; simp at h'; rw [h']; exact hex
  | setItem name v => rw [show (step cfg s (.setItem name v)) = setItem cfg s name v from rfl, (setItem_attrs _ _ _).1] at ha; exact Or.inl ha
  | setPos name i v => rw [show (step cfg s (.setPos name i v)) = setPos s name i v from rfl, (setPos_attrs _ _ _ _).1] at ha; exact Or.inl ha
  | setPosSlice name a' b st v =>
    rw [show (step cfg s (.setPosSlice name a' b st v)) = setPosSlice s name a' b st v from rfl,
      (setPosSlice_attrs _ _ _ _ _ _).1] at ha
    exact Or.inl ha
  | setLabel name l v =>
    rw [show (step cfg s (.setLabel name l v)) = setLabel s name l v from rfl, (setLabel_all _ _ _ _).2.2.2.1] at ha
    exact Or.inl ha
  | setLabelSlice name a' b st v =>
    rw [show (step cfg s (.setLabelSlice name a' b st v)) = setLabelSlice s name a' b st v from rfl,
      (setLabelSlice_all _ _ _ _ _ _).2.2.2.1] at ha
    exact Or.inl ha
  | replaceValues kvs =>
    rw [show (step cfg s (.replaceValues kvs)) = replaceValues cfg s kvs from rfl, (replaceValues_attrs _ _).1] at ha
    exact Or.inl ha
  | setValues v alts =>
    simp only [step, setValues] at ha
    split at ha
    · exact Or.inl ha
    · rename_i hb
      cases hg : s.get "values" with
      | some ser => rw [hg] at ha; rw [(assignWhole_attrs _ _ _ _).1] at ha; exact Or.inl ha
      | none =>
        rw [hg] at ha
        dsimp only at ha
        have hc := (setValuesCore_all (cfg := cfg) s v).2.2.1
        generalize setValuesCore cfg s v = r at ha hc
        obtain ⟨s', o⟩ := r
        cases o with
        | raised e => dsimp only at ha hc; rw [hc] at ha; exact Or.inl ha
        | ok =>
          dsimp only at ha hc
          rw [hc] at ha
          rcases mem_appendNew ha with h' | h'
          · exact Or.inl h'
          · cases hat : s.attrs.contains "values" with
            | true => left; rw [h']; simpa using hat
            | false => right; rw [h']; exact exempt_of_not_blocked hs hb (not_index_of_get_none hg) hat
  | setStrict b alts =>
    simp only [step, setStrict] at ha
    split at ha
    · exact Or.inl ha
    · rename_i hb
      cases hg : s.get "strict" with
      | some ser => rw [hg] at ha; rw [(assignWhole_attrs _ _ _ _).1] at ha; exact Or.inl ha
      | none =>
        rw [hg] at ha
        dsimp only at ha
        rcases mem_appendNew ha with h' | h'
        · exact Or.inl h'
        · cases hat : s.attrs.contains "strict" with
          | true => left; rw [h']; simpa using hat
          | false => right; rw [h']; exact exempt_of_not_blocked hs hb (not_index_of_get_none hg) hat
  | badKey t => exact Or.inl ha

/-- **Updates of existing names keep working**: on a variable, `obj.name = v` does exactly the whole-series
    assignment, whatever `strict` is; on an existing attribute it is a plain attribute update. -/
theorem strict_existing_names_work (s : Store) (name : Name) (v : Operand) (alts : List Name) :
    (∀ ser, s.get name = some ser → setAttr cfg s name v alts = assignWhole cfg s name ser v) ∧
    (s.get name = none → s.attrs.contains name = true → name ≠ "strict" → setAttr cfg s name v alts = (s, .ok)) := by
  constructor
  · intro ser hg
    have hmem : name ∈ s.index := index_of_get hg
    simp [setAttr, strictBlocks, hmem, hg]
  · intro hg ha hn
    have hmem : name ∈ s.attrs := by simpa using ha
    simp [setAttr, strictBlocks, hmem, hg, hn]

/-- **`add_variable` keeps working**: its effect does not depend on `strict` at all. -/
theorem strict_add_variable_works (s : Store) (b : Bool) (name : Name) (v : Operand) (dtype : Option Kind) :
    addVariable cfg { s with strict := b } name v dtype =
      ({ (addVariable cfg s name v dtype).1 with strict := b }, (addVariable cfg s name v dtype).2) := by
  rw [addVariable_eq, addVariable_eq]
  have : addVarResult cfg { s with strict := b } name v dtype = addVarResult cfg s name v dtype := rfl
  rw [this]
  cases addVarResult cfg s name v dtype <;> rfl

/-- **A near-miss name is reported with the closest variable**: under strict, assigning to a name that is neither
    a variable nor an attribute (nor an exempt property name) changes nothing and raises AttributeError carrying
    the single closest variable name (`alts` = what `get_closest_match` returns: `difflib` over the lower-cased
    variable names), a bare AttributeError when there is none, NotImplementedError when several names tie. -/
theorem strict_reports_closest {s : Store} (hs : s.strict = true) {name : Name} (hn : name ∉ cfg.strictExempt)
    (hi : name ∉ s.index) (ha : name ∉ s.attrs) (v : Operand) :
    (∀ c, setAttr cfg s name v [c] = (s, .raised (.attribute (some c)))) ∧
    setAttr cfg s name v [] = (s, .raised (.attribute none)) ∧
    (∀ c d rest, setAttr cfg s name v (c :: d :: rest) = (s, .raised .notImplemented)) := by
  have hb : strictBlocks cfg s name = true :=
    strictBlocks_true hs (by simpa using hn) (by simpa using hi) (by simpa using ha)
  refine ⟨fun c => ?_, ?_, fun c d rest => ?_⟩ <;> simp [setAttr, hb, strictError]

/-- **The values setter under strict** works exactly when the guard exempts the name `values`: then
    `obj.values = v` is the plain bulk replacement … -/
theorem strict_values_setter_works (hex : cfg.strictExempt.contains "values" = true) (s : Store) (v : Operand)
    (alts : List Name) (hg : s.get "values" = none) :
    (setValues cfg s v alts).2 = (setValuesCore cfg s v).2 := by
  have hb : strictBlocks cfg s "values" = false := by
    unfold strictBlocks
    rw [hex]
    rfl
  simp only [setValues, hb, hg]
  generalize setValuesCore cfg s v = r
  obtain ⟨s', o⟩ := r
  cases o <;> rfl

/-- … and is FALSE for the code as shipped: in a strict container whose `values` setter has not been used before,
    `obj.values = 0` raises AttributeError and changes nothing (key `strict-blocks-values-setter`); with the
    candidate fix the same assignment succeeds. -/
theorem strict_values_setter_blocked_at_witness :
    (let s := (step Cfg.shipped (init [0, 1] .seq true) (.addVariable "A" (.scalar (.i 1)) none)).1
     ((step Cfg.shipped s (.setValues (.scalar (.i 0)) ["A"])).2,
      (step Cfg.shipped s (.setValues (.scalar (.i 0)) ["A"])).1.get "A",
      (step Cfg.fixed s (.setValues (.scalar (.i 0)) ["A"])).2,
      (step Cfg.fixed s (.setValues (.scalar (.i 0)) ["A"])).1.get "A"))
    = (.raised (.attribute (some "A")), some ⟨i8, [2], [.i 1, .i 1]⟩, .ok, some ⟨i8, [2], [.i 0, .i 0]⟩) := by
  decide

/-- Non-vacuity: strict container with variable `A`; `obj.Aa = 1` is refused and points to `A`, `obj.A = 5` and
    `add_variable('B', …)` work. -/
example :
    (step Cfg.shipped (step Cfg.shipped (step Cfg.shipped (init [0, 1] .seq true) (.addVariable "A" (.scalar (.i 1)) none)).1
      (.setAttr "Aa" (.scalar (.i 1)) ["A"])).1 (.setAttr "A" (.scalar (.i 5)) [])).1.get "A"
      = some ⟨i8, [2], [.i 5, .i 5]⟩ ∧
    (step Cfg.shipped (step Cfg.shipped (init [0, 1] .seq true) (.addVariable "A" (.scalar (.i 1)) none)).1
      (.setAttr "Aa" (.scalar (.i 1)) ["A"])).2 = .raised (.attribute (some "A")) ∧
    (step Cfg.shipped (step Cfg.shipped (init [0, 1] .seq true) (.addVariable "A" (.scalar (.i 1)) none)).1
      (.addVariable "B" (.scalar (.b true)) none)).2 = .ok := by
  decide

/-! ## Non-vacuity (review): every hypothesis-carrying theorem instantiated at a concrete non-trivial instance -/

section Review

/-- The configuration hypotheses of `inv_step`, `inv_history`, `no_clash_step`, `no_clash_history`,
    `add_variable_refuses_taken_key`, `strict_values_setter_works` hold for the tree under test (`Cfg.current`). -/
example : Cfg.current.fullShape = true ∧ Cfg.current.addVarChecksKeys = true ∧ Cfg.current.addAttrChecksKeys = true ∧
    Cfg.current.strictExempt.contains "values" = true := by decide

private def exOps : List Op :=
  [.addVariable "A" (.scalar (.i 1)) none, .setAttr "A" (.list [.i 4, .i 5, .i 6]) [],
   .setItem "A" (.list [.i 1]), .setLabel "A" 2 (.scalar (.i 9)),
   .replaceValues [("A", .scalar (.i 0)), ("B", .scalar (.i 1))]]
/-- three periods, variables A (int) and B (bool) -/
private def exAB : Store := run Cfg.shipped (init [0, 1, 2] .seq false)
  [.addVariable "A" (.scalar (.i 1)) none, .addVariable "B" (.list [.b true, .b false, .b true]) none]
/-- two periods, strict, variable A -/
private def exStrict : Store := (step Cfg.shipped (init [0, 1] .seq true) (.addVariable "A" (.scalar (.i 1)) none)).1

/-- `inv_step_partial`: a wrong-length list (raises) and a ragged nested list on the witness store. -/
example : Container.Inv (step Cfg.shipped witnessStore (.setAttr "A" (.list [.i 1, .i 2]) [])).1 ∧
    Container.Inv (step Cfg.shipped witnessStore (.setAttr "A" (.nested [[.i 1, .i 2], [.i 3]]) [])).1 :=
  ⟨inv_step_partial (cfg := Cfg.shipped) (s := witnessStore) (by decide) (op := .setAttr "A" (.list [.i 1, .i 2]) []) (by decide),
   inv_step_partial (cfg := Cfg.shipped) (s := witnessStore) (by decide)
     (op := .setAttr "A" (.nested [[.i 1, .i 2], [.i 3]]) []) (by decide)⟩

/-- `inv_step` / `inv_history`: with the whole shape compared the former witness is harmless. -/
example : Container.Inv (step Cfg.fixed witnessStore witnessOp).1 :=
  inv_step (cfg := Cfg.fixed) rfl (s := witnessStore) (by decide) witnessOp
example : Container.Inv (run Cfg.current (init [0, 1, 2] .seq false) (exOps ++ [witnessOp])) :=
  inv_history (cfg := Cfg.current) (by decide) (inv_init _ _ _) _

/-- `inv_history_partial` on the five-operation history. -/
example : Container.Inv (run Cfg.shipped (init [0, 1, 2] .seq false) exOps) :=
  inv_history_partial (cfg := Cfg.shipped) (inv_init _ _ _) exOps (by decide)

/-- `dtype_step` / `dtype_history`: the int variable `A` stays int under the shape-breaking witness, and through a
    history that assigns floats and strings to it. -/
example : ∃ ser', (step Cfg.shipped witnessStore witnessOp).1.get "A" = some ser' ∧ ser'.dtype = i8 :=
  dtype_step (cfg := Cfg.shipped) witnessStore witnessOp (name := "A") (ser := ⟨i8, [3], [.i 1, .i 1, .i 1]⟩) (by decide)
example : ∃ ser', (run Cfg.shipped witnessStore [.setAttr "A" (.list [.f 15, .f 25, .f 35]) [],
      .setPos "A" 0 (.scalar (.s "7"))]).get "A" = some ser' ∧ ser'.dtype = i8 :=
  dtype_history (cfg := Cfg.shipped) witnessStore _ (name := "A") (ser := ⟨i8, [3], [.i 1, .i 1, .i 1]⟩) (by decide)

/-- `failed_assign_unchanged` (wrong length → DimensionError; unknown label → KeyError) and
    `failed_add_variable_unchanged` (duplicate name). -/
example : (step Cfg.shipped witnessStore (.setAttr "A" (.list [.i 1, .i 2]) [])).1 = witnessStore :=
  failed_assign_unchanged (cfg := Cfg.shipped) (s := witnessStore) (op := .setAttr "A" (.list [.i 1, .i 2]) []) trivial
    (e := .dimension) (by decide) (by decide)
example : (step Cfg.shipped witnessStore (.setLabel "A" 7 (.scalar (.i 1)))).1 = witnessStore :=
  failed_assign_unchanged (cfg := Cfg.shipped) (s := witnessStore) (op := .setLabel "A" 7 (.scalar (.i 1))) trivial
    (e := .key) (by decide) (by decide)
example : (step Cfg.shipped witnessStore (.addVariable "A" (.scalar (.i 1)) none)).1 = witnessStore :=
  failed_add_variable_unchanged (cfg := Cfg.shipped) (e := .duplicateName) (by decide)

/-- `add_variable_refuses_taken_key`: `Y` once an ad-hoc attribute `_Y` exists. -/
example : step Cfg.fixed (step Cfg.fixed (init [0, 1] .seq false) (.setAttr "_Y" (.scalar (.i 5)) [])).1
      (.addVariable "Y" (.scalar (.i 1)) none) =
    ((step Cfg.fixed (init [0, 1] .seq false) (.setAttr "_Y" (.scalar (.i 5)) [])).1, .raised .duplicateName) :=
  add_variable_refuses_taken_key (cfg := Cfg.fixed) rfl (by decide) _ _

/-- `no_clash_step` / `no_clash_history` from a fresh container, including the attempts `obj._A = 5` and
    `add_variable('Y')` after `obj._Y = 5`. -/
example : NoClash (step Cfg.current witnessStore (.setAttr "_A" (.scalar (.i 5)) [])).1 :=
  no_clash_step (cfg := Cfg.current) (by decide) (by decide)
    (no_clash_history (cfg := Cfg.current) (by decide) (by decide) (no_clash_init [0, 1, 2] .seq false)
      [.addVariable "A" (.scalar (.i 1)) none]) _
example : NoClash (run Cfg.current (init [0, 1] .seq false)
    [.addVariable "A" (.scalar (.i 1)) none, .setAttr "_A" (.scalar (.i 5)) [], .setAttr "_Y" (.scalar (.i 5)) [],
     .addVariable "Y" (.scalar (.i 1)) none, .addAttribute "_A"]) :=
  no_clash_history (cfg := Cfg.current) (by decide) (by decide) (no_clash_init _ _ _) _

/-- `values_is_stack` / `size_counts_values` on the two-variable store. -/
example : (valuesRows exAB).length = exAB.names.length ∧ (∀ row ∈ valuesRows exAB, row.length = exAB.n) ∧
    valuesShape exAB = .ok (if exAB.names = [] then [0] else [exAB.names.length, exAB.n]) :=
  (values_is_stack (s := exAB) (by decide)).2
example : size exAB = ((valuesRows exAB).map List.length).sum := size_counts_values (s := exAB) (by decide) (by decide)
example : exAB.names = ["A", "B"] ∧ size exAB = 6 := by decide

/-- `strict_no_new_attribute`, `strict_reports_closest`, `strict_existing_names_work`, `strict_values_setter_works`
    on the strict store. -/
example : ∀ a ∈ (step Cfg.shipped exStrict (.setAttr "Aa" (.scalar (.i 1)) ["A"])).1.attrs,
    a ∈ exStrict.attrs ∨ a ∈ Cfg.shipped.strictExempt :=
  strict_no_new_attribute (cfg := Cfg.shipped) (s := exStrict) (by decide) (op := .setAttr "Aa" (.scalar (.i 1)) ["A"]) trivial
example : setAttr Cfg.shipped exStrict "Aa" (.scalar (.i 1)) ["A"] = (exStrict, .raised (.attribute (some "A"))) :=
  (strict_reports_closest (cfg := Cfg.shipped) (s := exStrict) (by decide) (name := "Aa") (by decide) (by decide) (by decide)
    (.scalar (.i 1))).1 "A"
example : setAttr Cfg.shipped exStrict "A" (.scalar (.i 5)) [] =
    assignWhole Cfg.shipped exStrict "A" ⟨i8, [2], [.i 1, .i 1]⟩ (.scalar (.i 5)) :=
  (strict_existing_names_work (cfg := Cfg.shipped) exStrict "A" (.scalar (.i 5)) []).1 _ (by decide)
example : setAttr Cfg.shipped exStrict "span" (.scalar (.i 5)) [] = (exStrict, .ok) :=
  (strict_existing_names_work (cfg := Cfg.shipped) exStrict "span" (.scalar (.i 5)) []).2 (by decide) (by decide) (by decide)
example : (setValues Cfg.current exStrict (.scalar (.i 0)) ["A"]).2 = (setValuesCore Cfg.current exStrict (.scalar (.i 0))).2 :=
  strict_values_setter_works (cfg := Cfg.current) (by decide) exStrict _ _ (by decide)
example : (setValues Cfg.current exStrict (.scalar (.i 0)) ["A"]).2 = .ok := by decide

end Review

end Fsic.C09
