import Proofs.C02
/-
C17 — Tracing never changes a solution and records it faithfully.

`traced I snap on` (FsicModel/Solver.lean) is the tracer-extended model: the same passes and hooks, plus labelled
snapshots `snap u t` appended to a trace when `on`.  `tracedSolveT` adds the `start` snapshot.  Statements are for
every interpretation `I`, every snapshot function (every choice of traced variables), every option set, span
length and period — including faulting and non-convergent runs.
-/
set_option linter.unusedSimpArgs false
namespace Fsic.C17
open Fsic

variable {σ V S : Type} (I : Interp σ V) (snap : σ → Int → S) (o : Opts) (n : Nat) (t : Int)

/-- **Non-interference.** Forgetting the trace, a traced solve (tracing on or off) is exactly the untraced solve:
    same values, statuses, iteration counts, return value / raised exception. -/
theorem trace_noninterference (on reset : Bool) (w : World (σ × List (TraceLabel × S))) :
    ((tracedSolveT I snap on reset o n t w).1.map Prod.fst, (tracedSolveT I snap on reset o n t w).2)
      = solveT I o n t (w.map Prod.fst) := by
  unfold tracedSolveT
  rw [solveT_sim (traced_sim I snap on reset) o n t]
  cases on <;> rfl

/-- With tracing off no trace is written. -/
theorem trace_off_empty (reset : Bool) (w : World (σ × List (TraceLabel × S))) :
    (tracedSolveT I snap false reset o n t w).1.user.2 = w.user.2 := by
  unfold tracedSolveT
  simp only [Bool.false_eq_true, if_false]
  apply solveT_inv (traced I snap false reset) o t (fun u => u.2 = w.user.2) _ n w rfl
  constructor
  · intro _ u h; exact h
  · intro u h
    simp only [traced]
    rcases hb : I.before o u.1 t with ⟨u', b⟩
    cases b <;> simpa using h
  · intro u k h
    simp only [traced]
    rcases hb : I.eval o u.1 t k with ⟨u', b⟩
    cases b <;> simpa using h
  · intro u k h
    simp only [traced]
    rcases hb : I.after o u.1 t k with ⟨u', b⟩
    cases b <;> simpa using h

/-- Snapshots `1 … k` of the iteration: snapshot `j` holds the traced variables after evaluation pass `j`. -/
def iterSnaps (u0 : σ) (k : Nat) : List (TraceLabel × S) :=
  (List.range k).map fun i => (TraceLabel.iter (i + 1), snap (traj I o t u0 (i + 1)) t)

theorem iterSnaps_succ (u0 : σ) (k : Nat) :
    iterSnaps I snap o t u0 (k + 1)
      = iterSnaps I snap o t u0 k ++ [(TraceLabel.iter (k + 1), snap (traj I o t u0 (k + 1)) t)] := by
  simp [iterSnaps, List.range_succ]

/-- While no pass raises, the traced trajectory is the plain trajectory plus one snapshot per pass. -/
theorem traj_traced (u0 : σ) (l : List (TraceLabel × S)) (k : Nat)
    (hev : ∀ i, i < k → (I.eval o (traj I o t u0 i) t (i + 1)).2 = false) :
    traj (traced I snap true false) o t (u0, l) k = (traj I o t u0 k, l ++ iterSnaps I snap o t u0 k) := by
  induction k with
  | zero => simp [traj, iterSnaps]
  | succ k ih =>
    have ih' := ih (fun i hi => hev i (by omega))
    show ((traced I snap true false).eval o (traj (traced I snap true false) o t (u0, l) k) t (k + 1)).1 = _
    rw [ih']
    have e := eval_eq_of_not_raised I o t u0 k (hev k (Nat.lt_succ_self _))
    simp only [traced, recordSnap, Bool.false_eq_true, if_false, e, iterSnaps_succ, if_true, List.append_assoc]

theorem cv_traced (u0 : σ) (l : List (TraceLabel × S)) (v0 : V) (k : Nat)
    (hev : ∀ i, i < k → (I.eval o (traj I o t u0 i) t (i + 1)).2 = false) :
    cv (traced I snap true false) o t (u0, l) v0 k = cv I o t u0 v0 k := by
  cases k with
  | zero => rfl
  | succ k =>
    show (traced I snap true false).check (traj (traced I snap true false) o t (u0, l) (k + 1)) t = _
    rw [traj_traced I snap o t u0 l (k + 1) hev]; rfl

/-- **Shape of the trace of a solved period** (`reset = False`): in order `start, before, 0, 1 … k0, end`;
    snapshot `j` is taken after pass `j`; the last snapshot is the stored solution (the state `solve_t` leaves). -/
theorem trace_shape_solved (l : List (TraceLabel × S)) (u : σ) (st : List Status) (it : List Int)
    (hacc : Accepted I o n t)
    (hb : (I.before o (seed I o t u) t).2 = false)
    (k0 : Nat) (h1 : 1 ≤ k0) (hk : (k0 : Int) ≤ o.maxIter)
    (hev : ∀ i, i < k0 → (I.eval o (traj I o t (I.before o (seed I o t u) t).1 i) t (i + 1)).2 = false)
    (hfin : ∀ i, i ≤ k0 →
      I.allFinite (cv I o t (I.before o (seed I o t u) t).1 (I.check (seed I o t u) t) i) = true)
    (hleast : ∀ i, 0 < i → i < k0 →
      ¬ Good I o t (I.before o (seed I o t u) t).1 (I.check (seed I o t u) t) i)
    (hgood : Good I o t (I.before o (seed I o t u) t).1 (I.check (seed I o t u) t) k0)
    (ha : (I.after o (traj I o t (I.before o (seed I o t u) t).1 k0) t k0).2 = false) :
    (tracedSolveT I snap true false o n t ⟨(u, l), st, it⟩).1.user =
      ((I.after o (traj I o t (I.before o (seed I o t u) t).1 k0) t k0).1,
       l ++ [(TraceLabel.start, snap u t), (TraceLabel.before, snap (seed I o t u) t),
             (TraceLabel.iter 0, snap (I.before o (seed I o t u) t).1 t)]
         ++ iterSnaps I snap o t (I.before o (seed I o t u) t).1 k0
         ++ [(TraceLabel.«end», snap (I.after o (traj I o t (I.before o (seed I o t u) t).1 k0) t k0).1 t)]) := by
  unfold tracedSolveT
  simp only [if_true, withUser, recordSnap, Bool.false_eq_true, if_false]
  have hseed : ∀ l', seed (traced I snap true false) o t (u, l') = (seed I o t u, l') := by
    intro l'; unfold seed; split <;> rfl
  have hbe : I.before o (seed I o t u) t = ((I.before o (seed I o t u) t).1, false) := Prod.ext rfl hb
  have hbef : ∀ l', (traced I snap true false).before o (seed I o t u, l') t
      = (((I.before o (seed I o t u) t).1,
          l' ++ [(TraceLabel.before, snap (seed I o t u) t),
                 (TraceLabel.iter 0, snap (I.before o (seed I o t u) t).1 t)]), false) := by
    intro l'
    simp only [traced, recordSnap, Bool.false_eq_true, if_false]
    rw [hbe]
    simp [List.append_assoc]
  have hchk : ∀ l', (traced I snap true false).check (seed I o t u, l') t = I.check (seed I o t u) t := fun _ => rfl
  have hev' : ∀ k, k ≤ k0 → ∀ i, i < k →
      (I.eval o (traj I o t (I.before o (seed I o t u) t).1 i) t (i + 1)).2 = false :=
    fun k hk i hi => hev i (by omega)
  have hae : I.after o (traj I o t (I.before o (seed I o t u) t).1 k0) t k0
      = ((I.after o (traj I o t (I.before o (seed I o t u) t).1 k0) t k0).1, false) := Prod.ext rfl ha
  have key := C02.solveT_converges (traced I snap true false) o n t
    ⟨(u, l ++ [(TraceLabel.start, snap u t)]), st, it⟩ hacc
    (by simp only [hseed, hbef])
    k0 h1 hk
    (by
      intro i hi
      simp only [hseed, hbef]
      rw [traj_traced I snap o t _ _ i (hev' i (by omega))]
      simp only [traced, recordSnap, Bool.false_eq_true, if_false]
      have e := eval_eq_of_not_raised I o t (I.before o (seed I o t u) t).1 i (hev i hi)
      rw [e])
    (by
      intro i hi
      simp only [hseed, hbef, hchk]
      rw [cv_traced I snap o t _ _ _ i (hev' i hi)]
      exact hfin i hi)
    (by
      intro i h h'
      simp only [hseed, hbef, hchk]
      unfold Good
      rw [cv_traced I snap o t _ _ _ i (hev' i (by omega)),
          cv_traced I snap o t _ _ _ (i - 1) (hev' (i - 1) (by omega))]
      exact hleast i h h')
    (by
      simp only [hseed, hbef, hchk]
      unfold Good
      rw [cv_traced I snap o t _ _ _ k0 (hev' k0 (Nat.le_refl _)),
          cv_traced I snap o t _ _ _ (k0 - 1) (hev' (k0 - 1) (by omega))]
      exact hgood)
    (by
      simp only [hseed, hbef]
      rw [traj_traced I snap o t _ _ k0 (hev' k0 (Nat.le_refl _))]
      simp only [traced, recordSnap, Bool.false_eq_true, if_false]
      rw [hae])
  rw [key]
  rw [stamp_user]
  simp only [withUser, hseed, hbef]
  rw [traj_traced I snap o t _ _ k0 (hev' k0 (Nat.le_refl _))]
  simp only [traced, recordSnap, Bool.false_eq_true, if_false]
  rw [hae]
  simp [List.append_assoc]

/-- **An unsolved period's trace simply stops after its last pass**: `start, before, 0, 1 … max_iter`, no `end`. -/
theorem trace_shape_failed (l : List (TraceLabel × S)) (u : σ) (st : List Status) (it : List Int)
    (hacc : Accepted I o n t)
    (hb : (I.before o (seed I o t u) t).2 = false)
    (hev : ∀ i, i < o.maxIter.toNat →
      (I.eval o (traj I o t (I.before o (seed I o t u) t).1 i) t (i + 1)).2 = false)
    (hfin : ∀ i, i ≤ o.maxIter.toNat →
      I.allFinite (cv I o t (I.before o (seed I o t u) t).1 (I.check (seed I o t u) t) i) = true)
    (hnone : ∀ i, 0 < i → i ≤ o.maxIter.toNat →
      ¬ Good I o t (I.before o (seed I o t u) t).1 (I.check (seed I o t u) t) i) :
    (tracedSolveT I snap true false o n t ⟨(u, l), st, it⟩).1.user =
      (traj I o t (I.before o (seed I o t u) t).1 o.maxIter.toNat,
       l ++ [(TraceLabel.start, snap u t), (TraceLabel.before, snap (seed I o t u) t),
             (TraceLabel.iter 0, snap (I.before o (seed I o t u) t).1 t)]
         ++ iterSnaps I snap o t (I.before o (seed I o t u) t).1 o.maxIter.toNat) := by
  unfold tracedSolveT
  simp only [if_true, withUser, recordSnap, Bool.false_eq_true, if_false]
  have hseed : ∀ l', seed (traced I snap true false) o t (u, l') = (seed I o t u, l') := by
    intro l'; unfold seed; split <;> rfl
  have hbe : I.before o (seed I o t u) t = ((I.before o (seed I o t u) t).1, false) := Prod.ext rfl hb
  have hbef : ∀ l', (traced I snap true false).before o (seed I o t u, l') t
      = (((I.before o (seed I o t u) t).1,
          l' ++ [(TraceLabel.before, snap (seed I o t u) t),
                 (TraceLabel.iter 0, snap (I.before o (seed I o t u) t).1 t)]), false) := by
    intro l'
    simp only [traced, recordSnap, Bool.false_eq_true, if_false]
    rw [hbe]
    simp [List.append_assoc]
  have hchk : ∀ l', (traced I snap true false).check (seed I o t u, l') t = I.check (seed I o t u) t := fun _ => rfl
  have hev' : ∀ k, k ≤ o.maxIter.toNat → ∀ i, i < k →
      (I.eval o (traj I o t (I.before o (seed I o t u) t).1 i) t (i + 1)).2 = false :=
    fun k hk i hi => hev i (by omega)
  have key := C02.solveT_fails (traced I snap true false) o n t
    ⟨(u, l ++ [(TraceLabel.start, snap u t)]), st, it⟩ hacc
    (by simp only [hseed, hbef])
    (by
      intro i hi
      simp only [hseed, hbef]
      rw [traj_traced I snap o t _ _ i (hev' i (by omega))]
      simp only [traced, recordSnap, Bool.false_eq_true, if_false]
      have e := eval_eq_of_not_raised I o t (I.before o (seed I o t u) t).1 i (hev i hi)
      rw [e])
    (by
      intro i hi
      simp only [hseed, hbef, hchk]
      rw [cv_traced I snap o t _ _ _ i (hev' i hi)]
      exact hfin i hi)
    (by
      intro i h h'
      simp only [hseed, hbef, hchk]
      unfold Good
      rw [cv_traced I snap o t _ _ _ i (hev' i (by omega)),
          cv_traced I snap o t _ _ _ (i - 1) (hev' (i - 1) (by omega))]
      exact hnone i h h')
  rw [key]
  rw [stamp_user]
  simp only [withUser, hseed, hbef]
  rw [traj_traced I snap o t _ _ _ (hev' _ (Nat.le_refl _))]
  simp [List.append_assoc]

/-! ### Non-vacuity -/

/-- Traced run of the C02 example model: trace = start, before, 0, 1, 2, 3, 4, end with values 0,0,0,1,2,3,3,3. -/
example : (tracedSolveT C02.exI (fun u _ => u) true false { maxIter := 10 } 5 2
      ⟨(0, []), List.replicate 5 .unsolved, List.replicate 5 (-1)⟩).1.user
    = (3, [(.start, 0), (.before, 0), (.iter 0, 0), (.iter 1, 1), (.iter 2, 2), (.iter 3, 3), (.iter 4, 3),
           (.«end», 3)]) := by decide

example : (tracedSolveT C02.exI (fun u _ => u) false false { maxIter := 10 } 5 2
      ⟨(0, []), List.replicate 5 .unsolved, List.replicate 5 (-1)⟩).1.user = (3, []) := by decide

/-! ### A trace is only ever extended -/

/-- **With `reset = False` tracing never rewrites what it has recorded.**  Whatever the outcome of the solve — solved,
    failed, skipped, an exception in a hook or a pass, a rejected call — the trace afterwards is the trace before with
    snapshots appended: earlier snapshots (of this or of an earlier solve of the period) are never altered, dropped or
    reordered. -/
theorem trace_only_extends (on : Bool) (w : World (σ × List (TraceLabel × S))) :
    ∃ s, (tracedSolveT I snap on false o n t w).1.user.2 = w.user.2 ++ s := by
  unfold tracedSolveT
  have hP : Preserved (traced I snap on false) o t (fun u => ∃ s, u.2 = w.user.2 ++ s) := by
    constructor
    · intro _ u h; exact h
    · intro u ⟨s, h⟩
      simp only [traced, recordSnap, Bool.false_eq_true, if_false]
      rcases hb : I.before o u.1 t with ⟨u', b⟩
      cases b <;> cases on <;> simp only [Bool.false_eq_true, if_false, if_true, h, List.append_assoc] <;>
        first | exact ⟨_, rfl⟩ | exact ⟨s, rfl⟩
    · intro u k ⟨s, h⟩
      simp only [traced, recordSnap, Bool.false_eq_true, if_false]
      rcases hb : I.eval o u.1 t k with ⟨u', b⟩
      cases b <;> cases on <;> simp only [Bool.false_eq_true, if_false, if_true, h, List.append_assoc] <;>
        first | exact ⟨_, rfl⟩ | exact ⟨s, rfl⟩
    · intro u k ⟨s, h⟩
      simp only [traced, recordSnap, Bool.false_eq_true, if_false]
      rcases hb : I.after o u.1 t k with ⟨u', b⟩
      cases b <;> cases on <;> simp only [Bool.false_eq_true, if_false, if_true, h, List.append_assoc] <;>
        first | exact ⟨_, rfl⟩ | exact ⟨s, rfl⟩
  cases on
  · simp only [Bool.false_eq_true, if_false]
    exact solveT_inv (traced I snap false false) o t _ hP n w ⟨[], by simp⟩
  · simp only [if_true]
    exact solveT_inv (traced I snap true false) o t _ hP n _
      ⟨[(TraceLabel.start, snap w.user.1 t)], by simp [withUser, recordSnap]⟩

/-! ## Non-vacuity (review): every hypothesis of `trace_shape_solved` / `trace_shape_failed` / `traj_traced` /
`cv_traced` at the C02 example model (a pass moves the state one step towards 3: converges at pass 4) -/

example : (tracedSolveT C02.exI (fun u _ => u) true false { maxIter := 10 } 5 2
      ⟨(0, []), List.replicate 5 .unsolved, List.replicate 5 (-1)⟩).1.user
    = (3, [(.start, 0), (.before, 0), (.iter 0, 0), (.iter 1, 1), (.iter 2, 2), (.iter 3, 3), (.iter 4, 3),
           (.«end», 3)]) := by
  rw [trace_shape_solved C02.exI (fun u _ => u) { maxIter := 10 } 5 2 [] 0 _ _
    (by unfold Accepted Feasible; decide) rfl 4 (by decide) (by decide) (fun _ _ => rfl) (fun _ _ => rfl)
    (by
      intro i h0 h4
      have : i = 1 ∨ i = 2 ∨ i = 3 := by omega
      rcases this with rfl | rfl | rfl <;> (unfold Good; decide))
    (by unfold Good; decide) rfl]
  decide

-- a failed period (`max_iter = 3`, period -1): `start, before, 0, 1, 2, 3`, no `end`
example : (tracedSolveT C02.exI (fun u _ => u) true false { maxIter := 3 } 5 (-1)
      ⟨(0, [(.«end», 9)]), List.replicate 5 .unsolved, List.replicate 5 (-1)⟩).1.user
    = (3, [(.«end», 9), (.start, 0), (.before, 0), (.iter 0, 0), (.iter 1, 1), (.iter 2, 2), (.iter 3, 3)]) := by
  rw [trace_shape_failed C02.exI (fun u _ => u) { maxIter := 3 } 5 (-1) [(.«end», 9)] 0 _ _
    (by unfold Accepted Feasible; decide) rfl (fun _ _ => rfl) (fun _ _ => rfl)
    (by
      intro i h0 h3
      have h3' : i ≤ 3 := h3
      have : i = 1 ∨ i = 2 ∨ i = 3 := by omega
      rcases this with rfl | rfl | rfl <;> (unfold Good; decide))]
  decide

-- traj_traced / cv_traced: `hev` with three real passes
example : traj (traced C02.exI (fun u _ => u) true false) {} 2 (0, [(.iter 0, 0)]) 3 =
    (3, [(.iter 0, 0), (.iter 1, 1), (.iter 2, 2), (.iter 3, 3)]) := by
  rw [traj_traced C02.exI (fun u _ => u) {} 2 0 _ 3 (fun _ _ => rfl)]; decide
example : cv (traced C02.exI (fun u _ => u) true false) {} 2 (0, []) 0 3 = 3 := by
  rw [cv_traced C02.exI (fun u _ => u) {} 2 0 [] 0 3 (fun _ _ => rfl)]; decide

/-! ### Tracing a multi-period `solve()` -/

/-- `solve()` of a tracer-extended model over a list of periods: the traced single-period solve of each period in
    turn; the first exception stops the run (mirrors `solveList`). -/
def tracedSolveList (on reset : Bool) :
    List Nat → World (σ × List (TraceLabel × S)) → List Nat → List Bool →
      World (σ × List (TraceLabel × S)) × SolveResult
  | [], w, ps, fs => (w, .ok ps.reverse fs.reverse)
  | p :: rest, w, ps, fs =>
    match tracedSolveT I snap on reset o n (p : Int) w with
    | (w', .ret b) => tracedSolveList on reset rest w' (p :: ps) (b :: fs)
    | (w', r) => (w', .err r ps.reverse fs.reverse)

/-- **Non-interference for `solve()`.** Forgetting the trace, a traced multi-period solve (tracing on or off, with or
    without reset) visits the same periods, leaves the same values, statuses and iteration counts, and ends with the same
    result (positions, flags, or the same exception at the same period) as the untraced `solve()`. -/
theorem trace_noninterference_solve (on reset : Bool) :
    ∀ (ps : List Nat) (w : World (σ × List (TraceLabel × S))) (acc : List Nat) (fs : List Bool),
      ((tracedSolveList I snap o n on reset ps w acc fs).1.map Prod.fst,
       (tracedSolveList I snap o n on reset ps w acc fs).2)
        = solveList I o n ps (w.map Prod.fst) acc fs := by
  intro ps
  induction ps with
  | nil => intro w acc fs; rfl
  | cons p rest ih =>
    intro w acc fs
    have h := trace_noninterference I snap o n (p : Int) on reset w
    unfold tracedSolveList solveList
    rcases ht : tracedSolveT I snap on reset o n (p : Int) w with ⟨w', r⟩
    rw [ht] at h
    simp only at h
    rw [← h]
    cases r with
    | ret b => exact ih w' _ _
    | valueError => rfl
    | indexError => rfl
    | solutionError c => rfl
    | nonConvergence => rfl
    | badErrorsArg => rfl

end Fsic.C17
