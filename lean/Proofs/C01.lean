import Proofs.Lemmas.Expr
/-
C01 — the generated model evaluates exactly the equations written in the script (token level).

A script statement is a token list `ts : List (Tok SAtom)`.  `parse_equation` turns it into the normalised
equation `eqForm ts` and the code `codeForm ts` by rewriting every term (`Term.__str__` / `Term.code`) and every
function name (replacement table) in place.  The theorems say, for ALL token lists, stores, periods and operator
interpretations `ops : Ops F` (hence for Python/NumPy float arithmetic whatever it does):

* the parse tree of the generated statement is the parse tree of the script with each term replaced by its
  store access and each function name by its replacement (`parseExpr_map`, `parseStmt_code`, `parseStmt_equation`);
* executing the generated statement = assigning to the LHS series, at exactly the lag/lead written, the value of
  the script's RHS with every term read at exactly the lag/lead written (`code_denotes_script`), and the
  normalised equation denotes the same (`equation_denotes_script`);
* a function name is replaced iff the whole dotted name is a key of `replacement_function_names`
  (`replacement_exact`, and over the reflected table `replacement_table`, `replacement_untouched`,
  `keywords_not_replaced`);
* a pass is Gauss-Seidel in list order (`evalPass_gauss_seidel`), writes nothing but the LHS cells
  (`evalPass_frame`), each LHS cell receiving its RHS value on the store left by the earlier equations
  (`assign_writes_lhs`), and reads only cells `(x, t + k)` of terms `x[k]` of the equations (`reads_are_terms`).

The tie between script TEXT and tokens (regex scanner, layouts) is `scan_render` in the text-level model; the tie
between this model and /repo is the correspondence check `harness/props/c01.py`.
Guards.  A variable sharing its name with a function CALLED in the same statement is outside the grammar: the
code rejects such a statement with ParserError (/repo 3f601b8; checked on every run as a regression case — before
that commit the statement was silently lost).  Still violated by the code and reproduced on every run as known
findings: whitespace between a name and `[`, names starting with an underscore (other than `_`), numeric literals
with an exponent.  All of these concern the text level and the class-body name mangling, not the token-level
statements below.  (A statement whose constant sub-expression warns or raises, e.g. `Y = log(-7) + X`, is ordinary
input: since /repo a900a8c the syntax check compiles instead of executing it.)
-/
set_option linter.unusedSimpArgs false
namespace Fsic.C01
open Fsic.M4

variable {α β F : Type}

/-! ### The generated statement has the script's parse tree -/

/-- The parser commutes with the term/function rewriting, for every rewriting and every token list. -/
theorem parseExpr_map (f : α → β) (g : String → String) (ts : List (Tok α)) :
    parseExpr (ts.map (Tok.map f g)) = (parseExpr ts).map (Expr.map f g) :=
  parseExpr_map' f g ts

/-- Code: same tree, every term replaced by its store access, every function name by its replacement. -/
theorem parseStmt_code (ts : List (Tok SAtom)) :
    parseStmt (codeForm ts) = (parseStmt ts).map (Equation.map tAtom replaceFn) :=
  parseStmt_map' tAtom replaceFn ts

/-- Normalised equation: same tree, every term replaced by its standard form, function names untouched. -/
theorem parseStmt_equation (ts : List (Tok SAtom)) :
    parseStmt (eqForm ts) = (parseStmt ts).map (Equation.map tAtom id) :=
  parseStmt_map' tAtom id ts

/-- Keywords, verbatim fragments, operators, numbers and parentheses are left in place by both rewritings. -/
theorem rest_untouched (f : α → β) (g : String → String) (n : String) :
    (Tok.kw n : Tok α).map f g = .kw n ∧ (Tok.verb n : Tok α).map f g = .verb n ∧
    (Tok.chunk n : Tok α).map f g = .chunk n := ⟨rfl, rfl, rfl⟩

private def exTs : List (Tok SAtom) :=
  [.atom ⟨.var, "Y", .rel 0⟩, .chunk "=", .func "exp", .chunk "(", .atom ⟨.var, "X", .rel (-12)⟩, .chunk ")",
   .chunk "*", .atom ⟨.param, "a", .rel 1⟩, .kw "if", .atom ⟨.error, "e", .rel 0⟩, .chunk ">", .chunk "0.5",
   .kw "else", .func "np.exp", .chunk "(", .chunk "-", .atom ⟨.var, "Y", .rel (-1)⟩, .chunk ")"]

/-- Non-vacuity: a statement with a replaced and a namespaced call, a two-digit lag, a lead, a conditional. -/
example : (parseStmt exTs).isSome = true ∧ (parseStmt (codeForm exTs)).isSome = true := by decide

example : codeLexemes exTs =
    ["self", ".", "_Y", "[", "t", "]", "=", "np.exp", "(", "self", ".", "_X", "[", "t", "-", "12", "]", ")", "*",
     "self", ".", "_a", "[", "t", "+", "1", "]", "if", "self", ".", "_e", "[", "t", "]", ">", "0.5", "else",
     "np.exp", "(", "-", "self", ".", "_Y", "[", "t", "-", "1", "]", ")"] := by decide

/-! ### Index arithmetic: `[t]`, `[t+k]`, `[t-k]` address exactly the lag/lead written -/

/-- The index expression printed for offset `k` evaluates to `t + k` (all `k`, two-digit and negative included). -/
theorem index_denotes (t k : Int) : (tidx k).eval t = t + k := tidx_eval t k

/-- Distinct offsets are printed differently. -/
theorem index_injective {k k' : Int} (h : tidx k = tidx k') : k = k' := tidx_injective h

example : tidx (-12) = .minus 12 ∧ tidx 10 = .plus 10 ∧ tidx 0 = .zero := by decide

/-- What the code reads for a term is what the script means by it: the named series at exactly `t + k`
    ({parameters} and <errors> are ordinary series). -/
theorem term_read_exact (s : Store F) (t : Int) (loc : String → Int) (a : SAtom) :
    readCode s t loc (tAtom a) = readSpec s t loc a := readCode_tAtom s t loc a

/-! ### The code denotes the script -/

/-- For every statement that parses, the generated statement parses too and executing it on any store at any
    period is the script's assignment: same cell written, same value — for every interpretation of the
    operators. -/
theorem code_denotes_script (ops : Ops F) (loc : String → Int) (ts : List (Tok SAtom)) (eq : Equation SAtom)
    (h : parseStmt ts = some eq) (s : Store F) (t : Int) :
    ∃ ceq, parseStmt (codeForm ts) = some ceq ∧
      denote ops (readCode s t loc) ceq.rhs = denote (scriptOps ops) (readSpec s t loc) eq.rhs ∧
      assignCode ops loc ceq.lhs ceq.rhs s t = assign ops loc eq s t := by
  refine ⟨eq.map tAtom replaceFn, by rw [parseStmt_code, h]; rfl, ?_, ?_⟩
  · simp only [Equation.map, denote_map]
    exact congrArg (fun ρ => denote _ ρ eq.rhs) (funext fun a => readCode_tAtom s t loc a)
  · have hv : denote ops (readCode s t loc) (eq.rhs.map tAtom replaceFn) =
        denote (scriptOps ops) (readSpec s t loc) eq.rhs := by
      simp only [denote_map]
      exact congrArg (fun ρ => denote _ ρ eq.rhs) (funext fun a => readCode_tAtom s t loc a)
    obtain ⟨⟨kind, name, idx⟩, rhs⟩ := eq
    cases idx <;> simp only [Equation.map, tAtom, assignCode, assign, Idx.pos, tidx_eval] <;> rw [← hv]

/-- The normalised equation attached to the symbol denotes the same expression (its function names read through
    the replacement table, as the property says: `exp` means the numeric exponential). -/
theorem equation_denotes_script (ops : Ops F) (loc : String → Int) (ts : List (Tok SAtom)) (eq : Equation SAtom)
    (h : parseStmt ts = some eq) (s : Store F) (t : Int) :
    ∃ neq, parseStmt (eqForm ts) = some neq ∧
      denote (scriptOps ops) (readCode s t loc) neq.rhs = denote (scriptOps ops) (readSpec s t loc) eq.rhs ∧
      assignCode (scriptOps ops) loc neq.lhs neq.rhs s t = assign ops loc eq s t := by
  have hv : denote (scriptOps ops) (readCode s t loc) (eq.rhs.map tAtom id) =
      denote (scriptOps ops) (readSpec s t loc) eq.rhs := by
    simp only [denote_map]
    exact congrArg (fun ρ => denote _ ρ eq.rhs) (funext fun a => readCode_tAtom s t loc a)
  refine ⟨eq.map tAtom id, by rw [parseStmt_equation, h]; rfl, hv, ?_⟩
  obtain ⟨⟨kind, name, idx⟩, rhs⟩ := eq
  cases idx <;> simp only [Equation.map, tAtom, assignCode, assign, Idx.pos, tidx_eval] <;> rw [← hv]

/-- Hence equation and code denote the same. -/
theorem equation_denotes_code (ops : Ops F) (loc : String → Int) (ts : List (Tok SAtom)) (eq : Equation SAtom)
    (h : parseStmt ts = some eq) (s : Store F) (t : Int) :
    ∃ neq ceq, parseStmt (eqForm ts) = some neq ∧ parseStmt (codeForm ts) = some ceq ∧
      assignCode (scriptOps ops) loc neq.lhs neq.rhs s t = assignCode ops loc ceq.lhs ceq.rhs s t := by
  obtain ⟨ceq, hc, _, hc2⟩ := code_denotes_script ops loc ts eq h s t
  obtain ⟨neq, hn, _, hn2⟩ := equation_denotes_script ops loc ts eq h s t
  exact ⟨neq, ceq, hn, hc, hn2.trans hc2.symm⟩

/-! ### Function names -/

/-- A name that is not (as a whole) a key of the table is left untouched; a key is mapped to the first value
    stored under it. -/
theorem replacement_exact (name : String) :
    ((∀ p ∈ Fsic.Generated.replacementNames, p.1 ≠ name) → replaceFn name = name) ∧
    (∀ v, Fsic.Generated.replacementNames.lookup name = some v → replaceFn name = v) := by
  constructor
  · intro h
    unfold replaceFn
    have : ∀ (l : List (String × String)), (∀ p ∈ l, p.1 ≠ name) → l.lookup name = none := by
      intro l
      induction l with
      | nil => intro _; rfl
      | cons p l ih =>
        intro hl
        obtain ⟨k, v⟩ := p
        have hk : k ≠ name := hl (k, v) (List.mem_cons_self ..)
        have : (name == k) = false := by simpa using fun h' => hk h'.symm
        simp only [List.lookup, this]
        exact ih fun q hq => hl q (List.mem_cons_of_mem _ hq)
    rw [this _ h]; rfl
  · intro v hv
    simp [replaceFn, hv]

/-- Over the table read from /repo on this run: `exp`, `log`, `max`, `min` go to their numeric implementations. -/
theorem replacement_table :
    replaceFn "exp" = "np.exp" ∧ replaceFn "log" = "np.log" ∧ replaceFn "max" = "max" ∧ replaceFn "min" = "min" := by
  decide

/-- … and names that merely contain / extend / are namespaced versions of a key are untouched. -/
theorem replacement_untouched :
    replaceFn "np.exp" = "np.exp" ∧ replaceFn "np.log" = "np.log" ∧ replaceFn "explode" = "explode" ∧
    replaceFn "log10" = "log10" ∧ replaceFn "np.log10" = "np.log10" ∧ replaceFn "maximum" = "maximum" ∧
    replaceFn "np.maximum" = "np.maximum" ∧ replaceFn "abs" = "abs" ∧ replaceFn "np.sqrt" = "np.sqrt" ∧
    replaceFn "xexp" = "xexp" ∧ replaceFn "np.min" = "np.min" ∧ replaceFn "minimum" = "minimum" := by
  decide

/-- `Term.code` also sends KEYWORDS through the table; no Python keyword is a key, so keywords are untouched
    (the model's `Tok.map` leaves them in place). -/
theorem keywords_not_replaced : ∀ k ∈ Fsic.Generated.keywords, replaceFn k = k := by decide

/-- The code of a NON-function term never consults the replacement table: whatever rewriting `g` is applied to
    function names, a term is rewritten by `tAtom` alone, and what is printed for it is `self._<name>[…]` with the
    name as written — also when the series is NAMED `exp`, `log`, `max` or `min` (only a CALL is mapped). -/
theorem term_code_ignores_table (g g' : String → String) (a : SAtom) :
    (Tok.atom a : Tok SAtom).map tAtom g = (Tok.atom a : Tok SAtom).map tAtom g' ∧
    (Expr.atom a : Expr SAtom).map tAtom g = .atom (tAtom a) ∧
    ∀ (k : Kind) (name : String) (i : Int),
      Tok.lexemes TAtom.codeLexemes false ((Tok.atom ⟨k, name, .rel i⟩ : Tok SAtom).map tAtom g) =
        ["self", ".", "_" ++ name, "["] ++ (tidx i).lexemes ++ ["]"] :=
  ⟨rfl, by simp [Expr.map], fun _ _ _ => rfl⟩

/-- `Y = 2 * exp + log[-1] * exp({log})`: the series `exp`, `log` stay series, the call `exp(` is mapped. -/
example : codeLexemes [.atom ⟨.var, "Y", .rel 0⟩, .chunk "=", .chunk "2", .chunk "*", .atom ⟨.var, "exp", .rel 0⟩, .chunk "+",
      .atom ⟨.var, "log", .rel (-1)⟩, .chunk "*", .func "exp", .chunk "(", .atom ⟨.param, "log", .rel 0⟩, .chunk ")"] =
    ["self", ".", "_Y", "[", "t", "]", "=", "2", "*", "self", ".", "_exp", "[", "t", "]", "+",
     "self", ".", "_log", "[", "t", "-", "1", "]", "*", "np.exp", "(", "self", ".", "_log", "[", "t", "]", ")"] := by decide

/-! ### One evaluation pass -/

/-- Gauss-Seidel: the last equation runs on the store left by all earlier ones. -/
theorem evalPass_gauss_seidel (ops : Ops F) (loc : String → Int) (es : List (Equation SAtom)) (e : Equation SAtom)
    (s : Store F) (t : Int) :
    evalPass ops loc (es ++ [e]) s t = assign ops loc e (evalPass ops loc es s t) t := by
  simp [evalPass, List.foldl_append]

/-- More generally a pass over `es₁ ++ es₂` is the pass over `es₂` started from the result of `es₁`. -/
theorem evalPass_append (ops : Ops F) (loc : String → Int) (es₁ es₂ : List (Equation SAtom)) (s : Store F) (t : Int) :
    evalPass ops loc (es₁ ++ es₂) s t = evalPass ops loc es₂ (evalPass ops loc es₁ s t) t := by
  simp [evalPass, List.foldl_append]

/-- The assignment stores, in the LHS series at exactly the lag/lead written, the value of the RHS on the
    current store. -/
theorem assign_writes_lhs (ops : Ops F) (loc : String → Int) (e : Equation SAtom) (s : Store F) (t : Int) :
    assign ops loc e s t e.lhs.name (e.lhs.idx.pos t loc) = denote (scriptOps ops) (readSpec s t loc) e.rhs :=
  update_same _ _ _ _

/-- The pass writes nothing except the left-hand-side elements: every other cell of every series is unchanged. -/
theorem evalPass_frame (ops : Ops F) (loc : String → Int) (es : List (Equation SAtom)) (s : Store F) (t : Int)
    (x : String) (i : Int) (h : ∀ e ∈ es, ¬ (x = e.lhs.name ∧ i = e.lhs.idx.pos t loc)) :
    evalPass ops loc es s t x i = s x i :=
  evalPass_frame' ops loc t x i es s h

/-- The value of an expression is what the instrumented evaluation returns, and every atom it reads is a term
    of the expression. -/
theorem reads_are_terms (ops : Ops F) (ρ : α → F) (e : Expr α) :
    (denoteR ops ρ e).1 = denote ops ρ e ∧ ∀ a ∈ reads ops ρ e, a ∈ e.terms :=
  ⟨denoteR_fst ops ρ e, reads_subset_terms ops ρ e⟩

/-- Pass level: the instrumented pass computes the pass; it writes exactly the LHS cells, in order; every cell
    it reads is `(x, t + k)` for a term `x[k]` of one of the equations (named period: its position). -/
theorem pass_reads_writes (ops : Ops F) (loc : String → Int) (es : List (Equation SAtom)) (s : Store F) (t : Int) :
    (evalPassR ops loc t es s).1 = evalPass ops loc es s t ∧
    (evalPassR ops loc t es s).2.2 = es.map (fun e => (e.lhs.name, e.lhs.idx.pos t loc)) ∧
    ∀ c ∈ (evalPassR ops loc t es s).2.1, ∃ e ∈ es, ∃ a ∈ e.rhs.terms, c = (a.name, a.idx.pos t loc) :=
  ⟨evalPassR_fst ops loc t es s, evalPassR_writes ops loc t es s, evalPassR_reads ops loc t es s⟩

/-- A relative index addresses `t + k`: no other position of the series. -/
theorem rel_pos (t k : Int) (loc : String → Int) : (Idx.rel k).pos t loc = t + k := rfl

/-! Non-vacuity of the pass theorems: `Y = X[-1] + Y`, `Z = Y * 2` over the integers. -/
private def exOps : Ops Int :=
  { lit := fun s => if s = "2" then 2 else 0, verb := fun _ => 0, neg := fun x => -x, not := fun x => if x = 0 then 1 else 0,
    bin := fun op x y => match op with | .add => x + y | .sub => x - y | .mul => x * y | _ => 0,
    truthy := fun x => x ≠ 0, call := fun _ _ => 0 }
private def exEqs : List (Equation SAtom) :=
  [⟨⟨.var, "Y", .rel 0⟩, .bin .add (.atom ⟨.var, "X", .rel (-1)⟩) (.atom ⟨.var, "Y", .rel 0⟩)⟩,
   ⟨⟨.var, "Z", .rel 0⟩, .bin .mul (.atom ⟨.var, "Y", .rel 0⟩) (.num "2")⟩]
private def exStore : Store Int := fun x i => if x = "X" then 10 * i else if x = "Y" then 1 else 0

example : evalPass exOps (fun _ => 0) exEqs exStore 3 "Y" 3 = 21 ∧ evalPass exOps (fun _ => 0) exEqs exStore 3 "Z" 3 = 42 ∧
    evalPass exOps (fun _ => 0) exEqs exStore 3 "Y" 2 = 1 := by decide
example : (evalPassR exOps (fun _ => 0) 3 exEqs exStore).2 = ([("X", 2), ("Y", 3), ("Y", 3)], [("Y", 3), ("Z", 3)]) := by
  decide

/-! ### Symbol-list order of the statements of `_evaluate` -/

/-- For a program whose statements parse and define distinct variables, the statements of `_evaluate` are exactly
    the script's statements … -/
theorem evaluate_order_members (stmts : List (List (Tok SAtom)))
    (hwf : ∀ ts ∈ stmts, ∃ eq, parseStmt ts = some eq)
    (hdistinct : ∀ ts ∈ stmts, ∀ ts' ∈ stmts, lhsName ts = lhsName ts' → ts = ts')
    (ts : List (Tok SAtom)) : ts ∈ orderStmts stmts ↔ ts ∈ stmts :=
  mem_orderStmts stmts hwf hdistinct ts

/-- … arranged by first appearance of their left-hand-side names anywhere in the script (NOT statement order):
    the LHS names of `orderStmts` form a sublist of the symbol list. -/
theorem evaluate_order_sorted (stmts : List (List (Tok SAtom))) :
    List.Sublist ((orderStmts stmts).filterMap lhsName) (symbolOrder stmts) :=
  orderStmts_sorted stmts

private def exOrder : List (List (Tok SAtom)) :=
  [[.atom ⟨.var, "A", .rel 0⟩, .chunk "=", .atom ⟨.var, "B", .rel 0⟩, .chunk "+", .atom ⟨.var, "C", .rel 0⟩],
   [.atom ⟨.var, "C", .rel 0⟩, .chunk "=", .atom ⟨.var, "A", .rel 0⟩, .chunk "*", .chunk "2"],
   [.atom ⟨.var, "B", .rel 0⟩, .chunk "=", .atom ⟨.var, "C", .rel (-1)⟩]]

/-- Non-vacuity: `A = B + C; C = A * 2; B = C[-1]` runs as A, B, C. -/
example : symbolOrder exOrder = ["A", "B", "C"] ∧ (orderStmts exOrder).filterMap lhsName = ["A", "B", "C"] := by decide

/-! ### Non-vacuity (review): every hypothesis-carrying theorem instantiated at a concrete non-trivial instance -/

/-- `index_injective`: its hypothesis holds at `k = k' = -12`, and it separates `t-12` from `t+12`. -/
example : ((-12 : Int) = -12) ∧ tidx (-12) ≠ tidx 12 :=
  ⟨index_injective (k := -12) (k' := -12) rfl, fun h => absurd (index_injective h) (by decide)⟩

/-- `code_denotes_script` / `equation_denotes_script` / `equation_denotes_code` on `exTs` (18 tokens, a replaced
    call, a namespaced call, a two-digit lag, a lead and a conditional), every operator interpretation/store. -/
example (ops : Ops F) (loc : String → Int) (s : Store F) (t : Int) :
    (∃ ceq, parseStmt (codeForm exTs) = some ceq ∧
      denote ops (readCode s t loc) ceq.rhs =
        denote (scriptOps ops) (readSpec s t loc) ((parseStmt exTs).get (by decide)).rhs ∧
      assignCode ops loc ceq.lhs ceq.rhs s t = assign ops loc ((parseStmt exTs).get (by decide)) s t) ∧
    (∃ neq, parseStmt (eqForm exTs) = some neq ∧
      denote (scriptOps ops) (readCode s t loc) neq.rhs =
        denote (scriptOps ops) (readSpec s t loc) ((parseStmt exTs).get (by decide)).rhs ∧
      assignCode (scriptOps ops) loc neq.lhs neq.rhs s t = assign ops loc ((parseStmt exTs).get (by decide)) s t) ∧
    (∃ neq ceq, parseStmt (eqForm exTs) = some neq ∧ parseStmt (codeForm exTs) = some ceq ∧
      assignCode (scriptOps ops) loc neq.lhs neq.rhs s t = assignCode ops loc ceq.lhs ceq.rhs s t) :=
  have h : parseStmt exTs = some ((parseStmt exTs).get (by decide)) := (Option.some_get _).symm
  ⟨code_denotes_script ops loc exTs _ h s t, equation_denotes_script ops loc exTs _ h s t,
   equation_denotes_code ops loc exTs _ h s t⟩

/-- `replacement_exact`: both inner hypotheses are satisfiable (`abs` is no key; `exp` is a key). -/
example : replaceFn "abs" = "abs" ∧ replaceFn "exp" = "np.exp" :=
  ⟨(replacement_exact "abs").1 (by decide), (replacement_exact "exp").2 "np.exp" (by decide)⟩

/-- `evalPass_frame` on the two-equation pass `exEqs` at `t = 3`: `Y[2]` and `X[3]` are no LHS cell. -/
example : evalPass exOps (fun _ => 0) exEqs exStore 3 "Y" 2 = exStore "Y" 2 ∧
    evalPass exOps (fun _ => 0) exEqs exStore 3 "X" 3 = exStore "X" 3 :=
  ⟨evalPass_frame exOps _ exEqs exStore 3 "Y" 2 (by decide), evalPass_frame exOps _ exEqs exStore 3 "X" 3 (by decide)⟩

/-- `evaluate_order_members` on the three-statement program `exOrder` (statement order A, C, B). -/
example : ∀ ts, ts ∈ orderStmts exOrder ↔ ts ∈ exOrder :=
  evaluate_order_members exOrder
    (fun ts h => Option.isSome_iff_exists.mp ((by decide : ∀ ts ∈ exOrder, (parseStmt ts).isSome = true) ts h))
    (by decide)

end Fsic.C01
