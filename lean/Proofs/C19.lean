import Proofs.Lemmas.Tools
/-
C19 — Tabular export and import are faithful round trips.

Property theorems only (helpers in `Proofs/Lemmas/Tools.lean`).  Statements are for every store (any number of
variables, any span, any cell type), every flag combination, every linker, every symbol list.

What is NOT in these theorems: pandas.  A DataFrame is the (index, ordered columns, cells) triple the code hands to
pandas; what pandas does to cells enters as the parameter `Coercion`, instantiated from the reflected table
`Fsic.Generated.pandasCoercion` (`installed`).  dtype preservation is observed on the real DataFrame by the harness.

Visible in this file (the model follows the code):
* `symbols_roundtrip` holds at full strength for the code's decoder under the installed pandas: every symbol list
  comes back as it went in.  (Before fsic commit 56f842e it was false: a missing `name` / `equation` / `code` came
  back as NaN and a list whose `lags` / `leads` were all missing made the decoder raise; the two former failing
  witnesses are now `example`s of the theorem.)  `symbols_roundtrip_iff_decoderOk` characterises the decoders for
  which it holds, for any coercion.
* `linker_tables` needs the guard "the linker's name is not a submodel key": `linker_tables_false_at_witness`
  (a dict cannot hold two tables under one key, so this is a limit of the interface rather than a defect of the
  code; the oracle does not report it, the correspondence check still compares it).
-/
set_option linter.unusedSimpArgs false
set_option linter.unusedVariables false
namespace Fsic.C19
open Fsic Fsic.Tools

variable {L α : Type}

/-- The guard under which the export has one column per variable: variable names are distinct and none is called
    `status` / `iterations`.  (`ModelInterface.__init__` and `add_variable` raise `DuplicateNameError` otherwise, so
    every live instance satisfies it; the harness checks that.) -/
structure NamesOk (names : List String) : Prop where
  nodup : names.Nodup
  noStatus : "status" ∉ names
  noIterations : "iterations" ∉ names

/-! ## to_dataframe / model_to_dataframe -/

/-- Explicit form of the exported table: the requested variables in model order, each with exactly its series,
    then `status`, then `iterations`, when requested. -/
theorem modelTable_cols (m : Store L α) (s i incl : Bool) (h : NamesOk m.names) :
    (modelTable m s i incl).cols =
      (exportNames m.names incl).map (fun k => (k, m.data k)) ++
        (if s then [("status", m.data "status")] else []) ++
        (if i then [("iterations", m.data "iterations")] else []) := by
  have hnd := exportNames_nodup m.names incl h.nodup
  have h0 : dictOf m.data (exportNames m.names incl) [] = (exportNames m.names incl).map (fun k => (k, m.data k)) := by
    rw [dictOf_fresh m.data _ [] hnd (by simp)]; simp
  have hs : "status" ∉ exportNames m.names incl := fun x => h.noStatus (exportNames_sub _ _ _ x)
  have hi : "iterations" ∉ exportNames m.names incl := fun x => h.noIterations (exportNames_sub _ _ _ x)
  unfold modelTable
  simp only [h0]
  cases s <;> cases i <;> simp only [addCol, if_true, if_false, Bool.false_eq_true, List.append_nil]
  · rw [dictSet_fresh]; simp [keys_map_pair, hi]
  · rw [dictSet_fresh]; simp [keys_map_pair, hs]
  · rw [dictSet_fresh _ "status", dictSet_fresh]
    · simp [keys_map_pair, hi]
    · simp [keys_map_pair, hs]

/-- **dataframe_columns.**  The column labels are the model-order names (underscore-prefixed ones only when
    requested) followed by `status` and `iterations` when requested. -/
theorem dataframe_columns (m : Store L α) (s i incl : Bool) (h : NamesOk m.names) :
    (modelTable m s i incl).cols.map Prod.fst = modelColumns m.names incl s i := by
  rw [modelTable_cols m s i incl h]
  unfold modelColumns
  cases s <;> cases i <;> simp [List.map_append, Function.comp_def]

example : (modelTable (L := Nat) (α := Nat) ⟨[0, 1], ["status", "iterations", "Y", "_h", "C"], ["Y", "_h", "C"],
      fun k => if k = "Y" then [1, 2] else if k = "C" then [3, 4] else [9, 9]⟩ true true false).cols.map Prod.fst
    = ["Y", "C", "status", "iterations"] := by decide

/-- No label occurs twice. -/
theorem dataframe_columns_nodup (m : Store L α) (s i incl : Bool) (h : NamesOk m.names) :
    ((modelTable m s i incl).cols.map Prod.fst).Nodup := by
  rw [dataframe_columns m s i incl h]
  have hnd := exportNames_nodup m.names incl h.nodup
  have hs : "status" ∉ exportNames m.names incl := fun x => h.noStatus (exportNames_sub _ _ _ x)
  have hi : "iterations" ∉ exportNames m.names incl := fun x => h.noIterations (exportNames_sub _ _ _ x)
  unfold modelColumns
  cases s <;> cases i <;> simp [List.nodup_append, hnd, hs, hi]
  · intro a ha; exact fun e => hi (e ▸ ha)
  · intro a ha; exact fun e => hs (e ▸ ha)
  · intro a ha; exact ⟨fun e => hs (e ▸ ha), fun e => hi (e ▸ ha)⟩

/-- Without the guard the statement fails: a variable that is itself called `status` is overwritten by
    `df['status'] = model.status` (one column fewer than promised, holding the solution status). -/
theorem dataframe_columns_needs_guard :
    ∃ m : Store Nat Nat, (modelTable m true false false).cols.map Prod.fst ≠ modelColumns m.names false true false :=
  ⟨⟨[0], [], ["status", "Y"], fun _ => [0]⟩, by decide⟩

/-- One row per period: the index is the span and every column has one cell per period. -/
theorem dataframe_rows (m : Store L α) (s i incl : Bool) (h : NamesOk m.names)
    (hlen : ∀ k, k ∈ m.names ∨ k = "status" ∨ k = "iterations" → (m.data k).length = m.span.length) :
    (modelTable m s i incl).index = m.span ∧
    ∀ c ∈ (modelTable m s i incl).cols, c.2.length = (modelTable m s i incl).index.length := by
  refine ⟨rfl, ?_⟩
  intro c hc
  rw [modelTable_cols m s i incl h] at hc
  show c.2.length = m.span.length
  simp only [List.mem_append, List.mem_map] at hc
  rcases hc with (⟨k, hk, rfl⟩ | hc) | hc
  · exact hlen k (Or.inl (exportNames_sub _ _ _ hk))
  · cases s <;> simp at hc
    subst hc; exact hlen _ (Or.inr (Or.inl rfl))
  · cases i <;> simp at hc
    subst hc; exact hlen _ (Or.inr (Or.inr rfl))

/-- Each variable column holds exactly that variable's series (so cell (period p, variable k) is `model[k][p]`). -/
theorem dataframe_cells (m : Store L α) (s i incl : Bool) (h : NamesOk m.names) (k : String)
    (hk : k ∈ exportNames m.names incl) :
    dictGet (modelTable m s i incl).cols k = some (m.data k) := by
  rw [modelTable_cols m s i incl h]
  simp [dictGet_append, dictGet_map_mem m.data _ k hk]

/-- `status` is present iff requested, and then it is the model's status series; same for `iterations`. -/
theorem dataframe_status (m : Store L α) (s i incl : Bool) (h : NamesOk m.names) :
    dictGet (modelTable m s i incl).cols "status" = (if s then some (m.data "status") else none) ∧
    dictGet (modelTable m s i incl).cols "iterations" = (if i then some (m.data "iterations") else none) := by
  have hs : "status" ∉ exportNames m.names incl := fun x => h.noStatus (exportNames_sub _ _ _ x)
  have hi : "iterations" ∉ exportNames m.names incl := fun x => h.noIterations (exportNames_sub _ _ _ x)
  have e1 := dictGet_not_mem ((exportNames m.names incl).map (fun k => (k, m.data k))) "status"
    (by rw [keys_map_pair]; exact hs)
  have e2 := dictGet_not_mem ((exportNames m.names incl).map (fun k => (k, m.data k))) "iterations"
    (by rw [keys_map_pair]; exact hi)
  rw [modelTable_cols m s i incl h]
  constructor
  · cases s <;> cases i <;> simp [dictGet_append, e1, dictGet]
  · cases s <;> cases i <;> simp [dictGet_append, e2, dictGet]

/-- A variable is exported iff it is not underscore-prefixed or internals were requested. -/
theorem dataframe_internal_iff (m : Store L α) (s i incl : Bool) (h : NamesOk m.names) (k : String)
    (hk : k ∈ m.names) :
    k ∈ (modelTable m s i incl).cols.map Prod.fst ↔ (incl = true ∨ isInternal k = false) := by
  rw [dataframe_columns m s i incl h]
  have hs : k ≠ "status" := fun e => h.noStatus (e ▸ hk)
  have hi : k ≠ "iterations" := fun e => h.noIterations (e ▸ hk)
  unfold modelColumns
  cases s <;> cases i <;> simp [mem_exportNames, hk, hs, hi]

example : isInternal "_h" = true ∧ isInternal "h_" = false ∧ isInternal "" = false := by decide

/-- `VectorContainer.to_dataframe`: one column per series of the container, in `index` order. -/
theorem container_columns (m : Store L α) (h : m.index.Nodup) :
    (containerTable m).index = m.span ∧ (containerTable m).cols = m.index.map (fun k => (k, m.data k)) := by
  refine ⟨rfl, ?_⟩
  unfold containerTable
  simp only
  rw [dictOf_fresh m.data _ [] h (by simp)]; simp

/-- Dropping `status` / `iterations` from any export gives the export without them. -/
theorem dataColumns_modelTable (m : Store L α) (s i incl : Bool) (h : NamesOk m.names) :
    (dataColumns (modelTable m s i incl)).cols = (modelTable m false false incl).cols := by
  have hs : "status" ∉ exportNames m.names incl := fun x => h.noStatus (exportNames_sub _ _ _ x)
  have hi : "iterations" ∉ exportNames m.names incl := fun x => h.noIterations (exportNames_sub _ _ _ x)
  unfold dataColumns
  simp only
  rw [modelTable_cols m s i incl h, modelTable_cols m false false incl h]
  have hf : ((exportNames m.names incl).map (fun k => (k, m.data k))).filter
      (fun c => !(c.1 == "status" || c.1 == "iterations")) = (exportNames m.names incl).map (fun k => (k, m.data k)) := by
    rw [List.filter_eq_self]
    intro c hc
    simp only [List.mem_map] at hc
    obtain ⟨k, hk, rfl⟩ := hc
    have h1 : k ≠ "status" := fun e => hs (e ▸ hk)
    have h2 : k ≠ "iterations" := fun e => hi (e ▸ hk)
    simp [h1, h2]
  cases s <;> cases i <;> simp [List.filter_append, hf] <;>
    (intro a ha; exact ⟨fun e => hs (e ▸ ha), fun e => hi (e ▸ ha)⟩)

/-! ## Name-dependent access: the exported column of a variable is read from ITS storage key

`modelTable` / `containerTable` look cells up by NAME (`m.data k` = `model[k]`), never by storage key, and every
theorem above is stated for opaque names: a model whose variables are called `Y`, `_Y`, `size` is covered like any
other (see the `example`s).  What the by-name store hides is WHERE `model[k]` reads: `__dict__['_' + k]`.  The
theorems below tie the exported column to that entry of the instance `__dict__` and to no other, for every name. -/

/-- `'_' + a = '_' + b` only for `a = b`: two variables never share a storage key. -/
theorem storageKey_injective (a b : String) (h : storageKey a = storageKey b) : a = b := by
  unfold storageKey at h
  exact (String.append_right_inj "_").mp h

/-- A storage key is never the name it stores (so `Y`'s entry `_Y` is not `_Y`'s entry `__Y`). -/
theorem storageKey_ne_self (a : String) : storageKey a ≠ a := by
  intro h
  have := congrArg String.length h
  simp [storageKey, String.length_append] at this

theorem getItem_of_mem (o : Obj L α) (k : String) (hk : k ∈ o.index) :
    getItem o k = dictGet o.dict (storageKey k) := by
  simp [getItem, hk]

/-- **export_reads_own_series.**  For every instance (any `__dict__`, any names — also when one variable's name is the
    storage key of another, `_Y` next to `Y`, or the name of a class member) and every exported variable `k`: the
    column labelled `k` is the `__dict__` entry under `storageKey k`; and if the entries of `__dict__` hold pairwise
    different series (`hdist`), it is the entry of NO other key — in particular not the entry under `k` itself and
    not the series of any other variable `k'`. -/
theorem export_reads_own_series (o : Obj L α) (s i incl : Bool) (h : NamesOk o.names)
    (hsub : ∀ k ∈ o.names, k ∈ o.index) (k : String) (hk : k ∈ exportNames o.names incl) :
    dictGet (modelTable o.toStore s i incl).cols k = some ((dictGet o.dict (storageKey k)).getD []) ∧
    (∀ v, dictGet o.dict (storageKey k) = some v →
      (∀ a b va vb, dictGet o.dict a = some va → dictGet o.dict b = some vb → va = vb → a = b) →
      ∀ key v', dictGet o.dict key = some v' → dictGet (modelTable o.toStore s i incl).cols k = some v' →
        key = storageKey k ∧ key ≠ k ∧ ∀ k', k' ≠ k → key ≠ storageKey k') := by
  have hki : k ∈ o.index := hsub k (exportNames_sub _ _ _ hk)
  have hcell : dictGet (modelTable o.toStore s i incl).cols k = some ((dictGet o.dict (storageKey k)).getD []) := by
    have := dataframe_cells o.toStore s i incl h k hk
    rw [this]
    simp [Obj.toStore, getItem_of_mem o k hki]
  refine ⟨hcell, ?_⟩
  intro v hv hdist key v' hkey hcol
  rw [hcell, hv] at hcol
  simp only [Option.getD_some, Option.some.injEq] at hcol
  have e : key = storageKey k := hdist key (storageKey k) v' v hkey hv hcol.symm
  refine ⟨e, ?_, ?_⟩
  · rw [e]; exact storageKey_ne_self k
  · intro k' hne e'
    exact hne (storageKey_injective k' k (e'.symm.trans e))

/-- Non-vacuity: underscore twins and a member-like name in one model, distinct series.  `__dict__` holds `Y` under
    `_Y`, `_Y` under `__Y`, `size` under `_size`; every column holds its own series, with and without internals. -/
def twinObj : Obj Nat Nat :=
  ⟨[0, 1], ["status", "iterations", "Y", "_Y", "size"], ["Y", "_Y", "size"],
   [("_status", [0, 0]), ("_iterations", [9, 9]), ("_Y", [1, 2]), ("__Y", [3, 4]), ("_size", [5, 6])]⟩

example : (modelTable twinObj.toStore false false true).cols = [("Y", [1, 2]), ("_Y", [3, 4]), ("size", [5, 6])] := by
  decide
example : (modelTable twinObj.toStore true false false).cols = [("Y", [1, 2]), ("size", [5, 6]), ("status", [0, 0])] := by
  decide
example : NamesOk twinObj.names ∧ (∀ k ∈ twinObj.names, k ∈ twinObj.index) ∧
    "_Y" ∈ exportNames twinObj.names true ∧ dictGet twinObj.dict (storageKey "_Y") = some [3, 4] := by
  refine ⟨⟨by decide, by decide, by decide⟩, by decide, by decide, by decide⟩
/-- `dataframe_cells` itself on a by-name store whose names contain underscore twins and a member-like name. -/
example : dictGet (modelTable (L := Nat) (α := Nat) ⟨[0, 1], ["status", "iterations", "Y", "_Y", "size"], ["Y", "_Y", "size"],
      fun k => if k = "Y" then [1, 2] else if k = "_Y" then [3, 4] else if k = "size" then [5, 6] else [0, 0]⟩
      false false true).cols "_Y" = some [3, 4] := by decide

/-- Python's own attribute lookup (`getattr(self, key)`, `attrLookup`) is NOT `obj[key]`: on the name `_Y` it returns
    the series of `Y` (the instance `__dict__` entry `_Y` is found before `__getattr__` is asked) — so an export that
    read through it would put `Y`'s series in the column `_Y`.  The two agree on every name that is not itself a key
    of `__dict__` (`attrLookup_eq_getItem`). -/
theorem attrLookup_differs_at_twin :
    attrLookup twinObj "_Y" = some [1, 2] ∧ getItem twinObj "_Y" = some [3, 4] ∧
    attrLookup twinObj "Y" = getItem twinObj "Y" := by decide

theorem attrLookup_eq_getItem (o : Obj L α) (k : String) (h : dictGet o.dict k = none) :
    attrLookup o k = getItem o k := by
  simp [attrLookup, h]

/-- `VectorContainer.to_dataframe`: the same for every series of the container (`status` / `iterations` of a model
    included: they are stored under `_status` / `_iterations`). -/
theorem container_reads_own_series (o : Obj L α) (h : o.index.Nodup) (k : String) (hk : k ∈ o.index) :
    dictGet (containerTable o.toStore).cols k = some ((dictGet o.dict (storageKey k)).getD []) := by
  rw [(container_columns o.toStore h).2]
  have : k ∈ o.toStore.index := hk
  rw [dictGet_map_mem o.toStore.data _ k this]
  simp [Obj.toStore, getItem_of_mem o k hk]

example : (containerTable twinObj.toStore).cols =
    [("status", [0, 0]), ("iterations", [9, 9]), ("Y", [1, 2]), ("_Y", [3, 4]), ("size", [5, 6])] := by decide

theorem nodup_map_storageKey (ks : List String) (h : ks.Nodup) : (ks.map storageKey).Nodup := by
  induction ks with
  | nil => simp
  | cons k ks ih =>
    rw [List.nodup_cons] at h
    simp only [List.map_cons, List.nodup_cons, List.mem_map, not_exists, not_and]
    exact ⟨fun x hx e => h.1 (storageKey_injective x k e ▸ hx), ih h.2⟩

theorem dictGet_map_storageKey {V : Type} (f : String → V) (ks : List String) (k : String) (hk : k ∈ ks) :
    dictGet (ks.map fun k => (storageKey k, f k)) (storageKey k) = some (f k) := by
  induction ks with
  | nil => simp at hk
  | cons k0 ks ih =>
    by_cases e : k0 = k
    · simp [dictGet, e]
    · have hne : ¬ storageKey k0 = storageKey k := fun x => e (storageKey_injective _ _ x)
      have : k ∈ ks := by
        simp only [List.mem_cons] at hk
        rcases hk with hk | hk
        · exact absurd hk.symm e
        · exact hk
      simp [dictGet, hne, ih this]

/-- The `__dict__` a constructor builds (`Store.toObj`: one `add_variable` per name of `index`) gives every name its
    own entry: `obj[k]` is the series that was passed for `k` — because `storageKey` is injective, distinct names
    never overwrite each other, whatever they look like. -/
theorem toObj_getItem (m : Store L α) (h : m.index.Nodup) (k : String) (hk : k ∈ m.index) :
    getItem m.toObj k = some (m.data k) := by
  have hnd : (keys (m.index.map fun k => (storageKey k, m.data k))).Nodup := by
    have : keys (m.index.map fun k => (storageKey k, m.data k)) = m.index.map storageKey := by
      simp [keys, Function.comp_def]
    rw [this]
    exact nodup_map_storageKey m.index h
  have hki : k ∈ m.toObj.index := hk
  rw [getItem_of_mem _ _ hki]
  show dictGet (dictFromPairs (m.index.map fun k => (storageKey k, m.data k)) []) (storageKey k) = some (m.data k)
  rw [dictFromPairs_fresh _ _ hnd (by simp)]
  simpa using dictGet_map_storageKey m.data m.index k hk

/-! ## linker export -/

variable {K : Type} [DecidableEq K]

/-- **linker_tables.**  One table per submodel plus one for the linker, the linker's first, each keyed by its own
    identifier and equal to that instance's own export — provided the linker's name is not a submodel key. -/
theorem linker_tables (name : K) (l : Store L α) (subs : List (K × Store L α)) (s i incl : Bool)
    (hnd : (keys subs).Nodup) (hname : name ∉ keys subs) :
    linkerTables name l subs s i incl =
      (name, modelTable l s i incl) :: subs.map (fun p => (p.1, modelTable p.2 s i incl)) ∧
    (linkerTables name l subs s i incl).length = subs.length + 1 := by
  have hk : keys (subs.map fun p => (p.1, modelTable p.2 s i incl)) = keys subs := by
    simp [keys, Function.comp_def]
  have : linkerTables name l subs s i incl =
      (name, modelTable l s i incl) :: subs.map (fun p => (p.1, modelTable p.2 s i incl)) := by
    unfold linkerTables
    rw [dictFromPairs_fresh _ _ (by rw [hk]; exact hnd)]
    · rfl
    · intro k hk' hmem
      rw [hk] at hk'
      simp only [keys_cons, keys_nil, List.mem_singleton] at hmem
      subst hmem; exact hname hk'
  exact ⟨this, by rw [this]; simp⟩

example : (linkerTables (L := Nat) (α := Nat) "_" ⟨[0], [], ["T"], fun _ => [5]⟩
      [("A", ⟨[0], [], ["Y"], fun _ => [1]⟩), ("B", ⟨[0], [], ["Z", "_w"], fun _ => [2]⟩)] true false false).map
      (fun p => (p.1, p.2.cols.map Prod.fst))
    = [("_", ["T", "status"]), ("A", ["Y", "status"]), ("B", ["Z", "status"])] := by decide

/-- Whatever the names, the first table is keyed by the linker's name, and looking a submodel up gives its export. -/
theorem linker_tables_lookup (name : K) (l : Store L α) (subs : List (K × Store L α)) (s i incl : Bool)
    (hnd : (keys subs).Nodup) (k : K) (m : Store L α) (hm : dictGet subs k = some m) :
    (linkerTables name l subs s i incl).head?.map Prod.fst = some name ∧
    dictGet (linkerTables name l subs s i incl) k = some (modelTable m s i incl) := by
  have hk : keys (subs.map fun p => (p.1, modelTable p.2 s i incl)) = keys subs := by
    simp [keys, Function.comp_def]
  constructor
  · exact head_dictFromPairs _ _ _
  · unfold linkerTables
    rw [dictGet_dictFromPairs _ _ _ (by rw [hk]; exact hnd)]
    have : dictGet (subs.map fun p => (p.1, modelTable p.2 s i incl)) k = some (modelTable m s i incl) := by
      clear hnd hk
      induction subs with
      | nil => simp [dictGet] at hm
      | cons p subs ih =>
        obtain ⟨k0, m0⟩ := p
        by_cases e : k0 = k
        · simp [dictGet, e] at hm ⊢; rw [hm]
        · simp [dictGet, e] at hm ⊢; exact ih hm
    rw [this]

/-- The guard of `linker_tables` is necessary (negation of the unguarded statement at a witness): a submodel keyed
    like the linker replaces the linker's own table — two tables for two submodels plus a linker, and the one under the linker's name is the
    submodel's. -/
theorem linker_tables_false_at_witness :
    ∃ (name : String) (l : Store Nat Nat) (subs : List (String × Store Nat Nat)),
      (keys subs).Nodup ∧ (linkerTables name l subs true true false).length ≠ subs.length + 1 ∧
      dictGet (linkerTables name l subs true true false) name ≠ some (modelTable l true true false) :=
  ⟨"A", ⟨[0], [], ["T"], fun _ => [5]⟩, [("A", ⟨[0], [], ["Y"], fun _ => [1]⟩), ("B", ⟨[0], [], ["Z"], fun _ => [2]⟩)],
   by decide, by decide, by decide⟩

/-- In general (distinct submodel keys): the number of tables is the number of submodels plus one exactly when the
    linker's name is not a submodel key, and the number of submodels otherwise. -/
theorem linker_tables_count (name : K) (l : Store L α) (subs : List (K × Store L α)) (s i incl : Bool)
    (hnd : (keys subs).Nodup) :
    (linkerTables name l subs s i incl).length = if name ∈ keys subs then subs.length else subs.length + 1 := by
  have hk : keys (subs.map fun p => (p.1, modelTable p.2 s i incl)) = keys subs := by
    simp [keys, Function.comp_def]
  unfold linkerTables
  rw [length_dictFromPairs _ _ (by rw [hk]; exact hnd), hk]
  simp only [keys_cons, keys_nil, List.mem_singleton, List.length_singleton]
  clear hk
  induction subs with
  | nil => simp
  | cons p subs ih =>
    obtain ⟨k0, m0⟩ := p
    simp only [keys_cons, List.nodup_cons] at hnd
    have ih' := ih hnd.2
    by_cases e : k0 = name
    · subst e
      have hno : k0 ∉ keys subs := hnd.1
      simp [hno] at ih'
      simp [List.filter_cons, ih']
    · have e' : ¬ name = k0 := fun x => e x.symm
      by_cases hin : name ∈ keys subs
      · simp [hin] at ih'
        simp [List.filter_cons, e, e', hin]
        omega
      · simp [hin] at ih'
        simp [List.filter_cons, e, e', hin]
        omega

/-! ## from_dataframe -/

/-- The guard of the import round trip: no variable is called like a positional parameter of `__init__` (`self`,
    `span`; reflected from the signature).  `span` can never be a variable (the constructor raises), `self` CAN
    (`from_dataframe_false_at_witness`). -/
def CtorNamesOk (names : List String) : Prop := ∀ k ∈ names, Fsic.Generated.modelCtorPositional.contains k = false

instance (names : List String) : Decidable (CtorNamesOk names) := by unfold CtorNamesOk; infer_instance

theorem no_kwargsClash (m : Store L α) (s i incl : Bool) (h : NamesOk m.names) (hkw : CtorNamesOk m.names) :
    kwargsClash (modelTable m s i incl).cols = false := by
  have hcols := dataframe_columns m s i incl h
  unfold kwargsClash
  rw [Bool.eq_false_iff]
  intro hany
  rw [List.any_eq_true] at hany
  obtain ⟨c, hc, hbad⟩ := hany
  have hmem : c.1 ∈ modelColumns m.names incl s i := by
    rw [← hcols]; exact List.mem_map_of_mem hc
  unfold modelColumns at hmem
  simp only [List.mem_append] at hmem
  rcases hmem with (hmem | hmem) | hmem
  · have := hkw c.1 (exportNames_sub _ _ _ hmem)
    rw [this] at hbad; exact Bool.noConfusion hbad
  · cases s <;> simp at hmem
    rw [hmem] at hbad; revert hbad; decide
  · cases i <;> simp at hmem
    rw [hmem] at hbad; revert hbad; decide

/-- The full statement ("from the data columns of ANY model") is false: a model with a variable called `self` (the
    parser accepts `self = X`) exports a column `self`, and `cls(index, **{'self': …})` raises TypeError — the
    guard `CtorNamesOk` of `from_dataframe_roundtrip` excludes exactly these names.
    Known finding `from-dataframe-self-column-typeerror`. -/
theorem from_dataframe_false_at_witness :
    ∃ (m : Store Nat Nat), NamesOk m.names ∧
      fromTable (fun x => x) ⟨0, 7, 8⟩ m.names (modelTable m false false true) = none :=
  ⟨⟨[0, 1], ["status", "iterations", "self", "X"], ["self", "X"], fun k => if k = "X" then [1, 2] else [3, 4]⟩,
   ⟨by decide, by decide, by decide⟩, by decide⟩

/-- The keyword-only parameter `default_value` is really one (reflected signature), and a column with that label
    fills the variables that have no column: here `_h` (not exported) receives the `default_value` column, `Y` and
    `default_value` their own. -/
example : Fsic.Generated.modelCtorKeywordOnly.contains defaultValueParam = true := by decide
example : ((fromTable (L := Nat) (fun x : Nat => x) ⟨0, 7, 8⟩ ["Y", "default_value", "_h"]
      (modelTable ⟨[3, 4], [], ["Y", "default_value", "_h"],
        fun k => if k = "Y" then [1, 2] else if k = "_h" then [9, 9] else [5, 6]⟩ false false false)).map
      (fun m' => (m'.data "Y", m'.data "default_value", m'.data "_h"))) = some ([1, 2], [5, 6], [5, 6]) := by decide


/-- **from_dataframe_roundtrip.**  Build a model of a class with variables `NAMES` from the export of `m` (any
    flags: `status` / `iterations` columns are ignored by the constructor, so this covers "from the data columns"
    = `dataColumns`, see `dataColumns_modelTable`).  The constructor succeeds, the span is `m`'s span, the names are
    `NAMES`, and every exported variable of the class holds the cast of the original series. -/
theorem from_dataframe_roundtrip (m : Store L α) (cast : α → α) (dflt : Defaults α) (NAMES : List String)
    (s i incl : Bool) (h : NamesOk m.names) (hN : NAMES.Nodup) (hsub : ∀ k ∈ NAMES, k ∈ m.names)
    (hkw : CtorNamesOk m.names) :
    ∃ m', fromTable cast dflt NAMES (modelTable m s i incl) = some m' ∧ m'.span = m.span ∧ m'.names = NAMES ∧
      (∀ k ∈ NAMES, k ∈ exportNames m.names incl → m'.data k = (m.data k).map cast) ∧
      m'.data "status" = List.replicate m.span.length dflt.status ∧
      m'.data "iterations" = List.replicate m.span.length dflt.iterations := by
  have hs : "status" ∉ NAMES := fun x => h.noStatus (hsub _ x)
  have hi : "iterations" ∉ NAMES := fun x => h.noIterations (hsub _ x)
  have hc : NAMES.Nodup ∧ "status" ∉ NAMES ∧ "iterations" ∉ NAMES ∧ kwargsClash (modelTable m s i incl).cols = false :=
    ⟨hN, hs, hi, no_kwargsClash m s i incl h hkw⟩
  unfold fromTable
  rw [if_pos hc]
  refine ⟨_, rfl, rfl, rfl, ?_, ?_, ?_⟩
  · intro k hk hex
    have h1 : k ≠ "status" := fun e => hs (e ▸ hk)
    have h2 : k ≠ "iterations" := fun e => hi (e ▸ hk)
    simp only [h1, h2, hk, if_false, if_true]
    have hnd := dataframe_columns_nodup m s i incl h
    have hget : dictGet (dictFromPairs (modelTable m s i incl).cols []) k = some (m.data k) := by
      rw [dictFromPairs_fresh _ _ hnd (by simp)]
      simpa using dataframe_cells m s i incl h k hex
    simp [initialSeries, hget]
  · simp [modelTable]
  · simp [modelTable]

/-- For a model whose cells the cast leaves alone (a float model read back as float): every value is reproduced. -/
theorem from_dataframe_roundtrip_id (m : Store L α) (cast : α → α) (dflt : Defaults α) (NAMES : List String)
    (s i incl : Bool) (h : NamesOk m.names) (hN : NAMES.Nodup) (hsub : ∀ k ∈ NAMES, k ∈ m.names)
    (hkw : CtorNamesOk m.names) (hcast : ∀ k ∈ NAMES, ∀ x ∈ m.data k, cast x = x) :
    ∃ m', fromTable cast dflt NAMES (modelTable m s i incl) = some m' ∧ m'.span = m.span ∧
      ∀ k ∈ NAMES, k ∈ exportNames m.names incl → m'.data k = m.data k := by
  obtain ⟨m', h1, h2, _, h4, _⟩ := from_dataframe_roundtrip m cast dflt NAMES s i incl h hN hsub hkw
  refine ⟨m', h1, h2, ?_⟩
  intro k hk hex
  rw [h4 k hk hex]
  exact map_eq_self cast (m.data k) (hcast k hk)

example : (fromTable (L := Nat) (fun x : Nat => x) ⟨0, 7, 8⟩ ["Y", "C"]
      (modelTable ⟨[3, 4], [], ["Y", "C", "_x"], fun k => if k = "Y" then [1, 2] else [5, 6]⟩ true true false)).map
      (fun m' => (m'.span, m'.data "Y", m'.data "C", m'.data "status")) = some ([3, 4], [1, 2], [5, 6], [7, 7]) := by
  decide

/-- **from_dataframe_reads_own_series.**  The import round trip down to `__dict__`: export any instance `o` (columns
    labelled by NAME), build the class from the table; in the new instance's `__dict__` the entry under
    `storageKey k` is the cast of the entry under `storageKey k` of the original — for every class variable that was
    exported, also when the columns are called `_Y`, `size`, … -/
theorem from_dataframe_reads_own_series (o : Obj L α) (cast : α → α) (dflt : Defaults α) (NAMES : List String)
    (s i incl : Bool) (h : NamesOk o.names) (hN : NAMES.Nodup) (hsub : ∀ k ∈ NAMES, k ∈ o.names)
    (hidx : ∀ k ∈ o.names, k ∈ o.index) (hkw : CtorNamesOk o.names) :
    ∃ m', fromTable cast dflt NAMES (modelTable o.toStore s i incl) = some m' ∧ m'.span = o.span ∧
      ∀ k ∈ NAMES, k ∈ exportNames o.names incl →
        dictGet m'.toObj.dict (storageKey k) = some (((dictGet o.dict (storageKey k)).getD []).map cast) := by
  have hs : "status" ∉ NAMES := fun x => h.noStatus (hsub _ x)
  have hi : "iterations" ∉ NAMES := fun x => h.noIterations (hsub _ x)
  obtain ⟨m', h1, h2, h3, h4, _⟩ := from_dataframe_roundtrip o.toStore cast dflt NAMES s i incl h hN hsub hkw
  refine ⟨m', h1, h2, ?_⟩
  intro k hk hex
  have hidx' : m'.index = "status" :: "iterations" :: NAMES := by
    have hc : NAMES.Nodup ∧ "status" ∉ NAMES ∧ "iterations" ∉ NAMES ∧
        kwargsClash (modelTable o.toStore s i incl).cols = false := ⟨hN, hs, hi, no_kwargsClash o.toStore s i incl h hkw⟩
    unfold fromTable at h1
    rw [if_pos hc] at h1
    cases h1
    rfl
  have hnd : m'.index.Nodup := by
    rw [hidx']
    simp [List.nodup_cons, hs, hi, hN]
  have hki : k ∈ m'.index := by rw [hidx']; simp [hk]
  have := toObj_getItem m' hnd k hki
  rw [getItem_of_mem _ _ (show k ∈ m'.toObj.index from hki)] at this
  rw [this, h4 k hk hex]
  have hko : k ∈ o.index := hidx k (hsub k hk)
  simp [Obj.toStore, getItem_of_mem o k hko]

example : ((fromTable (L := Nat) (fun x : Nat => x) ⟨0, 7, 8⟩ ["Y", "_Y", "size"]
      (modelTable twinObj.toStore false false true)).map (fun m' => m'.toObj.dict)) =
    some [("_status", [7, 7]), ("_iterations", [8, 8]), ("_Y", [1, 2]), ("__Y", [3, 4]), ("_size", [5, 6])] := by decide

/-! ## symbols_to_dataframe / dataframe_to_symbols -/

/-- The round trip returns the original list. -/
def RoundTrips (dec : Decoder) (c : Coercion) (ss : List Symbol) : Prop :=
  tableToSymbols dec (symbolsToTable c ss) = some (ss.map Symbol.toPy)

instance (dec : Decoder) (c : Coercion) (ss : List Symbol) : Decidable (RoundTrips dec c ss) := by
  unfold RoundTrips; infer_instance

/-- Every `type` is a value of the `Type` enum (true of everything the parser produces). -/
def ValidTypes (ss : List Symbol) : Prop := ∀ s ∈ ss, typeOk s.type = true

instance (ss : List Symbol) : Decidable (ValidTypes ss) := by
  unfold ValidTypes; infer_instance

/-- A decoder field restores a str column under coercion `c`. -/
def StrFieldOk (c : Coercion) (d : Cell → Option Cell) : Prop :=
  (∀ s, d (.str s) = some (.str s)) ∧ d c.strMixed = some .none ∧ d c.strAll = some .none

/-- A decoder field restores an int column under coercion `c`. -/
def IntFieldOk (c : Coercion) (d : Cell → Option Cell) : Prop :=
  (∀ i, d (.int i) = some (.int i)) ∧ (∀ i, d (c.intPresent i) = some (.int i)) ∧
  d c.intMixed = some .none ∧ d c.intAll = some .none

/-- The decoder maps the coercion's missing markers back to `None` (and leaves present values alone) in every
    optional field. -/
structure DecoderOk (dec : Decoder) (c : Coercion) : Prop where
  name : StrFieldOk c dec.name
  lags : IntFieldOk c dec.lags
  leads : IntFieldOk c dec.leads
  equation : StrFieldOk c dec.equation
  code : StrFieldOk c dec.code

/-- Row-wise reading of the round trip. -/
theorem roundTrips_iff_rows (dec : Decoder) (c : Coercion) (ss : List Symbol) :
    RoundTrips dec c ss ↔ ∀ s ∈ ss, decodeRow dec (encodeRow c (flagsOf ss) s) = some s.toPy := by
  unfold RoundTrips symbolsToTable
  exact tableToSymbols_map dec _ _ ss

/-- A row is restored iff its type is valid and each field is. -/
theorem decodeRow_eq_iff (dec : Decoder) (r t : PySymbol) :
    decodeRow dec r = some t ↔
      typeOk r.type = true ∧ r.type = t.type ∧ dec.name r.name = some t.name ∧ dec.lags r.lags = some t.lags ∧
      dec.leads r.leads = some t.leads ∧ dec.equation r.equation = some t.equation ∧ dec.code r.code = some t.code := by
  obtain ⟨tn, tt, tl, td, te, tc⟩ := t
  unfold decodeRow
  cases h1 : dec.name r.name <;> cases h2 : dec.lags r.lags <;> cases h3 : dec.leads r.leads <;>
    cases h4 : dec.equation r.equation <;> cases h5 : dec.code r.code <;> simp
  cases h6 : typeOk r.type <;> simp
  constructor
  · intro ⟨a, b, c, d, e, f⟩; exact ⟨b, a, c, d, e, f⟩
  · intro ⟨a, b, c, d, e, f⟩; exact ⟨b, a, c, d, e, f⟩

theorem encodeStr_ok (c : Coercion) (d : Cell → Option Cell) (h : StrFieldOk c d) (f : Bool) (x : Option String) :
    d (encodeStr c f x) = some (ofStr x) := by
  cases x with
  | some s => exact h.1 s
  | none => cases f <;> simp [encodeStr, ofStr, h.2.1, h.2.2]

theorem encodeInt_ok (c : Coercion) (d : Cell → Option Cell) (h : IntFieldOk c d) (f g : Bool) (x : Option Int) :
    d (encodeInt c f g x) = some (ofInt x) := by
  cases x with
  | some i => cases g <;> simp [encodeInt, ofInt, h.1 i, h.2.1 i]
  | none => cases f <;> simp [encodeInt, ofInt, h.2.2.1, h.2.2.2]

/-- **symbols_roundtrip, direction "if".**  A decoder that maps the coercion's missing markers back to `None` in
    every optional field returns the original list, for every symbol list (any length, any mix of missing fields). -/
theorem symbols_roundtrip_of_decoderOk (dec : Decoder) (c : Coercion) (h : DecoderOk dec c) (ss : List Symbol)
    (hv : ValidTypes ss) : RoundTrips dec c ss := by
  rw [roundTrips_iff_rows]
  intro s hs
  rw [decodeRow_eq_iff]
  refine ⟨hv s hs, rfl, ?_, ?_, ?_, ?_, ?_⟩
  · exact encodeStr_ok c _ h.name _ _
  · exact encodeInt_ok c _ h.lags _ _ _
  · exact encodeInt_ok c _ h.leads _ _ _
  · exact encodeStr_ok c _ h.equation _ _
  · exact encodeStr_ok c _ h.code _ _

/-- Witness lists used for the "only if" direction: a full symbol and a symbol with every optional field missing. -/
def full (s : String) (i : Int) : Symbol := ⟨some s, 1, some i, some i, some s, some s⟩
def bare : Symbol := ⟨none, 1, none, none, none, none⟩

theorem typeOk_one : typeOk 1 = true := by decide

/-- **symbols_roundtrip, direction "only if".**  If the round trip returns the original list for every symbol
    list, the decoder maps the coercion's missing markers back to `None` in every optional field (and leaves
    present values alone). -/
theorem decoderOk_of_symbols_roundtrip (dec : Decoder) (c : Coercion)
    (h : ∀ ss, ValidTypes ss → RoundTrips dec c ss) : DecoderOk dec c := by
  have v1 : ∀ s i, ValidTypes [full s i] := by intro s i x hx; simp at hx; subst hx; exact typeOk_one
  have v2 : ValidTypes [bare] := by intro x hx; simp at hx; subst hx; exact typeOk_one
  have v3 : ∀ s i, ValidTypes [full s i, bare] := by
    intro s i x hx; simp at hx; rcases hx with hx | hx <;> subst hx <;> exact typeOk_one
  -- present values: the one-symbol list `[full s i]`
  have p := fun s i => (decodeRow_eq_iff _ _ _).mp ((roundTrips_iff_rows dec c _).mp (h _ (v1 s i)) (full s i) (by simp))
  -- all-missing columns: `[bare]`
  have a := (decodeRow_eq_iff _ _ _).mp ((roundTrips_iff_rows dec c _).mp (h _ v2) bare (by simp))
  -- mixed columns: `[full s i, bare]`, second row for the missing markers, first row for ints next to a missing one
  have m2 := fun s i => (decodeRow_eq_iff _ _ _).mp ((roundTrips_iff_rows dec c _).mp (h _ (v3 s i)) bare (by simp))
  have m1 := fun s i => (decodeRow_eq_iff _ _ _).mp ((roundTrips_iff_rows dec c _).mp (h _ (v3 s i)) (full s i) (by simp))
  simp only [encodeRow, flagsOf, full, bare, encodeStr, encodeInt, Symbol.toPy, ofStr, ofInt, List.any_cons,
    List.any_nil, Option.isSome, Option.isNone, Bool.or_false, Bool.or_true, Bool.true_or, if_true, if_false,
    Bool.false_eq_true] at p a m1 m2
  have m2' := m2 "" 0
  exact
    { name := ⟨fun s => (p s 0).2.2.1, m2'.2.2.1, a.2.2.1⟩
      lags := ⟨fun i => (p "" i).2.2.2.1, fun i => (m1 "" i).2.2.2.1, m2'.2.2.2.1, a.2.2.2.1⟩
      leads := ⟨fun i => (p "" i).2.2.2.2.1, fun i => (m1 "" i).2.2.2.2.1, m2'.2.2.2.2.1, a.2.2.2.2.1⟩
      equation := ⟨fun s => (p s 0).2.2.2.2.2.1, m2'.2.2.2.2.2.1, a.2.2.2.2.2.1⟩
      code := ⟨fun s => (p s 0).2.2.2.2.2.2, m2'.2.2.2.2.2.2, a.2.2.2.2.2.2⟩ }

/-- Parametric in decoder and coercion: the round trip returns the original list for every symbol list IFF the
    decoder maps the coercion's missing markers back to `None` in every optional field. -/
theorem symbols_roundtrip_iff_decoderOk (dec : Decoder) (c : Coercion) :
    (∀ ss, ValidTypes ss → RoundTrips dec c ss) ↔ DecoderOk dec c :=
  ⟨decoderOk_of_symbols_roundtrip dec c, fun h ss hv => symbols_roundtrip_of_decoderOk dec c h ss hv⟩

/-! ### The code's decoder under the installed pandas -/

/-- What the reflected table says the installed pandas does (re-checked on every run; if pandas changes its
    coercion this `decide` and the theorems below are re-evaluated against the new table). -/
theorem installed_coercion_observed :
    installed.strMixed = .nan ∧ installed.strAll = .none ∧ installed.intMixed = .nan ∧ installed.intAll = .none ∧
    installed.intPresent 3 = .flt 3 ∧ presentAsModelled Fsic.Generated.pandasCoercion = true := by decide

theorem installed_intPresent (i : Int) : installed.intPresent i = .flt i := by
  show presentOfTag (tagOf Fsic.Generated.pandasCoercion "int_mixed_present") i = .flt i
  have : tagOf Fsic.Generated.pandasCoercion "int_mixed_present" = "float" := by decide
  rw [this]; rfl

/-- The symbol list of `parse_model('Y = C')` (the exogenous symbol has no equation / code). -/
def witnessYC : List Symbol :=
  [⟨some "Y", 3, some 0, some 0, some "Y[t] = C[t]", some "self._Y[t] = self._C[t]"⟩,
   ⟨some "C", 2, some 0, some 0, none, none⟩]

/-- The symbol list of a script that consists of one verbatim block (no name, every `lags` / `leads` missing). -/
def witnessVerbatim : List Symbol := [⟨none, 8, none, none, some "```\nx = 1\n```", some "x = 1"⟩]

/-- The code's decoder restores every optional field under ANY coercion whose missing markers are `None` or NaN and
    that hands a present int back as an int or as the float holding it (so not only under the pandas installed
    now). -/
theorem codeDecoder_ok_of_markers (c : Coercion)
    (h1 : isMissing c.strMixed = true) (h2 : isMissing c.strAll = true)
    (h3 : isMissing c.intMixed = true) (h4 : isMissing c.intAll = true)
    (h5 : ∀ i, c.intPresent i = .int i ∨ c.intPresent i = .flt i) : DecoderOk codeDecoder c := by
  have hp : ∀ i, convertToIntOrNone (c.intPresent i) = some (.int i) := by
    intro i; rcases h5 i with e | e <;> rw [e] <;> rfl
  refine ⟨⟨fun _ => rfl, ?_, ?_⟩, ⟨fun _ => rfl, hp, ?_, ?_⟩, ⟨fun _ => rfl, hp, ?_, ?_⟩, ⟨fun _ => rfl, ?_, ?_⟩,
    ⟨fun _ => rfl, ?_, ?_⟩⟩ <;>
  simp [codeDecoder, convertToStrOrNone, convertToIntOrNone, h1, h2, h3, h4]

/-- **codeDecoder_ok.**  The code's decoder maps the installed pandas' missing markers back to `None` (and leaves
    present values alone) in every optional field. -/
theorem codeDecoder_ok : DecoderOk codeDecoder installed := by
  obtain ⟨h1, h2, h3, h4, _, _⟩ := installed_coercion_observed
  exact codeDecoder_ok_of_markers installed (by rw [h1]; rfl) (by rw [h2]; rfl) (by rw [h3]; rfl) (by rw [h4]; rfl)
    (fun i => Or.inr (installed_intPresent i))

example : codeDecoder.equation installed.strMixed = some .none ∧ codeDecoder.lags installed.intAll = some .none ∧
    codeDecoder.lags (installed.intPresent (-2)) = some (.int (-2)) ∧ codeDecoder.name (.str "nan") = some (.str "nan") := by
  decide

/-- **symbols_roundtrip.**  For the code's decoder and the installed pandas,
    `dataframe_to_symbols(symbols_to_dataframe(ss))` returns the original list — for EVERY symbol list (any length,
    any mix of present and missing fields; `ValidTypes` is the typing of `Symbol.type` as a member of the `Type`
    enum, not a restriction on the lists: see `symbols_roundtrip_iff_validTypes`). -/
theorem symbols_roundtrip (ss : List Symbol) (hv : ValidTypes ss) :
    tableToSymbols codeDecoder (symbolsToTable installed ss) = some (ss.map Symbol.toPy) :=
  symbols_roundtrip_of_decoderOk codeDecoder installed codeDecoder_ok ss hv

/-- The former failing inputs: `Y = C` (missing equation / code next to present ones: NaN in the table) … -/
example : ValidTypes witnessYC ∧
    (symbolsToTable installed witnessYC).map (fun r => (r.equation, r.code)) =
      [(.str "Y[t] = C[t]", .str "self._Y[t] = self._C[t]"), (.nan, .nan)] ∧
    tableToSymbols codeDecoder (symbolsToTable installed witnessYC) =
      some [⟨.str "Y", 3, .int 0, .int 0, .str "Y[t] = C[t]", .str "self._Y[t] = self._C[t]"⟩,
            ⟨.str "C", 2, .int 0, .int 0, .none, .none⟩] ∧
    RoundTrips codeDecoder installed witnessYC := by
  refine ⟨by decide, by decide, by decide, by decide⟩

/-- … and a verbatim-only list (name and every `lags` / `leads` missing: `None` in the table). -/
example : ValidTypes witnessVerbatim ∧
    (symbolsToTable installed witnessVerbatim).map (fun r => (r.name, r.lags, r.leads)) = [(.none, .none, .none)] ∧
    tableToSymbols codeDecoder (symbolsToTable installed witnessVerbatim) =
      some [⟨.none, 8, .none, .none, .str "```\nx = 1\n```", .str "x = 1"⟩] ∧
    RoundTrips codeDecoder installed witnessVerbatim := by
  refine ⟨by decide, by decide, by decide, by decide⟩

/-- Mixed `lags` / `leads` columns (lists with functions) are restored too (NaN -> None, 0.0 -> 0). -/
example : tableToSymbols codeDecoder (symbolsToTable installed
      [⟨some "Y", 3, some 0, some 2, some "e", some "c"⟩, ⟨some "exp", 6, none, none, some "e2", some "c2"⟩]) =
    some [⟨.str "Y", 3, .int 0, .int 2, .str "e", .str "c"⟩, ⟨.str "exp", 6, .none, .none, .str "e2", .str "c2"⟩] := by
  decide

/-- `ValidTypes` is exact: with the code's decoder and the installed pandas a list round-trips IFF every `type`
    is a value of the `Type` enum (`Type(x)` raises ValueError otherwise; a `Symbol` whose `type` is a `Type`
    member always qualifies). -/
theorem symbols_roundtrip_iff_validTypes (ss : List Symbol) :
    RoundTrips codeDecoder installed ss ↔ ValidTypes ss := by
  constructor
  · intro h s hs
    exact ((decodeRow_eq_iff _ _ _).mp ((roundTrips_iff_rows _ _ _).mp h s hs)).1
  · exact symbols_roundtrip ss

example : ¬ ValidTypes [⟨some "Y", 0, some 0, some 0, none, none⟩] ∧
    tableToSymbols codeDecoder (symbolsToTable installed [⟨some "Y", 0, some 0, some 0, none, none⟩]) = none := by
  refine ⟨by decide, by decide⟩

/-! ### String identity: present str fields come back as they went in (no normalisation; `''` is not `None`) -/

/-- `is_missing` never fires on a str: not on `''`, not on a whitespace-only string, not on `'nan'`. -/
theorem isMissing_str (s : String) : isMissing (.str s) = false := rfl

/-- **codeDecoder_preserves_strings.**  For EVERY string `s` (empty, whitespace-only, with leading / trailing blanks,
    tabs, newlines: strings are opaque) the code's decoder hands a present str cell back unchanged in each of the
    three str fields. -/
theorem codeDecoder_preserves_strings (s : String) :
    codeDecoder.name (.str s) = some (.str s) ∧ codeDecoder.equation (.str s) = some (.str s) ∧
    codeDecoder.code (.str s) = some (.str s) := ⟨rfl, rfl, rfl⟩

/-- A present str is written to the table as itself whatever else its column holds (under any coercion). -/
theorem encodeStr_present (c : Coercion) (f : Bool) (s : String) : encodeStr c f (some s) = .str s := rfl

/-- `''` (or any other str) and `None` are different Python values in the model: the comparison "returns the
    original list" tells them apart. -/
theorem ofStr_injective (a b : Option String) (h : ofStr a = ofStr b) : a = b := by
  cases a <;> cases b <;> simp [ofStr] at h ⊢
  exact h

theorem ofInt_injective (a b : Option Int) (h : ofInt a = ofInt b) : a = b := by
  cases a <;> cases b <;> simp [ofInt] at h ⊢
  exact h

/-- Two symbols with the same tuple of Python values are the same symbol (so `RoundTrips` is equality of the
    symbol lists themselves, field by field, `Some ""` ≠ `None`, `"x "` ≠ `"x"`). -/
theorem toPy_injective (s t : Symbol) (h : s.toPy = t.toPy) : s = t := by
  obtain ⟨a1, a2, a3, a4, a5, a6⟩ := s
  obtain ⟨b1, b2, b3, b4, b5, b6⟩ := t
  simp only [Symbol.toPy, PySymbol.mk.injEq] at h
  obtain ⟨h1, h2, h3, h4, h5, h6⟩ := h
  rw [ofStr_injective _ _ h1, h2, ofInt_injective _ _ h3, ofInt_injective _ _ h4, ofStr_injective _ _ h5,
    ofStr_injective _ _ h6]

theorem tableToSymbols_rows (dec : Decoder) (rows : List PySymbol) :
    ∀ out, tableToSymbols dec rows = some out →
      out.length = rows.length ∧ ∀ p ∈ rows.zip out, decodeRow dec p.1 = some p.2 := by
  induction rows with
  | nil => intro out h; simp [tableToSymbols] at h; subst h; simp
  | cons r rs ih =>
    intro out h
    simp only [tableToSymbols] at h
    cases h1 : decodeRow dec r with
    | none => simp [h1] at h
    | some a =>
      cases h2 : tableToSymbols dec rs with
      | none => simp [h1, h2] at h
      | some b =>
        simp [h1, h2] at h
        subst h
        obtain ⟨l, hr⟩ := ih b h2
        refine ⟨by simp [l], ?_⟩
        intro p hp
        simp only [List.zip_cons_cons, List.mem_cons] at hp
        rcases hp with hp | hp
        · subst hp; exact h1
        · exact hr p hp

/-- Row level: whatever the coercion does to missing entries, a row the code's decoder accepts carries every present
    str field of the symbol unchanged. -/
theorem decodeRow_present_strings (c : Coercion) (f : Flags) (s : Symbol) (r : PySymbol)
    (h : decodeRow codeDecoder (encodeRow c f s) = some r) :
    (∀ x, s.name = some x → r.name = .str x) ∧ (∀ x, s.equation = some x → r.equation = .str x) ∧
    (∀ x, s.code = some x → r.code = .str x) := by
  obtain ⟨_, _, hn, _, _, he, hc⟩ := (decodeRow_eq_iff _ _ _).mp h
  refine ⟨?_, ?_, ?_⟩ <;> intro x hx
  · simp only [encodeRow, hx, encodeStr_present] at hn
    exact (Option.some.inj hn).symm
  · simp only [encodeRow, hx, encodeStr_present] at he
    exact (Option.some.inj he).symm
  · simp only [encodeRow, hx, encodeStr_present] at hc
    exact (Option.some.inj hc).symm

/-- **present_strings_roundtrip.**  Under ANY coercion of missing entries (no assumption on pandas beyond string
    identity of present cells, which the reflected probes re-check): if `dataframe_to_symbols(symbols_to_dataframe(ss))`
    returns at all, it returns one symbol per input symbol, and every present `name` / `equation` / `code` is the very
    string that went in — for every symbol list and every string (no stripping, no normalisation, `''` stays `''`). -/
theorem present_strings_roundtrip (c : Coercion) (ss : List Symbol) (out : List PySymbol)
    (h : tableToSymbols codeDecoder (symbolsToTable c ss) = some out) :
    out.length = ss.length ∧ ∀ p ∈ ss.zip out,
      (∀ x, p.1.name = some x → p.2.name = .str x) ∧ (∀ x, p.1.equation = some x → p.2.equation = .str x) ∧
      (∀ x, p.1.code = some x → p.2.code = .str x) := by
  obtain ⟨l, hr⟩ := tableToSymbols_rows _ _ out h
  unfold symbolsToTable at l hr
  refine ⟨by simpa using l, ?_⟩
  intro p hp
  apply decodeRow_present_strings c (flagsOf ss) p.1 p.2
  apply hr (encodeRow c (flagsOf ss) p.1, p.2)
  rw [List.zip_map_left]
  exact List.mem_map.mpr ⟨p, hp, rfl⟩

/-- With the installed pandas the round trip does return (`symbols_roundtrip`), so every present string of every
    valid symbol list is restored exactly. -/
theorem symbols_roundtrip_strings (ss : List Symbol) (hv : ValidTypes ss) :
    ∃ out, tableToSymbols codeDecoder (symbolsToTable installed ss) = some out ∧ out.length = ss.length ∧
      ∀ p ∈ ss.zip out,
        (∀ x, p.1.name = some x → p.2.name = .str x) ∧ (∀ x, p.1.equation = some x → p.2.equation = .str x) ∧
        (∀ x, p.1.code = some x → p.2.code = .str x) :=
  ⟨_, symbols_roundtrip ss hv, present_strings_roundtrip installed ss _ (symbols_roundtrip ss hv)⟩

/-- Conversely NO normalisation is compatible with the property: a decoder that changes (strips, drops, maps to
    `None`) even one string in one str field fails the round trip on a one-symbol list, under any coercion. -/
theorem normalising_decoder_breaks_roundtrip (dec : Decoder) (c : Coercion) (s : String)
    (h : dec.name (.str s) ≠ some (.str s) ∨ dec.equation (.str s) ≠ some (.str s) ∨
      dec.code (.str s) ≠ some (.str s)) :
    ValidTypes [full s 0] ∧ ¬ RoundTrips dec c [full s 0] := by
  refine ⟨by intro x hx; simp at hx; subst hx; exact typeOk_one, ?_⟩
  intro hr
  have p := (decodeRow_eq_iff _ _ _).mp ((roundTrips_iff_rows dec c _).mp hr (full s 0) (by simp))
  simp only [encodeRow, full, encodeStr, Symbol.toPy, ofStr] at p
  rcases h with h | h | h
  · exact h p.2.2.1
  · exact h p.2.2.2.2.2.1
  · exact h p.2.2.2.2.2.2

/-- Symbol lists with edge whitespace: a verbatim block whose code ends in blank + tab (`parse_model` keeps them), an
    equation whose name / equation / code are `' Y '` / `''` / blank + newline, an exogenous symbol called `''` with
    missing equation / code, a verbatim block whose code is `''` (`'```\n\n```'`). -/
def witnessEdge : List Symbol :=
  [⟨none, 8, none, none, some "```\nx = 1 \t\n```", some "x = 1 \t"⟩,
   ⟨some " Y ", 3, some 0, some 0, some "", some " \n"⟩,
   ⟨some "", 2, some (-1), some 0, none, none⟩,
   ⟨none, 8, none, none, some "```\n\n```", some ""⟩]

/-- Non-vacuity: the list is valid, its table holds the strings as they are (and NaN for the missing ones next to
    them), and the round trip returns them as they are: `""` stays `.str ""` (not `.none`), `"x = 1 \t"` keeps its
    trailing blank and tab. -/
example : ValidTypes witnessEdge ∧
    (symbolsToTable installed witnessEdge).map (fun r => (r.name, r.equation, r.code)) =
      [(.nan, .str "```\nx = 1 \t\n```", .str "x = 1 \t"), (.str " Y ", .str "", .str " \n"),
       (.str "", .nan, .nan), (.nan, .str "```\n\n```", .str "")] ∧
    tableToSymbols codeDecoder (symbolsToTable installed witnessEdge) =
      some [⟨.none, 8, .none, .none, .str "```\nx = 1 \t\n```", .str "x = 1 \t"⟩,
            ⟨.str " Y ", 3, .int 0, .int 0, .str "", .str " \n"⟩,
            ⟨.str "", 2, .int (-1), .int 0, .none, .none⟩,
            ⟨.none, 8, .none, .none, .str "```\n\n```", .str ""⟩] ∧
    RoundTrips codeDecoder installed witnessEdge := by
  refine ⟨by decide, by decide, by decide, by decide⟩

example : codeDecoder.code (.str "") = some (.str "") ∧ codeDecoder.code (.str " \t\n") = some (.str " \t\n") ∧
    codeDecoder.name (.str "x ") ≠ some (.str "x") ∧ ofStr (some "") ≠ ofStr none := by decide

/-- A decoder that strips the trailing blank of one code string, or takes `''` for a missing entry, … -/
def rstripOne (c : Cell) : Option Cell :=
  if c = .str "x = 1 " then some (.str "x = 1") else if c = .str "" then some .none else convertToStrOrNone c

/-- … fails on the parser output of a fenced block with a trailing blank, and on a block whose code is `''`. -/
example : ¬ RoundTrips { codeDecoder with code := rstripOne } installed
      [⟨none, 8, none, none, some "```\nx = 1 \n```", some "x = 1 "⟩] ∧
    ¬ RoundTrips { codeDecoder with code := rstripOne } installed
      [⟨none, 8, none, none, some "```\n\n```", some ""⟩] := by
  refine ⟨by decide, by decide⟩

/-! ## The FORM of the flags

`status=np.True_`, `iterations=1`, `include_internal='x'` … : the code tests `if flag:`, so the table is a function of
the three truth values only, and the labels of the extra columns are the string constants, never the flag. -/

/-- **export_depends_on_truthiness_only.**  Two flag triples of ANY forms with equal truthiness give the same table. -/
theorem export_depends_on_truthiness_only (m : Store L α) (s i n s' i' n' : FlagForm)
    (hs : truthy s = truthy s') (hi : truthy i = truthy i') (hn : truthy n = truthy n') :
    modelTableF m s i n = modelTableF m s' i' n' := by
  unfold modelTableF
  rw [hs, hi, hn]

/-- In particular every flag may be replaced by the plain bool `bool(flag)`. -/
theorem export_eq_export_of_bool (m : Store L α) (s i n : FlagForm) :
    modelTableF m s i n = modelTableF m (.bool (truthy s)) (.bool (truthy i)) (.bool (truthy n)) := rfl

/-- The same with omitted keywords: only the value each argument resolves to matters. -/
theorem export_args_depend_on_value_only (m : Store L α) (s i n s' i' n' : Option FlagForm)
    (hs : argValue Generated.exportDefaultStatus s = argValue Generated.exportDefaultStatus s')
    (hi : argValue Generated.exportDefaultIterations i = argValue Generated.exportDefaultIterations i')
    (hn : argValue Generated.exportDefaultInternal n = argValue Generated.exportDefaultInternal n') :
    modelTableA m s i n = modelTableA m s' i' n' := by
  unfold modelTableA
  rw [hs, hi, hn]

/-- The column labels for flags of any form: the names, then the STRINGS `status` / `iterations`. -/
theorem export_labels_any_form (m : Store L α) (s i n : FlagForm) (h : NamesOk m.names) :
    (modelTableF m s i n).cols.map Prod.fst = modelColumns m.names (truthy n) (truthy s) (truthy i) :=
  dataframe_columns m _ _ _ h

/-- Non-vacuity: the truthy / falsy forms (a float is falsy only as ±0.0: NaN `0x7FF8…` and `-0.0` `0x8000…`). -/
example : truthy (.npbool true) = true ∧ truthy (.int 1) = true ∧ truthy (.int (-2)) = true ∧
    truthy (.float 4607182418800017408) = true ∧ truthy (.float 9221120237041090560) = true ∧ truthy (.str "x") = true ∧
    truthy (.str "False") = true ∧
    truthy (.npbool false) = false ∧ truthy (.int 0) = false ∧ truthy (.float 0) = false ∧
    truthy (.float 9223372036854775808) = false ∧ truthy (.str "") = false ∧ truthy .none = false := by decide

example : (modelTableF (L := Nat) (α := Nat) ⟨[0, 1], ["status", "iterations", "Y", "_h"], ["Y", "_h"],
      fun k => if k = "Y" then [1, 2] else if k = "_h" then [3, 4] else if k = "status" then [5, 5] else [7, 7]⟩
      (.npbool true) (.int 1) (.str "")).cols = [("Y", [1, 2]), ("status", [5, 5]), ("iterations", [7, 7])] := by decide

/-- The linker export for flags of any form / omitted: equal values, equal dicts of tables (the linker's table and
    every submodel's). -/
theorem linker_export_depends_on_truthiness_only (name : K) (l : Store L α) (subs : List (K × Store L α))
    (s i n s' i' n' : Option FlagForm)
    (hs : argValue Generated.exportDefaultStatus s = argValue Generated.exportDefaultStatus s')
    (hi : argValue Generated.exportDefaultIterations i = argValue Generated.exportDefaultIterations i')
    (hn : argValue Generated.exportDefaultInternal n = argValue Generated.exportDefaultInternal n') :
    linkerTablesA name l subs s i n = linkerTablesA name l subs s' i' n' := by
  unfold linkerTablesA
  rw [hs, hi, hn]

/-- The labels a flag would turn into if it were taken for one (`df[flag] = …`): pandas shows `np.True_` / `1`. -/
def flagLabel : FlagForm → String
  | .npbool b => if b then "np.True_" else "np.False_"
  | .int i => toString i
  | .str s => s
  | _ => "?"

theorem identityAddCol_nonbool {V : Type} (labelOf : FlagForm → String) (f : FlagForm) (k : String) (v : List V)
    (d : List (String × List V)) (hf : f ≠ .bool true) (ht : truthy f = true) :
    identityAddCol labelOf f k v d = dictSet d (labelOf f) v := by
  cases f with
  | bool b =>
    cases b
    · simp [truthy] at ht
    · exact absurd rfl hf
  | npbool b => simp only [identityAddCol]; rw [if_pos ht]
  | int j => simp only [identityAddCol]; rw [if_pos ht]
  | float j => simp only [identityAddCol]; rw [if_pos ht]
  | str j => simp only [identityAddCol]; rw [if_pos ht]
  | none => simp [truthy] at ht

theorem identityAddCol_false {V : Type} (labelOf : FlagForm → String) (k : String) (v : List V)
    (d : List (String × List V)) : identityAddCol labelOf (.bool false) k v d = d := by
  simp [identityAddCol, truthy]

/-- **identity_test_breaks_export.**  An export that tests `flag is True` (and takes any other truthy flag for a
    column label) differs from the code's on EVERY store that satisfies the guard, for every truthy `status` flag that
    is not the object `True` — unless the label it makes up happens to be `'status'` itself. -/
theorem identity_test_breaks_export (labelOf : FlagForm → String) (m : Store L α) (h : NamesOk m.names)
    (f n : FlagForm) (ht : truthy f = true) (hf : f ≠ .bool true) (hl : labelOf f ≠ "status") :
    identityTable labelOf m f (.bool false) n ≠ modelTableF m f (.bool false) n := by
  intro e
  have hs : "status" ∉ exportNames m.names (truthy n) := fun x => h.noStatus (exportNames_sub _ _ _ x)
  have h1 := (dataframe_status m (truthy f) false (truthy n) h).1
  have e2 : dictGet (identityTable labelOf m f (.bool false) n).cols "status" = some (m.data "status") := by
    rw [e]; show dictGet (modelTable m (truthy f) false (truthy n)).cols "status" = _; rw [h1, ht]; rfl
  have hbase : dictGet (dictOf m.data (exportNames m.names (truthy n)) []) "status" = none := by
    rw [dictOf_fresh m.data _ [] (exportNames_nodup _ _ h.nodup) (by simp)]
    simp only [List.nil_append]
    exact dictGet_not_mem _ _ (by rw [keys_map_pair]; exact hs)
  have e3 : dictGet (identityTable labelOf m f (.bool false) n).cols "status" = none := by
    unfold identityTable
    rw [identityAddCol_false, identityAddCol_nonbool labelOf f _ _ _ hf ht, dictGet_dictSet]
    simp [hl, hbase]
  rw [e3] at e2
  cases e2

/-- Non-vacuity (and what the identity test does with BOTH flags `np.True_`: one column for the two). -/
example : (identityTable (L := Nat) (α := Nat) flagLabel ⟨[0], ["status", "iterations", "Y"], ["Y"],
      fun k => if k = "Y" then [1] else if k = "status" then [5] else [7]⟩ (.npbool true) (.npbool true) (.bool false)).cols
    = [("Y", [1]), ("np.True_", [7])] ∧
    (modelTableF (L := Nat) (α := Nat) ⟨[0], ["status", "iterations", "Y"], ["Y"],
      fun k => if k = "Y" then [1] else if k = "status" then [5] else [7]⟩ (.npbool true) (.npbool true) (.bool false)).cols
    = [("Y", [1]), ("status", [5]), ("iterations", [7])] ∧
    truthy (.npbool true) = true ∧ FlagForm.npbool true ≠ .bool true ∧ flagLabel (.npbool true) ≠ "status" := by decide

/-- `from_dataframe(data, strict=…)`: only the truth value of `strict` matters; falsy / omitted = `fromTable`; and on
    a table that holds columns of class variables only, `strict` makes no difference at all. -/
theorem from_dataframe_strict_truthiness (cast : α → α) (dflt : Defaults α) (NAMES : List String)
    (s s' : Option FlagForm) (t : Table L α) (h : argValue false s = argValue false s') :
    fromTableStrict cast dflt NAMES s t = fromTableStrict cast dflt NAMES s' t := by
  unfold fromTableStrict
  rw [h]

theorem from_dataframe_strict_falsy (cast : α → α) (dflt : Defaults α) (NAMES : List String)
    (s : Option FlagForm) (t : Table L α) (h : argValue false s = false) :
    fromTableStrict cast dflt NAMES s t = fromTable cast dflt NAMES t := by
  unfold fromTableStrict
  simp [h]

theorem from_dataframe_strict_data_columns (cast : α → α) (dflt : Defaults α) (NAMES : List String)
    (s : Option FlagForm) (t : Table L α) (h : ∀ c ∈ t.cols, c.1 ∈ NAMES) :
    fromTableStrict cast dflt NAMES s t = fromTable cast dflt NAMES t := by
  unfold fromTableStrict
  have : t.cols.any (fun c => !(NAMES.contains c.1 || c.1 == defaultValueParam)) = false := by
    rw [List.any_eq_false]
    intro c hc
    simp [h c hc]
  rw [this]
  simp

example : fromTableStrict (L := Nat) (fun x : Nat => x) ⟨0, 7, 8⟩ ["Y"] (some (.npbool true))
      ⟨[0], [("Y", [1]), ("status", [5])]⟩ = none ∧
    (fromTableStrict (L := Nat) (fun x : Nat => x) ⟨0, 7, 8⟩ ["Y"] (some (.int 0))
      ⟨[0], [("Y", [1]), ("status", [5])]⟩).map (fun m => m.data "Y") = some [1] := by decide

/-! ## Extension mixins

The export of an instance is a function of (names, series, span, flags): `modelExport m`.  There is no class in the
model.  A class `class C(AliasMixin, TracerMixin, …, Base)` reaches the base export through the `to_dataframe` methods
of its mixins in MRO order — each a `Wrapper` — so the class matters exactly as far as a wrapper changes what it
hands on. -/

/-- Wrappers that forward the three flags unchanged and return the table as it comes leave the export alone,
    however many there are and in whatever order. -/
theorem wrapChain_forwards (ws : List (Wrapper L α)) (base : Flags3 → Table L α) (h : ∀ w ∈ ws, w.Forwards) :
    wrapChain ws base = base := by
  induction ws with
  | nil => rfl
  | cons w ws ih =>
    have hw := h w (by simp)
    funext f
    simp only [wrapChain, wrapExport]
    rw [ih (fun w' hw' => h w' (by simp [hw'])), hw.1 f, hw.2]

theorem mixinWrapper_forwards (repl : List (String × String)) (x : Mixin) :
    (mixinWrapper (L := L) (α := α) false repl x).Forwards := by
  cases x <;> exact ⟨fun _ => rfl, fun _ => rfl⟩

/-- **mixins_do_not_change_export.**  For every list of mixins in every MRO order, every store and every flag triple:
    `obj.to_dataframe(...)` of the extended class (aliases not requested) IS `model_to_dataframe(obj, ...)` — same
    columns (underscore-prefixed variables included when requested), same cells. -/
theorem mixins_do_not_change_export (mro : List Mixin) (repl : List (String × String)) (m : Store L α) (f : Flags3) :
    classExport mro false repl m f = modelTable m f.status f.iterations f.includeInternal := by
  unfold classExport
  rw [wrapChain_forwards]
  · rfl
  · intro w hw
    simp only [List.mem_map] at hw
    obtain ⟨x, _, rfl⟩ := hw
    exact mixinWrapper_forwards repl x

/-- … hence the MRO order is irrelevant. -/
theorem mixin_order_irrelevant (mro mro' : List Mixin) (repl : List (String × String)) (m : Store L α) (f : Flags3) :
    classExport mro false repl m f = classExport mro' false repl m f := by
  rw [mixins_do_not_change_export, mixins_do_not_change_export]

example : (classExport (L := Nat) (α := Nat) [.alias, .tracer, .pandasIndex, .progressBar] false [("Y", "GDP")]
      ⟨[0], ["status", "iterations", "Y", "_h", "trace"], ["Y", "_h"], fun k => if k = "Y" then [1] else [3]⟩
      ⟨false, false, true⟩).cols = [("Y", [1]), ("_h", [3])] := by decide

/-- `use_aliases=True`: labels only — the index and the cells of every column, in order, are those of the plain
    export. -/
theorem alias_export_renames_labels_only (mro : List Mixin) (repl : List (String × String)) (m : Store L α) (f : Flags3) :
    (classExport mro true repl m f).index = (modelExport m f).index ∧
    (classExport mro true repl m f).cols.map Prod.snd = (modelExport m f).cols.map Prod.snd := by
  unfold classExport
  induction mro with
  | nil => exact ⟨rfl, rfl⟩
  | cons x xs ih =>
    cases x <;> simp only [List.map_cons, wrapChain, wrapExport, mixinWrapper, if_true] <;>
      first
        | exact ih
        | (refine ⟨ih.1, ?_⟩
           rw [← ih.2]
           simp [renameCols, Function.comp_def])

example : (classExport (L := Nat) (α := Nat) [.tracer, .alias] true [("Y", "GDP")]
      ⟨[0], ["status", "iterations", "Y", "_h", "trace"], ["Y", "_h"], fun k => if k = "Y" then [1] else [3]⟩
      ⟨false, false, true⟩).cols = [("GDP", [1]), ("_h", [3])] := by decide

theorem exportNames_eq_iff (names : List String) :
    exportNames names false = exportNames names true ↔ ∀ k ∈ names, isInternal k = false := by
  unfold exportNames
  simp only [Bool.false_eq_true, if_false, if_true]
  rw [List.filter_eq_self]
  simp

/-- `include_internal` matters exactly on stores that have an underscore-prefixed variable. -/
theorem internal_flag_matters_iff (m : Store L α) (s i : Bool) (h : NamesOk m.names) :
    modelTable m s i false ≠ modelTable m s i true ↔ ∃ k, k ∈ m.names ∧ isInternal k = true := by
  constructor
  · intro hne
    apply Classical.byContradiction
    intro hno
    apply hne
    have hall : ∀ k ∈ m.names, isInternal k = false := by
      intro k hk
      cases hik : isInternal k
      · rfl
      · exact absurd ⟨k, hk, hik⟩ hno
    unfold modelTable
    rw [(exportNames_eq_iff m.names).mpr hall]
  · rintro ⟨k, hk, hik⟩ e
    have h1 := dataframe_columns m s i false h
    have h2 := dataframe_columns m s i true h
    rw [e, h2] at h1
    have hmem : k ∈ modelColumns m.names true s i := by
      unfold modelColumns; simp [exportNames, hk]
    rw [h1] at hmem
    have hs : k ≠ "status" := fun e => h.noStatus (e ▸ hk)
    have hi : k ≠ "iterations" := fun e => h.noIterations (e ▸ hk)
    unfold modelColumns at hmem
    cases s <;> cases i <;> simp [mem_exportNames, hk, hs, hi, hik] at hmem

/-- **wrapper_dropping_internal_differs_iff.**  The negation-style witness: a mixin whose `to_dataframe` does not pass
    `include_internal` on (the base then takes its default) yields another table than `model_to_dataframe` for some
    flags IF AND ONLY IF the instance has an underscore-prefixed variable — wherever it stands in the MRO below
    forwarding wrappers. -/
theorem wrapper_dropping_internal_differs_iff (dflt : Bool) (m : Store L α) (h : NamesOk m.names) :
    (∃ f, wrapExport (dropsInternal dflt) (modelExport m) f ≠ modelExport m f) ↔
      ∃ k, k ∈ m.names ∧ isInternal k = true := by
  constructor
  · rintro ⟨f, hf⟩
    simp only [wrapExport, dropsInternal, modelExport] at hf
    cases hd : dflt <;> cases hn : f.includeInternal <;> simp only [hd, hn] at hf
    · exact absurd rfl hf
    · exact (internal_flag_matters_iff m f.status f.iterations h).mp hf
    · exact (internal_flag_matters_iff m f.status f.iterations h).mp (fun e => hf e.symm)
    · exact absurd rfl hf
  · intro hk
    refine ⟨⟨true, true, !dflt⟩, ?_⟩
    simp only [wrapExport, dropsInternal, modelExport]
    cases dflt
    · exact (internal_flag_matters_iff m true true h).mpr hk
    · exact fun e => (internal_flag_matters_iff m true true h).mpr hk e.symm

/-- The same below any number of forwarding wrappers (e.g. `class C(TracerMixin, BrokenAliasMixin, Base)`). -/
theorem wrapChain_dropping_internal_differs_iff (ws : List (Wrapper L α)) (hws : ∀ w ∈ ws, w.Forwards) (dflt : Bool)
    (m : Store L α) (h : NamesOk m.names) :
    (∃ f, wrapChain ws (wrapExport (dropsInternal dflt) (modelExport m)) f ≠ modelExport m f) ↔
      ∃ k, k ∈ m.names ∧ isInternal k = true := by
  rw [wrapChain_forwards ws _ hws]
  exact wrapper_dropping_internal_differs_iff dflt m h

/-- Non-vacuity: with `_h` the dropping wrapper loses the column; without an underscore-prefixed name it is invisible. -/
example : (wrapExport (L := Nat) (α := Nat) (dropsInternal false)
      (modelExport ⟨[0], ["status", "iterations", "Y", "_h"], ["Y", "_h"], fun k => if k = "Y" then [1] else [3]⟩)
      ⟨false, false, true⟩).cols = [("Y", [1])] ∧
    (modelExport (L := Nat) (α := Nat) ⟨[0], ["status", "iterations", "Y", "_h"], ["Y", "_h"], fun k => if k = "Y" then [1] else [3]⟩
      ⟨false, false, true⟩).cols = [("Y", [1]), ("_h", [3])] ∧
    NamesOk ["Y", "_h"] := ⟨by decide, by decide, ⟨by decide, by decide, by decide⟩⟩

/-! ## Non-vacuity (review): the theorems with the most hypotheses, invoked at concrete instances -/

/-- A model with a variable, its underscore twin and a member-like name, two periods. -/
def exStore : Store Nat Nat :=
  ⟨[3, 4], ["status", "iterations", "Y", "_Y", "size"], ["Y", "_Y", "size"],
   fun k => if k = "Y" then [1, 2] else if k = "_Y" then [3, 4] else if k = "size" then [5, 6]
     else if k = "status" then [0, 0] else [9, 9]⟩
theorem exStore_ok : NamesOk exStore.names := ⟨by decide, by decide, by decide⟩
theorem twin_ok : NamesOk twinObj.names := ⟨by decide, by decide, by decide⟩
theorem exCtor_ok : CtorNamesOk exStore.names := by unfold CtorNamesOk; decide

-- dataframe_columns / dataframe_columns_nodup / dataframe_cells / dataframe_internal_iff: `h` (and hk)
example : (modelTable exStore true false false).cols.map Prod.fst = ["Y", "size", "status"] :=
  (dataframe_columns exStore true false false exStore_ok).trans (by decide)
example : dictGet (modelTable exStore true true true).cols "_Y" = some [3, 4] :=
  dataframe_cells exStore true true true exStore_ok "_Y" (by decide)
example : "_Y" ∉ (modelTable exStore true true false).cols.map Prod.fst :=
  fun hm => by
    have := (dataframe_internal_iff exStore true true false exStore_ok "_Y" (by decide)).1 hm
    revert this; decide
-- dataframe_rows: h, hlen
theorem exStore_len (k : String) : (exStore.data k).length = exStore.span.length := by
  show (if k = "Y" then [1, 2] else if k = "_Y" then [3, 4] else if k = "size" then [5, 6]
     else if k = "status" then [0, 0] else [9, 9] : List Nat).length = 2
  repeat' split
  all_goals rfl
example : (modelTable exStore true true true).index = [3, 4] ∧
    ∀ c ∈ (modelTable exStore true true true).cols, c.2.length = (modelTable exStore true true true).index.length :=
  dataframe_rows exStore true true true exStore_ok (fun k _ => exStore_len k)
-- export_reads_own_series: h, hsub, hk; the premises of its second part hold too (the entry exists, and the series in
-- the `__dict__` of `twinObj` are pairwise distinct, so a value determines its key)
example : dictGet (modelTable twinObj.toStore false false true).cols "_Y" = some [3, 4] :=
  (export_reads_own_series twinObj false false true twin_ok (by decide) "_Y" (by decide)).1.trans (by decide)
example : dictGet twinObj.dict (storageKey "_Y") = some [3, 4] ∧ (twinObj.dict.map Prod.snd).Nodup ∧
    (twinObj.dict.map Prod.fst).Nodup := by decide
-- container_reads_own_series / toObj_getItem: h, hk
example : dictGet (containerTable twinObj.toStore).cols "size" = some [5, 6] :=
  (container_reads_own_series twinObj (by decide) "size" (by decide)).trans (by decide)
example : getItem exStore.toObj "_Y" = some [3, 4] :=
  (toObj_getItem exStore (by decide) "_Y" (by decide)).trans (by decide)

-- linker_tables (hnd, hname) / linker_tables_lookup (hnd, hm) / linker_tables_count (hnd): two submodels
def exSubs : List (String × Store Nat Nat) :=
  [("A", ⟨[0], [], ["Y"], fun _ => [1]⟩), ("B", ⟨[0], [], ["Z", "_w"], fun _ => [2]⟩)]
def exLinker : Store Nat Nat := ⟨[0], [], ["T"], fun _ => [5]⟩
example : (linkerTables "_" exLinker exSubs true false false).length = 2 + 1 :=
  (linker_tables "_" exLinker exSubs true false false (by decide) (by decide)).2
example : dictGet (linkerTables "_" exLinker exSubs true false false) "B" =
    some (modelTable ⟨[0], [], ["Z", "_w"], fun _ => [2]⟩ true false false) :=
  (linker_tables_lookup "_" exLinker exSubs true false false (by decide) "B" _ (by simp [exSubs, dictGet])).2
example : (linkerTables "A" exLinker exSubs true false false).length = 2 :=
  (linker_tables_count "A" exLinker exSubs true false false (by decide)).trans (by decide)

-- from_dataframe_roundtrip / _roundtrip_id (h, hN, hsub, hkw, hcast) / no_kwargsClash / from_dataframe_reads_own_series
example : ∃ m', fromTable (fun x : Nat => x) ⟨0, 7, 8⟩ ["Y", "_Y"] (modelTable exStore true true true) = some m' ∧
    m'.span = [3, 4] ∧ ∀ k ∈ ["Y", "_Y"], k ∈ exportNames exStore.names true → m'.data k = exStore.data k :=
  from_dataframe_roundtrip_id exStore (fun x => x) ⟨0, 7, 8⟩ ["Y", "_Y"] true true true exStore_ok (by decide) (by decide)
    exCtor_ok (fun _ _ _ _ => rfl)
example : ∃ m', fromTable (fun x : Nat => x + 100) ⟨0, 7, 8⟩ ["size", "Y"] (modelTable exStore false false false) = some m' ∧
    m'.span = exStore.span ∧ m'.names = ["size", "Y"] ∧
    (∀ k ∈ ["size", "Y"], k ∈ exportNames exStore.names false → m'.data k = (exStore.data k).map (· + 100)) ∧
    m'.data "status" = List.replicate exStore.span.length 7 ∧ m'.data "iterations" = List.replicate exStore.span.length 8 :=
  from_dataframe_roundtrip exStore (· + 100) ⟨0, 7, 8⟩ ["size", "Y"] false false false exStore_ok (by decide) (by decide)
    exCtor_ok
example : kwargsClash (modelTable exStore true true true).cols = false :=
  no_kwargsClash exStore true true true exStore_ok exCtor_ok
example : ∃ m', fromTable (fun x : Nat => x) ⟨0, 7, 8⟩ ["Y", "_Y", "size"] (modelTable twinObj.toStore false false true) =
    some m' ∧ m'.span = twinObj.span ∧ ∀ k ∈ ["Y", "_Y", "size"], k ∈ exportNames twinObj.names true →
      dictGet m'.toObj.dict (storageKey k) = some (((dictGet twinObj.dict (storageKey k)).getD []).map fun x => x) :=
  from_dataframe_reads_own_series twinObj (fun x => x) ⟨0, 7, 8⟩ ["Y", "_Y", "size"] false false true twin_ok (by decide)
    (by decide) (by decide) (by unfold CtorNamesOk; decide)

-- symbols: symbols_roundtrip (hv) / codeDecoder_ok_of_markers (h1 … h5, a coercion other than the installed one) /
-- present_strings_roundtrip (h) / normalising_decoder_breaks_roundtrip (h)
example : tableToSymbols codeDecoder (symbolsToTable installed witnessYC) = some (witnessYC.map Symbol.toPy) :=
  symbols_roundtrip witnessYC (by decide)
def exCoercion : Coercion := ⟨.none, .nan, .none, .nan, fun i => .int i⟩
example : DecoderOk codeDecoder exCoercion :=
  codeDecoder_ok_of_markers exCoercion rfl rfl rfl rfl (fun _ => Or.inl rfl)
example : RoundTrips codeDecoder exCoercion witnessYC :=
  symbols_roundtrip_of_decoderOk codeDecoder exCoercion
    (codeDecoder_ok_of_markers exCoercion rfl rfl rfl rfl (fun _ => Or.inl rfl)) witnessYC (by decide)
example : ([⟨.str "Y", 3, .int 0, .int 0, .str "Y[t] = C[t]", .str "self._Y[t] = self._C[t]"⟩,
      ⟨.str "C", 2, .int 0, .int 0, .none, .none⟩] : List PySymbol).length = witnessYC.length :=
  (present_strings_roundtrip installed witnessYC _ (by decide)).1
example : ¬ RoundTrips { codeDecoder with code := rstripOne } installed [full "x = 1 " 0] :=
  (normalising_decoder_breaks_roundtrip { codeDecoder with code := rstripOne } installed "x = 1 "
    (Or.inr (Or.inr (by decide)))).2

-- flags: export_depends_on_truthiness_only (hs, hi, hn) / export_args_depend_on_value_only with omitted keywords /
-- identity_test_breaks_export (h, ht, hf, hl) / from_dataframe_strict_* premises
example : modelTableF exStore (.npbool true) (.int 0) (.str "x") = modelTableF exStore (.int 5) (.bool false) (.bool true) :=
  export_depends_on_truthiness_only exStore _ _ _ _ _ _ (by decide) (by decide) (by decide)
example : modelTableA exStore none (some (.int 1)) none = modelTableA exStore (some (.npbool true)) none (some (.int 0)) :=
  export_args_depend_on_value_only exStore _ _ _ _ _ _ (by decide) (by decide) (by decide)
example : identityTable flagLabel exStore (.int 1) (.bool false) (.bool true) ≠
    modelTableF exStore (.int 1) (.bool false) (.bool true) :=
  identity_test_breaks_export flagLabel exStore exStore_ok (.int 1) (.bool true) (by decide) (by decide) (by decide)
example : fromTableStrict (fun x : Nat => x) ⟨0, 7, 8⟩ ["Y", "_Y", "size"] (some (.npbool true))
      (modelTable exStore false false true) =
    fromTable (fun x : Nat => x) ⟨0, 7, 8⟩ ["Y", "_Y", "size"] (modelTable exStore false false true) :=
  from_dataframe_strict_data_columns _ _ _ _ _ (by decide)

-- mixins: wrapChain_forwards (h) / wrapChain_dropping_internal_differs_iff (hws, h) / internal_flag_matters_iff (h)
example : wrapChain [mixinWrapper false [("Y", "GDP")] .alias, mixinWrapper false [] .tracer] (modelExport exStore) =
    modelExport exStore :=
  wrapChain_forwards _ _ (by
    intro w hw
    simp only [List.mem_cons, List.not_mem_nil, or_false] at hw
    rcases hw with rfl | rfl <;> exact ⟨fun _ => rfl, fun _ => rfl⟩)
example : modelTable exStore true true false ≠ modelTable exStore true true true :=
  (internal_flag_matters_iff exStore true true exStore_ok).2 ⟨"_Y", by decide, by decide⟩
example : ∃ f, wrapChain [mixinWrapper false [] .tracer] (wrapExport (dropsInternal false) (modelExport exStore)) f ≠
    modelExport exStore f :=
  (wrapChain_dropping_internal_differs_iff [mixinWrapper false [] .tracer]
    (by intro w hw; simp only [List.mem_cons, List.not_mem_nil, or_false] at hw; subst hw; exact ⟨fun _ => rfl, fun _ => rfl⟩)
    false exStore exStore_ok).2 ⟨"_Y", by decide, by decide⟩

end Fsic.C19
