import Proofs.C02
import Proofs.C06
import FsicModel.Frame
/-
C04 — Solving a period touches only that period; reads never wrap round the span.

The solver side is `solveT` (M1); the generated `_evaluate` is `runPass` (FsicModel/Frame.lean).  All statements
are for every store obeying the get/set laws, every list of statements, every option set, span length, period.
-/
set_option linter.unusedSimpArgs false
set_option linter.unusedVariables false
namespace Fsic.C04
open Fsic

/-! ### What an evaluation pass writes -/

section Pass
variable {σ C X : Type} (S : Cells σ C X)

theorem runPass_cons_none (t : Int) (a : Assign σ C X) (rest : List (Assign σ C X)) (u : σ)
    (h : a.value u t = none) : runPass S t (a :: rest) u = (u, true) := by
  simp [runPass, h]

theorem runPass_cons_some (t : Int) (a : Assign σ C X) (rest : List (Assign σ C X)) (u : σ) (x : X)
    (h : a.value u t = some x) : runPass S t (a :: rest) u = runPass S t rest (S.set u (a.target t) x) := by
  simp [runPass, h]

/-- **Pass frame.** One evaluation pass changes no cell other than the ones its statements assign for period `t`
    (whether or not it raises half-way). -/
theorem runPass_frame (t : Int) : ∀ (stmts : List (Assign σ C X)) (u : σ) (c : C),
    (∀ a ∈ stmts, a.target t ≠ c) → S.get (runPass S t stmts u).1 c = S.get u c := by
  intro stmts
  induction stmts with
  | nil => intro u c _; rfl
  | cons a rest ih =>
    intro u c h
    cases hv : a.value u t with
    | none => rw [runPass_cons_none S t a rest u hv]
    | some x =>
      rw [runPass_cons_some S t a rest u x hv]
      rw [ih _ _ (fun b hb => h b (List.mem_cons_of_mem _ hb))]
      exact S.get_set_other _ _ _ _ (fun e => h a List.mem_cons_self e.symm)

/-- **Gauss-Seidel.** The statement after a completed prefix sees the values that prefix assigned. -/
theorem runPass_append (t : Int) (pre post : List (Assign σ C X)) (u : σ) :
    runPass S t (pre ++ post) u =
      if (runPass S t pre u).2 = true then runPass S t pre u else runPass S t post (runPass S t pre u).1 := by
  induction pre generalizing u with
  | nil => simp [runPass]
  | cons a rest ih =>
    cases hv : a.value u t with
    | none =>
      rw [List.cons_append, runPass_cons_none S t a _ u hv, runPass_cons_none S t a rest u hv]
      simp
    | some x =>
      rw [List.cons_append, runPass_cons_some S t a _ u x hv, runPass_cons_some S t a rest u x hv]
      exact ih _

/-- The last statement of a completed pass stores exactly the value of its right-hand side in the state left by
    the earlier statements. -/
theorem runPass_last (t : Int) (pre : List (Assign σ C X)) (a : Assign σ C X) (u : σ) (x : X)
    (hpre : (runPass S t pre u).2 = false) (hx : a.value (runPass S t pre u).1 t = some x) :
    S.get (runPass S t (pre ++ [a]) u).1 (a.target t) = x := by
  rw [runPass_append]
  simp [hpre, runPass, hx, S.get_set_same]

end Pass

/-! ### What `solve_t` writes -/

section Solve
variable {σ V C X : Type} (S : Cells σ C X) (I : Interp σ V) (o : Opts) (n : Nat) (t : Int)

/-- **Period frame.** If the pre/post hooks leave the store alone (the generated ones are `pass`), every evaluation
    pass at `t` changes only cells in `W`, and the offset copy changes only cells in `K`, then after
    `solve_t(t, …)` — solved, failed, skipped, raised, anything — every cell outside `W ∪ K` holds what it held. -/
theorem solveT_cells_frame (W K : C → Prop) (w : World σ)
    (hcopy : ∀ u c, ¬ K c → S.get (I.copyOffset u t o.offset) c = S.get u c)
    (hbefore : ∀ u c, S.get (I.before o u t).1 c = S.get u c)
    (heval : ∀ u k c, ¬ W c → S.get (I.eval o u t k).1 c = S.get u c)
    (hafter : ∀ u k c, S.get (I.after o u t k).1 c = S.get u c)
    (c : C) (hc : ¬ W c ∧ ¬ K c) :
    S.get (solveT I o n t w).1.user c = S.get w.user c := by
  apply solveT_inv I o t (fun u => S.get u c = S.get w.user c) _ n w rfl
  constructor
  · intro _ u h; rw [hcopy u c hc.2]; exact h
  · intro u h; rw [hbefore]; exact h
  · intro u k h; rw [heval u k c hc.1]; exact h
  · intro u k h; rw [hafter]; exact h

/-- With `offset = 0` nothing is copied: only the pass's own cells can change. -/
theorem solveT_cells_frame_no_offset (W : C → Prop) (w : World σ) (h0 : o.offset = 0)
    (hbefore : ∀ u c, S.get (I.before o u t).1 c = S.get u c)
    (heval : ∀ u k c, ¬ W c → S.get (I.eval o u t k).1 c = S.get u c)
    (hafter : ∀ u k c, S.get (I.after o u t k).1 c = S.get u c)
    (c : C) (hc : ¬ W c) :
    S.get (solveT I o n t w).1.user c = S.get w.user c := by
  apply solveT_inv I o t (fun u => S.get u c = S.get w.user c) _ n w rfl
  constructor
  · intro hoff; exact absurd h0 hoff
  · intro u h; rw [hbefore]; exact h
  · intro u k h; rw [heval u k c hc]; exact h
  · intro u k h; rw [hafter]; exact h

/-! ### The frame of a parser-built model, with nothing assumed about its passes -/

/-- A parser-built model as an interpretation: its evaluation pass is `runPass` of the generated statements (the same
    statements at every pass), its hooks are `pass`, the offset copy writes the endogenous cells of period `t`. -/
def generated (S : Cells σ C X) (stmts : List (Assign σ C X)) (endoCell : List (Int → C))
    (copy : σ → Int → Int → σ) (lags leads : Nat) (check : σ → Int → V) (allFinite : V → Bool)
    (close : V → V → Bool) (zeroNF : V → V) : Interp σ V where
  lags := lags
  leads := leads
  check := check
  allFinite := allFinite
  close := close
  zeroNF := zeroNF
  copyOffset := copy
  before _ u _ := (u, false)
  eval _ u t _ := runPass S t stmts u
  after _ u _ _ := (u, false)

/-- **Period frame of a generated model** (no assumption about what a pass writes: it follows from the statements).
    After `solve_t(t, …)` — whatever its outcome — every cell that is neither the target `(lhs_i, t + k_i)` of one of
    the model's statements nor an endogenous cell of period `t` (touched only when `offset ≠ 0`) holds what it held. -/
theorem generated_model_frame (stmts : List (Assign σ C X)) (endoCell : List (Int → C))
    (copy : σ → Int → Int → σ) (lags leads : Nat) (check : σ → Int → V) (allFinite : V → Bool)
    (close : V → V → Bool) (zeroNF : V → V)
    (hcopy : ∀ u c, (∀ e ∈ endoCell, e t ≠ c) → S.get (copy u t o.offset) c = S.get u c)
    (w : World σ) (c : C)
    (hstmt : ∀ a ∈ stmts, a.target t ≠ c) (hendo : o.offset ≠ 0 → ∀ e ∈ endoCell, e t ≠ c) :
    S.get (solveT (generated S stmts endoCell copy lags leads check allFinite close zeroNF) o n t w).1.user c
      = S.get w.user c := by
  apply solveT_inv _ o t (fun u => S.get u c = S.get w.user c) _ n w rfl
  constructor
  · intro hoff u h
    show S.get (copy u t o.offset) c = _
    rw [hcopy u c (hendo hoff)]; exact h
  · intro u h; exact h
  · intro u k h
    show S.get (runPass S t stmts u).1 c = _
    rw [runPass_frame S t stmts u c hstmt]; exact h
  · intro u k h; exact h

/-! ### …and of a multi-period `solve()` -/

/-- Anything every single-period solve of the listed periods preserves is preserved by the period loop of `solve()`,
    whatever its outcome (completed, or stopped by the first exception). -/
theorem solveList_inv {σ V : Type} (I : Interp σ V) (o : Opts) (n : Nat) (P : σ → Prop) :
    ∀ (ps : List Nat), (∀ p ∈ ps, ∀ w : World σ, P w.user → P (solveT I o n (p : Int) w).1.user) →
      ∀ (w : World σ) (acc : List Nat) (fs : List Bool), P w.user → P (solveList I o n ps w acc fs).1.user := by
  intro ps
  induction ps with
  | nil => intro _ w acc fs hw; exact hw
  | cons p rest ih =>
    intro h w acc fs hw
    unfold solveList
    have hp := h p List.mem_cons_self w hw
    rcases hs : solveT I o n (p : Int) w with ⟨w', r⟩
    rw [hs] at hp
    cases r with
    | ret b => exact ih (fun q hq => h q (List.mem_cons_of_mem _ hq)) w' _ _ hp
    | valueError => exact hp
    | indexError => exact hp
    | solutionError c => exact hp
    | nonConvergence => exact hp
    | badErrorsArg => exact hp

/-- **Frame of `solve()` over a list of periods, for a generated model.**  A cell that is not the target of any of the
    model's statements at any of the visited periods, nor (when `offset ≠ 0`) an endogenous cell of a visited period,
    holds after `solve()` what it held before — whether the run completes or stops at the first failing period. -/
theorem generated_solve_frame (stmts : List (Assign σ C X)) (endoCell : List (Int → C))
    (copy : σ → Int → Int → σ) (lags leads : Nat) (check : σ → Int → V) (allFinite : V → Bool)
    (close : V → V → Bool) (zeroNF : V → V) (ps : List Nat)
    (hcopy : ∀ p ∈ ps, ∀ u c, (∀ e ∈ endoCell, e (p : Int) ≠ c) → S.get (copy u (p : Int) o.offset) c = S.get u c)
    (w : World σ) (acc : List Nat) (fs : List Bool) (c : C)
    (hstmt : ∀ p ∈ ps, ∀ a ∈ stmts, a.target (p : Int) ≠ c)
    (hendo : o.offset ≠ 0 → ∀ p ∈ ps, ∀ e ∈ endoCell, e (p : Int) ≠ c) :
    S.get (solveList (generated S stmts endoCell copy lags leads check allFinite close zeroNF) o n ps w acc fs).1.user c
      = S.get w.user c := by
  apply solveList_inv _ o n (fun u => S.get u c = S.get w.user c) ps _ w acc fs rfl
  intro p hp w' hw'
  rw [generated_model_frame S o n (p : Int) stmts endoCell copy lags leads check allFinite close zeroNF
    (hcopy p hp) w' c (hstmt p hp) (fun ho => hendo ho p hp)]
  exact hw'

/-- `status` / `iterations` change at most at `t` (restated from the shared lemma). -/
theorem series_frame (w : World σ) (j : Nat) (hj : pyIndex n t ≠ some j) :
    (solveT I o n t w).1.status[j]? = w.status[j]? ∧ (solveT I o n t w).1.iters[j]? = w.iters[j]? :=
  solveT_series_frame I o n t w j hj

/-- **A call rejected up front changes nothing at all**: bad min/max_iter, a period that cannot accommodate the
    lags/leads, an out-of-span offset, pre-existing non-finite check values under `errors='raise'`
    (for `offset = 0`; with a non-zero offset the copy has already been made when the values are inspected). -/
theorem rejected_unchanged (w : World σ)
    (h : o.minIter > o.maxIter
       ∨ (¬ o.minIter > o.maxIter ∧ ¬ Feasible I n t)
       ∨ (¬ o.minIter > o.maxIter ∧ o.offset ≠ 0 ∧ (normT n t + o.offset < 0 ∨ normT n t + o.offset ≥ n))
       ∨ (Accepted I o n t ∧ o.errors = .raise ∧ o.offset = 0 ∧ I.allFinite (I.check w.user t) = false)) :
    (solveT I o n t w).1 = w := by
  rcases h with h | ⟨h0, h⟩ | ⟨h0, h1, h2⟩ | ⟨ha, he, h0, hn⟩
  · rw [C02.solveT_min_gt_max I o n t w h]
  · rw [C02.solveT_infeasible I o n t w h0 h]
  · rw [C02.solveT_offset_oob I o n t w h0 h1 h2]
  · rw [C06.preexisting_nonfinite_unchanged I o n t w ha he h0 hn]

end Solve

/-! ### Reads never wrap -/

/-- **Reads in span.** If `lags`/`leads` bound every offset written in the script, then at every period the solver
    accepts (in particular every period of the default range) a read at offset `k` addresses a position inside
    the span, exactly `k` away from `t` … -/
theorem reads_in_span (n lags leads : Nat) (t k : Int)
    (hk1 : -(lags : Int) ≤ k) (hk2 : k ≤ leads)
    (hf : 0 ≤ normT n t - lags ∧ normT n t + leads < n) :
    0 ≤ cellPos n t k ∧ cellPos n t k < n := by
  unfold cellPos; omega

/-- … and the Python index `t + k` the generated code uses denotes that same position (no wrap-around), for either
    spelling of `t`. -/
theorem read_index_no_wrap (n lags leads : Nat) (t k : Int) (ht : -(n : Int) ≤ t) (ht' : t < n)
    (hk1 : -(lags : Int) ≤ k) (hk2 : k ≤ leads)
    (hf : 0 ≤ normT n t - lags ∧ normT n t + leads < n) :
    pyIndex n (t + k) = some (cellPos n t k).toNat := by
  have h := reads_in_span n lags leads t k hk1 hk2 hf
  exact C02.pyIndex_offset n t k ht ht' h.1 h.2

/-- The default range `lags … n-1-leads` consists of feasible periods only, and of all of them. -/
theorem default_range_is_feasible (n lags leads : Nat) (p : Nat) :
    p ∈ periodRange lags (n - 1 - leads) ∧ leads < n ↔ feasibleB n lags leads (p : Int) = true := by
  unfold feasibleB periodRange normT
  simp only [List.mem_map, List.mem_range, decide_eq_true_eq]
  have hp : ¬ ((p : Int) < 0) := by omega
  simp only [hp, if_false]
  constructor
  · rintro ⟨⟨i, hi, rfl⟩, hl⟩; omega
  · rintro ⟨h1, h2⟩; exact ⟨⟨p - lags, by omega, by omega⟩, by omega⟩

/-- **Infeasible periods are rejected.** If some term of the script has an offset `k` with `t + k` outside the
    span, and `lags`/`leads` cover that offset, the period is not feasible — so `solve_t` raises IndexError and
    changes nothing (by `rejected_unchanged`) rather than reading the opposite end of the span. -/
theorem infeasible_period_rejected {σ V : Type} (I : Interp σ V) (o : Opts) (n : Nat) (t k : Int) (w : World σ)
    (h0 : ¬ o.minIter > o.maxIter)
    (hk1 : k < 0 → -k ≤ I.lags) (hk2 : 0 < k → k ≤ I.leads)
    (hout : cellPos n t k < 0 ∨ cellPos n t k ≥ n) (ht : 0 ≤ normT n t ∧ normT n t < n) :
    solveT I o n t w = (w, .indexError) := by
  apply C02.solveT_infeasible I o n t w h0
  unfold Feasible
  unfold cellPos at hout
  omega

/-- `feasibleB` is the decision procedure for `Feasible`. -/
theorem feasibleB_iff {σ V : Type} (I : Interp σ V) (n : Nat) (t : Int) :
    feasibleB n I.lags I.leads t = true ↔ Feasible I n t := by
  simp [feasibleB, Feasible]

/-! ### Non-vacuity -/

def funCells : Cells (Nat → Nat) Nat Nat where
  get u c := u c
  set u c x := fun c' => if c' = c then x else u c'
  get_set_same := by intro u c x; simp
  get_set_other := by intro u c c' x h; simp [h]

/-- Two statements at `t = 2`: cell 2 := u[0] + 1, then cell 3 := u[2] * 10 — the second sees the first's store
    (Gauss-Seidel), and cell 7 is untouched. -/
example :
    let r := (runPass funCells 2
      [⟨fun t => t.toNat, fun u _ => some (u 0 + 1)⟩, ⟨fun t => t.toNat + 1, fun u t => some (u t.toNat * 10)⟩]
      (fun _ => 4)).1
    (r 2, r 3, r 7) = (5, 50, 4) := by decide

example : feasibleB 5 1 1 0 = false ∧ feasibleB 5 1 1 1 = true ∧ feasibleB 5 1 1 (-1) = false
    ∧ feasibleB 5 1 1 (-2) = true := by decide

/-! ### Non-vacuity (review): every hypothesis-carrying theorem instantiated at a concrete non-trivial instance -/

private def exStmts : List (Assign (Nat → Nat) Nat Nat) :=
  [⟨fun t => t.toNat, fun u _ => some (u 0 + 1)⟩, ⟨fun t => t.toNat + 1, fun u t => some (u t.toNat * 10)⟩]

private theorem exStmts_targets (c : Nat) (h : ¬ (c = 2 ∨ c = 3)) : ∀ a ∈ exStmts, a.target 2 ≠ c := by
  intro a ha e
  unfold exStmts at ha
  cases ha with
  | head => exact h (Or.inl e.symm)
  | tail _ ha =>
    cases ha with
    | head => exact h (Or.inr e.symm)
    | tail _ ha => cases ha

/-- `runPass_frame` (cell 7 is no target at `t = 2`, for every start state) and `runPass_last` (the second statement
    stores `u[2] * 10` computed on the store left by the first). -/
example (u : Nat → Nat) : funCells.get (runPass funCells 2 exStmts u).1 7 = funCells.get u 7 :=
  runPass_frame funCells 2 exStmts u 7 (exStmts_targets 7 (by decide))
example : funCells.get (runPass funCells 2 ([⟨fun t => t.toNat, fun u _ => some (u 0 + 1)⟩] ++
      [⟨fun t => t.toNat + 1, fun u t => some (u t.toNat * 10)⟩]) (fun _ => 4)).1 3 = 50 :=
  runPass_last funCells 2 [⟨fun t => t.toNat, fun u _ => some (u 0 + 1)⟩]
    ⟨fun t => t.toNat + 1, fun u t => some (u t.toNat * 10)⟩ (fun _ => 4) 50 (by decide) (by decide)

/-- `generated_model_frame` on the two-statement model above, with an offset copy of cell 2 from cell `2 + offset`: for
    every world and every option set, `solve_t(2, …)` leaves cell 7 alone (targets at t = 2 are cells 2 and 3). -/
example (o : Opts) (w : World (Nat → Nat)) :
    funCells.get (solveT (generated (V := Nat) funCells exStmts [fun t => t.toNat]
        (fun u t off => fun c => if c = t.toNat then u (t + off).toNat else u c) 0 0
        (fun u t => u t.toNat) (fun _ => true) (fun a b => a == b) id) o 5 2 w).1.user 7 = funCells.get w.user 7 :=
  generated_model_frame funCells o 5 2 exStmts [fun t => t.toNat] _ 0 0 _ _ _ _
    (by intro u c h; have : c ≠ 2 := fun e => h _ List.mem_cons_self (by simp [e]); simp [funCells, this])
    w 7 (exStmts_targets 7 (by decide)) (by intro _ e he; simp at he; subst he; decide)

/-- `generated_solve_frame`: solving periods 1 and 2 of the two-statement model (targets: cells 1, 2 and 2, 3) leaves
    cell 7 alone, for every world, option set and accumulated result. -/
example (o : Opts) (w : World (Nat → Nat)) :
    funCells.get (solveList (generated (V := Nat) funCells exStmts [fun t => t.toNat]
        (fun u t off => fun c => if c = t.toNat then u (t + off).toNat else u c) 0 0
        (fun u t => u t.toNat) (fun _ => true) (fun a b => a == b) id) o 5 [1, 2] w [] []).1.user 7
      = funCells.get w.user 7 := by
  apply generated_solve_frame funCells o 5 exStmts [fun t => t.toNat] _ 0 0 _ _ _ _ [1, 2]
  · intro p hp u c h
    have hc : c ≠ p := fun e => h _ List.mem_cons_self (by simp [e])
    simp [funCells, hc]
  · intro p hp a ha
    have hp' : p = 1 ∨ p = 2 := by simpa using hp
    unfold exStmts at ha
    rcases hp' with rfl | rfl <;> (cases ha with
      | head => decide
      | tail _ ha => cases ha with
        | head => decide
        | tail _ ha => cases ha)
  · intro _ p hp e he
    have hp' : p = 1 ∨ p = 2 := by simpa using hp
    simp at he; subst he
    rcases hp' with rfl | rfl <;> decide

/-- A model whose evaluation pass IS `runPass` of the two generated statements, with a real offset copy. -/
private def exIC : Interp (Nat → Nat) Nat where
  lags := 0
  leads := 0
  check u t := u t.toNat
  allFinite _ := true
  close a b := a == b
  zeroNF v := v
  copyOffset u t off := funCells.set u t.toNat (u (t + off).toNat)
  before _ u _ := (u, false)
  eval _ u t _ := runPass funCells t exStmts u
  after _ u _ _ := (u, false)

/-- `solveT_cells_frame` (offset −1: `K` = cell 2, `W` = cells 2, 3) and `solveT_cells_frame_no_offset`, composed
    with `runPass_frame`: solving period 2 of 5 leaves cell 7 alone, from every world. -/
example (w : World (Nat → Nat)) :
    funCells.get (solveT exIC { offset := -1 } 5 2 w).1.user 7 = funCells.get w.user 7 :=
  solveT_cells_frame funCells exIC { offset := -1 } 5 2 (fun c => c = 2 ∨ c = 3) (fun c => c = 2) w
    (fun u c hK => funCells.get_set_other u 2 c _ hK) (fun _ _ => rfl)
    (fun u _ c hW => runPass_frame funCells 2 exStmts u c (exStmts_targets c hW)) (fun _ _ _ => rfl) 7 (by decide)
example (w : World (Nat → Nat)) : funCells.get (solveT exIC {} 5 2 w).1.user 7 = funCells.get w.user 7 :=
  solveT_cells_frame_no_offset funCells exIC {} 5 2 (fun c => c = 2 ∨ c = 3) w rfl (fun _ _ => rfl)
    (fun u _ c hW => runPass_frame funCells 2 exStmts u c (exStmts_targets c hW)) (fun _ _ _ => rfl) 7 (by decide)
/-- … and the solve does run passes there (cell 3 becomes 50 from the all-4 state). -/
example : (solveT exIC {} 5 2 ⟨fun _ => 4, List.replicate 5 .unsolved, List.replicate 5 (-1)⟩).1.user 3 = 50 := by
  decide

/-- `series_frame`: solving period 2 of 5 leaves `status[3]` / `iterations[3]` alone. -/
example (w : World Nat) : (solveT C02.exI {} 5 2 w).1.status[3]? = w.status[3]? ∧
    (solveT C02.exI {} 5 2 w).1.iters[3]? = w.iters[3]? :=
  series_frame C02.exI {} 5 2 w 3 (by decide)

private def exILag : Interp Unit Unit :=
  { lags := 1, leads := 1, check := fun _ _ => (), allFinite := fun _ => true, close := fun _ _ => true,
    zeroNF := id, copyOffset := fun u _ _ => u, before := fun _ u _ => (u, false),
    eval := fun _ u _ _ => (u, false), after := fun _ u _ _ => (u, false) }

/-- `rejected_unchanged`: each of its four disjuncts is satisfiable. -/
example (w : World Nat) : (solveT C02.exI { minIter := 10, maxIter := 5 } 5 2 w).1 = w :=
  rejected_unchanged C02.exI _ 5 2 w (Or.inl (by decide))
example (w : World Unit) : (solveT exILag {} 5 (-1) w).1 = w :=
  rejected_unchanged exILag _ 5 (-1) w (Or.inr (Or.inl ⟨by decide, by unfold Feasible; decide⟩))
example (w : World Nat) : (solveT C02.exI { offset := 1 } 5 (-1) w).1 = w :=
  rejected_unchanged C02.exI _ 5 (-1) w (Or.inr (Or.inr (Or.inl ⟨by decide, by decide, by decide⟩)))
example : (solveT C06.exI { errors := .raise } 3 1 ⟨99, [.unsolved, .solved, .unsolved], [-1, 4, -1]⟩).1 =
    ⟨99, [.unsolved, .solved, .unsolved], [-1, 4, -1]⟩ :=
  rejected_unchanged C06.exI _ 3 1 _
    (Or.inr (Or.inr (Or.inr ⟨by unfold Accepted Feasible; decide, rfl, rfl, by decide⟩)))

/-- `reads_in_span` / `read_index_no_wrap`: `LAGS = LEADS = 1`, `n = 5`, `t = -2` (position 3), lead `+1` reads
    position 4 (Python index `-1`), not a wrapped one. -/
example : 0 ≤ cellPos 5 (-2) 1 ∧ cellPos 5 (-2) 1 < (5 : Nat) :=
  reads_in_span 5 1 1 (-2) 1 (by decide) (by decide) (by decide)
example : pyIndex 5 (-2 + 1) = some 4 :=
  read_index_no_wrap 5 1 1 (-2) 1 (by decide) (by decide) (by decide) (by decide) (by decide)

/-- `infeasible_period_rejected`: a lag of 1 at period 0 of 5 (would read index −1 = the LAST period). -/
example (w : World Unit) : solveT exILag {} 5 0 w = (w, .indexError) :=
  infeasible_period_rejected exILag {} 5 0 (-1) w (by decide) (by decide) (by decide) (by decide) (by decide)

end Fsic.C04
